import PymtlVerif.Proofs.Bits
/-!
# C04 — Bits arithmetic is exact unsigned arithmetic modulo 2^n

Property theorems only (helper lemmas live in `Proofs/Bits.lean`). Every statement is for an
arbitrary width `n` and arbitrary operands; `x = ⟨n, a⟩`, `y = ⟨n, b⟩` with `a b < 2^n`.
The model (`Model/Bits.lean`) follows `PythonBits.py` method by method; the correspondence
check `harness/checks/c04.py` runs model and implementation on the same operands.
-/
namespace PV.C04
open PV.Bits

/-- The mask tables the module builds by shifting are `2^n - 1` and `-2^(n-1)`. -/
theorem tables (n : Nat) : upperTab n = upper n ∧ (1 ≤ n → lowerTab n = lower n) :=
  ⟨upperTab_eq n, lowerTab_eq n⟩

/-! ## arithmetic -/

theorem add_spec (n a b : Nat) :
    binop .add ⟨n, a⟩ (.bits ⟨n, b⟩) = .ok ⟨n, (a + b) % 2 ^ n⟩ := by
  simp [binop, binRaw]

theorem sub_spec (n a b : Nat) (hb : b < 2 ^ n) :
    binop .sub ⟨n, a⟩ (.bits ⟨n, b⟩) = .ok ⟨n, (a + 2 ^ n - b) % 2 ^ n⟩ := by
  simp [binop, binRaw, maskInt_sub n a b (Nat.le_of_lt hb)]

theorem mul_spec (n a b : Nat) :
    binop .mul ⟨n, a⟩ (.bits ⟨n, b⟩) = .ok ⟨n, (a * b) % 2 ^ n⟩ := by
  simp [binop, binRaw]

theorem div_spec (n a b : Nat) :
    binop .floordiv ⟨n, a⟩ (.bits ⟨n, b⟩) = (if b = 0 then .error .zerodiv else .ok ⟨n, a / b⟩) ∧
    binop .mod ⟨n, a⟩ (.bits ⟨n, b⟩) = (if b = 0 then .error .zerodiv else .ok ⟨n, a % b⟩) := by
  by_cases h : b = 0 <;> simp [binop, binRaw, h]

/-! ## bitwise -/

theorem bitwise_spec (n a b : Nat) :
    binop .and ⟨n, a⟩ (.bits ⟨n, b⟩) = .ok ⟨n, a &&& b⟩ ∧
    binop .or  ⟨n, a⟩ (.bits ⟨n, b⟩) = .ok ⟨n, a ||| b⟩ ∧
    binop .xor ⟨n, a⟩ (.bits ⟨n, b⟩) = .ok ⟨n, a ^^^ b⟩ := by
  simp [binop, binRaw]

/-- `~x` is the one's complement inside the width. -/
theorem invert_spec (n a : Nat) (ha : a < 2 ^ n) : invert ⟨n, a⟩ = ⟨n, 2 ^ n - 1 - a⟩ := by
  simp [invert, maskInt_neg_succ n a ha]

/-- bit `i` of `~x` is the negation of bit `i` of `x`, for every bit inside the width -/
theorem invert_testBit (n a i : Nat) (ha : a < 2 ^ n) (hi : i < n) :
    (invert ⟨n, a⟩).v.testBit i = !a.testBit i := by
  rw [invert_spec n a ha]
  have : 2 ^ n - 1 - a = 2 ^ n - (a + 1) := by omega
  rw [this, Nat.testBit_two_pow_sub_succ ha]
  simp [hi]

/-! ## shifts -/

theorem shift_spec (n a b : Nat) :
    binop .lshift ⟨n, a⟩ (.bits ⟨n, b⟩) = .ok ⟨n, if b ≥ n then 0 else (a * 2 ^ b) % 2 ^ n⟩ ∧
    binop .rshift ⟨n, a⟩ (.bits ⟨n, b⟩) = .ok ⟨n, a / 2 ^ b⟩ := by
  constructor
  · by_cases h : b ≥ n <;> simp [binop, binRaw, h, Nat.shiftLeft_eq]
  · simp [binop, binRaw, Nat.shiftRight_eq_div_pow]

/-! ## comparisons -/

theorem cmp_spec (n a b : Nat) (op : CmpOp) :
    cmpop op ⟨n, a⟩ (.bits ⟨n, b⟩) = .ok ⟨1, if cmpRaw op a b then 1 else 0⟩ := by
  simp [cmpop, b1]

theorem cmpRaw_spec (a b : Nat) :
    (cmpRaw .eq a b = true ↔ a = b) ∧ (cmpRaw .ne a b = true ↔ a ≠ b) ∧
    (cmpRaw .lt a b = true ↔ a < b) ∧ (cmpRaw .le a b = true ↔ a ≤ b) ∧
    (cmpRaw .gt a b = true ↔ a > b) ∧ (cmpRaw .ge a b = true ↔ a ≥ b) := by
  simp [cmpRaw]

/-! ## errors instead of silent truncation -/

/-- operands of different widths: always an error, for every operator and comparison -/
theorem width_mismatch (n m a b : Nat) (h : m ≠ n) (op : BinOp) (cop : CmpOp) :
    binop op ⟨n, a⟩ (.bits ⟨m, b⟩) = .error .width ∧
    cmpop cop ⟨n, a⟩ (.bits ⟨m, b⟩) = .error .width := by
  simp [binop, cmpop, h]

/-- an int operand that fits behaves exactly like the Bits of the same width; one that does not
fit (negative or ≥ 2^n) is an error — never truncated -/
theorem int_operand (n a : Nat) (k : Int) (op : BinOp) (cop : CmpOp) :
    ((0 ≤ k ∧ k < 2 ^ n) →
        binop op ⟨n, a⟩ (.int k) = binop op ⟨n, a⟩ (.bits ⟨n, k.toNat⟩) ∧
        cmpop cop ⟨n, a⟩ (.int k) = cmpop cop ⟨n, a⟩ (.bits ⟨n, k.toNat⟩)) ∧
    ((k < 0 ∨ k ≥ 2 ^ n) →
        binop op ⟨n, a⟩ (.int k) = .error .range ∧ cmpop cop ⟨n, a⟩ (.int k) = .error .range) := by
  have hp := Nat.two_pow_pos n
  have hu : ((upper n : Nat) : Int) = 2 ^ n - 1 := by
    unfold upper; have : ((2 ^ n : Nat) : Int) = (2 : Int) ^ n := by simp
    omega
  constructor
  · intro ⟨h0, h1⟩
    have : ¬ (k < 0 ∨ k > (upper n : Int)) := by omega
    simp [binop, cmpop, this]
  · intro h
    have : (k < 0 ∨ k > (upper n : Int)) := by omega
    simp [binop, cmpop, this]

/-- reflected forms: commutative operators equal the forward form; `k - x`, `k // x`, `k % x`
are computed with the int on the left; an int that does not fit is an error -/
theorem reflected (n a : Nat) (k : Nat) (hk : k < 2 ^ n) (ha : a < 2 ^ n) :
    rbinop .add (.int k) ⟨n, a⟩ = .ok ⟨n, (a + k) % 2 ^ n⟩ ∧
    rbinop .mul (.int k) ⟨n, a⟩ = .ok ⟨n, (a * k) % 2 ^ n⟩ ∧
    rbinop .and (.int k) ⟨n, a⟩ = .ok ⟨n, a &&& k⟩ ∧
    rbinop .or  (.int k) ⟨n, a⟩ = .ok ⟨n, a ||| k⟩ ∧
    rbinop .xor (.int k) ⟨n, a⟩ = .ok ⟨n, a ^^^ k⟩ ∧
    rbinop .sub (.int k) ⟨n, a⟩ = .ok ⟨n, (k + 2 ^ n - a) % 2 ^ n⟩ ∧
    rbinop .floordiv (.int k) ⟨n, a⟩ = (if a = 0 then .error .zerodiv else .ok ⟨n, k / a⟩) ∧
    rbinop .mod (.int k) ⟨n, a⟩ = (if a = 0 then .error .zerodiv else .ok ⟨n, k % a⟩) := by
  have hle : k ≤ upper n := (le_upper_iff n k).mpr hk
  have hnot : ¬ (upper n < k) := by omega
  by_cases h0 : a = 0 <;>
    simp [rbinop, binop, binRaw, hnot, h0, maskInt_sub n k a (Nat.le_of_lt ha), maskInt_natCast]

theorem reflected_out_of_range (n a : Nat) (k : Int) (h : k < 0 ∨ k ≥ 2 ^ n) (op : BinOp) :
    rbinop op (.int k) ⟨n, a⟩ = .error .range ∨ rbinop op (.int k) ⟨n, a⟩ = .error .type := by
  have hp := Nat.two_pow_pos n
  have hu : ((upper n : Nat) : Int) = 2 ^ n - 1 := by
    unfold upper; have : ((2 ^ n : Nat) : Int) = (2 : Int) ^ n := by simp
    omega
  have : (k < 0 ∨ k > (upper n : Int)) := by omega
  cases op <;> simp [rbinop, binop, this]

/-! ## construction and assignment accept exactly -2^(n-1) .. 2^n - 1 -/

theorem ctor_spec (n : Nat) (h1 : 1 ≤ n) (h2 : n < 1024) (k : Int) :
    ((-(2 ^ (n - 1) : Int) ≤ k ∧ k < 2 ^ n) → ctor n (.int k) false = .ok ⟨n, maskInt n k⟩) ∧
    ((k < -(2 ^ (n - 1) : Int) ∨ k ≥ 2 ^ n) → ctor n (.int k) false = .error .range) := by
  have hp := Nat.two_pow_pos n
  have hu : ((upper n : Nat) : Int) = 2 ^ n - 1 := by
    unfold upper; have : ((2 ^ n : Nat) : Int) = (2 : Int) ^ n := by simp
    omega
  have hn : ¬ ((n : Int) < 1 ∨ (n : Int) ≥ 1024) := by omega
  constructor
  · intro ⟨ha, hb⟩
    have : ¬ (k < lower n ∨ k > (upper n : Int)) := by unfold lower; omega
    simp [ctor, hn, this]
  · intro h
    have : (k < lower n ∨ k > (upper n : Int)) := by unfold lower; omega
    simp [ctor, hn, this]

/-- the stored value: non-negative ints unchanged, negative ones in two's complement -/
theorem ctor_value (n : Nat) (k : Int) :
    (0 ≤ k → k < 2 ^ n → (maskInt n k : Int) = k) ∧
    (k < 0 → -(2 ^ n : Int) ≤ k → (maskInt n k : Int) = 2 ^ n + k) := by
  constructor
  · intro h0 h1
    have hk : k = (k.toNat : Int) := (Int.toNat_of_nonneg h0).symm
    have : k.toNat < 2 ^ n := by
      have : ((k.toNat : Nat) : Int) < ((2 ^ n : Nat) : Int) := by rw [← hk]; simpa using h1
      exact Int.ofNat_lt.mp this
    rw [hk, maskInt_of_lt n _ this]
  · exact maskInt_neg n k

theorem ctor_bad_width (nbits : Int) (v : Opnd) (t : Bool) (h : nbits < 1 ∨ nbits ≥ 1024) :
    ctor nbits v t = .error .range := by
  simp [ctor, h]

theorem ctor_from_bits (n m a : Nat) (h1 : 1 ≤ n) (h2 : n < 1024) (t : Bool) :
    ctor n (.bits ⟨m, a⟩) t = if n = m then .ok ⟨n, a⟩ else .error .width := by
  have hn : ¬ ((n : Int) < 1 ∨ (n : Int) ≥ 1024) := by omega
  by_cases h : n = m
  · subst h; simp [ctor, hn]
  · simp [ctor, hn, h]

/-- `@=` has the acceptance set of the constructor; a Bits of another width is an error -/
theorem assign_spec (n a : Nat) (k : Int) (m b : Nat) :
    ((-(2 ^ (n - 1) : Int) ≤ k ∧ k < 2 ^ n) → imatmul ⟨n, a⟩ (.int k) = .ok ⟨n, maskInt n k⟩) ∧
    ((k < -(2 ^ (n - 1) : Int) ∨ k ≥ 2 ^ n) → imatmul ⟨n, a⟩ (.int k) = .error .range) ∧
    (imatmul ⟨n, a⟩ (.bits ⟨m, b⟩) = if m = n then .ok ⟨n, b⟩ else .error .width) := by
  have hp := Nat.two_pow_pos n
  have hu : ((upper n : Nat) : Int) = 2 ^ n - 1 := by
    unfold upper; have : ((2 ^ n : Nat) : Int) = (2 : Int) ^ n := by simp
    omega
  refine ⟨?_, ?_, ?_⟩
  · intro ⟨ha, hb⟩
    have : ¬ (k < lower n ∨ k > (upper n : Int)) := by unfold lower; omega
    simp [imatmul, this]
  · intro h
    have : (k < lower n ∨ k > (upper n : Int)) := by unfold lower; omega
    simp [imatmul, this]
  · by_cases h : m = n <;> simp [imatmul, h]

/-- `<<=` does not change the visible value; the flip installs exactly what `@=` would have -/
theorem nb_assign_spec (x : Reg) (v : Opnd) (r : Reg) (h : ilshift x v = .ok r) :
    r.cur = x.cur ∧ ∃ b, imatmul x.cur v = .ok b ∧ Bits.flip r = some { r with cur := b } := by
  unfold ilshift at h
  cases hi : imatmul x.cur v with
  | error e => simp [hi] at h
  | ok b =>
    simp [hi] at h
    subst h
    refine ⟨rfl, b, rfl, ?_⟩
    have hn : b.n = x.cur.n := by
      unfold imatmul at hi
      cases v with
      | bits y => by_cases hh : y.n = x.cur.n <;> simp [hh] at hi; rw [← hi]
      | int k => by_cases hh : (k < lower x.cur.n ∨ k > (upper x.cur.n : Int)) <;> simp [hh] at hi; rw [← hi]
      | other => simp at hi
    simp [Bits.flip, ← hn]

/-! ## the range invariant: a stored value always lies in [0, 2^n) -/

theorem binRaw_lt (op : BinOp) (n a b r : Nat) (ha : a < 2 ^ n) (hb : b < 2 ^ n)
    (h : binRaw op n a b = .ok r) : r < 2 ^ n := by
  have hp := Nat.two_pow_pos n
  cases op <;> simp only [binRaw] at h
  · cases h; exact Nat.mod_lt _ hp
  · cases h; exact maskInt_lt _ _
  · cases h; exact Nat.mod_lt _ hp
  · cases h; exact Nat.and_lt_two_pow _ hb
  · cases h; exact Nat.or_lt_two_pow ha hb
  · cases h; exact Nat.xor_lt_two_pow ha hb
  · by_cases hz : b = 0 <;> simp [hz] at h
    subst h; exact Nat.lt_of_le_of_lt (Nat.div_le_self _ _) ha
  · by_cases hz : b = 0 <;> simp [hz] at h
    subst h; exact Nat.lt_of_le_of_lt (Nat.mod_le _ _) ha
  · by_cases hz : b ≥ n <;> simp [hz] at h
    · subst h; exact hp
    · subst h; exact Nat.mod_lt _ hp
  · cases h; exact Nat.lt_of_le_of_lt (Nat.shiftRight_le _ _) ha

theorem range_invariant_binop (op : BinOp) (x : B) (y : Opnd) (r : B)
    (hx : x.Wf) (hy : y.Wf) (h : binop op x y = .ok r) : r.Wf := by
  obtain ⟨h1, h2, h3⟩ := hx
  unfold binop at h
  cases y with
  | other => simp at h
  | bits b =>
    obtain ⟨_, _, hb3⟩ := hy
    by_cases hw : b.n = x.n <;> simp [hw] at h
    cases hr : binRaw op x.n x.v b.v with
    | error e => simp [hr] at h
    | ok q =>
      simp [hr] at h; subst h
      exact ⟨h1, h2, binRaw_lt op _ _ _ _ h3 (hw ▸ hb3) hr⟩
  | int k =>
    by_cases hk : (k < 0 ∨ k > (upper x.n : Int)) <;> simp [hk] at h
    have hkn : k.toNat < 2 ^ x.n := by
      have : k.toNat ≤ upper x.n := by omega
      exact (le_upper_iff _ _).mp this
    cases hr : binRaw op x.n x.v k.toNat with
    | error e => simp [hr] at h
    | ok q =>
      simp [hr] at h; subst h
      exact ⟨h1, h2, binRaw_lt op _ _ _ _ h3 hkn hr⟩

theorem range_invariant_rbinop (op : BinOp) (x : B) (k : Opnd) (r : B)
    (hx : x.Wf) (h : rbinop op k x = .ok r) : r.Wf := by
  cases k with
  | bits b => simp [rbinop] at h
  | other => simp [rbinop] at h
  | int k =>
    cases op
    case add => simp only [rbinop] at h; exact range_invariant_binop _ x (.int k) r hx trivial h
    case mul => simp only [rbinop] at h; exact range_invariant_binop _ x (.int k) r hx trivial h
    case and => simp only [rbinop] at h; exact range_invariant_binop _ x (.int k) r hx trivial h
    case or => simp only [rbinop] at h; exact range_invariant_binop _ x (.int k) r hx trivial h
    case xor => simp only [rbinop] at h; exact range_invariant_binop _ x (.int k) r hx trivial h
    case lshift => simp [rbinop] at h
    case rshift => simp [rbinop] at h
    all_goals
      simp only [rbinop] at h
      obtain ⟨h1, h2, h3⟩ := hx
      by_cases hk : (k < 0 ∨ k > (upper x.n : Int)) <;> simp [hk] at h
      have hkn : k.toNat < 2 ^ x.n := by
        have : k.toNat ≤ upper x.n := by omega
        exact (le_upper_iff _ _).mp this
      generalize hr : binRaw _ x.n k.toNat x.v = res at h
      cases res with
      | error e => simp at h
      | ok q => simp at h; subst h; exact ⟨h1, h2, binRaw_lt _ _ _ _ _ hkn h3 hr⟩

theorem range_invariant_cmp (op : CmpOp) (x : B) (y : Opnd) (r : B) (h : cmpop op x y = .ok r) :
    r.n = 1 ∧ r.v < 2 := by
  unfold cmpop at h
  cases y with
  | bits b =>
    by_cases hw : b.n = x.n <;> simp [hw] at h
    subst h; unfold b1; split <;> simp
  | int k =>
    by_cases hk : (k < 0 ∨ k > (upper x.n : Int)) <;> simp [hk] at h
    subst h; unfold b1; split <;> simp
  | other =>
    cases op <;> simp at h <;> subst h <;> simp [b1]

theorem range_invariant_ctor (nbits : Int) (v : Opnd) (t : Bool) (r : B)
    (hv : v.Wf) (h : ctor nbits v t = .ok r) : r.Wf := by
  unfold ctor at h
  by_cases hn : (nbits < 1 ∨ nbits ≥ 1024) <;> simp [hn] at h
  have h1 : 1 ≤ nbits.toNat := by omega
  have h2 : nbits.toNat < 1024 := by omega
  cases v with
  | other => simp at h
  | bits b =>
    by_cases hw : nbits.toNat = b.n <;> simp [hw] at h
    subst h; exact ⟨hw ▸ h1, hw ▸ h2, hv.2.2⟩
  | int k =>
    simp only [] at h
    by_cases hc : (t = false ∧ (k < lower nbits.toNat ∨ (upper nbits.toNat : Int) < k))
    · rw [if_pos hc] at h; cases h
    · rw [if_neg hc] at h; cases h; exact ⟨h1, h2, maskInt_lt _ _⟩

theorem range_invariant_assign (x : B) (v : Opnd) (r : B)
    (hx : x.Wf) (hv : v.Wf) (h : imatmul x v = .ok r) : r.Wf := by
  obtain ⟨h1, h2, _⟩ := hx
  unfold imatmul at h
  cases v with
  | other => simp at h
  | bits b =>
    by_cases hw : b.n = x.n <;> simp [hw] at h
    subst h; exact ⟨h1, h2, hw ▸ hv.2.2⟩
  | int k =>
    simp only [] at h
    split at h
    · cases h
    · cases h; exact ⟨h1, h2, maskInt_lt _ _⟩

theorem range_invariant_invert (x : B) (hx : x.Wf) : (invert x).Wf :=
  ⟨hx.1, hx.2.1, maskInt_lt _ _⟩

/-! ## conversions -/

/-- `x.int()` is the two's-complement reading; `uint()`/`int(x)` the unsigned one -/
theorem int_signed (n a : Nat) (h1 : 1 ≤ n) (ha : a < 2 ^ n) :
    toInt ⟨n, a⟩ = (if a < 2 ^ (n - 1) then (a : Int) else (a : Int) - 2 ^ n) ∧ toUInt ⟨n, a⟩ = a := by
  refine ⟨?_, rfl⟩
  have hpow : 2 ^ n = 2 ^ (n - 1) * 2 := by
    have : n = (n - 1) + 1 := by omega
    rw [this, Nat.pow_succ]; simp
  have hp1 := Nat.two_pow_pos (n - 1)
  unfold toInt
  simp only [Nat.shiftRight_eq_div_pow]
  by_cases hlt : a < 2 ^ (n - 1)
  · have : a / 2 ^ (n - 1) = 0 := Nat.div_eq_of_lt hlt
    simp [this, hlt]
  · have hge : 2 ^ (n - 1) ≤ a := Nat.le_of_not_lt hlt
    have : a / 2 ^ (n - 1) ≠ 0 := by
      intro h0
      have := (Nat.div_eq_zero_iff.mp h0)
      omega
    simp only [bne_iff_ne, ne_eq, this, not_false_eq_true, ↓reduceIte, hlt]
    rw [invert_spec n a ha]
    simp only
    have hmod : (2 ^ n - 1 - a + 1) % 2 ^ n = 2 ^ n - a := by
      rw [Nat.mod_eq_of_lt (by omega)]; omega
    rw [hmod]
    have : ((2 ^ n : Nat) : Int) = (2 : Int) ^ n := by simp
    omega

/-! ## non-vacuity: the hypotheses above are met by concrete non-trivial values -/

example : (⟨8, 200⟩ : B).Wf := by decide
example : binop .add ⟨8, 200⟩ (.bits ⟨8, 100⟩) = .ok ⟨8, 44⟩ := by decide
example : binop .sub ⟨8, 2⟩ (.int 5) = .ok ⟨8, 253⟩ := by decide
example : binop .add ⟨8, 2⟩ (.int 256) = .error .range := by decide
example : ctor 4 (.int (-8)) false = .ok ⟨4, 8⟩ ∧ ctor 4 (.int (-9)) false = .error .range ∧
          ctor 4 (.int 15) false = .ok ⟨4, 15⟩ ∧ ctor 4 (.int 16) false = .error .range := by decide
example : toInt ⟨8, 171⟩ = -85 := by decide

end PV.C04
