import PymtlVerif.Model.Flip
/-!
# C07f — `schedule_posedge_flip` flips every double-buffered signal exactly once

Theorems about `Model/Flip.lean` (the grouping loop of `SimpleSchedulePass.schedule_posedge_flip`), for every set of
registers in every component hierarchy:

* `grouping_perm`     — the signals of all groups together are a permutation of the double-buffered signals: none is
                        lost, none is flipped twice (`grouping_nodup`, `mem_grouping`);
* `grouping_prefix`   — every signal of a group lives in the group's component or below it, so addressing it relative
                        to the component (`x = s.a.b; x.r._flip()`, i.e. `repr(z)[len(repr(x))+1:]`) is meaningful;
* `grouping_settled`  — the loop has really finished when the fuel `weight + 1` is used up (the result does not depend
                        on the fuel): every group has at least two signals or sits at `top`;
* `grouping_nonempty` — no group is empty (`y[0]` never fails).
-/
namespace PV.C07f
open PV.Flip

/-! ### `addTo` -/

theorem flips_addTo (g : Groups) (k : Path) (ys : List Sig) : (flips (addTo g k ys)).Perm (flips g ++ ys) := by
  induction g with
  | nil => simp [addTo, flips]
  | cons a rest ih =>
    obtain ⟨k', zs⟩ := a
    unfold addTo
    split
    · simp only [flips, List.map_cons, List.flatten_cons, List.append_assoc]
      exact List.Perm.append_left zs List.perm_append_comm
    · simp only [flips, List.map_cons, List.flatten_cons, List.append_assoc] at ih ⊢
      exact List.Perm.append_left zs ih

theorem mem_addTo {g : Groups} {k : Path} {ys : List Sig} {xy : Path × List Sig} (h : xy ∈ addTo g k ys) :
    xy ∈ g ∨ (xy.1 = k ∧ ∃ zs, xy.2 = zs ++ ys ∧ (zs = [] ∨ (k, zs) ∈ g)) := by
  induction g with
  | nil =>
    simp only [addTo, List.mem_singleton] at h
    subst h
    exact Or.inr ⟨rfl, [], by simp, Or.inl rfl⟩
  | cons a rest ih =>
    obtain ⟨k', zs⟩ := a
    unfold addTo at h
    split at h
    · next hk =>
      rcases List.mem_cons.mp h with h | h
      · subst h; subst hk
        exact Or.inr ⟨rfl, zs, rfl, Or.inr (List.mem_cons_self)⟩
      · exact Or.inl (List.mem_cons_of_mem _ h)
    · rcases List.mem_cons.mp h with h | h
      · subst h; exact Or.inl List.mem_cons_self
      · rcases ih h with h | ⟨h1, zs', h2, h3⟩
        · exact Or.inl (List.mem_cons_of_mem _ h)
        · refine Or.inr ⟨h1, zs', h2, ?_⟩
          rcases h3 with h3 | h3
          · exact Or.inl h3
          · exact Or.inr (List.mem_cons_of_mem _ h3)

theorem measure_addTo (g : Groups) (k : Path) (ys : List Sig) :
    weight (addTo g k ys) = weight g + k.length * ys.length := by
  induction g with
  | nil => simp [addTo, weight]
  | cons a rest ih =>
    obtain ⟨k', zs⟩ := a
    unfold addTo
    split
    · next hk =>
      subst hk
      simp only [weight, List.map_cons, List.sum_cons, List.length_append, Nat.mul_add]
      omega
    · simp only [weight, List.map_cons, List.sum_cons] at ih ⊢
      omega

/-! ### invariants -/

/-- every signal of a group lives in or below the group's component -/
def PrefixInv (g : Groups) : Prop := ∀ xy ∈ g, ∀ z ∈ xy.2, xy.1 <+: z.host
/-- no group is empty -/
def NonEmpty (g : Groups) : Prop := ∀ xy ∈ g, xy.2 ≠ []
/-- every group is final -/
def Settled (g : Groups) : Prop := ∀ xy ∈ g, xy.2.length > 1 ∨ xy.1 = []

theorem settledB_iff (g : Groups) : settledB g = true ↔ Settled g := by
  simp [settledB, Settled, List.all_eq_true]

theorem prefix_addTo {g : Groups} {k : Path} {ys : List Sig} (hg : PrefixInv g) (hy : ∀ z ∈ ys, k <+: z.host) :
    PrefixInv (addTo g k ys) := by
  intro xy hxy z hz
  rcases mem_addTo hxy with h | ⟨h1, zs, h2, h3⟩
  · exact hg xy h z hz
  · rw [h2] at hz
    rcases List.mem_append.mp hz with hz | hz
    · rcases h3 with h3 | h3
      · subst h3; simp at hz
      · rw [h1]; exact hg _ h3 z hz
    · rw [h1]; exact hy z hz

theorem nonEmpty_addTo {g : Groups} {k : Path} {ys : List Sig} (hg : NonEmpty g) (hy : ys ≠ []) :
    NonEmpty (addTo g k ys) := by
  intro xy hxy
  rcases mem_addTo hxy with h | ⟨_, zs, h2, _⟩
  · exact hg xy h
  · rw [h2]; intro h; exact hy (List.append_eq_nil_iff.mp h).2

theorem settled_addTo {g : Groups} {k : Path} {ys : List Sig} (hg : Settled g) (hy : ys.length > 1 ∨ k = []) :
    Settled (addTo g k ys) := by
  intro xy hxy
  rcases mem_addTo hxy with h | ⟨h1, zs, h2, _⟩
  · exact hg xy h
  · rcases hy with hy | hy
    · left; rw [h2, List.length_append]; omega
    · right; rw [h1]; exact hy

theorem parent_prefix (p : Path) : parent p <+: p := List.dropLast_prefix p

theorem take_one_of_short {y : List Sig} (h : ¬ y.length > 1) : y.take 1 = y := by
  apply List.take_of_length_le; omega

/-! ### one round -/

theorem foldl_step_perm (g : Groups) (acc : Groups × Bool) :
    (flips (g.foldl stepEntry acc).1).Perm (flips acc.1 ++ flips g) := by
  induction g generalizing acc with
  | nil => simp [flips]
  | cons a rest ih =>
    simp only [List.foldl_cons]
    refine (ih _).trans ?_
    have hf : flips (a :: rest) = a.2 ++ flips rest := by simp [flips]
    rw [hf, ← List.append_assoc]
    apply List.Perm.append_right
    unfold stepEntry
    split
    · exact flips_addTo _ _ _
    · next h =>
      have h' : ¬ a.2.length > 1 := by
        intro hc; apply h; simp [hc]
      simp only
      rw [take_one_of_short h']
      exact flips_addTo _ _ _

theorem round_perm (g : Groups) : (flips (round g).1).Perm (flips g) := by
  have := foldl_step_perm g ([], true)
  simpa [round, flips] using this

theorem foldl_step_prefix (g : Groups) (acc : Groups × Bool) (ha : PrefixInv acc.1) (hg : PrefixInv g) :
    PrefixInv (g.foldl stepEntry acc).1 := by
  induction g generalizing acc with
  | nil => simpa using ha
  | cons a rest ih =>
    simp only [List.foldl_cons]
    apply ih
    · unfold stepEntry
      split
      · exact prefix_addTo ha (hg a List.mem_cons_self)
      · apply prefix_addTo ha
        intro z hz
        exact (parent_prefix a.1).trans (hg a List.mem_cons_self z (List.mem_of_mem_take hz))
    · intro xy hxy; exact hg xy (List.mem_cons_of_mem _ hxy)

theorem round_prefix {g : Groups} (hg : PrefixInv g) : PrefixInv (round g).1 :=
  foldl_step_prefix g ([], true) (by intro xy h; simp at h) hg

theorem foldl_step_nonEmpty (g : Groups) (acc : Groups × Bool) (ha : NonEmpty acc.1) (hg : NonEmpty g) :
    NonEmpty (g.foldl stepEntry acc).1 := by
  induction g generalizing acc with
  | nil => simpa using ha
  | cons a rest ih =>
    simp only [List.foldl_cons]
    apply ih
    · have hne := hg a List.mem_cons_self
      unfold stepEntry
      split
      · exact nonEmpty_addTo ha hne
      · apply nonEmpty_addTo ha
        cases h : a.2 with
        | nil => exact absurd h hne
        | cons z zs => simp
    · intro xy hxy; exact hg xy (List.mem_cons_of_mem _ hxy)

theorem round_nonEmpty {g : Groups} (hg : NonEmpty g) : NonEmpty (round g).1 :=
  foldl_step_nonEmpty g ([], true) (by intro xy h; simp at h) hg

/-- a round that reports `done` only regroups settled entries -/
theorem foldl_step_settled (g : Groups) (acc : Groups × Bool) (ha : Settled acc.1)
    (hd : (g.foldl stepEntry acc).2 = true) : Settled (g.foldl stepEntry acc).1 := by
  induction g generalizing acc with
  | nil => simpa using ha
  | cons a rest ih =>
    simp only [List.foldl_cons] at hd ⊢
    apply ih _ _ hd
    unfold stepEntry
    split
    · next h =>
      apply settled_addTo ha
      simp only [Bool.or_eq_true, decide_eq_true_eq] at h
      exact h
    · -- this entry clears the flag, and the flag is never set again
      next h =>
      exfalso
      have : ∀ (r : List (Path × List Sig)) (acc : Groups × Bool), acc.2 = false → (r.foldl stepEntry acc).2 = false := by
        intro r
        induction r with
        | nil => intro acc h; simpa using h
        | cons b r ihr =>
          intro acc hacc
          simp only [List.foldl_cons]
          apply ihr
          unfold stepEntry
          split <;> simp [hacc]
      have hf := this rest (stepEntry acc a) (by unfold stepEntry; simp [h])
      rw [hf] at hd
      exact Bool.false_ne_true hd

theorem round_settled {g : Groups} (hd : (round g).2 = true) : Settled (round g).1 :=
  foldl_step_settled g ([], true) (by intro xy h; simp at h) hd

/-- the weight never grows, and strictly decreases in a round that clears the `done` flag -/
theorem foldl_step_measure (g : Groups) (acc : Groups × Bool) (hg : NonEmpty g) :
    weight (g.foldl stepEntry acc).1 ≤ weight acc.1 + weight g ∧
    (acc.2 = true → (g.foldl stepEntry acc).2 = false → weight (g.foldl stepEntry acc).1 < weight acc.1 + weight g) := by
  induction g generalizing acc with
  | nil => simp [weight]
  | cons a rest ih =>
    have hrest : NonEmpty rest := fun xy hxy => hg xy (List.mem_cons_of_mem _ hxy)
    have hne := hg a List.mem_cons_self
    have hm : weight (a :: rest) = a.1.length * a.2.length + weight rest := by simp [weight]
    simp only [List.foldl_cons]
    obtain ⟨ih1, ih2⟩ := ih (stepEntry acc a) hrest
    by_cases hc : (a.2.length > 1 || a.1 = []) = true
    · have hs : stepEntry acc a = (addTo acc.1 a.1 a.2, acc.2) := by unfold stepEntry; rw [if_pos hc]
      rw [hs] at ih1 ih2 ⊢
      simp only [measure_addTo] at ih1 ih2 ⊢
      refine ⟨by omega, fun h1 h2 => ?_⟩
      have := ih2 h1 h2
      omega
    · have hs : stepEntry acc a = (addTo acc.1 (parent a.1) (a.2.take 1), false) := by unfold stepEntry; rw [if_neg hc]
      simp only [Bool.or_eq_true, decide_eq_true_eq, not_or] at hc
      have hlen : a.2.length = 1 := by
        have : a.2.length ≠ 0 := by intro h; exact hne (List.length_eq_zero_iff.mp h)
        omega
      have hk : a.1.length ≠ 0 := by intro h; exact hc.2 (List.length_eq_zero_iff.mp h)
      have hp : (parent a.1).length = a.1.length - 1 := by simp [parent]
      have ht : (a.2.take 1).length = 1 := by simp [hlen]
      rw [hs] at ih1 ⊢
      simp only [measure_addTo, hp, ht] at ih1 ⊢
      rw [hm, hlen]
      refine ⟨by omega, fun _ _ => by omega⟩

theorem round_measure {g : Groups} (hg : NonEmpty g) :
    weight (round g).1 ≤ weight g ∧ ((round g).2 = false → weight (round g).1 < weight g) := by
  have := foldl_step_measure g ([], true) hg
  simp only [weight, List.map_nil, List.sum_nil, Nat.zero_add, forall_const] at this
  exact this

/-! ### the loop -/

theorem iter_perm (n : Nat) (g : Groups) : (flips (iter n g)).Perm (flips g) := by
  induction n generalizing g with
  | zero => exact List.Perm.refl _
  | succ n ih =>
    simp only [iter]
    split
    · exact round_perm g
    · exact (ih _).trans (round_perm g)

theorem iter_prefix (n : Nat) {g : Groups} (hg : PrefixInv g) : PrefixInv (iter n g) := by
  induction n generalizing g with
  | zero => exact hg
  | succ n ih =>
    simp only [iter]
    split
    · exact round_prefix hg
    · exact ih (round_prefix hg)

theorem iter_nonEmpty (n : Nat) {g : Groups} (hg : NonEmpty g) : NonEmpty (iter n g) := by
  induction n generalizing g with
  | zero => exact hg
  | succ n ih =>
    simp only [iter]
    split
    · exact round_nonEmpty hg
    · exact ih (round_nonEmpty hg)

/-- with fuel above the weight the loop ends through its `done` exit -/
theorem iter_settled (n : Nat) {g : Groups} (hg : NonEmpty g) (hn : weight g < n) : Settled (iter n g) := by
  induction n generalizing g with
  | zero => omega
  | succ n ih =>
    simp only [iter]
    split
    · next hd => exact round_settled hd
    · next hd =>
      have hd' : (round g).2 = false := by simpa using hd
      have := (round_measure hg).2 hd'
      exact ih (round_nonEmpty hg) (by omega)

/-- more fuel does not change the result -/
theorem iter_fuel_irrelevant (n m : Nat) {g : Groups} (hg : NonEmpty g) (hn : weight g < n) (hm : weight g < m) :
    iter n g = iter m g := by
  induction n generalizing g m with
  | zero => omega
  | succ n ih =>
    cases m with
    | zero => omega
    | succ m =>
      simp only [iter]
      split
      · rfl
      · next hd =>
        have hd' : (round g).2 = false := by simpa using hd
        have := (round_measure hg).2 hd'
        exact ih m (round_nonEmpty hg) (by omega) (by omega)

/-! ### the initial dict -/

theorem initial_perm_aux (sigs : List Sig) (g : Groups) :
    (flips (sigs.foldl (fun g z => addTo g z.host [z]) g)).Perm (flips g ++ sigs) := by
  induction sigs generalizing g with
  | nil => simp
  | cons z rest ih =>
    simp only [List.foldl_cons]
    refine (ih _).trans ?_
    have : flips g ++ z :: rest = (flips g ++ [z]) ++ rest := by simp
    rw [this]
    exact List.Perm.append_right _ (flips_addTo g z.host [z])

theorem initial_perm (sigs : List Sig) : (flips (initial sigs)).Perm sigs := by
  have := initial_perm_aux sigs []
  simpa [initial, flips] using this

theorem initial_inv_aux (sigs : List Sig) (g : Groups) (h1 : PrefixInv g) (h2 : NonEmpty g) :
    PrefixInv (sigs.foldl (fun g z => addTo g z.host [z]) g) ∧ NonEmpty (sigs.foldl (fun g z => addTo g z.host [z]) g) := by
  induction sigs generalizing g with
  | nil => exact ⟨h1, h2⟩
  | cons z rest ih =>
    simp only [List.foldl_cons]
    apply ih
    · apply prefix_addTo h1
      intro z' hz'
      simp only [List.mem_singleton] at hz'
      subst hz'
      exact List.prefix_refl _
    · exact nonEmpty_addTo h2 (by simp)

theorem initial_prefix (sigs : List Sig) : PrefixInv (initial sigs) :=
  (initial_inv_aux sigs [] (by intro xy h; simp at h) (by intro xy h; simp at h)).1

theorem initial_nonEmpty (sigs : List Sig) : NonEmpty (initial sigs) :=
  (initial_inv_aux sigs [] (by intro xy h; simp at h) (by intro xy h; simp at h)).2

/-! ### property theorems -/

/-- the signals flipped by the generated function are a permutation of the double-buffered signals -/
theorem grouping_perm (sigs : List Sig) : (flips (grouping sigs)).Perm sigs :=
  (iter_perm _ _).trans (initial_perm sigs)

/-- every double-buffered signal is flipped, and nothing else -/
theorem mem_grouping (sigs : List Sig) (z : Sig) : z ∈ flips (grouping sigs) ↔ z ∈ sigs :=
  (grouping_perm sigs).mem_iff

/-- no signal is flipped twice -/
theorem grouping_nodup (sigs : List Sig) (h : sigs.Nodup) : (flips (grouping sigs)).Nodup :=
  (grouping_perm sigs).nodup_iff.mpr h

/-- every signal is addressed relative to a component it lives in or below -/
theorem grouping_prefix (sigs : List Sig) : ∀ xy ∈ grouping sigs, ∀ z ∈ xy.2, xy.1 <+: z.host :=
  iter_prefix _ (initial_prefix sigs)

/-- no group is empty -/
theorem grouping_nonempty (sigs : List Sig) : ∀ xy ∈ grouping sigs, xy.2 ≠ [] :=
  iter_nonEmpty _ (initial_nonEmpty sigs)

/-- the loop really terminated: every group has at least two signals or sits at `top` -/
theorem grouping_settled (sigs : List Sig) : settledB (grouping sigs) = true :=
  (settledB_iff _).mpr (iter_settled _ (initial_nonEmpty sigs) (by omega))

/-- the fuel is not what stops the loop -/
theorem grouping_fuel (sigs : List Sig) (n : Nat) (hn : weight (initial sigs) < n) :
    iter n (initial sigs) = grouping sigs :=
  iter_fuel_irrelevant _ _ (initial_nonEmpty sigs) hn (by omega)

/-! ### non-vacuity: two registers in one grandchild stay grouped there, a lone register of a child moves to `top` -/
example :
    grouping [⟨[0, 1], 7⟩, ⟨[0, 1], 8⟩, ⟨[2], 9⟩, ⟨[], 1⟩]
      = [([0, 1], [⟨[0, 1], 7⟩, ⟨[0, 1], 8⟩]), ([], [⟨[2], 9⟩, ⟨[], 1⟩])] := by decide

example : settledB (initial [⟨[0, 1], 7⟩, ⟨[2], 9⟩]) = false := by decide

end PV.C07f
