/-! # C01 — property theorems (stub: not built yet) -/
namespace PV.C01
end PV.C01
