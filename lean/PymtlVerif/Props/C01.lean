import PymtlVerif.Proofs.Rtl
import PymtlVerif.Props.C07
/-!
# C01 — simulation results do not depend on the schedule chosen

Abstract part (`Proofs/Sched.lean`): for single-writer block sets, every topological order reaches the
unique fixed point of the dataflow equations. Concrete part: the same for the executable RTL model
(`Model/Rtl.lean`), where "legal schedule" is the Boolean check `topoB` the driver evaluates on the
schedules the real passes produce, and the whole `sim_tick` (comb, ff, flip, comb).
-/
namespace PV.C01
open PV.Rtl PV.Sched

/-! ## abstract theorems (any variable and value types) -/

theorem abstract_fixed_point {Var Val : Type} (bs : List (Sched.Blk Var Val)) (hwf : ∀ b ∈ bs, b.Wf)
    (hsw : SingleWriter bs) (htopo : Topo bs) (s : Sched.St Var Val) :
    ∀ b ∈ bs, b.run (runList bs s) = runList bs s :=
  fixed_point_of_topo bs hwf hsw htopo s

theorem abstract_unique {Var Val : Type} (bs : List (Sched.Blk Var Val)) (hwf : ∀ b ∈ bs, b.Wf)
    (htopo : Topo bs) (t t' : Sched.St Var Val)
    (hin : ∀ v, (∀ b ∈ bs, ¬ b.W v) → t v = t' v)
    (ht : ∀ b ∈ bs, b.run t = t) (ht' : ∀ b ∈ bs, b.run t' = t') : t = t' :=
  unique_fixed_point bs hwf htopo t t' hin ht ht'

theorem abstract_schedule_independent {Var Val : Type} (o1 o2 : List (Sched.Blk Var Val)) (hperm : o1.Perm o2)
    (hwf : ∀ b ∈ o1, b.Wf) (hsw : SingleWriter o1) (h1 : Topo o1) (h2 : Topo o2) (s : Sched.St Var Val) :
    runList o1 s = runList o2 s :=
  schedule_independent o1 o2 hperm hwf hsw h1 h2 s

/-! ## the executable model -/

/-- the design-level well-formedness the theorems need, as the Boolean the driver evaluates -/
def wfBlocks (bs : List Blk) : Bool := bs.all (·.noSelf) && singleWriterB bs

theorem wf_denote (bs : List Blk) (h : wfBlocks bs = true) :
    (∀ b ∈ bs.map denote, b.Wf) ∧ SingleWriter (bs.map denote) := by
  unfold wfBlocks at h
  simp only [Bool.and_eq_true, List.all_eq_true] at h
  refine ⟨?_, singleWriterB_sound bs h.2⟩
  intro b hb
  obtain ⟨c, hc, rfl⟩ := List.mem_map.mp hb
  exact denote_wf c (h.1 c hc)

/-- any two legal schedules of the same blocks compute the same values for every signal bit -/
theorem any_order (bs1 bs2 : List Blk) (hperm : bs1.Perm bs2) (hwf : wfBlocks bs1 = true)
    (h1 : topoB bs1 = true) (h2 : topoB bs2 = true) (s : St) :
    runBlocks bs1 s = runBlocks bs2 s := by
  rw [runBlocks_eq, runBlocks_eq]
  obtain ⟨hw, hsw⟩ := wf_denote bs1 hwf
  exact schedule_independent _ _ (hperm.map _) hw hsw (topoB_sound bs1 h1) (topoB_sound bs2 h2) s

/-- after evaluation, re-running any update block changes nothing (the state is a fixed point) -/
theorem rerun_noop (bs : List Blk) (hwf : wfBlocks bs = true) (h : topoB bs = true) (s : St) :
    ∀ b ∈ bs, b.run (runBlocks bs s) = runBlocks bs s := by
  intro b hb
  rw [runBlocks_eq]
  obtain ⟨hw, hsw⟩ := wf_denote bs hwf
  exact fixed_point_of_topo _ hw hsw (topoB_sound bs h) s (denote b) (List.mem_map_of_mem hb)

/-- the computed values are the unique solution of the design's dataflow equations: any state that
satisfies every block's equation and agrees with the start state on the un-driven bits (inputs,
registers) equals it -/
theorem dataflow_unique (bs : List Blk) (hwf : wfBlocks bs = true) (h : topoB bs = true) (s t : St)
    (hin : ∀ v, (∀ b ∈ bs, ¬ inRngs b.writes v) → t v = s v)
    (ht : ∀ b ∈ bs, b.run t = t) : t = runBlocks bs s := by
  obtain ⟨hw, hsw⟩ := wf_denote bs hwf
  apply unique_fixed_point (bs.map denote) hw (topoB_sound bs h)
  · intro v hv
    have hv' : ∀ b ∈ bs, ¬ inRngs b.writes v := fun b hb => hv (denote b) (List.mem_map_of_mem hb)
    rw [hin v hv', runBlocks_eq, runList_frame _ hw s v hv]
  · intro b hb
    obtain ⟨c, hc, rfl⟩ := List.mem_map.mp hb
    exact ht c hc
  · intro b hb
    obtain ⟨c, hc, rfl⟩ := List.mem_map.mp hb
    exact rerun_noop bs hwf h s c hc

/-- the whole clock tick is independent of the comb schedule (any two legal ones) and of the order of
the flip-flop blocks (any permutation) -/
theorem tick_indep (c1 c2 f1 f2 : List Blk) (hc : c1.Perm c2) (hf : f1.Perm f2)
    (hwf : wfBlocks c1 = true) (h1 : topoB c1 = true) (h2 : topoB c2 = true)
    (hfsw : singleWriterB f1 = true) (st : FState) :
    tick c1 f1 st = tick c2 f2 st := by
  rw [PV.C07.tick_ff_perm c1 f1 f2 hf hfsw]
  have hrun : runBlocks c1 = runBlocks c2 := funext (any_order c1 c2 hc hwf h1 h2)
  unfold tick evalComb
  simp only [hrun]

/-! ## non-vacuity: a diamond with two different legal schedules -/
def dA : Blk := ⟨0, [⟨⟨1, 0, 4⟩, .rd ⟨0, 0, 4⟩⟩]⟩                               -- w1 @= in
def dB : Blk := ⟨1, [⟨⟨2, 0, 4⟩, .not 4 (.rd ⟨1, 0, 4⟩)⟩]⟩                      -- w2 @= ~w1
def dC : Blk := ⟨2, [⟨⟨3, 0, 4⟩, .bin .add 4 (.rd ⟨1, 0, 4⟩) (.const 4 1)⟩]⟩    -- w3 @= w1 + 1
def dD : Blk := ⟨3, [⟨⟨4, 0, 4⟩, .bin .xor 4 (.rd ⟨2, 0, 4⟩) (.rd ⟨3, 0, 4⟩)⟩]⟩ -- out @= w2 ^ w3
example : wfBlocks [dA, dB, dC, dD] = true ∧ topoB [dA, dB, dC, dD] = true ∧ topoB [dA, dC, dB, dD] = true ∧
    topoB [dB, dA, dC, dD] = false := by decide

end PV.C01
