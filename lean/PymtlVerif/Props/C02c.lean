import PymtlVerif.Proofs.CallGraph
/-!
# C02c — the read / write set of a block contains everything the block can touch through `@s.func` helpers

Theorems about `Model/CallGraph.lean` (the `dfs( u, stk )` expansion in `ComponentLevel2._collect_vars`), for every
function table (call graph), every block and every list of blocks.  `Reach T u f`: `f` is reached from `u` through
zero or more calls; `ReachFrom T b.calls f`: from one of the block's calls; `ReachPlus T f f`: `f` is on a call cycle.

* `expand_exact`            — when the expansion succeeds, the expanded reads are exactly the own reads plus the reads
                              of every reachable function; the same for the writes;
* `expand_error_iff_cycle`  — the expansion raises (`InvalidFuncCallError`) iff a function reachable from the block's
                              calls lies on a call cycle; `fuel_suffices`: the fuel `F + 1` is never exhausted, and
                              `fuel_irrelevant`: any larger fuel gives the same result;
* `fold_entry_eq`           — in the real loop (both `update`s, then `for blk, calls in upblk_calls.items()` accumulating
                              into the dicts of `top`), started from ANY earlier state, the entry of every block is the
                              per-block function `expand` of that block alone; `fold_error_iff`; `expand_local`: the same
                              block gets the same sets whatever surrounds it; `fold_perm`: in every order of the blocks;
                              `collectAll_entry_eq`: the same over all components of a design;
* `ff_marks_exact`          — the signals marked `needs_double_buffer` through functions are exactly the top-level
                              signals of the objects written by functions reachable from `update_ff` blocks
                              (`fold_marks_exact` for the loop).
-/
namespace PV.C02c
open PV.CallGraph

/-! ### exactness -/

/-- the expanded sets are the own sets plus those of every function reachable from the block's calls -/
theorem expand_exact {T : Table} {b : Blk} {e : Expanded} (h : expand T b = .ok e) (x : Nat) :
    (x ∈ e.reads ↔ x ∈ b.reads ∨ ∃ f, ReachFrom T b.calls f ∧ x ∈ T.reads f) ∧
    (x ∈ e.writes ↔ x ∈ b.writes ∨ ∃ f, ReachFrom T b.calls f ∧ x ∈ T.writes f) := by
  obtain ⟨vis, hv, he⟩ := expand_ok_inv h
  subst he
  have hm := visit_ok_mem hv
  constructor
  · simp only [expandWith, List.mem_append, List.mem_flatMap]
    constructor
    · rintro (hx | ⟨f, hf, hx⟩)
      · exact Or.inl hx
      · exact Or.inr ⟨f, ((hm f).mp hf).2, hx⟩
    · rintro (hx | ⟨f, hf, hx⟩)
      · exact Or.inl hx
      · exact Or.inr ⟨f, (hm f).mpr ⟨lt_of_mem_reads hx, hf⟩, hx⟩
  · simp only [expandWith, List.mem_append, List.mem_flatMap]
    constructor
    · rintro (hx | ⟨f, hf, hx⟩)
      · exact Or.inl hx
      · exact Or.inr ⟨f, ((hm f).mp hf).2, hx⟩
    · rintro (hx | ⟨f, hf, hx⟩)
      · exact Or.inl hx
      · exact Or.inr ⟨f, (hm f).mpr ⟨lt_of_mem_writes hx, hf⟩, hx⟩

/-- non-vacuity, the diamond of the code's comment (`fx` calls `fy` and `fz`, both call `fw`): the block gets the
reads and writes of all four -/
def diamond : Table :=
  { funcs := [⟨[10], [20], [1, 2]⟩, ⟨[11], [21], [3]⟩, ⟨[12], [22], [3]⟩, ⟨[13], [23], []⟩] }

example : expand diamond ⟨false, [1], [2], [0]⟩ =
    .ok ⟨[1, 10, 11, 13, 12, 13], [2, 20, 21, 23, 22, 23], []⟩ := by rfl
example : ReachFrom diamond [0] 3 := ⟨0, by simp, .step (v := 1) (by decide) (.step (v := 3) (by decide) (.refl 3))⟩

/-! ### errors -/

/-- the fuel `F + 1` is never exhausted -/
theorem fuel_suffices (T : Table) (b : Blk) : expand T b ≠ .error .fuel := by
  intro h
  exact visit_ne_fuel (expand_err_inv h)

/-- the only error is the call cycle -/
theorem expand_error_cycle {T : Table} {b : Blk} {err : Err} (h : expand T b = .error err) : err = .cycle :=
  visit_err_cycle (expand_err_inv h)

/-- the expansion raises iff some function reachable from the block's calls lies on a call cycle -/
theorem expand_error_iff_cycle (T : Table) (b : Blk) :
    expand T b = .error .cycle ↔ ∃ f, ReachFrom T b.calls f ∧ ReachPlus T f f := by
  rw [← visit_err_iff]
  constructor
  · intro h; exact ⟨_, expand_err_inv h⟩
  · rintro ⟨e, h⟩
    have := visit_err_cycle h
    subst this
    simp [expand, h]

/-- hence: it succeeds iff the reachable part of the call graph is acyclic -/
theorem expand_ok_iff_acyclic (T : Table) (b : Blk) :
    (∃ e, expand T b = .ok e) ↔ ∀ f, ReachFrom T b.calls f → ¬ ReachPlus T f f := by
  constructor
  · rintro ⟨e, h⟩ f hf hc
    have := (expand_error_iff_cycle T b).mpr ⟨f, hf, hc⟩
    rw [h] at this
    cases this
  · intro hall
    cases h : expand T b with
    | ok e => exact ⟨e, rfl⟩
    | error err =>
      exfalso
      have := expand_error_cycle h
      subst this
      obtain ⟨f, hf, hc⟩ := (expand_error_iff_cycle T b).mp h
      exact hall f hf hc

/-- any larger fuel gives the same result: the fuel is not part of the meaning -/
theorem fuel_irrelevant (T : Table) (roots : List Nat) (k : Nat) :
    callsLoop (dfs T (T.F + 1 + k)) [] roots = visit T roots := by
  induction k with
  | zero => rfl
  | succ k ih =>
    rw [← ih]
    have hne : callsLoop (dfs T (T.F + 1 + k)) [] roots ≠ .error .fuel := by
      rw [ih]; exact visit_ne_fuel
    exact callsLoop_mono (rec := dfs T (T.F + 1 + k)) (rec' := dfs T (T.F + 1 + (k + 1)))
      (fun a v hh => dfs_mono T _ a v hh) [] roots hne

/-- non-vacuity: a 2-cycle `f0 ⇄ f1` behind a helper, and a self-call -/
def twoCycle : Table := { funcs := [⟨[], [], [1]⟩, ⟨[], [], [2]⟩, ⟨[], [], [1]⟩] }

example : expand twoCycle ⟨false, [], [], [0]⟩ = .error .cycle := by rfl
example : ReachPlus twoCycle 1 1 := ⟨2, by decide, .step (v := 1) (by decide) (.refl 1)⟩
example : expand { funcs := [⟨[], [], [0]⟩] } ⟨false, [], [], [0]⟩ = .error .cycle := by rfl
/-- a block that does not reach the cycle is not affected by it -/
example : expand { funcs := [⟨[], [], [1]⟩, ⟨[], [], [0]⟩, ⟨[5], [6], []⟩] } ⟨false, [], [], [2]⟩ = .ok ⟨[5], [6], []⟩ := by
  rfl
/-- a callee that is not a function of the component (`u not in func_reads`) contributes nothing -/
example : expand diamond ⟨false, [1], [2], [9]⟩ = .ok ⟨[1], [2], []⟩ := by rfl

/-! ### the accumulating loop -/

/-- The real loop, started from any state `st0` (whatever earlier components / blocks have left in the dicts of `top`):
the entry of every block is `expand` of that block and the function table only. -/
theorem fold_entry_eq {T : Table} {st0 st : State} {blocks : List (Nat × Blk)}
    (h : collect T st0 blocks = .ok st) (hk : (keys blocks).Nodup) :
    ∀ kb ∈ blocks, ∃ e, expand T kb.2 = .ok e ∧ st.reads.get kb.1 = e.reads ∧ st.writes.get kb.1 = e.writes := by
  intro kb hkb
  obtain ⟨l1, _, _⟩ := loop_spec blocks _ st h hk
  obtain ⟨e, he, h1, h2⟩ := l1 kb hkb
  obtain ⟨e1, e2⟩ := enter_get blocks st0 hk kb hkb
  obtain ⟨t1, t2⟩ := take_drop_expand he
  exact ⟨e, he, by rw [h1, e1, t1], by rw [h2, e2, t2]⟩

/-- entries of other blocks (of other components) are left alone -/
theorem fold_other_keys {T : Table} {st0 st : State} {blocks : List (Nat × Blk)}
    (h : collect T st0 blocks = .ok st) (hk : (keys blocks).Nodup) (k : Nat) (hnot : k ∉ keys blocks) :
    st.reads.get k = st0.reads.get k ∧ st.writes.get k = st0.writes.get k := by
  obtain ⟨_, l2, _⟩ := loop_spec blocks _ st h hk
  obtain ⟨h1, h2⟩ := l2 k hnot
  obtain ⟨e1, e2⟩ := enter_notin blocks st0 k hnot
  exact ⟨by rw [h1, e1], by rw [h2, e2]⟩

/-- the loop raises iff some block does -/
theorem fold_error_iff (T : Table) (st0 : State) (blocks : List (Nat × Blk)) :
    collect T st0 blocks = .error .cycle ↔ ∃ kb ∈ blocks, expand T kb.2 = .error .cycle := by
  constructor
  · intro h
    exact loop_err blocks _ h
  · rintro ⟨kb, hkb, he⟩
    cases h : collect T st0 blocks with
    | error err =>
      obtain ⟨kb', _, he'⟩ := loop_err blocks _ h
      rw [expand_error_cycle he']
    | ok st =>
      exfalso
      obtain ⟨e, he'⟩ := (loop_ok_iff blocks _).mp ⟨st, h⟩ kb hkb
      rw [he] at he'
      cases he'

theorem fold_ok_iff (T : Table) (st0 : State) (blocks : List (Nat × Blk)) :
    (∃ st, collect T st0 blocks = .ok st) ↔ ∀ kb ∈ blocks, ∃ e, expand T kb.2 = .ok e :=
  loop_ok_iff blocks _

/-- The result for one block depends on that block and the function table only: whatever blocks come before and
after it, and whatever state the loop starts from, its entry is the one the block gets when it is expanded alone from
the empty state.  (This is what a `visited` memo shared between blocks breaks.) -/
theorem expand_local {T : Table} {st0 st : State} {pre post : List (Nat × Blk)} {kb : Nat × Blk}
    (h : collect T st0 (pre ++ kb :: post) = .ok st) (hk : (keys (pre ++ kb :: post)).Nodup) :
    ∃ st1, collect T {} [kb] = .ok st1 ∧
      st.reads.get kb.1 = st1.reads.get kb.1 ∧ st.writes.get kb.1 = st1.writes.get kb.1 := by
  obtain ⟨e, he, h1, h2⟩ := fold_entry_eq h hk kb (by simp)
  obtain ⟨st1, hst1⟩ := (fold_ok_iff T {} [kb]).mpr (by intro kb' hkb'; simp at hkb'; subst hkb'; exact ⟨e, he⟩)
  obtain ⟨e', he', h1', h2'⟩ := fold_entry_eq hst1 (by simp [keys]) kb (by simp)
  rw [he] at he'
  cases he'
  exact ⟨st1, hst1, by rw [h1, h1'], by rw [h2, h2']⟩

/-- every order of the blocks (and any two starting states) gives every block the same sets, and raises in the same
cases -/
theorem fold_perm {T : Table} {st0 st0' st : State} {blocks blocks' : List (Nat × Blk)}
    (hp : blocks.Perm blocks') (hk : (keys blocks).Nodup) (h : collect T st0 blocks = .ok st) :
    ∃ st', collect T st0' blocks' = .ok st' ∧
      ∀ kb ∈ blocks, st'.reads.get kb.1 = st.reads.get kb.1 ∧ st'.writes.get kb.1 = st.writes.get kb.1 := by
  have hk' : (keys blocks').Nodup := (hp.map Prod.fst).nodup_iff.mp hk
  have hall := (fold_ok_iff T st0 blocks).mp ⟨st, h⟩
  obtain ⟨st', hst'⟩ := (fold_ok_iff T st0' blocks').mpr (fun kb hkb => hall kb (hp.mem_iff.mpr hkb))
  refine ⟨st', hst', ?_⟩
  intro kb hkb
  obtain ⟨e, he, h1, h2⟩ := fold_entry_eq h hk kb hkb
  obtain ⟨e', he', h1', h2'⟩ := fold_entry_eq hst' hk' kb (hp.mem_iff.mp hkb)
  rw [he] at he'
  cases he'
  exact ⟨by rw [h1, h1'], by rw [h2, h2']⟩

theorem fold_perm_error {T : Table} {st0 st0' : State} {blocks blocks' : List (Nat × Blk)} (hp : blocks.Perm blocks') :
    collect T st0 blocks = .error .cycle ↔ collect T st0' blocks' = .error .cycle := by
  rw [fold_error_iff, fold_error_iff]
  constructor
  · rintro ⟨kb, hkb, he⟩; exact ⟨kb, hp.mem_iff.mp hkb, he⟩
  · rintro ⟨kb, hkb, he⟩; exact ⟨kb, hp.mem_iff.mpr hkb, he⟩

/-- all components of a design: block keys are distinct over the whole design ("different update blocks will always
have different ids"); the entry of every block of every component is `expand` with the table of ITS component -/
theorem collectAll_entry_eq : ∀ (comps : List (Table × List (Nat × Blk))) (st0 st : State),
    collectAll st0 comps = .ok st → (comps.flatMap (fun c => keys c.2)).Nodup →
    ∀ c ∈ comps, ∀ kb ∈ c.2, ∃ e, expand c.1 kb.2 = .ok e ∧ st.reads.get kb.1 = e.reads ∧ st.writes.get kb.1 = e.writes := by
  intro comps
  induction comps with
  | nil => intro st0 st _ _ c hc; simp at hc
  | cons c0 rest ih =>
    intro st0 st h hnd c hc kb hkb
    obtain ⟨T0, bs0⟩ := c0
    unfold collectAll at h
    split at h
    · cases h
    · next st1 h1 =>
      simp only [List.flatMap_cons] at hnd
      have hnd0 : (keys bs0).Nodup := (List.nodup_append.mp hnd).1
      have hndr := (List.nodup_append.mp hnd).2.1
      have hdisj := (List.nodup_append.mp hnd).2.2
      rcases List.mem_cons.mp hc with hc | hc
      · subst hc
        obtain ⟨e, he, h2, h3⟩ := fold_entry_eq h1 hnd0 kb hkb
        -- later components leave the key alone
        have hk : kb.1 ∈ keys bs0 := List.mem_map_of_mem hkb
        have hrest : ∀ (cs : List (Table × List (Nat × Blk))) (s s' : State), collectAll s cs = .ok s' →
            (cs.flatMap (fun c => keys c.2)).Nodup → kb.1 ∉ cs.flatMap (fun c => keys c.2) →
            s'.reads.get kb.1 = s.reads.get kb.1 ∧ s'.writes.get kb.1 = s.writes.get kb.1 := by
          intro cs
          induction cs with
          | nil => intro s s' hs _ _; simp only [collectAll, Except.ok.injEq] at hs; subst hs; exact ⟨rfl, rfl⟩
          | cons c1 cs ih2 =>
            intro s s' hs hn hnot
            obtain ⟨T1, bs1⟩ := c1
            unfold collectAll at hs
            split at hs
            · cases hs
            · next s1 hs1 =>
              simp only [List.flatMap_cons] at hn hnot
              have hn1 := (List.nodup_append.mp hn).1
              have hn2 := (List.nodup_append.mp hn).2.1
              obtain ⟨a1, a2⟩ := fold_other_keys hs1 hn1 kb.1 (fun hm => hnot (List.mem_append_left _ hm))
              obtain ⟨b1, b2⟩ := ih2 s1 s' hs hn2 (fun hm => hnot (List.mem_append_right _ hm))
              exact ⟨by rw [b1, a1], by rw [b2, a2]⟩
        obtain ⟨r1, r2⟩ := hrest rest st1 st h hndr (fun hm => hdisj _ hk _ hm rfl)
        exact ⟨e, he, by rw [r1, h2], by rw [r2, h3]⟩
      · exact ih st1 st h hndr c hc kb hkb

/-- non-vacuity: two blocks sharing the helper `f0` (which calls `f1`), in both orders, after an unrelated block -/
def shared : Table := { funcs := [⟨[10], [20], [1]⟩, ⟨[11], [21], []⟩] }
def blkA : Blk := ⟨false, [1], [2], [0]⟩
def blkB : Blk := ⟨true, [3], [4], [0]⟩

example : (collect shared {} [(0, blkA), (1, blkB)]).map (fun st => (st.reads, st.writes, st.marks)) =
    .ok ([(0, [1, 10, 11]), (1, [3, 10, 11])], [(0, [2, 20, 21]), (1, [4, 20, 21])], [20, 21]) := by rfl
example : (collect shared {} [(1, blkB), (0, blkA)]).map (fun st => (st.reads.get 0, st.reads.get 1)) =
    .ok ([1, 10, 11], [3, 10, 11]) := by rfl
example : (collect shared { reads := [(0, [99]), (7, [5])], writes := [(1, [98])] } [(1, blkB), (0, blkA)]).map
    (fun st => (st.reads.get 0, st.writes.get 1, st.reads.get 7)) = .ok ([1, 10, 11], [4, 20, 21], [5]) := by rfl

/-! ### `needs_double_buffer` through functions -/

/-- one block marks exactly the top-level signals of the objects written by the functions it reaches, and only if it
is an `update_ff` block -/
theorem ff_marks_block {T : Table} {b : Blk} {e : Expanded} (h : expand T b = .ok e) (s : Nat) :
    s ∈ e.marks ↔ b.isff = true ∧ ∃ f, ReachFrom T b.calls f ∧ ∃ x ∈ T.writes f, T.top x = s := by
  obtain ⟨vis, hv, he⟩ := expand_ok_inv h
  subst he
  have hm := visit_ok_mem hv
  cases hff : b.isff with
  | false => simp [expandWith, hff]
  | true =>
    simp only [expandWith, hff, ↓reduceIte, List.mem_map, List.mem_flatMap, true_and]
    constructor
    · rintro ⟨x, ⟨f, hf, hx⟩, hs⟩
      exact ⟨f, ((hm f).mp hf).2, x, hx, hs⟩
    · rintro ⟨f, hf, x, hx, hs⟩
      exact ⟨x, ⟨f, (hm f).mpr ⟨lt_of_mem_writes hx, hf⟩, hx⟩, hs⟩

/-- the signals the expansion of a list of blocks marks = top-level signals of the writes of the functions reachable
from its `update_ff` blocks -/
theorem ff_marks_exact {T : Table} {blocks : List Blk} (hall : ∀ b ∈ blocks, ∃ e, expand T b = .ok e) (s : Nat) :
    s ∈ blocks.flatMap (marksOf T) ↔
      ∃ b ∈ blocks, b.isff = true ∧ ∃ f, ReachFrom T b.calls f ∧ ∃ x ∈ T.writes f, T.top x = s := by
  simp only [List.mem_flatMap]
  constructor
  · rintro ⟨b, hb, hs⟩
    obtain ⟨e, he⟩ := hall b hb
    simp only [marksOf, he] at hs
    exact ⟨b, hb, (ff_marks_block he s).mp hs⟩
  · rintro ⟨b, hb, hrest⟩
    obtain ⟨e, he⟩ := hall b hb
    refine ⟨b, hb, ?_⟩
    simp only [marksOf, he]
    exact (ff_marks_block he s).mpr hrest

/-- the same for the accumulating loop: what it adds to the marks -/
theorem fold_marks_exact {T : Table} {st0 st : State} {blocks : List (Nat × Blk)}
    (h : collect T st0 blocks = .ok st) (hk : (keys blocks).Nodup) (s : Nat) :
    s ∈ st.marks ↔ s ∈ st0.marks ∨
      ∃ kb ∈ blocks, kb.2.isff = true ∧ ∃ f, ReachFrom T kb.2.calls f ∧ ∃ x ∈ T.writes f, T.top x = s := by
  obtain ⟨_, _, l3⟩ := loop_spec blocks _ st h hk
  have hall := (fold_ok_iff T st0 blocks).mp ⟨st, h⟩
  rw [l3, enter_marks, List.mem_append]
  have hm : s ∈ blocks.flatMap (fun kb => marksOf T kb.2) ↔ s ∈ (blocks.map Prod.snd).flatMap (marksOf T) := by
    simp [List.flatMap_map]
  rw [hm, ff_marks_exact (by
    intro b hb
    obtain ⟨kb, hkb, rfl⟩ := List.mem_map.mp hb
    exact hall kb hkb)]
  constructor
  · rintro (h1 | ⟨b, hb, hrest⟩)
    · exact Or.inl h1
    · obtain ⟨kb, hkb, rfl⟩ := List.mem_map.mp hb
      exact Or.inr ⟨kb, hkb, hrest⟩
  · rintro (h1 | ⟨kb, hkb, hrest⟩)
    · exact Or.inl h1
    · exact Or.inr ⟨kb.2, List.mem_map_of_mem hkb, hrest⟩

/-- non-vacuity: the `update_ff` block marks the (top-level signals of the) writes of `f0` and `f1`, the `update` block
that shares the helper marks nothing; a slice (object 21 of signal 5) marks its signal -/
example : marksOf shared blkB = [20, 21] ∧ marksOf shared blkA = [] := by decide
example : marksOf { shared with tops := (List.range 21) ++ [5] } blkB = [20, 5] := by decide

end PV.C02c
