/-! # C03 — property theorems (stub: not built yet) -/
namespace PV.C03
end PV.C03
