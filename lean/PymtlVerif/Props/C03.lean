import PymtlVerif.Proofs.SV
import PymtlVerif.Proofs.SVStmt
import PymtlVerif.Proofs.SVLoop
import PymtlVerif.Proofs.SVMod
import PymtlVerif.Proofs.SVSigned
/-!
# C03 — translated SystemVerilog behaves exactly like the PyMTL simulation

Models: `Model/SV.lean` (two-state IEEE 1800-2017 semantics of the emitted subset: context widths §11.6, signed and
unsigned expression types §11.8, both readings `cb` of the size cast), `Model/SVMod.lean` (modules, elaboration, single-driver check, simulation loop),
`Model/VTr.lean` (typed RTLIR `RExpr`/`RStmt`, PyMTL semantics `evalPy`/`execPy`, translator `tr`/`trStmt`).
Proofs: `Proofs/SV.lean`, `Proofs/SVStmt.lean`, `Proofs/SVLoop.lean`, `Proofs/SVMod.lean`.

`WT` / `WTref` (`SVProofs.WTm`) is the invariant the RTLIR type checker establishes (operand widths equal for
the max-width operators, literals sized to the context, indices typed, right-hand side as wide as the target);
it is a hypothesis here (C10 relates the type checker to it).  `C` lists the `localparam` variables with
their values, `HoldsC σ C` says the store holds them.

`signSafe be e` (`Model/VTr.lean`): no `< <= > >=` / `%` node of `e` has two operands whose EMITTED forms are both
signed.  The SystemVerilog backend emits nothing signed (`int unsigned` loop variables, `logic` signals, sized
literals): `signSafe_sv` proves the hypothesis for every expression, so for this backend the theorems below hold
for every well-typed input exactly as before signedness was modelled.  For the Yosys backend (`integer` loop
variables) it is a genuine restriction: Props/C12.lean.

Coverage of `expr_correct` (all 22 `RExpr` constructors occur in `WTm`): numbers, BitsN(const), BitsN(e) (equal
width; narrower context-free operand for Verilog; zero-extension form for Yosys), signals, constants and closure
constants (localparam for Verilog, literal for Yosys), loop variables, temporaries (explicit and implicit),
struct members (Verilog), elements of lists / packed arrays / bits with dynamic indices, constant slices,
`+:` part selects, concat, zext, sext (all templates of the repaired `visit_SignExt`), trunc, reduce_and/or/xor,
`~`, `+ - * % & | ^ << >>`, the six comparisons, if-expressions.
NOT covered by the theorem (covered by the correspondence only): Yosys member access by flattened name;
BitsN(e) of a wider operand or of a narrower context-dependent operand; sext whose operand is a struct- or
array-typed signal; multiple assignment targets; descending loops and the loops of the Yosys backend.
-/
namespace PV.C03
open PV.SV PV.VTr PV.SVProofs PV.Sched

/-- **Expressions.** For every well-typed RTLIR expression whose PyMTL evaluation yields `v`, the translated
    expression evaluated under the IEEE 1800 context-width rules — in a context of the node's own width — has the
    same value, its self-determined width is the node's width, and the value fits; for both backends and both
    readings of the size cast. -/
theorem expr_correct (be : Backend) (cb : Bool) (Γ : Env) (C : List (String × Nat)) (σ : Store)
    (hC : HoldsC σ C) {e : RExpr} (hwt : WT be Γ C e) (hs : signSafe be e = true) {v : Nat}
    (hv : evalPy be Γ σ e = some v) :
    eval cb Γ σ e.width (tr be e) = v ∧ selfWidth Γ (tr be e) = e.width ∧ v < 2 ^ e.width :=
  SVProofs.expr_correct be cb Γ C σ hC hwt hs hv

/-- the side condition is free for the SystemVerilog backend: none of its expressions is signed … -/
theorem sv_unsigned (e : RExpr) : signedOf (tr .verilog e) = false := SVProofs.signedOf_tr_verilog e

/-- … so every expression and every statement is `signSafe` -/
theorem signSafe_sv (e : RExpr) : signSafe .verilog e = true := SVProofs.signSafe_verilog e
theorem signSafeS_sv (s : RStmt) : signSafeS .verilog s = true := SVProofs.signSafeS_verilog s

/-- **Expressions, SystemVerilog backend**: no side condition -/
theorem expr_correct_sv (cb : Bool) (Γ : Env) (C : List (String × Nat)) (σ : Store)
    (hC : HoldsC σ C) {e : RExpr} (hwt : WT .verilog Γ C e) {v : Nat} (hv : evalPy .verilog Γ σ e = some v) :
    eval cb Γ σ e.width (tr .verilog e) = v ∧ selfWidth Γ (tr .verilog e) = e.width ∧ v < 2 ^ e.width :=
  SVProofs.expr_correct .verilog cb Γ C σ hC hwt (SVProofs.signSafe_verilog e) hv

/-- **Signal references** (assignment targets, select chains): the storage PyMTL addresses is the storage the
    translated select chain addresses, in range, with the same type. -/
theorem ref_correct (be : Backend) (cb : Bool) (Γ : Env) (C : List (String × Nat)) (σ : Store)
    (hC : HoldsC σ C) {e : RExpr} (hwt : WTref be Γ C e) (hs : signSafe be e = true) {l : Loc}
    (hr : refPy be Γ σ e = some l) :
    loc cb Γ σ (tr be e) = some l ∧ l.ok = true ∧ typeOf Γ (tr be e) = some ⟨l.ty, l.dims⟩ :=
  SVProofs.ref_correct be cb Γ C σ hC hwt hs hr

/-- the value an assignment stores: right-hand side evaluated at `max (lhs width) (self width)` and truncated -/
theorem rhs_correct (be : Backend) (cb : Bool) (Γ : Env) (C : List (String × Nat)) (σ : Store)
    (hC : HoldsC σ C) {e : RExpr} (hwt : WT be Γ C e) (hs : signSafe be e = true) {v : Nat}
    (hv : evalPy be Γ σ e = some v) :
    evalRhs cb Γ σ e.width (tr be e) = v :=
  SVProofs.evalRhs_correct be cb Γ C σ hC hwt hs hv

/-- **Statements** (assignment `@=` → blocking: the store is updated at once; `<<=` → non-blocking: appended to
    the pending updates; if/else; sequences): executing the translated statement yields exactly the PyMTL
    result — same store, same pending updates. -/
theorem stmt_correct (be : Backend) (cb : Bool) (Γ : Env) (C : List (String × Nat)) {s : RStmt}
    (hwt : WTs be Γ C s) (hs : signSafeS be s = true) {xs xs' : XS} (h : execPy be Γ s xs = some xs')
    (hC : HoldsC xs.σ C) :
    exec cb Γ (trStmt be s) xs = xs' ∧ HoldsC xs'.σ C :=
  SVProofs.stmt_correct be cb Γ C hwt hs h hC

/-- **Statements with constant `for` loops** (Verilog backend, ascending ranges, nested and sequential loops):
    simulation up to the cell of an out-of-scope loop variable (`AgreeX`: equal on every declared variable, equal
    pending updates, no loop runs out of fuel). -/
theorem stmt_sim (be : Backend) (cb : Bool) (C : List (String × Nat)) {Γ : Env} {s : RStmt}
    (hwt : WTsL be C Γ s) (hs : signSafeS be s = true) {p p' q : XS} (h : execPy be Γ s p = some p')
    (hC : HoldsC p.σ C)
    (ha : AgreeX Γ p q) : AgreeX Γ p' (exec cb Γ (trStmt be s) q) ∧ HoldsC p'.σ C :=
  SVProofs.stmt_sim be cb C hwt hs h hC ha

/-- **Statements with loops, SystemVerilog backend**: no side condition -/
theorem stmt_sim_sv (cb : Bool) (C : List (String × Nat)) {Γ : Env} {s : RStmt}
    (hwt : WTsL .verilog C Γ s) {p p' q : XS} (h : execPy .verilog Γ s p = some p') (hC : HoldsC p.σ C)
    (ha : AgreeX Γ p q) : AgreeX Γ p' (exec cb Γ (trStmt .verilog s) q) ∧ HoldsC p'.σ C :=
  SVProofs.stmt_sim .verilog cb C hwt (SVProofs.signSafeS_verilog s) h hC ha

/-- the emitted `for ( int unsigned x = start; x < stop; x += step )` enumerates `range(start, stop, step)` -/
theorem for_unrolls (cb : Bool) (Γ : Env) (blk x : String) (start stop step sw ew pw : Nat) (body : RStmt)
    (n : Nat) (s : XS)
    (hstart : start < 2 ^ sw) (hstop : stop < 2 ^ ew) (hstep : step < 2 ^ pw)
    (hs32 : start < 2 ^ 32) (hbound : stop + step < 2 ^ 32)
    (hpres : ∀ t, (exec cb (Γ.extend x intDecl) (trStmt .verilog body) t).σ.get (x, 0) = t.σ.get (x, 0))
    (hn : stop ≤ start + n * step)
    (hlen : (pyRange start stop step false n).length < loopFuel) :
    exec cb Γ (trStmt .verilog (.for_ blk x start stop step false sw ew pw body)) s =
      (pyRange start stop step false n).foldl
        (svIter cb (Γ.extend x intDecl) x (trStmt .verilog body) step)
        { s with σ := s.σ.set (x, 0) start } :=
  SVProofs.for_sv cb Γ blk x start stop step sw ew pw body n s hstart hstop hstep hs32 hbound hpres hn hlen

/-- non-blocking assignments: the last one to a location wins at the commit -/
theorem nonblocking_last_wins (σ : Store) (nba : NBA) (l : Loc) (v : Nat) (hok : l.ok = true) (hd : l.dims = []) :
    readLoc (commit σ (nba ++ [(l, v)])) l = v % 2 ^ l.ty.width :=
  SVProofs.commit_last σ nba l v hok hd

/-- the pending updates are applied in program order -/
theorem commit_in_order (σ : Store) (nba : NBA) (l : Loc) (v : Nat) :
    commit σ (nba ++ [(l, v)]) = writeLoc (commit σ nba) l v :=
  SVProofs.commit_append σ nba l v

/-- **Single driver**: when the checker accepts the write footprints of the processes, every bit of every
    variable is written by at most one process. -/
theorem singleDriver_sound (ws : List (List WR)) (h : singleDriver ws = true) (x : String) (e b : Nat) :
    (drivers ws x e b).length ≤ 1 :=
  SV.singleDriver_sound ws h x e b

/-- … and when it rejects (non-empty footprints), some bit really has two drivers -/
theorem singleDriver_complete (ws : List (List WR)) (hne : ∀ w ∈ ws, ∀ r ∈ w, r.NonEmpty)
    (h : singleDriver ws = false) : ∃ x e b, 2 ≤ (drivers ws x e b).length :=
  SV.singleDriver_complete ws hne h

section design
variable {Var Val : Type} {vw : XS → St Var Val} {castB : Bool} {Γ : Env} {ps : List Proc} {bs : List (Blk Var Val)}

/-- **Design level** (instantiating the scheduling theory of C01): if the combinational processes are represented
    by well-formed blocks (frame / dependency, hypothesis `Blk.Wf`) that are single-writer and listed in a
    topological order, then any state fixed by every process and agreeing with the start on the undriven
    variables is the state one sweep produces: the value of the design is a unique fixed point. -/
theorem design_fixpoint_unique (hrep : Represents vw castB Γ ps bs) (hwf : ∀ b ∈ bs, b.Wf)
    (hsw : SingleWriter bs) (htopo : Topo bs) (s t : XS)
    (hin : ∀ k, (∀ b ∈ bs, ¬ b.W k) → vw t k = vw s k)
    (ht : ∀ p ∈ ps, vw (exec castB Γ p.body t) = vw t) :
    vw t = vw (runProcs castB Γ ps s) :=
  SV.design_fixpoint_unique hrep hwf hsw htopo s t hin ht

/-- any other topological order of the same processes settles to the same state -/
theorem design_order_independent (hrep : Represents vw castB Γ ps bs) (hwf : ∀ b ∈ bs, b.Wf)
    (hsw : SingleWriter bs) (htopo : Topo bs)
    {ps' : List Proc} {bs' : List (Blk Var Val)} (hrep' : Represents vw castB Γ ps' bs')
    (hperm : bs.Perm bs') (htopo' : Topo bs') (s : XS) :
    vw (runProcs castB Γ ps' s) = vw (runProcs castB Γ ps s) :=
  SV.design_order_independent hrep hwf hsw htopo hrep' hperm htopo' s

/-- whatever the sweep loop of the simulator returns is that fixed point -/
theorem settle_is_fixpoint (hrep : Represents vw castB Γ ps bs) (hwf : ∀ b ∈ bs, b.Wf)
    (hsw : SingleWriter bs) (htopo : Topo bs) (n : Nat) (s r : XS)
    (h : settleN castB Γ ps n s = some r) : vw r = vw (runProcs castB Γ ps s) :=
  SV.settleN_view hrep hwf hsw htopo n s r h
end design

/-! ### non-vacuity -/

/-- `sext(16, a[2:6]) + zext(16, m[a[0:2]])` is well typed, for both backends -/
example (be : Backend) (Γ : Env) (h1 : Γ "a" = some ⟨.vec 8, []⟩) (h2 : Γ "m" = some ⟨.vec 8, [4]⟩) :
    WT be Γ [] SVProofs.exE := SVProofs.exE_wt be Γ h1 h2

/-- a loop statement in the fragment of `stmt_sim` -/
example : WTsL .verilog [] SVProofs.exΓ SVProofs.exS := SVProofs.exS_wt

/-- `i < j` for two loop variables: the SystemVerilog text (`int unsigned`) has PyMTL's value 1 at i=1, j=5
    (an instance of `expr_correct_sv`; the Yosys text has 0: `PV.C12.signed_loopvar_counterexample`) -/
example (cb : Bool) : eval cb SVProofs.sgΓ (SVProofs.sgσ 1 5) SVProofs.exLt.width (tr .verilog SVProofs.exLt) = 1 :=
  (expr_correct_sv cb _ [] _ (SVProofs.sg_holdsC 1 5) (SVProofs.exLt_wt .verilog) (SVProofs.exLt_py .verilog)).1

end PV.C03
