import PymtlVerif.Proofs.MetaTree
/-!
# C15 — replacing a component yields the same design as building it directly

Property theorems about `Model/Meta.lean`. `elaborate H` is the whole-design metadata of hierarchy `H`
(union of per-component contributions, path-prefixed); `delete` / `add` / `replace` mirror
`_delete_component` / `_add_component` / `replace_component[_with_obj]`; `set H p N` is the hierarchy
with the subtree at `p` replaced by `N` (the from-scratch design). `Equiv` = same entries (the Python
containers are sets, so this is equality of the containers by name).

Hypotheses:
* `NoLoopAt H p` — no surviving component connects two signals that are both under `p` (a parent-level
  loopback between two ports of the replaced child is not saved by `_delete_component`: both ends are
  removed). Demonstrated on /repo as a separate finding; outside the theorems.
* `Compatible H p N` — every name under `p` mentioned by a saved entry (cross-boundary connection,
  block reference or constraint of a surviving component) is declared by `N` mounted at `p`: exactly
  the condition under which `add` re-evaluates all saved names (`add … = some …`), otherwise `none`
  (Python raises `AttributeError` in `eval`).
-/
namespace PV.C15
open PV.Meta

/-- the saved names resolve in the new subtree -/
def Compatible (H : Hier) (p : Name) (N : Hier) : Prop :=
  ((delete (elaborate H) p).2).all (resolvable p (elabAt p N)) = true

/-! ## replacing = building directly -/

/-- delete-then-add on the elaborated metadata holds exactly the entries of the elaboration of the
    hierarchy with the replacement in place (unguarded form: whatever `N` declares) -/
theorem replace_eq_build_raw (H : Hier) (p : Name) (N : Hier) (hl : NoLoopAt H p) :
    Equiv (addRaw (delete (elaborate H) p).1 p N (delete (elaborate H) p).2)
      (elaborate (set H p N)) := by
  intro e
  rw [elaborate_set]
  unfold addRaw
  rw [List.mem_append, delete_restore H p hl e, List.mem_append]

/-- C15_replace_eq_build: for a compatible replacement `replace_component` succeeds and the resulting
    top-level metadata is that of the design built from scratch with `N` at `p` -/
theorem replace_eq_build (H : Hier) (p : Name) (N : Hier) (hl : NoLoopAt H p)
    (hc : Compatible H p N) :
    ∃ M, replace (elaborate H) (p, N) = some M ∧ Equiv M (elaborate (set H p N)) := by
  refine ⟨addRaw (delete (elaborate H) p).1 p N (delete (elaborate H) p).2, ?_,
    replace_eq_build_raw H p N hl⟩
  unfold replace add
  unfold Compatible at hc
  simp only [hc, if_true]

/-- an incompatible replacement fails (a saved name cannot be re-evaluated) and changes nothing -/
theorem replace_incompatible (H : Hier) (p : Name) (N : Hier) (hc : ¬ Compatible H p N) :
    replace (elaborate H) (p, N) = none := by
  unfold replace add
  unfold Compatible at hc
  simp only [hc]
  rfl

/-- the same on any metadata that holds the entries of `elaborate H` (e.g. after earlier
    replacements) -/
theorem replace_eq_build_of_equiv (H : Hier) (p : Name) (N : Hier) (M : Meta)
    (hM : Equiv M (elaborate H)) (hl : NoLoopAt H p) (hc : Compatible H p N) :
    ∃ M', replace M (p, N) = some M' ∧ Equiv M' (elaborate (set H p N)) := by
  obtain ⟨M0, h0, e0⟩ := replace_eq_build H p N hl hc
  obtain ⟨M', h', e'⟩ := replace_congr hM.symm (p, N) h0
  exact ⟨M', h', e'.symm.trans e0⟩

/-! ## nothing of the removed component is left -/

/-- after `_delete_component` no entry of any top-level container mentions a component, signal,
    method port, block or constant under `p` (for every metadata list, not only elaborated ones) -/
theorem delete_clean (M : Meta) (p : Name) (e : Entry) (h : e ∈ (delete M p).1) :
    touches p e = false := by
  simp [delete, List.mem_filter] at h
  exact h.2

/-- in the result of the replacement an entry that mentions anything under `p` is either an entry of
    the new subtree's own elaboration, or a restored cross-boundary entry, all of whose names under
    `p` are declared by the new subtree -/
theorem result_touching (M : Meta) (p : Name) (N : Hier) (R : Meta)
    (h : replace M (p, N) = some R) (e : Entry) (he : e ∈ R) (ht : touches p e = true) :
    e ∈ elabAt p N ∨ (e ∈ restore (delete M p).2 ∧ resolvable p (elabAt p N) e = true) := by
  unfold replace add at h
  split at h
  · rename_i hg
    injection h with h
    subst h
    simp only [addRaw, List.mem_append] at he
    rcases he with (he | he) | he
    · rw [delete_clean M p e he] at ht; cases ht
    · refine Or.inr ⟨he, ?_⟩
      rw [List.all_eq_true] at hg
      rcases mem_restore.1 he with h | h
      · exact hg e h
      · have := hg _ h
        cases e <;> simp_all [Entry.swap, resolvable, Bool.and_comm]
    · exact Or.inl he
  · cases h

/-- C15_nothing_left: an entry contributed by the *old* subtree (any component under `p` of `H`)
    occurs in the result only if the new subtree contributes the very same entry -/
theorem nothing_left (H : Hier) (p : Name) (N : Hier) (R : Meta)
    (h : replace (elaborate H) (p, N) = some R) (e : Entry)
    (hold : e ∈ elaborate (H.filter (fun x => under p x.1))) (he : e ∈ R) :
    e ∈ elabAt p N := by
  obtain ⟨x, hx, hex⟩ := mem_elaborate.1 hold
  rw [List.mem_filter] at hx
  have ho : owned p e = true := contrib_owned hx.2 hex
  rcases result_touching _ p N R h e he (owned_touches ho) with h' | ⟨h', _⟩
  · exact h'
  · exfalso
    rcases mem_restore.1 h' with hs | hs
    · simp only [delete, List.mem_filter] at hs
      rw [saved_not_owned hs.2] at ho; cases ho
    · simp only [delete, List.mem_filter] at hs
      -- the mirror image of an entry of the old subtree is an entry of the old subtree: owned
      have := contrib_owned hx.2 (contrib_swap hex)
      rw [saved_not_owned hs.2] at this; cases this

/-! ## sequences of replacements -/

/-- every step of the sequence is applied to a hierarchy that satisfies the hypotheses of
    `replace_eq_build` (paths may be at any depth / list position, may repeat, may lie inside a
    subtree installed by an earlier step) -/
def StepsOk : Hier → List (Name × Hier) → Prop
  | _, [] => True
  | H, r :: rs => NoLoopAt H r.1 ∧ Compatible H r.1 r.2 ∧ StepsOk (set H r.1 r.2) rs

/-- C15_sequence: folding `replace` over the metadata = elaborating the hierarchy obtained by folding
    `set`, for any number of replacements -/
theorem sequence (rs : List (Name × Hier)) :
    ∀ (H : Hier) (M : Meta), Equiv M (elaborate H) → StepsOk H rs →
      ∃ M', replaceAll M rs = some M' ∧ Equiv M' (elaborate (setAll H rs)) := by
  induction rs with
  | nil => intro H M hM _; exact ⟨M, rfl, hM⟩
  | cons r rs ih =>
    intro H M hM hs
    obtain ⟨hl, hc, hrest⟩ := hs
    obtain ⟨M1, h1, e1⟩ := replace_eq_build_of_equiv H r.1 r.2 M hM hl hc
    obtain ⟨M', h', e'⟩ := ih (set H r.1 r.2) M1 e1 hrest
    refine ⟨M', ?_, ?_⟩
    · simp only [replaceAll]
      rw [show r = (r.1, r.2) from rfl, h1]
      exact h'
    · simpa [setAll] using e'

/-- in particular from the freshly elaborated design -/
theorem sequence_elab (H : Hier) (rs : List (Name × Hier)) (hs : StepsOk H rs) :
    ∃ M', replaceAll (elaborate H) rs = some M' ∧ Equiv M' (elaborate (setAll H rs)) :=
  sequence rs H (elaborate H) (Equiv.refl _) hs

/-! ## the code's search of the parent only is complete on disciplined hierarchies -/

/-- `_delete_component` looks for references to removed signals only in the containers of the *parent*
    of the removed component. If every component refers only to its own signals and to those of its
    direct children, every saved entry (every entry of a surviving component that mentions something
    under `p`) is indeed an entry of the parent of `p`. -/
theorem saved_from_parent (H : Hier) (p : Name) (hd : ∀ x ∈ H, Disciplined x.2) (e : Entry)
    (he : e ∈ (delete (elaborate H) p).2) :
    ∃ x ∈ H, e ∈ contrib x.1 x.2 ∧ ∃ a, p = x.1 ++ [a] := by
  simp only [delete, List.mem_filter] at he
  obtain ⟨x, hx, hex⟩ := mem_elaborate.1 he.1
  refine ⟨x, hx, hex, ?_⟩
  cases hu : under p x.1
  · exact PV.Meta.saved_from_parent (hd x hx) hu hex (saved_touches he.2)
  · have := saved_not_owned he.2
    rw [contrib_owned hu hex] at this; cases this

/-! ## the path-indexed hierarchy is a tree -/

/-- `Meta.set` on the flattened component tree is subtree replacement by recursion along the path
    (sibling names distinct, `p` the path of a component): the from-scratch side of the theorems is
    the tree with the new subtree in place -/
theorem forest_set_flatten (t : Tree) (p : Name) (N : Tree) (hw : t.kids.Wf)
    (hp : p = [] ∨ t.kids.has p) :
    Equiv (elaborate (t.set p N).flatten) (elaborate (set t.flatten p N.flatten)) :=
  elaborate_congr (Tree.set_flatten t p N hw hp)

/-- replace = build, stated on trees -/
theorem replace_eq_build_tree (t : Tree) (p : Name) (N : Tree) (hw : t.kids.Wf)
    (hp : p = [] ∨ t.kids.has p) (hl : NoLoopAt t.flatten p) (hc : Compatible t.flatten p N.flatten) :
    ∃ M, replace (elaborate t.flatten) (p, N.flatten) = some M ∧
      Equiv M (elaborate (t.set p N).flatten) := by
  obtain ⟨M, h, e⟩ := replace_eq_build t.flatten p N.flatten hl hc
  exact ⟨M, h, e.trans (forest_set_flatten t p N hw hp).symm⟩

/-! ## non-vacuity: a concrete hierarchy, replacement and sequence satisfy the hypotheses -/

section Example

instance (H : Hier) (p : Name) (N : Hier) : Decidable (Compatible H p N) := by
  unfold Compatible; infer_instance
instance (H : Hier) (p : Name) : Decidable (NoLoopAt H p) := by
  unfold NoLoopAt NoLoop; infer_instance

/-- child with an update_once block, a method port, an M constraint and a constant -/
def exOld : Comp :=
  { sigs := [("in0", "in"), ("out0", "out"), ("w", "wire")], mports := [("ping", "callee")],
    blks := [⟨"b", 2, [([], "in0"), ([], "w")], [([], "out0")], []⟩],
    mcs := [(.meth ([], "ping"), .blk ([], "b"), false)], consts := [(([], "w"), "5")] }
def exNew : Comp :=
  { sigs := [("in0", "in"), ("out0", "out")], blks := [⟨"x", 0, [([], "in0")], [([], "out0")], []⟩] }
/-- parent: connects the child's input, reads its output in a block, constrains its output -/
def exTop : Comp :=
  { sigs := [("in0", "in"), ("out0", "out")],
    blks := [⟨"up", 0, [(["c"], "out0")], [([], "out0")], []⟩],
    rdu := [((["c"], "out0"), true, ([], "up"))], conns := [((["c"], "in0"), ([], "in0"))] }
def exH : Hier := [([], exTop), (["c"], exOld)]
def exN : Hier := [([], exNew)]

example : NoLoopAt exH ["c"] := by decide

example : Compatible exH ["c"] exN := by decide

example : (replace (elaborate exH) (["c"], exN)).isSome = true := by decide

/-- three entries cross the boundary and are saved: the connection, the block read, the constraint -/
example : ((delete (elaborate exH) ["c"]).2).length = 3 := by decide

/-- a replacement without the port the parent uses is incompatible -/
example : ¬ Compatible exH ["c"] [([], { sigs := [("in0", "in")] })] := by decide

example : StepsOk exH [(["c"], exN), (["c"], [([], exOld)])] :=
  ⟨by decide, by decide, by decide, by decide, trivial⟩

end Example

end PV.C15
