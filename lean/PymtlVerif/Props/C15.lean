/-! # C15 — property theorems (stub: not built yet) -/
namespace PV.C15
end PV.C15
