import PymtlVerif.Proofs.HierHook
/-!
# C14 (hook) — names given by `__setattr_for_elaborate__` under attribute assignments and `+=`

`Props/C14.lean` speaks about the hierarchy of a finished construction description.  The theorems here
are about the mechanism that produces it — `Model/HierHook.lean`: the hook `assign` as an operation on
the naming state, `iadd` (`s.x += […]`: in-place extension + assignment of the same list, repaired by
fix 0c15daa), and list methods that change a list behind the hook's back (`HSt.mutate`).

`HSteps root (HSt.init root) st`: `st` is reached from the state `elaborate()` starts with by any
number of statements `s.a = v` (new attribute name; `v` an object, a nested list, an existing list of the
design, anything else) and `s.a += extra`, with owners anywhere in the design, in any order.
`HReach st root (.obj o)`: `o` is part of the design (`_collect_all_single`).
`hresolve st root n`: `eval( n, {'s': top} )`.
-/
namespace PV.C14h
open PV.Hier

/-- **The hook's breadth-first walk visits exactly the `NamedObject`s of the (nested) list, each with
its index path** — for every nesting shape, `None` holes and other non-hardware elements included. -/
theorem walk_indices (v : HVal) (u : Nat) (ix : List Nat) :
    (u, ix) ∈ visited v ↔ hgetPath v ix = some (.obj u) :=
  mem_visited

theorem hinv_steps {root : Nat} {st : HSt} (h : HSteps root (HSt.init root) st) : HInv st root := by
  induction h with
  | refl => exact hinv_init root
  | tail _ hstep ih =>
    have hs := step_summary ih hstep
    intro o ho
    obtain ⟨s, sd, a, _, _, _, hrec⟩ := hs.records
    rcases hrec o with heq | ⟨ix, hd, hres⟩
    · rcases hs.news o ho with hold | ⟨hnone, hsome⟩
      · obtain ⟨d, hd, hres⟩ := ih o hold
        exact ⟨d, by rw [heq, hd], hs.resolves _ _ hres⟩
      · rw [heq, hnone] at hsome; cases hsome
    · exact ⟨_, hd, hres⟩

/-- **After any sequence of attribute assignments and `+=` through the hook, every object of the
design has a hierarchical name and the name evaluates back to that very object**
(`eval( repr(o) ) is o`), for lists of any nesting, any number of `+=` on any attribute of any object,
lists bound under a second attribute name and extended through either name. -/
theorem hook_names_resolve {root : Nat} {st : HSt} (h : HSteps root (HSt.init root) st)
    {o : Nat} (ho : HReach st root (.obj o)) :
    ∃ d, st.dsl o = some d ∧ hresolve st root d.full = some (.obj o) :=
  hinv_steps h o ho

/-- **Names stay injective**: two objects of the design with the same full name are the same object. -/
theorem hook_names_injective {root : Nat} {st : HSt} (h : HSteps root (HSt.init root) st)
    {o₁ o₂ : Nat} {d₁ d₂ : Dsl} (h₁ : HReach st root (.obj o₁)) (h₂ : HReach st root (.obj o₂))
    (e₁ : st.dsl o₁ = some d₁) (e₂ : st.dsl o₂ = some d₂) (hn : d₁.full = d₂.full) : o₁ = o₂ := by
  obtain ⟨d, hd, hr⟩ := hinv_steps h o₁ h₁
  obtain ⟨d', hd', hr'⟩ := hinv_steps h o₂ h₂
  rw [e₁] at hd; rw [e₂] at hd'; cases hd; cases hd'
  rw [hn, hr'] at hr
  cases hr; rfl

/-- the statement re-binds only leaves: an object whose record changes had no named children
(the boundary of known finding C14-rebind-object-with-descendants) -/
def RebindLeaf (st st' : HSt) : Prop :=
  ∀ u d, st.dsl u = some d → st'.dsl u ≠ some d → ∀ o d', st.dsl o = some d' → d'.parent ≠ some u

inductive HStepsL (root : Nat) : HSt → HSt → Prop where
  | refl (st : HSt) : HStepsL root st st
  | tail {st st' st'' : HSt} : HStepsL root st st' → HStep root st' st'' → RebindLeaf st' st'' → HStepsL root st st''

theorem HStepsL.steps {root : Nat} {st st' : HSt} (h : HStepsL root st st') : HSteps root st st' := by
  induction h with
  | refl => exact .refl _
  | tail _ hs _ ih => exact .tail ih hs

/-- **Parent / level / field name / indices are consistent with the name**: the top is `s` at level 0
without a parent; every other object of the design has a parent that is in the design, whose full name
followed by `.name[i]…[j]` (`_my_name`, `_my_indices`) is the object's full name and whose level is one
less — as long as objects that are bound again have no named children. -/
theorem hook_metadata {root : Nat} {st : HSt} (h : HStepsL root (HSt.init root) st)
    {o : Nat} {d : Dsl} (ho : HReach st root (.obj o)) (hd : st.dsl o = some d) :
    (o = root ∧ d = ⟨[.root], none, 0, "s", []⟩) ∨
    (∃ p pd, d.parent = some p ∧ st.dsl p = some pd ∧ HReach st root (.obj p) ∧
      d.full = pd.full ++ d.my ∧ d.level = pd.level + 1) := by
  induction h generalizing o d with
  | refl =>
    have := reach_init ho
    cases this
    left
    refine ⟨rfl, ?_⟩
    simp [HSt.init] at hd
    exact hd.symm
  | @tail st' st'' hsteps hstep hleaf ih =>
    have hs := step_summary (hinv_steps hsteps.steps) hstep
    obtain ⟨s, sd, a, hsd, hsd', hsr, hrec⟩ := hs.records
    rcases hrec o with heq | ⟨ix, hdo, _⟩
    · rcases hs.news o ho with hold | ⟨hnone, hsome⟩
      · have hd' : st'.dsl o = some d := by rw [← heq]; exact hd
        rcases ih hold hd' with hroot | ⟨p, pd, hp, hpd, hpr, hfull, hlev⟩
        · exact Or.inl hroot
        · right
          refine ⟨p, pd, hp, ?_, hs.keeps p hpr, hfull, hlev⟩
          by_cases hne : st''.dsl p = some pd
          · exact hne
          · exact absurd hp (hleaf p pd hpd hne o d hd')
      · rw [heq, hnone] at hsome; cases hsome
    · right
      rw [hd] at hdo
      cases hdo
      exact ⟨s, sd, rfl, hsd', hsr, rfl, rfl⟩

/-- **What the repaired `s.a += extra` does to an existing hardware list field**: every object that had
a name keeps its record, and every object of the extended list that had none is named after one of its
positions in the extended list (`s.a[n]`, `s.a[n][j]`, …). -/
theorem iadd_names_unnamed_elements {st st' : HSt} {s : Nat} {a : String} {sd : Dsl} {extra : List HVal}
    (hp : isPublic a = true) (hsd : st.dsl s = some sd) (hf : (st.fields s).contains a = true)
    (h : iadd st s a extra = .ok st') :
    ∃ v, (st'.attrs s).lookup a = some v ∧
      (∀ o d, st.dsl o = some d → st'.dsl o = some d) ∧
      (∀ u ix, hgetPath v ix = some (.obj u) → st.dsl u = none → u ≠ s →
        (∀ w jx, hgetPath v jx = some (.obj w) → w ≠ s) →
        ∃ jx, hgetPath v jx = some (.obj u) ∧ st'.dsl u = some (mkDsl sd s a jx)) := by
  simp only [iadd] at h
  split at h
  · rename_i id xs hl
    have hl1 : ((st.mutate id (· ++ extra)).attrs s).lookup a = some ((HVal.lst id xs).mut id (· ++ extra)) := by
      simp [HSt.mutate, lookup_map_mut, hl]
    simp only [hl1] at h
    generalize hv1 : (HVal.lst id xs).mut id (· ++ extra) = v1 at hl1 h
    have hsd1 : (st.mutate id (· ++ extra)).dsl s = some sd := hsd
    rcases assign_spec hp hsd1 h with ⟨_, u, hu⟩ | ⟨ext, st0, occ, ha, hd, rfl, hocc, hext⟩
    · rw [← hv1, mut_lst] at hu; cases hu
    · refine ⟨v1, lookup_setAttr_self _ s a v1, ?_⟩
      have hs0 : st0.dsl s = some sd := by rw [hd]; exact hsd1
      have hd0 : st0.dsl = st.dsl := hd
      rcases hext with rfl | rfl
      · -- nothing to walk
        refine ⟨fun o d ho => by simpa [setAttr, nameWalk, hd0] using ho, fun u ix hix => ?_⟩
        exact absurd ((hocc u ix).2 hix) (by simp)
      · have hf' : (List.contains ((st.mutate id (· ++ extra)).fields s) a) = true := hf
        constructor
        · intro o d ho
          by_cases hos : ∀ p ∈ occ, p.1 ≠ s
          · have := ((nameWalk_spec s a _ occ st0 hs0 hos).2 o).1
              (Or.inr ⟨hf', by rw [hd0, ho]; rfl⟩)
            show (nameWalk s a _ st0 occ).dsl o = some d
            rw [this, hd0, ho]
          · -- the owner sits in its own list: it is named, so it is skipped like every named object
            clear hos
            show (nameWalk s a _ st0 occ).dsl o = some d
            rw [hf']
            have gen : ∀ (occ : List (Nat × List Nat)) (st1 : HSt), st1.dsl o = some d →
                (nameWalk s a true st1 occ).dsl o = some d := by
              intro occ
              induction occ with
              | nil => intro st1 h1; exact h1
              | cons p r ih =>
                intro st1 h1
                obtain ⟨u0, ix0⟩ := p
                simp only [nameWalk]
                split
                · exact ih st1 h1
                · rename_i hsk
                  apply ih
                  have hu : o ≠ u0 := by
                    rintro rfl
                    simp [h1] at hsk
                  simp only [nameOne]
                  split
                  · exact h1
                  · simp [upd, hu, h1]
            exact gen occ st0 (by rw [hd0]; exact ho)
        · intro u ix hix hnone _ hall
          have hos : ∀ p ∈ occ, p.1 ≠ s := fun p hp => hall p.1 p.2 ((hocc p.1 p.2).1 hp)
          obtain ⟨jx, hm, hdo⟩ := ((nameWalk_spec s a _ occ st0 hs0 hos).2 u).2 ⟨ix, (hocc u ix).2 hix⟩
            (by rw [hd0, hnone]; simp)
          exact ⟨jx, (hocc u jx).1 hm, hdo⟩
  · cases h

/-! ## the model of known finding C14-list-mutated-in-place -/

/-- **A list mutated behind the hook's back leaves an object in the design without a name.**
Whatever the state, if the list object `id` is part of the design and one of its methods that removes
nothing (`append`, `extend`, `insert`, `__iadd__` on an inner list) puts a new object `u` into it, then
`u` is part of the design (`_collect_all_single` finds it) and has no hierarchical name: the property
"every object of the design has a name that evaluates back to it" fails. -/
theorem mutated_behind_hook_unnamed {st : HSt} {root id : Nat} {xs : List HVal} {u : Nat}
    (f : List HVal → List HVal) (hkeep : ∀ l x, x ∈ l → x ∈ f l) (hput : ∀ l, .obj u ∈ f l)
    (hl : HReach st root (.lst id xs)) (hfresh : st.dsl u = none) :
    HReach (st.mutate id f) root (.obj u) ∧ (st.mutate id f).dsl u = none ∧ ¬ HInv (st.mutate id f) root := by
  have h1 := reach_mutate_fwd id f hkeep hl
  rw [mut_lst] at h1
  simp only [if_true] at h1
  have hr : HReach (st.mutate id f) root (.obj u) := .elem h1 (hput _)
  refine ⟨hr, hfresh, fun hinv => ?_⟩
  obtain ⟨d, hd, _⟩ := hinv u hr
  have : (st.mutate id f).dsl u = none := hfresh
  rw [this] at hd; cases hd

/-- `s.l.append( u )` -/
theorem append_behind_hook_unnamed {st : HSt} {root id : Nat} {xs : List HVal} {u : Nat}
    (hl : HReach st root (.lst id xs)) (hfresh : st.dsl u = none) :
    HReach (st.mutate id (· ++ [.obj u])) root (.obj u) ∧ ¬ HInv (st.mutate id (· ++ [.obj u])) root := by
  have := mutated_behind_hook_unnamed (· ++ [.obj u]) (fun l x hx => List.mem_append_left _ hx)
    (fun l => by simp) hl hfresh
  exact ⟨this.1, this.2.2⟩

/-- `s.l.insert( k, u )` -/
theorem insert_behind_hook_unnamed {st : HSt} {root id : Nat} {xs : List HVal} {u : Nat} (k : Nat)
    (hl : HReach st root (.lst id xs)) (hfresh : st.dsl u = none) :
    HReach (st.mutate id (pyInsert k (.obj u))) root (.obj u) ∧ ¬ HInv (st.mutate id (pyInsert k (.obj u))) root := by
  have := mutated_behind_hook_unnamed (pyInsert k (.obj u))
    (fun l x hx => by
      simp only [pyInsert, List.mem_append, List.mem_cons]
      rcases List.mem_append.1 (by rw [List.take_append_drop k l]; exact hx : x ∈ l.take k ++ l.drop k) with h | h
      · exact Or.inl h
      · exact Or.inr (Or.inr h))
    (fun l => by simp [pyInsert]) hl hfresh
  exact ⟨this.1, this.2.2⟩

/-! ## concrete histories (non-vacuity, and the shapes of the known finding) -/

/-- run a history; `none` if a statement raises -/
def after (ops : List (HSt → Except HErr HSt)) : Option HSt :=
  ops.foldl (fun acc op => acc.bind fun st => match op st with | .ok st' => some st' | .error _ => none)
    (some (HSt.init 0))

def nameOf (r : Option HSt) (o : Nat) : Option Name := r.bind fun st => (st.dsl o).map (·.full)
def evalTo (r : Option HSt) (n : Name) : Option Nat :=
  r.bind fun st => match hresolve st 0 n with | some (.obj o) => some o | _ => none

/-- `s.l = [ o1, o2 ]` -/
def bindL (st : HSt) : Except HErr HSt := assign st 0 "l" (.lst 100 [.obj 1, .obj 2])
/-- `s.k = s.l` -/
def aliasK (st : HSt) : Except HErr HSt :=
  match (st.attrs 0).lookup "l" with | some v => assign st 0 "k" v | none => .error .attributeError

/-- repaired: `s.l = [o1, o2]; s.l += [o3]; s.l += [[o4], o5]` names `s.l[2]`, `s.l[3][0]`, `s.l[4]` -/
example : let r := after [bindL, (iadd · 0 "l" [.obj 3]), (iadd · 0 "l" [.lst 101 [.obj 4], .obj 5])]
    nameOf r 3 = some [.root, .attr "l", .idx 2] ∧ nameOf r 4 = some [.root, .attr "l", .idx 3, .idx 0] ∧
    nameOf r 5 = some [.root, .attr "l", .idx 4] ∧ nameOf r 1 = some [.root, .attr "l", .idx 0] ∧
    evalTo r [.root, .attr "l", .idx 3, .idx 0] = some 4 := by decide

/-- the list bound under a second name, then extended through the first: the old elements are named by
their last binding `s.k[i]`, the new element `s.l[2]`; both names evaluate to their objects (one list) -/
example : let r := after [bindL, aliasK, (iadd · 0 "l" [.obj 3])]
    nameOf r 1 = some [.root, .attr "k", .idx 0] ∧ nameOf r 3 = some [.root, .attr "l", .idx 2] ∧
    evalTo r [.root, .attr "k", .idx 2] = some 3 ∧ evalTo r [.root, .attr "l", .idx 2] = some 3 := by decide

/-- the histories above are `HSteps` histories: the hypotheses of the theorems are satisfiable and the
objects are in the design -/
theorem flat_obj {id : Nat} {us : List Nat} {ix : List Nat} {u : Nat}
    (h : hgetPath (.lst id (us.map .obj)) ix = some (.obj u)) : u ∈ us := by
  cases ix with
  | nil => simp [hgetPath] at h
  | cons i r =>
    simp only [hgetPath, List.getElem?_map] at h
    cases hi : us[i]? with
    | none => simp [hi] at h
    | some w =>
      simp only [hi, Option.map_some] at h
      cases r with
      | nil => simp [hgetPath] at h; exact h ▸ List.mem_of_getElem? hi
      | cons j r' => simp [hgetPath] at h

/-- a statement that changes no record of a named object re-binds nothing -/
theorem rebindLeaf_of_keeps {st st' : HSt} (h : ∀ o d, st.dsl o = some d → st'.dsl o = some d) : RebindLeaf st st' :=
  fun u d hu hne => absurd (h u d hu) hne

/-- the state after `s.l = [o1, o2]` -/
def exSt1 : HSt :=
  setAttr (nameWalk 0 "l" false (addField (HSt.init 0) 0 "l") (visited (.lst 100 ([1, 2].map .obj)))) 0 "l"
    (.lst 100 ([1, 2].map .obj))

theorem exStep1 : HStep 0 (HSt.init 0) exSt1 :=
  .bind (s := 0) (a := "l") (v := .lst 100 ([1, 2].map .obj)) .root (by decide) rfl
    (fun u ix h => by
      have := flat_obj h
      simp only [List.mem_cons, List.not_mem_nil, or_false] at this
      rcases this with rfl | rfl <;> exact ⟨by decide, Or.inr ⟨rfl, rfl⟩⟩) rfl

theorem exReach1 : HReach exSt1 0 (.lst 100 [.obj 1, .obj 2]) := .attr (a := "l") .root (by decide) rfl

/-- `s.l = [o1, o2]; s.l += [o3]` is a history in the sense of the theorems, `o3` is in the design and
is named `s.l[2]`: the hypotheses are satisfiable -/
example : ∃ st, HStepsL 0 (HSt.init 0) st ∧ HReach st 0 (.obj 3) ∧
    (st.dsl 3).map (·.full) = some [.root, .attr "l", .idx 2] ∧
    (st.dsl 1).map (·.full) = some [.root, .attr "l", .idx 0] := by
  have l1 : RebindLeaf (HSt.init 0) exSt1 := by
    apply rebindLeaf_of_keeps
    intro o d ho
    by_cases h0 : o = 0
    · subst h0
      simp [HSt.init] at ho
      subst ho
      rfl
    · simp [HSt.init, h0] at ho
  obtain ⟨st2, h2⟩ : ∃ st2, iadd exSt1 0 "l" [.obj 3] = .ok st2 := ⟨_, rfl⟩
  have s2 : HStep 0 exSt1 st2 :=
    .iadd (s := 0) (a := "l") (extra := [.obj 3]) (.root) (by decide)
      (fun e he u ix h => by
        simp only [List.mem_cons, List.not_mem_nil, or_false] at he
        subst he
        cases ix with
        | nil => simp [hgetPath] at h; subst h; exact ⟨by decide, Or.inr ⟨rfl, rfl⟩⟩
        | cons i r => simp [hgetPath] at h)
      (fun w u ix hw h => by
        have hw' : w = .lst 100 ([1, 2].map .obj) := by
          have : some (HVal.lst 100 ([1, 2].map .obj)) = some w := hw
          cases this; rfl
        subst hw'
        have := flat_obj h
        simp only [List.mem_cons, List.not_mem_nil, or_false] at this
        rcases this with rfl | rfl <;> decide) h2
  have l2 := rebindLeaf_of_keeps
    (iadd_names_unnamed_elements (s := 0) (a := "l") (sd := ⟨[.root], none, 0, "s", []⟩) (by decide) rfl rfl h2).choose_spec.2.1
  cases h2
  refine ⟨_, .tail (.tail (.refl _) exStep1 l1) s2 l2, ?_, by decide, by decide⟩
  exact .elem (id := 100) (xs := [.obj 1, .obj 2, .obj 3]) (.attr (a := "l") .root (by decide) rfl) (by simp)

/-- the hypotheses of the counter-example theorem are satisfiable: after `s.l = [o1, o2]` the list is in
the design, `o3` is new; `s.l.append( o3 )` / `s.l.insert( 0, o3 )` leave it in the design without a name -/
example : HSteps 0 (HSt.init 0) exSt1 ∧
    HReach (exSt1.mutate 100 (· ++ [.obj 3])) 0 (.obj 3) ∧ ¬ HInv (exSt1.mutate 100 (· ++ [.obj 3])) 0 ∧
    HReach (exSt1.mutate 100 (pyInsert 0 (.obj 3))) 0 (.obj 3) :=
  ⟨.tail (.refl _) exStep1, (append_behind_hook_unnamed exReach1 rfl).1, (append_behind_hook_unnamed exReach1 rfl).2,
    (insert_behind_hook_unnamed 0 exReach1 rfl).1⟩

/-- **`s.l = [o1, o2]; s.l.append( o3 )`**: `o3` is in the list the design is collected from and has no
name (`repr` is the default object repr) -/
example : let r := after [bindL, fun st => .ok (st.mutate 100 (· ++ [.obj 3]))]
    nameOf r 3 = none ∧ evalTo r [.root, .attr "l", .idx 2] = some 3 := by decide

/-- **`s.l = [o1, o2]; s.l.insert( 0, o3 )`**: besides `o3` being unnamed, the elements named earlier
have moved: `eval( repr(o1) )` is `o3`, `eval( repr(o2) )` is `o1` -/
example : let r := after [bindL, fun st => .ok (st.mutate 100 (pyInsert 0 (.obj 3)))]
    nameOf r 3 = none ∧ nameOf r 1 = some [.root, .attr "l", .idx 0] ∧
    evalTo r [.root, .attr "l", .idx 0] = some 3 ∧
    nameOf r 2 = some [.root, .attr "l", .idx 1] ∧ evalTo r [.root, .attr "l", .idx 1] = some 1 := by decide

/-- **`s.l = [o1, o2]; s.l.insert( 0, o3 ); s.l += []`**: the repaired `+=` names the unnamed `o3` after
its position, `s.l[0]` — the name `o1` still carries: two objects of the design with one name -/
example : let r := after [bindL, fun st => .ok (st.mutate 100 (pyInsert 0 (.obj 3))), (iadd · 0 "l" [])]
    nameOf r 3 = some [.root, .attr "l", .idx 0] ∧ nameOf r 1 = some [.root, .attr "l", .idx 0] := by decide

/-- **`s.l = [o1, o2]; s.l.pop( 0 ); s.l += [o3]`**: `o3` is named `s.l[1]`, the name `o2` (now at index
0) carries -/
example : let r := after [bindL, fun st => .ok (st.mutate 100 (·.eraseIdx 0)), (iadd · 0 "l" [.obj 3])]
    nameOf r 3 = some [.root, .attr "l", .idx 1] ∧ nameOf r 2 = some [.root, .attr "l", .idx 1] ∧
    evalTo r [.root, .attr "l", .idx 1] = some 3 := by decide

/-- **`s.l = [o1, o2]; s.l[1] = o3`**: slot assignment; `o3` unnamed, `repr(o2)` evaluates to `o3` -/
example : let r := after [bindL, fun st => .ok (st.mutate 100 (·.set 1 (.obj 3)))]
    nameOf r 3 = none ∧ evalTo r [.root, .attr "l", .idx 1] = some 3 := by decide

end PV.C14h
