/-! # C10 — property theorems (stub: not built yet) -/
namespace PV.C10
end PV.C10
