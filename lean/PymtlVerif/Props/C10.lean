import PymtlVerif.Proofs.TCTree
import PymtlVerif.Proofs.TCWT
/-!
# C10 — type-checker widths are the real widths; accepted code has no width errors

Model: `Model/TC.lean` (the RTLIR behavioural type checker: visitor + enforcer), `Model/PyEval.lean`
(what the simulator computes: Python evaluation with `PythonBits` semantics), `Model/TCSpec.lean`
(which blocks are *clean*).  `checkE/checkS/checkBlock` return the annotated tree the real checker
leaves in `node.Type` / `node._is_explicit`; `evalPy/execS` return the Python value or the exception.

The real checker is unsound on three shapes: F12 of DESIGN.md §6 (arithmetic between int-valued terms)
and N1, N4 found while building this check (F4, N2, N3, N5 were repaired in /repo and the model follows
the repaired rules: `F4_rejected`, `N2_rejected`, `N3_repaired`, `N5_rejected`).  The three are excluded
by the hypothesis `issuesE Γ e = []` / `issuesS Γ s = []`, and for each of them a counter-example to the
unrestricted statement is proved below (`*_counterexample`).  The unrestricted statement would be

    theorem no_width_error_FULL : checkBlock s = .ok r → NoCast s → ShiftsAligned s →
        ∀ ρ er, execS s ρ = .error er → er ≠ .width ∧ er ≠ .range

and is false (see `F12_counterexample`, `F12_negative_counterexample`, `N1_counterexample`, `N4_counterexample`).
-/
namespace PV.C10
open PV.TC PV.Bits

/-! ## literal widths -/

/-- an integer literal's inferred width is the least number of bits (at least one) that holds it -/
theorem literal_min_width (v : Nat) :
    1 ≤ nbitsOf v ∧ v < 2 ^ nbitsOf v ∧ ∀ w, 1 ≤ w → v < 2 ^ w → nbitsOf v ≤ w :=
  ⟨nbitsOf_pos v, nbitsOf_fits v, fun w hw h => nbitsOf_least v w hw h⟩

/-- the same function on a non-negative Python int (`nbitsInt` is what both copies of
    `_get_nbits_from_value` compute on any int) -/
theorem literal_min_width_int (v : Nat) : nbitsInt (v : Int) = nbitsOf v := nbitsInt_natCast v

/-- on a negative constant `v < -1` the inferred width is the least `w` with `-2^w ≤ v` — one bit
    short of a two's-complement representation, and `Bits` operators reject negative ints anyway
    (part of finding F12) -/
theorem literal_min_width_neg (v : Int) (h : v < -1) :
    -(2 : Int) ^ nbitsInt v ≤ v ∧ ∀ w : Nat, -(2 : Int) ^ w ≤ v → nbitsInt v ≤ w := by
  have h1 : ¬ (-1 ≤ v ∧ v ≤ 1) := by omega
  have h2 : v < 0 := by omega
  have hv : v = -(v.natAbs : Int) := by omega
  have hn : 2 ≤ v.natAbs := by omega
  simp only [nbitsInt, h1, h2, ↓reduceIte]
  constructor
  · have := bitLen_fits (v.natAbs - 1)
    have h3 : v.natAbs ≤ 2 ^ bitLen (v.natAbs - 1) := by omega
    have h4 : ((v.natAbs : Nat) : Int) ≤ (2 : Int) ^ bitLen (v.natAbs - 1) := by exact_mod_cast h3
    omega
  · intro w hw
    apply bitLen_least
    have h4 : ((v.natAbs : Nat) : Int) ≤ (2 : Int) ^ w := by omega
    have h5 : v.natAbs ≤ 2 ^ w := by exact_mod_cast h4
    omega

/-! ## static width = run-time width -/

/-- **width soundness.**  For an accepted, clean expression, in any simulator state that agrees with the
    checker's environment: if evaluation yields a `Bits`, its `nbits` is the static width (and the node is
    explicitly sized); if it yields a Python int, the int fits the static width and the term is not one
    the analysis calls hard. -/
theorem width_sound (Γ : Env) (ρ : Rho) (henv : EnvOK Γ ρ) (e : Expr) (t : AT)
    (h : checkE Γ e = .ok t) (hc : issuesE Γ e = []) :
    (∀ b, evalPy ρ e = .ok (.bits b) → b.n = t.ann.w ∧ t.ann.ex = true ∧ b.Wf) ∧
    (∀ k, evalPy ρ e = .ok (.int k) → 0 ≤ k ∧ k < 2 ^ t.ann.w ∧ hardE Γ e = false) := by
  have hs := expr_safe Γ ρ henv e t h hc
  constructor
  · intro b hb; rw [hb] at hs; exact ⟨hs.2.1, hs.1, hs.2.2⟩
  · intro k hk; rw [hk] at hs; exact ⟨hs.2.1.1, hs.2.1.2, hs.1⟩

/-- every sub-expression of an accepted expression is accepted on its own, in the same environment -/
theorem subexpr_accepted (Γ : Env) (e : Expr) (t : AT) (h : checkE Γ e = .ok t) :
    ∀ e' ∈ subs e, ∃ t', checkE Γ e' = .ok t' :=
  subs_accepted Γ e t h

/-- … and width soundness holds for every sub-expression in a value position (conditions, indices and
    slice bounds that are plain integer expressions have no width) -/
theorem width_sound_subexpr (Γ : Env) (ρ : Rho) (henv : EnvOK Γ ρ) (e : Expr) (t : AT)
    (h : checkE Γ e = .ok t) (hc : issuesE Γ e = []) :
    ∀ e' ∈ vsubs e, ∃ t', checkE Γ e' = .ok t' ∧
      ∀ b, evalPy ρ e' = .ok (.bits b) → b.n = t'.ann.w := by
  intro e' he'
  obtain ⟨t', ht'⟩ := subs_accepted Γ e t h e' (vsubs_sub_subs e e' he')
  exact ⟨t', ht', fun b hb => ((width_sound Γ ρ henv e' t' ht' (vsubs_clean Γ e hc e' he')).1 b hb).1⟩

/-- **the annotations the checker leaves behind.**  `nodes e t` pairs every sub-expression with the
    annotation it carries in the final tree `t` (after all enforcements).  For an explicitly sized node that
    annotation is exactly the one the sub-expression gets when checked on its own — so by `width_sound`
    the width shown in `node.Type` of every explicit node is the run-time `nbits`. -/
theorem explicit_final_width (Γ : Env) (e : Expr) (t : AT) (h : checkE Γ e = .ok t) :
    ∀ p ∈ nodes e t, ∃ t', checkE Γ p.1 = .ok t' ∧ t'.ann.ex = p.2.ex ∧ t'.ann.val = p.2.val ∧
      (p.2.ex = true → t'.ann.w = p.2.w) := by
  intro p hp
  obtain ⟨t', h1, h2, h3, h4⟩ := nodes_sim Γ e t t h (Sim.refl t) p hp
  exact ⟨t', h1, h2.symm, h3.symm, fun hex => (h4 (h2 ▸ hex)).symm⟩

/-! ## accepted + clean ⇒ no width error -/

/-- **no width error (expressions).**  `issuesE Γ e = []` bundles the property's own exclusions (no
    explicit width-changing cast, shift amounts of the shifted value's width) with `ImplicitArithFree`
    and the other shapes on which the real checker is unsound (see `Model/TCSpec.lean`). -/
theorem no_width_error (Γ : Env) (ρ : Rho) (henv : EnvOK Γ ρ) (e : Expr) (t : AT)
    (h : checkE Γ e = .ok t) (hc : issuesE Γ e = []) (er : PyErr) (he : evalPy ρ e = .error er) :
    er ≠ .width ∧ er ≠ .range := by
  have hs := expr_safe Γ ρ henv e t h hc
  rw [he] at hs
  cases er <;> simp_all [Safe, PyErr.isWidth]

/-- **no width error (statements)**: assignments (`@=` to a signal, a bit, a constant slice or a
    `lo : lo + N` part selection with plain integer bounds), temporaries, `if`, `for` over constant ranges.  The temporaries and loop variables of the state agree with the
    checker's environment before, and the temporaries agree with the final environment afterwards. -/
theorem stmt_no_width_error (Γ Γ' : Env) (s : Stmt) (a : AS) (ρ : Rho)
    (h : checkS Γ s = .ok (Γ', a)) (hc : issuesS Γ s = []) (ht : TmpOK Γ' ρ) (hl : LvOK Γ ρ) :
    (∀ er, execS s ρ = .error er → er ≠ .width ∧ er ≠ .range) ∧
    (∀ ρ', execS s ρ = .ok ρ' → TmpOK Γ' ρ' ∧ ρ'.lvs = ρ.lvs) := by
  have hs := stmt_safe Γ' s Γ Γ' a ρ h hc (ExtT.refl _) ht hl
  constructor
  · intro er he; rw [he] at hs
    cases er <;> simp_all [StmtSafe, PyErr.isWidth]
  · intro ρ' he; rw [he] at hs; exact hs

/-- **no width error (whole update block)**: a block that passes generation + type check and is clean
    never raises a bitwidth / truncation error, whatever the signal values are. -/
theorem block_no_width_error (s : Stmt) (r : Env × AS) (h : checkBlock s = .ok r)
    (hc : issuesS Env.empty s = []) (sigs : List (Nat × Nat)) (er : PyErr)
    (he : execS s ⟨sigs, [], []⟩ = .error er) : er ≠ .width ∧ er ≠ .range := by
  obtain ⟨Γ', a⟩ := r
  unfold checkBlock at h
  split at h
  · cases h
  · exact (stmt_no_width_error Env.empty Γ' s a ⟨sigs, [], []⟩ h hc
      (fun t w ex v _ hv => by simp at hv) (fun i w hi => by simp [Env.empty] at hi)).1 er he

/-! ## explicit width mismatches are rejected -/

/-- two explicitly sized operands of different widths: every max-width operator (`+ - * & | ^ %`), every
    comparison and the if-expression are rejected -/
theorem explicit_mismatch_rejected (Γ : Env) (l r : Expr) (tl tr : AT)
    (hl : checkE Γ l = .ok tl) (hr : checkE Γ r = .ok tr)
    (hle : tl.ann.ex = true) (hre : tr.ann.ex = true) (hw : tl.ann.w ≠ tr.ann.w) :
    (∀ op : Op, op.isShift = false → checkE Γ (.bin op l r) = .error .type) ∧
    (∀ op : CmpOp, checkE Γ (.cmp op l r) = .error .type) ∧
    (∀ (c : Expr) (tc : AT), checkE Γ c = .ok tc → checkE Γ (.ite c l r) = .error .type) := by
  have hu : unify tl tr = .error .type := by simp [unify, hle, hre, hw]
  refine ⟨?_, ?_, ?_⟩
  · intro op hs; simp [checkE, hl, hr, binRule, hs, hu]
  · intro op; simp [checkE, hl, hr, cmpRule, hu]
  · intro c tc hc; simp [checkE, hl, hr, hc, iteRule, hle, hre, hw]

/-- an explicitly sized right-hand side whose width differs from the target's is rejected -/
theorem assign_mismatch_rejected (Γ : Env) (tgt e : Expr) (tt te : AT)
    (ht : checkE Γ tgt = .ok tt) (he : checkE Γ e = .ok te)
    (hex : te.ann.ex = true) (hw : te.ann.w ≠ tt.ann.w) :
    ∃ er, checkS Γ (.asg tgt e) = .error er := by
  cases hT : isTarget tgt with
  | false => exact ⟨.type, by simp [checkS, hT]⟩
  | true => exact ⟨.type, by simp [checkS, hT, ht, he, asgRule, hex, hw]⟩

/-- an implicitly sized right-hand side (a literal / constant) of an accepted assignment fits the target
    (F4, as repaired) -/
theorem implicit_rhs_fits (Γ Γ' : Env) (tgt e : Expr) (a : AS) (tt te : AT)
    (h : checkS Γ (.asg tgt e) = .ok (Γ', a)) (ht : checkE Γ tgt = .ok tt) (he : checkE Γ e = .ok te)
    (hex : te.ann.ex = false) : te.ann.w ≤ tt.ann.w := by
  obtain ⟨_, _, tt', te', h1, h2, hr⟩ := checkS_asg_inv h
  rw [ht] at h1; rw [he] at h2; cases h1; cases h2
  exact (asgRule_ok hr).2 hex

/-- … and these are exactly the operations that raise the width-mismatch `ValueError` at run time -/
theorem mismatch_raises (a b : B) (hn : b.n ≠ a.n) :
    (∀ op : Op, pyBin op (.bits a) (.bits b) = .error .width) ∧
    (∀ op : CmpOp, pyCmp op (.bits a) (.bits b) = .error .width) ∧
    liftB (imatmul a (Val.bits b).opnd) = .error .width := by
  refine ⟨?_, ?_, ?_⟩
  · intro op; simp [pyBin, Val.opnd, binop, hn, liftR, PyErr.ofBits]
  · intro op; simp [pyCmp, Val.opnd, cmpop, hn, liftR, PyErr.ofBits]
  · simp [Val.opnd, imatmul, hn, liftB, PyErr.ofBits]

/-! ## acceptance implies the typing invariant (for C03) -/

/-- `WT Γ e w k` (`Proofs/TCWT.lean`) is the declarative typing judgement "operand widths equal for
    max-width operators, literals re-sized to the context": an accepted, clean expression is well typed
    at its static width. -/
theorem check_implies_WT (Γ : Env) (e : Expr) (t : AT) (h : checkE Γ e = .ok t) (hc : issuesE Γ e = []) :
    WT Γ e t.ann.w (kindOf t.ann (hardE Γ e)) :=
  checkE_WT Γ e t h hc

/-- … and for statements: in particular the right-hand side of every assignment is well typed at the
    width of its target (`WTS`) -/
theorem check_implies_WT_stmt (Γ Γ' : Env) (s : Stmt) (a : AS) (h : checkS Γ s = .ok (Γ', a))
    (hc : issuesS Γ s = []) : WTS Γ s :=
  checkS_WTS s Γ Γ' a h hc

/-! ## the unrestricted statement is false: counter-examples (each replayed on the real code by the check) -/

def raised (r : Except PyErr Rho) : Option PyErr :=
  match r with
  | .error e => some e
  | .ok _ => none

def accepted (s : Stmt) : Bool :=
  match checkBlock s with
  | .ok _ => true
  | .error _ => false

/-- F12: `for i in range(4): s.out @= s.a + (i + 1)` with 2-bit `a`, `out` -/
theorem F12_counterexample :
    accepted (.for_ 0 0 4 1 (.asg (.sig 0 2) (.bin .add (.sig 1 2) (.bin .add (.lv 0) (.num 1))))) = true ∧
    raised (execS (.for_ 0 0 4 1 (.asg (.sig 0 2) (.bin .add (.sig 1 2) (.bin .add (.lv 0) (.num 1)))))
      ⟨[], [], []⟩) = some .range := by decide +kernel

/-- F12, negative folded constant: `s.out @= s.a + (1 - 2)` (8 bits) -/
theorem F12_negative_counterexample :
    accepted (.asg (.sig 0 8) (.bin .add (.sig 1 8) (.bin .sub (.num 1) (.num 2)))) = true ∧
    raised (execS (.asg (.sig 0 8) (.bin .add (.sig 1 8) (.bin .sub (.num 1) (.num 2)))) ⟨[], [], []⟩)
      = some .range := by decide +kernel

def n1Block : Stmt :=
  .seq (.ifs (.sig 1 1) (.tasg 0 (.num 5)) (.tasg 0 (.sig 0 3)))
       (.asg (.sig 2 3) (.bin .add (.tmp 0) (.tmp 0)))

/-- N1: a temporary assigned a literal in one branch and a signal in the other is recorded as explicit;
    `t + t` is then typed 3 bits explicit while it is `5 + 5` at run time -/
theorem N1_counterexample :
    accepted n1Block = true ∧ raised (execS n1Block ⟨[(1, 1)], [], []⟩) = some .range := by decide +kernel

/-- N4: `s.out @= (s.a if s.c else 200) + (s.b if s.c else 100)` (8 bits): both operands are typed
    explicit, both are Python ints when `c` is 0 -/
theorem N4_counterexample :
    accepted (.asg (.sig 0 8) (.bin .add (.ite (.sig 3 1) (.sig 1 8) (.num 200)) (.ite (.sig 3 1) (.sig 2 8) (.num 100)))) = true ∧
    raised (execS (.asg (.sig 0 8) (.bin .add (.ite (.sig 3 1) (.sig 1 8) (.num 200)) (.ite (.sig 3 1) (.sig 2 8) (.num 100))))
      ⟨[], [], []⟩) = some .range := by decide +kernel

/-! ## repaired shapes (regression): the former witnesses -/

/-- F4 (fix: 4d9c041): `s.out @= 300` with a 4-bit `out` is rejected -/
theorem F4_rejected : accepted (.asg (.sig 0 4) (.num 300)) = false := by decide +kernel

/-- N2 (fix: c1db525): `s.out @= s.a + (1 if s.c else 200)` (4 bits) is rejected: the if-expression is as wide
    as its wider branch -/
theorem N2_rejected :
    accepted (.asg (.sig 0 4) (.bin .add (.sig 1 4) (.ite (.sig 2 1) (.num 1) (.num 200)))) = false := by
  decide +kernel

/-- N3 (fix: 075f6b8): `s.out3 @= Bits8( 3 ) + 1` is rejected (the sum is an 8-bit term) and
    `s.out8 @= s.a8 + (Bits8( 3 ) + 1)` is accepted and clean -/
theorem N3_repaired :
    accepted (.asg (.sig 0 3) (.bin .add (.cast 8 (.num 3)) (.num 1))) = false ∧
    accepted (.asg (.sig 0 8) (.bin .add (.sig 1 8) (.bin .add (.cast 8 (.num 3)) (.num 1)))) = true ∧
    issuesS Env.empty (.asg (.sig 0 8) (.bin .add (.sig 1 8) (.bin .add (.cast 8 (.num 3)) (.num 1)))) = [] := by
  decide +kernel

/-- N5: `s.out @= (s.a < s.b) if s.c else s.d` with 1-bit `out` and 8-bit `d` is rejected: a comparison
    (`rdt.Bool`) counts as a 1-bit vector in `visit_IfExp` -/
theorem N5_rejected :
    accepted (.asg (.sig 0 1) (.ite (.sig 3 1) (.cmp .lt (.sig 1 8) (.sig 2 8)) (.sig 4 8))) = false := by
  decide +kernel

/-! ## non-vacuity -/

example : accepted (.asg (.sig 0 8) (.bin .add (.sig 1 8) (.num 255))) = true ∧
    issuesS Env.empty (.asg (.sig 0 8) (.bin .add (.sig 1 8) (.num 255))) = [] := by decide +kernel
example : accepted (.for_ 0 0 8 1 (.asg (.idx 2 8 (.lv 0)) (.bin .band (.idx 0 8 (.lv 0)) (.idx 1 8 (.lv 0))))) = true ∧
    issuesS Env.empty (.for_ 0 0 8 1 (.asg (.idx 2 8 (.lv 0)) (.bin .band (.idx 0 8 (.lv 0)) (.idx 1 8 (.lv 0))))) = [] := by
  decide +kernel
/-- `for i in range(2): s.out[i*4 : i*4+4] @= s.a[i*4 : i*4+4]` is accepted and clean -/
example :
    accepted (.for_ 0 0 2 1 (.asg (.slc 1 8 (.bin .mul (.lv 0) (.num 4)) (.bin .add (.bin .mul (.lv 0) (.num 4)) (.num 4)))
      (.slc 0 8 (.bin .mul (.lv 0) (.num 4)) (.bin .add (.bin .mul (.lv 0) (.num 4)) (.num 4))))) = true ∧
    issuesS Env.empty (.for_ 0 0 2 1 (.asg (.slc 1 8 (.bin .mul (.lv 0) (.num 4)) (.bin .add (.bin .mul (.lv 0) (.num 4)) (.num 4)))
      (.slc 0 8 (.bin .mul (.lv 0) (.num 4)) (.bin .add (.bin .mul (.lv 0) (.num 4)) (.num 4))))) = [] := by
  decide +kernel
example : accepted (.asg (.sig 0 8) (.bin .add (.sig 1 8) (.sig 2 1))) = false := by decide +kernel
example : issuesS Env.empty (.asg (.sig 0 8) (.bin .add (.sig 1 8) (.bin .sub (.num 1) (.num 2)))) = [.implArith] := by
  decide +kernel
example : nbitsOf 255 = 8 ∧ nbitsOf 256 = 9 ∧ nbitsOf 0 = 1 ∧ nbitsOf (2 ^ 64) = 65 := by decide +kernel

end PV.C10
