import PymtlVerif.Model.ProcCLSys
import PymtlVerif.Props.C20cGen
/-!
# C20cRef — NOT FINISHED, NOT REGISTERED: statement side of a timing-independent refinement of ProcCL

Scaffolding for a follow-up round (nothing in this file is an obligation of any check; it is not imported by `PymtlVerif.lean`).
`Model/ProcCLSys.lean` runs the three generated blocks of ProcCL (`Gen/ProcCLGen.lean`) and the environment's moves as atomic
actions in ANY order (`runActs`); the real simulator's cycle — the static schedule, the memory's and adapters' blocks, every
latency / stall / delay setting — is one such order.  The intended theorem: for every program, every action sequence and every
answer of the environment, as long as DXM has executed no more instructions than the ISA interpreter executes (`RunsX`), the
system state is related by `Inv` to the ISA state after exactly `disp` instructions — registers, data memory, accelerator
register and both manager streams are the ISA's up to the ONE instruction that may sit between DXM and W, whose outstanding
effect (`ExecOK`) is spelled out; the fetch side (`FetchOK`) holds at most one fetch, of the ISA's next PC.
DONE here: the definitions (`RunsX`, `FetchOK`, `ExecOK`, `Inv`), `inv_init` (the invariant holds at power-on), `stepsX_succ`.
MISSING: preservation of `Inv` by each action (W: 8 cases from the `w_*` lemmas of `Props/C20cGen.lean`; F: `f_fetch` / `f_stall`;
the environment's four moves; DXM: the ten instructions from the `dxm_*` lemmas, as in `C20cGen.gen_proccl_exec_eq`), and the
induction over `runActs`.  All `dxm_*` / `w_*` / `f_*` lemmas it needs are already proved for ANY environment.

Environment assumptions the finished theorem would carry: the queue classes as in `ProcCLSys.asyncEnv` (`PipeQueueCL(1)` a
one-place FIFO, a `DelayPipeDeqCL` a FIFO whose head may be invisible for any time); each port serves its requests in order,
the data port on ONE little-endian byte memory, the instruction port from the program image (no self-modifying code, `RunsX`),
NullXcel, the source in order; `rdy` answers and delays arbitrary; safety only; `reset` low after power-on.
-/
namespace PV.C20cRef
open PV.TinyRV0 PV.ProcFLGen PV.ProcCLGen PV.ProcEnv PV.ProcCLSys PV.C20fGen PV.C20cGen

/-! ## the program hypothesis -/

/-- the ISA interpreter executes `N` instructions from reset, each still the word of the image at its PC -/
def RunsX (m0 : Mem) (inp : List Nat) (N : Nat) : Prop :=
  ∀ k, k < N → ∃ σ σ', stepsX k (StateX.init m0 inp) = some σ ∧ stepX σ = .ok σ' ∧
    loadWord σ.core.mem σ.core.pc = loadWord m0 σ.core.pc

theorem stepsX_succ (k : Nat) (σ0 σ σ' : StateX) (h : stepsX k σ0 = some σ) (hs : stepX σ = .ok σ') :
    stepsX (k + 1) σ0 = some σ' := by
  induction k generalizing σ0 with
  | zero => simp only [stepsX] at h; cases h; simp [stepsX, hs]
  | succ n ih =>
    unfold stepsX at h ⊢
    cases h1 : stepX σ0 with
    | error e => rw [h1] at h; cases h
    | ok σ1 => rw [h1] at h; simp only; exact ih σ1 h

/-! ## the invariant -/

def fetchReq (pc : Nat) : MemReqMsg := { type_ := 0, opaque_ := 0, addr := pc, len := 0, data := 0 }

/-- the fetch side: nothing fetched (the next fetch goes to the ISA's PC), or the ISA's PC waits in the PC queue with its fetch
sent / served -/
inductive FetchOK (σ : StateX) (s : St) (w : AW) : Prop
  | none (h1 : w.fdq = []) (h2 : w.ireq = []) (h3 : w.iresp = []) (h4 : fetchAddr s = σ.core.pc)
  | sent (h1 : w.fdq = [σ.core.pc]) (h2 : w.ireq = [fetchReq σ.core.pc]) (h3 : w.iresp = [])
      (hr : s.redirected_pc_DXM = none) (hp : s.pc = (σ.core.pc + 4) % W32)
  | served (h1 : w.fdq = [σ.core.pc]) (h2 : w.ireq = []) (h3 : w.iresp = [memResp 0 (loadWord w.image σ.core.pc)])
      (hr : s.redirected_pc_DXM = none) (hp : s.pc = (σ.core.pc + 4) % W32)

/-- what the data port will answer to request `m` / what the memory is afterwards -/
def dResp (mem : Mem) (m : MemReqMsg) : MemRespMsg :=
  if m.type_ = 0 then memResp 0 (loadWord mem m.addr) else memResp 1 0
def dMem (mem : Mem) (m : MemReqMsg) : Mem := if m.type_ = 0 then mem else storeWord mem m.addr m.data
def xResp (xr0 : Nat) (m : XcelReqMsg) : XcelRespMsg := if m.type_ = 0 then { type_ := 0, data := xr0 } else { type_ := 1, data := 0 }
def xReg (xr0 : Nat) (m : XcelReqMsg) : Nat := if m.type_ = 0 then xr0 else m.data

/-- the execute side: `σ` is the ISA state after every instruction DXM has executed; at most one of them has not passed W, and
what it still has to do is listed -/
inductive ExecOK (σ : StateX) (s : St) (w : AW) : Prop
  | idle (hq : w.dwq = []) (d1 : w.dreq = []) (d2 : w.dresp = []) (x1 : w.xreq = []) (x2 : w.xresp = [])
      (hR : s.R = σ.core.regs) (hm : w.mem = σ.core.mem) (hx : w.xr0 = σ.xr0) (ho : w.out = σ.core.out)
  | branch (hq : w.dwq = [none]) (d1 : w.dreq = []) (d2 : w.dresp = []) (x1 : w.xreq = []) (x2 : w.xresp = [])
      (hR : s.R = σ.core.regs) (hm : w.mem = σ.core.mem) (hx : w.xr0 = σ.xr0) (ho : w.out = σ.core.out)
  | arith (rd val : Nat) (hq : w.dwq = [some (rd, val, DXM_W_arith)]) (hrd : rd < 32) (hv : val < W32)
      (d1 : w.dreq = []) (d2 : w.dresp = []) (x1 : w.xreq = []) (x2 : w.xresp = [])
      (hR : rset s.R rd val = σ.core.regs) (hm : w.mem = σ.core.mem) (hx : w.xr0 = σ.xr0) (ho : w.out = σ.core.out)
  | memSent (rd x : Nat) (m : MemReqMsg) (hq : w.dwq = [some (rd, x, DXM_W_mem)]) (hrd : rd < 32)
      (d1 : w.dreq = [m]) (d2 : w.dresp = []) (x1 : w.xreq = []) (x2 : w.xresp = [])
      (hR : rset s.R rd (dResp w.mem m).data = σ.core.regs) (hm : dMem w.mem m = σ.core.mem) (hx : w.xr0 = σ.xr0)
      (ho : w.out = σ.core.out)
  | memServed (rd x : Nat) (r : MemRespMsg) (hq : w.dwq = [some (rd, x, DXM_W_mem)]) (hrd : rd < 32)
      (d1 : w.dreq = []) (d2 : w.dresp = [r]) (x1 : w.xreq = []) (x2 : w.xresp = [])
      (hR : rset s.R rd r.data = σ.core.regs) (hm : w.mem = σ.core.mem) (hx : w.xr0 = σ.xr0) (ho : w.out = σ.core.out)
  | xcelSent (rd x : Nat) (m : XcelReqMsg) (hq : w.dwq = [some (rd, x, DXM_W_xcel)]) (hrd : rd < 32)
      (d1 : w.dreq = []) (d2 : w.dresp = []) (x1 : w.xreq = [m]) (x2 : w.xresp = [])
      (hR : rset s.R rd (xResp w.xr0 m).data = σ.core.regs) (hm : w.mem = σ.core.mem) (hx : xReg w.xr0 m = σ.xr0)
      (ho : w.out = σ.core.out)
  | xcelServed (rd x : Nat) (r : XcelRespMsg) (hq : w.dwq = [some (rd, x, DXM_W_xcel)]) (hrd : rd < 32)
      (d1 : w.dreq = []) (d2 : w.dresp = []) (x1 : w.xreq = []) (x2 : w.xresp = [r])
      (hR : rset s.R rd r.data = σ.core.regs) (hm : w.mem = σ.core.mem) (hx : w.xr0 = σ.xr0) (ho : w.out = σ.core.out)
  | mngr (rd val : Nat) (hq : w.dwq = [some (rd, val, DXM_W_mngr)])
      (d1 : w.dreq = []) (d2 : w.dresp = []) (x1 : w.xreq = []) (x2 : w.xresp = [])
      (hR : s.R = σ.core.regs) (hm : w.mem = σ.core.mem) (hx : w.xr0 = σ.xr0) (ho : w.out ++ [val] = σ.core.out)

structure Inv (m0 : Mem) (σ : StateX) (s : St) (w : AW) : Prop where
  fetch : FetchOK σ s w
  exec : ExecOK σ s w
  inp : w.mq ++ w.src = σ.core.inp
  img : w.image = m0
  ok : PV.C20.OkX σ

theorem inv_init (m0 : Mem) (inp : List Nat) (hm : ∀ a, m0.get a < 256) (hi : ∀ x ∈ inp, x < W32) :
    Inv m0 (StateX.init m0 inp) (Sys.init m0 inp).s (Sys.init m0 inp).w :=
  ⟨.none rfl rfl rfl rfl, .idle rfl rfl rfl rfl rfl rfl rfl rfl rfl, rfl, rfl, PV.C20.initX_ok m0 inp hm hi⟩

end PV.C20cRef
