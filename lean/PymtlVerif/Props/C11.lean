import PymtlVerif.Proofs.Rtl
import PymtlVerif.Props.C01
/-!
# C11 — combinational cycles settle on a fixed point or are reported

Model: `iterate` / `runEntries` / `watchOKB` in `Model/Rtl.lean` (the SCC super-block template of
`DynamicSchedulePass` and `Mamba2020Pass.compile_scc`: clone the watched variables, run the group, compare,
repeat, give up after 100 sweeps). The theorems hold for every group, every watch list satisfying the
checked condition `watchOKB`, every fuel and every start state.
-/
namespace PV.C11
open PV.Rtl PV.Sched

/-- the Boolean stability test of the template, as a predicate on bits -/
theorem stable_sound (watch : List Rng) (s s' : St)
    (h : watch.all (fun r => (List.range r.w).all (fun i => s (r.sig, r.lo + i) == s' (r.sig, r.lo + i))) = true) :
    ∀ v, inRngs watch v → s' v = s v := by
  intro v ⟨r, hr, hv⟩
  have h1 := List.all_eq_true.mp h r hr
  obtain ⟨hs, hlo, hhi⟩ := hv
  have h2 := List.all_eq_true.mp h1 (v.2 - r.lo) (List.mem_range.mpr (by omega))
  have e : (r.sig, r.lo + (v.2 - r.lo)) = v := by
    cases v; simp only [Prod.mk.injEq] at *; constructor <;> omega
  rw [e] at h2
  exact (beq_iff_eq.mp h2).symm

/-- what the watch list must cover: every bit written in the group and read in the group -/
theorem watchOKB_sound (scc : List Blk) (watch : List Rng) (h : watchOKB scc watch = true) :
    ∀ v, (∃ a ∈ scc, inRngs a.writes v) → (∃ b ∈ scc, inRngs b.reads v) → inRngs watch v := by
  intro v ⟨a, ha, wr, hwr, hwv⟩ ⟨b, hb, rd, hrd, hrv⟩
  unfold watchOKB at h
  have h1 := List.all_eq_true.mp (List.all_eq_true.mp (List.all_eq_true.mp (List.all_eq_true.mp h a ha) wr hwr) b hb) rd hrd
  have hov := overlap_of_common wr rd v hwv hrv
  simp only [hov, Bool.not_true, Bool.false_or] at h1
  obtain ⟨hs1, hlo1, hhi1⟩ := hwv
  obtain ⟨hs2, hlo2, hhi2⟩ := hrv
  have h2 := List.all_eq_true.mp h1 (v.2 - max wr.lo rd.lo) (List.mem_range.mpr (by omega))
  obtain ⟨r, hr, hrr⟩ := List.any_eq_true.mp h2
  simp only [Bool.and_eq_true, beq_iff_eq, decide_eq_true_eq] at hrr
  exact ⟨r, hr, by unfold Rng.has; omega⟩

/-- `iterate` returns only the result of a sweep over which the watched bits did not change -/
theorem iterate_some (fuel : Nat) (watch : List Rng) (scc : List Blk) (s s' : St)
    (h : iterate fuel watch scc s = some s') :
    ∃ s0, s' = runBlocks scc s0 ∧ ∀ v, inRngs watch v → s' v = s0 v := by
  induction fuel generalizing s with
  | zero => simp [iterate] at h
  | succ f ih =>
    simp only [iterate] at h
    split at h
    · next hst =>
      cases h
      exact ⟨s, rfl, stable_sound watch s _ hst⟩
    · exact ih _ h

/-- **returns ⇒ fixed point**: when the super-block returns, no block of the group, run again, changes
any signal bit -/
theorem stable_is_fixed_point (fuel : Nat) (watch : List Rng) (scc : List Blk) (s s' : St)
    (hwf : PV.C01.wfBlocks scc = true) (hok : watchOKB scc watch = true)
    (h : iterate fuel watch scc s = some s') : ∀ b ∈ scc, b.run s' = s' := by
  obtain ⟨s0, rfl, hst⟩ := iterate_some fuel watch scc s s' h
  obtain ⟨hw, hsw⟩ := PV.C01.wf_denote scc hwf
  intro b hb
  rw [runBlocks_eq] at hst ⊢
  apply Sched.stable_is_fixed_point (scc.map denote) hw hsw (inRngs watch) _ s0 hst (denote b)
    (List.mem_map_of_mem hb)
  intro v ⟨a, ha, hav⟩ ⟨c, hc, hcv⟩
  obtain ⟨a', ha', rfl⟩ := List.mem_map.mp ha
  obtain ⟨c', hc', rfl⟩ := List.mem_map.mp hc
  exact watchOKB_sound scc watch hok v ⟨a', ha', hav⟩ ⟨c', hc', hcv⟩

/-- the state after `k` sweeps of the group -/
def sweeps (scc : List Blk) : Nat → St → St
  | 0, s => s
  | k+1, s => sweeps scc k (runBlocks scc s)

/-- the stability test of the template between two states -/
def stableB (watch : List Rng) (s s' : St) : Bool :=
  watch.all (fun r => (List.range r.w).all (fun i => s (r.sig, r.lo + i) == s' (r.sig, r.lo + i)))

/-- **never hangs**: `iterate` is a total function bounded by its fuel (100 in the code); `none` (the
UpblkCyclicError case) means that none of the `fuel` sweeps was stable -/
theorem none_means_unstable (fuel : Nat) (watch : List Rng) (scc : List Blk) (s : St)
    (h : iterate fuel watch scc s = none) :
    ∀ k, k < fuel → stableB watch (sweeps scc k s) (runBlocks scc (sweeps scc k s)) = false := by
  induction fuel generalizing s with
  | zero => intro k hk; omega
  | succ f ih =>
    intro k hk
    simp only [iterate] at h
    split at h
    · cases h
    · next hst =>
      cases k with
      | zero => simpa [stableB, sweeps] using hst
      | succ k => exact ih (runBlocks scc s) h k (by omega)

/-- a stable start state is accepted after one sweep (a convergent design costs one extra sweep) -/
theorem fixed_point_accepted (fuel : Nat) (watch : List Rng) (scc : List Blk) (s : St)
    (hfix : runBlocks scc s = s) : iterate (fuel + 1) watch scc s = some s := by
  simp only [iterate, hfix]
  have : (watch.all (fun r => (List.range r.w).all (fun i => s (r.sig, r.lo + i) == s (r.sig, r.lo + i)))) = true := by
    simp
  simp

/-- **false loop = acyclic design**: if the group, with every assignment taken as a block of its own, has a
legal acyclic schedule `fine` (same assignments, targets pairwise disjoint), then the value the super-block
returns is the value of that acyclic schedule -/
theorem false_loop_eq_acyclic (fuel : Nat) (watch : List Rng) (scc fine : List Blk) (s s' : St)
    (hwf : PV.C01.wfBlocks scc = true) (hok : watchOKB scc watch = true)
    (h : iterate fuel watch scc s = some s')
    (hfwf : PV.C01.wfBlocks fine = true) (hftopo : topoB fine = true)
    -- `fine` splits the blocks of `scc`: each fine block is fixed wherever its coarse block is
    (hsplit : ∀ t, (∀ b ∈ scc, b.run t = t) → ∀ c ∈ fine, c.run t = t)
    -- and drives the same bits
    (hsame : ∀ v, (∃ c ∈ fine, inRngs c.writes v) ↔ (∃ b ∈ scc, inRngs b.writes v)) :
    s' = runBlocks fine s := by
  have hfix := stable_is_fixed_point fuel watch scc s s' hwf hok h
  apply PV.C01.dataflow_unique fine hfwf hftopo s s'
  · intro v hv
    -- bits not driven by the group are untouched by iterate
    have hnw : ∀ b ∈ scc, ¬ inRngs b.writes v := by
      intro b hb hw
      obtain ⟨c, hc, hcw⟩ := (hsame v).mpr ⟨b, hb, hw⟩
      exact hv c hc hcw
    clear hfix hok
    induction fuel generalizing s with
    | zero => simp [iterate] at h
    | succ f ih =>
      simp only [iterate] at h
      have hfr : runBlocks scc s v = s v := by
        obtain ⟨hw, _⟩ := PV.C01.wf_denote scc hwf
        rw [runBlocks_eq]
        apply runList_frame _ hw
        intro b hb
        obtain ⟨c, hc, rfl⟩ := List.mem_map.mp hb
        exact hnw c hc
      split at h
      · cases h; exact hfr
      · rw [ih _ h, hfr]
  · exact hsplit s' hfix

/-! ## non-vacuity: a false loop through disjoint slices of one signal -/
-- A: x[0:4] @= in ; x[4:8] @= y      B: y @= x[0:4]
def fA : Blk := ⟨0, [⟨⟨1, 0, 4⟩, .rd ⟨0, 0, 4⟩⟩, ⟨⟨1, 4, 4⟩, .rd ⟨2, 0, 4⟩⟩]⟩
def fB : Blk := ⟨1, [⟨⟨2, 0, 4⟩, .rd ⟨1, 0, 4⟩⟩]⟩
example : PV.C01.wfBlocks [fA, fB] = true ∧ topoB [fA, fB] = false ∧ topoB [fB, fA] = false ∧
    watchOKB [fA, fB] [⟨1, 0, 8⟩, ⟨2, 0, 4⟩] = true := by decide

end PV.C11

/-! ## the whole schedule: single blocks and SCC groups in topological order -/
namespace PV.C11
open PV.Rtl PV.Sched

theorem iterate_frame (fuel : Nat) (watch : List Rng) (scc : List Blk) (s s' : St) (v : Var)
    (h : iterate fuel watch scc s = some s') (hv : ∀ b ∈ scc, ¬ inRngs b.writes v) : s' v = s v := by
  induction fuel generalizing s with
  | zero => simp [iterate] at h
  | succ f ih =>
    simp only [iterate] at h
    have hfr : runBlocks scc s v = s v := by
      unfold runBlocks
      clear h ih
      induction scc generalizing s with
      | nil => rfl
      | cons b bs ihb =>
        simp only [List.foldl_cons]
        rw [ihb (fun c hc => hv c (List.mem_cons_of_mem _ hc))]
        exact Blk.run_frame b s v (hv b List.mem_cons_self)
    split at h
    · cases h; exact hfr
    · rw [ih _ h, hfr]

theorem runEntries_frame (fuel : Nat) (es : List Entry) (s t : St) (v : Var)
    (h : runEntries fuel es s = some t) (hv : ∀ b ∈ allBlocks es, ¬ inRngs b.writes v) : t v = s v := by
  induction es generalizing s with
  | nil => simp [runEntries] at h; rw [← h]
  | cons e es ih =>
    have hrest : ∀ b ∈ allBlocks es, ¬ inRngs b.writes v := by
      intro b hb; apply hv b; simp only [allBlocks, List.flatMap_cons, List.mem_append]; exact Or.inr hb
    cases e with
    | blk b =>
      simp only [runEntries] at h
      rw [ih _ h hrest]
      apply Blk.run_frame
      apply hv b; simp [allBlocks, Entry.blocks]
    | scc bs w =>
      simp only [runEntries] at h
      cases hi : iterate fuel w bs s with
      | none => simp [hi] at h
      | some s1 =>
        simp only [hi] at h
        rw [ih _ h hrest]
        apply iterate_frame fuel w bs s s1 v hi
        intro b hb; apply hv b
        simp only [allBlocks, List.flatMap_cons, List.mem_append, Entry.blocks]; exact Or.inl hb

/-- a block that is at a fixed point stays at a fixed point when only bits it neither reads nor writes change -/
theorem fixed_transfer (b : Blk) (s1 t : St) (hfix : b.run s1 = s1)
    (hR : ∀ v, inRngs b.reads v → t v = s1 v) (hW : ∀ v, inRngs b.writes v → t v = s1 v) : b.run t = t := by
  funext v
  by_cases hv : inRngs b.writes v
  · rw [Blk.run_dep b t s1 hR v hv, hfix, hW v hv]
  · exact Blk.run_frame b t v hv

theorem run_idem (b : Blk) (hns : b.noSelf = true) (s : St) : b.run (b.run s) = b.run s := by
  have hwf := denote_wf b hns
  funext v
  by_cases hv : inRngs b.writes v
  · apply Blk.run_dep b (b.run s) s _ v hv
    intro u hu
    exact Blk.run_frame b s u (hwf.noself u hu)
  · exact Blk.run_frame b (b.run s) v hv

/-- **on return no update block of the design, run again, changes any signal**: the schedule is a list of single blocks
and SCC groups in topological order (as produced by the SCC-based schedulers); every group was iterated to stability. -/
theorem whole_schedule (fuel : Nat) (es : List Entry) (s t : St)
    (hwf : PV.C01.wfBlocks (allBlocks es) = true) (htopo : entriesTopoB es = true) (hw : watchesOKB es = true)
    (h : runEntries fuel es s = some t) : ∀ b ∈ allBlocks es, b.run t = t := by
  induction es generalizing s with
  | nil => intro b hb; simp [allBlocks] at hb
  | cons e es ih =>
    -- split the hypotheses
    unfold PV.C01.wfBlocks at hwf
    simp only [Bool.and_eq_true, List.all_eq_true] at hwf
    obtain ⟨hns, hsw⟩ := hwf
    have hall : allBlocks (e :: es) = e.blocks ++ allBlocks es := by simp [allBlocks]
    rw [hall] at hns hsw
    unfold singleWriterB at hsw
    rw [pairwiseB_iff, List.pairwise_append] at hsw
    obtain ⟨hsw1, hsw2, hsw12⟩ := hsw
    unfold entriesTopoB at htopo
    simp only [pairwiseB, Bool.and_eq_true, List.all_eq_true] at htopo
    obtain ⟨htop1, htop2⟩ := htopo
    unfold watchesOKB at hw
    simp only [List.all_cons, Bool.and_eq_true] at hw
    obtain ⟨hw1, hw2⟩ := hw
    have hwf_rest : PV.C01.wfBlocks (allBlocks es) = true := by
      unfold PV.C01.wfBlocks
      simp only [Bool.and_eq_true, List.all_eq_true]
      refine ⟨fun b hb => hns b (List.mem_append.mpr (Or.inr hb)), ?_⟩
      unfold singleWriterB; rw [pairwiseB_iff]; exact hsw2
    -- the state after the first entry and the facts about it
    have key : ∃ s1, runEntries fuel es s1 = some t ∧ ∀ b ∈ e.blocks, b.run s1 = s1 := by
      cases e with
      | blk b =>
        simp only [runEntries] at h
        refine ⟨b.run s, h, ?_⟩
        intro c hc
        simp only [Entry.blocks, List.mem_singleton] at hc
        subst hc
        exact run_idem c (hns c (by simp [Entry.blocks])) s
      | scc bs w =>
        simp only [runEntries] at h
        cases hi : iterate fuel w bs s with
        | none => simp [hi] at h
        | some s1 =>
          simp only [hi] at h
          refine ⟨s1, h, ?_⟩
          have hwfbs : PV.C01.wfBlocks bs = true := by
            unfold PV.C01.wfBlocks
            simp only [Bool.and_eq_true, List.all_eq_true]
            refine ⟨fun b hb => hns b (List.mem_append.mpr (Or.inl hb)), ?_⟩
            unfold singleWriterB; rw [pairwiseB_iff]; exact hsw1
          exact stable_is_fixed_point fuel w bs s s1 hwfbs hw1 hi
    obtain ⟨s1, hrest, hfix⟩ := key
    intro b hb
    rw [hall] at hb
    rcases List.mem_append.mp hb with hb | hb
    · -- b belongs to the first entry: later entries touch neither its reads nor its writes
      apply fixed_transfer b s1 t (hfix b hb)
      · intro v hv
        apply runEntries_frame fuel es s1 t v hrest
        intro c hc hcw
        -- c ∈ some later entry e'; e.reads vs e'.writes do not overlap
        simp only [allBlocks, List.mem_flatMap] at hc
        obtain ⟨e', he', hce'⟩ := hc
        have hno := htop1 e' he'
        have hfalse : rngsOverlap e.reads e'.writes = false := by simpa using hno
        refine rngsOverlap_false _ _ hfalse v ?_ ?_
        · obtain ⟨r, hr, hrv⟩ := hv
          exact ⟨r, by simp only [Entry.reads, List.mem_flatMap]; exact ⟨b, hb, hr⟩, hrv⟩
        · obtain ⟨r, hr, hrv⟩ := hcw
          exact ⟨r, by simp only [Entry.writes, List.mem_flatMap]; exact ⟨c, hce', hr⟩, hrv⟩
      · intro v hv
        apply runEntries_frame fuel es s1 t v hrest
        intro c hc hcw
        have hdis := hsw12 b hb c hc
        have hfalse : rngsOverlap b.writes c.writes = false := by simpa using hdis
        exact rngsOverlap_false _ _ hfalse v hv hcw
    · exact ih s1 hwf_rest (by unfold entriesTopoB; exact htop2) (by unfold watchesOKB; exact hw2) hrest b hb

end PV.C11
