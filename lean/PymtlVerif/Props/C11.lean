import PymtlVerif.Proofs.Rtl
import PymtlVerif.Props.C01
/-!
# C11 — combinational cycles settle on a fixed point or are reported

Model: `iterate` / `runEntries` / `watchOKB` in `Model/Rtl.lean` (the SCC super-block template of
`DynamicSchedulePass` and `Mamba2020Pass.compile_scc`: clone the watched variables, run the group, compare,
repeat, give up after 100 sweeps). The theorems hold for every group, every watch list satisfying the
checked condition `watchOKB`, every fuel and every start state.
-/
namespace PV.C11
open PV.Rtl PV.Sched

/-- the Boolean stability test of the template, as a predicate on bits -/
theorem stable_sound (watch : List Rng) (s s' : St)
    (h : watch.all (fun r => (List.range r.w).all (fun i => s (r.sig, r.lo + i) == s' (r.sig, r.lo + i))) = true) :
    ∀ v, inRngs watch v → s' v = s v := by
  intro v ⟨r, hr, hv⟩
  have h1 := List.all_eq_true.mp h r hr
  obtain ⟨hs, hlo, hhi⟩ := hv
  have h2 := List.all_eq_true.mp h1 (v.2 - r.lo) (List.mem_range.mpr (by omega))
  have e : (r.sig, r.lo + (v.2 - r.lo)) = v := by
    cases v; simp only [Prod.mk.injEq] at *; constructor <;> omega
  rw [e] at h2
  exact (beq_iff_eq.mp h2).symm

/-- what the watch list must cover: every bit written in the group and read in the group -/
theorem watchOKB_sound (scc : List Blk) (watch : List Rng) (h : watchOKB scc watch = true) :
    ∀ v, (∃ a ∈ scc, inRngs a.writes v) → (∃ b ∈ scc, inRngs b.reads v) → inRngs watch v := by
  intro v ⟨a, ha, wr, hwr, hwv⟩ ⟨b, hb, rd, hrd, hrv⟩
  unfold watchOKB at h
  have h1 := List.all_eq_true.mp (List.all_eq_true.mp (List.all_eq_true.mp (List.all_eq_true.mp h a ha) wr hwr) b hb) rd hrd
  have hov := overlap_of_common wr rd v hwv hrv
  simp only [hov, Bool.not_true, Bool.false_or] at h1
  obtain ⟨hs1, hlo1, hhi1⟩ := hwv
  obtain ⟨hs2, hlo2, hhi2⟩ := hrv
  have h2 := List.all_eq_true.mp h1 (v.2 - max wr.lo rd.lo) (List.mem_range.mpr (by omega))
  obtain ⟨r, hr, hrr⟩ := List.any_eq_true.mp h2
  simp only [Bool.and_eq_true, beq_iff_eq, decide_eq_true_eq] at hrr
  exact ⟨r, hr, by unfold Rng.has; omega⟩

/-- `iterate` returns only the result of a sweep over which the watched bits did not change -/
theorem iterate_some (fuel : Nat) (watch : List Rng) (scc : List Blk) (s s' : St)
    (h : iterate fuel watch scc s = some s') :
    ∃ s0, s' = runBlocks scc s0 ∧ ∀ v, inRngs watch v → s' v = s0 v := by
  induction fuel generalizing s with
  | zero => simp [iterate] at h
  | succ f ih =>
    simp only [iterate] at h
    split at h
    · next hst =>
      cases h
      exact ⟨s, rfl, stable_sound watch s _ hst⟩
    · exact ih _ h

/-- **returns ⇒ fixed point**: when the super-block returns, no block of the group, run again, changes
any signal bit -/
theorem stable_is_fixed_point (fuel : Nat) (watch : List Rng) (scc : List Blk) (s s' : St)
    (hwf : PV.C01.wfBlocks scc = true) (hok : watchOKB scc watch = true)
    (h : iterate fuel watch scc s = some s') : ∀ b ∈ scc, b.run s' = s' := by
  obtain ⟨s0, rfl, hst⟩ := iterate_some fuel watch scc s s' h
  obtain ⟨hw, hsw⟩ := PV.C01.wf_denote scc hwf
  intro b hb
  rw [runBlocks_eq] at hst ⊢
  apply Sched.stable_is_fixed_point (scc.map denote) hw hsw (inRngs watch) _ s0 hst (denote b)
    (List.mem_map_of_mem hb)
  intro v ⟨a, ha, hav⟩ ⟨c, hc, hcv⟩
  obtain ⟨a', ha', rfl⟩ := List.mem_map.mp ha
  obtain ⟨c', hc', rfl⟩ := List.mem_map.mp hc
  exact watchOKB_sound scc watch hok v ⟨a', ha', hav⟩ ⟨c', hc', hcv⟩

/-- the state after `k` sweeps of the group -/
def sweeps (scc : List Blk) : Nat → St → St
  | 0, s => s
  | k+1, s => sweeps scc k (runBlocks scc s)

/-- the stability test of the template between two states -/
def stableB (watch : List Rng) (s s' : St) : Bool :=
  watch.all (fun r => (List.range r.w).all (fun i => s (r.sig, r.lo + i) == s' (r.sig, r.lo + i)))

/-- **never hangs**: `iterate` is a total function bounded by its fuel (100 in the code); `none` (the
UpblkCyclicError case) means that none of the `fuel` sweeps was stable -/
theorem none_means_unstable (fuel : Nat) (watch : List Rng) (scc : List Blk) (s : St)
    (h : iterate fuel watch scc s = none) :
    ∀ k, k < fuel → stableB watch (sweeps scc k s) (runBlocks scc (sweeps scc k s)) = false := by
  induction fuel generalizing s with
  | zero => intro k hk; omega
  | succ f ih =>
    intro k hk
    simp only [iterate] at h
    split at h
    · cases h
    · next hst =>
      cases k with
      | zero => simpa [stableB, sweeps] using hst
      | succ k => exact ih (runBlocks scc s) h k (by omega)

/-- a stable start state is accepted after one sweep (a convergent design costs one extra sweep) -/
theorem fixed_point_accepted (fuel : Nat) (watch : List Rng) (scc : List Blk) (s : St)
    (hfix : runBlocks scc s = s) : iterate (fuel + 1) watch scc s = some s := by
  simp only [iterate, hfix]
  have : (watch.all (fun r => (List.range r.w).all (fun i => s (r.sig, r.lo + i) == s (r.sig, r.lo + i)))) = true := by
    simp
  simp

/-- **false loop = acyclic design**: if the group, with every assignment taken as a block of its own, has a
legal acyclic schedule `fine` (same assignments, targets pairwise disjoint), then the value the super-block
returns is the value of that acyclic schedule -/
theorem false_loop_eq_acyclic (fuel : Nat) (watch : List Rng) (scc fine : List Blk) (s s' : St)
    (hwf : PV.C01.wfBlocks scc = true) (hok : watchOKB scc watch = true)
    (h : iterate fuel watch scc s = some s')
    (hfwf : PV.C01.wfBlocks fine = true) (hftopo : topoB fine = true)
    -- `fine` splits the blocks of `scc`: each fine block is fixed wherever its coarse block is
    (hsplit : ∀ t, (∀ b ∈ scc, b.run t = t) → ∀ c ∈ fine, c.run t = t)
    -- and drives the same bits
    (hsame : ∀ v, (∃ c ∈ fine, inRngs c.writes v) ↔ (∃ b ∈ scc, inRngs b.writes v)) :
    s' = runBlocks fine s := by
  have hfix := stable_is_fixed_point fuel watch scc s s' hwf hok h
  apply PV.C01.dataflow_unique fine hfwf hftopo s s'
  · intro v hv
    -- bits not driven by the group are untouched by iterate
    have hnw : ∀ b ∈ scc, ¬ inRngs b.writes v := by
      intro b hb hw
      obtain ⟨c, hc, hcw⟩ := (hsame v).mpr ⟨b, hb, hw⟩
      exact hv c hc hcw
    clear hfix hok
    induction fuel generalizing s with
    | zero => simp [iterate] at h
    | succ f ih =>
      simp only [iterate] at h
      have hfr : runBlocks scc s v = s v := by
        obtain ⟨hw, _⟩ := PV.C01.wf_denote scc hwf
        rw [runBlocks_eq]
        apply runList_frame _ hw
        intro b hb
        obtain ⟨c, hc, rfl⟩ := List.mem_map.mp hb
        exact hnw c hc
      split at h
      · cases h; exact hfr
      · rw [ih _ h, hfr]
  · exact hsplit s' hfix

/-! ## non-vacuity: a false loop through disjoint slices of one signal -/
-- A: x[0:4] @= in ; x[4:8] @= y      B: y @= x[0:4]
def fA : Blk := ⟨0, [⟨⟨1, 0, 4⟩, .rd ⟨0, 0, 4⟩⟩, ⟨⟨1, 4, 4⟩, .rd ⟨2, 0, 4⟩⟩]⟩
def fB : Blk := ⟨1, [⟨⟨2, 0, 4⟩, .rd ⟨1, 0, 4⟩⟩]⟩
example : PV.C01.wfBlocks [fA, fB] = true ∧ topoB [fA, fB] = false ∧ topoB [fB, fA] = false ∧
    watchOKB [fA, fB] [⟨1, 0, 8⟩, ⟨2, 0, 4⟩] = true := by decide

end PV.C11
