/-! # C11 — property theorems (stub: not built yet) -/
namespace PV.C11
end PV.C11
