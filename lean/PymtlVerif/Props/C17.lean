/-! # C17 — property theorems (stub: not built yet) -/
namespace PV.C17
end PV.C17
