import PymtlVerif.Proofs.Queue
/-!
# C17 — library queues are FIFOs with their advertised same-cycle behaviour

Vocabulary (all in `Model/Queue.lean`): `runCls c n d is` are the per-cycle outputs of queue class `c` built with
capacity parameter `n` (registers initially `d`) over the input history `is`; `specStep st k N` is one cycle of the
abstract FIFO of kind `k` and capacity `N` in interface style `st`; `LegalTrace` says that every `en` input on an
en/rdy interface was raised only with the same cycle's `rdy` high (val/rdy sides are unconstrained);
`ledger st is os` lists the messages accepted and delivered by the handshakes visible at the ports since the
last cycle in which a reset took effect.

Classes covered by the refinement theorems: all of `queues.py` (`n = 1`: `*Queue1EntryRTL`; `n ≥ 2`: ctrl + dpath),
all of `stream/queues.py`, `enrdy_queues.py` Normal1/Pipe1/Bypass1, all four of `valrdy_queues.py`
(`NormalQueueRTL` for `n ≥ 2`), the three CL queues. `enrdy_queues.BypassQueue2RTL` does **not** satisfy the
enqueue-ready law (see `bypass2_enq_law_fails`); for it FIFO order, count and the dequeue law are proved
(`bypass2_fifo_order`).
-/
namespace PV.C17
open PV.Queue

/-! ## invariant and refinement, per implementation family -/

/-- `queues.py` / `stream/queues.py` ctrl + dpath (`gate` = ready gated by reset): over every input history
(legal or not) head and tail stay below `n`, `count ≤ n`, `tail = (head + count) mod n`, and in the next cycle no
`Bits` arithmetic wraps: the width-truncated register update equals the unbounded one. -/
theorem ring_inv {α} (gate : Bool) (k : Kind) (n : Nat) (hn : 1 ≤ n) (d : α) (is : List (In α)) (i : In α) :
    let s := runState (ringStep gate k n) (Ring.init d) is
    s.head < n ∧ s.tail < n ∧ s.count ≤ n ∧ s.tail = (s.head + s.count) % n ∧
    (ringStep gate k n s i).1 = ringIdeal n s i.msg i.rst
      (i.enq && (!(gate && i.rst) && enqLaw k n s.count i.deq))
      (i.deq && (!(gate && i.rst) && deqLaw k s.count i.enq)) := by
  have key : ∀ (is : List (In α)) (s : Ring α), RInv n s → RInv n (runState (ringStep gate k n) s is) := by
    intro is
    induction is with
    | nil => intro s hs; exact hs
    | cons j is ih =>
      intro s hs
      simp only [runState]
      apply ih
      rw [ringStep_fst]
      have hf := ex_dx_facts k n s.count (!(gate && j.rst)) j.enq j.deq hs.hn hs.hcnt
      exact (ringCore_sim n s j.msg j.rst _ _ hs hf.1 hf.2.1).2
  have hs := key is _ (ring_init_inv n hn d)
  have hf := ex_dx_facts k n _ (!(gate && i.rst)) i.enq i.deq hs.hn hs.hcnt
  refine ⟨hs.hhead, ?_, hs.hcnt, hs.htail, ?_⟩
  · rw [hs.htail]; exact Nat.mod_lt _ hs.hn
  · rw [ringStep_fst]; exact ringCore_eq_ideal n _ i.msg i.rst _ _ hs hf.1 hf.2.1

/-- one cycle of the ring-buffer queues commutes with one cycle of `FIFO_spec(kind, n)` under the abstraction
`rabs s = [regs[(head + j) mod n] | j < count]`, with equal outputs (rdy, val, message, count); no legality
assumption is needed. `st` is `styleQ` (`queues.py`) or `styleS` (`stream/queues.py`). -/
theorem ring_refines {α} (st : Style) (hr : st.reset = true) (hp : st.push = false) (hf : st.free = false)
    (k : Kind) (n : Nat) (hn : 1 ≤ n) (s : Ring α) (i : In α) (hi : RInv n s) :
    rabs n (ringStep st.gate k n s i).1 = (specStep st k n (rabs n s) i).1 ∧
    (ringStep st.gate k n s i).2 = (specStep st k n (rabs n s) i).2 ∧
    RInv n (ringStep st.gate k n s i).1 := by
  have hfacts := ex_dx_facts k n s.count (!(st.gate && i.rst)) i.enq i.deq hn hi.hcnt
  have hc := ringCore_sim n s i.msg i.rst _ _ hi hfacts.1 hfacts.2.1
  refine ⟨?_, (ringSim st k n hn hr hp hf).out_eq s i hi, ?_⟩
  · rw [ringStep_fst, specStep_fst]
    simp only [hr, rabs_length, specEr, specDr, Bool.true_and]
    exact hc.1
  · rw [ringStep_fst]; exact hc.2

/-- the twelve one-entry classes (`queues.py` and `stream/queues.py` `*Queue1EntryRTL`, `enrdy_queues.py` and
`valrdy_queues.py` `*Queue1RTL`): outputs equal the capacity-1 specification's for every state and input, and for a
protocol-legal input the next state is the specification's next state (`abs1 s = if full then [entry] else []`). -/
theorem one_entry_refines {α} (k : Kind) (s : Queue.One α) (i : In α) :
    ((q1Step k s i).2 = (specStep styleQ k 1 (abs1 s) i).2 ∧
      (Legal styleQ (q1Step k s i).2 i → abs1 (q1Step k s i).1 = (specStep styleQ k 1 (abs1 s) i).1)) ∧
    ((s1Step k s i).2 = (specStep styleS k 1 (abs1 s) i).2 ∧
      abs1 (s1Step k s i).1 = (specStep styleS k 1 (abs1 s) i).1) ∧
    ((er1Step k s i).2 = (specStep (erStyle k) k 1 (abs1 s) i).2 ∧
      (Legal (erStyle k) (er1Step k s i).2 i → abs1 (er1Step k s i).1 = (specStep (erStyle k) k 1 (abs1 s) i).1)) ∧
    ((v1Step k s i).2 = (specStep styleV1 k 1 (abs1 s) i).2 ∧
      abs1 (v1Step k s i).1 = (specStep styleV1 k 1 (abs1 s) i).1) :=
  ⟨⟨(q1Sim k).out_eq s i trivial, fun h => ((q1Sim k).next s i trivial h).1⟩,
   ⟨(s1Sim k).out_eq s i trivial, ((s1Sim k).next s i trivial ⟨by simp [styleS], by simp [styleS]⟩).1⟩,
   ⟨(er1Sim k).out_eq s i trivial, fun h => ((er1Sim k).next s i trivial h).1⟩,
   ⟨(v1Sim k).out_eq s i trivial, ((v1Sim k).next s i trivial ⟨by simp [styleV1], by simp [styleV1]⟩).1⟩⟩

/-- `valrdy_queues.NormalQueueRTL(n)` (full bit, enq/deq pointers, `num_free_entries`): invariant
(`enq_ptr, deq_ptr < n`, `full → enq_ptr = deq_ptr`) preserved, outputs (including `num_free_entries`) equal the
specification's, state commutes; the abstraction reads `vcount` registers from `deq_ptr` on, where
`vcount = n` if full, else `(enq_ptr − deq_ptr) mod n`. -/
theorem vring_refines {α} (n : Nat) (hn : 1 ≤ n) (s : VRing α) (i : In α) (hi : VInv n s) :
    rabs n (toRing n (vrStep n s i).1) = (specStep styleVN .normal n (rabs n (toRing n s)) i).1 ∧
    (vrStep n s i).2 = (specStep styleVN .normal n (rabs n (toRing n s)) i).2 ∧
    VInv n (vrStep n s i).1 :=
  have h := (vrSim (α := α) n hn).next s i hi ⟨by simp [styleVN], by simp [styleVN]⟩
  ⟨h.1, (vrSim (α := α) n hn).out_eq s i hi, h.2⟩

/-- the CL queues (`deque`, newest at the left): with the block order their method constraints impose, one cycle
commutes with the specification under `abs q = reverse q`, outputs equal, `len ≤ n` preserved. -/
theorem cl_refines {α} (k : Kind) (n : Nat) (hn : 1 ≤ n) (q : List α) (i : In α) (hq : q.length ≤ n) :
    (clStep k n q i).1.reverse = (specStep styleV1 k n q.reverse i).1 ∧
    (clStep k n q i).2 = (specStep styleV1 k n q.reverse i).2 ∧
    (clStep k n q i).1.length ≤ n :=
  have h := cl_sim k n hn q i hq
  ⟨h.2.1, h.1, h.2.2⟩

/-! ## refinement over arbitrary histories -/

/-- For every class except `BypassQueue2RTL`, every capacity the class can be built with and every protocol-legal
input history: at every cycle the outputs (ready/valid, message, count) are those of `FIFO_spec(kind, capacity)`. -/
theorem refines_trace {α} (c : Cls) (hc : c ≠ .erBypass2) (n : Nat) (hn : c.capOK n) (d : α) (is : List (In α))
    (hl : LegalTrace c.style is (runCls c n d is)) :
    runCls c n d is = runSpec c.style c.kind (c.cap n) is :=
  cls_trace c hc n hn d is hl

/-! ## corollaries on the observable handshakes, for arbitrary histories -/

/-- Nothing lost, duplicated or invented, and order kept: the accepted messages are exactly the delivered ones
followed by at most `capacity` messages still inside. -/
theorem nothing_lost {α} (c : Cls) (hc : c ≠ .erBypass2) (n : Nat) (hn : c.capOK n) (d : α) (is : List (In α))
    (hl : LegalTrace c.style is (runCls c n d is)) :
    ∃ inside, (ledger c.style is (runCls c n d is)).acc = (ledger c.style is (runCls c n d is)).del ++ inside ∧
      inside.length ≤ c.cap n := by
  rw [cls_trace c hc n hn d is hl]
  exact ⟨_, spec_ledger c.style c.kind (c.cap n) (cap_pos c n hn) is⟩

/-- FIFO order: the delivered sequence is a prefix of the accepted sequence. -/
theorem fifo_order {α} (c : Cls) (hc : c ≠ .erBypass2) (n : Nat) (hn : c.capOK n) (d : α) (is : List (In α))
    (hl : LegalTrace c.style is (runCls c n d is)) :
    (ledger c.style is (runCls c n d is)).del =
      (ledger c.style is (runCls c n d is)).acc.take (ledger c.style is (runCls c n d is)).del.length := by
  obtain ⟨inside, h, _⟩ := nothing_lost c hc n hn d is hl
  rw [h]; simp

/-- The occupancy (accepted − delivered) never exceeds the capacity. -/
theorem never_exceeds {α} (c : Cls) (hc : c ≠ .erBypass2) (n : Nat) (hn : c.capOK n) (d : α) (is : List (In α))
    (hl : LegalTrace c.style is (runCls c n d is)) :
    (ledger c.style is (runCls c n d is)).acc.length - (ledger c.style is (runCls c n d is)).del.length ≤ c.cap n := by
  obtain ⟨inside, h, h2⟩ := nothing_lost c hc n hn d is hl
  rw [h, List.length_append]; omega

/-- occupancy after history `pre`, as seen by an observer of the ports -/
def occ {α} (c : Cls) (n : Nat) (d : α) (pre : List (In α)) : Nat :=
  (ledger c.style pre (runCls c n d pre)).acc.length - (ledger c.style pre (runCls c n d pre)).del.length

/-- the output of the cycle that follows a history always exists (so the `ho` hypotheses below are satisfiable) -/
theorem next_out_exists {α} (c : Cls) (n : Nat) (d : α) (pre : List (In α)) (i : In α) :
    ∃ o, runCls c n d (pre ++ [i]) = runCls c n d pre ++ [o] :=
  runCls_append c n d pre i

/-- all per-cycle laws at once: `o` is the output in the cycle with inputs `i` that follows history `pre` -/
theorem next_out {α} (c : Cls) (hc : c ≠ .erBypass2) (n : Nat) (hn : c.capOK n) (d : α)
    (pre : List (In α)) (i : In α) (o : Out α)
    (hl : LegalTrace c.style (pre ++ [i]) (runCls c n d (pre ++ [i])))
    (ho : runCls c n d (pre ++ [i]) = runCls c n d pre ++ [o]) :
    let live := !(c.style.gate && i.rst)
    let avail := live && deqLaw c.kind (occ c n d pre) i.enq
    occ c n d pre ≤ c.cap n ∧
    o.enqRdy = (live && enqLaw c.kind (c.cap n) (occ c n d pre) i.deq) ∧
    o.deqRdy = (if c.style.push then i.deq && avail else avail) ∧
    o.count = (if c.style.free then (if i.rst then c.cap n else c.cap n - occ c n d pre) else occ c n d pre) := by
  obtain ⟨h1, h2⟩ := cls_next c hc n hn d pre i o hl ho
  have := spec_next_out c.style c.kind (c.cap n) (cap_pos c n hn) pre i
  simp only [occ, h1, h2]
  exact this

/-- The count output is exact at every cycle: it equals accepted − delivered (for `num_free_entries`:
capacity minus that; the capacity while reset is high). -/
theorem count_exact {α} (c : Cls) (hc : c ≠ .erBypass2) (n : Nat) (hn : c.capOK n) (d : α)
    (pre : List (In α)) (i : In α) (o : Out α)
    (hl : LegalTrace c.style (pre ++ [i]) (runCls c n d (pre ++ [i])))
    (ho : runCls c n d (pre ++ [i]) = runCls c n d pre ++ [o]) :
    o.count = (if c.style.free then (if i.rst then c.cap n else c.cap n - occ c n d pre) else occ c n d pre) ∧
    occ c n d pre ≤ c.cap n :=
  have h := next_out c hc n hn d pre i o hl ho
  ⟨h.2.2.2, h.1⟩

/-- The ready/valid laws, stated outright on `len = accepted − delivered` (`live` = not held low by reset; only
`queues.py` gates its ready outputs with reset):
enqueue-ready iff `len < capacity`, or — pipe queue — a dequeue is offered this cycle;
dequeue-ready/valid iff `len > 0`, or — bypass queue — an enqueue is offered this cycle
(`enrdy_queues.py`: the observable is `deq.en`, the same condition and-ed with the consumer's `deq.rdy`). -/
theorem rdy_laws {α} (c : Cls) (hc : c ≠ .erBypass2) (n : Nat) (hn : c.capOK n) (d : α)
    (pre : List (In α)) (i : In α) (o : Out α)
    (hl : LegalTrace c.style (pre ++ [i]) (runCls c n d (pre ++ [i])))
    (ho : runCls c n d (pre ++ [i]) = runCls c n d pre ++ [o]) :
    let live := !(c.style.gate && i.rst)
    let len := occ c n d pre
    o.enqRdy = (live && match c.kind with
                        | .pipe => decide (len < c.cap n) || i.deq
                        | _ => decide (len < c.cap n)) ∧
    o.deqRdy = ((if c.style.push then i.deq else true) &&
                (live && match c.kind with
                         | .bypass => decide (len > 0) || i.enq
                         | _ => decide (len > 0))) := by
  have h := next_out c hc n hn d pre i o hl ho
  refine ⟨h.2.1, ?_⟩
  rw [h.2.2.1]
  cases c.style.push <;> cases c.kind <;> simp [deqLaw]

/-- A full pipe queue is enqueue-ready exactly when a dequeue happens in that cycle. -/
theorem pipe_enq_when_full {α} (c : Cls) (hc : c ≠ .erBypass2) (n : Nat) (hn : c.capOK n) (d : α)
    (pre : List (In α)) (i : In α) (o : Out α)
    (hl : LegalTrace c.style (pre ++ [i]) (runCls c n d (pre ++ [i])))
    (ho : runCls c n d (pre ++ [i]) = runCls c n d pre ++ [o])
    (hk : c.kind = .pipe) (hfull : occ c n d pre = c.cap n) (hlive : (c.style.gate && i.rst) = false) :
    o.enqRdy = delivered c.style i o := by
  have h := next_out c hc n hn d pre i o hl ho
  have hp := cap_pos c n hn
  simp only [delivered, h.2.1, h.2.2.1, hk, hfull, hlive, enqLaw, deqLaw]
  cases c.style.push <;> cases i.deq <;> simp [hp]

/-- An empty bypass queue offers a message exactly when an enqueue happens in that cycle
(`enrdy_queues.py`: `deq.en` iff additionally the consumer is ready). -/
theorem bypass_deq_when_empty {α} (c : Cls) (hc : c ≠ .erBypass2) (n : Nat) (hn : c.capOK n) (d : α)
    (pre : List (In α)) (i : In α) (o : Out α)
    (hl : LegalTrace c.style (pre ++ [i]) (runCls c n d (pre ++ [i])))
    (ho : runCls c n d (pre ++ [i]) = runCls c n d pre ++ [o])
    (hk : c.kind = .bypass) (hempty : occ c n d pre = 0) (hlive : (c.style.gate && i.rst) = false) :
    o.deqRdy = ((if c.style.push then i.deq else true) && accepted i o) := by
  have h := next_out c hc n hn d pre i o hl ho
  have hp := cap_pos c n hn
  simp only [accepted, h.2.1, h.2.2.1, hk, hempty, hlive, enqLaw, deqLaw]
  cases c.style.push <;> cases i.deq <;> cases i.enq <;> simp [hp]

/-- `valrdy_queues.NormalQueueRTL`: `num_free_entries = n − len` at every cycle (`n` while reset is high). -/
theorem num_free {α} (n : Nat) (hn : 2 ≤ n) (d : α) (pre : List (In α)) (i : In α) (o : Out α)
    (ho : runCls .vrNormalN n d (pre ++ [i]) = runCls .vrNormalN n d pre ++ [o]) :
    o.count = (if i.rst then n else n - occ .vrNormalN n d pre) ∧ occ .vrNormalN n d pre ≤ n := by
  have hl : LegalTrace Cls.vrNormalN.style (pre ++ [i]) (runCls .vrNormalN n d (pre ++ [i])) := by
    generalize runCls Cls.vrNormalN n d (pre ++ [i]) = os
    generalize pre ++ [i] = is
    induction is generalizing os with
    | nil => simp [LegalTrace]
    | cons j is ih =>
      cases os with
      | nil => simp [LegalTrace]
      | cons o os => exact ⟨⟨by simp [Cls.style, styleVN], by simp [Cls.style, styleVN]⟩, ih os⟩
  have h := count_exact .vrNormalN (by decide) n hn d pre i o hl ho
  simpa [Cls.style, styleVN, Cls.cap] using h

/-! ## `enrdy_queues.BypassQueue2RTL` -/

/-- `BypassQueue2RTL` keeps FIFO order and loses nothing: accepted = delivered ++ (at most two messages inside). -/
theorem bypass2_fifo_order {α} (d : α) (is : List (In α))
    (hl : LegalTrace styleEB is (runCls .erBypass2 2 d is)) :
    ∃ inside, (ledger styleEB is (runCls .erBypass2 2 d is)).acc =
        (ledger styleEB is (runCls .erBypass2 2 d is)).del ++ inside ∧ inside.length ≤ 2 ∧
      (ledger styleEB is (runCls .erBypass2 2 d is)).del =
        (ledger styleEB is (runCls .erBypass2 2 d is)).acc.take (ledger styleEB is (runCls .erBypass2 2 d is)).del.length := by
  have e : runCls .erBypass2 2 d is = run er2Step (Queue.One.init d, Queue.One.init d) is := rfl
  have h := er2_run is (Queue.One.init d, Queue.One.init d) ⟨[], []⟩ (by simp [abs2, abs1, Queue.One.init])
    (by rw [← e]; exact hl)
  simp only [ledger, e]
  refine ⟨_, h, ?_, ?_⟩
  · simp only [abs2, abs1]; split <;> split <;> simp
  · rw [h]; simp

/-- its count and dequeue law hold in every state: `q1.full + q2.full` is the number of messages inside, and
`deq.en = deq.rdy ∧ (len > 0 ∨ enq.en)` -/
theorem bypass2_count_deq {α} (s : Queue.One α × Queue.One α) (i : In α) :
    (er2Step s i).2.count = (abs2 s).length ∧ (abs2 s).length ≤ 2 ∧
    (er2Step s i).2.deqRdy = (i.deq && deqLaw .bypass (abs2 s).length i.enq) := by
  obtain ⟨⟨f1, e1⟩, ⟨f2, e2⟩⟩ := s
  obtain ⟨r, en, m, dq⟩ := i
  cases f1 <;> cases f2 <;> cases en <;> cases dq <;> simp [er2Step, er1Raw, abs2, abs1, b2n, deqLaw]

/-- …but not the enqueue-ready law: after `enq 1, enq 2, deq` one of two entries is used and `enq.rdy` is low
(the model follows the real class here; the check reports the same history on the real class). -/
theorem bypass2_enq_law_fails :
    (runCls .erBypass2 2 (0 : Nat)
      [⟨false, true, 1, false⟩, ⟨false, true, 2, false⟩, ⟨false, false, 0, true⟩, ⟨false, false, 0, false⟩]).map
        (fun o => (o.enqRdy, o.count)) = [(true, 0), (true, 1), (false, 2), (false, 1)] := by
  decide

/-! ## non-vacuity -/

/-- a legal history with a pointer wrap, an enqueue+dequeue at full and one at empty exists, and the theorems'
hypotheses hold for it -/
example : LegalTrace styleQ
    [⟨false, true, 5, false⟩, ⟨false, true, 6, false⟩, ⟨false, true, 7, true⟩, ⟨false, false, 0, true⟩, ⟨true, false, 0, false⟩]
    (runCls .qPipe 2 (0 : Nat)
      [⟨false, true, 5, false⟩, ⟨false, true, 6, false⟩, ⟨false, true, 7, true⟩, ⟨false, false, 0, true⟩, ⟨true, false, 0, false⟩]) := by
  decide

example : (runCls .qPipe 2 (0 : Nat)
      [⟨false, true, 5, false⟩, ⟨false, true, 6, false⟩, ⟨false, true, 7, true⟩, ⟨false, false, 0, true⟩]).map
        (fun o => (o.enqRdy, o.deqRdy, o.ret, o.count)) =
    [(true, false, none, 0), (true, true, some 5, 1), (true, true, some 5, 2), (true, true, some 6, 2)] := by
  decide

example : Cls.capOK .vrNormalN 3 ∧ Cls.capOK .qBypass 1 ∧ RInv 3 (Ring.init (0 : Nat)) ∧ VInv 3 (VRing.init (0 : Nat)) :=
  ⟨by simp [Cls.capOK], by simp [Cls.capOK], ring_init_inv 3 (by decide) 0, vring_init_inv 3 (by decide) 0⟩

end PV.C17
