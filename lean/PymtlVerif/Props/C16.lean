/-! # C16 — property theorems (stub: not built yet) -/
namespace PV.C16
end PV.C16
