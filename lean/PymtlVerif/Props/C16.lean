import PymtlVerif.Proofs.VCD
/-!
# C16 — waveform dumps replay the simulation exactly

Theorems about `Model/VCD.lean`: the value-change section written by `VcdGenerationPass` (`dump`), read by a
reader that knows only the `$var` declarations and the lines of the file (`replay`: a value holds until it is
changed; cycle `t` = time `100·t`), gives back the sampled trace — for every number of nets, every trace
(values may return to earlier values, nets may never change), every position of the clock net.

`dump` follows the code including its slip in `dump_vcd_inner` (`last_values` is indexed by the position in
`net_details`, which skips the clock net, but was filled by net index). The theorems therefore carry the
hypothesis `QuirkSafe` (from the clock net on, neighbouring nets of equal width have equal default values);
it holds whenever all default values are equal — in pymtl3 they are all zero (`replay_dump_zero_init`) — and
it cannot be dropped (`quirk_needs_equal_defaults`).
-/
namespace PV.C16
open PV.Bits PV.VCD

/-- a sampled row: one value per non-clock net (order of `details`), each fitting the net's width -/
def RowOk (d : Design) (row : List Nat) : Prop :=
  row.length = (details d).length ∧
  ∀ i (h1 : i < (details d).length) (h2 : i < row.length), row[i] < 2 ^ (details d)[i].1

/-- position of net `j` in a sampled row (`net_details` skips the clock net) -/
def dataPos (d : Design) (j : Nat) : Nat := if j < d.clk then j else j - 1

/-! ## to_vcd_str and symbols -/

/-- `to_vcd_str` parses back: 1-bit values are `0`/`1`, wider ones `b<nbits binary digits><blank>` -/
theorem vcd_str_parses (n v : Nat) (hv : v < 2 ^ n) : parseVcdStr n (toVcdStr ⟨n, v⟩) = some v := by
  have := parse_str n v
  rwa [Nat.mod_eq_of_lt hv] at this

/-- `to_vcd_str` is injective on (nbits, value) for value < 2^nbits -/
theorem vcd_str_injective (n v m u : Nat) (hv : v < 2 ^ n) (hu : u < 2 ^ m)
    (h : toVcdStr ⟨n, v⟩ = toVcdStr ⟨m, u⟩) : n = m ∧ v = u := by
  have := str_inj n v m u h
  rw [Nat.mod_eq_of_lt hv, Nat.mod_eq_of_lt hu] at this
  exact this

/-- the shape of the string: length 1 for one bit, nbits + 2 otherwise (zero padded to nbits) -/
theorem vcd_str_length (n v : Nat) :
    (toVcdStr ⟨n, v⟩).toList.length = if n = 1 then 1 else n + 2 := by
  have := congrArg List.length (str_toList n v)
  unfold str at this
  by_cases h : n = 1
  · simpa [h] using this
  · simpa [h, length_binDigits] using this

/-- distinct nets get distinct VCD symbols (`_gen_vcd_symbol`) -/
theorem symbol_injective (a b : Nat) (h : symbol a = symbol b) : a = b := symbol_inj a b h

/-! ## replay ∘ dump = id -/

theorem holds_read {st : St} {ds : List (Nat × Nat)} {vs : List Nat} {ls : List String}
    (h : Holds st ds vs ls)
    (hb : ∀ i (h1 : i < ds.length) (h2 : i < vs.length), vs[i] < 2 ^ ds[i].1) :
    (ds.map (fun p => (p.1, symbol p.2))).map (readSig st) = vs.map some := by
  obtain ⟨hl, hx⟩ := h.index
  apply List.ext_getElem
  · simp [hl]
  · intro i h1 h2
    simp only [List.length_map] at h1 h2
    simp only [List.getElem_map, readSig]
    rw [hx i h1 h2]
    simp only [Option.bind_some]
    rw [parse_str, Nat.mod_eq_of_lt (hb i h1 h2)]

/-- **Main theorem.** Reading the dump of a trace gives the trace back, for every non-clock net in every
    cycle (cycle 0 and the header values included). -/
theorem replay_dump (d : Design) (init : List Nat) (tr : List (List Nat))
    (hk : d.clk < d.widths.length) (hi : init.length = d.widths.length) (hq : QuirkSafe d init)
    (hr : ∀ row ∈ tr, RowOk d row) :
    replay (dataDecls d) (dump d init tr) tr.length = tr.map (fun row => row.map some) := by
  apply List.ext_getElem
  · simp [replay]
  · intro t h1 h2
    have ht : t < tr.length := by simpa [replay] using h1
    simp only [replay, List.getElem_map, List.getElem_range]
    obtain ⟨ls, hh⟩ := dump_holds d init tr hk hi hq (fun row hrow => (hr row hrow).1) t ht
    exact holds_read hh (hr tr[t] (List.getElem_mem _)).2

theorem quirkSafe_replicate (d : Design) (x : Nat) :
    QuirkSafe d (List.replicate d.widths.length x) := by
  intro i _ hw
  simp only [List.getElem?_replicate]
  by_cases h1 : i + 1 < d.widths.length
  · have : i < d.widths.length := by omega
    simp [h1, this]
  · by_cases h0 : i < d.widths.length
    · rw [List.getElem?_eq_getElem h0, List.getElem?_eq_none (by omega)] at hw
      simp at hw
    · simp [h0, h1]

/-- the case that exists in pymtl3: every default value is zero — no further hypothesis -/
theorem replay_dump_zero_init (d : Design) (tr : List (List Nat))
    (hk : d.clk < d.widths.length) (hr : ∀ row ∈ tr, RowOk d row) :
    replay (dataDecls d) (dump d (List.replicate d.widths.length 0) tr) tr.length
      = tr.map (fun row => row.map some) :=
  replay_dump d _ tr hk (by simp) (quirkSafe_replicate d 0) hr

/-- per declared signal: a signal mapped to non-clock net `j` reads, in cycle `t`, the sampled value of net `j` -/
theorem replay_signal (d : Design) (init : List Nat) (tr : List (List Nat))
    (hk : d.clk < d.widths.length) (hi : init.length = d.widths.length) (hq : QuirkSafe d init)
    (hr : ∀ row ∈ tr, RowOk d row)
    (a : Nat) (ha : a < d.sigs.length) (hj : d.sigs[a] ≠ d.clk) (hjN : d.sigs[a] < d.widths.length)
    (t : Nat) (ht : t < tr.length) :
    ∃ v, tr[t][dataPos d d.sigs[a]]? = some v ∧
      (replay (decls d) (dump d init tr) tr.length)[t]?.bind (·[a]?) = some (some v) := by
  obtain ⟨ls, hh⟩ := dump_holds d init tr hk hi hq (fun row hrow => (hr row hrow).1) t ht
  obtain ⟨hl, hx⟩ := hh.index
  have hrow := hr tr[t] (List.getElem_mem _)
  generalize hjdef : d.sigs[a] = j at hj hjN ⊢
  have hpos : dataPos d j < (details d).length := by
    rw [details_length d hk]; unfold dataPos; split <;> omega
  have hd := details_get? d (dataPos d j)
  rw [List.getElem?_eq_getElem hpos] at hd
  have hd' : (details d)[dataPos d j] = (d.widths[j], j) := by
    unfold dataPos at hd ⊢
    by_cases hlt : j < d.clk
    · simp only [hlt, if_true] at hd ⊢
      rw [List.getElem?_eq_getElem hjN] at hd
      simpa using hd
    · have e : j - 1 + 1 = j := by omega
      have hlt' : ¬ (j - 1 < d.clk) := by omega
      simp only [hlt, hlt', if_false, e] at hd ⊢
      rw [List.getElem?_eq_getElem hjN] at hd
      simpa using hd
  have hpv : dataPos d j < tr[t].length := by rw [hl]; exact hpos
  refine ⟨tr[t][dataPos d j], List.getElem?_eq_getElem hpv, ?_⟩
  have hget := hx _ hpos hpv
  have hbound := hrow.2 _ hpos hpv
  rw [hd'] at hget hbound
  simp only at hget hbound
  have hta : t < (replay (decls d) (dump d init tr) tr.length).length := by simp [replay, ht]
  rw [List.getElem?_eq_getElem hta]
  simp only [replay, List.getElem_map, List.getElem_range, Option.bind_some, decls, List.getElem?_map,
    List.getElem?_eq_getElem ha, Option.map_some, hjdef, readSig]
  rw [List.getD_eq_getElem?_getD, List.getElem?_eq_getElem hjN]
  simp only [Option.getD_some, hget, Option.bind_some]
  rw [parse_str, Nat.mod_eq_of_lt hbound]

/-- signals mapped to the same net read the same value in every cycle of any file -/
theorem shared_symbol (d : Design) (evs : List Ev) (n : Nat) (a b : Nat)
    (ha : a < d.sigs.length) (hb : b < d.sigs.length) (hab : d.sigs[a] = d.sigs[b]) (t : Nat) :
    (replay (decls d) evs n)[t]?.bind (·[a]?) = (replay (decls d) evs n)[t]?.bind (·[b]?) := by
  cases h : (replay (decls d) evs n)[t]? with
  | none => rfl
  | some row =>
    simp only [replay, List.getElem?_map] at h
    cases h2 : (List.range n)[t]? with
    | none => simp [h2] at h
    | some t' =>
      simp only [h2, Option.map_some, Option.some.injEq] at h
      subst h
      simp [decls, List.getElem?_eq_getElem ha, List.getElem?_eq_getElem hb, hab]

/-! ## the clock -/

/-- the timestamped lines of the clock symbol in a dump of N cycles: 1 at time 0, then for every cycle c
    0 at 100c+50 and 1 at 100c+100 — nothing else writes that symbol -/
theorem clock_edges (d : Design) (init : List Nat) (tr : List (List Nat)) :
    edgesOf (symbol d.clk) none (dump d init tr) = (0, "1") :: clockExp 0 tr.length :=
  edges_dump d init tr

/-- the clock toggles exactly once per cycle: inside [100t, 100t+100) it rises at 100t and falls at 100t+50 -/
theorem clock_once_per_cycle (d : Design) (init : List Nat) (tr : List (List Nat)) (t : Nat) (ht : t < tr.length) :
    (edgesOf (symbol d.clk) none (dump d init tr)).filter (fun e => 100 * t ≤ e.1 ∧ e.1 < 100 * t + 100)
      = [(100 * t, "1"), (100 * t + 50, "0")] := by
  rw [clock_edges]
  have := clock_window 0 tr.length t (by omega) (by omega)
  simpa using this

/-! ## the text wave -/

/-- the text-wave record of a signal, read back, is its sampled value sequence -/
theorem textwave_record (w : Nat) (vals : List Nat) (h : ∀ v ∈ vals, v < 2 ^ w) :
    (wavRecord w vals).map (parseWav w) = vals.map some := by
  simp only [wavRecord, List.map_map]
  apply List.map_congr_left
  intro v hv
  simp only [Function.comp, parse_wav, Nat.mod_eq_of_lt (h v hv)]

/-! ## the `last_values` slip -/

/-- with unequal default values the slip loses a change: nets (clk, a, b), both 4 bits wide, default 5 and 0;
    b = 5 in cycle 0 is compared with a's header string, found "unchanged", and the file keeps saying b = 0 -/
theorem quirk_needs_equal_defaults :
    let d : Design := { widths := [1, 4, 4], clk := 0, sigs := [] }
    replay (dataDecls d) (dump d [0, 5, 0] [[5, 5]]) 1 = [[some 5, some 0]] := by
  decide

/-- with pymtl3's all-zero defaults the slip only costs redundant lines in cycle 0:
    here `b0000000 #` is written again although net 2 did not change -/
example :
    (dump { widths := [8, 1, 7], clk := 1, sigs := [] } [0, 0, 0] [[0, 0]]).map Ev.text
      = ["b00000000 !", "0\"", "b0000000 #", "#0", "1\"", "b0000000 #", "#50", "0\"", "#100", "1\""] := by
  decide

/-! ## non-vacuity -/

example : symbol 0 = "!" ∧ symbol 93 = "~" ∧ symbol 94 = "\"!" := by decide
example : toVcdStr ⟨1, 1⟩ = "1" ∧ toVcdStr ⟨3, 2⟩ = "b010 " := by decide
example : wavRecord 3 [2, 7, 2] = ["0b010", "0b111", "0b010"] := by decide
/-- a trace that returns to earlier values, with a net that never changes, clock net in the middle -/
example :
    let d : Design := { widths := [3, 1, 2, 1], clk := 1, sigs := [0, 0, 2, 3, 1] }
    replay (dataDecls d) (dump d [0, 0, 0, 0] [[5, 0, 1], [2, 0, 1], [5, 0, 0], [5, 0, 1]]) 4
      = [[some 5, some 0, some 1], [some 2, some 0, some 1], [some 5, some 0, some 0], [some 5, some 0, some 1]] := by
  decide
example : RowOk { widths := [3, 1, 2, 1], clk := 1, sigs := [] } [5, 0, 1] := by
  unfold RowOk; decide

end PV.C16
