import PymtlVerif.Proofs.Hier
/-!
# C14 — hierarchical names are unique and evaluate back to their objects

Theorems about `Model/Hier.lean`, for every construction description `root`, every object of the
hierarchy it builds (`Reach root x`: the statically constructed objects and every field / slice
signal that can ever be created lazily), every nesting depth and list shape.

Vocabulary: an `Item` is `(rec, value)`: the `_dsl` bookkeeping record the code stores on the object
(`rec.full` = `repr`, `rec.my` = `get_field_name()`, `rec.parent`, `rec.level`, `rec.host`,
`rec.tls`) and the Python object itself; `rec.pos` is the object's identity (heap location).
`resolve root name` is Python's `eval(name, {'s': top})`; `namesObj/namesComp/namesSig root q`
say that the expression `q` evaluates to a NamedObject / Component / Signal.
-/
namespace PV.C14
open PV.Hier

/-- **The breadth-first queue walk of `__setattr_for_elaborate__` / `Signal.__getattr__` gives every
object in a nested list exactly its index path**: `(d, ix)` is produced iff `d` sits at
`v[suf…]` of some queue entry `(v, pre)` with `ix = pre ++ suf` (nothing skipped, nothing
mis-indexed, for every nesting shape). -/
theorem bfs_indices {α : Type} (q : List (SVal α × List Nat)) (d : Node α) (ix : List Nat) :
    (d, ix) ∈ bfs q ↔ ∃ v pre suf, (v, pre) ∈ q ∧ ix = pre ++ suf ∧ getPath v suf = some (.one d) :=
  mem_bfs q d ix

/-- **Evaluating the full name yields that very object**: `eval(repr(o)) is o`, and the name has the
form `s` followed by the keys of the object's heap location. -/
theorem resolve_name {root : Desc} {x : Item} (h : Reach root x) :
    resolve root x.1.full = some (x.1.pos, x.2) ∧ x.2.isObj = true ∧ x.1.full = .root :: x.1.pos := by
  have hi := reach_inv h
  refine ⟨?_, hi.obj, hi.full⟩
  simpa [run] using resolve_extend hi []

/-- **Full names are unique**: two objects of the hierarchy with the same full name are the same
object (same record, same Python value). -/
theorem name_injective {root : Desc} {x y : Item} (hx : Reach root x) (hy : Reach root y)
    (h : x.1.full = y.1.full) : x = y :=
  full_determines hx hy h

/-- **The bookkeeping of an object is a function of its heap location**: whenever and in whatever
order a lazily created field / slice signal comes into existence, it gets the same name, parent,
host, top-level signal (the model's form of "created once, cached in the parent's `__dict__`"). -/
theorem record_determined {root : Desc} {x y : Item} (hx : Reach root x) (hy : Reach root y)
    (h : x.1.pos = y.1.pos) : x = y := by
  apply full_determines hx hy
  rw [(reach_inv hx).full, (reach_inv hy).full, h]

/-- `q` is a proper prefix of `l` -/
def IsProperPrefix (q l : Name) : Prop := ∃ t r, l = q ++ t :: r

/-- **`get_parent_object()` is the object named by the longest proper prefix of the name that
evaluates to a NamedObject** (list prefixes such as `s.x[0]` of `s.x[0][1]` name Python lists). -/
theorem parent_longest_prefix {root : Desc} {x : Item} (h : Reach root x) (hx : x ≠ rootItem root) :
    ∃ p, Reach root p ∧ x.1.parent = some p.1.pos ∧ IsProperPrefix p.1.full x.1.full ∧
      resolve root p.1.full = some (p.1.pos, p.2) ∧
      ∀ q, IsProperPrefix q x.1.full → namesObj root q = true → q.length ≤ p.1.full.length := by
  rcases reach_cases h with rfl | ⟨p, hp, hs⟩
  · exact absurd rfl hx
  · obtain ⟨sfx, hf⟩ := step_facts hs
    have hpi := reach_inv hp
    refine ⟨p, hp, hf.parent, ?_, (resolve_name hp).1, ?_⟩
    · obtain ⟨t, r, rfl, -, -⟩ := hf.shape
      exact ⟨t, r, hf.full⟩
    · intro q hq hn
      have hmem : q ∈ objPrefixes root x.1.full := by
        simp only [objPrefixes, List.mem_filter]
        exact ⟨mem_properPrefixes.2 hq, hn⟩
      rw [objPrefixes_step hpi hf] at hmem
      rcases List.mem_append.1 hmem with hm | hm
      · simp only [objPrefixes, List.mem_filter] at hm
        exact Nat.le_of_lt (length_lt_of_mem_properPrefixes hm.1)
      · simp at hm; rw [hm]; exact Nat.le_refl _

/-- the top component has no parent and no object-valued proper prefix -/
theorem root_parent (root : Desc) : (rootItem root).1.parent = none ∧ objPrefixes root (rootItem root).1.full = [] :=
  ⟨rfl, objPrefixes_root root⟩

/-- **`get_field_name()` is consistent with the names**: for a non-slice object the full name is the
parent's full name followed by `.` and the field name (`name[i][j]…`); for a slice `x[lo:hi]` full
name and field name are the parent signal's followed by `[lo:hi]`, and the parent is not a slice. -/
theorem field_name {root : Desc} {x : Item} (h : Reach root x) (hx : x ≠ rootItem root) :
    ∃ p, Reach root p ∧ x.1.parent = some p.1.pos ∧
      ((x.1.slice = none ∧ x.1.full = p.1.full ++ x.1.my ∧ ∃ name ix, x.1.my = suffixOf name ix) ∨
       (∃ lo hi, x.1.slice = some (lo, hi) ∧ x.1.full = p.1.full ++ [.slice lo hi] ∧
          x.1.my = p.1.my ++ [.slice lo hi] ∧ p.1.slice = none)) := by
  rcases reach_cases h with rfl | ⟨p, hp, hs⟩
  · exact absurd rfl hx
  · obtain ⟨sfx, hf⟩ := step_facts hs
    exact ⟨p, hp, hf.parent, field_name_step hs (reach_inv hp).slice⟩

/-- **`_dsl.level` is the number of proper prefixes of the name that evaluate to a NamedObject**
(this is what the code computes: parent's level + 1, through interfaces as well); every component /
interface / method port has a level. -/
theorem level_counts_prefixes {root : Desc} {x : Item} (h : Reach root x) :
    (∀ k, x.1.level = some k → k = (objPrefixes root x.1.full).length) ∧
    (x.1.kind = .comp → x.1.level = some (objPrefixes root x.1.full).length) := by
  have hl := reach_level h
  refine ⟨hl.1, fun hc => ?_⟩
  obtain ⟨d, hd⟩ := node_of_kind_comp (reach_inv h).kind hc
  obtain ⟨k, hk⟩ := Option.isSome_iff_exists.1 (hl.2 d hd)
  rw [hk, hl.1 k hk]

/-- **`get_component_level()` is the number of component-valued proper prefixes**, for a component
all of whose enclosing objects are components (a component stored inside an interface would be
counted one level deeper by the code: that is the only case excluded). -/
theorem level_counts_components {root : Desc} {x : Item} (h : Reach root x) (hc : x.1.kind = .comp)
    (hcomp : ∀ q ∈ objPrefixes root x.1.full, namesComp root q = true) :
    x.1.level = some ((properPrefixes x.1.full).filter (namesComp root)).length := by
  rw [(level_counts_prefixes h).2 hc]
  congr 2
  simp only [objPrefixes] at hcomp ⊢
  apply List.filter_congr
  intro q hq
  cases hn : namesObj root q with
  | true => exact (hcomp q (by simp [List.mem_filter, hq, hn])).symm
  | false =>
    simp only [names] at hn ⊢
    cases hr : resolve root q with
    | none => rfl
    | some st =>
      simp only [hr] at hn ⊢
      cases hcc : st.2.isComp with
      | false => rfl
      | true => rw [isObj_of_isComp hcc] at hn; cases hn

/-- **`get_host_component()` is the deepest component-valued proper prefix** of the name of a
signal / interface / method port (for a component the walk stops at the component itself). -/
theorem host_deepest_component {root : Desc} (hroot : root.tag = .comp) {x : Item} (h : Reach root x) :
    (x.1.kind ≠ .comp →
      ((properPrefixes x.1.full).filter (namesComp root)).getLast? = some (.root :: x.1.host)) ∧
    (x.1.kind = .comp → x.1.host = x.1.pos) := by
  have hh := reach_host hroot h
  have hi := reach_inv h
  constructor
  · intro hk
    have : x.2.isComp = false := by
      cases hc : x.2.isComp
      · rfl
      · exact absurd ((isComp_iff_kind hi.kind).1 hc) hk
    simpa [compChain, this] using hh
  · intro hk
    have : x.2.isComp = true := (isComp_iff_kind hi.kind).2 hk
    simp only [compChain, this, if_true, List.getLast?_append, List.getLast?_singleton,
      Option.some_or, Option.some.injEq] at hh
    rw [hi.full] at hh
    simpa using hh.symm

/-- **`get_top_level_signal()` is the shortest prefix of the name (the name itself included) that
evaluates to a Signal** — the signal before the first field / slice token; non-signals have none. -/
theorem top_level_signal {root : Desc} (hroot : root.tag = .comp) {x : Item} (h : Reach root x) :
    (x.2.isSig = true → ∃ t, x.1.tls = some t ∧
      ((properPrefixes x.1.full ++ [x.1.full]).filter (namesSig root)).head? = some (.root :: t)) ∧
    (x.2.isSig = false → x.1.tls = none) := by
  have ht := reach_tls hroot h
  have hi := reach_inv h
  constructor
  · intro hs
    obtain ⟨t, hh, htl⟩ := ht.1 hs
    refine ⟨t, htl, ?_⟩
    simpa [sigChain, hs, List.filter_append, names_self hi] using hh
  · intro hs; exact (ht.2 hs).2

/-- **An int index on a signal is the one-bit slice**: `x[i]` and `x[i:i+1]` evaluate alike. -/
theorem int_index_is_slice {root : Desc} {x : Item} (h : Reach root x) (hs : x.2.isSig = true) (i : Nat) :
    resolve root (x.1.full ++ [.idx i]) = resolve root (x.1.full ++ [.slice i (i + 1)]) := by
  have hi := reach_inv h
  rw [resolve_extend hi, resolve_extend hi]
  obtain ⟨r, v⟩ := x
  cases v with
  | sig k ty sl => simp only [run, step_idx_eq_slice]
  | node d => simp [PyVal.isSig] at hs
  | lst xs => simp [PyVal.isSig] at hs
  | flst k xs => simp [PyVal.isSig] at hs

/-- **A slice of a slice is the re-based slice of the unsliced signal**: `(x[a:b])[c:d]` evaluates
to the object `x[a+c:a+d]`, whose parent is `x` and whose name is `repr(x) + "[a+c:a+d]"`. -/
theorem slice_of_slice {root : Desc} {x : Item} (h : Reach root x) {k : SigKind} {n : Nat}
    {s : List (String × SVal TTag)} (hv : x.2 = .sig k (.mk (.bits n) s) none)
    {a b c d : Nat} (hab : a < b) (hbn : b ≤ n) (hcd : c < d) (hd : d ≤ b - a) :
    ∃ y, sliceItem x (a + c) (a + d) = some y ∧ Reach root y ∧
      resolve root (x.1.full ++ [.slice a b, .slice c d]) = some (y.1.pos, y.2) ∧
      y.1.full = x.1.full ++ [.slice (a + c) (a + d)] ∧ y.1.parent = some x.1.pos := by
  have hi := reach_inv h
  have h1 : a + c < a + d ∧ a + d ≤ n := by omega
  obtain ⟨r, v⟩ := x
  simp only at hv; subst hv
  have hy : sliceItem (r, PyVal.sig k (.mk (.bits n) s) none) (a + c) (a + d) =
      some (sliceRec r (a + c) (a + d), .sig k (.mk (.bits (a + d - (a + c))) []) (some (a + c, a + d))) := by
    simp [sliceItem, h1]
  refine ⟨_, hy, .slice h hy, ?_, rfl, rfl⟩
  rw [resolve_extend hi, run_slice_slice _ _ _ _ hab hbn hcd hd]
  simp [run, step, sliceStep, h1, sliceRec]

/-- **The record of a slice**: created under an unsliced Bits signal for `lo < hi ≤ nbits` only; its
full / field name append `[lo:hi]`, host and top-level signal are inherited, the class is the
parent's, and evaluating the name gives the slice. -/
theorem slice_record {root : Desc} {x y : Item} (h : Reach root x) {lo hi : Nat}
    (hy : sliceItem x lo hi = some y) :
    Reach root y ∧ lo < hi ∧ x.1.slice = none ∧ y.1.slice = some (lo, hi) ∧
      y.1.full = x.1.full ++ [.slice lo hi] ∧ y.1.my = x.1.my ++ [.slice lo hi] ∧
      y.1.host = x.1.host ∧ y.1.tls = x.1.tls ∧ y.1.kind = x.1.kind ∧
      resolve root y.1.full = some (y.1.pos, y.2) := by
  obtain ⟨k, n, s, hv, h1, h2, rfl⟩ := sliceItem_eq_some hy
  have hr : Reach root _ := .slice h hy
  exact ⟨hr, h1, (reach_inv h).slice _ _ _ hv, rfl, rfl, rfl, rfl, rfl, rfl, (resolve_name hr).1⟩

/-- **`Reach` misses nothing**: every NamedObject that *any* Python expression over public attribute
names, list indices, int indices and (nested) slices evaluates to is an object of the hierarchy, so
the theorems above speak about every object the heap can hold. -/
theorem resolve_complete {root : Desc} {name : Name} {pos : Pos} {v : PyVal}
    (h : resolve root name = some (pos, v)) (hv : v.isObj = true)
    (hpub : ∀ a, Tok.attr a ∈ name → isPublic a = true) :
    ∃ x, Reach root x ∧ x.1.pos = pos ∧ x.2 = v := by
  cases name with
  | nil => simp [resolve] at h
  | cons t tl =>
    cases t with
    | root =>
      simp only [resolve] at h
      have hg := good_run (Good.obj (x := rootItem root) .root) h
        (fun a ha => hpub a (List.mem_cons_of_mem _ ha))
      generalize hst : (pos, v) = st at hg
      cases hg with
      | obj hx => cases hst; exact ⟨_, hx, rfl, rfl⟩
      | lst => cases hst; simp [PyVal.isObj] at hv
      | flst => cases hst; simp [PyVal.isObj] at hv
    | attr a => simp [resolve] at h
    | idx i => simp [resolve] at h
    | slice lo hi => simp [resolve] at h

/-- **Everything the executable elaboration (the driver of the correspondence check) returns is an
object of the hierarchy** in the sense of `Reach`, so all theorems above apply to it. -/
theorem elab_sound {root : Desc} {accs : List (List Tok)} {items : List Item}
    (h : elabAll root accs = .ok items) : ∀ x ∈ items, Reach root x := by
  simp only [elabAll] at h
  split at h
  · cases h
  · rename_i st hst
    split at h
    · cases h
    · split at h
      · rename_i all hall
        cases h
        exact accessAll_sound _ _ _ (staticItems_sound hst) hall
      · cases h

/-- **Names depend only on the construction description**: elaborating the same description under
two different histories of lazy accesses gives every object (heap location) the same record — same
full name, field name, parent, host — and both contain all statically constructed objects, whose
records do not depend on the accesses at all. -/
theorem rebuild_same_names {root : Desc} {a₁ a₂ : List (List Tok)} {i₁ i₂ : List Item}
    (h₁ : elabAll root a₁ = .ok i₁) (h₂ : elabAll root a₂ = .ok i₂) :
    (∀ x ∈ i₁, ∀ y ∈ i₂, x.1.pos = y.1.pos → x = y) ∧
    (∃ st, staticItems root = some st ∧ ∀ x ∈ st, x ∈ i₁ ∧ x ∈ i₂) ∧
    (a₁ = a₂ → i₁ = i₂) := by
  refine ⟨fun x hx y hy hp => record_determined (elab_sound h₁ x hx) (elab_sound h₂ y hy) hp, ?_, ?_⟩
  · simp only [elabAll] at h₁ h₂
    cases hst : staticItems root with
    | none => simp [hst] at h₁
    | some st =>
      refine ⟨st, rfl, fun x hx => ?_⟩
      simp only [hst] at h₁ h₂
      cases hd : st.any dupSlots with
      | true => simp [hd] at h₁
      | false =>
        simp only [hd] at h₁ h₂
        cases hall1 : accessAll root st a₁ with
        | none => simp [hall1] at h₁
        | some all1 =>
          cases hall2 : accessAll root st a₂ with
          | none => simp [hall2] at h₂
          | some all2 =>
            simp only [hall1, hall2] at h₁ h₂
            cases h₁; cases h₂
            exact ⟨accessAll_mono _ _ _ hall1 x hx, accessAll_mono _ _ _ hall2 x hx⟩
  · rintro rfl
    rw [h₁] at h₂; cases h₂; rfl

/-- **`render` is injective on well-formed names** (`s` followed by attribute / index / slice tokens
whose attribute names consist of letters, digits and underscores): the string determines the tokens. -/
theorem render_injective {n₁ n₂ : Name} (h1 : WFName n₁) (h2 : WFName n₂) (h : render n₁ = render n₂) :
    n₁ = n₂ :=
  render_injective_wf h1 h2 h

/-- **Distinct objects have distinct `repr` strings**, provided the slot / field names occurring in
the two names are identifier-like. -/
theorem repr_unique {root : Desc} {x y : Item} (hx : Reach root x) (hy : Reach root y)
    (ix : ∀ a, Tok.attr a ∈ x.1.full → IdentLike a) (iy : ∀ a, Tok.attr a ∈ y.1.full → IdentLike a)
    (h : render x.1.full = render y.1.full) : x = y := by
  have wf : ∀ {z : Item}, Reach root z → (∀ a, Tok.attr a ∈ z.1.full → IdentLike a) → WFName z.1.full := by
    intro z hz iz
    have hi := reach_inv hz
    refine ⟨z.1.pos, hi.full, fun t ht => ⟨hi.noroot t ht, ?_⟩⟩
    rintro a rfl
    exact iz a (by rw [hi.full]; exact List.mem_cons_of_mem _ ht)
  exact name_injective hx hy (render_injective (wf hx ix) (wf hy iy) h)

/-! ## non-vacuity: a concrete hierarchy on which the hypotheses hold and the objects exist -/

/-- `s.w = [[Ifc()], Sub()]`, `s.x = InPort(struct{a:[Bits8,Bits8]})`, `s.y = Wire(Bits16)` -/
def exRoot : Desc :=
  .mk .comp [
    ("y", .one (.mk (.sig .wire (.mk (.bits 16) [])) [])),
    ("x", .one (.mk (.sig .inport (.mk .struct [("a", .many [.one (.mk (.bits 8) []), .one (.mk (.bits 8) [])])])) [])),
    ("w", .many [.many [.one (.mk .ifc [("v", .one (.mk (.sig .outport (.mk (.bits 2) [])) []))])], .one (.mk .comp [])])]

def exIfc : Desc := .mk .ifc [("v", .one (.mk (.sig .outport (.mk (.bits 2) [])) []))]

/-- `s.w[0][0].v` is an object of the hierarchy: level 2, host `s`, its own top-level signal, parent
`s.w[0][0]`; so the theorems above are not vacuous -/
example : ∃ x, Reach exRoot x ∧ x.1.full = [.root, .attr "w", .idx 0, .idx 0, .attr "v"] ∧ x.1.level = some 2 ∧
    x.1.host = [] ∧ x.1.tls = some x.1.pos ∧ x.1.parent = some [.attr "w", .idx 0, .idx 0] := by
  have h0 : Reach exRoot (rootItem exRoot) := .root
  have h1 : Reach exRoot (childRec (rootRec exRoot) "w" [0, 0] exIfc, toVal (.one exIfc)) :=
    .slot h0 (slotItems_intro (d := exRoot) (name := "w") rfl (by simp [slotsOf, exRoot, Node.tag, Node.slots, List.lookup]; rfl)
      (by decide) rfl)
  have h2 := Reach.slot h1 (slotItems_intro (d := exIfc) (name := "v") (ix := [])
    (c := .mk (.sig .outport (.mk (.bits 2) [])) []) rfl
    (by simp [slotsOf, exIfc, Node.tag, Node.slots]) (by decide) rfl)
  exact ⟨_, h2, by decide, by decide, by decide, by decide, by decide⟩

/-- the lazily created `s.x.a[1][2:5]` exists, with parent `s.x.a[1]` and top-level signal `s.x` -/
example : ∃ x, Reach exRoot x ∧ render x.1.full = "s.x.a[1][2:5]" ∧
    x.1.parent = some [.attr "x", .attr "a", .idx 1] ∧ x.1.tls = some [.attr "x"] := by
  have h0 : Reach exRoot (rootItem exRoot) := .root
  have h1 := Reach.slot h0 (slotItems_intro (d := exRoot) (name := "x") (ix := [])
    (c := .mk (.sig .inport (.mk .struct [("a", .many [.one (.mk (.bits 8) []), .one (.mk (.bits 8) [])])])) []) rfl
    (by simp [slotsOf, exRoot, Node.tag, Node.slots, List.lookup]) (by decide) rfl)
  have h2 := Reach.field (a := "a") h1 (fieldItems_intro (ix := [1]) (t := .mk (.bits 8) []) rfl
    (by simp [List.lookup]; rfl) rfl)
  have h3 := Reach.slice (lo := 2) (hi := 5) h2 (by simp [sliceItem]; rfl)
  exact ⟨_, h3, by decide, by decide, by decide⟩

/-- the hypotheses of `slice_of_slice` are satisfiable: `s.y[2:10][1:4]` is `s.y[3:6]` -/
example : resolve exRoot [.root, .attr "y", .slice 2 10, .slice 1 4] = resolve exRoot [.root, .attr "y", .slice 3 6] := by
  rfl

example : WFName [.root, .attr "in_", .idx 10, .attr "msg", .slice 0 16] :=
  ⟨_, rfl, by
    intro t ht
    simp only [List.mem_cons, List.not_mem_nil, or_false] at ht
    rcases ht with rfl | rfl | rfl | rfl <;> refine ⟨by simp, ?_⟩ <;> intro a ha <;> cases ha <;>
      intro c hc <;> simp at hc <;> rcases hc with rfl | rfl | rfl <;> decide⟩

end PV.C14
