/-! # C14 — property theorems (stub: not built yet) -/
namespace PV.C14
end PV.C14
