import PymtlVerif.Model.LoopIR
import PymtlVerif.Props.C11
/-!
# C11 (loop structure) — the generated SCC super-block, as parsed from the real wrapper, *is* `Rtl.iterate`

Model: `Model/LoopIR.lean` (`IR`, `IR.run`, `IR.ok`, `IR.watch`, `IR.fuel`).  The harness parses every generated
`wrapped_SCC_<k>` of DynamicSchedulePass, Mamba2020Pass and OpenLoopCLPass into an `IR` (Python `ast`) and the driver
`pv_loopir` evaluates `IR.ok` on it and runs `IR.run`.

* `run_eq_iterate`: for every IR of the normal class, every group, every start state and every fuel above the bound the
  super-block is exactly `iterate ir.fuel ir.watch` (`none` = UpblkCyclicError); hence `stable_is_fixed_point`,
  `false_loop_eq_acyclic`, `none_means_unstable` and `whole_schedule` of `Props/C11.lean` transfer to what the wrapper
  text says (`ok_*` below), for any fuel;
* shapes outside the class, each with a counter-example: conjunction of the `!=` tests (`allChanged_returns_unstable`),
  inverted exit (`breakOnChange_returns_unstable`), no bound test (`unbounded_never_raises`, `unbounded_hangs`).
-/
namespace PV.C11w
open PV.Rtl PV.LoopIR

/-! ## generic part (any state type) -/
section generic
variable {σ : Type} (same : Rng → σ → σ → Bool)

/-- the stability test of `iterate` over a watch list -/
def stableG (watch : List Rng) (s s' : σ) : Bool := watch.all (fun r => same r s s')

theorem stableG_append (a b : List Rng) (s s' : σ) :
    stableG same (a ++ b) s s' = (stableG same a s s' && stableG same b s s') := by
  simp [stableG, List.all_append]

def ofOpt : Option σ → Res σ
  | some s => .ret s
  | none => .raised

theorem lits_any_changed (vars : List Rng) (s s' : σ) (lits : List (Nat × Bool))
    (hne : ∀ l ∈ lits, l.2 = false) (hidx : ∀ l ∈ lits, l.1 < vars.length) :
    lits.any (litVal same vars s s') =
      !(((lits.map (·.1)).filterMap (fun j => vars[j]?)).all (fun r => same r s s')) := by
  induction lits with
  | nil => simp
  | cons l ls ih =>
    have h1 := hne l (by simp)
    have h2 := hidx l (by simp)
    have ih' := ih (fun l hl => hne l (by simp [hl])) (fun l hl => hidx l (by simp [hl]))
    have h3 : vars[l.1]? = some vars[l.1] := List.getElem?_eq_getElem h2
    simp only [List.any_cons, List.map_cons, ih', List.filterMap_cons, h3, List.all_cons, Bool.not_and]
    simp [litVal, h3, h1]

theorem lits_all_same (vars : List Rng) (s s' : σ) (lits : List (Nat × Bool))
    (heq : ∀ l ∈ lits, l.2 = true) (hidx : ∀ l ∈ lits, l.1 < vars.length) :
    lits.all (litVal same vars s s') =
      ((lits.map (·.1)).filterMap (fun j => vars[j]?)).all (fun r => same r s s') := by
  induction lits with
  | nil => simp
  | cons l ls ih =>
    have h1 := heq l (by simp)
    have h2 := hidx l (by simp)
    have ih' := ih (fun l hl => heq l (by simp [hl])) (fun l hl => hidx l (by simp [hl]))
    have h3 : vars[l.1]? = some vars[l.1] := List.getElem?_eq_getElem h2
    simp only [List.all_cons, List.map_cons, ih', List.filterMap_cons, h3]
    simp [litVal, h3, h1]

/-- a test of the first normal shape fires exactly when a compared variable changed -/
theorem changedCont_holds (vars : List Rng) (s s' : σ) (t : Test) (ht : t.isChangedCont = true)
    (hidx : ∀ l ∈ t.lits, l.1 < vars.length) :
    t.holds same vars s s' = !(stableG same ((t.lits.map (·.1)).filterMap (fun j => vars[j]?)) s s') := by
  unfold Test.isChangedCont at ht
  simp only [Bool.and_eq_true, List.all_eq_true, Bool.not_eq_true', Bool.or_eq_true, beq_iff_eq] at ht
  obtain ⟨⟨_, hne⟩, hj⟩ := ht
  unfold stableG
  rw [← lits_any_changed same vars s s' t.lits hne hidx]
  unfold Test.holds
  rcases hj with hj | hj
  · simp [hj]
  · cases hl : t.lits with
    | nil => simp [hl] at hj
    | cons l ls =>
      cases ls with
      | nil => simp
      | cons _ _ => simp [hl] at hj

/-- a test of the second normal shape fires exactly when every compared variable is unchanged -/
theorem sameBrk_holds (vars : List Rng) (s s' : σ) (t : Test) (ht : t.isSameBrk = true)
    (hidx : ∀ l ∈ t.lits, l.1 < vars.length) :
    t.holds same vars s s' = stableG same ((t.lits.map (·.1)).filterMap (fun j => vars[j]?)) s s' := by
  unfold Test.isSameBrk at ht
  simp only [Bool.and_eq_true, List.all_eq_true, Bool.or_eq_true, beq_iff_eq] at ht
  obtain ⟨⟨_, heq⟩, hj⟩ := ht
  unfold stableG
  rw [← lits_all_same same vars s s' t.lits heq hidx]
  unfold Test.holds
  rcases hj with hj | hj
  · simp [hj]
  · cases hl : t.lits with
    | nil => simp [hl] at hj
    | cons l ls =>
      cases ls with
      | nil => simp
      | cons _ _ => simp [hl] at hj

/-- the statements after the sweep, first shape: `continue` iff a compared variable changed, else `break` -/
theorem runPost_formD (ir : IR) (N : Nat) (s s' : σ) (hfall : ir.fall = .brk) (ps : List Post)
    (hps : ∀ p ∈ ps, ∃ t, p = .test t ∧ t.isChangedCont = true)
    (hidx : ∀ j ∈ ps.flatMap Post.idx, j < ir.vars.length) :
    runPost same ir N s s' ps =
      if stableG same ((ps.flatMap Post.idx).filterMap (fun j => ir.vars[j]?)) s s' then .brk else .cont := by
  induction ps with
  | nil => simp [runPost, hfall, stableG, Exit.out]
  | cons p ps ih =>
    obtain ⟨t, rfl, ht⟩ := hps p (by simp)
    have hidx1 : ∀ l ∈ t.lits, l.1 < ir.vars.length := by
      intro l hl
      apply hidx
      simp only [List.flatMap_cons, List.mem_append, Post.idx, List.mem_map]
      exact Or.inl ⟨l, hl, rfl⟩
    have ih' := ih (fun p hp => hps p (by simp [hp]))
      (fun j hj => hidx j (by simp only [List.flatMap_cons, List.mem_append]; exact Or.inr hj))
    have hact : t.act = .cont := by
      unfold Test.isChangedCont at ht
      simp only [Bool.and_eq_true, beq_iff_eq] at ht
      exact ht.1.1
    simp only [runPost, changedCont_holds same ir.vars s s' t ht hidx1, ih', hact, Exit.out]
    have happ : (List.flatMap Post.idx (Post.test t :: ps)).filterMap (fun j => ir.vars[j]?) =
        (t.lits.map (·.1)).filterMap (fun j => ir.vars[j]?) ++ (ps.flatMap Post.idx).filterMap (fun j => ir.vars[j]?) := by
      simp [Post.idx, List.filterMap_append]
    rw [happ, stableG_append]
    cases hA : stableG same ((t.lits.map (·.1)).filterMap (fun j => ir.vars[j]?)) s s' <;> simp

/-- **the loop of DynamicSchedulePass / Mamba2020Pass is `iterate`** (generic form, counter at `N`) -/
theorem runG_formD (sweep : σ → σ) (ir : IR) (b : Nat) (hpre : ir.pre = some b) (hfall : ir.fall = .brk)
    (hpost : ∀ p ∈ ir.post, ∃ t, p = .test t ∧ t.isChangedCont = true)
    (hidx : ∀ j ∈ ir.idx, j < ir.vars.length) :
    ∀ f N s, N ≤ b → b - N < f →
      runG same sweep ir f N s = ofOpt (iterateG sweep (stableG same ir.watch) (b - N) s) := by
  intro f
  induction f with
  | zero => intro N s _ h; omega
  | succ f ih =>
    intro N s hN hf
    unfold runG
    simp only [IR.preRaises, hpre, decide_eq_true_eq]
    by_cases hb : N + 1 > b
    · have : b - N = 0 := by omega
      simp [hb, this, iterateG, ofOpt]
    · have e : b - N = (b - (N + 1)) + 1 := by omega
      rw [if_neg hb, e, iterateG, runPost_formD same ir (N + 1) s (sweep s) hfall ir.post hpost hidx]
      change (match (if stableG same ir.watch s (sweep s) = true then Out.brk else Out.cont) with
        | .brk => Res.ret (sweep s) | .raise => Res.raised | .cont => runG same sweep ir f (N + 1) (sweep s)) = _
      by_cases hst : stableG same ir.watch s (sweep s) = true
      · simp [hst, ofOpt]
      · simp only [hst, Bool.false_eq_true, if_false]
        exact ih (N + 1) (sweep s) (by omega) (by omega)

/-- **the loop of OpenLoopCLPass is `iterate` with one more sweep** (generic form, counter at `N`) -/
theorem runG_formO (sweep : σ → σ) (ir : IR) (b : Nat) (t : Test) (hpre : ir.pre = none) (hfall : ir.fall = .cont)
    (hpost : ir.post = [.test t, .raiseIf b]) (ht : t.isSameBrk = true)
    (hidx : ∀ j ∈ ir.idx, j < ir.vars.length) :
    ∀ f N s, N ≤ b → b - N < f →
      runG same sweep ir f N s = ofOpt (iterateG sweep (stableG same ir.watch) (b + 1 - N) s) := by
  have hw : ir.watch = (t.lits.map (·.1)).filterMap (fun j => ir.vars[j]?) := by
    simp [IR.watch, IR.idx, hpost, Post.idx]
  have hidx1 : ∀ l ∈ t.lits, l.1 < ir.vars.length := by
    intro l hl
    apply hidx
    simp only [IR.idx, hpost, List.flatMap_cons, Post.idx, List.mem_append, List.mem_map]
    exact Or.inl ⟨l, hl, rfl⟩
  have hact : t.act = .brk := by
    unfold Test.isSameBrk at ht
    simp only [Bool.and_eq_true, beq_iff_eq] at ht
    exact ht.1.1
  intro f
  induction f with
  | zero => intro N s _ h; omega
  | succ f ih =>
    intro N s hN hf
    unfold runG
    have e : b + 1 - N = (b - N) + 1 := by omega
    simp only [IR.preRaises, hpre, hpost, runPost, sameBrk_holds same ir.vars s (sweep s) t ht hidx1, ← hw, hact, hfall, Exit.out]
    rw [e, iterateG]
    by_cases hst : stableG same ir.watch s (sweep s) = true
    · simp [hst, ofOpt]
    · simp only [hst, Bool.false_eq_true, if_false]
      by_cases hb : N + 1 > b
      · have : b - N = 0 := by omega
        simp [hb, this, iterateG, ofOpt]
      · simp only [hb, if_false]
        have e2 : b - N = b + 1 - (N + 1) := by omega
        rw [e2]
        exact ih (N + 1) (sweep s) (by omega) (by omega)

/-- more fuel does not change a result that is not `timeout` -/
theorem runG_mono (sweep : σ → σ) (ir : IR) (f k N : Nat) (s : σ) (r : Res σ)
    (h : runG same sweep ir f N s = r) (hr : r ≠ .timeout) : runG same sweep ir (f + k) N s = r := by
  induction f generalizing N s with
  | zero => simp [runG] at h; exact absurd h.symm hr
  | succ f ih =>
    have e : f + 1 + k = (f + k) + 1 := by omega
    rw [e]
    unfold runG at h ⊢
    cases hc : ir.preRaises (N + 1) with
    | true => simpa [hc] using h
    | false =>
      simp only [hc, Bool.false_eq_true, if_false] at h ⊢
      cases ho : runPost same ir (N + 1) s (sweep s) ir.post with
      | brk => simpa [ho] using h
      | raise => simpa [ho] using h
      | cont =>
        simp only [ho] at h ⊢
        exact ih _ _ h

end generic

/-! ## on the bit-level states of `Model/Rtl.lean` -/

/-- `Rtl.iterate` is the generic loop on `St` -/
theorem iterate_eq_iterateG (fuel : Nat) (watch : List Rng) (scc : List Blk) (s : St) :
    iterate fuel watch scc s = iterateG (runBlocks scc) (stableG sameRng watch) fuel s := by
  induction fuel generalizing s with
  | zero => rfl
  | succ f ih =>
    simp only [iterate, iterateG, ih]
    rfl

def resOfOpt : Option St → Res St
  | some s => .ret s
  | none => .raised

/-- **normal class ⇒ the wrapper is `iterate`**: for every IR accepted by `IR.ok`, every group, state and fuel above the bound,
the super-block returns what `iterate ir.fuel ir.watch` returns, and raises UpblkCyclicError where `iterate` gives `none` -/
theorem run_eq_iterate (ir : IR) (hok : ir.ok = true) (scc : List Blk) (s : St) (fuel : Nat) (hf : ir.fuel < fuel) :
    ir.run scc fuel s = resOfOpt (iterate ir.fuel ir.watch scc s) := by
  unfold IR.ok at hok
  simp only [Bool.and_eq_true, List.all_eq_true, decide_eq_true_eq, Bool.or_eq_true] at hok
  obtain ⟨hidx, hform⟩ := hok
  rw [iterate_eq_iterateG]
  unfold IR.run
  rcases hform with hD | hO
  · unfold IR.formD at hD
    simp only [Bool.and_eq_true, List.all_eq_true, beq_iff_eq] at hD
    obtain ⟨⟨hpre, hfall⟩, hpost⟩ := hD
    obtain ⟨b, hb⟩ := Option.isSome_iff_exists.mp hpre
    have hpost' : ∀ p ∈ ir.post, ∃ t, p = .test t ∧ t.isChangedCont = true := by
      intro p hp
      have := hpost p hp
      cases p with
      | test t => exact ⟨t, rfl, this⟩
      | raiseIf _ => simp at this
    have hfu : ir.fuel = b := by simp [IR.fuel, hb]
    rw [hfu] at hf ⊢
    have := runG_formD sameRng (runBlocks scc) ir b hb hfall hpost' hidx fuel 0 s (by omega) (by omega)
    rw [this]
    cases iterateG (runBlocks scc) (stableG sameRng ir.watch) (b - 0) s <;> rfl
  · unfold IR.formO at hO
    simp only [Bool.and_eq_true, beq_iff_eq] at hO
    obtain ⟨⟨hpre, hfall⟩, hpost⟩ := hO
    have hpre' : ir.pre = none := by simpa using hpre
    split at hpost
    · next t b hp =>
      have hfu : ir.fuel = b + 1 := by simp [IR.fuel, hpre', hp]
      rw [hfu] at hf ⊢
      have := runG_formO sameRng (runBlocks scc) ir b t hpre' hfall hp hpost hidx fuel 0 s (by omega) (by omega)
      rw [this]
      cases iterateG (runBlocks scc) (stableG sameRng ir.watch) (b + 1 - 0) s <;> rfl
    · simp at hpost

/-- a returned value is a value `iterate` returns, whatever the fuel -/
theorem ok_ret_iterate (ir : IR) (hok : ir.ok = true) (scc : List Blk) (s s' : St) (fuel : Nat)
    (h : ir.run scc fuel s = .ret s') : iterate ir.fuel ir.watch scc s = some s' := by
  have hm := runG_mono sameRng (runBlocks scc) ir fuel (ir.fuel + 1) 0 s (.ret s') h (by simp)
  have he := run_eq_iterate ir hok scc s (fuel + (ir.fuel + 1)) (by omega)
  unfold IR.run at he
  rw [hm] at he
  cases hi : iterate ir.fuel ir.watch scc s with
  | none => simp [hi, resOfOpt] at he
  | some t => simp only [hi, resOfOpt, Res.ret.injEq] at he; rw [he]

/-- **returns ⇒ fixed point**, for the loop the wrapper text describes -/
theorem ok_stable_is_fixed_point (ir : IR) (hok : ir.ok = true) (scc : List Blk) (s s' : St) (fuel : Nat)
    (hwf : PV.C01.wfBlocks scc = true) (hw : watchOKB scc ir.watch = true)
    (h : ir.run scc fuel s = .ret s') : ∀ b ∈ scc, b.run s' = s' :=
  PV.C11.stable_is_fixed_point ir.fuel ir.watch scc s s' hwf hw (ok_ret_iterate ir hok scc s s' fuel h)

/-- **false loop = acyclic design**, for the loop the wrapper text describes -/
theorem ok_false_loop_eq_acyclic (ir : IR) (hok : ir.ok = true) (scc fine : List Blk) (s s' : St) (fuel : Nat)
    (hwf : PV.C01.wfBlocks scc = true) (hw : watchOKB scc ir.watch = true)
    (h : ir.run scc fuel s = .ret s')
    (hfwf : PV.C01.wfBlocks fine = true) (hftopo : topoB fine = true)
    (hsplit : ∀ t, (∀ b ∈ scc, b.run t = t) → ∀ c ∈ fine, c.run t = t)
    (hsame : ∀ v, (∃ c ∈ fine, inRngs c.writes v) ↔ (∃ b ∈ scc, inRngs b.writes v)) :
    s' = runBlocks fine s :=
  PV.C11.false_loop_eq_acyclic ir.fuel ir.watch scc fine s s' hwf hw (ok_ret_iterate ir hok scc s s' fuel h)
    hfwf hftopo hsplit hsame

/-- **never hangs, and the error means what it says**: above the bound the result is never `timeout`, and `raised` means that
none of the `ir.fuel` sweeps left the compared variables unchanged -/
theorem ok_never_hangs (ir : IR) (hok : ir.ok = true) (scc : List Blk) (s : St) (fuel : Nat) (hf : ir.fuel < fuel) :
    ir.run scc fuel s ≠ .timeout ∧
    (ir.run scc fuel s = .raised →
      ∀ k, k < ir.fuel → PV.C11.stableB ir.watch (PV.C11.sweeps scc k s) (runBlocks scc (PV.C11.sweeps scc k s)) = false) := by
  rw [run_eq_iterate ir hok scc s fuel hf]
  cases hi : iterate ir.fuel ir.watch scc s with
  | some t => simp [resOfOpt]
  | none =>
    refine ⟨by simp [resOfOpt], fun _ => ?_⟩
    exact PV.C11.none_means_unstable ir.fuel ir.watch scc s hi

/-! ## whole schedules whose SCC entries carry their own loop -/

theorem iterate_mono (f k : Nat) (watch : List Rng) (scc : List Blk) (s s' : St)
    (h : iterate f watch scc s = some s') : iterate (f + k) watch scc s = some s' := by
  induction f generalizing s with
  | zero => simp [iterate] at h
  | succ f ih =>
    have e : f + 1 + k = (f + k) + 1 := by omega
    rw [e]
    simp only [iterate] at h ⊢
    split
    · next hst => simpa [hst] using h
    · next hst =>
      simp only [hst] at h
      exact ih _ h

theorem runEntries_mono (f k : Nat) (es : List Entry) (s t : St)
    (h : runEntries f es s = some t) : runEntries (f + k) es s = some t := by
  induction es generalizing s with
  | nil => simpa [runEntries] using h
  | cons e es ih =>
    cases e with
    | blk b => simp only [runEntries] at h ⊢; exact ih _ h
    | scc bs w =>
      simp only [runEntries] at h ⊢
      cases hi : iterate f w bs s with
      | none => simp [hi] at h
      | some s1 =>
        simp only [hi] at h
        rw [iterate_mono f k w bs s s1 hi]
        exact ih _ h

/-- a schedule whose wrappers are all in the normal class runs as `runEntries` on the effective watch lists -/
theorem ok_runEntries (fuel : Nat) (es : List EntryIR) (hok : entriesOK es = true) (s t : St)
    (h : runEntriesIR fuel es s = .ret t) :
    runEntries (entriesFuel es) (es.map EntryIR.toEntry) s = some t := by
  induction es generalizing s with
  | nil => simp only [runEntriesIR, Res.ret.injEq] at h; simp [runEntries, h]
  | cons e es ih =>
    unfold entriesOK at hok
    simp only [List.all_cons, Bool.and_eq_true] at hok
    obtain ⟨hok1, hok2⟩ := hok
    cases e with
    | blk b =>
      simp only [runEntriesIR] at h
      simp only [List.map_cons, EntryIR.toEntry, runEntries, entriesFuel]
      exact ih (by unfold entriesOK; exact hok2) _ h
    | scc bs ir =>
      simp only [runEntriesIR] at h
      simp only [List.map_cons, EntryIR.toEntry, runEntries, entriesFuel]
      cases hr : ir.run bs fuel s with
      | raised => simp [hr] at h
      | timeout => simp [hr] at h
      | ret s1 =>
        simp only [hr] at h
        have hi := ok_ret_iterate ir hok1 bs s s1 fuel hr
        have hrest := ih (by unfold entriesOK; exact hok2) _ h
        have e1 : max ir.fuel (entriesFuel es) = ir.fuel + (max ir.fuel (entriesFuel es) - ir.fuel) := by omega
        have e2 : max ir.fuel (entriesFuel es) = entriesFuel es + (max ir.fuel (entriesFuel es) - entriesFuel es) := by omega
        rw [e1, iterate_mono ir.fuel _ ir.watch bs s s1 hi, ← e1, e2]
        exact runEntries_mono _ _ _ _ _ hrest

/-- **on return no update block of the design, run again, changes any signal**, for a schedule of single blocks and SCC
groups each iterated by the loop its own wrapper text describes -/
theorem ok_whole_schedule (fuel : Nat) (es : List EntryIR) (s t : St) (hok : entriesOK es = true)
    (hwf : PV.C01.wfBlocks (allBlocks (es.map EntryIR.toEntry)) = true)
    (htopo : entriesTopoB (es.map EntryIR.toEntry) = true) (hw : watchesOKB (es.map EntryIR.toEntry) = true)
    (h : runEntriesIR fuel es s = .ret t) : ∀ b ∈ allBlocks (es.map EntryIR.toEntry), b.run t = t :=
  PV.C11.whole_schedule (entriesFuel es) (es.map EntryIR.toEntry) s t hwf htopo hw (ok_runEntries fuel es hok s t h)

/-! ## shapes outside the normal class -/

-- a false loop (block graph cexA <-> cexB, bit-level acyclic):  A: x1 @= i ; x2 @= y1      B: y1 @= x1
-- signals: 0 = i, 1 = x1, 2 = x2, 3 = y1 (one bit each); the variables carrying the cycle are x1 and y1
def cexA : Blk := ⟨0, [⟨⟨1, 0, 1⟩, .rd ⟨0, 0, 1⟩⟩, ⟨⟨2, 0, 1⟩, .rd ⟨3, 0, 1⟩⟩]⟩
def cexB : Blk := ⟨1, [⟨⟨3, 0, 1⟩, .rd ⟨1, 0, 1⟩⟩]⟩
/-- the input `i` has just become 1, everything else is 0 -/
def cexS : St := fun v => v.1 == 0 && v.2 == 0

/-- the loop of seeded change C11-11: bound first, `if x1 != t0 and y1 != t1: continue`, `break` -/
def allChangedIR (b : Nat) : IR :=
  ⟨[⟨1, 0, 1⟩, ⟨3, 0, 1⟩], some b, [.test ⟨[(0, false), (1, false)], true, .cont⟩], .brk⟩

/-- **conjunction of the `!=` tests**: outside the normal class, and on a well-formed false loop whose carrying variables
are all compared it returns a state that is not a fixed point (x1 moved, y1 did not: the group is left; y1 is stale) -/
theorem allChanged_returns_unstable (b : Nat) (hb : 0 < b) :
    (allChangedIR b).ok = false ∧ PV.C01.wfBlocks [cexB, cexA] = true ∧
    watchOKB [cexB, cexA] (allChangedIR b).watch = true ∧
    ∃ s', (allChangedIR b).run [cexB, cexA] (b + 1) cexS = .ret s' ∧ cexB.run s' ≠ s' := by
  refine ⟨rfl, by decide, rfl, runBlocks [cexB, cexA] cexS, ?_, ?_⟩
  · unfold IR.run runG
    have h1 : (allChangedIR b).preRaises (0 + 1) = false := by
      simp only [IR.preRaises, allChangedIR, decide_eq_false_iff_not]; omega
    have h2 : runPost sameRng (allChangedIR b) (0 + 1) cexS (runBlocks [cexB, cexA] cexS) (allChangedIR b).post = .brk := by
      rfl
    simp [h1, h2]
  · intro h
    have := congrFun h (3, 0)
    revert this
    decide

/-- the exits swapped: `if x1 != t0 or y1 != t1: break`, otherwise go round again -/
def breakOnChangeIR (b : Nat) : IR :=
  ⟨[⟨1, 0, 1⟩, ⟨3, 0, 1⟩], some b, [.test ⟨[(0, false), (1, false)], false, .brk⟩], .cont⟩

/-- **inverted exit**: outside the normal class; leaves the group exactly when something is still moving -/
theorem breakOnChange_returns_unstable (b : Nat) (hb : 0 < b) :
    (breakOnChangeIR b).ok = false ∧
    ∃ s', (breakOnChangeIR b).run [cexB, cexA] (b + 1) cexS = .ret s' ∧ cexB.run s' ≠ s' := by
  refine ⟨rfl, runBlocks [cexB, cexA] cexS, ?_, ?_⟩
  · unfold IR.run runG
    have h1 : (breakOnChangeIR b).preRaises (0 + 1) = false := by
      simp only [IR.preRaises, breakOnChangeIR, decide_eq_false_iff_not]; omega
    have h2 : runPost sameRng (breakOnChangeIR b) (0 + 1) cexS (runBlocks [cexB, cexA] cexS) (breakOnChangeIR b).post = .brk := by
      rfl
    simp [h1, h2]
  · intro h
    have := congrFun h (3, 0)
    revert this
    decide

/-- **no bound test anywhere ⇒ the cycle is never reported**, whatever the group does -/
theorem unbounded_never_raises {σ : Type} (same : Rng → σ → σ → Bool) (sweep : σ → σ) (ir : IR)
    (hpre : ir.pre = none) (hpost : ∀ p ∈ ir.post, ∃ t, p = .test t) :
    ∀ f N s, runG same sweep ir f N s ≠ .raised := by
  have hp : ∀ N s s' (ps : List Post), (∀ p ∈ ps, ∃ t, p = Post.test t) → runPost same ir N s s' ps ≠ .raise := by
    intro N s s' ps
    induction ps with
    | nil => intro _; cases hf : ir.fall <;> simp [runPost, hf, Exit.out]
    | cons p ps ih =>
      intro h
      obtain ⟨t, rfl⟩ := h p (by simp)
      have ih' := ih (fun p hp => h p (by simp [hp]))
      simp only [runPost]
      split
      · cases t.act <;> simp [Exit.out]
      · exact ih'
  intro f
  induction f with
  | zero => intro N s; simp [runG]
  | succ f ih =>
    intro N s
    unfold runG
    simp only [IR.preRaises, hpre, Bool.false_eq_true, if_false]
    cases ho : runPost same ir (N + 1) s (sweep s) ir.post with
    | brk => simp
    | raise => exact absurd ho (hp _ _ _ _ hpost)
    | cont => exact ih _ _

-- a divergent loop:  A: a @= ~b      B: b @= a        (signals 0 = a, 1 = b)
def divA : Blk := ⟨0, [⟨⟨0, 0, 1⟩, .not 1 (.rd ⟨1, 0, 1⟩)⟩]⟩
def divB : Blk := ⟨1, [⟨⟨1, 0, 1⟩, .rd ⟨0, 0, 1⟩⟩]⟩
/-- the first normal shape with the bound test dropped -/
def unboundedIR : IR := ⟨[⟨0, 0, 1⟩, ⟨1, 0, 1⟩], none, [.test ⟨[(0, false), (1, false)], false, .cont⟩], .brk⟩

theorem div_flips (s : St) : runBlocks [divA, divB] s (1, 0) = !s (1, 0) := by
  cases h : s (1, 0) <;>
    simp [runBlocks, Blk.run, Asg.run, Expr.eval, bitsToNat, Rng.has, divA, divB, h]

/-- **no bound test ⇒ a divergent loop hangs**: for every fuel and every start state the super-block is still running -/
theorem unbounded_hangs : unboundedIR.ok = false ∧ PV.C01.wfBlocks [divA, divB] = true ∧
    watchOKB [divA, divB] unboundedIR.watch = true ∧ ∀ fuel s, unboundedIR.run [divA, divB] fuel s = .timeout := by
  refine ⟨by decide, by decide, by decide, ?_⟩
  have key : ∀ f N s, runG sameRng (runBlocks [divA, divB]) unboundedIR f N s = .timeout := by
    intro f
    induction f with
    | zero => intro N s; rfl
    | succ f ih =>
      intro N s
      unfold runG
      have h2 : runPost sameRng unboundedIR (N + 1) s (runBlocks [divA, divB] s) unboundedIR.post = .cont := by
        have hf := div_flips s
        simp only [unboundedIR, runPost, Test.holds, List.any_cons, List.any_nil, litVal, List.getElem?_cons_zero,
          List.getElem?_cons_succ, sameRng, List.range_one, List.all_cons, List.all_nil, Nat.add_zero, hf, Exit.out]
        cases s (1, 0) <;> simp
      simp [IR.preRaises, unboundedIR, h2] at *
      simpa [unboundedIR] using ih (N + 1) (runBlocks [divA, divB] s)
  intro fuel s
  exact key fuel 0 s

/-! ## non-vacuity: the three real templates are in the normal class -/

/-- DynamicSchedulePass / Mamba2020Pass with watched variables in two host components -/
def dynIR : IR :=
  ⟨[⟨1, 0, 1⟩, ⟨3, 0, 1⟩, ⟨2, 0, 1⟩], some 100,
   [.test ⟨[(0, false), (1, false)], false, .cont⟩, .test ⟨[(2, false)], false, .cont⟩], .brk⟩
/-- OpenLoopCLPass -/
def openIR : IR := ⟨[⟨1, 0, 1⟩, ⟨3, 0, 1⟩], none, [.test ⟨[(0, true), (1, true)], true, .brk⟩, .raiseIf 100], .cont⟩

example : dynIR.ok = true ∧ dynIR.fuel = 100 ∧ dynIR.watch = [⟨1, 0, 1⟩, ⟨3, 0, 1⟩, ⟨2, 0, 1⟩] := by decide
example : openIR.ok = true ∧ openIR.fuel = 101 ∧ openIR.watch = [⟨1, 0, 1⟩, ⟨3, 0, 1⟩] := by decide
-- the hypotheses of `ok_stable_is_fixed_point` hold on the false loop of the counter-examples, in the order that defeats
-- the conjunction, and both real loops do return there (a value of the theorem's `h` exists)
example : PV.C01.wfBlocks [cexB, cexA] = true ∧ watchOKB [cexB, cexA] openIR.watch = true ∧
    watchOKB [cexB, cexA] dynIR.watch = true := by decide
example : ∃ s', openIR.run [cexB, cexA] 102 cexS = .ret s' := by
  rw [run_eq_iterate openIR (by decide) _ _ 102 (by decide)]
  have : ∃ s', iterate openIR.fuel openIR.watch [cexB, cexA] cexS = some s' := by
    refine ⟨runBlocks [cexB, cexA] (runBlocks [cexB, cexA] (runBlocks [cexB, cexA] cexS)), ?_⟩
    show iterate 101 _ _ _ = _
    simp only [iterate]
    rw [if_neg (by decide), if_neg (by decide), if_pos (by decide)]
  obtain ⟨s', h⟩ := this
  exact ⟨s', by rw [h]; rfl⟩
-- a divergent group is reported by both real loops
example : ∀ fuel, 101 < fuel → openIR.run [divA, divB] fuel (fun _ => false) ≠ .timeout :=
  fun fuel h => (ok_never_hangs openIR (by decide) _ _ fuel h).1

end PV.C11w
