import PymtlVerif.Proofs.BStructProgHeap
import PymtlVerif.Props.C06
/-!
# C06g — the *generated programs* of a bitstruct class compute the model functions, for every type

`Model/BStructProg.lean` defines an IR of the method bodies `bitstructs.py` generates as source text, an
evaluation semantics for it, and `progOf m T`: the program the generator emits for method `m` of a class
with field list `T`. The correspondence check parses the real generated source of every method of every
class into the IR and compares it with `progOf` (syntactic equality). The theorems here say what that
equality buys: for **every** well-formed type `T` (any nesting, any list dimensions) and **every** value /
heap, evaluating `progOf m T` is the function of `Model/BitStruct.lean` about which `Props/C06.lean` is
proved — so `from_to`, `to_from`, `eq_iff_packed`, `clone_spec`, `assign_no_alias`, … hold of any class whose
generated programs are the canonical ones (the `…_transfer` theorems spell three of them out).

Calls to a *nested* class's generated method (`self.p @= other.p`, `self.p.clone()`, `_type2( … )`, …) are
given the meaning the model assigns to the nested type; the theorems are therefore per class, and induction
over the nesting depth (every nested class is a class of its own, checked the same way) closes the argument.
`WF T`: structs are `.pair` chains ending in `.unit`, every leaf at least one bit wide.
-/
namespace PV.C06g
open PV.BitStruct PV.BStructProg
open PV.Bits (B Reg)

/-! ## to_bits / from_bits -/

/-- `to_bits`: the generated `concat( self.a, self.l[1], self.l[0], self.p.x, … )` is `toBitsPy` -/
theorem to_bits_prog {T : Ty} (hw : WF T) :
    ∃ ps, progOf .toBits T = .toBits ps ∧ ∀ v, HasTy v T → evalToBits ps v = some (toBitsPy v) :=
  ⟨_, rfl, fun _ h => evalToBits_canonical hw h⟩

/-- `from_bits`: the generated `cls( other[hi:lo…], [ … ], _typeN( … ) )` is `fromBitsPy`, for every Bits operand
(the width assertion included) -/
theorem from_bits_prog {T : Ty} (hw : WF T) (hc : Chain T) :
    ∃ a, progOf .fromBits T = .fromBits a ∧ ∀ other : B, evalFromBits T a other = fromBitsPy T other :=
  ⟨_, rfl, fun other => evalFromBits_canonical hw hc other⟩

/-- so the round trips of `Props/C06.lean` hold of the generated programs -/
theorem roundtrip_transfer {T : Ty} (hw : WF T) (hc : Chain T) (h1 : 1 ≤ T.width) (h2 : T.width < 1024) :
    ∃ ps a, progOf .toBits T = .toBits ps ∧ progOf .fromBits T = .fromBits a ∧
      (∀ v, HasTy v T → ∃ b, evalToBits ps v = some (.ok b) ∧ b.n = T.width ∧ evalFromBits T a b = .ok v) ∧
      (∀ b, b < 2 ^ T.width → ∃ v, evalFromBits T a ⟨nbitsPy T, b⟩ = .ok v ∧ HasTy v T ∧
        evalToBits ps v = some (.ok ⟨nbitsPy T, b⟩)) := by
  refine ⟨_, _, rfl, rfl, ?_, ?_⟩
  · intro v hv
    obtain ⟨b, e1, e2⟩ := PV.C06.from_to hv h1 h2
    refine ⟨b, by rw [evalToBits_canonical hw hv, e1], ?_, by rw [evalFromBits_canonical hw hc, e2]⟩
    have := (PV.C06.to_bits_spec hv h1 h2).1
    rw [e1] at this
    have hb : b = ⟨nbitsPy T, (toBits v).2⟩ := by injection this
    rw [hb, nbitsPy_eq]
  · intro b hb
    obtain ⟨v, e1, hv, e2⟩ := PV.C06.to_from T b hb h1 h2
    exact ⟨v, by rw [evalFromBits_canonical hw hc, e1], hv, by rw [evalToBits_canonical hw hv, e2]⟩

/-! ## `==` and hash -/

/-- `__eq__`: the generated tuple comparison is `eqCls`; between instances of one class it decides equality
of the values -/
theorem eq_prog {T : Ty} (hw : WF T) (hc : Chain T) :
    ∃ l r, progOf .eq T = .eq l r ∧ ∀ v w, HasTy v T → HasTy w T →
      (∀ sc, evalEq l r sc v w = some (eqCls sc v w)) ∧ evalEq l r true v w = some (decide (v = w)) := by
  refine ⟨_, _, rfl, ?_⟩
  intro v w hv hw'
  refine ⟨fun sc => evalEq_canonical hw hc sc hv hw', ?_⟩
  rw [evalEq_canonical hw hc true hv hw']
  congr 1
  by_cases e : v = w
  · subst e; simp [eqCls, (eqPy_iff v v).2 rfl]
  · have : eqPy v w = false := by
      cases h : eqPy v w with
      | false => rfl
      | true => exact absurd ((eqPy_iff v w).1 h) e
    simp [eqCls, this, e]

/-- `__hash__`: the generated `hash(( self.a, (self.l[0], self.l[1],), self.p, ))` is `hashV` of the value, and the
hashed tuple determines the value (two instances of the class hash the same tuple iff they are equal) -/
theorem hash_prog {T : Ty} (hw : WF T) (hc : Chain T) :
    ∃ e, progOf .hash T = .hash e ∧
      (∀ {α : Type} (hb : Nat → Nat → α) (ht : List α → α) v, HasTy v T → evalHash hb ht e v = some (hashV hb ht v)) ∧
      (∀ v w, HasTy v T → HasTy w T → (evalV ⟨v, v, default⟩ e = evalV ⟨w, w, default⟩ e ↔ v = w)) := by
  refine ⟨_, rfl, ?_, ?_⟩
  · intro α hb ht v hv
    simp only [evalHash, evalV]
    rw [hashArgs_eval hv v 0 (TailV.refl v)]
    simp [hashV_chainV hb ht hv hc hw]
  · intro v w hv hw'
    simp only [evalV]
    rw [hashArgs_eval hv v 0 (TailV.refl v), hashArgs_eval hw' w 0 (TailV.refl w)]
    constructor
    · intro e; exact chainV_inj hv hw' hc hw (by simpa using e)
    · intro e; rw [e]

/-! ## clone / `__deepcopy__` -/

/-- the clone program (and the identical `__deepcopy__` program): the copy reads like the source, all its
leaf objects are new, pairwise distinct and without `_next`; nothing that existed is modified, no leaf is
shared with any instance that existed — the source included -/
theorem clone_prog {T : Ty} (hw : WF T) (hc : Chain T) :
    ∃ a, progOf .clone T = .clone a ∧ progOf .deepcopy T = .clone a ∧
      ∀ (h : Heap) (self : Inst), HasTy (read h self) T → InHeap h self →
        ∃ h' i', evalClone T a h self = some (h', i') ∧ read h' i' = read h self ∧
          (∀ c ∈ cells i', h.size ≤ c ∧ c < h'.size) ∧ (cells i').Nodup ∧
          (∀ c, c < h.size → h'.cell c = h.cell c) ∧ (∀ c ∈ cells i', (h'.cell c).next = none) ∧
          (∀ j, InHeap h j → Disj i' j ∧ read h' j = read h j) := by
  refine ⟨_, rfl, rfl, ?_⟩
  intro h self ht hin
  obtain ⟨h', i', e, r, f⟩ := evalClone_spec hw hc h self ht hin
  refine ⟨h', i', e, r, f.range, f.nodup, f.old, f.next_none, ?_⟩
  intro j hj
  refine ⟨fun c hc' hcj => ?_, read_congr _ _ _ (fun c hc' => by rw [f.old c (hj c hc')])⟩
  have := (f.range c hc').1; have := hj c hcj; omega

/-- hence copy and source are independent under later writes (as `PV.C06.clone_independent`) -/
theorem clone_transfer {T : Ty} (hw : WF T) (hc : Chain T) (h : Heap) (self : Inst)
    (ht : HasTy (read h self) T) (hin : InHeap h self) :
    ∃ a h' i', progOf .clone T = .clone a ∧ evalClone T a h self = some (h', i') ∧
      (∀ c ∈ cells i', ∀ r, read (h'.upd c r) self = read h self) ∧
      (∀ c ∈ cells self, ∀ r, read (h'.upd c r) i' = read h self) := by
  obtain ⟨a, e1, _, sp⟩ := clone_prog hw hc
  obtain ⟨h', i', e, r, _, _, _, _, dj⟩ := sp h self ht hin
  refine ⟨a, h', i', e1, e, ?_, ?_⟩
  · intro c hc' r'
    rw [PV.C06.write_independent _ _ _ (dj self hin).1 c hc' r', (dj self hin).2]
  · intro c hc' r'
    rw [PV.C06.write_independent _ _ _ (dj self hin).1.symm c hc' r', r]

/-! ## `@=`, `<<=`, `_flip` -/

theorem ishape_convert {T : Ty} {h h1 : Heap} {src tmp : Inst} (e : convert T h src = .ok (h1, tmp)) : IShape tmp T := by
  simp only [convert] at e
  cases hp : toBitsPy (read h src) with
  | error x => simp [hp] at e
  | ok b =>
    cases hf : fromBitsPy T b with
    | error x => simp [hp, hf] at e
    | ok v =>
      simp only [hp, hf, Except.ok.injEq] at e
      have hv : HasTy v T := by
        simp only [fromBitsPy] at hf
        split at hf
        · cases hf
        · injection hf with hf
          rw [← hf]
          exact hasTy_fromBitsAt T (nbitsPy T) b.v (by rw [nbitsPy_eq]; exact Nat.le_refl _)
      obtain ⟨_, r⟩ := build_spec h v
      have e2 : tmp = (build h v).2 := by rw [e]
      rw [e2]
      exact ishape_of_hasTy (build h v).1 _ T (by rw [r]; exact hv)

/-- `__imatmul__` / `__ilshift__`: the generated statement lists `self.a @= other.a; self.l[0] @= other.l[0]; …`
(with the cross-class prologue) are the model's `imatmul` / `ilshift`, on every heap — aliased operands included -/
theorem aug_prog {T : Ty} (hw : WF T) (hc : Chain T) :
    ∃ st, progOf .imatmul T = .aug false st ∧ progOf .ilshift T = .aug true st ∧
      ∀ (sc : Bool) (h : Heap) (dst src : Inst), IShape dst T → (sc = true → IShape src T) →
        evalAug false T st sc h dst src = imatmul T sc h dst src ∧
        evalAug true T st sc h dst src = ilshift T sc h dst src := by
  refine ⟨_, rfl, rfl, ?_⟩
  intro sc h dst src hd hs
  have run : ∀ (op : Heap → Nat → Nat → Except Err Heap) (h : Heap) (s : Inst), IShape s T →
      runAug op ⟨dst, s⟩ h ((fieldElemPaths T 0).map fun p => (p, p)) = zipWithM op h dst s :=
    fun op h s hs' => aug_fields op dst s T 0 h dst s hd hs' hc hw (TailI.refl dst) (TailI.refl s)
  cases sc with
  | true =>
    simp only [evalAug, imatmul, ilshift, imatmulSame, ilshiftSame, ↓reduceIte, Bool.false_eq_true]
    exact ⟨run _ h src (hs rfl), run _ h src (hs rfl)⟩
  | false =>
    simp only [evalAug, imatmul, ilshift, imatmulSame, ilshiftSame, ↓reduceIte, Bool.false_eq_true]
    cases e : convert T h src with
    | error x => exact ⟨rfl, rfl⟩
    | ok r =>
      obtain ⟨h1, tmp⟩ := r
      have := ishape_convert e
      exact ⟨run _ h1 tmp this, run _ h1 tmp this⟩

/-- `_flip`: the generated `self.a._flip(); self.l[0]._flip(); …` is the model's `flip` -/
theorem flip_prog {T : Ty} (hw : WF T) (hc : Chain T) :
    ∃ ps, progOf .flip T = .flip ps ∧ ∀ (h : Heap) (self : Inst), IShape self T → runFlip self h ps = flip h self :=
  ⟨_, rfl, fun h self hs => flip_fields self T 0 h self hs hc hw (TailI.refl self)⟩

/-- so `dst @= src` through the generated program copies every leaf into `dst`'s own objects (`PV.C06.assign_no_alias`),
and `<<=` then `_flip` delivers the old source value (`PV.C06.nb_assign_then_flip`) -/
theorem assign_transfer {T : Ty} (hw : WF T) (hc : Chain T) (h : Heap) (dst src : Inst)
    (hd : HasTy (read h dst) T) (hs : HasTy (read h src) T) (nd : (cells dst).Nodup) (dj : Disj dst src) :
    ∃ st ps, progOf .imatmul T = .aug false st ∧ progOf .ilshift T = .aug true st ∧ progOf .flip T = .flip ps ∧
      (∃ h', evalAug false T st true h dst src = .ok h' ∧ read h' dst = read h src ∧ read h' src = read h src ∧
        (∀ c ∈ cells dst, ∀ r, read (h'.upd c r) src = read h src) ∧
        (∀ c ∈ cells src, ∀ r, read (h'.upd c r) dst = read h src)) ∧
      (∃ h' h3, evalAug true T st true h dst src = .ok h' ∧ read h' dst = read h dst ∧
        runFlip dst h' ps = .ok h3 ∧ read h3 dst = read h src ∧ read h3 src = read h src) := by
  obtain ⟨st, e1, e2, sp⟩ := aug_prog hw hc
  obtain ⟨ps, e3, fp⟩ := flip_prog hw hc
  have sd := ishape_of_hasTy h dst T hd
  have ss := ishape_of_hasTy h src T hs
  obtain ⟨a1, a2⟩ := sp true h dst src sd (fun _ => ss)
  refine ⟨st, ps, e1, e2, e3, ?_, ?_⟩
  · obtain ⟨h', e, r1, r2, _, _, w1, w2⟩ := PV.C06.assign_no_alias T h dst src hd hs nd dj
    exact ⟨h', by rw [a1, e], r1, r2, w1, w2⟩
  · obtain ⟨h', h3, e, r1, e3', r3, r4⟩ := PV.C06.nb_assign_then_flip T h dst src hd hs nd dj
    exact ⟨h', h3, by rw [a2, e], r1, by rw [fp h' dst sd, e3'], r3, r4⟩

/-! ## `__init__` -/

/-- the `__init__` program: called with every argument it is `newI` — the meaning `C( … )` has inside the clone and
`from_bits` programs (a Bits field is re-wrapped in a new object, a list / struct argument is kept); called
without arguments it builds the zero value with a new object for every leaf: pairwise distinct, none shared
with anything that existed (what `[row] * n` in the default expression would break) -/
theorem init_prog {T : Ty} (hw : WF T) (hc : Chain T) :
    ∃ st, progOf .init T = .init st ∧
      (∀ (args : List (Option Inst)) (h : Heap) (c : Inst), IShape c T → ArgsAt args c 0 →
        evalInit args h 0 st = newI h T (chainI c)) ∧
      (∀ (args : List (Option Inst)) (h : Heap), (∀ j, j < nFields T → args[j]? = some none) →
        ∃ h' i', evalInit args h 0 st = some (h', i') ∧ read h' i' = zeroV T ∧ (cells i').Nodup ∧
          (∀ c ∈ cells i', h.size ≤ c ∧ c < h'.size) ∧ (∀ c, c < h.size → h'.cell c = h.cell c) ∧
          (∀ j, InHeap h j → Disj i' j)) := by
  refine ⟨_, rfl, fun args h c hs ha => init_given args T hc hw 0 h c hs ha, ?_⟩
  intro args h ha
  refine ⟨_, _, init_default args T hc hw 0 h (fun j hj => by simpa using ha j hj), ?_⟩
  obtain ⟨f, r⟩ := build_spec h (zeroV T)
  refine ⟨r, f.nodup, f.range, f.old, ?_⟩
  intro j hj c hc' hcj
  have := (f.range c hc').1; have := hj c hcj; omega

/-! ## non-vacuity -/

/-- `struct { a:Bits4; l:[Bits2]*2; c:Bits1 }` (the example of `Props/C06.lean`) -/
abbrev exT : Ty := PV.C06.exT
abbrev exV : Val := PV.C06.exV

theorem exT_wf : WF exT ∧ Chain exT := by simp [exT, PV.C06.exT, WF, Chain]

/-- `struct { p: struct{x:Bits4; y:Bits4}; m: [[Bits2]*3]*2 }` -/
def exN : Ty := .pair (.pair (.bits 4) (.pair (.bits 4) .unit)) (.pair (.arr 2 (.arr 3 (.bits 2))) .unit)

example : progOf .toBits exT = .toBits [[.fld 0], [.fld 1, .idx 1], [.fld 1, .idx 0], [.fld 2]] := by decide
example : progOf .toBits exN = .toBits [[.fld 0, .fld 0], [.fld 0, .fld 1], [.fld 1, .idx 1, .idx 2], [.fld 1, .idx 1, .idx 1],
    [.fld 1, .idx 1, .idx 0], [.fld 1, .idx 0, .idx 2], [.fld 1, .idx 0, .idx 1], [.fld 1, .idx 0, .idx 0]] := by decide
example : progOf .fromBits exT =
    .fromBits (.cons (.slice 5 9) (.cons (.cons (.slice 1 3) (.cons (.slice 3 5) .nil)) (.cons (.slice 0 1) .nil))) := by decide
example : evalToBits (tbPaths exT 0 []) exV = some (.ok ⟨9, 0b101010011⟩) := by decide
example : evalFromBits exT (fbExpr.fbArgs exT 9).1 ⟨9, 0b101010011⟩ = .ok exV := by decide
example : progOf .imatmul exT = .aug false [([.fld 0], [.fld 0]), ([.fld 1, .idx 0], [.fld 1, .idx 0]),
    ([.fld 1, .idx 1], [.fld 1, .idx 1]), ([.fld 2], [.fld 2])] := by decide
example : progOf .hash exT = .hash (.tup (.cons (.self [.fld 0]) (.cons (.tup (.cons (.self [.fld 1, .idx 0])
    (.cons (.self [.fld 1, .idx 1]) .nil))) (.cons (.self [.fld 2]) .nil)))) := by decide
example : progOf .init exT = .init [⟨0, .wrap 4 0⟩,
    ⟨1, .orDflt 1 (.cons (.dflt (.bits 2)) (.cons (.dflt (.bits 2)) .nil))⟩, ⟨2, .wrap 1 2⟩] := by decide

/-- the default expression `[[_type_m(), _type_m(), _type_m()]] * 2` (seeded change C06-4 / C06-12) is a program of the IR,
is not the canonical one, and evaluates to an instance whose two rows are the same three objects -/
def seededInit : List InitStmt :=
  [⟨0, .orDflt 0 (.dflt (.pair (.bits 4) (.pair (.bits 4) .unit)))⟩,
   ⟨1, .orDflt 1 (.rep (.cons (.cons (.dflt (.bits 2)) (.cons (.dflt (.bits 2)) (.cons (.dflt (.bits 2)) .nil))) .nil) 2)⟩]

example : progOf .init exN ≠ .init seededInit := by decide
example : (evalInit [none, none] Heap.empty 0 seededInit).map (fun r => cells r.2) = some [0, 1, 2, 3, 4, 2, 3, 4] := by
  decide
example : (evalInit [none, none] Heap.empty 0 (initStmts exN 0)).map (fun r => cells r.2) = some [0, 1, 2, 3, 4, 5, 6, 7] := by
  decide

/-- the clone program that passes a list's Bits elements on without `.clone()` (seeded change C06-2): the copy's list
elements are the source's objects -/
example : (evalClone exT (.cons (.self [.fld 0]) (.cons (.cons (.self [.fld 1, .idx 0]) (.cons (.self [.fld 1, .idx 1]) .nil))
      (.cons (.self [.fld 2]) .nil))) (build Heap.empty exV).1 (build Heap.empty exV).2).map (fun r => cells r.2)
    = some [4, 1, 2, 5] := by decide
example : (evalClone exT (cloneArgs exT 0) (build Heap.empty exV).1 (build Heap.empty exV).2).map (fun r => cells r.2)
    = some [8, 5, 6, 9] := by decide

end PV.C06g
