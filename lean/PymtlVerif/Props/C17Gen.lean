import PymtlVerif.Gen.QueueGen
import PymtlVerif.Proofs.Queue
/-!
# C17 — translator tie: the definitions generated from the Python source of the RTL queues = the hand model, for every capacity

`Gen/QueueGen.lean` is rendered by `tools/py2lean_queue.py` from the `@update` / `@update_ff` blocks, `//= lambda:` connections,
constants and connections of the RTL queue classes (capacity `n` and entry type `α` symbolic).  For every class this file gives the
valuation of the Python signals by the terms of `Model/Queue.lean` (the state `s`, the inputs `i`, the outputs and the next state
of the class's step function) and proves, for all `n`, all states and all inputs:

* `gen_<file>_<class>_<signal>_eq`      — the generated combinational definition, evaluated on that valuation, is the valuation's
                                           value of the signal it drives;
* `gen_<file>_<class>_<signal>_next_eq` — the generated register update is the register's value in the model's next state;
* `gen_<file>_<class>_wires`            — every `connect` / `//=` between named signals holds in the valuation;
* `gen_<file>_<class>_widths`           — the declared widths are the ones the model's truncations use;
* `gen_<file>_<class>_side`             — under the constructor's own guard no constant/int conversion of the class would raise;
* `gen_<file>_<class>_out`              — the model's `Out` record is read off the valuation (ready/valid, message, count);
* `gen_<file>_<wrapper>_struct`         — the wrapper's `if num_entries == 1` test, instance and connection tables are the ones the
                                           model's dispatch (`runCls`) and valuations assume.
-/
set_option linter.unusedSimpArgs false
set_option linter.unusedVariables false
namespace PV.C17Gen
open PV.Queue

theorem clog2_eq (n : Nat) : QueueGen.clog2 n = Queue.clog2 n := rfl

theorem lastIdx_mod (n : Nat) : (n - 1) % 2 ^ Queue.clog2 n = n - 1 := by
  have h := le_two_pow_clog2 n
  have h2 : 0 < 2 ^ Queue.clog2 n := Nat.two_pow_pos _
  exact Nat.mod_eq_of_lt (by omega)

theorem numEntries_mod (n : Nat) : n % 2 ^ Queue.clog2 (n + 1) = n := by
  have h := le_two_pow_clog2 (n + 1)
  exact Nat.mod_eq_of_lt (by omega)

theorem one_le_clog2 (n : Nat) (hn : 2 ≤ n) : 1 ≤ Queue.clog2 n := by
  unfold Queue.clog2; split <;> omega

theorem clog2_mono_succ (n : Nat) : Queue.clog2 n ≤ Queue.clog2 (n + 1) := by
  unfold Queue.clog2
  split
  · omega
  · split
    · omega
    · have h0 : n - 1 ≠ 0 := by omega
      have h1 := @Nat.lt_log2_self (n + 1 - 1)
      have h2 : n - 1 < 2 ^ (Nat.log2 (n + 1 - 1) + 1) := by omega
      have h3 := (Nat.log2_lt (n := n - 1) (k := Nat.log2 (n + 1 - 1) + 1) h0).mpr h2
      omega

/-- closes "generated term on the model's valuation = model term" goals -/
syntax "gen_tac" "[" Lean.Parser.Tactic.simpLemma,* "]" : tactic
macro_rules
  | `(tactic| gen_tac [$ts,*]) => `(tactic|
      first
      | rfl
      | (simp only [$ts,*] <;> rfl)
      | (simp [$ts,*, clog2_eq, lastIdx_mod, numEntries_mod, ringStep, q1Step, s1Step, er1Step, er1Raw, v1Step, vrStep,
               ptrInc, cntInc, cntDec, trunc, b2n, Bool.and_comm] <;> done)
      | (simp [$ts,*, clog2_eq, lastIdx_mod, numEntries_mod, ringStep, q1Step, s1Step, er1Step, er1Raw, v1Step, vrStep,
               ptrInc, cntInc, cntDec, trunc, b2n] <;> (repeat' split) <;> simp_all <;> done)
      | (simp [$ts,*, clog2_eq, lastIdx_mod, numEntries_mod, ringStep, q1Step, s1Step, er1Step, er1Raw, v1Step, vrStep,
               ptrInc, cntInc, cntDec, trunc, b2n] <;> (repeat' split) <;> simp_all <;> first | done | (exfalso; omega) | omega))

/-- the side conditions: constants fit their widths -/
syntax "side_tac" "[" Lean.Parser.Tactic.simpLemma,* "]" : tactic
set_option hygiene false in
macro_rules
  | `(tactic| side_tac [$ts,*]) => `(tactic| (
      have h1 := le_two_pow_clog2 n
      have h2 := le_two_pow_clog2 (n + 1)
      have h3 := one_le_clog2 n (by omega)
      have h4 := one_le_clog2 (n + 1) (by omega)
      have h5 := clog2_mono_succ n
      have h6 : 2 ^ 1 ≤ 2 ^ Queue.clog2 n := Nat.pow_le_pow_right (by decide) h3
      have h7 : 2 ^ 1 ≤ 2 ^ Queue.clog2 (n + 1) := Nat.pow_le_pow_right (by decide) h4
      simp only [$ts,*, clog2_eq]
      omega))

/-! ## basic_rtl components as instantiated by the queues -/

theorem gen_Basic_RegisterFile_rdata_eq {α : Type} (n : Nat) (v : QueueGen.Basic.RegisterFile_1_1.Sig α) :
    QueueGen.Basic.RegisterFile_1_1.up_rf_read_rdata_0 n v = v.regs v.raddr_0 := rfl

theorem gen_Basic_RegisterFile_regs_next_eq {α : Type} (n : Nat) (v : QueueGen.Basic.RegisterFile_1_1.Sig α) :
    QueueGen.Basic.RegisterFile_1_1.up_rf_write_regs_next n v = if v.wen_0 then (fun a => if a = v.waddr_0 then v.wdata_0 else v.regs a) else v.regs := rfl

theorem gen_Basic_Mux_out_eq {α : Type} (v : QueueGen.Basic.Mux_2.Sig α) :
    QueueGen.Basic.Mux_2.up_mux_out v = if v.sel then v.in__1 else v.in__0 := rfl

theorem gen_Basic_RegEn_out_next_eq {α : Type} (v : QueueGen.Basic.RegEn.Sig α) :
    QueueGen.Basic.RegEn.up_regen_out_next v = if v.en then v.in_ else v.out := rfl

theorem gen_Basic_Reg_out_next_eq (v : QueueGen.Basic.Reg_Bits1.Sig) :
    QueueGen.Basic.Reg_Bits1.up_reg_out_next v = v.in_ := rfl

theorem gen_Basic_RegRst_out_next_eq (v : QueueGen.Basic.RegRst_Bits1_0.Sig) :
    QueueGen.Basic.RegRst_Bits1_0.up_regrst_out_next v = if v.reset then false else v.in_ := rfl

/-! ## Q.NormalQueueCtrlRTL -/

/-- the signals of `NormalQueueCtrlRTL` as terms of the model -/
def QNormalQueueCtrlRTLVal {α : Type} (n : Nat) (s : Ring α) (i : In α) : QueueGen.Q.NormalQueueCtrlRTL.Sig :=
  { reset := i.rst,
    enq_en := i.enq,
    enq_rdy := (ringStep true .normal n s i).2.enqRdy,
    deq_en := i.deq,
    deq_rdy := (ringStep true .normal n s i).2.deqRdy,
    count := s.count,
    wen := (i.enq && (ringStep true .normal n s i).2.enqRdy),
    waddr := s.tail,
    raddr := s.head,
    head := s.head,
    tail := s.tail,
    enq_xfer := (i.enq && (ringStep true .normal n s i).2.enqRdy),
    deq_xfer := (i.deq && (ringStep true .normal n s i).2.deqRdy) }

theorem gen_Q_NormalQueueCtrlRTL_enq_rdy_eq {α : Type} (n : Nat) (s : Ring α) (i : In α) :
    QueueGen.Q.NormalQueueCtrlRTL.lambda_enq_rdy_enq_rdy n (QNormalQueueCtrlRTLVal n s i) = (QNormalQueueCtrlRTLVal n s i).enq_rdy := by
  gen_tac [QueueGen.Q.NormalQueueCtrlRTL.lambda_enq_rdy_enq_rdy, QNormalQueueCtrlRTLVal, QueueGen.Q.NormalQueueCtrlRTL.c_last_idx, QueueGen.Q.NormalQueueCtrlRTL.c_num_entries]

theorem gen_Q_NormalQueueCtrlRTL_deq_rdy_eq {α : Type} (n : Nat) (s : Ring α) (i : In α) :
    QueueGen.Q.NormalQueueCtrlRTL.lambda_deq_rdy_deq_rdy n (QNormalQueueCtrlRTLVal n s i) = (QNormalQueueCtrlRTLVal n s i).deq_rdy := by
  gen_tac [QueueGen.Q.NormalQueueCtrlRTL.lambda_deq_rdy_deq_rdy, QNormalQueueCtrlRTLVal, QueueGen.Q.NormalQueueCtrlRTL.c_last_idx, QueueGen.Q.NormalQueueCtrlRTL.c_num_entries]

theorem gen_Q_NormalQueueCtrlRTL_enq_xfer_eq {α : Type} (n : Nat) (s : Ring α) (i : In α) :
    QueueGen.Q.NormalQueueCtrlRTL.lambda_enq_xfer_enq_xfer n (QNormalQueueCtrlRTLVal n s i) = (QNormalQueueCtrlRTLVal n s i).enq_xfer := by
  gen_tac [QueueGen.Q.NormalQueueCtrlRTL.lambda_enq_xfer_enq_xfer, QNormalQueueCtrlRTLVal, QueueGen.Q.NormalQueueCtrlRTL.c_last_idx, QueueGen.Q.NormalQueueCtrlRTL.c_num_entries]

theorem gen_Q_NormalQueueCtrlRTL_deq_xfer_eq {α : Type} (n : Nat) (s : Ring α) (i : In α) :
    QueueGen.Q.NormalQueueCtrlRTL.lambda_deq_xfer_deq_xfer n (QNormalQueueCtrlRTLVal n s i) = (QNormalQueueCtrlRTLVal n s i).deq_xfer := by
  gen_tac [QueueGen.Q.NormalQueueCtrlRTL.lambda_deq_xfer_deq_xfer, QNormalQueueCtrlRTLVal, QueueGen.Q.NormalQueueCtrlRTL.c_last_idx, QueueGen.Q.NormalQueueCtrlRTL.c_num_entries]

theorem gen_Q_NormalQueueCtrlRTL_head_next_eq {α : Type} (n : Nat) (s : Ring α) (i : In α) :
    QueueGen.Q.NormalQueueCtrlRTL.up_reg_head_next n (QNormalQueueCtrlRTLVal n s i) = (ringStep true .normal n s i).1.head := by
  gen_tac [QueueGen.Q.NormalQueueCtrlRTL.up_reg_head_next, QNormalQueueCtrlRTLVal, QueueGen.Q.NormalQueueCtrlRTL.c_last_idx, QueueGen.Q.NormalQueueCtrlRTL.c_num_entries]

theorem gen_Q_NormalQueueCtrlRTL_tail_next_eq {α : Type} (n : Nat) (s : Ring α) (i : In α) :
    QueueGen.Q.NormalQueueCtrlRTL.up_reg_tail_next n (QNormalQueueCtrlRTLVal n s i) = (ringStep true .normal n s i).1.tail := by
  gen_tac [QueueGen.Q.NormalQueueCtrlRTL.up_reg_tail_next, QNormalQueueCtrlRTLVal, QueueGen.Q.NormalQueueCtrlRTL.c_last_idx, QueueGen.Q.NormalQueueCtrlRTL.c_num_entries]

theorem gen_Q_NormalQueueCtrlRTL_count_next_eq {α : Type} (n : Nat) (s : Ring α) (i : In α) :
    QueueGen.Q.NormalQueueCtrlRTL.up_reg_count_next n (QNormalQueueCtrlRTLVal n s i) = (ringStep true .normal n s i).1.count := by
  gen_tac [QueueGen.Q.NormalQueueCtrlRTL.up_reg_count_next, QNormalQueueCtrlRTLVal, QueueGen.Q.NormalQueueCtrlRTL.c_last_idx, QueueGen.Q.NormalQueueCtrlRTL.c_num_entries]

theorem gen_Q_NormalQueueCtrlRTL_wires {α : Type} (n : Nat) (s : Ring α) (i : In α) : QueueGen.Q.NormalQueueCtrlRTL.wires n (QNormalQueueCtrlRTLVal n s i) := by
  simp [QueueGen.Q.NormalQueueCtrlRTL.wires, QNormalQueueCtrlRTLVal, q1Step, s1Step, er1Step, er1Raw, v1Step]

theorem gen_Q_NormalQueueCtrlRTL_widths (n : Nat) : QueueGen.Q.NormalQueueCtrlRTL.widths n =
    [("enq_en", 1), ("enq_rdy", 1), ("deq_en", 1), ("deq_rdy", 1), ("count", Queue.clog2 (n + 1)), ("wen", 1), ("waddr", Queue.clog2 n), ("raddr", Queue.clog2 n), ("head", Queue.clog2 n), ("tail", Queue.clog2 n), ("enq_xfer", 1), ("deq_xfer", 1)] := rfl

theorem gen_Q_NormalQueueCtrlRTL_side (n : Nat) (hn : 2 ≤ n) : QueueGen.Q.NormalQueueCtrlRTL.side n := by
  side_tac [QueueGen.Q.NormalQueueCtrlRTL.side, QueueGen.Q.NormalQueueCtrlRTL.c_last_idx, QueueGen.Q.NormalQueueCtrlRTL.c_num_entries]

theorem gen_Q_NormalQueueCtrlRTL_out {α : Type} (n : Nat) (s : Ring α) (i : In α) :
    (ringStep true .normal n s i).2.enqRdy = (QNormalQueueCtrlRTLVal n s i).enq_rdy ∧ (ringStep true .normal n s i).2.count = (QNormalQueueCtrlRTLVal n s i).count := by
  gen_tac [QNormalQueueCtrlRTLVal]

/-! ## Q.PipeQueueCtrlRTL -/

/-- the signals of `PipeQueueCtrlRTL` as terms of the model -/
def QPipeQueueCtrlRTLVal {α : Type} (n : Nat) (s : Ring α) (i : In α) : QueueGen.Q.PipeQueueCtrlRTL.Sig :=
  { reset := i.rst,
    enq_en := i.enq,
    enq_rdy := (ringStep true .pipe n s i).2.enqRdy,
    deq_en := i.deq,
    deq_rdy := (ringStep true .pipe n s i).2.deqRdy,
    count := s.count,
    wen := (i.enq && (ringStep true .pipe n s i).2.enqRdy),
    waddr := s.tail,
    raddr := s.head,
    head := s.head,
    tail := s.tail,
    enq_xfer := (i.enq && (ringStep true .pipe n s i).2.enqRdy),
    deq_xfer := (i.deq && (ringStep true .pipe n s i).2.deqRdy) }

theorem gen_Q_PipeQueueCtrlRTL_deq_rdy_eq {α : Type} (n : Nat) (s : Ring α) (i : In α) :
    QueueGen.Q.PipeQueueCtrlRTL.lambda_deq_rdy_deq_rdy n (QPipeQueueCtrlRTLVal n s i) = (QPipeQueueCtrlRTLVal n s i).deq_rdy := by
  gen_tac [QueueGen.Q.PipeQueueCtrlRTL.lambda_deq_rdy_deq_rdy, QPipeQueueCtrlRTLVal, QueueGen.Q.PipeQueueCtrlRTL.c_last_idx, QueueGen.Q.PipeQueueCtrlRTL.c_num_entries]

theorem gen_Q_PipeQueueCtrlRTL_enq_rdy_eq {α : Type} (n : Nat) (s : Ring α) (i : In α) :
    QueueGen.Q.PipeQueueCtrlRTL.lambda_enq_rdy_enq_rdy n (QPipeQueueCtrlRTLVal n s i) = (QPipeQueueCtrlRTLVal n s i).enq_rdy := by
  gen_tac [QueueGen.Q.PipeQueueCtrlRTL.lambda_enq_rdy_enq_rdy, QPipeQueueCtrlRTLVal, QueueGen.Q.PipeQueueCtrlRTL.c_last_idx, QueueGen.Q.PipeQueueCtrlRTL.c_num_entries]

theorem gen_Q_PipeQueueCtrlRTL_enq_xfer_eq {α : Type} (n : Nat) (s : Ring α) (i : In α) :
    QueueGen.Q.PipeQueueCtrlRTL.lambda_enq_xfer_enq_xfer n (QPipeQueueCtrlRTLVal n s i) = (QPipeQueueCtrlRTLVal n s i).enq_xfer := by
  gen_tac [QueueGen.Q.PipeQueueCtrlRTL.lambda_enq_xfer_enq_xfer, QPipeQueueCtrlRTLVal, QueueGen.Q.PipeQueueCtrlRTL.c_last_idx, QueueGen.Q.PipeQueueCtrlRTL.c_num_entries]

theorem gen_Q_PipeQueueCtrlRTL_deq_xfer_eq {α : Type} (n : Nat) (s : Ring α) (i : In α) :
    QueueGen.Q.PipeQueueCtrlRTL.lambda_deq_xfer_deq_xfer n (QPipeQueueCtrlRTLVal n s i) = (QPipeQueueCtrlRTLVal n s i).deq_xfer := by
  gen_tac [QueueGen.Q.PipeQueueCtrlRTL.lambda_deq_xfer_deq_xfer, QPipeQueueCtrlRTLVal, QueueGen.Q.PipeQueueCtrlRTL.c_last_idx, QueueGen.Q.PipeQueueCtrlRTL.c_num_entries]

theorem gen_Q_PipeQueueCtrlRTL_head_next_eq {α : Type} (n : Nat) (s : Ring α) (i : In α) :
    QueueGen.Q.PipeQueueCtrlRTL.up_reg_head_next n (QPipeQueueCtrlRTLVal n s i) = (ringStep true .pipe n s i).1.head := by
  gen_tac [QueueGen.Q.PipeQueueCtrlRTL.up_reg_head_next, QPipeQueueCtrlRTLVal, QueueGen.Q.PipeQueueCtrlRTL.c_last_idx, QueueGen.Q.PipeQueueCtrlRTL.c_num_entries]

theorem gen_Q_PipeQueueCtrlRTL_tail_next_eq {α : Type} (n : Nat) (s : Ring α) (i : In α) :
    QueueGen.Q.PipeQueueCtrlRTL.up_reg_tail_next n (QPipeQueueCtrlRTLVal n s i) = (ringStep true .pipe n s i).1.tail := by
  gen_tac [QueueGen.Q.PipeQueueCtrlRTL.up_reg_tail_next, QPipeQueueCtrlRTLVal, QueueGen.Q.PipeQueueCtrlRTL.c_last_idx, QueueGen.Q.PipeQueueCtrlRTL.c_num_entries]

theorem gen_Q_PipeQueueCtrlRTL_count_next_eq {α : Type} (n : Nat) (s : Ring α) (i : In α) :
    QueueGen.Q.PipeQueueCtrlRTL.up_reg_count_next n (QPipeQueueCtrlRTLVal n s i) = (ringStep true .pipe n s i).1.count := by
  gen_tac [QueueGen.Q.PipeQueueCtrlRTL.up_reg_count_next, QPipeQueueCtrlRTLVal, QueueGen.Q.PipeQueueCtrlRTL.c_last_idx, QueueGen.Q.PipeQueueCtrlRTL.c_num_entries]

theorem gen_Q_PipeQueueCtrlRTL_wires {α : Type} (n : Nat) (s : Ring α) (i : In α) : QueueGen.Q.PipeQueueCtrlRTL.wires n (QPipeQueueCtrlRTLVal n s i) := by
  simp [QueueGen.Q.PipeQueueCtrlRTL.wires, QPipeQueueCtrlRTLVal, q1Step, s1Step, er1Step, er1Raw, v1Step]

theorem gen_Q_PipeQueueCtrlRTL_widths (n : Nat) : QueueGen.Q.PipeQueueCtrlRTL.widths n =
    [("enq_en", 1), ("enq_rdy", 1), ("deq_en", 1), ("deq_rdy", 1), ("count", Queue.clog2 (n + 1)), ("wen", 1), ("waddr", Queue.clog2 n), ("raddr", Queue.clog2 n), ("head", Queue.clog2 n), ("tail", Queue.clog2 n), ("enq_xfer", 1), ("deq_xfer", 1)] := rfl

theorem gen_Q_PipeQueueCtrlRTL_side (n : Nat) (hn : 2 ≤ n) : QueueGen.Q.PipeQueueCtrlRTL.side n := by
  side_tac [QueueGen.Q.PipeQueueCtrlRTL.side, QueueGen.Q.PipeQueueCtrlRTL.c_last_idx, QueueGen.Q.PipeQueueCtrlRTL.c_num_entries]

theorem gen_Q_PipeQueueCtrlRTL_out {α : Type} (n : Nat) (s : Ring α) (i : In α) :
    (ringStep true .pipe n s i).2.enqRdy = (QPipeQueueCtrlRTLVal n s i).enq_rdy ∧ (ringStep true .pipe n s i).2.count = (QPipeQueueCtrlRTLVal n s i).count := by
  gen_tac [QPipeQueueCtrlRTLVal]

/-! ## Q.BypassQueueCtrlRTL -/

/-- the signals of `BypassQueueCtrlRTL` as terms of the model -/
def QBypassQueueCtrlRTLVal {α : Type} (n : Nat) (s : Ring α) (i : In α) : QueueGen.Q.BypassQueueCtrlRTL.Sig :=
  { reset := i.rst,
    enq_en := i.enq,
    enq_rdy := (ringStep true .bypass n s i).2.enqRdy,
    deq_en := i.deq,
    deq_rdy := (ringStep true .bypass n s i).2.deqRdy,
    count := s.count,
    wen := (i.enq && (ringStep true .bypass n s i).2.enqRdy),
    waddr := s.tail,
    raddr := s.head,
    mux_sel := decide (s.count = 0),
    head := s.head,
    tail := s.tail,
    enq_xfer := (i.enq && (ringStep true .bypass n s i).2.enqRdy),
    deq_xfer := (i.deq && (ringStep true .bypass n s i).2.deqRdy) }

theorem gen_Q_BypassQueueCtrlRTL_enq_rdy_eq {α : Type} (n : Nat) (s : Ring α) (i : In α) :
    QueueGen.Q.BypassQueueCtrlRTL.lambda_enq_rdy_enq_rdy n (QBypassQueueCtrlRTLVal n s i) = (QBypassQueueCtrlRTLVal n s i).enq_rdy := by
  gen_tac [QueueGen.Q.BypassQueueCtrlRTL.lambda_enq_rdy_enq_rdy, QBypassQueueCtrlRTLVal, QueueGen.Q.BypassQueueCtrlRTL.c_last_idx, QueueGen.Q.BypassQueueCtrlRTL.c_num_entries]

theorem gen_Q_BypassQueueCtrlRTL_deq_rdy_eq {α : Type} (n : Nat) (s : Ring α) (i : In α) :
    QueueGen.Q.BypassQueueCtrlRTL.lambda_deq_rdy_deq_rdy n (QBypassQueueCtrlRTLVal n s i) = (QBypassQueueCtrlRTLVal n s i).deq_rdy := by
  gen_tac [QueueGen.Q.BypassQueueCtrlRTL.lambda_deq_rdy_deq_rdy, QBypassQueueCtrlRTLVal, QueueGen.Q.BypassQueueCtrlRTL.c_last_idx, QueueGen.Q.BypassQueueCtrlRTL.c_num_entries]

theorem gen_Q_BypassQueueCtrlRTL_mux_sel_eq {α : Type} (n : Nat) (s : Ring α) (i : In α) :
    QueueGen.Q.BypassQueueCtrlRTL.lambda_mux_sel_mux_sel n (QBypassQueueCtrlRTLVal n s i) = (QBypassQueueCtrlRTLVal n s i).mux_sel := by
  gen_tac [QueueGen.Q.BypassQueueCtrlRTL.lambda_mux_sel_mux_sel, QBypassQueueCtrlRTLVal, QueueGen.Q.BypassQueueCtrlRTL.c_last_idx, QueueGen.Q.BypassQueueCtrlRTL.c_num_entries]

theorem gen_Q_BypassQueueCtrlRTL_enq_xfer_eq {α : Type} (n : Nat) (s : Ring α) (i : In α) :
    QueueGen.Q.BypassQueueCtrlRTL.lambda_enq_xfer_enq_xfer n (QBypassQueueCtrlRTLVal n s i) = (QBypassQueueCtrlRTLVal n s i).enq_xfer := by
  gen_tac [QueueGen.Q.BypassQueueCtrlRTL.lambda_enq_xfer_enq_xfer, QBypassQueueCtrlRTLVal, QueueGen.Q.BypassQueueCtrlRTL.c_last_idx, QueueGen.Q.BypassQueueCtrlRTL.c_num_entries]

theorem gen_Q_BypassQueueCtrlRTL_deq_xfer_eq {α : Type} (n : Nat) (s : Ring α) (i : In α) :
    QueueGen.Q.BypassQueueCtrlRTL.lambda_deq_xfer_deq_xfer n (QBypassQueueCtrlRTLVal n s i) = (QBypassQueueCtrlRTLVal n s i).deq_xfer := by
  gen_tac [QueueGen.Q.BypassQueueCtrlRTL.lambda_deq_xfer_deq_xfer, QBypassQueueCtrlRTLVal, QueueGen.Q.BypassQueueCtrlRTL.c_last_idx, QueueGen.Q.BypassQueueCtrlRTL.c_num_entries]

theorem gen_Q_BypassQueueCtrlRTL_head_next_eq {α : Type} (n : Nat) (s : Ring α) (i : In α) :
    QueueGen.Q.BypassQueueCtrlRTL.up_reg_head_next n (QBypassQueueCtrlRTLVal n s i) = (ringStep true .bypass n s i).1.head := by
  gen_tac [QueueGen.Q.BypassQueueCtrlRTL.up_reg_head_next, QBypassQueueCtrlRTLVal, QueueGen.Q.BypassQueueCtrlRTL.c_last_idx, QueueGen.Q.BypassQueueCtrlRTL.c_num_entries]

theorem gen_Q_BypassQueueCtrlRTL_tail_next_eq {α : Type} (n : Nat) (s : Ring α) (i : In α) :
    QueueGen.Q.BypassQueueCtrlRTL.up_reg_tail_next n (QBypassQueueCtrlRTLVal n s i) = (ringStep true .bypass n s i).1.tail := by
  gen_tac [QueueGen.Q.BypassQueueCtrlRTL.up_reg_tail_next, QBypassQueueCtrlRTLVal, QueueGen.Q.BypassQueueCtrlRTL.c_last_idx, QueueGen.Q.BypassQueueCtrlRTL.c_num_entries]

theorem gen_Q_BypassQueueCtrlRTL_count_next_eq {α : Type} (n : Nat) (s : Ring α) (i : In α) :
    QueueGen.Q.BypassQueueCtrlRTL.up_reg_count_next n (QBypassQueueCtrlRTLVal n s i) = (ringStep true .bypass n s i).1.count := by
  gen_tac [QueueGen.Q.BypassQueueCtrlRTL.up_reg_count_next, QBypassQueueCtrlRTLVal, QueueGen.Q.BypassQueueCtrlRTL.c_last_idx, QueueGen.Q.BypassQueueCtrlRTL.c_num_entries]

theorem gen_Q_BypassQueueCtrlRTL_wires {α : Type} (n : Nat) (s : Ring α) (i : In α) : QueueGen.Q.BypassQueueCtrlRTL.wires n (QBypassQueueCtrlRTLVal n s i) := by
  simp [QueueGen.Q.BypassQueueCtrlRTL.wires, QBypassQueueCtrlRTLVal, q1Step, s1Step, er1Step, er1Raw, v1Step]

theorem gen_Q_BypassQueueCtrlRTL_widths (n : Nat) : QueueGen.Q.BypassQueueCtrlRTL.widths n =
    [("enq_en", 1), ("enq_rdy", 1), ("deq_en", 1), ("deq_rdy", 1), ("count", Queue.clog2 (n + 1)), ("wen", 1), ("waddr", Queue.clog2 n), ("raddr", Queue.clog2 n), ("mux_sel", 1), ("head", Queue.clog2 n), ("tail", Queue.clog2 n), ("enq_xfer", 1), ("deq_xfer", 1)] := rfl

theorem gen_Q_BypassQueueCtrlRTL_side (n : Nat) (hn : 2 ≤ n) : QueueGen.Q.BypassQueueCtrlRTL.side n := by
  side_tac [QueueGen.Q.BypassQueueCtrlRTL.side, QueueGen.Q.BypassQueueCtrlRTL.c_last_idx, QueueGen.Q.BypassQueueCtrlRTL.c_num_entries]

theorem gen_Q_BypassQueueCtrlRTL_out {α : Type} (n : Nat) (s : Ring α) (i : In α) :
    (ringStep true .bypass n s i).2.enqRdy = (QBypassQueueCtrlRTLVal n s i).enq_rdy ∧ (ringStep true .bypass n s i).2.count = (QBypassQueueCtrlRTLVal n s i).count := by
  gen_tac [QBypassQueueCtrlRTLVal]

/-! ## S.NormalQueueCtrlRTL -/

/-- the signals of `NormalQueueCtrlRTL` as terms of the model -/
def SNormalQueueCtrlRTLVal {α : Type} (n : Nat) (s : Ring α) (i : In α) : QueueGen.S.NormalQueueCtrlRTL.Sig :=
  { reset := i.rst,
    recv_val := i.enq,
    recv_rdy := (ringStep false .normal n s i).2.enqRdy,
    send_val := (ringStep false .normal n s i).2.deqRdy,
    send_rdy := i.deq,
    count := s.count,
    wen := (i.enq && (ringStep false .normal n s i).2.enqRdy),
    waddr := s.tail,
    raddr := s.head,
    head := s.head,
    tail := s.tail,
    recv_xfer := (i.enq && (ringStep false .normal n s i).2.enqRdy),
    send_xfer := (i.deq && (ringStep false .normal n s i).2.deqRdy) }

theorem gen_S_NormalQueueCtrlRTL_recv_rdy_eq {α : Type} (n : Nat) (s : Ring α) (i : In α) :
    QueueGen.S.NormalQueueCtrlRTL.lambda_recv_rdy_recv_rdy n (SNormalQueueCtrlRTLVal n s i) = (SNormalQueueCtrlRTLVal n s i).recv_rdy := by
  gen_tac [QueueGen.S.NormalQueueCtrlRTL.lambda_recv_rdy_recv_rdy, SNormalQueueCtrlRTLVal]

theorem gen_S_NormalQueueCtrlRTL_send_val_eq {α : Type} (n : Nat) (s : Ring α) (i : In α) :
    QueueGen.S.NormalQueueCtrlRTL.lambda_send_val_send_val n (SNormalQueueCtrlRTLVal n s i) = (SNormalQueueCtrlRTLVal n s i).send_val := by
  gen_tac [QueueGen.S.NormalQueueCtrlRTL.lambda_send_val_send_val, SNormalQueueCtrlRTLVal]

theorem gen_S_NormalQueueCtrlRTL_recv_xfer_eq {α : Type} (n : Nat) (s : Ring α) (i : In α) :
    QueueGen.S.NormalQueueCtrlRTL.lambda_recv_xfer_recv_xfer n (SNormalQueueCtrlRTLVal n s i) = (SNormalQueueCtrlRTLVal n s i).recv_xfer := by
  gen_tac [QueueGen.S.NormalQueueCtrlRTL.lambda_recv_xfer_recv_xfer, SNormalQueueCtrlRTLVal]

theorem gen_S_NormalQueueCtrlRTL_send_xfer_eq {α : Type} (n : Nat) (s : Ring α) (i : In α) :
    QueueGen.S.NormalQueueCtrlRTL.lambda_send_xfer_send_xfer n (SNormalQueueCtrlRTLVal n s i) = (SNormalQueueCtrlRTLVal n s i).send_xfer := by
  gen_tac [QueueGen.S.NormalQueueCtrlRTL.lambda_send_xfer_send_xfer, SNormalQueueCtrlRTLVal]

theorem gen_S_NormalQueueCtrlRTL_head_next_eq {α : Type} (n : Nat) (s : Ring α) (i : In α) :
    QueueGen.S.NormalQueueCtrlRTL.up_reg_head_next n (SNormalQueueCtrlRTLVal n s i) = (ringStep false .normal n s i).1.head := by
  gen_tac [QueueGen.S.NormalQueueCtrlRTL.up_reg_head_next, SNormalQueueCtrlRTLVal]

theorem gen_S_NormalQueueCtrlRTL_tail_next_eq {α : Type} (n : Nat) (s : Ring α) (i : In α) :
    QueueGen.S.NormalQueueCtrlRTL.up_reg_tail_next n (SNormalQueueCtrlRTLVal n s i) = (ringStep false .normal n s i).1.tail := by
  gen_tac [QueueGen.S.NormalQueueCtrlRTL.up_reg_tail_next, SNormalQueueCtrlRTLVal]

theorem gen_S_NormalQueueCtrlRTL_count_next_eq {α : Type} (n : Nat) (s : Ring α) (i : In α) :
    QueueGen.S.NormalQueueCtrlRTL.up_reg_count_next n (SNormalQueueCtrlRTLVal n s i) = (ringStep false .normal n s i).1.count := by
  gen_tac [QueueGen.S.NormalQueueCtrlRTL.up_reg_count_next, SNormalQueueCtrlRTLVal]

theorem gen_S_NormalQueueCtrlRTL_wires {α : Type} (n : Nat) (s : Ring α) (i : In α) : QueueGen.S.NormalQueueCtrlRTL.wires n (SNormalQueueCtrlRTLVal n s i) := by
  simp [QueueGen.S.NormalQueueCtrlRTL.wires, SNormalQueueCtrlRTLVal, q1Step, s1Step, er1Step, er1Raw, v1Step]

theorem gen_S_NormalQueueCtrlRTL_widths (n : Nat) : QueueGen.S.NormalQueueCtrlRTL.widths n =
    [("recv_val", 1), ("recv_rdy", 1), ("send_val", 1), ("send_rdy", 1), ("count", Queue.clog2 (n + 1)), ("wen", 1), ("waddr", Queue.clog2 n), ("raddr", Queue.clog2 n), ("head", Queue.clog2 n), ("tail", Queue.clog2 n), ("recv_xfer", 1), ("send_xfer", 1)] := rfl

theorem gen_S_NormalQueueCtrlRTL_side (n : Nat) (hn : 2 ≤ n) : QueueGen.S.NormalQueueCtrlRTL.side n := by
  side_tac [QueueGen.S.NormalQueueCtrlRTL.side]

theorem gen_S_NormalQueueCtrlRTL_out {α : Type} (n : Nat) (s : Ring α) (i : In α) :
    (ringStep false .normal n s i).2.enqRdy = (SNormalQueueCtrlRTLVal n s i).recv_rdy ∧ (ringStep false .normal n s i).2.count = (SNormalQueueCtrlRTLVal n s i).count := by
  gen_tac [SNormalQueueCtrlRTLVal]

/-! ## S.PipeQueueCtrlRTL -/

/-- the signals of `PipeQueueCtrlRTL` as terms of the model -/
def SPipeQueueCtrlRTLVal {α : Type} (n : Nat) (s : Ring α) (i : In α) : QueueGen.S.PipeQueueCtrlRTL.Sig :=
  { reset := i.rst,
    recv_val := i.enq,
    recv_rdy := (ringStep false .pipe n s i).2.enqRdy,
    send_val := (ringStep false .pipe n s i).2.deqRdy,
    send_rdy := i.deq,
    count := s.count,
    wen := (i.enq && (ringStep false .pipe n s i).2.enqRdy),
    waddr := s.tail,
    raddr := s.head,
    head := s.head,
    tail := s.tail,
    recv_xfer := (i.enq && (ringStep false .pipe n s i).2.enqRdy),
    send_xfer := (i.deq && (ringStep false .pipe n s i).2.deqRdy) }

theorem gen_S_PipeQueueCtrlRTL_send_val_eq {α : Type} (n : Nat) (s : Ring α) (i : In α) :
    QueueGen.S.PipeQueueCtrlRTL.lambda_send_val_send_val n (SPipeQueueCtrlRTLVal n s i) = (SPipeQueueCtrlRTLVal n s i).send_val := by
  gen_tac [QueueGen.S.PipeQueueCtrlRTL.lambda_send_val_send_val, SPipeQueueCtrlRTLVal]

theorem gen_S_PipeQueueCtrlRTL_recv_rdy_eq {α : Type} (n : Nat) (s : Ring α) (i : In α) :
    QueueGen.S.PipeQueueCtrlRTL.lambda_recv_rdy_recv_rdy n (SPipeQueueCtrlRTLVal n s i) = (SPipeQueueCtrlRTLVal n s i).recv_rdy := by
  gen_tac [QueueGen.S.PipeQueueCtrlRTL.lambda_recv_rdy_recv_rdy, SPipeQueueCtrlRTLVal]

theorem gen_S_PipeQueueCtrlRTL_recv_xfer_eq {α : Type} (n : Nat) (s : Ring α) (i : In α) :
    QueueGen.S.PipeQueueCtrlRTL.lambda_recv_xfer_recv_xfer n (SPipeQueueCtrlRTLVal n s i) = (SPipeQueueCtrlRTLVal n s i).recv_xfer := by
  gen_tac [QueueGen.S.PipeQueueCtrlRTL.lambda_recv_xfer_recv_xfer, SPipeQueueCtrlRTLVal]

theorem gen_S_PipeQueueCtrlRTL_send_xfer_eq {α : Type} (n : Nat) (s : Ring α) (i : In α) :
    QueueGen.S.PipeQueueCtrlRTL.lambda_send_xfer_send_xfer n (SPipeQueueCtrlRTLVal n s i) = (SPipeQueueCtrlRTLVal n s i).send_xfer := by
  gen_tac [QueueGen.S.PipeQueueCtrlRTL.lambda_send_xfer_send_xfer, SPipeQueueCtrlRTLVal]

theorem gen_S_PipeQueueCtrlRTL_head_next_eq {α : Type} (n : Nat) (s : Ring α) (i : In α) :
    QueueGen.S.PipeQueueCtrlRTL.up_reg_head_next n (SPipeQueueCtrlRTLVal n s i) = (ringStep false .pipe n s i).1.head := by
  gen_tac [QueueGen.S.PipeQueueCtrlRTL.up_reg_head_next, SPipeQueueCtrlRTLVal]

theorem gen_S_PipeQueueCtrlRTL_tail_next_eq {α : Type} (n : Nat) (s : Ring α) (i : In α) :
    QueueGen.S.PipeQueueCtrlRTL.up_reg_tail_next n (SPipeQueueCtrlRTLVal n s i) = (ringStep false .pipe n s i).1.tail := by
  gen_tac [QueueGen.S.PipeQueueCtrlRTL.up_reg_tail_next, SPipeQueueCtrlRTLVal]

theorem gen_S_PipeQueueCtrlRTL_count_next_eq {α : Type} (n : Nat) (s : Ring α) (i : In α) :
    QueueGen.S.PipeQueueCtrlRTL.up_reg_count_next n (SPipeQueueCtrlRTLVal n s i) = (ringStep false .pipe n s i).1.count := by
  gen_tac [QueueGen.S.PipeQueueCtrlRTL.up_reg_count_next, SPipeQueueCtrlRTLVal]

theorem gen_S_PipeQueueCtrlRTL_wires {α : Type} (n : Nat) (s : Ring α) (i : In α) : QueueGen.S.PipeQueueCtrlRTL.wires n (SPipeQueueCtrlRTLVal n s i) := by
  simp [QueueGen.S.PipeQueueCtrlRTL.wires, SPipeQueueCtrlRTLVal, q1Step, s1Step, er1Step, er1Raw, v1Step]

theorem gen_S_PipeQueueCtrlRTL_widths (n : Nat) : QueueGen.S.PipeQueueCtrlRTL.widths n =
    [("recv_val", 1), ("recv_rdy", 1), ("send_val", 1), ("send_rdy", 1), ("count", Queue.clog2 (n + 1)), ("wen", 1), ("waddr", Queue.clog2 n), ("raddr", Queue.clog2 n), ("head", Queue.clog2 n), ("tail", Queue.clog2 n), ("recv_xfer", 1), ("send_xfer", 1)] := rfl

theorem gen_S_PipeQueueCtrlRTL_side (n : Nat) (hn : 2 ≤ n) : QueueGen.S.PipeQueueCtrlRTL.side n := by
  side_tac [QueueGen.S.PipeQueueCtrlRTL.side]

theorem gen_S_PipeQueueCtrlRTL_out {α : Type} (n : Nat) (s : Ring α) (i : In α) :
    (ringStep false .pipe n s i).2.enqRdy = (SPipeQueueCtrlRTLVal n s i).recv_rdy ∧ (ringStep false .pipe n s i).2.count = (SPipeQueueCtrlRTLVal n s i).count := by
  gen_tac [SPipeQueueCtrlRTLVal]

/-! ## S.BypassQueueCtrlRTL -/

/-- the signals of `BypassQueueCtrlRTL` as terms of the model -/
def SBypassQueueCtrlRTLVal {α : Type} (n : Nat) (s : Ring α) (i : In α) : QueueGen.S.BypassQueueCtrlRTL.Sig :=
  { reset := i.rst,
    recv_val := i.enq,
    recv_rdy := (ringStep false .bypass n s i).2.enqRdy,
    send_val := (ringStep false .bypass n s i).2.deqRdy,
    send_rdy := i.deq,
    count := s.count,
    wen := (i.enq && (ringStep false .bypass n s i).2.enqRdy),
    waddr := s.tail,
    raddr := s.head,
    mux_sel := decide (s.count = 0),
    head := s.head,
    tail := s.tail,
    recv_xfer := (i.enq && (ringStep false .bypass n s i).2.enqRdy),
    send_xfer := (i.deq && (ringStep false .bypass n s i).2.deqRdy) }

theorem gen_S_BypassQueueCtrlRTL_recv_rdy_eq {α : Type} (n : Nat) (s : Ring α) (i : In α) :
    QueueGen.S.BypassQueueCtrlRTL.lambda_recv_rdy_recv_rdy n (SBypassQueueCtrlRTLVal n s i) = (SBypassQueueCtrlRTLVal n s i).recv_rdy := by
  gen_tac [QueueGen.S.BypassQueueCtrlRTL.lambda_recv_rdy_recv_rdy, SBypassQueueCtrlRTLVal]

theorem gen_S_BypassQueueCtrlRTL_send_val_eq {α : Type} (n : Nat) (s : Ring α) (i : In α) :
    QueueGen.S.BypassQueueCtrlRTL.lambda_send_val_send_val n (SBypassQueueCtrlRTLVal n s i) = (SBypassQueueCtrlRTLVal n s i).send_val := by
  gen_tac [QueueGen.S.BypassQueueCtrlRTL.lambda_send_val_send_val, SBypassQueueCtrlRTLVal]

theorem gen_S_BypassQueueCtrlRTL_mux_sel_eq {α : Type} (n : Nat) (s : Ring α) (i : In α) :
    QueueGen.S.BypassQueueCtrlRTL.lambda_mux_sel_mux_sel n (SBypassQueueCtrlRTLVal n s i) = (SBypassQueueCtrlRTLVal n s i).mux_sel := by
  gen_tac [QueueGen.S.BypassQueueCtrlRTL.lambda_mux_sel_mux_sel, SBypassQueueCtrlRTLVal]

theorem gen_S_BypassQueueCtrlRTL_recv_xfer_eq {α : Type} (n : Nat) (s : Ring α) (i : In α) :
    QueueGen.S.BypassQueueCtrlRTL.lambda_recv_xfer_recv_xfer n (SBypassQueueCtrlRTLVal n s i) = (SBypassQueueCtrlRTLVal n s i).recv_xfer := by
  gen_tac [QueueGen.S.BypassQueueCtrlRTL.lambda_recv_xfer_recv_xfer, SBypassQueueCtrlRTLVal]

theorem gen_S_BypassQueueCtrlRTL_send_xfer_eq {α : Type} (n : Nat) (s : Ring α) (i : In α) :
    QueueGen.S.BypassQueueCtrlRTL.lambda_send_xfer_send_xfer n (SBypassQueueCtrlRTLVal n s i) = (SBypassQueueCtrlRTLVal n s i).send_xfer := by
  gen_tac [QueueGen.S.BypassQueueCtrlRTL.lambda_send_xfer_send_xfer, SBypassQueueCtrlRTLVal]

theorem gen_S_BypassQueueCtrlRTL_head_next_eq {α : Type} (n : Nat) (s : Ring α) (i : In α) :
    QueueGen.S.BypassQueueCtrlRTL.up_reg_head_next n (SBypassQueueCtrlRTLVal n s i) = (ringStep false .bypass n s i).1.head := by
  gen_tac [QueueGen.S.BypassQueueCtrlRTL.up_reg_head_next, SBypassQueueCtrlRTLVal]

theorem gen_S_BypassQueueCtrlRTL_tail_next_eq {α : Type} (n : Nat) (s : Ring α) (i : In α) :
    QueueGen.S.BypassQueueCtrlRTL.up_reg_tail_next n (SBypassQueueCtrlRTLVal n s i) = (ringStep false .bypass n s i).1.tail := by
  gen_tac [QueueGen.S.BypassQueueCtrlRTL.up_reg_tail_next, SBypassQueueCtrlRTLVal]

theorem gen_S_BypassQueueCtrlRTL_count_next_eq {α : Type} (n : Nat) (s : Ring α) (i : In α) :
    QueueGen.S.BypassQueueCtrlRTL.up_reg_count_next n (SBypassQueueCtrlRTLVal n s i) = (ringStep false .bypass n s i).1.count := by
  gen_tac [QueueGen.S.BypassQueueCtrlRTL.up_reg_count_next, SBypassQueueCtrlRTLVal]

theorem gen_S_BypassQueueCtrlRTL_wires {α : Type} (n : Nat) (s : Ring α) (i : In α) : QueueGen.S.BypassQueueCtrlRTL.wires n (SBypassQueueCtrlRTLVal n s i) := by
  simp [QueueGen.S.BypassQueueCtrlRTL.wires, SBypassQueueCtrlRTLVal, q1Step, s1Step, er1Step, er1Raw, v1Step]

theorem gen_S_BypassQueueCtrlRTL_widths (n : Nat) : QueueGen.S.BypassQueueCtrlRTL.widths n =
    [("recv_val", 1), ("recv_rdy", 1), ("send_val", 1), ("send_rdy", 1), ("count", Queue.clog2 (n + 1)), ("wen", 1), ("waddr", Queue.clog2 n), ("raddr", Queue.clog2 n), ("mux_sel", 1), ("head", Queue.clog2 n), ("tail", Queue.clog2 n), ("recv_xfer", 1), ("send_xfer", 1)] := rfl

theorem gen_S_BypassQueueCtrlRTL_side (n : Nat) (hn : 2 ≤ n) : QueueGen.S.BypassQueueCtrlRTL.side n := by
  side_tac [QueueGen.S.BypassQueueCtrlRTL.side]

theorem gen_S_BypassQueueCtrlRTL_out {α : Type} (n : Nat) (s : Ring α) (i : In α) :
    (ringStep false .bypass n s i).2.enqRdy = (SBypassQueueCtrlRTLVal n s i).recv_rdy ∧ (ringStep false .bypass n s i).2.count = (SBypassQueueCtrlRTLVal n s i).count := by
  gen_tac [SBypassQueueCtrlRTLVal]

/-! ## Q.NormalQueueDpathRTL -/

/-- the signals of `NormalQueueDpathRTL` as terms of the model -/
def QNormalQueueDpathRTLVal {α : Type} (k : Kind) (n : Nat) (s : Ring α) (i : In α) : QueueGen.Q.NormalQueueDpathRTL.Sig α :=
  { reset := i.rst,
    enq_msg := i.msg,
    deq_ret := (s.regs s.head),
    wen := (i.enq && (ringStep true k n s i).2.enqRdy),
    waddr := s.tail,
    raddr := s.head,
    queue__raddr_0 := s.head,
    queue__rdata_0 := (s.regs s.head),
    queue__waddr_0 := s.tail,
    queue__wdata_0 := i.msg,
    queue__wen_0 := (i.enq && (ringStep true k n s i).2.enqRdy),
    queue__regs := s.regs }

theorem gen_Q_NormalQueueDpathRTL_queue__rdata_0_eq {α : Type} (k : Kind) (n : Nat) (s : Ring α) (i : In α) :
    QueueGen.Q.NormalQueueDpathRTL.queue__up_rf_read_rdata_0 n (QNormalQueueDpathRTLVal k n s i) = (QNormalQueueDpathRTLVal k n s i).queue__rdata_0 := by
  gen_tac [QueueGen.Q.NormalQueueDpathRTL.queue__up_rf_read_rdata_0, QueueGen.Basic.RegisterFile_1_1.up_rf_read_rdata_0, QNormalQueueDpathRTLVal]

theorem gen_Q_NormalQueueDpathRTL_queue__regs_next_eq {α : Type} (k : Kind) (n : Nat) (s : Ring α) (i : In α) :
    QueueGen.Q.NormalQueueDpathRTL.queue__up_rf_write_regs_next n (QNormalQueueDpathRTLVal k n s i) = (ringStep true k n s i).1.regs := by
  gen_tac [QueueGen.Q.NormalQueueDpathRTL.queue__up_rf_write_regs_next, QueueGen.Basic.RegisterFile_1_1.up_rf_write_regs_next, QNormalQueueDpathRTLVal]

theorem gen_Q_NormalQueueDpathRTL_wires {α : Type} (k : Kind) (n : Nat) (s : Ring α) (i : In α) : QueueGen.Q.NormalQueueDpathRTL.wires n (QNormalQueueDpathRTLVal k n s i) := by
  simp [QueueGen.Q.NormalQueueDpathRTL.wires, QNormalQueueDpathRTLVal, q1Step, s1Step, er1Step, er1Raw, v1Step]

theorem gen_Q_NormalQueueDpathRTL_widths (n : Nat) : QueueGen.Q.NormalQueueDpathRTL.widths n =
    [("enq_msg", 0), ("deq_ret", 0), ("wen", 1), ("waddr", Queue.clog2 n), ("raddr", Queue.clog2 n)] := rfl

theorem gen_Q_NormalQueueDpathRTL_side (n : Nat) (hn : 2 ≤ n) : QueueGen.Q.NormalQueueDpathRTL.side n := by
  side_tac [QueueGen.Q.NormalQueueDpathRTL.side]

theorem gen_Q_NormalQueueDpathRTL_out {α : Type} (k : Kind) (n : Nat) (s : Ring α) (i : In α) :
    k ≠ .bypass → (ringStep true k n s i).2.ret = if (ringStep true k n s i).2.deqRdy then some (QNormalQueueDpathRTLVal k n s i).deq_ret else none := by
  gen_tac [QNormalQueueDpathRTLVal]

/-! ## Q.BypassQueueDpathRTL -/

/-- the signals of `BypassQueueDpathRTL` as terms of the model -/
def QBypassQueueDpathRTLVal {α : Type} (n : Nat) (s : Ring α) (i : In α) : QueueGen.Q.BypassQueueDpathRTL.Sig α :=
  { reset := i.rst,
    enq_msg := i.msg,
    deq_ret := (if s.count = 0 then i.msg else s.regs s.head),
    wen := (i.enq && (ringStep true .bypass n s i).2.enqRdy),
    waddr := s.tail,
    raddr := s.head,
    mux_sel := decide (s.count = 0),
    queue__raddr_0 := s.head,
    queue__rdata_0 := (s.regs s.head),
    queue__waddr_0 := s.tail,
    queue__wdata_0 := i.msg,
    queue__wen_0 := (i.enq && (ringStep true .bypass n s i).2.enqRdy),
    queue__regs := s.regs,
    mux__in__0 := (s.regs s.head),
    mux__in__1 := i.msg,
    mux__out := (if s.count = 0 then i.msg else s.regs s.head),
    mux__sel := decide (s.count = 0) }

theorem gen_Q_BypassQueueDpathRTL_queue__rdata_0_eq {α : Type} (n : Nat) (s : Ring α) (i : In α) :
    QueueGen.Q.BypassQueueDpathRTL.queue__up_rf_read_rdata_0 n (QBypassQueueDpathRTLVal n s i) = (QBypassQueueDpathRTLVal n s i).queue__rdata_0 := by
  gen_tac [QueueGen.Q.BypassQueueDpathRTL.queue__up_rf_read_rdata_0, QueueGen.Basic.RegisterFile_1_1.up_rf_read_rdata_0, QBypassQueueDpathRTLVal]

theorem gen_Q_BypassQueueDpathRTL_queue__regs_next_eq {α : Type} (n : Nat) (s : Ring α) (i : In α) :
    QueueGen.Q.BypassQueueDpathRTL.queue__up_rf_write_regs_next n (QBypassQueueDpathRTLVal n s i) = (ringStep true .bypass n s i).1.regs := by
  gen_tac [QueueGen.Q.BypassQueueDpathRTL.queue__up_rf_write_regs_next, QueueGen.Basic.RegisterFile_1_1.up_rf_write_regs_next, QBypassQueueDpathRTLVal]

theorem gen_Q_BypassQueueDpathRTL_mux__out_eq {α : Type} (n : Nat) (s : Ring α) (i : In α) :
    QueueGen.Q.BypassQueueDpathRTL.mux__up_mux_out n (QBypassQueueDpathRTLVal n s i) = (QBypassQueueDpathRTLVal n s i).mux__out := by
  gen_tac [QueueGen.Q.BypassQueueDpathRTL.mux__up_mux_out, QueueGen.Basic.Mux_2.up_mux_out, QBypassQueueDpathRTLVal]

theorem gen_Q_BypassQueueDpathRTL_wires {α : Type} (n : Nat) (s : Ring α) (i : In α) : QueueGen.Q.BypassQueueDpathRTL.wires n (QBypassQueueDpathRTLVal n s i) := by
  simp [QueueGen.Q.BypassQueueDpathRTL.wires, QBypassQueueDpathRTLVal, q1Step, s1Step, er1Step, er1Raw, v1Step]

theorem gen_Q_BypassQueueDpathRTL_widths (n : Nat) : QueueGen.Q.BypassQueueDpathRTL.widths n =
    [("enq_msg", 0), ("deq_ret", 0), ("wen", 1), ("waddr", Queue.clog2 n), ("raddr", Queue.clog2 n), ("mux_sel", 1)] := rfl

theorem gen_Q_BypassQueueDpathRTL_side (n : Nat) (hn : 2 ≤ n) : QueueGen.Q.BypassQueueDpathRTL.side n := by
  side_tac [QueueGen.Q.BypassQueueDpathRTL.side]

theorem gen_Q_BypassQueueDpathRTL_out {α : Type} (n : Nat) (s : Ring α) (i : In α) :
    (ringStep true .bypass n s i).2.ret = if (ringStep true .bypass n s i).2.deqRdy then some (QBypassQueueDpathRTLVal n s i).deq_ret else none := by
  gen_tac [QBypassQueueDpathRTLVal]

/-! ## S.NormalQueueDpathRTL -/

/-- the signals of `NormalQueueDpathRTL` as terms of the model -/
def SNormalQueueDpathRTLVal {α : Type} (k : Kind) (n : Nat) (s : Ring α) (i : In α) : QueueGen.S.NormalQueueDpathRTL.Sig α :=
  { reset := i.rst,
    recv_msg := i.msg,
    send_msg := (s.regs s.head),
    wen := (i.enq && (ringStep false k n s i).2.enqRdy),
    waddr := s.tail,
    raddr := s.head,
    rf__raddr_0 := s.head,
    rf__rdata_0 := (s.regs s.head),
    rf__waddr_0 := s.tail,
    rf__wdata_0 := i.msg,
    rf__wen_0 := (i.enq && (ringStep false k n s i).2.enqRdy),
    rf__regs := s.regs }

theorem gen_S_NormalQueueDpathRTL_rf__rdata_0_eq {α : Type} (k : Kind) (n : Nat) (s : Ring α) (i : In α) :
    QueueGen.S.NormalQueueDpathRTL.rf__up_rf_read_rdata_0 n (SNormalQueueDpathRTLVal k n s i) = (SNormalQueueDpathRTLVal k n s i).rf__rdata_0 := by
  gen_tac [QueueGen.S.NormalQueueDpathRTL.rf__up_rf_read_rdata_0, QueueGen.Basic.RegisterFile_1_1.up_rf_read_rdata_0, SNormalQueueDpathRTLVal]

theorem gen_S_NormalQueueDpathRTL_rf__regs_next_eq {α : Type} (k : Kind) (n : Nat) (s : Ring α) (i : In α) :
    QueueGen.S.NormalQueueDpathRTL.rf__up_rf_write_regs_next n (SNormalQueueDpathRTLVal k n s i) = (ringStep false k n s i).1.regs := by
  gen_tac [QueueGen.S.NormalQueueDpathRTL.rf__up_rf_write_regs_next, QueueGen.Basic.RegisterFile_1_1.up_rf_write_regs_next, SNormalQueueDpathRTLVal]

theorem gen_S_NormalQueueDpathRTL_wires {α : Type} (k : Kind) (n : Nat) (s : Ring α) (i : In α) : QueueGen.S.NormalQueueDpathRTL.wires n (SNormalQueueDpathRTLVal k n s i) := by
  simp [QueueGen.S.NormalQueueDpathRTL.wires, SNormalQueueDpathRTLVal, q1Step, s1Step, er1Step, er1Raw, v1Step]

theorem gen_S_NormalQueueDpathRTL_widths (n : Nat) : QueueGen.S.NormalQueueDpathRTL.widths n =
    [("recv_msg", 0), ("send_msg", 0), ("wen", 1), ("waddr", Queue.clog2 n), ("raddr", Queue.clog2 n)] := rfl

theorem gen_S_NormalQueueDpathRTL_side (n : Nat) (hn : 2 ≤ n) : QueueGen.S.NormalQueueDpathRTL.side n := by
  side_tac [QueueGen.S.NormalQueueDpathRTL.side]

theorem gen_S_NormalQueueDpathRTL_out {α : Type} (k : Kind) (n : Nat) (s : Ring α) (i : In α) :
    k ≠ .bypass → (ringStep false k n s i).2.ret = if (ringStep false k n s i).2.deqRdy then some (SNormalQueueDpathRTLVal k n s i).send_msg else none := by
  gen_tac [SNormalQueueDpathRTLVal]

/-! ## S.BypassQueueDpathRTL -/

/-- the signals of `BypassQueueDpathRTL` as terms of the model -/
def SBypassQueueDpathRTLVal {α : Type} (n : Nat) (s : Ring α) (i : In α) : QueueGen.S.BypassQueueDpathRTL.Sig α :=
  { reset := i.rst,
    recv_msg := i.msg,
    send_msg := (if s.count = 0 then i.msg else s.regs s.head),
    wen := (i.enq && (ringStep false .bypass n s i).2.enqRdy),
    waddr := s.tail,
    raddr := s.head,
    mux_sel := decide (s.count = 0),
    rf__raddr_0 := s.head,
    rf__rdata_0 := (s.regs s.head),
    rf__waddr_0 := s.tail,
    rf__wdata_0 := i.msg,
    rf__wen_0 := (i.enq && (ringStep false .bypass n s i).2.enqRdy),
    rf__regs := s.regs,
    mux__in__0 := (s.regs s.head),
    mux__in__1 := i.msg,
    mux__out := (if s.count = 0 then i.msg else s.regs s.head),
    mux__sel := decide (s.count = 0) }

theorem gen_S_BypassQueueDpathRTL_rf__rdata_0_eq {α : Type} (n : Nat) (s : Ring α) (i : In α) :
    QueueGen.S.BypassQueueDpathRTL.rf__up_rf_read_rdata_0 n (SBypassQueueDpathRTLVal n s i) = (SBypassQueueDpathRTLVal n s i).rf__rdata_0 := by
  gen_tac [QueueGen.S.BypassQueueDpathRTL.rf__up_rf_read_rdata_0, QueueGen.Basic.RegisterFile_1_1.up_rf_read_rdata_0, SBypassQueueDpathRTLVal]

theorem gen_S_BypassQueueDpathRTL_rf__regs_next_eq {α : Type} (n : Nat) (s : Ring α) (i : In α) :
    QueueGen.S.BypassQueueDpathRTL.rf__up_rf_write_regs_next n (SBypassQueueDpathRTLVal n s i) = (ringStep false .bypass n s i).1.regs := by
  gen_tac [QueueGen.S.BypassQueueDpathRTL.rf__up_rf_write_regs_next, QueueGen.Basic.RegisterFile_1_1.up_rf_write_regs_next, SBypassQueueDpathRTLVal]

theorem gen_S_BypassQueueDpathRTL_mux__out_eq {α : Type} (n : Nat) (s : Ring α) (i : In α) :
    QueueGen.S.BypassQueueDpathRTL.mux__up_mux_out n (SBypassQueueDpathRTLVal n s i) = (SBypassQueueDpathRTLVal n s i).mux__out := by
  gen_tac [QueueGen.S.BypassQueueDpathRTL.mux__up_mux_out, QueueGen.Basic.Mux_2.up_mux_out, SBypassQueueDpathRTLVal]

theorem gen_S_BypassQueueDpathRTL_wires {α : Type} (n : Nat) (s : Ring α) (i : In α) : QueueGen.S.BypassQueueDpathRTL.wires n (SBypassQueueDpathRTLVal n s i) := by
  simp [QueueGen.S.BypassQueueDpathRTL.wires, SBypassQueueDpathRTLVal, q1Step, s1Step, er1Step, er1Raw, v1Step]

theorem gen_S_BypassQueueDpathRTL_widths (n : Nat) : QueueGen.S.BypassQueueDpathRTL.widths n =
    [("recv_msg", 0), ("send_msg", 0), ("wen", 1), ("waddr", Queue.clog2 n), ("raddr", Queue.clog2 n), ("mux_sel", 1)] := rfl

theorem gen_S_BypassQueueDpathRTL_side (n : Nat) (hn : 2 ≤ n) : QueueGen.S.BypassQueueDpathRTL.side n := by
  side_tac [QueueGen.S.BypassQueueDpathRTL.side]

theorem gen_S_BypassQueueDpathRTL_out {α : Type} (n : Nat) (s : Ring α) (i : In α) :
    (ringStep false .bypass n s i).2.ret = if (ringStep false .bypass n s i).2.deqRdy then some (SBypassQueueDpathRTLVal n s i).send_msg else none := by
  gen_tac [SBypassQueueDpathRTLVal]

/-! ## Q.NormalQueue1EntryRTL -/

/-- the signals of `NormalQueue1EntryRTL` as terms of the model -/
def QNormalQueue1EntryRTLVal {α : Type} (s : Queue.One α) (i : In α) : QueueGen.Q.NormalQueue1EntryRTL.Sig α :=
  { reset := i.rst,
    enq_en := i.enq,
    enq_rdy := (q1Step .normal s i).2.enqRdy,
    enq_msg := i.msg,
    deq_en := i.deq,
    deq_rdy := (q1Step .normal s i).2.deqRdy,
    deq_ret := s.entry,
    count := s.full,
    entry := s.entry,
    full := s.full }

theorem gen_Q_NormalQueue1EntryRTL_enq_rdy_eq {α : Type} (s : Queue.One α) (i : In α) :
    QueueGen.Q.NormalQueue1EntryRTL.lambda_enq_rdy_enq_rdy (QNormalQueue1EntryRTLVal s i) = (QNormalQueue1EntryRTLVal s i).enq_rdy := by
  gen_tac [QueueGen.Q.NormalQueue1EntryRTL.lambda_enq_rdy_enq_rdy, QNormalQueue1EntryRTLVal]

theorem gen_Q_NormalQueue1EntryRTL_deq_rdy_eq {α : Type} (s : Queue.One α) (i : In α) :
    QueueGen.Q.NormalQueue1EntryRTL.lambda_deq_rdy_deq_rdy (QNormalQueue1EntryRTLVal s i) = (QNormalQueue1EntryRTLVal s i).deq_rdy := by
  gen_tac [QueueGen.Q.NormalQueue1EntryRTL.lambda_deq_rdy_deq_rdy, QNormalQueue1EntryRTLVal]

theorem gen_Q_NormalQueue1EntryRTL_full_next_eq {α : Type} (s : Queue.One α) (i : In α) :
    QueueGen.Q.NormalQueue1EntryRTL.ff_normal1_full_next (QNormalQueue1EntryRTLVal s i) = (q1Step .normal s i).1.full := by
  gen_tac [QueueGen.Q.NormalQueue1EntryRTL.ff_normal1_full_next, QNormalQueue1EntryRTLVal]

theorem gen_Q_NormalQueue1EntryRTL_entry_next_eq {α : Type} (s : Queue.One α) (i : In α) :
    QueueGen.Q.NormalQueue1EntryRTL.ff_normal1_entry_next (QNormalQueue1EntryRTLVal s i) = (q1Step .normal s i).1.entry := by
  gen_tac [QueueGen.Q.NormalQueue1EntryRTL.ff_normal1_entry_next, QNormalQueue1EntryRTLVal]

theorem gen_Q_NormalQueue1EntryRTL_wires {α : Type} (s : Queue.One α) (i : In α) : QueueGen.Q.NormalQueue1EntryRTL.wires (QNormalQueue1EntryRTLVal s i) := by
  simp [QueueGen.Q.NormalQueue1EntryRTL.wires, QNormalQueue1EntryRTLVal, q1Step, s1Step, er1Step, er1Raw, v1Step]

theorem gen_Q_NormalQueue1EntryRTL_widths : QueueGen.Q.NormalQueue1EntryRTL.widths =
    [("enq_en", 1), ("enq_rdy", 1), ("enq_msg", 0), ("deq_en", 1), ("deq_rdy", 1), ("deq_ret", 0), ("count", 1), ("entry", 0), ("full", 1)] := rfl

theorem gen_Q_NormalQueue1EntryRTL_side : QueueGen.Q.NormalQueue1EntryRTL.side := by
  simp [QueueGen.Q.NormalQueue1EntryRTL.side]

theorem gen_Q_NormalQueue1EntryRTL_out {α : Type} (s : Queue.One α) (i : In α) :
    (q1Step .normal s i).2.ret = (if (q1Step .normal s i).2.deqRdy then some (QNormalQueue1EntryRTLVal s i).deq_ret else none) ∧ (q1Step .normal s i).2.count = b2n s.full := by
  gen_tac [QNormalQueue1EntryRTLVal]

/-! ## Q.PipeQueue1EntryRTL -/

/-- the signals of `PipeQueue1EntryRTL` as terms of the model -/
def QPipeQueue1EntryRTLVal {α : Type} (s : Queue.One α) (i : In α) : QueueGen.Q.PipeQueue1EntryRTL.Sig α :=
  { reset := i.rst,
    enq_en := i.enq,
    enq_rdy := (q1Step .pipe s i).2.enqRdy,
    enq_msg := i.msg,
    deq_en := i.deq,
    deq_rdy := (q1Step .pipe s i).2.deqRdy,
    deq_ret := s.entry,
    count := s.full,
    entry := s.entry,
    full := s.full }

theorem gen_Q_PipeQueue1EntryRTL_enq_rdy_eq {α : Type} (s : Queue.One α) (i : In α) :
    QueueGen.Q.PipeQueue1EntryRTL.lambda_enq_rdy_enq_rdy (QPipeQueue1EntryRTLVal s i) = (QPipeQueue1EntryRTLVal s i).enq_rdy := by
  gen_tac [QueueGen.Q.PipeQueue1EntryRTL.lambda_enq_rdy_enq_rdy, QPipeQueue1EntryRTLVal]

theorem gen_Q_PipeQueue1EntryRTL_deq_rdy_eq {α : Type} (s : Queue.One α) (i : In α) :
    QueueGen.Q.PipeQueue1EntryRTL.lambda_deq_rdy_deq_rdy (QPipeQueue1EntryRTLVal s i) = (QPipeQueue1EntryRTLVal s i).deq_rdy := by
  gen_tac [QueueGen.Q.PipeQueue1EntryRTL.lambda_deq_rdy_deq_rdy, QPipeQueue1EntryRTLVal]

theorem gen_Q_PipeQueue1EntryRTL_full_next_eq {α : Type} (s : Queue.One α) (i : In α) :
    QueueGen.Q.PipeQueue1EntryRTL.ff_pipe1_full_next (QPipeQueue1EntryRTLVal s i) = (q1Step .pipe s i).1.full := by
  gen_tac [QueueGen.Q.PipeQueue1EntryRTL.ff_pipe1_full_next, QPipeQueue1EntryRTLVal]

theorem gen_Q_PipeQueue1EntryRTL_entry_next_eq {α : Type} (s : Queue.One α) (i : In α) :
    QueueGen.Q.PipeQueue1EntryRTL.ff_pipe1_entry_next (QPipeQueue1EntryRTLVal s i) = (q1Step .pipe s i).1.entry := by
  gen_tac [QueueGen.Q.PipeQueue1EntryRTL.ff_pipe1_entry_next, QPipeQueue1EntryRTLVal]

theorem gen_Q_PipeQueue1EntryRTL_wires {α : Type} (s : Queue.One α) (i : In α) : QueueGen.Q.PipeQueue1EntryRTL.wires (QPipeQueue1EntryRTLVal s i) := by
  simp [QueueGen.Q.PipeQueue1EntryRTL.wires, QPipeQueue1EntryRTLVal, q1Step, s1Step, er1Step, er1Raw, v1Step]

theorem gen_Q_PipeQueue1EntryRTL_widths : QueueGen.Q.PipeQueue1EntryRTL.widths =
    [("enq_en", 1), ("enq_rdy", 1), ("enq_msg", 0), ("deq_en", 1), ("deq_rdy", 1), ("deq_ret", 0), ("count", 1), ("entry", 0), ("full", 1)] := rfl

theorem gen_Q_PipeQueue1EntryRTL_side : QueueGen.Q.PipeQueue1EntryRTL.side := by
  simp [QueueGen.Q.PipeQueue1EntryRTL.side]

theorem gen_Q_PipeQueue1EntryRTL_out {α : Type} (s : Queue.One α) (i : In α) :
    (q1Step .pipe s i).2.ret = (if (q1Step .pipe s i).2.deqRdy then some (QPipeQueue1EntryRTLVal s i).deq_ret else none) ∧ (q1Step .pipe s i).2.count = b2n s.full := by
  gen_tac [QPipeQueue1EntryRTLVal]

/-! ## Q.BypassQueue1EntryRTL -/

/-- the signals of `BypassQueue1EntryRTL` as terms of the model -/
def QBypassQueue1EntryRTLVal {α : Type} (s : Queue.One α) (i : In α) : QueueGen.Q.BypassQueue1EntryRTL.Sig α :=
  { reset := i.rst,
    enq_en := i.enq,
    enq_rdy := (q1Step .bypass s i).2.enqRdy,
    enq_msg := i.msg,
    deq_en := i.deq,
    deq_rdy := (q1Step .bypass s i).2.deqRdy,
    deq_ret := (if s.full then s.entry else i.msg),
    count := s.full,
    entry := s.entry,
    full := s.full,
    bypass_mux__in__0 := i.msg,
    bypass_mux__in__1 := s.entry,
    bypass_mux__out := (if s.full then s.entry else i.msg),
    bypass_mux__sel := s.full }

theorem gen_Q_BypassQueue1EntryRTL_enq_rdy_eq {α : Type} (s : Queue.One α) (i : In α) :
    QueueGen.Q.BypassQueue1EntryRTL.lambda_enq_rdy_enq_rdy (QBypassQueue1EntryRTLVal s i) = (QBypassQueue1EntryRTLVal s i).enq_rdy := by
  gen_tac [QueueGen.Q.BypassQueue1EntryRTL.lambda_enq_rdy_enq_rdy, QBypassQueue1EntryRTLVal]

theorem gen_Q_BypassQueue1EntryRTL_deq_rdy_eq {α : Type} (s : Queue.One α) (i : In α) :
    QueueGen.Q.BypassQueue1EntryRTL.lambda_deq_rdy_deq_rdy (QBypassQueue1EntryRTLVal s i) = (QBypassQueue1EntryRTLVal s i).deq_rdy := by
  gen_tac [QueueGen.Q.BypassQueue1EntryRTL.lambda_deq_rdy_deq_rdy, QBypassQueue1EntryRTLVal]

theorem gen_Q_BypassQueue1EntryRTL_full_next_eq {α : Type} (s : Queue.One α) (i : In α) :
    QueueGen.Q.BypassQueue1EntryRTL.ff_bypass1_full_next (QBypassQueue1EntryRTLVal s i) = (q1Step .bypass s i).1.full := by
  gen_tac [QueueGen.Q.BypassQueue1EntryRTL.ff_bypass1_full_next, QBypassQueue1EntryRTLVal]

theorem gen_Q_BypassQueue1EntryRTL_entry_next_eq {α : Type} (s : Queue.One α) (i : In α) :
    QueueGen.Q.BypassQueue1EntryRTL.ff_bypass1_entry_next (QBypassQueue1EntryRTLVal s i) = (q1Step .bypass s i).1.entry := by
  gen_tac [QueueGen.Q.BypassQueue1EntryRTL.ff_bypass1_entry_next, QBypassQueue1EntryRTLVal]

theorem gen_Q_BypassQueue1EntryRTL_bypass_mux__out_eq {α : Type} (s : Queue.One α) (i : In α) :
    QueueGen.Q.BypassQueue1EntryRTL.bypass_mux__up_mux_out (QBypassQueue1EntryRTLVal s i) = (QBypassQueue1EntryRTLVal s i).bypass_mux__out := by
  gen_tac [QueueGen.Q.BypassQueue1EntryRTL.bypass_mux__up_mux_out, QueueGen.Basic.Mux_2.up_mux_out, QBypassQueue1EntryRTLVal]

theorem gen_Q_BypassQueue1EntryRTL_wires {α : Type} (s : Queue.One α) (i : In α) : QueueGen.Q.BypassQueue1EntryRTL.wires (QBypassQueue1EntryRTLVal s i) := by
  simp [QueueGen.Q.BypassQueue1EntryRTL.wires, QBypassQueue1EntryRTLVal, q1Step, s1Step, er1Step, er1Raw, v1Step]

theorem gen_Q_BypassQueue1EntryRTL_widths : QueueGen.Q.BypassQueue1EntryRTL.widths =
    [("enq_en", 1), ("enq_rdy", 1), ("enq_msg", 0), ("deq_en", 1), ("deq_rdy", 1), ("deq_ret", 0), ("count", 1), ("entry", 0), ("full", 1)] := rfl

theorem gen_Q_BypassQueue1EntryRTL_side : QueueGen.Q.BypassQueue1EntryRTL.side := by
  simp [QueueGen.Q.BypassQueue1EntryRTL.side]

theorem gen_Q_BypassQueue1EntryRTL_out {α : Type} (s : Queue.One α) (i : In α) :
    (q1Step .bypass s i).2.ret = (if (q1Step .bypass s i).2.deqRdy then some (QBypassQueue1EntryRTLVal s i).deq_ret else none) ∧ (q1Step .bypass s i).2.count = b2n s.full := by
  gen_tac [QBypassQueue1EntryRTLVal]

/-! ## S.NormalQueue1EntryRTL -/

/-- the signals of `NormalQueue1EntryRTL` as terms of the model -/
def SNormalQueue1EntryRTLVal {α : Type} (s : Queue.One α) (i : In α) : QueueGen.S.NormalQueue1EntryRTL.Sig α :=
  { reset := i.rst,
    recv_msg := i.msg,
    recv_val := i.enq,
    recv_rdy := (s1Step .normal s i).2.enqRdy,
    send_msg := s.entry,
    send_val := (s1Step .normal s i).2.deqRdy,
    send_rdy := i.deq,
    count := s.full,
    full := s.full,
    entry := s.entry }

theorem gen_S_NormalQueue1EntryRTL_recv_rdy_eq {α : Type} (s : Queue.One α) (i : In α) :
    QueueGen.S.NormalQueue1EntryRTL.lambda_recv_rdy_recv_rdy (SNormalQueue1EntryRTLVal s i) = (SNormalQueue1EntryRTLVal s i).recv_rdy := by
  gen_tac [QueueGen.S.NormalQueue1EntryRTL.lambda_recv_rdy_recv_rdy, SNormalQueue1EntryRTLVal]

theorem gen_S_NormalQueue1EntryRTL_full_next_eq {α : Type} (s : Queue.One α) (i : In α) :
    QueueGen.S.NormalQueue1EntryRTL.ff_normal1_full_next (SNormalQueue1EntryRTLVal s i) = (s1Step .normal s i).1.full := by
  gen_tac [QueueGen.S.NormalQueue1EntryRTL.ff_normal1_full_next, SNormalQueue1EntryRTLVal]

theorem gen_S_NormalQueue1EntryRTL_entry_next_eq {α : Type} (s : Queue.One α) (i : In α) :
    QueueGen.S.NormalQueue1EntryRTL.ff_normal1_entry_next (SNormalQueue1EntryRTLVal s i) = (s1Step .normal s i).1.entry := by
  gen_tac [QueueGen.S.NormalQueue1EntryRTL.ff_normal1_entry_next, SNormalQueue1EntryRTLVal]

theorem gen_S_NormalQueue1EntryRTL_wires {α : Type} (s : Queue.One α) (i : In α) : QueueGen.S.NormalQueue1EntryRTL.wires (SNormalQueue1EntryRTLVal s i) := by
  simp [QueueGen.S.NormalQueue1EntryRTL.wires, SNormalQueue1EntryRTLVal, q1Step, s1Step, er1Step, er1Raw, v1Step]

theorem gen_S_NormalQueue1EntryRTL_widths : QueueGen.S.NormalQueue1EntryRTL.widths =
    [("recv_msg", 0), ("recv_val", 1), ("recv_rdy", 1), ("send_msg", 0), ("send_val", 1), ("send_rdy", 1), ("count", 1), ("full", 1), ("entry", 0)] := rfl

theorem gen_S_NormalQueue1EntryRTL_side : QueueGen.S.NormalQueue1EntryRTL.side := by
  simp [QueueGen.S.NormalQueue1EntryRTL.side]

theorem gen_S_NormalQueue1EntryRTL_out {α : Type} (s : Queue.One α) (i : In α) :
    (s1Step .normal s i).2.ret = (if (s1Step .normal s i).2.deqRdy then some (SNormalQueue1EntryRTLVal s i).send_msg else none) ∧ (s1Step .normal s i).2.count = b2n s.full := by
  gen_tac [SNormalQueue1EntryRTLVal]

/-! ## S.PipeQueue1EntryRTL -/

/-- the signals of `PipeQueue1EntryRTL` as terms of the model -/
def SPipeQueue1EntryRTLVal {α : Type} (s : Queue.One α) (i : In α) : QueueGen.S.PipeQueue1EntryRTL.Sig α :=
  { reset := i.rst,
    recv_msg := i.msg,
    recv_val := i.enq,
    recv_rdy := (s1Step .pipe s i).2.enqRdy,
    send_msg := s.entry,
    send_val := (s1Step .pipe s i).2.deqRdy,
    send_rdy := i.deq,
    count := s.full,
    full := s.full,
    entry := s.entry }

theorem gen_S_PipeQueue1EntryRTL_recv_rdy_eq {α : Type} (s : Queue.One α) (i : In α) :
    QueueGen.S.PipeQueue1EntryRTL.lambda_recv_rdy_recv_rdy (SPipeQueue1EntryRTLVal s i) = (SPipeQueue1EntryRTLVal s i).recv_rdy := by
  gen_tac [QueueGen.S.PipeQueue1EntryRTL.lambda_recv_rdy_recv_rdy, SPipeQueue1EntryRTLVal]

theorem gen_S_PipeQueue1EntryRTL_full_next_eq {α : Type} (s : Queue.One α) (i : In α) :
    QueueGen.S.PipeQueue1EntryRTL.ff_pipe1_full_next (SPipeQueue1EntryRTLVal s i) = (s1Step .pipe s i).1.full := by
  gen_tac [QueueGen.S.PipeQueue1EntryRTL.ff_pipe1_full_next, SPipeQueue1EntryRTLVal]

theorem gen_S_PipeQueue1EntryRTL_entry_next_eq {α : Type} (s : Queue.One α) (i : In α) :
    QueueGen.S.PipeQueue1EntryRTL.ff_pipe1_entry_next (SPipeQueue1EntryRTLVal s i) = (s1Step .pipe s i).1.entry := by
  gen_tac [QueueGen.S.PipeQueue1EntryRTL.ff_pipe1_entry_next, SPipeQueue1EntryRTLVal]

theorem gen_S_PipeQueue1EntryRTL_wires {α : Type} (s : Queue.One α) (i : In α) : QueueGen.S.PipeQueue1EntryRTL.wires (SPipeQueue1EntryRTLVal s i) := by
  simp [QueueGen.S.PipeQueue1EntryRTL.wires, SPipeQueue1EntryRTLVal, q1Step, s1Step, er1Step, er1Raw, v1Step]

theorem gen_S_PipeQueue1EntryRTL_widths : QueueGen.S.PipeQueue1EntryRTL.widths =
    [("recv_msg", 0), ("recv_val", 1), ("recv_rdy", 1), ("send_msg", 0), ("send_val", 1), ("send_rdy", 1), ("count", 1), ("full", 1), ("entry", 0)] := rfl

theorem gen_S_PipeQueue1EntryRTL_side : QueueGen.S.PipeQueue1EntryRTL.side := by
  simp [QueueGen.S.PipeQueue1EntryRTL.side]

theorem gen_S_PipeQueue1EntryRTL_out {α : Type} (s : Queue.One α) (i : In α) :
    (s1Step .pipe s i).2.ret = (if (s1Step .pipe s i).2.deqRdy then some (SPipeQueue1EntryRTLVal s i).send_msg else none) ∧ (s1Step .pipe s i).2.count = b2n s.full := by
  gen_tac [SPipeQueue1EntryRTLVal]

/-! ## S.BypassQueue1EntryRTL -/

/-- the signals of `BypassQueue1EntryRTL` as terms of the model -/
def SBypassQueue1EntryRTLVal {α : Type} (s : Queue.One α) (i : In α) : QueueGen.S.BypassQueue1EntryRTL.Sig α :=
  { reset := i.rst,
    recv_msg := i.msg,
    recv_val := i.enq,
    recv_rdy := (s1Step .bypass s i).2.enqRdy,
    send_msg := (if s.full then s.entry else i.msg),
    send_val := (s1Step .bypass s i).2.deqRdy,
    send_rdy := i.deq,
    count := s.full,
    full := s.full,
    entry := s.entry,
    bypass_mux__in__0 := i.msg,
    bypass_mux__in__1 := s.entry,
    bypass_mux__out := (if s.full then s.entry else i.msg),
    bypass_mux__sel := s.full }

theorem gen_S_BypassQueue1EntryRTL_send_val_eq {α : Type} (s : Queue.One α) (i : In α) :
    QueueGen.S.BypassQueue1EntryRTL.lambda_send_val_send_val (SBypassQueue1EntryRTLVal s i) = (SBypassQueue1EntryRTLVal s i).send_val := by
  gen_tac [QueueGen.S.BypassQueue1EntryRTL.lambda_send_val_send_val, SBypassQueue1EntryRTLVal]

theorem gen_S_BypassQueue1EntryRTL_recv_rdy_eq {α : Type} (s : Queue.One α) (i : In α) :
    QueueGen.S.BypassQueue1EntryRTL.lambda_recv_rdy_recv_rdy (SBypassQueue1EntryRTLVal s i) = (SBypassQueue1EntryRTLVal s i).recv_rdy := by
  gen_tac [QueueGen.S.BypassQueue1EntryRTL.lambda_recv_rdy_recv_rdy, SBypassQueue1EntryRTLVal]

theorem gen_S_BypassQueue1EntryRTL_full_next_eq {α : Type} (s : Queue.One α) (i : In α) :
    QueueGen.S.BypassQueue1EntryRTL.ff_bypass1_full_next (SBypassQueue1EntryRTLVal s i) = (s1Step .bypass s i).1.full := by
  gen_tac [QueueGen.S.BypassQueue1EntryRTL.ff_bypass1_full_next, SBypassQueue1EntryRTLVal]

theorem gen_S_BypassQueue1EntryRTL_entry_next_eq {α : Type} (s : Queue.One α) (i : In α) :
    QueueGen.S.BypassQueue1EntryRTL.ff_bypass1_entry_next (SBypassQueue1EntryRTLVal s i) = (s1Step .bypass s i).1.entry := by
  gen_tac [QueueGen.S.BypassQueue1EntryRTL.ff_bypass1_entry_next, SBypassQueue1EntryRTLVal]

theorem gen_S_BypassQueue1EntryRTL_bypass_mux__out_eq {α : Type} (s : Queue.One α) (i : In α) :
    QueueGen.S.BypassQueue1EntryRTL.bypass_mux__up_mux_out (SBypassQueue1EntryRTLVal s i) = (SBypassQueue1EntryRTLVal s i).bypass_mux__out := by
  gen_tac [QueueGen.S.BypassQueue1EntryRTL.bypass_mux__up_mux_out, QueueGen.Basic.Mux_2.up_mux_out, SBypassQueue1EntryRTLVal]

theorem gen_S_BypassQueue1EntryRTL_wires {α : Type} (s : Queue.One α) (i : In α) : QueueGen.S.BypassQueue1EntryRTL.wires (SBypassQueue1EntryRTLVal s i) := by
  simp [QueueGen.S.BypassQueue1EntryRTL.wires, SBypassQueue1EntryRTLVal, q1Step, s1Step, er1Step, er1Raw, v1Step]

theorem gen_S_BypassQueue1EntryRTL_widths : QueueGen.S.BypassQueue1EntryRTL.widths =
    [("recv_msg", 0), ("recv_val", 1), ("recv_rdy", 1), ("send_msg", 0), ("send_val", 1), ("send_rdy", 1), ("count", 1), ("full", 1), ("entry", 0)] := rfl

theorem gen_S_BypassQueue1EntryRTL_side : QueueGen.S.BypassQueue1EntryRTL.side := by
  simp [QueueGen.S.BypassQueue1EntryRTL.side]

theorem gen_S_BypassQueue1EntryRTL_out {α : Type} (s : Queue.One α) (i : In α) :
    (s1Step .bypass s i).2.ret = (if (s1Step .bypass s i).2.deqRdy then some (SBypassQueue1EntryRTLVal s i).send_msg else none) ∧ (s1Step .bypass s i).2.count = b2n s.full := by
  gen_tac [SBypassQueue1EntryRTLVal]

/-! ## ER.PipeQueue1RTL -/

/-- the signals of `PipeQueue1RTL` as terms of the model -/
def ERPipeQueue1RTLVal {α : Type} (s : Queue.One α) (i : In α) : QueueGen.ER.PipeQueue1RTL.Sig α :=
  { reset := i.rst,
    enq_msg := i.msg,
    enq_en := i.enq,
    enq_rdy := (er1Step .pipe s i).2.enqRdy,
    deq_msg := s.entry,
    deq_en := (er1Step .pipe s i).2.deqRdy,
    deq_rdy := i.deq,
    buffer__out := s.entry,
    buffer__in_ := i.msg,
    buffer__en := i.enq,
    full__out := s.full,
    full__in_ := (er1Step .pipe s i).1.full }

theorem gen_ER_PipeQueue1RTL_deq_en_eq {α : Type} (s : Queue.One α) (i : In α) :
    QueueGen.ER.PipeQueue1RTL.up_pipeq_use_deq_rdy_deq_en (ERPipeQueue1RTLVal s i) = (ERPipeQueue1RTLVal s i).deq_en := by
  gen_tac [QueueGen.ER.PipeQueue1RTL.up_pipeq_use_deq_rdy_deq_en, ERPipeQueue1RTLVal]

theorem gen_ER_PipeQueue1RTL_enq_rdy_eq {α : Type} (s : Queue.One α) (i : In α) :
    QueueGen.ER.PipeQueue1RTL.up_pipeq_use_deq_rdy_enq_rdy (ERPipeQueue1RTLVal s i) = (ERPipeQueue1RTLVal s i).enq_rdy := by
  gen_tac [QueueGen.ER.PipeQueue1RTL.up_pipeq_use_deq_rdy_enq_rdy, ERPipeQueue1RTLVal]

theorem gen_ER_PipeQueue1RTL_full__in__eq {α : Type} (s : Queue.One α) (i : In α) :
    QueueGen.ER.PipeQueue1RTL.up_pipeq_full_full__in_ (ERPipeQueue1RTLVal s i) = (ERPipeQueue1RTLVal s i).full__in_ := by
  gen_tac [QueueGen.ER.PipeQueue1RTL.up_pipeq_full_full__in_, ERPipeQueue1RTLVal]

theorem gen_ER_PipeQueue1RTL_buffer__out_next_eq {α : Type} (s : Queue.One α) (i : In α) :
    QueueGen.ER.PipeQueue1RTL.buffer__up_regen_out_next (ERPipeQueue1RTLVal s i) = (er1Step .pipe s i).1.entry := by
  gen_tac [QueueGen.ER.PipeQueue1RTL.buffer__up_regen_out_next, QueueGen.Basic.RegEn.up_regen_out_next, ERPipeQueue1RTLVal]

theorem gen_ER_PipeQueue1RTL_full__out_next_eq {α : Type} (s : Queue.One α) (i : In α) :
    QueueGen.ER.PipeQueue1RTL.full__up_reg_out_next (ERPipeQueue1RTLVal s i) = (er1Step .pipe s i).1.full := by
  gen_tac [QueueGen.ER.PipeQueue1RTL.full__up_reg_out_next, QueueGen.Basic.Reg_Bits1.up_reg_out_next, ERPipeQueue1RTLVal]

theorem gen_ER_PipeQueue1RTL_wires {α : Type} (s : Queue.One α) (i : In α) : QueueGen.ER.PipeQueue1RTL.wires (ERPipeQueue1RTLVal s i) := by
  simp [QueueGen.ER.PipeQueue1RTL.wires, ERPipeQueue1RTLVal, q1Step, s1Step, er1Step, er1Raw, v1Step]

theorem gen_ER_PipeQueue1RTL_widths : QueueGen.ER.PipeQueue1RTL.widths =
    [("enq_msg", 0), ("enq_en", 1), ("enq_rdy", 1), ("deq_msg", 0), ("deq_en", 1), ("deq_rdy", 1)] := rfl

theorem gen_ER_PipeQueue1RTL_side : QueueGen.ER.PipeQueue1RTL.side := by
  simp [QueueGen.ER.PipeQueue1RTL.side]

theorem gen_ER_PipeQueue1RTL_out {α : Type} (s : Queue.One α) (i : In α) :
    (er1Step .pipe s i).2.ret = (if (er1Step .pipe s i).2.deqRdy then some (ERPipeQueue1RTLVal s i).deq_msg else none) ∧ (er1Step .pipe s i).2.count = b2n s.full := by
  gen_tac [ERPipeQueue1RTLVal]

/-! ## ER.BypassQueue1RTL -/

/-- the signals of `BypassQueue1RTL` as terms of the model -/
def ERBypassQueue1RTLVal {α : Type} (s : Queue.One α) (i : In α) : QueueGen.ER.BypassQueue1RTL.Sig α :=
  { reset := i.rst,
    enq_msg := i.msg,
    enq_en := i.enq,
    enq_rdy := (er1Step .bypass s i).2.enqRdy,
    deq_msg := (if s.full then s.entry else i.msg),
    deq_en := (er1Step .bypass s i).2.deqRdy,
    deq_rdy := i.deq,
    buffer__out := s.entry,
    buffer__in_ := i.msg,
    buffer__en := (i.enq && !(er1Step .bypass s i).2.deqRdy),
    full__out := s.full,
    full__in_ := ((i.enq || s.full) && !(er1Step .bypass s i).2.deqRdy),
    byp_mux__in__0 := i.msg,
    byp_mux__in__1 := s.entry,
    byp_mux__out := (if s.full then s.entry else i.msg),
    byp_mux__sel := s.full }

theorem gen_ER_BypassQueue1RTL_enq_rdy_eq {α : Type} (s : Queue.One α) (i : In α) :
    QueueGen.ER.BypassQueue1RTL.up_bypq_set_enq_rdy_enq_rdy (ERBypassQueue1RTLVal s i) = (ERBypassQueue1RTLVal s i).enq_rdy := by
  gen_tac [QueueGen.ER.BypassQueue1RTL.up_bypq_set_enq_rdy_enq_rdy, ERBypassQueue1RTLVal]

theorem gen_ER_BypassQueue1RTL_deq_en_eq {α : Type} (s : Queue.One α) (i : In α) :
    QueueGen.ER.BypassQueue1RTL.up_bypq_use_enq_en_deq_en (ERBypassQueue1RTLVal s i) = (ERBypassQueue1RTLVal s i).deq_en := by
  gen_tac [QueueGen.ER.BypassQueue1RTL.up_bypq_use_enq_en_deq_en, ERBypassQueue1RTLVal]

theorem gen_ER_BypassQueue1RTL_buffer__en_eq {α : Type} (s : Queue.One α) (i : In α) :
    QueueGen.ER.BypassQueue1RTL.up_bypq_use_enq_en_buffer__en (ERBypassQueue1RTLVal s i) = (ERBypassQueue1RTLVal s i).buffer__en := by
  gen_tac [QueueGen.ER.BypassQueue1RTL.up_bypq_use_enq_en_buffer__en, ERBypassQueue1RTLVal]

theorem gen_ER_BypassQueue1RTL_full__in__eq {α : Type} (s : Queue.One α) (i : In α) :
    QueueGen.ER.BypassQueue1RTL.up_bypq_use_enq_en_full__in_ (ERBypassQueue1RTLVal s i) = (ERBypassQueue1RTLVal s i).full__in_ := by
  gen_tac [QueueGen.ER.BypassQueue1RTL.up_bypq_use_enq_en_full__in_, ERBypassQueue1RTLVal]

theorem gen_ER_BypassQueue1RTL_buffer__out_next_eq {α : Type} (s : Queue.One α) (i : In α) :
    QueueGen.ER.BypassQueue1RTL.buffer__up_regen_out_next (ERBypassQueue1RTLVal s i) = (er1Step .bypass s i).1.entry := by
  gen_tac [QueueGen.ER.BypassQueue1RTL.buffer__up_regen_out_next, QueueGen.Basic.RegEn.up_regen_out_next, ERBypassQueue1RTLVal]

theorem gen_ER_BypassQueue1RTL_full__out_next_eq {α : Type} (s : Queue.One α) (i : In α) :
    QueueGen.ER.BypassQueue1RTL.full__up_regrst_out_next (ERBypassQueue1RTLVal s i) = (er1Step .bypass s i).1.full := by
  gen_tac [QueueGen.ER.BypassQueue1RTL.full__up_regrst_out_next, QueueGen.Basic.RegRst_Bits1_0.up_regrst_out_next, ERBypassQueue1RTLVal]

theorem gen_ER_BypassQueue1RTL_byp_mux__out_eq {α : Type} (s : Queue.One α) (i : In α) :
    QueueGen.ER.BypassQueue1RTL.byp_mux__up_mux_out (ERBypassQueue1RTLVal s i) = (ERBypassQueue1RTLVal s i).byp_mux__out := by
  gen_tac [QueueGen.ER.BypassQueue1RTL.byp_mux__up_mux_out, QueueGen.Basic.Mux_2.up_mux_out, ERBypassQueue1RTLVal]

theorem gen_ER_BypassQueue1RTL_wires {α : Type} (s : Queue.One α) (i : In α) : QueueGen.ER.BypassQueue1RTL.wires (ERBypassQueue1RTLVal s i) := by
  simp [QueueGen.ER.BypassQueue1RTL.wires, ERBypassQueue1RTLVal, q1Step, s1Step, er1Step, er1Raw, v1Step]

theorem gen_ER_BypassQueue1RTL_widths : QueueGen.ER.BypassQueue1RTL.widths =
    [("enq_msg", 0), ("enq_en", 1), ("enq_rdy", 1), ("deq_msg", 0), ("deq_en", 1), ("deq_rdy", 1)] := rfl

theorem gen_ER_BypassQueue1RTL_side : QueueGen.ER.BypassQueue1RTL.side := by
  simp [QueueGen.ER.BypassQueue1RTL.side]

theorem gen_ER_BypassQueue1RTL_out {α : Type} (s : Queue.One α) (i : In α) :
    (er1Step .bypass s i).2.ret = (if (er1Step .bypass s i).2.deqRdy then some (ERBypassQueue1RTLVal s i).deq_msg else none) ∧ (er1Step .bypass s i).2.count = b2n s.full := by
  gen_tac [ERBypassQueue1RTLVal]

/-! ## ER.NormalQueue1RTL -/

/-- the signals of `NormalQueue1RTL` as terms of the model -/
def ERNormalQueue1RTLVal {α : Type} (s : Queue.One α) (i : In α) : QueueGen.ER.NormalQueue1RTL.Sig α :=
  { reset := i.rst,
    enq_msg := i.msg,
    enq_en := i.enq,
    enq_rdy := (er1Step .normal s i).2.enqRdy,
    deq_msg := s.entry,
    deq_en := (er1Step .normal s i).2.deqRdy,
    deq_rdy := i.deq,
    buffer__out := s.entry,
    buffer__in_ := i.msg,
    buffer__en := i.enq,
    full__out := s.full,
    full__in_ := (er1Step .normal s i).1.full }

theorem gen_ER_NormalQueue1RTL_enq_rdy_eq {α : Type} (s : Queue.One α) (i : In α) :
    QueueGen.ER.NormalQueue1RTL.up_normq_set_enq_rdy_enq_rdy (ERNormalQueue1RTLVal s i) = (ERNormalQueue1RTLVal s i).enq_rdy := by
  gen_tac [QueueGen.ER.NormalQueue1RTL.up_normq_set_enq_rdy_enq_rdy, ERNormalQueue1RTLVal]

theorem gen_ER_NormalQueue1RTL_deq_en_eq {α : Type} (s : Queue.One α) (i : In α) :
    QueueGen.ER.NormalQueue1RTL.up_normq_full_deq_en (ERNormalQueue1RTLVal s i) = (ERNormalQueue1RTLVal s i).deq_en := by
  gen_tac [QueueGen.ER.NormalQueue1RTL.up_normq_full_deq_en, ERNormalQueue1RTLVal]

theorem gen_ER_NormalQueue1RTL_full__in__eq {α : Type} (s : Queue.One α) (i : In α) :
    QueueGen.ER.NormalQueue1RTL.up_normq_full_full__in_ (ERNormalQueue1RTLVal s i) = (ERNormalQueue1RTLVal s i).full__in_ := by
  gen_tac [QueueGen.ER.NormalQueue1RTL.up_normq_full_full__in_, ERNormalQueue1RTLVal]

theorem gen_ER_NormalQueue1RTL_buffer__out_next_eq {α : Type} (s : Queue.One α) (i : In α) :
    QueueGen.ER.NormalQueue1RTL.buffer__up_regen_out_next (ERNormalQueue1RTLVal s i) = (er1Step .normal s i).1.entry := by
  gen_tac [QueueGen.ER.NormalQueue1RTL.buffer__up_regen_out_next, QueueGen.Basic.RegEn.up_regen_out_next, ERNormalQueue1RTLVal]

theorem gen_ER_NormalQueue1RTL_full__out_next_eq {α : Type} (s : Queue.One α) (i : In α) :
    QueueGen.ER.NormalQueue1RTL.full__up_reg_out_next (ERNormalQueue1RTLVal s i) = (er1Step .normal s i).1.full := by
  gen_tac [QueueGen.ER.NormalQueue1RTL.full__up_reg_out_next, QueueGen.Basic.Reg_Bits1.up_reg_out_next, ERNormalQueue1RTLVal]

theorem gen_ER_NormalQueue1RTL_wires {α : Type} (s : Queue.One α) (i : In α) : QueueGen.ER.NormalQueue1RTL.wires (ERNormalQueue1RTLVal s i) := by
  simp [QueueGen.ER.NormalQueue1RTL.wires, ERNormalQueue1RTLVal, q1Step, s1Step, er1Step, er1Raw, v1Step]

theorem gen_ER_NormalQueue1RTL_widths : QueueGen.ER.NormalQueue1RTL.widths =
    [("enq_msg", 0), ("enq_en", 1), ("enq_rdy", 1), ("deq_msg", 0), ("deq_en", 1), ("deq_rdy", 1)] := rfl

theorem gen_ER_NormalQueue1RTL_side : QueueGen.ER.NormalQueue1RTL.side := by
  simp [QueueGen.ER.NormalQueue1RTL.side]

theorem gen_ER_NormalQueue1RTL_out {α : Type} (s : Queue.One α) (i : In α) :
    (er1Step .normal s i).2.ret = (if (er1Step .normal s i).2.deqRdy then some (ERNormalQueue1RTLVal s i).deq_msg else none) ∧ (er1Step .normal s i).2.count = b2n s.full := by
  gen_tac [ERNormalQueue1RTLVal]

/-! ## VR.PipeQueue1RTL -/

/-- the signals of `PipeQueue1RTL` as terms of the model -/
def VRPipeQueue1RTLVal {α : Type} (s : Queue.One α) (i : In α) : QueueGen.VR.PipeQueue1RTL.Sig α :=
  { reset := i.rst,
    enq_msg := i.msg,
    enq_val := i.enq,
    enq_rdy := (v1Step .pipe s i).2.enqRdy,
    deq_msg := s.entry,
    deq_val := (v1Step .pipe s i).2.deqRdy,
    deq_rdy := i.deq,
    buffer__out := s.entry,
    buffer__in_ := i.msg,
    buffer__en := (i.enq && (v1Step .pipe s i).2.enqRdy),
    next_full := (v1Step .pipe s i).1.full,
    full := s.full }

theorem gen_VR_PipeQueue1RTL_full_next_eq {α : Type} (s : Queue.One α) (i : In α) :
    QueueGen.VR.PipeQueue1RTL.up_full_full_next (VRPipeQueue1RTLVal s i) = (v1Step .pipe s i).1.full := by
  gen_tac [QueueGen.VR.PipeQueue1RTL.up_full_full_next, VRPipeQueue1RTLVal]

theorem gen_VR_PipeQueue1RTL_enq_rdy_eq {α : Type} (s : Queue.One α) (i : In α) :
    QueueGen.VR.PipeQueue1RTL.up_pipeq_set_enq_rdy_enq_rdy (VRPipeQueue1RTLVal s i) = (VRPipeQueue1RTLVal s i).enq_rdy := by
  gen_tac [QueueGen.VR.PipeQueue1RTL.up_pipeq_set_enq_rdy_enq_rdy, VRPipeQueue1RTLVal]

theorem gen_VR_PipeQueue1RTL_buffer__en_eq {α : Type} (s : Queue.One α) (i : In α) :
    QueueGen.VR.PipeQueue1RTL.up_pipeq_full_buffer__en (VRPipeQueue1RTLVal s i) = (VRPipeQueue1RTLVal s i).buffer__en := by
  gen_tac [QueueGen.VR.PipeQueue1RTL.up_pipeq_full_buffer__en, VRPipeQueue1RTLVal]

theorem gen_VR_PipeQueue1RTL_next_full_eq {α : Type} (s : Queue.One α) (i : In α) :
    QueueGen.VR.PipeQueue1RTL.up_pipeq_full_next_full (VRPipeQueue1RTLVal s i) = (VRPipeQueue1RTLVal s i).next_full := by
  gen_tac [QueueGen.VR.PipeQueue1RTL.up_pipeq_full_next_full, VRPipeQueue1RTLVal]

theorem gen_VR_PipeQueue1RTL_buffer__out_next_eq {α : Type} (s : Queue.One α) (i : In α) :
    QueueGen.VR.PipeQueue1RTL.buffer__up_regen_out_next (VRPipeQueue1RTLVal s i) = (v1Step .pipe s i).1.entry := by
  gen_tac [QueueGen.VR.PipeQueue1RTL.buffer__up_regen_out_next, QueueGen.Basic.RegEn.up_regen_out_next, VRPipeQueue1RTLVal]

theorem gen_VR_PipeQueue1RTL_wires {α : Type} (s : Queue.One α) (i : In α) : QueueGen.VR.PipeQueue1RTL.wires (VRPipeQueue1RTLVal s i) := by
  simp [QueueGen.VR.PipeQueue1RTL.wires, VRPipeQueue1RTLVal, q1Step, s1Step, er1Step, er1Raw, v1Step]

theorem gen_VR_PipeQueue1RTL_widths : QueueGen.VR.PipeQueue1RTL.widths =
    [("enq_msg", 0), ("enq_val", 1), ("enq_rdy", 1), ("deq_msg", 0), ("deq_val", 1), ("deq_rdy", 1), ("next_full", 1), ("full", 1)] := rfl

theorem gen_VR_PipeQueue1RTL_side : QueueGen.VR.PipeQueue1RTL.side := by
  simp [QueueGen.VR.PipeQueue1RTL.side]

theorem gen_VR_PipeQueue1RTL_out {α : Type} (s : Queue.One α) (i : In α) :
    (v1Step .pipe s i).2.ret = (if (v1Step .pipe s i).2.deqRdy then some (VRPipeQueue1RTLVal s i).deq_msg else none) ∧ (v1Step .pipe s i).2.count = b2n s.full := by
  gen_tac [VRPipeQueue1RTLVal]

/-! ## VR.BypassQueue1RTL -/

/-- the signals of `BypassQueue1RTL` as terms of the model -/
def VRBypassQueue1RTLVal {α : Type} (s : Queue.One α) (i : In α) : QueueGen.VR.BypassQueue1RTL.Sig α :=
  { reset := i.rst,
    enq_msg := i.msg,
    enq_val := i.enq,
    enq_rdy := (v1Step .bypass s i).2.enqRdy,
    deq_msg := (if s.full then s.entry else i.msg),
    deq_val := (v1Step .bypass s i).2.deqRdy,
    deq_rdy := i.deq,
    buffer__out := s.entry,
    buffer__in_ := i.msg,
    buffer__en := (!i.deq && (i.enq && (v1Step .bypass s i).2.enqRdy)),
    next_full := (v1Step .bypass s i).1.full,
    full := s.full,
    byp_mux__in__0 := i.msg,
    byp_mux__in__1 := s.entry,
    byp_mux__out := (if s.full then s.entry else i.msg),
    byp_mux__sel := s.full }

theorem gen_VR_BypassQueue1RTL_full_next_eq {α : Type} (s : Queue.One α) (i : In α) :
    QueueGen.VR.BypassQueue1RTL.up_full_full_next (VRBypassQueue1RTLVal s i) = (v1Step .bypass s i).1.full := by
  gen_tac [QueueGen.VR.BypassQueue1RTL.up_full_full_next, VRBypassQueue1RTLVal]

theorem gen_VR_BypassQueue1RTL_enq_rdy_eq {α : Type} (s : Queue.One α) (i : In α) :
    QueueGen.VR.BypassQueue1RTL.up_bypq_set_enq_rdy_enq_rdy (VRBypassQueue1RTLVal s i) = (VRBypassQueue1RTLVal s i).enq_rdy := by
  gen_tac [QueueGen.VR.BypassQueue1RTL.up_bypq_set_enq_rdy_enq_rdy, VRBypassQueue1RTLVal]

theorem gen_VR_BypassQueue1RTL_buffer__en_eq {α : Type} (s : Queue.One α) (i : In α) :
    QueueGen.VR.BypassQueue1RTL.up_bypq_internal_buffer__en (VRBypassQueue1RTLVal s i) = (VRBypassQueue1RTLVal s i).buffer__en := by
  gen_tac [QueueGen.VR.BypassQueue1RTL.up_bypq_internal_buffer__en, VRBypassQueue1RTLVal]

theorem gen_VR_BypassQueue1RTL_next_full_eq {α : Type} (s : Queue.One α) (i : In α) :
    QueueGen.VR.BypassQueue1RTL.up_bypq_internal_next_full (VRBypassQueue1RTLVal s i) = (VRBypassQueue1RTLVal s i).next_full := by
  gen_tac [QueueGen.VR.BypassQueue1RTL.up_bypq_internal_next_full, VRBypassQueue1RTLVal]

theorem gen_VR_BypassQueue1RTL_deq_val_eq {α : Type} (s : Queue.One α) (i : In α) :
    QueueGen.VR.BypassQueue1RTL.up_bypq_set_deq_val_deq_val (VRBypassQueue1RTLVal s i) = (VRBypassQueue1RTLVal s i).deq_val := by
  gen_tac [QueueGen.VR.BypassQueue1RTL.up_bypq_set_deq_val_deq_val, VRBypassQueue1RTLVal]

theorem gen_VR_BypassQueue1RTL_buffer__out_next_eq {α : Type} (s : Queue.One α) (i : In α) :
    QueueGen.VR.BypassQueue1RTL.buffer__up_regen_out_next (VRBypassQueue1RTLVal s i) = (v1Step .bypass s i).1.entry := by
  gen_tac [QueueGen.VR.BypassQueue1RTL.buffer__up_regen_out_next, QueueGen.Basic.RegEn.up_regen_out_next, VRBypassQueue1RTLVal]

theorem gen_VR_BypassQueue1RTL_byp_mux__out_eq {α : Type} (s : Queue.One α) (i : In α) :
    QueueGen.VR.BypassQueue1RTL.byp_mux__up_mux_out (VRBypassQueue1RTLVal s i) = (VRBypassQueue1RTLVal s i).byp_mux__out := by
  gen_tac [QueueGen.VR.BypassQueue1RTL.byp_mux__up_mux_out, QueueGen.Basic.Mux_2.up_mux_out, VRBypassQueue1RTLVal]

theorem gen_VR_BypassQueue1RTL_wires {α : Type} (s : Queue.One α) (i : In α) : QueueGen.VR.BypassQueue1RTL.wires (VRBypassQueue1RTLVal s i) := by
  simp [QueueGen.VR.BypassQueue1RTL.wires, VRBypassQueue1RTLVal, q1Step, s1Step, er1Step, er1Raw, v1Step]

theorem gen_VR_BypassQueue1RTL_widths : QueueGen.VR.BypassQueue1RTL.widths =
    [("enq_msg", 0), ("enq_val", 1), ("enq_rdy", 1), ("deq_msg", 0), ("deq_val", 1), ("deq_rdy", 1), ("next_full", 1), ("full", 1)] := rfl

theorem gen_VR_BypassQueue1RTL_side : QueueGen.VR.BypassQueue1RTL.side := by
  simp [QueueGen.VR.BypassQueue1RTL.side]

theorem gen_VR_BypassQueue1RTL_out {α : Type} (s : Queue.One α) (i : In α) :
    (v1Step .bypass s i).2.ret = (if (v1Step .bypass s i).2.deqRdy then some (VRBypassQueue1RTLVal s i).deq_msg else none) ∧ (v1Step .bypass s i).2.count = b2n s.full := by
  gen_tac [VRBypassQueue1RTLVal]

/-! ## VR.NormalQueue1RTL -/

/-- the signals of `NormalQueue1RTL` as terms of the model -/
def VRNormalQueue1RTLVal {α : Type} (s : Queue.One α) (i : In α) : QueueGen.VR.NormalQueue1RTL.Sig α :=
  { reset := i.rst,
    enq_msg := i.msg,
    enq_val := i.enq,
    enq_rdy := (v1Step .normal s i).2.enqRdy,
    deq_msg := s.entry,
    deq_val := (v1Step .normal s i).2.deqRdy,
    deq_rdy := i.deq,
    buffer__out := s.entry,
    buffer__in_ := i.msg,
    buffer__en := (i.enq && (v1Step .normal s i).2.enqRdy),
    next_full := (v1Step .normal s i).1.full,
    full := s.full }

theorem gen_VR_NormalQueue1RTL_full_next_eq {α : Type} (s : Queue.One α) (i : In α) :
    QueueGen.VR.NormalQueue1RTL.up_full_full_next (VRNormalQueue1RTLVal s i) = (v1Step .normal s i).1.full := by
  gen_tac [QueueGen.VR.NormalQueue1RTL.up_full_full_next, VRNormalQueue1RTLVal]

theorem gen_VR_NormalQueue1RTL_enq_rdy_eq {α : Type} (s : Queue.One α) (i : In α) :
    QueueGen.VR.NormalQueue1RTL.up_normq_set_enq_rdy_enq_rdy (VRNormalQueue1RTLVal s i) = (VRNormalQueue1RTLVal s i).enq_rdy := by
  gen_tac [QueueGen.VR.NormalQueue1RTL.up_normq_set_enq_rdy_enq_rdy, VRNormalQueue1RTLVal]

theorem gen_VR_NormalQueue1RTL_buffer__en_eq {α : Type} (s : Queue.One α) (i : In α) :
    QueueGen.VR.NormalQueue1RTL.up_normq_internal_buffer__en (VRNormalQueue1RTLVal s i) = (VRNormalQueue1RTLVal s i).buffer__en := by
  gen_tac [QueueGen.VR.NormalQueue1RTL.up_normq_internal_buffer__en, VRNormalQueue1RTLVal]

theorem gen_VR_NormalQueue1RTL_next_full_eq {α : Type} (s : Queue.One α) (i : In α) :
    QueueGen.VR.NormalQueue1RTL.up_normq_internal_next_full (VRNormalQueue1RTLVal s i) = (VRNormalQueue1RTLVal s i).next_full := by
  gen_tac [QueueGen.VR.NormalQueue1RTL.up_normq_internal_next_full, VRNormalQueue1RTLVal]

theorem gen_VR_NormalQueue1RTL_buffer__out_next_eq {α : Type} (s : Queue.One α) (i : In α) :
    QueueGen.VR.NormalQueue1RTL.buffer__up_regen_out_next (VRNormalQueue1RTLVal s i) = (v1Step .normal s i).1.entry := by
  gen_tac [QueueGen.VR.NormalQueue1RTL.buffer__up_regen_out_next, QueueGen.Basic.RegEn.up_regen_out_next, VRNormalQueue1RTLVal]

theorem gen_VR_NormalQueue1RTL_wires {α : Type} (s : Queue.One α) (i : In α) : QueueGen.VR.NormalQueue1RTL.wires (VRNormalQueue1RTLVal s i) := by
  simp [QueueGen.VR.NormalQueue1RTL.wires, VRNormalQueue1RTLVal, q1Step, s1Step, er1Step, er1Raw, v1Step]

theorem gen_VR_NormalQueue1RTL_widths : QueueGen.VR.NormalQueue1RTL.widths =
    [("enq_msg", 0), ("enq_val", 1), ("enq_rdy", 1), ("deq_msg", 0), ("deq_val", 1), ("deq_rdy", 1), ("next_full", 1), ("full", 1)] := rfl

theorem gen_VR_NormalQueue1RTL_side : QueueGen.VR.NormalQueue1RTL.side := by
  simp [QueueGen.VR.NormalQueue1RTL.side]

theorem gen_VR_NormalQueue1RTL_out {α : Type} (s : Queue.One α) (i : In α) :
    (v1Step .normal s i).2.ret = (if (v1Step .normal s i).2.deqRdy then some (VRNormalQueue1RTLVal s i).deq_msg else none) ∧ (v1Step .normal s i).2.count = b2n s.full := by
  gen_tac [VRNormalQueue1RTLVal]

/-! ## VR.NormalQueueRTLCtrl -/

/-- the signals of `NormalQueueRTLCtrl` as terms of the model -/
def VRNormalQueueRTLCtrlVal {α : Type} (n : Nat) (s : VRing α) (i : In α) : QueueGen.VR.NormalQueueRTLCtrl.Sig :=
  { reset := i.rst,
    enq_val := i.enq,
    enq_rdy := (!s.full),
    deq_val := (!(!s.full && decide (s.enqPtr = s.deqPtr))),
    deq_rdy := i.deq,
    num_free_entries := (vrStep n s i).2.count,
    wen := (!s.full && i.enq),
    waddr := s.enqPtr,
    raddr := s.deqPtr,
    full := s.full,
    empty := (!s.full && decide (s.enqPtr = s.deqPtr)),
    do_enq := (!s.full && i.enq),
    do_deq := (i.deq && !(!s.full && decide (s.enqPtr = s.deqPtr))),
    enq_ptr := s.enqPtr,
    deq_ptr := s.deqPtr,
    enq_ptr_next := (if (!s.full && i.enq) then (if s.enqPtr = trunc (Queue.clog2 n) (n - 1) then 0 else trunc (Queue.clog2 n) (s.enqPtr + 1)) else s.enqPtr),
    deq_ptr_next := (if (i.deq && !(!s.full && decide (s.enqPtr = s.deqPtr))) then (if s.deqPtr = trunc (Queue.clog2 n) (n - 1) then 0 else trunc (Queue.clog2 n) (s.deqPtr + 1)) else s.deqPtr),
    enq_ptr_inc := (if s.enqPtr = trunc (Queue.clog2 n) (n - 1) then 0 else trunc (Queue.clog2 n) (s.enqPtr + 1)),
    deq_ptr_inc := (if s.deqPtr = trunc (Queue.clog2 n) (n - 1) then 0 else trunc (Queue.clog2 n) (s.deqPtr + 1)),
    full_next_cycle := ((!s.full && i.enq) && !(i.deq && !(!s.full && decide (s.enqPtr = s.deqPtr))) && decide ((if (!s.full && i.enq) then (if s.enqPtr = trunc (Queue.clog2 n) (n - 1) then 0 else trunc (Queue.clog2 n) (s.enqPtr + 1)) else s.enqPtr) = s.deqPtr)),
    num_free_entries__latch := s.nfe }

theorem gen_VR_NormalQueueRTLCtrl_do_enq_eq {α : Type} (n : Nat) (s : VRing α) (i : In α) :
    QueueGen.VR.NormalQueueRTLCtrl.comb_do_enq n (VRNormalQueueRTLCtrlVal n s i) = (VRNormalQueueRTLCtrlVal n s i).do_enq := by
  gen_tac [QueueGen.VR.NormalQueueRTLCtrl.comb_do_enq, VRNormalQueueRTLCtrlVal, QueueGen.VR.NormalQueueRTLCtrl.c_num_entries, QueueGen.VR.NormalQueueRTLCtrl.c_last_idx]

theorem gen_VR_NormalQueueRTLCtrl_do_deq_eq {α : Type} (n : Nat) (s : VRing α) (i : In α) :
    QueueGen.VR.NormalQueueRTLCtrl.comb_do_deq n (VRNormalQueueRTLCtrlVal n s i) = (VRNormalQueueRTLCtrlVal n s i).do_deq := by
  gen_tac [QueueGen.VR.NormalQueueRTLCtrl.comb_do_deq, VRNormalQueueRTLCtrlVal, QueueGen.VR.NormalQueueRTLCtrl.c_num_entries, QueueGen.VR.NormalQueueRTLCtrl.c_last_idx]

theorem gen_VR_NormalQueueRTLCtrl_wen_eq {α : Type} (n : Nat) (s : VRing α) (i : In α) :
    QueueGen.VR.NormalQueueRTLCtrl.comb_wen n (VRNormalQueueRTLCtrlVal n s i) = (VRNormalQueueRTLCtrlVal n s i).wen := by
  gen_tac [QueueGen.VR.NormalQueueRTLCtrl.comb_wen, VRNormalQueueRTLCtrlVal, QueueGen.VR.NormalQueueRTLCtrl.c_num_entries, QueueGen.VR.NormalQueueRTLCtrl.c_last_idx]

theorem gen_VR_NormalQueueRTLCtrl_enq_ptr_inc_eq {α : Type} (n : Nat) (s : VRing α) (i : In α) :
    QueueGen.VR.NormalQueueRTLCtrl.comb_enq_ptr_inc n (VRNormalQueueRTLCtrlVal n s i) = (VRNormalQueueRTLCtrlVal n s i).enq_ptr_inc := by
  gen_tac [QueueGen.VR.NormalQueueRTLCtrl.comb_enq_ptr_inc, VRNormalQueueRTLCtrlVal, QueueGen.VR.NormalQueueRTLCtrl.c_num_entries, QueueGen.VR.NormalQueueRTLCtrl.c_last_idx]

theorem gen_VR_NormalQueueRTLCtrl_deq_ptr_inc_eq {α : Type} (n : Nat) (s : VRing α) (i : In α) :
    QueueGen.VR.NormalQueueRTLCtrl.comb_deq_ptr_inc n (VRNormalQueueRTLCtrlVal n s i) = (VRNormalQueueRTLCtrlVal n s i).deq_ptr_inc := by
  gen_tac [QueueGen.VR.NormalQueueRTLCtrl.comb_deq_ptr_inc, VRNormalQueueRTLCtrlVal, QueueGen.VR.NormalQueueRTLCtrl.c_num_entries, QueueGen.VR.NormalQueueRTLCtrl.c_last_idx]

theorem gen_VR_NormalQueueRTLCtrl_enq_ptr_next_eq {α : Type} (n : Nat) (s : VRing α) (i : In α) :
    QueueGen.VR.NormalQueueRTLCtrl.comb_enq_ptr_next n (VRNormalQueueRTLCtrlVal n s i) = (VRNormalQueueRTLCtrlVal n s i).enq_ptr_next := by
  gen_tac [QueueGen.VR.NormalQueueRTLCtrl.comb_enq_ptr_next, VRNormalQueueRTLCtrlVal, QueueGen.VR.NormalQueueRTLCtrl.c_num_entries, QueueGen.VR.NormalQueueRTLCtrl.c_last_idx]

theorem gen_VR_NormalQueueRTLCtrl_deq_ptr_next_eq {α : Type} (n : Nat) (s : VRing α) (i : In α) :
    QueueGen.VR.NormalQueueRTLCtrl.comb_deq_ptr_next n (VRNormalQueueRTLCtrlVal n s i) = (VRNormalQueueRTLCtrlVal n s i).deq_ptr_next := by
  gen_tac [QueueGen.VR.NormalQueueRTLCtrl.comb_deq_ptr_next, VRNormalQueueRTLCtrlVal, QueueGen.VR.NormalQueueRTLCtrl.c_num_entries, QueueGen.VR.NormalQueueRTLCtrl.c_last_idx]

theorem gen_VR_NormalQueueRTLCtrl_num_free_entries_eq {α : Type} (n : Nat) (s : VRing α) (i : In α) :
    QueueGen.VR.NormalQueueRTLCtrl.comb_num_free_entries n (VRNormalQueueRTLCtrlVal n s i) = (VRNormalQueueRTLCtrlVal n s i).num_free_entries := by
  gen_tac [QueueGen.VR.NormalQueueRTLCtrl.comb_num_free_entries, VRNormalQueueRTLCtrlVal, QueueGen.VR.NormalQueueRTLCtrl.c_num_entries, QueueGen.VR.NormalQueueRTLCtrl.c_last_idx]

theorem gen_VR_NormalQueueRTLCtrl_full_next_cycle_eq {α : Type} (n : Nat) (s : VRing α) (i : In α) :
    QueueGen.VR.NormalQueueRTLCtrl.comb_full_next_cycle n (VRNormalQueueRTLCtrlVal n s i) = (VRNormalQueueRTLCtrlVal n s i).full_next_cycle := by
  gen_tac [QueueGen.VR.NormalQueueRTLCtrl.comb_full_next_cycle, VRNormalQueueRTLCtrlVal, QueueGen.VR.NormalQueueRTLCtrl.c_num_entries, QueueGen.VR.NormalQueueRTLCtrl.c_last_idx]

theorem gen_VR_NormalQueueRTLCtrl_empty_eq {α : Type} (n : Nat) (s : VRing α) (i : In α) :
    QueueGen.VR.NormalQueueRTLCtrl.up_ctrl_signals_empty n (VRNormalQueueRTLCtrlVal n s i) = (VRNormalQueueRTLCtrlVal n s i).empty := by
  gen_tac [QueueGen.VR.NormalQueueRTLCtrl.up_ctrl_signals_empty, VRNormalQueueRTLCtrlVal, QueueGen.VR.NormalQueueRTLCtrl.c_num_entries, QueueGen.VR.NormalQueueRTLCtrl.c_last_idx]

theorem gen_VR_NormalQueueRTLCtrl_enq_rdy_eq {α : Type} (n : Nat) (s : VRing α) (i : In α) :
    QueueGen.VR.NormalQueueRTLCtrl.up_ctrl_signals_enq_rdy n (VRNormalQueueRTLCtrlVal n s i) = (VRNormalQueueRTLCtrlVal n s i).enq_rdy := by
  gen_tac [QueueGen.VR.NormalQueueRTLCtrl.up_ctrl_signals_enq_rdy, VRNormalQueueRTLCtrlVal, QueueGen.VR.NormalQueueRTLCtrl.c_num_entries, QueueGen.VR.NormalQueueRTLCtrl.c_last_idx]

theorem gen_VR_NormalQueueRTLCtrl_deq_val_eq {α : Type} (n : Nat) (s : VRing α) (i : In α) :
    QueueGen.VR.NormalQueueRTLCtrl.up_ctrl_signals_deq_val n (VRNormalQueueRTLCtrlVal n s i) = (VRNormalQueueRTLCtrlVal n s i).deq_val := by
  gen_tac [QueueGen.VR.NormalQueueRTLCtrl.up_ctrl_signals_deq_val, VRNormalQueueRTLCtrlVal, QueueGen.VR.NormalQueueRTLCtrl.c_num_entries, QueueGen.VR.NormalQueueRTLCtrl.c_last_idx]

theorem gen_VR_NormalQueueRTLCtrl_waddr_eq {α : Type} (n : Nat) (s : VRing α) (i : In α) :
    QueueGen.VR.NormalQueueRTLCtrl.up_ctrl_signals_waddr n (VRNormalQueueRTLCtrlVal n s i) = (VRNormalQueueRTLCtrlVal n s i).waddr := by
  gen_tac [QueueGen.VR.NormalQueueRTLCtrl.up_ctrl_signals_waddr, VRNormalQueueRTLCtrlVal, QueueGen.VR.NormalQueueRTLCtrl.c_num_entries, QueueGen.VR.NormalQueueRTLCtrl.c_last_idx]

theorem gen_VR_NormalQueueRTLCtrl_raddr_eq {α : Type} (n : Nat) (s : VRing α) (i : In α) :
    QueueGen.VR.NormalQueueRTLCtrl.up_ctrl_signals_raddr n (VRNormalQueueRTLCtrlVal n s i) = (VRNormalQueueRTLCtrlVal n s i).raddr := by
  gen_tac [QueueGen.VR.NormalQueueRTLCtrl.up_ctrl_signals_raddr, VRNormalQueueRTLCtrlVal, QueueGen.VR.NormalQueueRTLCtrl.c_num_entries, QueueGen.VR.NormalQueueRTLCtrl.c_last_idx]

theorem gen_VR_NormalQueueRTLCtrl_seq_deq_ptr_next_eq {α : Type} (n : Nat) (s : VRing α) (i : In α) :
    QueueGen.VR.NormalQueueRTLCtrl.seq_deq_ptr_next n (VRNormalQueueRTLCtrlVal n s i) = (vrStep n s i).1.deqPtr := by
  gen_tac [QueueGen.VR.NormalQueueRTLCtrl.seq_deq_ptr_next, VRNormalQueueRTLCtrlVal, QueueGen.VR.NormalQueueRTLCtrl.c_num_entries, QueueGen.VR.NormalQueueRTLCtrl.c_last_idx]

theorem gen_VR_NormalQueueRTLCtrl_seq_enq_ptr_next_eq {α : Type} (n : Nat) (s : VRing α) (i : In α) :
    QueueGen.VR.NormalQueueRTLCtrl.seq_enq_ptr_next n (VRNormalQueueRTLCtrlVal n s i) = (vrStep n s i).1.enqPtr := by
  gen_tac [QueueGen.VR.NormalQueueRTLCtrl.seq_enq_ptr_next, VRNormalQueueRTLCtrlVal, QueueGen.VR.NormalQueueRTLCtrl.c_num_entries, QueueGen.VR.NormalQueueRTLCtrl.c_last_idx]

theorem gen_VR_NormalQueueRTLCtrl_full_next_eq {α : Type} (n : Nat) (s : VRing α) (i : In α) :
    QueueGen.VR.NormalQueueRTLCtrl.seq_full_next n (VRNormalQueueRTLCtrlVal n s i) = (vrStep n s i).1.full := by
  gen_tac [QueueGen.VR.NormalQueueRTLCtrl.seq_full_next, VRNormalQueueRTLCtrlVal, QueueGen.VR.NormalQueueRTLCtrl.c_num_entries, QueueGen.VR.NormalQueueRTLCtrl.c_last_idx]

theorem gen_VR_NormalQueueRTLCtrl_wires {α : Type} (n : Nat) (s : VRing α) (i : In α) : QueueGen.VR.NormalQueueRTLCtrl.wires n (VRNormalQueueRTLCtrlVal n s i) := by
  simp [QueueGen.VR.NormalQueueRTLCtrl.wires, VRNormalQueueRTLCtrlVal, q1Step, s1Step, er1Step, er1Raw, v1Step]

theorem gen_VR_NormalQueueRTLCtrl_widths (n : Nat) : QueueGen.VR.NormalQueueRTLCtrl.widths n =
    [("enq_val", 1), ("enq_rdy", 1), ("deq_val", 1), ("deq_rdy", 1), ("num_free_entries", Queue.clog2 (n + 1)), ("wen", 1), ("waddr", Queue.clog2 n), ("raddr", Queue.clog2 n), ("full", 1), ("empty", 1), ("do_enq", 1), ("do_deq", 1), ("enq_ptr", Queue.clog2 n), ("deq_ptr", Queue.clog2 n), ("enq_ptr_next", Queue.clog2 n), ("deq_ptr_next", Queue.clog2 n), ("enq_ptr_inc", Queue.clog2 n), ("deq_ptr_inc", Queue.clog2 n), ("full_next_cycle", 1)] := rfl

theorem gen_VR_NormalQueueRTLCtrl_side (n : Nat) (hn : 2 ≤ n) : QueueGen.VR.NormalQueueRTLCtrl.side n := by
  side_tac [QueueGen.VR.NormalQueueRTLCtrl.side, QueueGen.VR.NormalQueueRTLCtrl.c_num_entries, QueueGen.VR.NormalQueueRTLCtrl.c_last_idx]

theorem gen_VR_NormalQueueRTLCtrl_out {α : Type} (n : Nat) (s : VRing α) (i : In α) :
    (vrStep n s i).2.enqRdy = (VRNormalQueueRTLCtrlVal n s i).enq_rdy ∧ (vrStep n s i).2.deqRdy = (VRNormalQueueRTLCtrlVal n s i).deq_val ∧ (vrStep n s i).1.nfe = (VRNormalQueueRTLCtrlVal n s i).num_free_entries := by
  gen_tac [VRNormalQueueRTLCtrlVal]

/-! ## VR.NormalQueueRTLDpath -/

/-- the signals of `NormalQueueRTLDpath` as terms of the model -/
def VRNormalQueueRTLDpathVal {α : Type} (n : Nat) (s : VRing α) (i : In α) : QueueGen.VR.NormalQueueRTLDpath.Sig α :=
  { reset := i.rst,
    enq_bits := i.msg,
    deq_bits := (s.regs s.deqPtr),
    wen := (!s.full && i.enq),
    waddr := s.enqPtr,
    raddr := s.deqPtr,
    queue__raddr_0 := s.deqPtr,
    queue__rdata_0 := (s.regs s.deqPtr),
    queue__waddr_0 := s.enqPtr,
    queue__wdata_0 := i.msg,
    queue__wen_0 := (!s.full && i.enq),
    queue__regs := s.regs }

theorem gen_VR_NormalQueueRTLDpath_queue__rdata_0_eq {α : Type} (n : Nat) (s : VRing α) (i : In α) :
    QueueGen.VR.NormalQueueRTLDpath.queue__up_rf_read_rdata_0 n (VRNormalQueueRTLDpathVal n s i) = (VRNormalQueueRTLDpathVal n s i).queue__rdata_0 := by
  gen_tac [QueueGen.VR.NormalQueueRTLDpath.queue__up_rf_read_rdata_0, QueueGen.Basic.RegisterFile_1_1.up_rf_read_rdata_0, VRNormalQueueRTLDpathVal]

theorem gen_VR_NormalQueueRTLDpath_queue__regs_next_eq {α : Type} (n : Nat) (s : VRing α) (i : In α) :
    QueueGen.VR.NormalQueueRTLDpath.queue__up_rf_write_regs_next n (VRNormalQueueRTLDpathVal n s i) = (vrStep n s i).1.regs := by
  gen_tac [QueueGen.VR.NormalQueueRTLDpath.queue__up_rf_write_regs_next, QueueGen.Basic.RegisterFile_1_1.up_rf_write_regs_next, VRNormalQueueRTLDpathVal]

theorem gen_VR_NormalQueueRTLDpath_wires {α : Type} (n : Nat) (s : VRing α) (i : In α) : QueueGen.VR.NormalQueueRTLDpath.wires n (VRNormalQueueRTLDpathVal n s i) := by
  simp [QueueGen.VR.NormalQueueRTLDpath.wires, VRNormalQueueRTLDpathVal, q1Step, s1Step, er1Step, er1Raw, v1Step]

theorem gen_VR_NormalQueueRTLDpath_widths (n : Nat) : QueueGen.VR.NormalQueueRTLDpath.widths n =
    [("enq_bits", 0), ("deq_bits", 0), ("wen", 1), ("waddr", Queue.clog2 n), ("raddr", Queue.clog2 n)] := rfl

theorem gen_VR_NormalQueueRTLDpath_side (n : Nat) (hn : 2 ≤ n) : QueueGen.VR.NormalQueueRTLDpath.side n := by
  side_tac [QueueGen.VR.NormalQueueRTLDpath.side]

theorem gen_VR_NormalQueueRTLDpath_out {α : Type} (n : Nat) (s : VRing α) (i : In α) :
    (vrStep n s i).2.ret = if (vrStep n s i).2.deqRdy then some (VRNormalQueueRTLDpathVal n s i).deq_bits else none := by
  gen_tac [VRNormalQueueRTLDpathVal]

/-! ## wrapper classes: dispatch on the capacity, instance and connection tables

The expected tables below are the wiring the valuations above and `runCls` assume (ctrl ↔ dpath: `wen`, `waddr`, `raddr`, `mux_sel`;
interface fields ↔ ctrl / dpath ports; one-entry class for capacity 1); connections are sorted, a pair is unordered. -/

theorem gen_Q_NormalQueueRTL_struct (n : Nat) :
    QueueGen.Q.NormalQueueRTL.ports n = [("enq", "EnqIfcRTL", 0), ("deq", "DeqIfcRTL", 0), ("count", "OutPort", Queue.clog2 (n + 1))] ∧
    QueueGen.Q.NormalQueueRTL.asserts = ["num_entries > 0"] ∧
    QueueGen.Q.NormalQueueRTL.insts_one = [("q", "NormalQueue1EntryRTL(EntryType)")] ∧
    QueueGen.Q.NormalQueueRTL.conns_one = [("count", "q.count"), ("deq", "q.deq"), ("enq", "q.enq")] ∧
    QueueGen.Q.NormalQueueRTL.insts_multi = [("ctrl", "NormalQueueCtrlRTL(num_entries)"), ("dpath", "NormalQueueDpathRTL(EntryType, num_entries)")] ∧
    QueueGen.Q.NormalQueueRTL.conns_multi = [("count", "ctrl.count"), ("ctrl.deq_en", "deq.en"), ("ctrl.deq_rdy", "deq.rdy"), ("ctrl.enq_en", "enq.en"), ("ctrl.enq_rdy", "enq.rdy"), ("ctrl.raddr", "dpath.raddr"), ("ctrl.waddr", "dpath.waddr"), ("ctrl.wen", "dpath.wen"), ("deq.ret", "dpath.deq_ret"), ("dpath.enq_msg", "enq.msg")] := by
  refine ⟨rfl, rfl, rfl, rfl, rfl, rfl⟩

theorem gen_Q_NormalQueueRTL_dispatch {α : Type} (n : Nat) (d : α) (is : List (In α)) :
    runCls .qNormal n d is = if QueueGen.Q.NormalQueueRTL.sel_one n then run (q1Step .normal) (Queue.One.init d) is else run (ringStep true .normal n) (Ring.init d) is := by
  simp [runCls, QueueGen.Q.NormalQueueRTL.sel_one, Cls.kind]

theorem gen_Q_PipeQueueRTL_struct (n : Nat) :
    QueueGen.Q.PipeQueueRTL.ports n = [("enq", "EnqIfcRTL", 0), ("deq", "DeqIfcRTL", 0), ("count", "OutPort", Queue.clog2 (n + 1))] ∧
    QueueGen.Q.PipeQueueRTL.asserts = ["num_entries > 0"] ∧
    QueueGen.Q.PipeQueueRTL.insts_one = [("q", "PipeQueue1EntryRTL(EntryType)")] ∧
    QueueGen.Q.PipeQueueRTL.conns_one = [("count", "q.count"), ("deq", "q.deq"), ("enq", "q.enq")] ∧
    QueueGen.Q.PipeQueueRTL.insts_multi = [("ctrl", "PipeQueueCtrlRTL(num_entries)"), ("dpath", "NormalQueueDpathRTL(EntryType, num_entries)")] ∧
    QueueGen.Q.PipeQueueRTL.conns_multi = [("count", "ctrl.count"), ("ctrl.deq_en", "deq.en"), ("ctrl.deq_rdy", "deq.rdy"), ("ctrl.enq_en", "enq.en"), ("ctrl.enq_rdy", "enq.rdy"), ("ctrl.raddr", "dpath.raddr"), ("ctrl.waddr", "dpath.waddr"), ("ctrl.wen", "dpath.wen"), ("deq.ret", "dpath.deq_ret"), ("dpath.enq_msg", "enq.msg")] := by
  refine ⟨rfl, rfl, rfl, rfl, rfl, rfl⟩

theorem gen_Q_PipeQueueRTL_dispatch {α : Type} (n : Nat) (d : α) (is : List (In α)) :
    runCls .qPipe n d is = if QueueGen.Q.PipeQueueRTL.sel_one n then run (q1Step .pipe) (Queue.One.init d) is else run (ringStep true .pipe n) (Ring.init d) is := by
  simp [runCls, QueueGen.Q.PipeQueueRTL.sel_one, Cls.kind]

theorem gen_Q_BypassQueueRTL_struct (n : Nat) :
    QueueGen.Q.BypassQueueRTL.ports n = [("enq", "EnqIfcRTL", 0), ("deq", "DeqIfcRTL", 0), ("count", "OutPort", Queue.clog2 (n + 1))] ∧
    QueueGen.Q.BypassQueueRTL.asserts = ["num_entries > 0"] ∧
    QueueGen.Q.BypassQueueRTL.insts_one = [("q", "BypassQueue1EntryRTL(EntryType)")] ∧
    QueueGen.Q.BypassQueueRTL.conns_one = [("count", "q.count"), ("deq", "q.deq"), ("enq", "q.enq")] ∧
    QueueGen.Q.BypassQueueRTL.insts_multi = [("ctrl", "BypassQueueCtrlRTL(num_entries)"), ("dpath", "BypassQueueDpathRTL(EntryType, num_entries)")] ∧
    QueueGen.Q.BypassQueueRTL.conns_multi = [("count", "ctrl.count"), ("ctrl.deq_en", "deq.en"), ("ctrl.deq_rdy", "deq.rdy"), ("ctrl.enq_en", "enq.en"), ("ctrl.enq_rdy", "enq.rdy"), ("ctrl.mux_sel", "dpath.mux_sel"), ("ctrl.raddr", "dpath.raddr"), ("ctrl.waddr", "dpath.waddr"), ("ctrl.wen", "dpath.wen"), ("deq.ret", "dpath.deq_ret"), ("dpath.enq_msg", "enq.msg")] := by
  refine ⟨rfl, rfl, rfl, rfl, rfl, rfl⟩

theorem gen_Q_BypassQueueRTL_dispatch {α : Type} (n : Nat) (d : α) (is : List (In α)) :
    runCls .qBypass n d is = if QueueGen.Q.BypassQueueRTL.sel_one n then run (q1Step .bypass) (Queue.One.init d) is else run (ringStep true .bypass n) (Ring.init d) is := by
  simp [runCls, QueueGen.Q.BypassQueueRTL.sel_one, Cls.kind]

theorem gen_S_NormalQueueRTL_struct (n : Nat) :
    QueueGen.S.NormalQueueRTL.ports n = [("recv", "RecvIfcRTL", 0), ("send", "SendIfcRTL", 0), ("count", "OutPort", Queue.clog2 (n + 1))] ∧
    QueueGen.S.NormalQueueRTL.asserts = ["num_entries > 0"] ∧
    QueueGen.S.NormalQueueRTL.insts_one = [("q", "NormalQueue1EntryRTL(EntryType)")] ∧
    QueueGen.S.NormalQueueRTL.conns_one = [("count", "q.count"), ("q.recv", "recv"), ("q.send", "send")] ∧
    QueueGen.S.NormalQueueRTL.insts_multi = [("ctrl", "NormalQueueCtrlRTL(num_entries)"), ("dpath", "NormalQueueDpathRTL(EntryType, num_entries)")] ∧
    QueueGen.S.NormalQueueRTL.conns_multi = [("count", "ctrl.count"), ("ctrl.raddr", "dpath.raddr"), ("ctrl.recv_rdy", "recv.rdy"), ("ctrl.recv_val", "recv.val"), ("ctrl.send_rdy", "send.rdy"), ("ctrl.send_val", "send.val"), ("ctrl.waddr", "dpath.waddr"), ("ctrl.wen", "dpath.wen"), ("dpath.recv_msg", "recv.msg"), ("dpath.send_msg", "send.msg")] := by
  refine ⟨rfl, rfl, rfl, rfl, rfl, rfl⟩

theorem gen_S_NormalQueueRTL_dispatch {α : Type} (n : Nat) (d : α) (is : List (In α)) :
    runCls .sNormal n d is = if QueueGen.S.NormalQueueRTL.sel_one n then run (s1Step .normal) (Queue.One.init d) is else run (ringStep false .normal n) (Ring.init d) is := by
  simp [runCls, QueueGen.S.NormalQueueRTL.sel_one, Cls.kind]

theorem gen_S_PipeQueueRTL_struct (n : Nat) :
    QueueGen.S.PipeQueueRTL.ports n = [("recv", "RecvIfcRTL", 0), ("send", "SendIfcRTL", 0), ("count", "OutPort", Queue.clog2 (n + 1))] ∧
    QueueGen.S.PipeQueueRTL.asserts = ["num_entries > 0"] ∧
    QueueGen.S.PipeQueueRTL.insts_one = [("q", "PipeQueue1EntryRTL(EntryType)")] ∧
    QueueGen.S.PipeQueueRTL.conns_one = [("count", "q.count"), ("q.recv", "recv"), ("q.send", "send")] ∧
    QueueGen.S.PipeQueueRTL.insts_multi = [("ctrl", "PipeQueueCtrlRTL(num_entries)"), ("dpath", "NormalQueueDpathRTL(EntryType, num_entries)")] ∧
    QueueGen.S.PipeQueueRTL.conns_multi = [("count", "ctrl.count"), ("ctrl.raddr", "dpath.raddr"), ("ctrl.recv_rdy", "recv.rdy"), ("ctrl.recv_val", "recv.val"), ("ctrl.send_rdy", "send.rdy"), ("ctrl.send_val", "send.val"), ("ctrl.waddr", "dpath.waddr"), ("ctrl.wen", "dpath.wen"), ("dpath.recv_msg", "recv.msg"), ("dpath.send_msg", "send.msg")] := by
  refine ⟨rfl, rfl, rfl, rfl, rfl, rfl⟩

theorem gen_S_PipeQueueRTL_dispatch {α : Type} (n : Nat) (d : α) (is : List (In α)) :
    runCls .sPipe n d is = if QueueGen.S.PipeQueueRTL.sel_one n then run (s1Step .pipe) (Queue.One.init d) is else run (ringStep false .pipe n) (Ring.init d) is := by
  simp [runCls, QueueGen.S.PipeQueueRTL.sel_one, Cls.kind]

theorem gen_S_BypassQueueRTL_struct (n : Nat) :
    QueueGen.S.BypassQueueRTL.ports n = [("recv", "RecvIfcRTL", 0), ("send", "SendIfcRTL", 0), ("count", "OutPort", Queue.clog2 (n + 1))] ∧
    QueueGen.S.BypassQueueRTL.asserts = ["num_entries > 0"] ∧
    QueueGen.S.BypassQueueRTL.insts_one = [("q", "BypassQueue1EntryRTL(EntryType)")] ∧
    QueueGen.S.BypassQueueRTL.conns_one = [("count", "q.count"), ("q.recv", "recv"), ("q.send", "send")] ∧
    QueueGen.S.BypassQueueRTL.insts_multi = [("ctrl", "BypassQueueCtrlRTL(num_entries)"), ("dpath", "BypassQueueDpathRTL(EntryType, num_entries)")] ∧
    QueueGen.S.BypassQueueRTL.conns_multi = [("count", "ctrl.count"), ("ctrl.mux_sel", "dpath.mux_sel"), ("ctrl.raddr", "dpath.raddr"), ("ctrl.recv_rdy", "recv.rdy"), ("ctrl.recv_val", "recv.val"), ("ctrl.send_rdy", "send.rdy"), ("ctrl.send_val", "send.val"), ("ctrl.waddr", "dpath.waddr"), ("ctrl.wen", "dpath.wen"), ("dpath.recv_msg", "recv.msg"), ("dpath.send_msg", "send.msg")] := by
  refine ⟨rfl, rfl, rfl, rfl, rfl, rfl⟩

theorem gen_S_BypassQueueRTL_dispatch {α : Type} (n : Nat) (d : α) (is : List (In α)) :
    runCls .sBypass n d is = if QueueGen.S.BypassQueueRTL.sel_one n then run (s1Step .bypass) (Queue.One.init d) is else run (ringStep false .bypass n) (Ring.init d) is := by
  simp [runCls, QueueGen.S.BypassQueueRTL.sel_one, Cls.kind]

theorem gen_ER_BypassQueue2RTL_struct (n : Nat) :
    QueueGen.ER.BypassQueue2RTL.ports n = [("enq", "RecvIfcRTL", 0), ("deq", "SendIfcRTL", 0)] ∧
    QueueGen.ER.BypassQueue2RTL.asserts = ["queue_size == 2"] ∧
    QueueGen.ER.BypassQueue2RTL.insts_all = [("q1", "BypassQueue1RTL(MsgType)"), ("q2", "BypassQueue1RTL(MsgType)")] ∧
    QueueGen.ER.BypassQueue2RTL.conns_all = [("deq", "q2.deq"), ("enq", "q1.enq"), ("q1.deq", "q2.enq")] := by
  refine ⟨rfl, rfl, rfl, rfl⟩

theorem gen_VR_NormalQueueRTL_struct (n : Nat) :
    QueueGen.VR.NormalQueueRTL.ports n = [("enq", "InValRdyIfc", 0), ("deq", "OutValRdyIfc", 0), ("num_free_entries", "OutPort", Queue.clog2 (n + 1))] ∧
    QueueGen.VR.NormalQueueRTL.asserts = [] ∧
    QueueGen.VR.NormalQueueRTL.insts_all = [("ctrl", "NormalQueueRTLCtrl(num_entries)"), ("dpath", "NormalQueueRTLDpath(num_entries, Type)")] ∧
    QueueGen.VR.NormalQueueRTL.conns_all = [("ctrl.deq_rdy", "deq.rdy"), ("ctrl.deq_val", "deq.val"), ("ctrl.enq_rdy", "enq.rdy"), ("ctrl.enq_val", "enq.val"), ("ctrl.num_free_entries", "num_free_entries"), ("ctrl.raddr", "dpath.raddr"), ("ctrl.waddr", "dpath.waddr"), ("ctrl.wen", "dpath.wen"), ("deq.msg", "dpath.deq_bits"), ("dpath.enq_bits", "enq.msg")] := by
  refine ⟨rfl, rfl, rfl, rfl⟩

end PV.C17Gen
