import PymtlVerif.Proofs.Mamba
/-!
# C01 / C07, scheduler part — the packing and ordering algorithms of `pymtl3/passes/mamba` lose, duplicate and
# illegally reorder nothing, for every input

Model: `Model/Mamba.lean` (written from `Mamba2020Pass.py` and `HeuristicTopoPass.py`); lemmas: `Proofs/Mamba.lean`;
the Kahn invariant `PV.Kahn.Good` and its consequences (`good_nodup'`, `good_order`) are reused from `Proofs/Kahn.lean`.

* `schedule_ff`: `sortBr_perm`, `sortBr_sorted`, `sortBr_stable`, `packFF_flatten`, `packFF_bounds`
* `compile_scc` (SCC of >= 10 blocks cut into meta blocks, < 10 inlined): `packSCC_flatten`, `packSCC_bounds`
* `insert_sortedlist`: `insertSorted_perm`, `insertSorted_sorted`
* `Mamba2020Pass.schedule_intra_cycle`: `mamba_fuel`, `mamba_topo`, `mamba_complete`, `mamba_segmentation`, `mamba_bounds`
* `HeuristicTopoPass.schedule_intra_cycle`: `heu_fuel`, `heu_topo`, `heu_complete`, `heu_pops_min`

Every theorem is universally quantified over its inputs (block lists, branchiness values, graphs, sizes). Beside each
one a non-vacuity `example` on a concrete input in which a flush really happens.
-/
namespace PV.C01m
open PV.Mamba

/-! ## schedule_ff -/

/-- `sorted(ffs, key=branchiness)` is a permutation of its input -/
theorem sortBr_perm {β : Type} (br : β → Nat) (l : List β) : (sortBr br l).Perm l := PV.Mamba.sortBr_perm br l

/-- … ordered by branchiness … -/
theorem sortBr_sorted {β : Type} (br : β → Nat) (l : List β) : (sortBr br l).Pairwise (fun a b => br a ≤ br b) :=
  PV.Mamba.sortBr_sorted br l

/-- … and stable: blocks of equal branchiness keep their input order -/
theorem sortBr_stable {β : Type} (br : β → Nat) (k : Nat) (l : List β) :
    (sortBr br l).filter (fun a => br a == k) = l.filter (fun a => br a == k) := PV.Mamba.sortBr_stable br k l

/-- The meta blocks of `schedule_ff`, concatenated, are exactly the sorted list (so: a permutation of the update_ff
blocks, each block exactly once — C07's `ff_perm` makes their order irrelevant), and no meta block is empty. -/
theorem packFF_flatten {β : Type} (l : List (Nat × β)) :
    (packFF l).flatten = (sortBr Prod.fst l).map Prod.snd ∧
    (packFF l).flatten.Perm (l.map Prod.snd) ∧
    ∀ m ∈ packFF l, m ≠ [] := by
  have hfl : (packFF l).flatten = (sortBr Prod.fst l).map Prod.snd := by
    unfold packFF packFFOn
    rw [← List.map_flatten, packFFGo_flatten]; simp
  refine ⟨hfl, ?_, ?_⟩
  · rw [hfl]; exact (PV.Mamba.sortBr_perm Prod.fst l).map Prod.snd
  · intro m hm
    unfold packFF packFFOn at hm
    obtain ⟨m', hm', rfl⟩ := List.mem_map.mp hm
    have := packFFGo_nonempty Prod.fst _ _ _ _ m' hm'
    intro h; exact this (List.map_eq_nil_iff.mp h)

/-- What the code guarantees about the size of an update_ff meta block: at most `branchy_block_factor = 6` branchy
blocks, and the branchiness accumulated *before its last member* is below `branchiness_factor = 20` (the member that
reaches the bound closes the meta block, so the total may exceed 20 by that member's branchiness). -/
theorem packFF_bounds {β : Type} (br : β → Nat) (l : List β) : ∀ m ∈ packFFOn br l, GroupOK br blkFactor m :=
  packFFGo_bounds br _ [] 0 0 rfl rfl (by decide) (by decide)

-- seven blocks of branchiness 1: the seventh opens a second meta block (blocks named 10..16; 13 comes first: br 0)
example : packFF [(1, 10), (1, 11), (1, 12), (0, 13), (1, 14), (1, 15), (1, 16), (1, 17)] = [[13, 10, 11, 12, 14, 15, 16], [17]] := by decide
-- branchiness 19 + 5 >= 20 closes the first meta block with both members (24 >= 20: the bound is on the prefix)
example : packFF [(5, 0), (19, 1), (25, 2), (3, 3)] = [[3, 0, 1], [2]] := by decide

/-! ## compile_scc -/

/-- The meta blocks of an SCC, concatenated, are EXACTLY the BFS order they were cut from (nothing lost, nothing
duplicated, order preserved), and none is empty. -/
theorem packSCC_flatten {β : Type} (l : List (Nat × Bool × β)) :
    (packSCC l).flatten = l.map (fun x => x.2.2) ∧ (l ≠ [] → ∀ m ∈ packSCC l, m ≠ []) := by
  constructor
  · unfold packSCC; rw [← List.map_flatten, packSCCOn_flatten]
  · intro hl m hm
    unfold packSCC at hm
    obtain ⟨m', hm', rfl⟩ := List.mem_map.mp hm
    have := packSCCOn_nonempty effBr l hl m' hm'
    intro h; exact this (List.map_eq_nil_iff.mp h)

/-- Size of the meta blocks of an SCC with >= 10 blocks: at most 5 branchy blocks (the code tests
`cur_count + 1 >= 6` after counting the block), accumulated branchiness before the last member < 20. With < 10 blocks
the SCC is one group, whatever its branchiness (`packSCC_small`). -/
theorem packSCC_bounds {β : Type} (l : List (Nat × Bool × β)) (hl : 10 ≤ l.length) :
    ∀ m ∈ packSCCOn effBr l, GroupOK effBr 5 m := packSCCOn_bounds effBr l hl

theorem packSCC_small {β : Type} (l : List (Nat × Bool × β)) (hl : l.length < 10) : packSCC l = [l.map (fun x => x.2.2)] := by
  unfold packSCC packSCCOn; simp [hl]

-- 10 blocks; flushes at: a block of branchiness 25 alone (first site), a zero-branch block after branchy ones
-- (second site), 9 + 9 + 9 >= 20 (third site); block 3 is loop-only, its branchiness 7 counts as 0
example : packSCC [(0, false, 0), (25, false, 1), (1, false, 2), (7, true, 3), (9, false, 4), (9, false, 5), (0, false, 6),
                   (0, false, 7), (2, false, 8), (2, false, 9)] = [[0, 1], [2], [3, 4, 5], [6, 7, 8, 9]] := by decide
example : packSCC [(25, false, 0), (25, false, 1), (9, false, 2)] = [[0, 1, 2]] := by decide

/-! ## insert_sortedlist -/

/-- the insert adds exactly the new entry (wherever the binary search lands) -/
theorem insertSorted_perm (arr : List QE) (key : Key) (item : Nat) :
    (insertSorted arr key item).Perm ((key, item) :: arr) := PV.Mamba.insertSorted_perm arr key item

/-- on a queue ordered by Python's `<=` on `(br, -cnt)` the result is ordered again: the binary search (with fuel
`len(arr)`) finds the position after the last key `<=` the new one (`bsearch_spec`) -/
theorem insertSorted_sorted (arr : List QE) (key : Key) (item : Nat) (hs : QSorted arr) :
    QSorted (insertSorted arr key item) := PV.Mamba.insertSorted_sorted arr key item hs

example : insertSorted [((0, 5), 50), ((0, 2), 20), ((1, 4), 40), ((3, 1), 10)] (1, 6) 60
    = [((0, 5), 50), ((0, 2), 20), ((1, 6), 60), ((1, 4), 40), ((3, 1), 10)] := by decide

/-! ## Mamba2020Pass.schedule_intra_cycle -/
section
variable (G : Nat → List Nat) (kb : Nat → Nat) (n : Nat)

/-- Fuel: after `n` iterations the queue is empty (the `while Q` loop has ended), and more fuel changes nothing. -/
theorem mamba_fuel (hwf : WF G n) :
    (mambaFinal G kb n).q = [] ∧ ∀ k, mambaLoop G kb (n + k) (mambaInit G kb n) = mambaFinal G kb n := by
  have hq := mambaLoop_q G kb n hwf n _ (mambaInit_inv G kb n) (by omega)
  refine ⟨hq, fun k => ?_⟩
  rw [mambaLoop_add]
  exact mambaLoop_stable G kb k _ hq

/-- The flattened SCC schedule has no duplicates, contains only SCC ids, and every edge `u → v` of `G_new` whose
target is scheduled has its source scheduled strictly earlier — whatever the branchiness keys, i.e. whatever
`pop(0)` / `pop()` picks. -/
theorem mamba_topo (hwf : WF G n) :
    (mambaOrder G kb n).Nodup ∧ (∀ x ∈ mambaOrder G kb n, x < n) ∧
    ∀ u v, u < n → v ∈ G u → v ∈ mambaOrder G kb n →
      ∃ pre post, mambaOrder G kb n = pre ++ u :: post ∧ v ∈ post := by
  have hinv := mambaLoop_inv G kb n hwf n _ (mambaInit_inv G kb n)
  have hord : mambaOrder G kb n = (flat (mambaFinal G kb n).pk).reverse.reverse := by
    unfold mambaOrder mambaSched; rw [finish_flatten]; simp
  rw [hord]
  exact kinv_order G n hinv.kinv

/-- Completeness: an SCC that is not scheduled has a predecessor that is not scheduled (the leftovers contain a
cycle); hence when the condensation is acyclic — which it is by construction of `kosaraju_scc` — every SCC appears,
exactly once: the order is a permutation of `0..n-1`. -/
theorem mamba_complete (hwf : WF G n) :
    (∀ v, v < n → v ∉ mambaOrder G kb n → ∃ u, u < n ∧ u ∉ mambaOrder G kb n ∧ v ∈ G u) ∧
    (Acyclic G n → (mambaOrder G kb n).Perm (List.range n)) := by
  have hinv := mambaLoop_inv G kb n hwf n _ (mambaInit_inv G kb n)
  have hq := (mamba_fuel G kb n hwf).1
  have hord : mambaOrder G kb n = (flat (mambaFinal G kb n).pk).reverse.reverse := by
    unfold mambaOrder mambaSched; rw [finish_flatten]; simp
  have hk : KInv G n [] (mambaFinal G kb n).ind (flat (mambaFinal G kb n).pk).reverse := by
    have := hinv.kinv
    unfold mambaFinal at hq
    unfold mambaFinal
    rw [hq] at this
    simpa using this
  have hleft := kinv_leftover G n hk
  have hmem : ∀ x, x ∈ mambaOrder G kb n ↔ x ∈ (flat (mambaFinal G kb n).pk).reverse := by
    intro x; rw [hord]; simp
  refine ⟨?_, ?_⟩
  · intro v hv hnot
    obtain ⟨u, h1, h2, h3⟩ := hleft v hv (fun h => hnot ((hmem v).mpr h))
    exact ⟨u, h1, fun h => h2 ((hmem u).mp h), h3⟩
  · intro hac
    have hall := acyclic_all G n hac hleft
    obtain ⟨hnd, hlt, _⟩ := mamba_topo G kb n hwf
    refine (List.perm_ext_iff_of_nodup hnd List.nodup_range).mpr ?_
    intro a
    rw [List.mem_range]
    exact ⟨hlt a, fun h => (hmem a).mpr (hall a h)⟩

/-- The queue stays ordered by Python's `<=` on `(br, -cnt)` throughout the loop, so `Q.pop(0)` is a smallest and
`Q.pop()` a largest key (`popQ_extreme`): the binary-search insert is used on sorted input only. -/
theorem mamba_queue_sorted (hwf : WF G n) (fuel : Nat) : QSorted (mambaLoop G kb fuel (mambaInit G kb n)).q ∧
    ∀ e q', popQ (mambaLoop G kb fuel (mambaInit G kb n)).pk.cb (mambaLoop G kb fuel (mambaInit G kb n)).q = some (e, q') →
      ∀ x ∈ q', if (mambaLoop G kb fuel (mambaInit G kb n)).pk.cb = 0 then keyLe e.1 x.1 = true else keyLe x.1 e.1 = true := by
  have hs := (mambaLoop_inv G kb n hwf fuel _ (mambaInit_inv G kb n)).qsorted
  exact ⟨hs, fun e q' h => popQ_extreme hs h⟩

/-- The meta blocks are a segmentation of that order: concatenated they give it back, and none is empty. -/
theorem mamba_segmentation :
    (mambaSched G kb n).flatten = mambaOrder G kb n ∧ ∀ m ∈ mambaSched G kb n, m ≠ [] := by
  refine ⟨rfl, ?_⟩
  unfold mambaSched mambaFinal
  suffices h : ∀ fuel s, PackOK s.pk → PackOK (mambaLoop G kb fuel s).pk from
    finish_nonempty _ (h n _ packOK_empty)
  intro fuel
  induction fuel with
  | zero => intro s h; exact h
  | succ k ih =>
    intro s h
    cases hp : popQ s.pk.cb s.q with
    | none => rw [mambaLoop_succ_none G kb hp]; exact h
    | some x =>
      obtain ⟨⟨⟨r, c⟩, u⟩, q'⟩ := x
      rw [mambaLoop_succ_some G kb hp]
      exact ih _ (stepWith_ok _ _ _ _ h)

/-- Size of a comb meta block: at most 5 branchy members (`cur_count + 1 >= 6`), branchiness accumulated before the
last member < 20; `kb` is the queue key (0 for nontrivial and loop-only SCCs, the block's branchiness otherwise). -/
theorem mamba_bounds (hwf : WF G n) : ∀ m ∈ mambaSched G kb n, GroupOK kb 5 m := by
  have hinv := mambaLoop_inv G kb n hwf n _ (mambaInit_inv G kb n)
  exact finish_bounds kb _ hinv.ok hinv.binv

end

/-- the graph of the examples: `0 → 1, 2, 3`, `1 → 4`, `2 → 4`, `3 → 5` -/
def exG : Nat → List Nat
  | 0 => [1, 2, 3]
  | 1 => [4]
  | 2 => [4]
  | 3 => [5]
  | _ => []
/-- branchiness keys 25, 1, 0, 7, 9, 9 -/
def exKb : Nat → Nat
  | 0 => 25 | 1 => 1 | 3 => 7 | 4 => 9 | 5 => 9 | _ => 0

-- 0 alone exceeds 20 (first flush site); then 2 (key 0) and 1 (key 1) from the front, 4 (key 9) from the back
-- (1 + 9 + 9 < 20), 3 (key 7) from the back: 17 + 7 >= 20 (third site); 5 is left for the last meta block
example : mambaSched exG exKb 6 = [[0], [2, 1, 4, 3], [5]] := by decide
-- a zero-key SCC popped from the back while `cur_br != 0` starts a new meta block (second flush site)
example : mambaSched (fun u => if u = 0 then [1] else []) (fun u => if u = 0 then 3 else 0) 2 = [[0], [1]] := by decide
-- with a cycle 1 ⇄ 2 the leftovers are exactly the cycle and what hangs below it
example : mambaOrder (fun u => match u with | 0 => [1] | 1 => [2] | 2 => [1, 3] | _ => []) (fun _ => 0) 4 = [0] := by decide
example : WF exG 6 := by
  intro u hu v hv
  have : u = 0 ∨ u = 1 ∨ u = 2 ∨ u = 3 ∨ u = 4 ∨ u = 5 := by omega
  rcases this with rfl | rfl | rfl | rfl | rfl | rfl <;> simp [exG] at hv <;> omega
example : Acyclic exG 6 := ⟨fun u => if u = 0 then 0 else if u ≤ 3 then 1 else 2, by
  intro u hu v hv
  have : u = 0 ∨ u = 1 ∨ u = 2 ∨ u = 3 ∨ u = 4 ∨ u = 5 := by omega
  rcases this with rfl | rfl | rfl | rfl | rfl | rfl <;> simp [exG] at hv <;> (try rcases hv with rfl | rfl | rfl) <;> (try subst hv) <;> decide⟩

/-! ## HeuristicTopoPass.schedule_intra_cycle -/
section
variable (G : Nat → List Nat) (br ident : Nat → Nat) (n : Nat)

/-- Fuel: after `n` iterations the priority queue is empty. -/
theorem heu_fuel (hwf : WF G n) :
    (heuFinal G (heuLe br ident) n).q = [] ∧
    ∀ k, heuLoop G (heuLe br ident) (n + k) (heuInit G n) = heuFinal G (heuLe br ident) n := by
  have hq := heuLoop_q G (heuLe br ident) n hwf n _ (heuInit_inv G n) (by simp [heuInit])
  refine ⟨hq, fun k => ?_⟩
  rw [heuLoop_add]
  exact heuLoop_stable G _ k _ hq

/-- `update_schedule` has no duplicates and respects every constraint whose target is scheduled, whatever the
priorities. -/
theorem heu_topo (hwf : WF G n) :
    (heuSched G br ident n).Nodup ∧ (∀ x ∈ heuSched G br ident n, x < n) ∧
    ∀ u v, u < n → v ∈ G u → v ∈ heuSched G br ident n →
      ∃ pre post, heuSched G br ident n = pre ++ u :: post ∧ v ∈ post := by
  have hinv := heuLoop_inv G (heuLe br ident) n hwf n _ (heuInit_inv G n)
  have := kinv_order G n hinv
  simpa [heuSched, heuFinal] using this

/-- A block that is not scheduled has an unscheduled predecessor (then `check_schedule` raises UpblkCyclicError);
on an acyclic constraint graph the schedule is a permutation of all blocks. -/
theorem heu_complete (hwf : WF G n) :
    (∀ v, v < n → v ∉ heuSched G br ident n → ∃ u, u < n ∧ u ∉ heuSched G br ident n ∧ v ∈ G u) ∧
    (Acyclic G n → (heuSched G br ident n).Perm (List.range n)) := by
  have hinv := heuLoop_inv G (heuLe br ident) n hwf n _ (heuInit_inv G n)
  have hq := (heu_fuel G br ident n hwf).1
  unfold heuFinal at hq
  rw [hq] at hinv
  have hleft := kinv_leftover G n hinv
  have hmem : ∀ x, x ∈ heuSched G br ident n ↔ x ∈ (heuLoop G (heuLe br ident) n (heuInit G n)).out.reverse := by
    intro x; simp [heuSched, heuFinal]
  refine ⟨?_, ?_⟩
  · intro v hv hnot
    obtain ⟨u, h1, h2, h3⟩ := hleft v hv (fun h => hnot ((hmem v).mpr h))
    exact ⟨u, h1, fun h => h2 ((hmem u).mp h), h3⟩
  · intro hac
    have hall := acyclic_all G n hac hleft
    obtain ⟨hnd, hlt, _⟩ := heu_topo G br ident n hwf
    refine (List.perm_ext_iff_of_nodup hnd List.nodup_range).mpr ?_
    intro a
    rw [List.mem_range]
    exact ⟨hlt a, fun h => (hmem a).mpr (hall a h)⟩

/-- the priority queue model hands out a minimum of `(branchiness, id)` -/
theorem heu_pops_min {q q' : List Nat} {u : Nat} (h : popMin (heuLe br ident) q = some (u, q')) :
    q.Perm (u :: q') ∧ ∀ x ∈ q, heuLe br ident u x = true := by
  refine ⟨popMin_some _ h, popMin_min _ ?_ ?_ h⟩
  · intro a b hab
    simp only [heuLe, Bool.or_eq_true, decide_eq_true_eq, Bool.and_eq_true, beq_iff_eq, Bool.or_eq_false_iff,
      decide_eq_false_iff_not, Bool.and_eq_false_iff, beq_eq_false_iff_ne] at *
    omega
  · intro a b c h1 h2
    simp only [heuLe, Bool.or_eq_true, decide_eq_true_eq, Bool.and_eq_true, beq_iff_eq] at *
    omega

end

-- 0 is the only root; then by (branchiness, id): 2 (0), 1 (1), 3 (7) before 4 (9), and 5 before 4 (both 9, id 5 < 6)
example : heuSched exG exKb (fun u => 10 - u) 6 = [0, 2, 1, 3, 5, 4] := by decide
example : heuSched (fun u => match u with | 0 => [1] | 1 => [2] | 2 => [1, 3] | _ => []) (fun _ => 0) id 4 = [0] := by decide

end PV.C01m
