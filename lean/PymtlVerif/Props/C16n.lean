import PymtlVerif.Props.C16
import PymtlVerif.Proofs.VCDNets
/-!
# C16 (net table) — which nets the VCD pass dumps, which one it toggles as the clock, which symbol a signal gets

Theorems about the part of `VcdGenerationPass.make_vcd_func` that runs before the first value line is written
(`Model/VCD.lean`: `trimLoop` = the loop over `top.get_all_value_nets()`, `declareAll` = `recurse_models`,
`netTable` = both). The input is the list of value nets **in whatever order the DSL enumerates them** (it follows
set iteration order and differs between two instances of one design), every member tagged whole signal / `s.clk`
/ slice-bit-field / constant, and the list of signals in `$var` order.

* `kept_nets`, `dropped_net_irrelevant`: the nets that are dumped are the input nets restricted to their whole
  signals, empty ones left out, order kept; a net made only of slices / bits / fields / constants has no effect on
  anything the pass computes.
* `clock_index`, `clock_index_skips_dropped`, `clock_unique`: wherever the net with `s.clk` stands in the input and
  however many nets before it are dropped, `vcd_clock_net_idx` is the position of that net **among the kept nets**,
  and no other kept net contains `s.clk`. `no_clock_net` + `table`: in a design whose `s.clk` is in no value net (no
  child components) the declaration walk appends the clock net.
* `table`, `every_signal_one_symbol`, `symbol_of_own_net`, `same_symbol_iff_same_net`, `symbol_text_iff_same_net`,
  `dropped_nets_no_symbol`: every declared signal gets exactly one `$var` line; its symbol is the symbol of a net
  that contains it; two signals have the same symbol exactly when they are in the same net; the nets (= symbols in
  use) are the kept nets followed by one net per signal that is in no kept net — nothing else.
* `table_replay_dump`, `table_replay_signal`: composition with `PV.C16.replay_dump` — the `Design` built from the
  table satisfies the side condition `clk < #nets` of the replay theorems, hence reading the dump gives back the
  sampled trace, per net and per declared signal.
-/
namespace PV.C16n
open PV.Bits PV.VCD PV.C16

/-! ## the trimming loop -/

/-- the loop keeps, in input order, the whole signals of every net and skips nets of which nothing is left -/
theorem kept_nets (nets k : List (List Member)) (c : Option Nat) (h : trimLoop nets [] none = some (k, c)) :
    k = keptOf nets := by
  simpa using trimLoop_kept nets [] none k c h

/-- **clock index.** `s.clk` occurs once, in `net`; `pre` / `post` (any nets, any number of them dropped) come
    before / after it: the loop ends with `vcd_clock_net_idx` = the number of *kept* nets of `pre`, the kept net at
    that index is `net` restricted to its whole signals, and it contains `s.clk` -/
theorem clock_index (pre : List (List Member)) (net : List Member) (post : List (List Member))
    (hpre : ∀ n ∈ pre, Member.clk ∉ n) (hpost : ∀ n ∈ post, Member.clk ∉ n) (hnet : net.count Member.clk = 1) :
    trimLoop (pre ++ net :: post) [] none = some (keptOf (pre ++ net :: post), some (keptOf pre).length) ∧
    (keptOf (pre ++ net :: post))[(keptOf pre).length]? = some (net.filter Member.top) ∧
    Member.clk ∈ net.filter Member.top := by
  have hmem : Member.clk ∈ net := List.count_pos_iff.mp (by omega)
  have hne := filter_top_ne_nil hmem
  refine ⟨by simpa using trimLoop_clk pre net post [] hpre hpost hnet, ?_, List.mem_filter.mpr ⟨hmem, rfl⟩⟩
  rw [keptOf_append, keptOf_cons]
  simp [hne]

/-- the index counts kept nets only: it is the input position minus the number of dropped nets before it -/
theorem clock_index_skips_dropped (pre : List (List Member)) :
    (keptOf pre).length + (pre.filter (fun n => n.all (fun x => !x.top))).length = pre.length := by
  induction pre with
  | nil => rfl
  | cons n ns ih =>
    rw [keptOf_cons]
    by_cases h : n.filter Member.top = []
    · have ha : n.all (fun x => !x.top) = true := by
        rw [List.all_eq_true]; intro x hx
        have := (List.filter_eq_nil_iff.mp h) x hx
        simpa using this
      simp [h, ha]; omega
    · have ha : n.all (fun x => !x.top) = false := by
        cases hb : n.all (fun x => !x.top) with
        | false => rfl
        | true =>
          exfalso; apply h
          rw [List.filter_eq_nil_iff]; intro x hx
          have := (List.all_eq_true.mp hb) x hx
          simpa using this
      simp [h, ha]; omega

/-- no other kept net contains `s.clk` -/
theorem clock_unique (pre : List (List Member)) (net : List Member) (post : List (List Member))
    (hpre : ∀ n ∈ pre, Member.clk ∉ n) (hpost : ∀ n ∈ post, Member.clk ∉ n)
    (j : Nat) (n : List Member) (hj : (keptOf (pre ++ net :: post))[j]? = some n) (hc : Member.clk ∈ n) :
    j = (keptOf pre).length := by
  have hno : ∀ (l : List (List Member)), (∀ m ∈ l, Member.clk ∉ m) → ∀ k ∈ keptOf l, Member.clk ∉ k := by
    intro l hl k hk hck
    obtain ⟨_, m, hm, e⟩ := mem_keptOf hk
    rw [e] at hck
    exact hl m hm (List.mem_filter.mp hck).1
  rw [keptOf_append] at hj
  rcases Nat.lt_or_ge j (keptOf pre).length with h | h
  · rw [List.getElem?_append_left h] at hj
    exact absurd hc (hno pre hpre n (List.mem_of_getElem? hj))
  · rw [List.getElem?_append_right h] at hj
    cases hk : j - (keptOf pre).length with
    | zero => omega
    | succ k =>
      rw [hk, keptOf_cons] at hj
      have : n ∈ keptOf post := by
        by_cases he : net.filter Member.top = []
        · simp only [he, if_true] at hj; exact List.mem_of_getElem? hj
        · simp only [he, if_false, List.getElem?_cons_succ] at hj; exact List.mem_of_getElem? hj
      exact absurd hc (hno post hpost n this)

/-- a design whose `s.clk` is in no value net: the loop leaves `vcd_clock_net_idx` unset (the declaration walk sets it) -/
theorem no_clock_net (nets : List (List Member)) (h : ∀ n ∈ nets, Member.clk ∉ n) :
    trimLoop nets [] none = some (keptOf nets, none) := by
  simpa using trimLoop_noclk nets [] none h

/-- a net without a whole signal (only bits / slices / struct fields / constants), anywhere in the input, changes
    nothing: not the kept nets, not the clock index, not a single `$var` line -/
theorem dropped_net_irrelevant (pre : List (List Member)) (d : List Member) (post : List (List Member))
    (decl : List Member) (hd : ∀ x ∈ d, x.top = false) :
    netTable (pre ++ d :: post) decl = netTable (pre ++ post) decl := by
  unfold netTable
  rw [trimLoop_drop pre d post [] none hd]

/-! ## the whole table -/

/-- the nets the declaration walk appends: declared signals that are in no kept net, one net each -/
def ownNets (nets : List (List Member)) (decl : List Member) : List (List Member) :=
  (decl.filter (fun x => decide (x ∉ (keptOf nets).flatten))).map (fun x => [x])

/-- **the table.** At most one `s.clk` among all members of all nets, every signal declared once, `s.clk` among
    them: the pass does not raise; its nets are the kept nets followed by the signals that are in no kept net;
    the `$var` lines are the declared signals in order, each with the number of a net that contains it; the clock
    index points at a net that contains `s.clk`, and if `s.clk` is in an input net it is the index of `clock_index` -/
theorem table (nets : List (List Member)) (decl : List Member)
    (hclk : nets.flatten.count Member.clk ≤ 1) (hnd : decl.Nodup) (hdecl : Member.clk ∈ decl) :
    ∃ t i, netTable nets decl = some t ∧
      t.nets = keptOf nets ++ ownNets nets decl ∧
      t.vars.map (·.1) = decl ∧
      (∀ p ∈ t.vars, ∃ n, t.nets[p.2]? = some n ∧ p.1 ∈ n) ∧
      t.clk = some i ∧ (∃ n, t.nets[i]? = some n ∧ Member.clk ∈ n) ∧
      (∀ pre net post, nets = pre ++ net :: post → (∀ n ∈ pre, Member.clk ∉ n) → (∀ n ∈ post, Member.clk ∉ n) →
        net.count Member.clk = 1 → i = (keptOf pre).length) := by
  let kept := keptOf nets
  let m0 : Member → Option Nat := dictGet (mapNets 0 kept [])
  have hown : extraNets m0 decl = ownNets nets decl := by
    unfold extraNets ownNets
    congr 1
    apply List.filter_congr
    intro x _
    cases hm : m0 x with
    | none =>
      have := initMap_none kept x hm
      have hx : x ∉ (keptOf nets).flatten := by
        intro h
        obtain ⟨n, hn, hxn⟩ := List.mem_flatten.mp h
        exact this n hn hxn
      simp [hx]
    | some j =>
      obtain ⟨n, hn, hxn⟩ := initMap_some kept x j hm
      have hx : x ∈ (keptOf nets).flatten := List.mem_flatten.mpr ⟨n, List.mem_of_getElem? hn, hxn⟩
      simp [hx]
  rcases clk_cases nets hclk with hno | ⟨pre, net, post, e, hpre, hpost, hnet⟩
  · -- `s.clk` in no value net
    have hloop := no_clock_net nets hno
    have hm0 : m0 Member.clk = none := by
      cases hm : m0 Member.clk with
      | none => rfl
      | some j =>
        exfalso
        obtain ⟨n, hn, hcn⟩ := initMap_some kept _ j hm
        obtain ⟨_, m, hm', e⟩ := mem_keptOf (List.mem_of_getElem? hn)
        rw [e] at hcn
        exact hno m hm' (List.mem_filter.mp hcn).1
    obtain ⟨t', vs, h1, h2, h3, h4, h5, h6⟩ :=
      declareAll_spec m0 decl { nets := kept, clk := none, smap := mapNets 0 kept [], vars := [] } hnd
        (fun _ _ => rfl) (fun x _ j hj => initMap_some kept x j hj) (fun _ _ => rfl)
    have hcond : Member.clk ∈ decl ∧ m0 Member.clk = none := ⟨hdecl, hm0⟩
    simp only [hcond, and_self, if_true] at h6
    obtain ⟨i, hi, hni⟩ := h6
    refine ⟨t', i, ?_, ?_, ?_, ?_, hi, ⟨[Member.clk], hni, by simp⟩, ?_⟩
    · unfold netTable; rw [hloop]; exact h1
    · rw [h2, hown]
    · rw [h3]; simpa using h4
    · intro p hp
      rw [h3] at hp
      exact (h5 p (by simpa using hp)).2
    · intro pre net post e _ _ hnet
      exfalso
      have hmem : Member.clk ∈ net := List.count_pos_iff.mp (by omega)
      exact hno net (by rw [e]; simp) hmem
  · -- `s.clk` in the net `net`
    subst e
    obtain ⟨hloop, hidx, hcmem⟩ := clock_index pre net post hpre hpost hnet
    have hm0 : m0 Member.clk ≠ none := by
      intro hm
      have := initMap_none kept _ hm (net.filter Member.top) (List.mem_of_getElem? hidx)
      exact this hcmem
    obtain ⟨t', vs, h1, h2, h3, h4, h5, h6⟩ :=
      declareAll_spec m0 decl { nets := kept, clk := some (keptOf pre).length, smap := mapNets 0 kept [], vars := [] } hnd
        (fun _ _ => rfl) (fun x _ j hj => initMap_some kept x j hj) (fun _ h => absurd h hm0)
    have hcond : ¬ (Member.clk ∈ decl ∧ m0 Member.clk = none) := fun h => hm0 h.2
    simp only [hcond, if_false] at h6
    refine ⟨t', (keptOf pre).length, ?_, ?_, ?_, ?_, h6, ⟨net.filter Member.top, ?_, hcmem⟩, ?_⟩
    · unfold netTable; rw [hloop]; exact h1
    · rw [h2, hown]
    · rw [h3]; simpa using h4
    · intro p hp
      rw [h3] at hp
      exact (h5 p (by simpa using hp)).2
    · rw [h2]
      have hlt : (keptOf pre).length < kept.length := by
        rcases Nat.lt_or_ge (keptOf pre).length kept.length with h | h
        · exact h
        · rw [List.getElem?_eq_none h] at hidx; simp at hidx
      rw [List.getElem?_append_left hlt]; exact hidx
    · intro pre' net' post' e' hpre' hpost' hnet'
      have h' := (clock_index pre' net' post' hpre' hpost' hnet').1
      rw [← e', hloop] at h'
      simp only [Option.some.injEq, Prod.mk.injEq] at h'
      exact h'.2

/-- every declared signal gets exactly one `$var` line (one symbol), in declaration order -/
theorem every_signal_one_symbol (nets : List (List Member)) (decl : List Member)
    (hclk : nets.flatten.count Member.clk ≤ 1) (hnd : decl.Nodup) (hdecl : Member.clk ∈ decl) :
    ∃ t, netTable nets decl = some t ∧ t.vars.map (·.1) = decl ∧ (t.vars.map (·.1)).Nodup := by
  obtain ⟨t, _, h1, _, h3, _⟩ := table nets decl hclk hnd hdecl
  exact ⟨t, h1, h3, h3 ▸ hnd⟩

/-- the symbol of a declared signal is the symbol of a net that contains the signal -/
theorem symbol_of_own_net (nets : List (List Member)) (decl : List Member) (t : NetTab)
    (hclk : nets.flatten.count Member.clk ≤ 1) (hnd : decl.Nodup) (hdecl : Member.clk ∈ decl)
    (ht : netTable nets decl = some t) (x : Member) (j : Nat) (hp : (x, j) ∈ t.vars) :
    ∃ n, t.nets[j]? = some n ∧ x ∈ n := by
  obtain ⟨t', _, h1, _, _, h4, _⟩ := table nets decl hclk hnd hdecl
  rw [ht] at h1; cases h1
  exact h4 (x, j) hp

/-- the final nets are pairwise disjoint when the kept nets are (a whole signal is in one value net) -/
theorem table_nets_disjoint (nets : List (List Member)) (decl : List Member) (hnd : decl.Nodup)
    (hdis : (keptOf nets).flatten.Nodup) : (keptOf nets ++ ownNets nets decl).flatten.Nodup := by
  rw [List.flatten_append, ownNets, flatten_singletons, List.nodup_append]
  refine ⟨hdis, hnd.filter _, ?_⟩
  intro a ha b hb e
  subst e
  have := (List.mem_filter.mp hb).2
  simp only [decide_eq_true_eq] at this
  exact this ha

/-- two declared signals have the same symbol number exactly when one net contains both: signals of different nets
    get different symbols, signals sharing a net share its symbol -/
theorem same_symbol_iff_same_net (nets : List (List Member)) (decl : List Member) (t : NetTab)
    (hclk : nets.flatten.count Member.clk ≤ 1) (hnd : decl.Nodup) (hdecl : Member.clk ∈ decl)
    (hdis : (keptOf nets).flatten.Nodup) (ht : netTable nets decl = some t)
    (x y : Member) (j k : Nat) (hx : (x, j) ∈ t.vars) (hy : (y, k) ∈ t.vars) :
    j = k ↔ ∃ n ∈ t.nets, x ∈ n ∧ y ∈ n := by
  obtain ⟨t', _, h1, h2, _, h4, _⟩ := table nets decl hclk hnd hdecl
  rw [ht] at h1; cases h1
  obtain ⟨nx, hnx, hxn⟩ := h4 (x, j) hx
  obtain ⟨ny, hny, hyn⟩ := h4 (y, k) hy
  have hdj : t.nets.flatten.Nodup := h2 ▸ table_nets_disjoint nets decl hnd hdis
  constructor
  · intro e
    subst e
    rw [hnx] at hny; cases hny
    exact ⟨nx, List.mem_of_getElem? hnx, hxn, hyn⟩
  · rintro ⟨n, hn, hxn', hyn'⟩
    obtain ⟨i, hi⟩ := List.getElem?_of_mem hn
    have e1 := flatten_nodup_idx t.nets hdj j i nx n x hnx hi hxn hxn'
    have e2 := flatten_nodup_idx t.nets hdj k i ny n y hny hi hyn hyn'
    omega

/-- the same, for the identifier codes written into the file -/
theorem symbol_text_iff_same_net (nets : List (List Member)) (decl : List Member) (t : NetTab)
    (hclk : nets.flatten.count Member.clk ≤ 1) (hnd : decl.Nodup) (hdecl : Member.clk ∈ decl)
    (hdis : (keptOf nets).flatten.Nodup) (ht : netTable nets decl = some t)
    (x y : Member) (j k : Nat) (hx : (x, j) ∈ t.vars) (hy : (y, k) ∈ t.vars) :
    symbol j = symbol k ↔ ∃ n ∈ t.nets, x ∈ n ∧ y ∈ n := by
  rw [← same_symbol_iff_same_net nets decl t hclk hnd hdecl hdis ht x y j k hx hy]
  exact ⟨symbol_inj j k, fun e => e ▸ rfl⟩

/-- dropped nets contribute no symbol: the number of nets (= identifier codes handed out, = header value lines) is
    the number of kept nets plus the number of declared signals that are in no kept net, and every `$var` line uses
    one of these numbers -/
theorem dropped_nets_no_symbol (nets : List (List Member)) (decl : List Member) (t : NetTab)
    (hclk : nets.flatten.count Member.clk ≤ 1) (hnd : decl.Nodup) (hdecl : Member.clk ∈ decl)
    (ht : netTable nets decl = some t) :
    t.nets.length = (keptOf nets).length + (decl.filter (fun x => decide (x ∉ (keptOf nets).flatten))).length ∧
    ∀ p ∈ t.vars, p.2 < t.nets.length := by
  obtain ⟨t', _, h1, h2, _, h4, _⟩ := table nets decl hclk hnd hdecl
  rw [ht] at h1; cases h1
  refine ⟨by rw [h2]; simp [ownNets], ?_⟩
  intro p hp
  obtain ⟨n, hn, _⟩ := h4 p hp
  rcases Nat.lt_or_ge p.2 t.nets.length with h | h
  · exact h
  · rw [List.getElem?_eq_none h] at hn; simp at hn

/-! ## composition with `replay (dump tr) = tr` -/

/-- **end to end, per net.** For every enumeration order of the value nets the table yields a `Design` whose clock
    index is inside the net list and points at the net of `s.clk`; reading the dump of any trace over that design
    gives the trace back (all-zero defaults, as in pymtl3) -/
theorem table_replay_dump (nets : List (List Member)) (decl : List Member) (w : Member → Nat)
    (hclk : nets.flatten.count Member.clk ≤ 1) (hnd : decl.Nodup) (hdecl : Member.clk ∈ decl) :
    ∃ t d, netTable nets decl = some t ∧ t.design w = some d ∧ d.clk < d.widths.length ∧
      (∃ n, t.nets[d.clk]? = some n ∧ Member.clk ∈ n) ∧
      ∀ tr : List (List Nat), (∀ row ∈ tr, RowOk d row) →
        replay (dataDecls d) (dump d (List.replicate d.widths.length 0) tr) tr.length
          = tr.map (fun row => row.map some) := by
  obtain ⟨t, i, h1, _, _, _, h5, ⟨n, hn, hcn⟩, _⟩ := table nets decl hclk hnd hdecl
  have hi : i < t.nets.length := by
    rcases Nat.lt_or_ge i t.nets.length with h | h
    · exact h
    · rw [List.getElem?_eq_none h] at hn; simp at hn
  let d : Design := { widths := t.nets.map (fun n => w (n.headD .const)), clk := i, sigs := t.vars.map (·.2) }
  refine ⟨t, d, h1, by simp [NetTab.design, h5, d], by simpa [d] using hi, ⟨n, hn, hcn⟩, ?_⟩
  intro tr hr
  exact replay_dump_zero_init d tr (by simpa [d] using hi) hr

/-- **end to end, per signal.** Every declared signal that is not on the clock net reads back, in every cycle, the
    value sampled for the net the table put it on -/
theorem table_replay_signal (nets : List (List Member)) (decl : List Member) (w : Member → Nat)
    (hclk : nets.flatten.count Member.clk ≤ 1) (hnd : decl.Nodup) (hdecl : Member.clk ∈ decl) :
    ∃ t d, netTable nets decl = some t ∧ t.design w = some d ∧ d.sigs.length = decl.length ∧
      ∀ tr : List (List Nat), (∀ row ∈ tr, RowOk d row) →
        ∀ (a : Nat) (ha : a < d.sigs.length), d.sigs[a] ≠ d.clk → ∀ (c : Nat) (hc : c < tr.length),
          ∃ v, tr[c][dataPos d d.sigs[a]]? = some v ∧
            (replay (decls d) (dump d (List.replicate d.widths.length 0) tr) tr.length)[c]?.bind (·[a]?) = some (some v) := by
  obtain ⟨t, i, h1, _, h3, h4, h5, ⟨n, hn, _⟩, _⟩ := table nets decl hclk hnd hdecl
  have hi : i < t.nets.length := by
    rcases Nat.lt_or_ge i t.nets.length with h | h
    · exact h
    · rw [List.getElem?_eq_none h] at hn; simp at hn
  let d : Design := { widths := t.nets.map (fun n => w (n.headD .const)), clk := i, sigs := t.vars.map (·.2) }
  refine ⟨t, d, h1, by simp [NetTab.design, h5, d], ?_, ?_⟩
  · have := congrArg List.length h3
    simpa [d] using this
  · intro tr hr a ha hne c hc
    have ha' : a < t.vars.length := by simpa [d] using ha
    have hsa : d.sigs[a] = (t.vars[a]).2 := by simp [d]
    have hjN : d.sigs[a] < d.widths.length := by
      obtain ⟨m, hm, _⟩ := h4 t.vars[a] (List.getElem_mem _)
      rw [hsa]
      rcases Nat.lt_or_ge (t.vars[a]).2 t.nets.length with h | h
      · simpa [d] using h
      · rw [List.getElem?_eq_none h] at hm; simp at hm
    exact replay_signal d _ tr (by simpa [d] using hi) (by simp) (quirkSafe_replicate d 0) hr a ha hne hjN c hc

/-! ## non-vacuity -/

/-- a design in the shape of seed C16-13's demo: two bit-to-bit nets and a constant-tied slice are enumerated before
    the clock net, one slice-to-slice net after it -/
def exNets : List (List Member) :=
  [ [.slice 4, .slice 3], [.whole 1, .whole 2], [.const, .slice 4], [.slice 3, .slice 4],
    [.whole 6, .clk], [.slice 4, .slice 3], [.whole 7, .slice 1, .whole 8] ]
def exDecl : List Member := [.whole 1, .clk, .whole 4, .whole 7, .whole 2, .whole 3, .whole 6, .whole 8]

example : keptOf exNets = [[.whole 1, .whole 2], [.whole 6, .clk], [.whole 7, .whole 8]] := by decide
example : trimLoop exNets [] none = some (keptOf exNets, some 1) := by decide
/-- position 4 in the input, 3 dropped nets before it: index 1 -/
example : (keptOf (exNets.take 4)).length = 1 ∧ ((exNets.take 4).filter (fun n => n.all (fun x => !x.top))).length = 3 := by decide
example : (netTable exNets exDecl).map (·.vars)
    = some [(.whole 1, 0), (.clk, 1), (.whole 4, 3), (.whole 7, 2), (.whole 2, 0), (.whole 3, 4), (.whole 6, 1), (.whole 8, 2)] := by
  decide
example : (netTable exNets exDecl).map (·.nets)
    = some [[.whole 1, .whole 2], [.whole 6, .clk], [.whole 7, .whole 8], [.whole 4], [.whole 3]] := by decide
example : (netTable exNets exDecl).bind (·.clk) = some 1 := by decide
example : exNets.flatten.count Member.clk ≤ 1 ∧ exDecl.Nodup ∧ Member.clk ∈ exDecl ∧ (keptOf exNets).flatten.Nodup := by decide
/-- the same nets in another order give the same partition, other numbers -/
example : (netTable exNets.reverse exDecl).bind (·.clk) = some 1 ∧
    (netTable (exNets.rotateLeft 4) exDecl).bind (·.clk) = some 0 := by decide
/-- removing the dropped nets changes nothing (`dropped_net_irrelevant`) -/
example : netTable exNets exDecl = netTable [[.whole 1, .whole 2], [.whole 6, .clk], [.whole 7, .slice 1, .whole 8]] exDecl := by
  decide
/-- a flat design: `s.clk` is in no value net and becomes the clock net when it is declared (`no_clock_net`, `table`) -/
example : (netTable [[.slice 1, .const], [.whole 1, .whole 2]] [.whole 2, .clk, .whole 1]).map (fun t => (t.nets, t.clk, t.vars))
    = some ([[.whole 1, .whole 2], [.clk]], some 1, [(.whole 2, 0), (.clk, 1), (.whole 1, 0)]) := by decide
/-- two `s.clk` members trip the assertion of the loop (why `table` asks for at most one) -/
example : netTable [[.clk, .whole 1], [.clk]] [.clk, .whole 1] = none := by decide
/-- what the index would be if it were the position in the input list (seed C16-13): 4, past the last kept net -/
example : exNets[4]? = some [.whole 6, .clk] ∧ (keptOf exNets).length = 3 := by decide
/-- the composed statement on the example: the design of the table replays a trace (clock net in the middle) -/
example :
    ((netTable exNets exDecl).bind (·.design (fun _ => 2))).map
      (fun d => replay (dataDecls d) (dump d (List.replicate d.widths.length 0) [[1, 2, 3, 0], [1, 0, 3, 2]]) 2)
      = some [[some 1, some 2, some 3, some 0], [some 1, some 0, some 3, some 2]] := by decide

end PV.C16n
