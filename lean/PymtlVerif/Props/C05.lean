import PymtlVerif.Proofs.Slice
import PymtlVerif.Props.C04
/-!
# C05 — slices, concat, extension and clog2 address exactly the named bits

Property theorems about `Model/Bits.lean` (slicing part and `helpers.py`), for every width and value.
Bits are addressed through `Nat.testBit`, so "exactly the named bits, and no others" is literal.
-/
namespace PV.C05
open PV.Bits

/-! ## reading -/

/-- a valid slice returns bits lo..hi-1 as a value of width hi-lo -/
theorem get_slice (n x lo hi : Nat) (h1 : lo < hi) (h2 : hi ≤ n) :
    getSlice ⟨n, x⟩ (some lo) (some hi) none = .ok ⟨hi - lo, (x / 2 ^ lo) % 2 ^ (hi - lo)⟩ := by
  have hv : (0 : Int) ≤ (lo : Int) ∧ (lo : Int) < (hi : Int) ∧ (hi : Int) ≤ (n : Int) := by omega
  simp [getSlice, sliceBounds, hv, Nat.shiftRight_eq_div_pow]

/-- bit i of the slice is bit lo+i of the source, and the slice value fits its width -/
theorem get_slice_bits (x lo hi i : Nat) :
    ((x / 2 ^ lo) % 2 ^ (hi - lo)).testBit i = (decide (i < hi - lo) && x.testBit (i + lo)) ∧
    (x / 2 ^ lo) % 2 ^ (hi - lo) < 2 ^ (hi - lo) := by
  refine ⟨?_, Nat.mod_lt _ (Nat.two_pow_pos _)⟩
  rw [Nat.testBit_mod_two_pow, Nat.testBit_div_two_pow]

/-- omitted bounds mean 0 and n (only `None` does; an explicit 0 is a bound like any other) -/
theorem get_default_bounds (n x : Nat) (lo hi : Bound) :
    getSlice ⟨n, x⟩ none hi none = getSlice ⟨n, x⟩ (some 0) hi none ∧
    getSlice ⟨n, x⟩ lo none none = getSlice ⟨n, x⟩ lo (some n) none := by
  simp [getSlice, sliceBounds]

/-- every bound pair outside 0 ≤ lo < hi ≤ n is an IndexError — nothing else is selected -/
theorem get_invalid (n x : Nat) (lo hi : Int) (h : ¬ (0 ≤ lo ∧ lo < hi ∧ hi ≤ n)) :
    getSlice ⟨n, x⟩ (some lo) (some hi) none = .error .index := by
  simp [getSlice, sliceBounds, h]

/-- any stepped slice is an IndexError, for reads and writes -/
theorem step_rejected (b : B) (lo hi : Bound) (s : Int) (v : Opnd) :
    getSlice b lo hi (some s) = .error .index ∧ setSlice b lo hi (some s) v = .error .index := by
  simp [getSlice, setSlice, sliceBounds]

theorem get_bit (n x : Nat) (i : Int) :
    (0 ≤ i ∧ i < n → getBit ⟨n, x⟩ i = .ok ⟨1, (x / 2 ^ i.toNat) % 2⟩ ∧
        (((x / 2 ^ i.toNat) % 2 = 1) ↔ x.testBit i.toNat = true)) ∧
    (¬ (0 ≤ i ∧ i < n) → getBit ⟨n, x⟩ i = .error .index) := by
  constructor
  · intro ⟨h0, h1⟩
    have : ¬ (i ≥ (n : Int) ∨ i < 0) := by omega
    refine ⟨by simp [getBit, this, Nat.shiftRight_eq_div_pow], ?_⟩
    have e : x.testBit i.toNat = (x / 2 ^ i.toNat).testBit 0 := by
      rw [Nat.testBit_div_two_pow]; simp
    rw [e, Nat.testBit_zero]; simp
  · intro h
    have : (i ≥ (n : Int) ∨ i < 0) := by omega
    simp [getBit, this]

/-! ## writing -/

/-- writing a Bits of the slice's width into a valid slice changes exactly bits lo..hi-1 -/
theorem set_slice_bits (n x lo hi w : Nat) (h1 : lo < hi) (h2 : hi ≤ n) (hx : x < 2 ^ n) (hw : w < 2 ^ (hi - lo)) :
    ∃ r, setSlice ⟨n, x⟩ (some lo) (some hi) none (.bits ⟨hi - lo, w⟩) = .ok ⟨n, r⟩ ∧ r < 2 ^ n ∧
      (∀ i, r.testBit i = if lo ≤ i ∧ i < hi then w.testBit (i - lo) else x.testBit i) ∧
      getSlice ⟨n, r⟩ (some lo) (some hi) none = .ok ⟨hi - lo, w⟩ := by
  have hv : (0 : Int) ≤ (lo : Int) ∧ (lo : Int) < (hi : Int) ∧ (hi : Int) ≤ (n : Int) := by omega
  have hle : lo ≤ hi := Nat.le_of_lt h1
  refine ⟨pokeRaw x lo hi w, ?_, pokeRaw_lt x lo hi w n hle h2 hx hw, ?_, ?_⟩
  · simp [setSlice, sliceBounds, hv, Nat.mod_eq_of_lt hw]
  · intro i; exact testBit_pokeRaw x lo hi w i hle hw
  · rw [get_slice n _ lo hi h1 h2, get_pokeRaw x lo hi w hle hw]

/-- an int is accepted iff it fits the slice (-2^(w-1) .. 2^w - 1) and is stored modulo 2^w -/
theorem set_slice_int (n x lo hi : Nat) (k : Int) (h1 : lo < hi) (h2 : hi ≤ n) :
    ((-(2 ^ (hi - lo - 1) : Int) ≤ k ∧ k < 2 ^ (hi - lo)) →
        setSlice ⟨n, x⟩ (some lo) (some hi) none (.int k) = .ok ⟨n, pokeRaw x lo hi (maskInt (hi - lo) k)⟩) ∧
    ((k < -(2 ^ (hi - lo - 1) : Int) ∨ k ≥ 2 ^ (hi - lo)) →
        setSlice ⟨n, x⟩ (some lo) (some hi) none (.int k) = .error .range) := by
  have hv : (0 : Int) ≤ (lo : Int) ∧ (lo : Int) < (hi : Int) ∧ (hi : Int) ≤ (n : Int) := by omega
  have hp := Nat.two_pow_pos (hi - lo)
  have hu : ((upper (hi - lo) : Nat) : Int) = 2 ^ (hi - lo) - 1 := by
    unfold upper; have : ((2 ^ (hi - lo) : Nat) : Int) = (2 : Int) ^ (hi - lo) := by simp
    omega
  constructor
  · intro ⟨ha, hb⟩
    have : ¬ (k < lower (hi - lo) ∨ k > (upper (hi - lo) : Int)) := by unfold lower; omega
    simp [setSlice, sliceBounds, hv, this]
  · intro h
    have : (k < lower (hi - lo) ∨ k > (upper (hi - lo) : Int)) := by unfold lower; omega
    simp [setSlice, sliceBounds, hv, this]

/-- a Bits value of any other width never goes into the slice -/
theorem set_too_wide (n x lo hi m w : Nat) (h1 : lo < hi) (h2 : hi ≤ n) (hm : m ≠ hi - lo) :
    setSlice ⟨n, x⟩ (some lo) (some hi) none (.bits ⟨m, w⟩) = .error .width := by
  have hv : (0 : Int) ≤ (lo : Int) ∧ (lo : Int) < (hi : Int) ∧ (hi : Int) ≤ (n : Int) := by omega
  simp [setSlice, sliceBounds, hv, hm]

theorem set_invalid (n x : Nat) (lo hi : Int) (v : Opnd) (h : ¬ (0 ≤ lo ∧ lo < hi ∧ hi ≤ n)) :
    setSlice ⟨n, x⟩ (some lo) (some hi) none v = .error .index := by
  simp [setSlice, sliceBounds, h]

/-- single-bit write: changes bit i only; Bits wider than 1 and ints outside {-1,0,1} are errors -/
theorem set_bit (n x : Nat) (i : Nat) (hi : i < n) (hx : x < 2 ^ n) (c : Nat) (hc : c < 2) :
    ∃ r, setBit ⟨n, x⟩ i (.bits ⟨1, c⟩) = .ok ⟨n, r⟩ ∧ r < 2 ^ n ∧
      (∀ j, r.testBit j = if j = i then c.testBit 0 else x.testBit j) := by
  have hv : ¬ ((i : Int) ≥ (n : Int) ∨ (i : Int) < 0) := by omega
  have hw : c < 2 ^ (i + 1 - i) := by simpa using hc
  refine ⟨pokeRaw x i (i + 1) c, ?_, pokeRaw_lt x i (i + 1) c n (by omega) (by omega) hx hw, ?_⟩
  · simp [setBit, hi, Nat.mod_eq_of_lt hc]
  · intro j
    rw [testBit_pokeRaw x i (i + 1) c j (by omega) hw]
    by_cases hj : j = i
    · subst hj; simp
    · have : ¬ (i ≤ j ∧ j < i + 1) := by omega
      simp [hj, this]

theorem set_bit_errors (n x : Nat) (i : Int) (m c : Nat) (k : Int) :
    (¬ (0 ≤ i ∧ i < n) → ∀ v, setBit ⟨n, x⟩ i v = .error .index) ∧
    ((0 ≤ i ∧ i < n) → m > 1 → setBit ⟨n, x⟩ i (.bits ⟨m, c⟩) = .error .width) ∧
    ((0 ≤ i ∧ i < n) → (k < -1 ∨ k > 1) → setBit ⟨n, x⟩ i (.int k) = .error .range) := by
  refine ⟨?_, ?_, ?_⟩
  · intro h v
    have : (i ≥ (n : Int) ∨ i < 0) := by omega
    simp [setBit, this]
  · intro h hm
    have : ¬ (i ≥ (n : Int) ∨ i < 0) := by omega
    simp [setBit, this, hm]
  · intro h hk
    have : ¬ (i ≥ (n : Int) ∨ i < 0) := by omega
    have : k.natAbs > 1 := by omega
    simp [setBit, *]

/-! ## helpers -/

/-- concat: total width is the sum, first argument most significant; ≥ 1024 bits is an error -/
theorem concat_spec (xs : List B) (h : ∀ x ∈ xs, x.v < 2 ^ x.n) :
    (1 ≤ (catSpec xs).1 ∧ (catSpec xs).1 < 1024 → concat xs = .ok ⟨(catSpec xs).1, (catSpec xs).2⟩) ∧
    ((catSpec xs).1 = 0 ∨ (catSpec xs).1 ≥ 1024 → concat xs = .error .range) ∧
    (catSpec xs).2 < 2 ^ (catSpec xs).1 := by
  have hlt := catSpec_lt xs h
  refine ⟨?_, ?_, hlt⟩
  · intro ⟨h1, h2⟩
    have hn : ¬ (((catSpec xs).1 : Int) < 1 ∨ ((catSpec xs).1 : Int) ≥ 1024) := by omega
    have hu2 := (le_upper_iff _ _).mpr hlt
    have hu1 : lower (catSpec xs).1 ≤ (((catSpec xs).2 : Nat) : Int) := by
      unfold lower; have : (0 : Int) < 2 ^ ((catSpec xs).1 - 1) := Int.pow_pos (by decide)
      omega
    unfold concat
    rw [concatRaw_eq]
    simp [ctor, hn, hu1, hu2, maskInt_of_lt _ _ hlt]
  · intro h0
    have hn : (((catSpec xs).1 : Int) < 1 ∨ ((catSpec xs).1 : Int) ≥ 1024) := by omega
    unfold concat
    rw [concatRaw_eq]
    simp [ctor, hn]

/-- layout of a concatenation: the tail occupies the low bits, the head sits above it -/
theorem concat_layout (x : B) (xs : List B) (h : ∀ y ∈ xs, y.v < 2 ^ y.n) :
    (catSpec (x :: xs)).1 = x.n + (catSpec xs).1 ∧
    (catSpec (x :: xs)).2 % 2 ^ (catSpec xs).1 = (catSpec xs).2 ∧
    (catSpec (x :: xs)).2 / 2 ^ (catSpec xs).1 = x.v := by
  have hlt := catSpec_lt xs h
  have hp := Nat.two_pow_pos (catSpec xs).1
  refine ⟨rfl, ?_, ?_⟩
  · simp only [catSpec]
    rw [Nat.add_comm, Nat.add_mul_mod_self_right, Nat.mod_eq_of_lt hlt]
  · simp only [catSpec]
    rw [Nat.add_comm, Nat.add_mul_div_right _ _ hp, Nat.div_eq_of_lt hlt]; omega

theorem zext_spec (n v : Nat) (w : Nat) (hv : v < 2 ^ n) (h1 : 1 ≤ n) :
    (n ≤ w ∧ w < 1024 → zext ⟨n, v⟩ w = .ok ⟨w, v⟩) ∧ (w < n → zext ⟨n, v⟩ w = .error .assert) := by
  constructor
  · intro ⟨h, h2⟩
    have hn : ¬ ((w : Int) < 1 ∨ (w : Int) ≥ 1024) := by omega
    have hlt : v < 2 ^ w := Nat.lt_of_lt_of_le hv (Nat.pow_le_pow_right (by decide) h)
    have hu2 := (le_upper_iff _ _).mpr hlt
    have hu1 : lower w ≤ (v : Int) := by
      unfold lower; have : (0 : Int) < 2 ^ (w - 1) := Int.pow_pos (by decide)
      omega
    have hge : (w : Int) ≥ (n : Int) := by omega
    simp [zext, hge, ctor, hn, hu1, hu2, maskInt_of_lt _ _ hlt]
  · intro h
    have : ¬ ((w : Int) ≥ (n : Int)) := by omega
    simp [zext, this]

theorem trunc_spec (n v : Nat) (w : Nat) (h1 : 1 ≤ w) (h2 : n < 1024) :
    (w ≤ n → trunc ⟨n, v⟩ w = .ok ⟨w, v % 2 ^ w⟩) ∧ (n < w → trunc ⟨n, v⟩ w = .error .assert) := by
  constructor
  · intro h
    have hn : ¬ ((w : Int) < 1 ∨ (w : Int) ≥ 1024) := by omega
    have hle : (w : Int) ≤ (n : Int) := by omega
    simp [trunc, hle, ctor, hn, maskInt_natCast]
  · intro h
    have : ¬ ((w : Int) ≤ (n : Int)) := by omega
    simp [trunc, this]

/-- sext replicates the sign bit: the new value is v, or v + (2^w - 2^n) when bit n-1 is set -/
theorem sext_spec (n v w : Nat) (h1 : 1 ≤ n) (hv : v < 2 ^ n) (hw : n ≤ w) (h2 : w < 1024) :
    sext ⟨n, v⟩ w = .ok ⟨w, if v < 2 ^ (n - 1) then v else v + 2 ^ w - 2 ^ n⟩ := by
  have hn : ¬ ((w : Int) < 1 ∨ (w : Int) ≥ 1024) := by omega
  have hge : (w : Int) ≥ (n : Int) := by omega
  have hpw : 2 ^ n ≤ 2 ^ w := Nat.pow_le_pow_right (by decide) hw
  have hpow : 2 ^ n = 2 ^ (n - 1) * 2 := by
    have : n = (n - 1) + 1 := by omega
    rw [this, Nat.pow_succ]; simp
  have hpoww : 2 ^ w = 2 ^ (w - 1) * 2 := by
    have : w = (w - 1) + 1 := by omega
    rw [this, Nat.pow_succ]; simp
  have hp1 : 2 ^ (n - 1) ≤ 2 ^ (w - 1) := Nat.pow_le_pow_right (by decide) (by omega)
  have hpos := Nat.two_pow_pos (n - 1)
  have hs := (PV.C04.int_signed n v h1 hv).1
  have c1 : ((2 ^ n : Nat) : Int) = (2 : Int) ^ n := by simp
  have c2 : ((2 ^ w : Nat) : Int) = (2 : Int) ^ w := by simp
  have c3 : ((2 ^ (w - 1) : Nat) : Int) = (2 : Int) ^ (w - 1) := by simp
  have c4 : ((2 ^ (n - 1) : Nat) : Int) = (2 : Int) ^ (n - 1) := by simp
  have hu : ((upper w : Nat) : Int) = 2 ^ w - 1 := by unfold upper; omega
  by_cases hlt : v < 2 ^ (n - 1)
  · simp only [hlt, ↓reduceIte] at hs ⊢
    have hvw : v < 2 ^ w := by omega
    have hr1 : lower w ≤ (v : Int) := by unfold lower; omega
    have hr2 : v ≤ upper w := (le_upper_iff _ _).mpr hvw
    simp [sext, hge, ctor, hn, hs, hr1, hr2, maskInt_of_lt _ _ hvw]
  · simp only [hlt, ↓reduceIte] at hs ⊢
    have hr : ¬ (((v : Int) - 2 ^ n) < lower w ∨ ((v : Int) - 2 ^ n) > (upper w : Int)) := by
      unfold lower; omega
    have hm : (maskInt w ((v : Int) - 2 ^ n) : Int) = 2 ^ w + ((v : Int) - 2 ^ n) :=
      maskInt_neg w _ (by omega) (by omega)
    have hm' : maskInt w ((v : Int) - 2 ^ n) = v + 2 ^ w - 2 ^ n := by omega
    simp [sext, hge, ctor, hn, hs, hr, hm']

theorem sext_bits (n v w i : Nat) (h1 : 1 ≤ n) (hv : v < 2 ^ n) (hw : n ≤ w) :
    (if v < 2 ^ (n - 1) then v else v + 2 ^ w - 2 ^ n).testBit i =
      if i < n then v.testBit i else (decide (i < w) && v.testBit (n - 1)) := by
  have hpow : 2 ^ n = 2 ^ (n - 1) * 2 := by
    have : n = (n - 1) + 1 := by omega
    rw [this, Nat.pow_succ]; simp
  have hsign : v.testBit (n - 1) = decide (2 ^ (n - 1) ≤ v) := by
    rw [Nat.testBit_eq_decide_div_mod_eq]
    by_cases hge : 2 ^ (n - 1) ≤ v
    · have : v / 2 ^ (n - 1) = 1 := by
        apply Nat.div_eq_of_lt_le <;> omega
      simp [this, hge]
    · have : v / 2 ^ (n - 1) = 0 := Nat.div_eq_of_lt (by omega)
      simp [this, hge]
  by_cases hlt : v < 2 ^ (n - 1)
  · have hs : v.testBit (n - 1) = false := by rw [hsign]; simp; omega
    simp only [hlt, ↓reduceIte, hs, Bool.and_false]
    by_cases hi : i < n
    · simp [hi]
    · simp only [hi, ↓reduceIte]
      exact Nat.testBit_lt_two_pow (Nat.lt_of_lt_of_le hv (Nat.pow_le_pow_right (by decide) (by omega)))
  · have hs : v.testBit (n - 1) = true := by rw [hsign]; simp; omega
    simp only [hlt, ↓reduceIte, hs, Bool.and_true]
    -- v + 2^w - 2^n = v % 2^n + (2^(w-n) - 1) * 2^n + 0 * 2^w
    have hp := pow_split n w hw
    have hpos := Nat.two_pow_pos (w - n)
    have e : v + 2 ^ w - 2 ^ n = v + (2 ^ (w - n) - 1) * 2 ^ n + 0 * 2 ^ w := by
      rw [hp, Nat.sub_mul]; simp
      have : 2 ^ n ≤ 2 ^ (w - n) * 2 ^ n := Nat.le_mul_of_pos_left _ hpos
      omega
    rw [e, testBit_assemble v (2 ^ (w - n) - 1) 0 n w i hw hv (by omega)]
    by_cases hi : i < n
    · simp [hi]
    · simp only [hi, ↓reduceIte]
      by_cases hiw : i < w
      · have : i - n < w - n := by omega
        simp [hiw, Nat.testBit_two_pow_sub_one, this]
      · simp [hiw]

theorem reduce_spec (n v : Nat) (hv : v < 2 ^ n) :
    (reduceAnd ⟨n, v⟩ = ⟨1, if (∀ i, i < n → v.testBit i = true) then 1 else 0⟩) ∧
    (reduceOr ⟨n, v⟩ = ⟨1, if (∃ i, i < n ∧ v.testBit i = true) then 1 else 0⟩) ∧
    (reduceXor ⟨n, v⟩ = ⟨1, (((List.range n).filter (fun i => v.testBit i)).length) % 2⟩) := by
  refine ⟨?_, ?_, ?_⟩
  · have key : (v = 2 ^ n - 1) ↔ (∀ i, i < n → v.testBit i = true) := by
      constructor
      · intro h i hi; rw [h, Nat.testBit_two_pow_sub_one]; simp [hi]
      · intro h
        apply Nat.eq_of_testBit_eq
        intro i
        rw [Nat.testBit_two_pow_sub_one]
        by_cases hi : i < n
        · simp [hi, h i hi]
        · simp only [hi, decide_false]
          exact Nat.testBit_lt_two_pow (Nat.lt_of_lt_of_le hv (Nat.pow_le_pow_right (by decide) (by omega)))
    by_cases h : v = 2 ^ n - 1
    · have := key.mp h
      simp only [reduceAnd, b1]; simp [h]
    · have hh : ¬ (∀ i, i < n → v.testBit i = true) := fun hh => h (key.mpr hh)
      simp only [reduceAnd, b1]; simp [h, hh]
  · have key : (v ≠ 0) ↔ (∃ i, i < n ∧ v.testBit i = true) := by
      constructor
      · intro h
        obtain ⟨i, hi⟩ := Nat.exists_testBit_of_ne_zero h  
        refine ⟨i, ?_, hi⟩
        by_cases hlt : i < n
        · exact hlt
        · have := Nat.testBit_lt_two_pow (Nat.lt_of_lt_of_le hv (Nat.pow_le_pow_right (by decide) (Nat.le_of_not_lt hlt)))
          simp [this] at hi
      · intro ⟨i, _, hi⟩ h0; simp [h0] at hi
    by_cases h : v = 0
    · have hh : ¬ (∃ i, i < n ∧ v.testBit i = true) := fun hh => (key.mpr hh) h
      simp only [reduceOr, b1]; simp [h]
    · have := key.mp h
      simp only [reduceOr, b1]; simp [h, this]
  · simp only [reduceXor, b1]
    rw [popcount_eq n v hv]
    rcases Nat.mod_two_eq_zero_or_one ((List.range n).filter (fun i => v.testBit i)).length with h | h <;> simp [h]

/-- clog2 N is the least k with 2^k ≥ N, for every N ≥ 1 -/
theorem clog2_spec (N : Nat) (h : 1 ≤ N) :
    ∃ k, clog2 (N : Int) = some k ∧ N ≤ 2 ^ k ∧ ∀ j, N ≤ 2 ^ j → k ≤ j := by
  have hpos : (N : Int) > 0 := by omega
  have hN0 : ¬ N = 0 := by omega
  refine ⟨bitLength N (N - 1), by simp [clog2, hN0], ?_, ?_⟩
  · have := (bitLength_spec N (N - 1) (by omega)).1; omega
  · intro j hj
    by_cases h0 : N - 1 = 0
    · have : bitLength N (N - 1) = 0 := by
        rw [h0]; cases N <;> simp [bitLength]
      omega
    · have h2 := (bitLength_spec N (N - 1) (by omega)).2 h0
      -- 2^(k-1) ≤ N-1 < 2^j  ⇒ k-1 < j
      have hlt : 2 ^ (bitLength N (N - 1) - 1) < 2 ^ j := by omega
      have := (Nat.pow_lt_pow_iff_right (a := 2) (by decide)).mp hlt
      omega

theorem clog2_nonpositive (N : Int) (h : N ≤ 0) : clog2 N = none := by
  have : ¬ (N > 0) := by omega
  simp [clog2, this]

/-! ## non-vacuity -/
example : getSlice ⟨8, 0xab⟩ (some 2) (some 0) none = .error .index := by decide
example : getSlice ⟨8, 0xab⟩ (some 0) (some 0) none = .error .index := by decide
example : getSlice ⟨8, 0xab⟩ (some 4) (some 8) none = .ok ⟨4, 0xa⟩ := by decide
example : setSlice ⟨8, 0xab⟩ (some 2) (some 6) none (.int (-3)) = .ok ⟨8, 183⟩ := by decide
example : clog2 (2 ^ 29) = some 29 := by decide
example : sext ⟨4, 0xa⟩ 8 = .ok ⟨8, 0xfa⟩ := by decide

end PV.C05
