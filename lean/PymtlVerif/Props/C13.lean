import PymtlVerif.Proofs.Names
import PymtlVerif.Proofs.NamesMangle
/-!
# C13 — translation is deterministic and module names never alias different hardware

Property theorems about `Model/Names.lean`.

What is proved here
* `wfModules_sound` / `wfModules_complete`: the Boolean checker that the harness runs on the module table scanned
  from emitted text decides exactly `DefinedOnce ∧ Closed ∧ LegalUniqueIds`.
* the component table of `translate_component` as the code is NOW: `table_first_wins`, `table_defined_once`,
  `table_closed`, `table_from_instances`; `no_alias_iff_names_injective`: every instance gets its own body **iff**
  names are injective on bodies; `alias_witness` (finding F7: two classes with the same `__name__`),
  `param_image_alias_witness` (same class, `1` vs `"1"`), `illegal_name_witness` (`-1` as a parameter).
* the proposed repair `translateChecked`: `checked_no_alias`, `checked_ok_iff_injective`, `checked_error_sound`.
* names: `fullName_inj`, `uniqueName_inj` (same class, same parameter names, separator-free values: different
  values never collide — through the hashed path as well, assuming the hash has no collision and is hexadecimal),
  `uniqueName_idShape` (when the emitted name is a legal identifier).
* determinism of the model's orders: `post_perm_invariant`, `portOrder_perm_invariant`, `blockOrder_perm_invariant`
  (the emitted order does not depend on the order in which children / ports / blocks are enumerated).

* identifiers made by `__`-joining user names (flattened wires, instance names: `flatId`) and struct type names
  (`Struct.get_full_name` / `get_name`): `flatId_inj`, `flatIds_nodup`, `flatCollisions_eq_nil_iff` (under `okName`:
  a user name is not empty, does not start with `_` or a digit, contains no `__`), `structFullName_inj`,
  `structName_inj` (struct types without nested structs), and the witnesses without these conditions:
  `flatId_collision_witnesses`, `structName_collision_witnesses`, `struct_collision_changes_layout`.

What is NOT a theorem: independence of the text from `PYTHONHASHSEED` and from earlier translations in the same
process is a property of CPython and of the whole translator; it is covered by the correspondence check only
(byte equality across fresh processes).
-/
namespace PV.C13
open PV.Names

/-! ## the module-table checker -/

/-- `[A-Za-z_][A-Za-z0-9_$]*` and not a reserved word -/
def LegalId (s : String) : Prop :=
  (∃ c cs, s.toList = c :: cs ∧ isIdStart c = true ∧ ∀ x ∈ cs, isIdChar x = true) ∧ s ∉ verilogReserved

/-- every module name and every typedef name is defined once -/
def DefinedOnce (t : ModTable) : Prop := t.names.Nodup ∧ t.typedefs.Nodup

/-- every instantiated module is defined in the table -/
def Closed (t : ModTable) : Prop := ∀ m ∈ t.modules, ∀ i ∈ m.insts, ∃ d ∈ t.modules, d.name = i.1

/-- identifiers are legal and unique in their scope (instance names are among the module's identifiers) -/
def LegalUniqueIds (t : ModTable) : Prop :=
  (∀ x ∈ t.typedefs, LegalId x) ∧
  ∀ m ∈ t.modules, LegalId m.name ∧ (∀ x ∈ m.ids, LegalId x) ∧ m.ids.Nodup ∧ ∀ i ∈ m.insts, i.2 ∈ m.ids

theorem isIdStart_iff (c : Char) :
    isIdStart c = true ↔ ('a' ≤ c ∧ c ≤ 'z') ∨ ('A' ≤ c ∧ c ≤ 'Z') ∨ c = '_' := by
  simp only [isIdStart, Char.isAlpha, Char.isUpper, Char.isLower, Bool.or_eq_true, Bool.and_eq_true,
    decide_eq_true_eq, beq_iff_eq, ge_iff_le]
  constructor
  · rintro ((h | h) | h)
    · exact Or.inr (Or.inl h)
    · exact Or.inl h
    · exact Or.inr (Or.inr h)
  · rintro (h | h | h)
    · exact Or.inl (Or.inr h)
    · exact Or.inl (Or.inl h)
    · exact Or.inr h

theorem legalId_iff (s : String) : legalId s = true ↔ LegalId s := by
  unfold legalId LegalId idShape
  cases hs : s.toList with
  | nil => simp
  | cons c cs =>
    simp only [Bool.and_eq_true, List.all_eq_true, Bool.not_eq_true', List.cons.injEq]
    constructor
    · rintro ⟨⟨h1, h2⟩, h3⟩
      refine ⟨⟨c, cs, ⟨rfl, rfl⟩, h1, h2⟩, ?_⟩
      intro hm
      rw [List.contains_iff_mem.mpr hm] at h3
      exact Bool.noConfusion h3
    · rintro ⟨⟨c', cs', ⟨rfl, rfl⟩, h1, h2⟩, h3⟩
      refine ⟨⟨h1, h2⟩, ?_⟩
      cases hc : verilogReserved.contains s with
      | false => rfl
      | true => exact absurd (List.contains_iff_mem.mp hc) h3

theorem wfModules_iff (t : ModTable) :
    wfModules t = true ↔ DefinedOnce t ∧ Closed t ∧ LegalUniqueIds t := by
  unfold wfModules DefinedOnce Closed LegalUniqueIds
  simp only [Bool.and_eq_true, nodupB_iff, List.all_eq_true, legalId_iff, wfModule, List.contains_iff_mem]
  constructor
  · rintro ⟨⟨⟨h1, h2⟩, h3⟩, h4⟩
    refine ⟨⟨h1, h2⟩, ?_, h3, ?_⟩
    · intro m hm i hi
      have := ((h4 m hm).2 i hi).1
      simpa [ModTable.names] using this
    · intro m hm
      obtain ⟨⟨⟨a, b⟩, c⟩, d⟩ := h4 m hm
      exact ⟨a, b, c, fun i hi => (d i hi).2⟩
  · rintro ⟨⟨h1, h2⟩, hc, h3, h4⟩
    refine ⟨⟨⟨h1, h2⟩, h3⟩, ?_⟩
    intro m hm
    obtain ⟨a, b, c, d⟩ := h4 m hm
    refine ⟨⟨⟨a, b⟩, c⟩, ?_⟩
    intro i hi
    refine ⟨?_, d i hi⟩
    have := hc m hm i hi
    simpa [ModTable.names] using this

/-- The checker accepts only tables in which every module (and typedef) is defined once, every instantiated
module is defined, and identifiers are legal, not reserved, and unique per module scope. -/
theorem wfModules_sound (t : ModTable) (h : wfModules t = true) :
    DefinedOnce t ∧ Closed t ∧ LegalUniqueIds t := (wfModules_iff t).mp h

/-- … and it accepts all of them (so a rejected table really violates one of the three clauses). -/
theorem wfModules_complete (t : ModTable) (h : DefinedOnce t ∧ Closed t ∧ LegalUniqueIds t) :
    wfModules t = true := (wfModules_iff t).mpr h

/-! ## the component table of `translate_component`, as the code is now -/

section table
variable {β : Type}

/-- `components[name]` is the body of the FIRST instance of the post-order walk that has this name. -/
theorem table_first_wins (is : List (String × β)) (n : String) :
    (translateAll is).lookup n = is.lookup n := lookup_translateAll is n

/-- the emitted table defines every module name once … -/
theorem table_defined_once (is : List (String × β)) : ((translateAll is).map (·.1)).Nodup :=
  keys_nodup_translateAll is

/-- … defines the name of every instance (so every instantiated module is defined) … -/
theorem table_closed (is : List (String × β)) (e : String × β) (he : e ∈ is) :
    ∃ b, (translateAll is).lookup e.1 = some b ∧ (e.1, b) ∈ is := by
  obtain ⟨b', h1, h2⟩ := lookup_of_mem is e.1 e.2 he
  exact ⟨b', by rw [table_first_wins]; exact h1, h2⟩

/-- … and contains nothing but (name, body) pairs of instances. -/
theorem table_from_instances (is : List (String × β)) (e : String × β) (h : e ∈ translateAll is) : e ∈ is :=
  mem_translateAll is e h

/-- names injective on bodies ⇒ no instance is given another instance's body -/
theorem no_alias_if_names_injective (is : List (String × β))
    (hinj : ∀ a ∈ is, ∀ b ∈ is, a.1 = b.1 → a.2 = b.2) :
    ∀ e ∈ is, (translateAll is).lookup e.1 = some e.2 := by
  intro e he
  obtain ⟨b, h1, h2⟩ := table_closed is e he
  have hb : b = e.2 := hinj (e.1, b) h2 e he rfl
  rw [h1, hb]

/-- two instances with one name and different bodies ⇒ one of them silently gets the other body -/
theorem alias_if_not_injective (is : List (String × β)) (a b : String × β) (ha : a ∈ is) (hb : b ∈ is)
    (hn : a.1 = b.1) (hne : a.2 ≠ b.2) :
    ∃ e ∈ is, ∃ w, (translateAll is).lookup e.1 = some w ∧ w ≠ e.2 := by
  obtain ⟨w, h1, _⟩ := table_closed is a ha
  by_cases hw : w = a.2
  · refine ⟨b, hb, w, by rw [← hn]; exact h1, ?_⟩
    rw [hw]; exact hne
  · exact ⟨a, ha, w, h1, hw⟩

/-- The walk as it is aliases exactly when names are not injective on bodies. -/
theorem no_alias_iff_names_injective (is : List (String × β)) :
    (∀ e ∈ is, (translateAll is).lookup e.1 = some e.2) ↔ (∀ a ∈ is, ∀ b ∈ is, a.1 = b.1 → a.2 = b.2) := by
  constructor
  · intro h a ha b hb hn
    have h1 := h a ha
    have h2 := h b hb
    rw [hn, h2] at h1
    injection h1 with h1
    exact h1.symm
  · exact no_alias_if_names_injective is

/-- the tree form: the table of a hierarchy is the table of its post-order walk (children by `repr`) -/
theorem tree_first_wins (t : Tree β) (n : String) : (translateTree t).lookup n = t.post.lookup n :=
  table_first_wins t.post n

end table

/-! ### Finding F7 and its relatives, as theorems about the code as it is -/

/-- short names without special characters are used as they are -/
theorem uniqueName_plain (H : String → String) (cls : String) (ps : List (String × String))
    (h : ((fullName cls ps).length < 64 && !hasSpecial (fullName cls ps)) = true) :
    uniqueName H cls ps = fullName cls ps := by
  unfold uniqueName uniqueNameWith
  simp only
  rw [if_pos h]

theorem uniqueName_noparam_inner (H : String → String) : uniqueName H "Inner" [] = "Inner_noparam" := by
  rw [uniqueName_plain H "Inner" [] (by decide)]
  decide

/-- **F7.** Two classes that share `__name__` (`Inner`, no parameters) and differ in behaviour (bodies 1 and 2):
the module name depends on the class *name* and parameters only, so both instances are `Inner_noparam`; the
table holds ONE definition, and instance `b` silently gets the body of instance `a`. -/
theorem alias_witness (H : String → String) :
    ∃ (is : List (String × Nat)) (a b : String × Nat), a ∈ is ∧ b ∈ is ∧ a.1 = b.1 ∧ a.2 ≠ b.2 ∧
      (translateAll is).map (·.1) = ["Inner_noparam", "Top_noparam"] ∧
      (translateAll is).lookup b.1 = some a.2 := by
  refine ⟨[(uniqueName H "Inner" [], 1), (uniqueName H "Inner" [], 2), ("Top_noparam", 0)],
    (uniqueName H "Inner" [], 1), (uniqueName H "Inner" [], 2), by simp, by simp, rfl, by simp, ?_, ?_⟩
  · rw [uniqueName_noparam_inner]; decide
  · rw [uniqueName_noparam_inner]; decide

/-- Different parameter values with the same `str()` image: the int `1` and the string `"1"`. -/
theorem param_image_collision (H : String → String) :
    PVal.int 1 ≠ PVal.str "1" ∧ PVal.image H (.int 1) = PVal.image H (.str "1") := by
  constructor
  · intro h
    cases h
  · simp only [PVal.image]
    decide

/-- Same class, parameter `1` vs `"1"`: one module name, hence (by `alias_if_not_injective`) aliasing whenever the
two bodies differ. -/
theorem param_image_alias_witness (H : String → String) :
    uniqueName H "Inner" (images H [("p", .int 1)]) = uniqueName H "Inner" (images H [("p", .str "1")]) := by
  have : images H [("p", .int 1)] = images H [("p", .str "1")] := by
    simp only [images, List.map_cons, List.map_nil, (param_image_collision H).2]
  rw [this]

/-- A negative integer parameter yields a module name that is not an identifier (`Inner__p_-1`). -/
theorem illegal_name_witness (H : String → String) :
    uniqueName H "Inner" (images H [("p", .int (-1))]) = "Inner__p_-1" ∧ idShape "Inner__p_-1" = false := by
  have hi : images H [("p", .int (-1))] = [("p", "-1")] := by
    simp only [images, List.map_cons, List.map_nil, PVal.image]
    decide
  constructor
  · rw [hi, uniqueName_plain H "Inner" [("p", "-1")] (by decide)]
    decide
  · decide

/-! ## the repaired walk (`translateChecked`) -/

section repaired
variable {β : Type} [DecidableEq β]

/-- If the repaired walk succeeds, it built the same table as the present code and NO instance is aliased. -/
theorem checked_no_alias (is : List (String × β)) (t : Table β) (h : translateChecked is = .ok t) :
    t = translateAll is ∧ ∀ e ∈ is, t.lookup e.1 = some e.2 := by
  obtain ⟨h1, h2⟩ := checkedFrom_ok [] t is h
  exact ⟨h1, h2⟩

/-- If it fails, two instances really share the reported name and differ in body. -/
theorem checked_error_sound (is : List (String × β)) (n : String) (h : translateChecked is = .error n) :
    ∃ b b', (n, b) ∈ is ∧ (n, b') ∈ is ∧ b ≠ b' := by
  obtain ⟨b, b', h1, h2, h3⟩ := checkedFrom_error [] is n h
  exact ⟨b, b', by simpa using h1, by simpa using h2, h3⟩

/-- The repair is conservative: it succeeds (with the unchanged table) exactly on the designs whose names are
injective on bodies, i.e. exactly where the present code is already right. -/
theorem checked_ok_iff_injective (is : List (String × β)) :
    translateChecked is = .ok (translateAll is) ↔ (∀ a ∈ is, ∀ b ∈ is, a.1 = b.1 → a.2 = b.2) := by
  constructor
  · intro h
    exact (no_alias_iff_names_injective is).mp (checked_no_alias is _ h).2
  · intro hinj
    cases h : translateChecked is with
    | ok t => rw [(checked_no_alias is t h).1]
    | error n =>
      obtain ⟨b, b', h1, h2, h3⟩ := checked_error_sound is n h
      exact absurd (hinj (n, b) h1 (n, b') h2 rfl) h3

end repaired

/-! ## names -/

/-- **Same class, different parameter values never collide** (full name): for one class — hence the same ordered
parameter names — and values whose images contain no `__` and do not end in `_`. -/
theorem fullName_inj (cls : String) (ps ps' : List (String × String))
    (hk : ps.map (·.1) = ps'.map (·.1))
    (hv : ∀ kv ∈ ps, NoSep kv.2) (hv' : ∀ kv ∈ ps', NoSep kv.2)
    (h : fullName cls ps = fullName cls ps') : ps = ps' := by
  rw [fullName_eq, fullName_eq] at h
  have h2 := congrArg String.toList h
  simp only [String.toList_append, List.append_cancel_left_eq] at h2
  exact nameTail_inj ps ps' hk hv hv' (String.toList_inj.mp h2)

/-- The same through the length / "is the full name usable" test and the hashed form, whatever that test is, for
a hash without collisions whose digests contain no `_` (hexadecimal). -/
theorem uniqueNameWith_inj (ok : String → Bool) (H : String → String) (hH : ∀ s s', H s = H s' → s = s')
    (hhex : ∀ s, '_' ∉ (H s).toList)
    (cls : String) (ps ps' : List (String × String))
    (hk : ps.map (·.1) = ps'.map (·.1))
    (hv : ∀ kv ∈ ps, NoSep kv.2) (hv' : ∀ kv ∈ ps', NoSep kv.2)
    (h : uniqueNameWith ok H cls ps = uniqueNameWith ok H cls ps') : ps = ps' := by
  unfold uniqueNameWith at h
  simp only at h
  have strip : ∀ (x y : String), cls ++ x = cls ++ y → x = y := by
    intro x y e
    have := congrArg String.toList e
    simp only [String.toList_append, List.append_cancel_left_eq] at this
    exact String.toList_inj.mp this
  by_cases c1 : ((fullName cls ps).length < 64 && ok (fullName cls ps)) = true
  · by_cases c2 : ((fullName cls ps').length < 64 && ok (fullName cls ps')) = true
    · rw [if_pos c1, if_pos c2] at h
      exact fullName_inj cls ps ps' hk hv hv' h
    · rw [if_pos c1, if_neg c2] at h
      rw [fullName_eq, String.append_assoc] at h
      exact absurd (strip _ _ h) (nameTail_ne_hashed ps _ (hhex _))
  · by_cases c2 : ((fullName cls ps').length < 64 && ok (fullName cls ps')) = true
    · rw [if_neg c1, if_pos c2] at h
      rw [fullName_eq, String.append_assoc] at h
      exact absurd (strip _ _ h.symm) (nameTail_ne_hashed ps' _ (hhex _))
    · rw [if_neg c1, if_neg c2] at h
      rw [String.append_assoc, String.append_assoc] at h
      have h3 := strip _ _ h
      have h4 : H (nameTail ps) = H (nameTail ps') := by
        have := congrArg String.toList h3
        simp only [String.toList_append, List.append_cancel_left_eq] at this
        exact String.toList_inj.mp this
      exact nameTail_inj ps ps' hk hv hv' (hH _ _ h4)

/-- `get_component_unique_name` as it is: same class, different parameter values never collide -/
theorem uniqueName_inj (H : String → String) (hH : ∀ s s', H s = H s' → s = s')
    (hhex : ∀ s, '_' ∉ (H s).toList)
    (cls : String) (ps ps' : List (String × String))
    (hk : ps.map (·.1) = ps'.map (·.1))
    (hv : ∀ kv ∈ ps, NoSep kv.2) (hv' : ∀ kv ∈ ps', NoSep kv.2)
    (h : uniqueName H cls ps = uniqueName H cls ps') : ps = ps' :=
  uniqueNameWith_inj _ H hH hhex cls ps ps' hk hv hv' h

/-- … and the same for the repaired name function -/
theorem uniqueNameR_inj (H : String → String) (hH : ∀ s s', H s = H s' → s = s')
    (hhex : ∀ s, '_' ∉ (H s).toList)
    (cls : String) (ps ps' : List (String × String))
    (hk : ps.map (·.1) = ps'.map (·.1))
    (hv : ∀ kv ∈ ps, NoSep kv.2) (hv' : ∀ kv ∈ ps', NoSep kv.2)
    (h : uniqueNameR H cls ps = uniqueNameR H cls ps') : ps = ps' :=
  uniqueNameWith_inj _ H hH hhex cls ps ps' hk hv hv' h

theorem nameTail_idChars (ps : List (String × String))
    (hp : ∀ kv ∈ ps, (∀ c ∈ kv.1.toList, isIdChar c = true) ∧ (∀ c ∈ kv.2.toList, isIdChar c = true)) :
    ∀ c ∈ (nameTail ps).toList, isIdChar c = true := by
  have hs : ∀ (ps : List (String × String)),
      (∀ kv ∈ ps, (∀ c ∈ kv.1.toList, isIdChar c = true) ∧ (∀ c ∈ kv.2.toList, isIdChar c = true)) →
      ∀ c ∈ (suffix ps).toList, isIdChar c = true := by
    intro ps
    induction ps with
    | nil => intro _ c hc; simp [suffix] at hc
    | cons kv ps ih =>
      obtain ⟨k, v⟩ := kv
      intro hp c hc
      rw [suffix_cons_toList] at hc
      simp only [List.mem_cons, List.mem_append] at hc
      have hu : isIdChar '_' = true := by decide
      rcases hc with rfl | rfl | hc | rfl | hc | hc
      · exact hu
      · exact hu
      · exact (hp (k, v) (by simp)).1 c hc
      · exact hu
      · exact (hp (k, v) (by simp)).2 c hc
      · exact ih (fun kv hkv => hp kv (List.mem_cons_of_mem _ hkv)) c hc
  cases ps with
  | nil =>
    intro c hc
    have : (nameTail []).toList = ['_', 'n', 'o', 'p', 'a', 'r', 'a', 'm'] := by decide
    rw [this] at hc
    revert c
    decide
  | cons kv ps =>
    simp only [nameTail, List.isEmpty_cons, Bool.false_eq_true, if_false]
    exact hs _ hp

/-- When is the emitted module name an identifier: the class name is one, parameter names and value images consist
of identifier characters, and so do the digests. (`illegal_name_witness`: the condition on values is needed.) -/
theorem uniqueName_idShape (H : String → String) (hH : ∀ s, ∀ c ∈ (H s).toList, isIdChar c = true)
    (cls : String) (ps : List (String × String)) (hc : idShape cls = true)
    (hp : ∀ kv ∈ ps, (∀ c ∈ kv.1.toList, isIdChar c = true) ∧ (∀ c ∈ kv.2.toList, isIdChar c = true)) :
    idShape (uniqueName H cls ps) = true := by
  have ext : ∀ (r : String), (∀ c ∈ r.toList, isIdChar c = true) → idShape (cls ++ r) = true := by
    intro r hr
    unfold idShape at hc ⊢
    rw [String.toList_append]
    cases hl : cls.toList with
    | nil => rw [hl] at hc; simp at hc
    | cons c cs =>
      rw [hl] at hc
      simp only [Bool.and_eq_true, List.all_eq_true] at hc
      simp only [List.cons_append, Bool.and_eq_true, List.all_eq_true, List.mem_append]
      exact ⟨hc.1, fun x hx => hx.elim (hc.2 x) (hr x)⟩
  unfold uniqueName uniqueNameWith
  simp only
  split
  · rw [fullName_eq]; exact ext _ (nameTail_idChars ps hp)
  · rw [String.append_assoc]
    apply ext
    intro c hc'
    rw [String.toList_append] at hc'
    simp only [List.mem_append] at hc'
    rcases hc' with hc' | hc'
    · have : "__".toList = ['_', '_'] := by decide
      rw [this] at hc'
      simp only [List.mem_cons, List.not_mem_nil, or_false] at hc'
      rcases hc' with rfl | rfl <;> decide
    · exact hH _ c hc'

/-- The repaired name function emits an identifier for EVERY parameter list (class name an identifier, digests
made of identifier characters): no condition on the values is left. -/
theorem uniqueNameR_idShape (H : String → String) (hH : ∀ s, ∀ c ∈ (H s).toList, isIdChar c = true)
    (cls : String) (ps : List (String × String)) (hc : idShape cls = true) :
    idShape (uniqueNameR H cls ps) = true := by
  unfold uniqueNameR uniqueNameWith
  simp only
  split
  · next h =>
    simp only [Bool.and_eq_true] at h
    exact h.2
  · unfold idShape at hc ⊢
    rw [String.append_assoc, String.toList_append]
    cases hl : cls.toList with
    | nil => rw [hl] at hc; simp at hc
    | cons c cs =>
      rw [hl] at hc
      simp only [Bool.and_eq_true, List.all_eq_true] at hc
      simp only [List.cons_append, Bool.and_eq_true, List.all_eq_true, List.mem_append, String.toList_append]
      refine ⟨hc.1, fun x hx => ?_⟩
      rcases hx with hx | hx | hx
      · exact hc.2 x hx
      · have : "__".toList = ['_', '_'] := by decide
        rw [this] at hx
        simp only [List.mem_cons, List.not_mem_nil, or_false] at hx
        rcases hx with rfl | rfl <;> decide
      · exact hH _ x hx

theorem hasSpecial_not_idShape (f : String) (h : hasSpecial f = true) : idShape f = false := by
  unfold hasSpecial at h
  unfold idShape
  have key : ∀ c, specialChars.contains c = true → isIdStart c = false ∧ isIdChar c = false := by
    intro c hc
    have hm := List.contains_iff_mem.mp hc
    simp only [specialChars, List.mem_cons, List.not_mem_nil, or_false] at hm
    rcases hm with rfl | rfl | rfl | rfl | rfl | rfl <;> decide
  cases hl : f.toList with
  | nil => rfl
  | cons c cs =>
    rw [hl] at h
    simp only [List.any_cons, Bool.or_eq_true, List.any_eq_true] at h
    rcases h with h | ⟨x, hx, hx2⟩
    · simp [(key c h).1]
    · have : cs.all isIdChar = false := by
        rw [List.all_eq_false]
        exact ⟨x, hx, by simp [(key x hx2).2]⟩
      simp [this]

/-- The repair changes no name that was an identifier already. -/
theorem uniqueNameR_conservative (H : String → String) (cls : String) (ps : List (String × String))
    (h : idShape (uniqueName H cls ps) = true) :
    uniqueNameR H cls ps = uniqueName H cls ps := by
  unfold uniqueNameR uniqueName uniqueNameWith at *
  simp only at *
  by_cases c1 : ((fullName cls ps).length < 64 && !hasSpecial (fullName cls ps)) = true
  · rw [if_pos c1] at h ⊢
    simp only [Bool.and_eq_true] at c1
    rw [if_pos (by simp [c1.1, h])]
  · rw [if_neg c1]
    by_cases c2 : ((fullName cls ps).length < 64 && idShape (fullName cls ps)) = true
    · exfalso
      simp only [Bool.and_eq_true] at c2
      apply c1
      simp only [Bool.and_eq_true, c2.1, true_and, Bool.not_eq_true']
      cases hs : hasSpecial (fullName cls ps) with
      | false => rfl
      | true => rw [hasSpecial_not_idShape _ hs] at c2; exact absurd c2.2 (by simp)
    · rw [if_neg c2]

/-! ## determinism of the model's orders -/

/-- The order in which `translate_component` reaches the instances — hence which body wins and the order of the
emitted modules — does not depend on the order in which the children are enumerated (they come out of a Python
`set`): any permutation of the children, each with an unchanged walk, gives the same walk, when their `repr`s are
distinct. -/
theorem post_perm_invariant {β : Type} (r n : String) (b : β) (cs cs' : List (Tree β))
    (hp : (postKids cs).Perm (postKids cs'))
    (hd : ∀ x ∈ postKids cs, ∀ y ∈ postKids cs, x.1 = y.1 → x = y) :
    (Tree.node r n b cs).post = (Tree.node r n b cs').post := by
  simp only [Tree.post]
  rw [sortByKey_perm_eq (fun kv => kv.1) _ _ hp hd]

theorem postKids_eq_map {β : Type} (cs : List (Tree β)) : postKids cs = cs.map (fun c => (c.repr, c.post)) := by
  induction cs with
  | nil => simp [postKids]
  | cons c cs ih => simp [postKids, ih]

/-- in particular: permuting the children themselves -/
theorem post_children_perm {β : Type} (r n : String) (b : β) (cs cs' : List (Tree β)) (hp : cs.Perm cs')
    (hd : ∀ x ∈ cs, ∀ y ∈ cs, x.repr = y.repr → x = y) :
    (Tree.node r n b cs).post = (Tree.node r n b cs').post := by
  apply post_perm_invariant
  · rw [postKids_eq_map, postKids_eq_map]; exact hp.map _
  · intro x hx y hy hxy
    rw [postKids_eq_map] at hx hy
    simp only [List.mem_map] at hx hy
    obtain ⟨cx, hcx, rfl⟩ := hx
    obtain ⟨cy, hcy, rfl⟩ := hy
    have := hd cx hcx cy hcy hxy
    rw [this]

/-- port order of a module does not depend on the enumeration order of ports and interfaces -/
theorem portOrder_perm_invariant (ports ports' : List String) (ifcs ifcs' : List Ifc)
    (hp : ports.Perm ports') (hi : (flatKids ifcs).Perm (flatKids ifcs'))
    (hd : ∀ x ∈ flatKids ifcs, ∀ y ∈ flatKids ifcs, x.1 = y.1 → x = y) :
    portOrder ports ifcs = portOrder ports' ifcs' := by
  unfold portOrder
  rw [sortByKey_perm_eq id _ _ hp (fun a _ b _ h => h), sortByKey_perm_eq (fun kv => kv.1) _ _ hi hd]

/-- block order of a module does not depend on the enumeration order of the update blocks -/
theorem blockOrder_perm_invariant (comb comb' seq seq' : List String)
    (hc : comb.Perm comb') (hs : seq.Perm seq') : blockOrder comb seq = blockOrder comb' seq' := by
  unfold blockOrder
  rw [sortByKey_perm_eq id _ _ hc (fun a _ b _ h => h), sortByKey_perm_eq id _ _ hs (fun a _ b _ h => h)]

/-! ## identifiers made by `__`-joining user names; struct type names

`okName` (Model/Names.lean): not empty, first character neither `_` nor a digit, no `__` inside; a trailing `_` is
allowed (`in_`, `type_`). pymtl3 guarantees the first two clauses for hardware objects (Python identifiers; an attribute
whose name starts with `_` is not a hardware object); the third is the user's obligation and is what the findings
"duplicate flattened identifier" are about. -/

/-- **Different hardware objects of a module never get the same identifier**: `"__".join` is injective on paths whose
user names are well formed (list indices are decimal numbers). -/
theorem flatId_inj (p q : List Seg) (hp : ∀ s ∈ p, s.ok = true) (hq : ∀ s ∈ q, s.ok = true)
    (h : flatId p = flatId q) : p = q :=
  flatId_inj_aux p q hp hq (by rw [h])

/-- … hence a module whose objects have pairwise different paths declares every identifier once. -/
theorem flatIds_nodup (ps : List (List Seg)) (hok : ∀ p ∈ ps, ∀ s ∈ p, s.ok = true) (hd : ps.Nodup) :
    (ps.map flatId).Nodup := by
  induction ps with
  | nil => simp
  | cons p ps ih =>
    have hd' := List.nodup_cons.mp hd
    simp only [List.map_cons, List.nodup_cons, List.mem_map, not_exists, not_and]
    refine ⟨?_, ih (fun q hq => hok q (List.mem_cons_of_mem _ hq)) hd'.2⟩
    intro q hq e
    have := flatId_inj q p (hok q (List.mem_cons_of_mem _ hq)) (hok p (by simp)) e
    exact hd'.1 (this ▸ hq)

/-- the collision list the harness asks for is empty exactly when every identifier is declared once -/
theorem flatCollisions_eq_nil_iff (ps : List (List Seg)) : flatCollisions ps = [] ↔ (ps.map flatId).Nodup := by
  simp only [flatCollisions, List.filter_eq_nil_iff, decide_eq_true_eq, List.nodup_iff_count]
  constructor
  · intro h a
    by_cases ha : a ∈ ps.map flatId
    · exact Nat.le_of_not_lt (h a ha)
    · rw [List.count_eq_zero_of_not_mem ha]; omega
  · intro h a _
    exact Nat.not_lt.mpr (h a)

theorem flatCollisions_nil_of_ok (ps : List (List Seg)) (hok : ∀ p ∈ ps, ∀ s ∈ p, s.ok = true) (hd : ps.Nodup) :
    flatCollisions ps = [] :=
  (flatCollisions_eq_nil_iff ps).mpr (flatIds_nodup ps hok hd)

/-- Without the conditions on user names the identifiers collide (each pair replayed on the real translators by the
harness): a name containing `__` (child `a` with port `b__c` / child `a__b` with port `c`), a name that looks like a list
index (`a[0]` / `a__0`), a name starting with `_` after a name ending in `_` (port `a_` with struct field `b` / port `a`
with field `_b`, Yosys backend), a name starting with a digit. -/
theorem flatId_collision_witnesses :
    (flatId [.name "a", .name "b__c"] = flatId [.name "a__b", .name "c"] ∧ okName "b__c" = false) ∧
    (flatId [.name "a", .idx 0] = flatId [.name "a__0"] ∧ okName "a__0" = false) ∧
    (flatId [.name "a_", .name "b"] = flatId [.name "a", .name "_b"] ∧ okName "_b" = false ∧ okName "a_" = true) ∧
    (flatId [.name "a", .name "0"] = flatId [.name "a", .idx 0] ∧ okName "0" = false) := by
  decide

theorem cls_cancel (c c' : String) (X X' : List Char) (hc : okName c = true) (hc' : okName c' = true)
    (hX : X.head? ≠ some '_') (hX' : X'.head? ≠ some '_')
    (h : c.toList ++ '_' :: '_' :: X = c'.toList ++ '_' :: '_' :: X') : c = c' ∧ X = X' := by
  obtain ⟨e1, e2⟩ := seg_cancel _ _ _ _ ((okNameL_iff _).mp hc).2 ((okNameL_iff _).mp hc').2
    (Or.inr ⟨X, rfl, hX⟩) (Or.inr ⟨X', rfl, hX'⟩) h
  simp only [List.cons.injEq, true_and] at e2
  exact ⟨String.toList_inj.mp e1, e2⟩

theorem fieldStrL_head_ne (fs : List (String × DT)) (h : flatStruct fs = true) : (fieldStrL fs).head? ≠ some '_' := by
  obtain ⟨hne, hf⟩ := (flatStruct_iff fs).mp h
  cases fs with
  | nil => exact absurd rfl hne
  | cons f fs =>
    obtain ⟨n, t⟩ := f
    obtain ⟨c, r, e, hc, _⟩ := fieldStrL_head n t fs (hf (n, t) (by simp)).1
    rw [e]
    simp only [List.head?_cons, ne_eq, Option.some.injEq]
    exact hc

theorem struct_fullName_toList (c : String) (fs : List (String × DT)) (h : flatStruct fs = true) :
    (DT.fullName (.struct c fs)).toList = c.toList ++ '_' :: '_' :: fieldStrL fs := by
  simp only [DT.fullName, String.toList_append, fieldStr_toList fs ((flatStruct_iff fs).mp h).2]
  simp

/-- **Struct types without nested structs never share a full name**: class names and field names well formed, every
field a vector or a list of vectors. (`structName_collision_witnesses`: none of the conditions can be dropped, and with a
nested struct the name is ambiguous even for well-formed names.) -/
theorem structFullName_inj (c c' : String) (fs fs' : List (String × DT))
    (hc : okName c = true) (hc' : okName c' = true) (hf : flatStruct fs = true) (hf' : flatStruct fs' = true)
    (h : DT.fullName (.struct c fs) = DT.fullName (.struct c' fs')) : c = c' ∧ fs = fs' := by
  have h2 := congrArg String.toList h
  rw [struct_fullName_toList c fs hf, struct_fullName_toList c' fs' hf'] at h2
  obtain ⟨e1, e2⟩ := cls_cancel c c' _ _ hc hc' (fieldStrL_head_ne fs hf) (fieldStrL_head_ne fs' hf') h2
  exact ⟨e1, fieldStrL_inj fs fs' ((flatStruct_iff fs).mp hf).2 ((flatStruct_iff fs').mp hf').2 e2⟩

/-- The same for the emitted name (`Struct.get_name`: the full name, or class name + `__` + hash of the field string when
the full name has 64 characters or more), for a hash without collisions whose digests contain no `_`. -/
theorem structName_inj (H : String → String) (hH : ∀ s s', H s = H s' → s = s') (hhex : ∀ s, '_' ∉ (H s).toList)
    (c c' : String) (fs fs' : List (String × DT))
    (hc : okName c = true) (hc' : okName c' = true) (hf : flatStruct fs = true) (hf' : flatStruct fs' = true)
    (h : structName H c fs = structName H c' fs') : c = c' ∧ fs = fs' := by
  have hashed : ∀ (c : String) (fs : List (String × DT)),
      (c ++ "__" ++ H (fieldStr fs)).toList = c.toList ++ '_' :: '_' :: (H (fieldStr fs)).toList := by
    intro c fs; simp [String.toList_append]
  have hhead : ∀ s, (H s).toList.head? ≠ some '_' := by
    intro s e
    apply hhex s
    cases hl : (H s).toList with
    | nil => rw [hl] at e; simp at e
    | cons x r => rw [hl] at e; simp only [List.head?_cons, Option.some.injEq] at e; rw [e]; simp
  have hwf := ((flatStruct_iff fs).mp hf)
  have hwf' := ((flatStruct_iff fs').mp hf')
  unfold structName at h
  simp only at h
  by_cases l1 : (DT.fullName (.struct c fs)).length < 64
  · by_cases l2 : (DT.fullName (.struct c' fs')).length < 64
    · rw [if_pos l1, if_pos l2] at h
      exact structFullName_inj c c' fs fs' hc hc' hf hf' h
    · rw [if_pos l1, if_neg l2] at h
      exfalso
      have h2 := congrArg String.toList h
      rw [struct_fullName_toList c fs hf, hashed] at h2
      obtain ⟨_, e2⟩ := cls_cancel c c' _ _ hc hc' (fieldStrL_head_ne fs hf) (hhead _) h2
      apply hhex (fieldStr fs')
      rw [← e2]
      exact fieldStrL_has_underscore fs hwf.1
  · by_cases l2 : (DT.fullName (.struct c' fs')).length < 64
    · rw [if_neg l1, if_pos l2] at h
      exfalso
      have h2 := congrArg String.toList h
      rw [struct_fullName_toList c' fs' hf', hashed] at h2
      obtain ⟨_, e2⟩ := cls_cancel c c' _ _ hc hc' (hhead _) (fieldStrL_head_ne fs' hf') h2
      apply hhex (fieldStr fs)
      rw [e2]
      exact fieldStrL_has_underscore fs' hwf'.1
    · rw [if_neg l1, if_neg l2] at h
      have h2 := congrArg String.toList h
      rw [hashed, hashed] at h2
      obtain ⟨e1, e2⟩ := cls_cancel c c' _ _ hc hc' (hhead _) (hhead _) h2
      have e3 : fieldStr fs = fieldStr fs' := hH _ _ (String.toList_inj.mp e2)
      have e4 := congrArg String.toList e3
      rw [fieldStr_toList fs hwf.2, fieldStr_toList fs' hwf'.2] at e4
      exact ⟨e1, fieldStrL_inj fs fs' hwf.2 hwf'.2 e4⟩

/-- `Struct.get_full_name` is NOT injective beyond that (each pair replayed on the real `get_rtlir_dtype` /
translators by the harness). With well-formed names and a nested struct: (1) the fields after a nested struct are
indistinguishable from its own last fields; (2) `f` of type `My_S` / `f_My` of type `S`; (5) a list of structs / a
struct with a list field. Without nesting but with `__` in a name: (3) a field name, (4) a class name. -/
theorem structName_collision_witnesses :
    -- (1) Outer{ i: Inner{x:8, y:8}, z:4 }  /  Outer{ i: Inner{x:8}, y:8, z:4 }
    ((DT.struct "Outer" [("i", .struct "Inner" [("x", .vec 8), ("y", .vec 8)]), ("z", .vec 4)]).fullName =
     (DT.struct "Outer" [("i", .struct "Inner" [("x", .vec 8)]), ("y", .vec 8), ("z", .vec 4)]).fullName) ∧
    -- (2) C{ f: My_S{g:8} }  /  C{ f_My: S{g:8} }
    ((DT.struct "C" [("f", .struct "My_S" [("g", .vec 8)])]).fullName =
     (DT.struct "C" [("f_My", .struct "S" [("g", .vec 8)])]).fullName) ∧
    -- (3) S{ a:4, b:8 }  /  S{ a_4__b: 8 }
    ((DT.struct "S" [("a", .vec 4), ("b", .vec 8)]).fullName = (DT.struct "S" [("a_4__b", .vec 8)]).fullName ∧
      okName "a_4__b" = false) ∧
    -- (4) A{ b:8, c:4 }  /  A__b_8{ c:4 }
    ((DT.struct "A" [("b", .vec 8), ("c", .vec 4)]).fullName = (DT.struct "A__b_8" [("c", .vec 4)]).fullName ∧
      okName "A__b_8" = false) ∧
    -- (5) C{ f: [D{g:8}] * 2 }  /  C{ f: D{ g: [Bits8] * 2 } }
    ((DT.struct "C" [("f", .arr [2] (.struct "D" [("g", .vec 8)]))]).fullName =
     (DT.struct "C" [("f", .struct "D" [("g", .arr [2] (.vec 8))])]).fullName) := by
  decide

/-- (6) A class name that ends in `_<width>` makes a nested struct look like a vector field:
`C{ f: My_8{g:4} }` (4 bits) and `C{ f_My: 8, g: 4 }` (12 bits) share a name and do not even have the same width. -/
theorem struct_collision_changes_layout :
    (DT.struct "C" [("f", .struct "My_8" [("g", .vec 4)])]).fullName =
      (DT.struct "C" [("f_My", .vec 8), ("g", .vec 4)]).fullName ∧
    (DT.struct "C" [("f", .struct "My_8" [("g", .vec 4)])]).leafWidths = [4] ∧
    (DT.struct "C" [("f_My", .vec 8), ("g", .vec 4)]).leafWidths = [8, 4] ∧
    okName "My_8" = true ∧ okName "f_My" = true := by
  decide

/-! ## non-vacuity -/

/-- a table the checker accepts … -/
example : wfModules ⟨["S__a_4"], [⟨"Inner_noparam", ["clk", "in_", "out", "up"], []⟩,
    ⟨"Top_noparam", ["clk", "a", "a__clk"], [("Inner_noparam", "a")]⟩]⟩ = true := by decide
/-- … and ones it rejects: a module defined twice, an undefined instantiated module, a reserved word, a duplicate -/
example : wfModules ⟨[], [⟨"A", [], []⟩, ⟨"A", [], []⟩]⟩ = false := by decide
example : wfModules ⟨[], [⟨"T", ["a"], [("Missing", "a")]⟩]⟩ = false := by decide
example : wfModules ⟨[], [⟨"T", ["logic"], []⟩]⟩ = false := by decide
example : wfModules ⟨[], [⟨"T", ["x", "x"], []⟩]⟩ = false := by decide
example : wfModules ⟨[], [⟨"Inner__p_-1", [], []⟩]⟩ = false := by decide
/-- the hypotheses of `fullName_inj` are satisfiable, and needed: with a separator inside a value two different
parameter lists collide -/
example : NoSep "Bits32" := by
  constructor
  · intro p q h
    have : "Bits32".toList = ['B', 'i', 't', 's', '3', '2'] := by decide
    rw [this] at h
    have hm : '_' ∈ p ++ '_' :: '_' :: q := by simp
    rw [← h] at hm
    revert hm; decide
  · intro p h
    have : "Bits32".toList = ['B', 'i', 't', 's', '3', '2'] := by decide
    rw [this] at h
    have hm : '_' ∈ p ++ ['_'] := by simp
    rw [← h] at hm
    revert hm; decide
example : fullName "C" [("a", "1__b_2"), ("b", "3")] = fullName "C" [("a", "1"), ("b", "2__b_3")] := by decide
/-- first-wins on a walk with a repeated name; the repaired walk refuses it, and accepts equal bodies -/
example : translateAll [("A", 1), ("A", 2), ("T", 0)] = [("A", 1), ("T", 0)] := by decide
example : translateChecked [("A", 1), ("A", 2), ("T", 0)] = .error "A" := by rfl
example : translateChecked [("A", 1), ("A", 1), ("T", 0)] = .ok [("A", 1), ("T", 0)] := by rfl
/-- children are visited in `repr` order (`s.x[10]` before `s.x[2]`), whatever order they are given in -/
example : (Tree.node "s" "T" 0 [.node "s.x[2]" "B" 2 [], .node "s.x[10]" "A" 1 []]).post = [("A", 1), ("B", 2), ("T", 0)] := by
  decide

/-- well-formed names exist (a trailing `_` is fine), the hypotheses of `flatId_inj` / `flatIds_nodup` are satisfiable,
and the conclusion is not trivial: three different paths, three different identifiers -/
example : okName "in_" = true ∧ okName "type_" = true ∧ okName "a_0" = true ∧ okName "x1" = true := by decide
example : (∀ p ∈ [[Seg.name "a", .idx 0, .name "in_"], [.name "a", .idx 1, .name "in_"], [.name "a_0"]],
    ∀ s ∈ p, s.ok = true) ∧
    [[Seg.name "a", .idx 0, .name "in_"], [.name "a", .idx 1, .name "in_"], [.name "a_0"]].map flatId =
      ["a__0__in_", "a__1__in_", "a_0"] := by decide
example : flatCollisions [[.name "a", .name "b__c"], [.name "x"], [.name "a__b", .name "c"]] = ["a__b__c", "a__b__c"] := by
  decide
/-- a struct type in the scope of `structFullName_inj` (the memory request message of the stdlib has this shape) -/
example : flatStruct [("type_", .vec 4), ("opaque", .vec 8), ("data", .arr [2, 3] (.vec 32))] = true ∧ okName "MemReqMsg" = true := by
  decide
example : (DT.struct "Req" [("type_", .vec 4), ("data", .arr [2, 3] (.vec 32))]).fullName = "Req__type__4__data_32x2x3" := by
  decide

end PV.C13
