import PymtlVerif.Proofs.Names
/-!
# C13 — translation is deterministic and module names never alias different hardware

Property theorems about `Model/Names.lean`.

What is proved here
* `wfModules_sound` / `wfModules_complete`: the Boolean checker that the harness runs on the module table scanned
  from emitted text decides exactly `DefinedOnce ∧ Closed ∧ LegalUniqueIds`.
* the component table of `translate_component` as the code is NOW: `table_first_wins`, `table_defined_once`,
  `table_closed`, `table_from_instances`; `no_alias_iff_names_injective`: every instance gets its own body **iff**
  names are injective on bodies; `alias_witness` (finding F7: two classes with the same `__name__`),
  `param_image_alias_witness` (same class, `1` vs `"1"`), `illegal_name_witness` (`-1` as a parameter).
* the proposed repair `translateChecked`: `checked_no_alias`, `checked_ok_iff_injective`, `checked_error_sound`.
* names: `fullName_inj`, `uniqueName_inj` (same class, same parameter names, separator-free values: different
  values never collide — through the hashed path as well, assuming the hash has no collision and is hexadecimal),
  `uniqueName_idShape` (when the emitted name is a legal identifier).
* determinism of the model's orders: `post_perm_invariant`, `portOrder_perm_invariant`, `blockOrder_perm_invariant`
  (the emitted order does not depend on the order in which children / ports / blocks are enumerated).

What is NOT a theorem: independence of the text from `PYTHONHASHSEED` and from earlier translations in the same
process is a property of CPython and of the whole translator; it is covered by the correspondence check only
(byte equality across fresh processes).
-/
namespace PV.C13
open PV.Names

/-! ## the module-table checker -/

/-- `[A-Za-z_][A-Za-z0-9_$]*` and not a reserved word -/
def LegalId (s : String) : Prop :=
  (∃ c cs, s.toList = c :: cs ∧ isIdStart c = true ∧ ∀ x ∈ cs, isIdChar x = true) ∧ s ∉ verilogReserved

/-- every module name and every typedef name is defined once -/
def DefinedOnce (t : ModTable) : Prop := t.names.Nodup ∧ t.typedefs.Nodup

/-- every instantiated module is defined in the table -/
def Closed (t : ModTable) : Prop := ∀ m ∈ t.modules, ∀ i ∈ m.insts, ∃ d ∈ t.modules, d.name = i.1

/-- identifiers are legal and unique in their scope (instance names are among the module's identifiers) -/
def LegalUniqueIds (t : ModTable) : Prop :=
  (∀ x ∈ t.typedefs, LegalId x) ∧
  ∀ m ∈ t.modules, LegalId m.name ∧ (∀ x ∈ m.ids, LegalId x) ∧ m.ids.Nodup ∧ ∀ i ∈ m.insts, i.2 ∈ m.ids

theorem isIdStart_iff (c : Char) :
    isIdStart c = true ↔ ('a' ≤ c ∧ c ≤ 'z') ∨ ('A' ≤ c ∧ c ≤ 'Z') ∨ c = '_' := by
  simp only [isIdStart, Char.isAlpha, Char.isUpper, Char.isLower, Bool.or_eq_true, Bool.and_eq_true,
    decide_eq_true_eq, beq_iff_eq, ge_iff_le]
  constructor
  · rintro ((h | h) | h)
    · exact Or.inr (Or.inl h)
    · exact Or.inl h
    · exact Or.inr (Or.inr h)
  · rintro (h | h | h)
    · exact Or.inl (Or.inr h)
    · exact Or.inl (Or.inl h)
    · exact Or.inr h

theorem legalId_iff (s : String) : legalId s = true ↔ LegalId s := by
  unfold legalId LegalId idShape
  cases hs : s.toList with
  | nil => simp
  | cons c cs =>
    simp only [Bool.and_eq_true, List.all_eq_true, Bool.not_eq_true', List.cons.injEq]
    constructor
    · rintro ⟨⟨h1, h2⟩, h3⟩
      refine ⟨⟨c, cs, ⟨rfl, rfl⟩, h1, h2⟩, ?_⟩
      intro hm
      rw [List.contains_iff_mem.mpr hm] at h3
      exact Bool.noConfusion h3
    · rintro ⟨⟨c', cs', ⟨rfl, rfl⟩, h1, h2⟩, h3⟩
      refine ⟨⟨h1, h2⟩, ?_⟩
      cases hc : verilogReserved.contains s with
      | false => rfl
      | true => exact absurd (List.contains_iff_mem.mp hc) h3

theorem wfModules_iff (t : ModTable) :
    wfModules t = true ↔ DefinedOnce t ∧ Closed t ∧ LegalUniqueIds t := by
  unfold wfModules DefinedOnce Closed LegalUniqueIds
  simp only [Bool.and_eq_true, nodupB_iff, List.all_eq_true, legalId_iff, wfModule, List.contains_iff_mem]
  constructor
  · rintro ⟨⟨⟨h1, h2⟩, h3⟩, h4⟩
    refine ⟨⟨h1, h2⟩, ?_, h3, ?_⟩
    · intro m hm i hi
      have := ((h4 m hm).2 i hi).1
      simpa [ModTable.names] using this
    · intro m hm
      obtain ⟨⟨⟨a, b⟩, c⟩, d⟩ := h4 m hm
      exact ⟨a, b, c, fun i hi => (d i hi).2⟩
  · rintro ⟨⟨h1, h2⟩, hc, h3, h4⟩
    refine ⟨⟨⟨h1, h2⟩, h3⟩, ?_⟩
    intro m hm
    obtain ⟨a, b, c, d⟩ := h4 m hm
    refine ⟨⟨⟨a, b⟩, c⟩, ?_⟩
    intro i hi
    refine ⟨?_, d i hi⟩
    have := hc m hm i hi
    simpa [ModTable.names] using this

/-- The checker accepts only tables in which every module (and typedef) is defined once, every instantiated
module is defined, and identifiers are legal, not reserved, and unique per module scope. -/
theorem wfModules_sound (t : ModTable) (h : wfModules t = true) :
    DefinedOnce t ∧ Closed t ∧ LegalUniqueIds t := (wfModules_iff t).mp h

/-- … and it accepts all of them (so a rejected table really violates one of the three clauses). -/
theorem wfModules_complete (t : ModTable) (h : DefinedOnce t ∧ Closed t ∧ LegalUniqueIds t) :
    wfModules t = true := (wfModules_iff t).mpr h

/-! ## the component table of `translate_component`, as the code is now -/

section table
variable {β : Type}

/-- `components[name]` is the body of the FIRST instance of the post-order walk that has this name. -/
theorem table_first_wins (is : List (String × β)) (n : String) :
    (translateAll is).lookup n = is.lookup n := lookup_translateAll is n

/-- the emitted table defines every module name once … -/
theorem table_defined_once (is : List (String × β)) : ((translateAll is).map (·.1)).Nodup :=
  keys_nodup_translateAll is

/-- … defines the name of every instance (so every instantiated module is defined) … -/
theorem table_closed (is : List (String × β)) (e : String × β) (he : e ∈ is) :
    ∃ b, (translateAll is).lookup e.1 = some b ∧ (e.1, b) ∈ is := by
  obtain ⟨b', h1, h2⟩ := lookup_of_mem is e.1 e.2 he
  exact ⟨b', by rw [table_first_wins]; exact h1, h2⟩

/-- … and contains nothing but (name, body) pairs of instances. -/
theorem table_from_instances (is : List (String × β)) (e : String × β) (h : e ∈ translateAll is) : e ∈ is :=
  mem_translateAll is e h

/-- names injective on bodies ⇒ no instance is given another instance's body -/
theorem no_alias_if_names_injective (is : List (String × β))
    (hinj : ∀ a ∈ is, ∀ b ∈ is, a.1 = b.1 → a.2 = b.2) :
    ∀ e ∈ is, (translateAll is).lookup e.1 = some e.2 := by
  intro e he
  obtain ⟨b, h1, h2⟩ := table_closed is e he
  have hb : b = e.2 := hinj (e.1, b) h2 e he rfl
  rw [h1, hb]

/-- two instances with one name and different bodies ⇒ one of them silently gets the other body -/
theorem alias_if_not_injective (is : List (String × β)) (a b : String × β) (ha : a ∈ is) (hb : b ∈ is)
    (hn : a.1 = b.1) (hne : a.2 ≠ b.2) :
    ∃ e ∈ is, ∃ w, (translateAll is).lookup e.1 = some w ∧ w ≠ e.2 := by
  obtain ⟨w, h1, _⟩ := table_closed is a ha
  by_cases hw : w = a.2
  · refine ⟨b, hb, w, by rw [← hn]; exact h1, ?_⟩
    rw [hw]; exact hne
  · exact ⟨a, ha, w, h1, hw⟩

/-- The walk as it is aliases exactly when names are not injective on bodies. -/
theorem no_alias_iff_names_injective (is : List (String × β)) :
    (∀ e ∈ is, (translateAll is).lookup e.1 = some e.2) ↔ (∀ a ∈ is, ∀ b ∈ is, a.1 = b.1 → a.2 = b.2) := by
  constructor
  · intro h a ha b hb hn
    have h1 := h a ha
    have h2 := h b hb
    rw [hn, h2] at h1
    injection h1 with h1
    exact h1.symm
  · exact no_alias_if_names_injective is

/-- the tree form: the table of a hierarchy is the table of its post-order walk (children by `repr`) -/
theorem tree_first_wins (t : Tree β) (n : String) : (translateTree t).lookup n = t.post.lookup n :=
  table_first_wins t.post n

end table

/-! ### Finding F7 and its relatives, as theorems about the code as it is -/

/-- short names without special characters are used as they are -/
theorem uniqueName_plain (H : String → String) (cls : String) (ps : List (String × String))
    (h : ((fullName cls ps).length < 64 && !hasSpecial (fullName cls ps)) = true) :
    uniqueName H cls ps = fullName cls ps := by
  unfold uniqueName uniqueNameWith
  simp only
  rw [if_pos h]

theorem uniqueName_noparam_inner (H : String → String) : uniqueName H "Inner" [] = "Inner_noparam" := by
  rw [uniqueName_plain H "Inner" [] (by decide)]
  decide

/-- **F7.** Two classes that share `__name__` (`Inner`, no parameters) and differ in behaviour (bodies 1 and 2):
the module name depends on the class *name* and parameters only, so both instances are `Inner_noparam`; the
table holds ONE definition, and instance `b` silently gets the body of instance `a`. -/
theorem alias_witness (H : String → String) :
    ∃ (is : List (String × Nat)) (a b : String × Nat), a ∈ is ∧ b ∈ is ∧ a.1 = b.1 ∧ a.2 ≠ b.2 ∧
      (translateAll is).map (·.1) = ["Inner_noparam", "Top_noparam"] ∧
      (translateAll is).lookup b.1 = some a.2 := by
  refine ⟨[(uniqueName H "Inner" [], 1), (uniqueName H "Inner" [], 2), ("Top_noparam", 0)],
    (uniqueName H "Inner" [], 1), (uniqueName H "Inner" [], 2), by simp, by simp, rfl, by simp, ?_, ?_⟩
  · rw [uniqueName_noparam_inner]; decide
  · rw [uniqueName_noparam_inner]; decide

/-- Different parameter values with the same `str()` image: the int `1` and the string `"1"`. -/
theorem param_image_collision (H : String → String) :
    PVal.int 1 ≠ PVal.str "1" ∧ PVal.image H (.int 1) = PVal.image H (.str "1") := by
  constructor
  · intro h
    cases h
  · simp only [PVal.image]
    decide

/-- Same class, parameter `1` vs `"1"`: one module name, hence (by `alias_if_not_injective`) aliasing whenever the
two bodies differ. -/
theorem param_image_alias_witness (H : String → String) :
    uniqueName H "Inner" (images H [("p", .int 1)]) = uniqueName H "Inner" (images H [("p", .str "1")]) := by
  have : images H [("p", .int 1)] = images H [("p", .str "1")] := by
    simp only [images, List.map_cons, List.map_nil, (param_image_collision H).2]
  rw [this]

/-- A negative integer parameter yields a module name that is not an identifier (`Inner__p_-1`). -/
theorem illegal_name_witness (H : String → String) :
    uniqueName H "Inner" (images H [("p", .int (-1))]) = "Inner__p_-1" ∧ idShape "Inner__p_-1" = false := by
  have hi : images H [("p", .int (-1))] = [("p", "-1")] := by
    simp only [images, List.map_cons, List.map_nil, PVal.image]
    decide
  constructor
  · rw [hi, uniqueName_plain H "Inner" [("p", "-1")] (by decide)]
    decide
  · decide

/-! ## the repaired walk (`translateChecked`) -/

section repaired
variable {β : Type} [DecidableEq β]

/-- If the repaired walk succeeds, it built the same table as the present code and NO instance is aliased. -/
theorem checked_no_alias (is : List (String × β)) (t : Table β) (h : translateChecked is = .ok t) :
    t = translateAll is ∧ ∀ e ∈ is, t.lookup e.1 = some e.2 := by
  obtain ⟨h1, h2⟩ := checkedFrom_ok [] t is h
  exact ⟨h1, h2⟩

/-- If it fails, two instances really share the reported name and differ in body. -/
theorem checked_error_sound (is : List (String × β)) (n : String) (h : translateChecked is = .error n) :
    ∃ b b', (n, b) ∈ is ∧ (n, b') ∈ is ∧ b ≠ b' := by
  obtain ⟨b, b', h1, h2, h3⟩ := checkedFrom_error [] is n h
  exact ⟨b, b', by simpa using h1, by simpa using h2, h3⟩

/-- The repair is conservative: it succeeds (with the unchanged table) exactly on the designs whose names are
injective on bodies, i.e. exactly where the present code is already right. -/
theorem checked_ok_iff_injective (is : List (String × β)) :
    translateChecked is = .ok (translateAll is) ↔ (∀ a ∈ is, ∀ b ∈ is, a.1 = b.1 → a.2 = b.2) := by
  constructor
  · intro h
    exact (no_alias_iff_names_injective is).mp (checked_no_alias is _ h).2
  · intro hinj
    cases h : translateChecked is with
    | ok t => rw [(checked_no_alias is t h).1]
    | error n =>
      obtain ⟨b, b', h1, h2, h3⟩ := checked_error_sound is n h
      exact absurd (hinj (n, b) h1 (n, b') h2 rfl) h3

end repaired

/-! ## names -/

/-- **Same class, different parameter values never collide** (full name): for one class — hence the same ordered
parameter names — and values whose images contain no `__` and do not end in `_`. -/
theorem fullName_inj (cls : String) (ps ps' : List (String × String))
    (hk : ps.map (·.1) = ps'.map (·.1))
    (hv : ∀ kv ∈ ps, NoSep kv.2) (hv' : ∀ kv ∈ ps', NoSep kv.2)
    (h : fullName cls ps = fullName cls ps') : ps = ps' := by
  rw [fullName_eq, fullName_eq] at h
  have h2 := congrArg String.toList h
  simp only [String.toList_append, List.append_cancel_left_eq] at h2
  exact nameTail_inj ps ps' hk hv hv' (String.toList_inj.mp h2)

/-- The same through the length / "is the full name usable" test and the hashed form, whatever that test is, for
a hash without collisions whose digests contain no `_` (hexadecimal). -/
theorem uniqueNameWith_inj (ok : String → Bool) (H : String → String) (hH : ∀ s s', H s = H s' → s = s')
    (hhex : ∀ s, '_' ∉ (H s).toList)
    (cls : String) (ps ps' : List (String × String))
    (hk : ps.map (·.1) = ps'.map (·.1))
    (hv : ∀ kv ∈ ps, NoSep kv.2) (hv' : ∀ kv ∈ ps', NoSep kv.2)
    (h : uniqueNameWith ok H cls ps = uniqueNameWith ok H cls ps') : ps = ps' := by
  unfold uniqueNameWith at h
  simp only at h
  have strip : ∀ (x y : String), cls ++ x = cls ++ y → x = y := by
    intro x y e
    have := congrArg String.toList e
    simp only [String.toList_append, List.append_cancel_left_eq] at this
    exact String.toList_inj.mp this
  by_cases c1 : ((fullName cls ps).length < 64 && ok (fullName cls ps)) = true
  · by_cases c2 : ((fullName cls ps').length < 64 && ok (fullName cls ps')) = true
    · rw [if_pos c1, if_pos c2] at h
      exact fullName_inj cls ps ps' hk hv hv' h
    · rw [if_pos c1, if_neg c2] at h
      rw [fullName_eq, String.append_assoc] at h
      exact absurd (strip _ _ h) (nameTail_ne_hashed ps _ (hhex _))
  · by_cases c2 : ((fullName cls ps').length < 64 && ok (fullName cls ps')) = true
    · rw [if_neg c1, if_pos c2] at h
      rw [fullName_eq, String.append_assoc] at h
      exact absurd (strip _ _ h.symm) (nameTail_ne_hashed ps' _ (hhex _))
    · rw [if_neg c1, if_neg c2] at h
      rw [String.append_assoc, String.append_assoc] at h
      have h3 := strip _ _ h
      have h4 : H (nameTail ps) = H (nameTail ps') := by
        have := congrArg String.toList h3
        simp only [String.toList_append, List.append_cancel_left_eq] at this
        exact String.toList_inj.mp this
      exact nameTail_inj ps ps' hk hv hv' (hH _ _ h4)

/-- `get_component_unique_name` as it is: same class, different parameter values never collide -/
theorem uniqueName_inj (H : String → String) (hH : ∀ s s', H s = H s' → s = s')
    (hhex : ∀ s, '_' ∉ (H s).toList)
    (cls : String) (ps ps' : List (String × String))
    (hk : ps.map (·.1) = ps'.map (·.1))
    (hv : ∀ kv ∈ ps, NoSep kv.2) (hv' : ∀ kv ∈ ps', NoSep kv.2)
    (h : uniqueName H cls ps = uniqueName H cls ps') : ps = ps' :=
  uniqueNameWith_inj _ H hH hhex cls ps ps' hk hv hv' h

/-- … and the same for the repaired name function -/
theorem uniqueNameR_inj (H : String → String) (hH : ∀ s s', H s = H s' → s = s')
    (hhex : ∀ s, '_' ∉ (H s).toList)
    (cls : String) (ps ps' : List (String × String))
    (hk : ps.map (·.1) = ps'.map (·.1))
    (hv : ∀ kv ∈ ps, NoSep kv.2) (hv' : ∀ kv ∈ ps', NoSep kv.2)
    (h : uniqueNameR H cls ps = uniqueNameR H cls ps') : ps = ps' :=
  uniqueNameWith_inj _ H hH hhex cls ps ps' hk hv hv' h

theorem nameTail_idChars (ps : List (String × String))
    (hp : ∀ kv ∈ ps, (∀ c ∈ kv.1.toList, isIdChar c = true) ∧ (∀ c ∈ kv.2.toList, isIdChar c = true)) :
    ∀ c ∈ (nameTail ps).toList, isIdChar c = true := by
  have hs : ∀ (ps : List (String × String)),
      (∀ kv ∈ ps, (∀ c ∈ kv.1.toList, isIdChar c = true) ∧ (∀ c ∈ kv.2.toList, isIdChar c = true)) →
      ∀ c ∈ (suffix ps).toList, isIdChar c = true := by
    intro ps
    induction ps with
    | nil => intro _ c hc; simp [suffix] at hc
    | cons kv ps ih =>
      obtain ⟨k, v⟩ := kv
      intro hp c hc
      rw [suffix_cons_toList] at hc
      simp only [List.mem_cons, List.mem_append] at hc
      have hu : isIdChar '_' = true := by decide
      rcases hc with rfl | rfl | hc | rfl | hc | hc
      · exact hu
      · exact hu
      · exact (hp (k, v) (by simp)).1 c hc
      · exact hu
      · exact (hp (k, v) (by simp)).2 c hc
      · exact ih (fun kv hkv => hp kv (List.mem_cons_of_mem _ hkv)) c hc
  cases ps with
  | nil =>
    intro c hc
    have : (nameTail []).toList = ['_', 'n', 'o', 'p', 'a', 'r', 'a', 'm'] := by decide
    rw [this] at hc
    revert c
    decide
  | cons kv ps =>
    simp only [nameTail, List.isEmpty_cons, Bool.false_eq_true, if_false]
    exact hs _ hp

/-- When is the emitted module name an identifier: the class name is one, parameter names and value images consist
of identifier characters, and so do the digests. (`illegal_name_witness`: the condition on values is needed.) -/
theorem uniqueName_idShape (H : String → String) (hH : ∀ s, ∀ c ∈ (H s).toList, isIdChar c = true)
    (cls : String) (ps : List (String × String)) (hc : idShape cls = true)
    (hp : ∀ kv ∈ ps, (∀ c ∈ kv.1.toList, isIdChar c = true) ∧ (∀ c ∈ kv.2.toList, isIdChar c = true)) :
    idShape (uniqueName H cls ps) = true := by
  have ext : ∀ (r : String), (∀ c ∈ r.toList, isIdChar c = true) → idShape (cls ++ r) = true := by
    intro r hr
    unfold idShape at hc ⊢
    rw [String.toList_append]
    cases hl : cls.toList with
    | nil => rw [hl] at hc; simp at hc
    | cons c cs =>
      rw [hl] at hc
      simp only [Bool.and_eq_true, List.all_eq_true] at hc
      simp only [List.cons_append, Bool.and_eq_true, List.all_eq_true, List.mem_append]
      exact ⟨hc.1, fun x hx => hx.elim (hc.2 x) (hr x)⟩
  unfold uniqueName uniqueNameWith
  simp only
  split
  · rw [fullName_eq]; exact ext _ (nameTail_idChars ps hp)
  · rw [String.append_assoc]
    apply ext
    intro c hc'
    rw [String.toList_append] at hc'
    simp only [List.mem_append] at hc'
    rcases hc' with hc' | hc'
    · have : "__".toList = ['_', '_'] := by decide
      rw [this] at hc'
      simp only [List.mem_cons, List.not_mem_nil, or_false] at hc'
      rcases hc' with rfl | rfl <;> decide
    · exact hH _ c hc'

/-- The repaired name function emits an identifier for EVERY parameter list (class name an identifier, digests
made of identifier characters): no condition on the values is left. -/
theorem uniqueNameR_idShape (H : String → String) (hH : ∀ s, ∀ c ∈ (H s).toList, isIdChar c = true)
    (cls : String) (ps : List (String × String)) (hc : idShape cls = true) :
    idShape (uniqueNameR H cls ps) = true := by
  unfold uniqueNameR uniqueNameWith
  simp only
  split
  · next h =>
    simp only [Bool.and_eq_true] at h
    exact h.2
  · unfold idShape at hc ⊢
    rw [String.append_assoc, String.toList_append]
    cases hl : cls.toList with
    | nil => rw [hl] at hc; simp at hc
    | cons c cs =>
      rw [hl] at hc
      simp only [Bool.and_eq_true, List.all_eq_true] at hc
      simp only [List.cons_append, Bool.and_eq_true, List.all_eq_true, List.mem_append, String.toList_append]
      refine ⟨hc.1, fun x hx => ?_⟩
      rcases hx with hx | hx | hx
      · exact hc.2 x hx
      · have : "__".toList = ['_', '_'] := by decide
        rw [this] at hx
        simp only [List.mem_cons, List.not_mem_nil, or_false] at hx
        rcases hx with rfl | rfl <;> decide
      · exact hH _ x hx

theorem hasSpecial_not_idShape (f : String) (h : hasSpecial f = true) : idShape f = false := by
  unfold hasSpecial at h
  unfold idShape
  have key : ∀ c, specialChars.contains c = true → isIdStart c = false ∧ isIdChar c = false := by
    intro c hc
    have hm := List.contains_iff_mem.mp hc
    simp only [specialChars, List.mem_cons, List.not_mem_nil, or_false] at hm
    rcases hm with rfl | rfl | rfl | rfl | rfl | rfl <;> decide
  cases hl : f.toList with
  | nil => rfl
  | cons c cs =>
    rw [hl] at h
    simp only [List.any_cons, Bool.or_eq_true, List.any_eq_true] at h
    rcases h with h | ⟨x, hx, hx2⟩
    · simp [(key c h).1]
    · have : cs.all isIdChar = false := by
        rw [List.all_eq_false]
        exact ⟨x, hx, by simp [(key x hx2).2]⟩
      simp [this]

/-- The repair changes no name that was an identifier already. -/
theorem uniqueNameR_conservative (H : String → String) (cls : String) (ps : List (String × String))
    (h : idShape (uniqueName H cls ps) = true) :
    uniqueNameR H cls ps = uniqueName H cls ps := by
  unfold uniqueNameR uniqueName uniqueNameWith at *
  simp only at *
  by_cases c1 : ((fullName cls ps).length < 64 && !hasSpecial (fullName cls ps)) = true
  · rw [if_pos c1] at h ⊢
    simp only [Bool.and_eq_true] at c1
    rw [if_pos (by simp [c1.1, h])]
  · rw [if_neg c1]
    by_cases c2 : ((fullName cls ps).length < 64 && idShape (fullName cls ps)) = true
    · exfalso
      simp only [Bool.and_eq_true] at c2
      apply c1
      simp only [Bool.and_eq_true, c2.1, true_and, Bool.not_eq_true']
      cases hs : hasSpecial (fullName cls ps) with
      | false => rfl
      | true => rw [hasSpecial_not_idShape _ hs] at c2; exact absurd c2.2 (by simp)
    · rw [if_neg c2]

/-! ## determinism of the model's orders -/

/-- The order in which `translate_component` reaches the instances — hence which body wins and the order of the
emitted modules — does not depend on the order in which the children are enumerated (they come out of a Python
`set`): any permutation of the children, each with an unchanged walk, gives the same walk, when their `repr`s are
distinct. -/
theorem post_perm_invariant {β : Type} (r n : String) (b : β) (cs cs' : List (Tree β))
    (hp : (postKids cs).Perm (postKids cs'))
    (hd : ∀ x ∈ postKids cs, ∀ y ∈ postKids cs, x.1 = y.1 → x = y) :
    (Tree.node r n b cs).post = (Tree.node r n b cs').post := by
  simp only [Tree.post]
  rw [sortByKey_perm_eq (fun kv => kv.1) _ _ hp hd]

theorem postKids_eq_map {β : Type} (cs : List (Tree β)) : postKids cs = cs.map (fun c => (c.repr, c.post)) := by
  induction cs with
  | nil => simp [postKids]
  | cons c cs ih => simp [postKids, ih]

/-- in particular: permuting the children themselves -/
theorem post_children_perm {β : Type} (r n : String) (b : β) (cs cs' : List (Tree β)) (hp : cs.Perm cs')
    (hd : ∀ x ∈ cs, ∀ y ∈ cs, x.repr = y.repr → x = y) :
    (Tree.node r n b cs).post = (Tree.node r n b cs').post := by
  apply post_perm_invariant
  · rw [postKids_eq_map, postKids_eq_map]; exact hp.map _
  · intro x hx y hy hxy
    rw [postKids_eq_map] at hx hy
    simp only [List.mem_map] at hx hy
    obtain ⟨cx, hcx, rfl⟩ := hx
    obtain ⟨cy, hcy, rfl⟩ := hy
    have := hd cx hcx cy hcy hxy
    rw [this]

/-- port order of a module does not depend on the enumeration order of ports and interfaces -/
theorem portOrder_perm_invariant (ports ports' : List String) (ifcs ifcs' : List Ifc)
    (hp : ports.Perm ports') (hi : (flatKids ifcs).Perm (flatKids ifcs'))
    (hd : ∀ x ∈ flatKids ifcs, ∀ y ∈ flatKids ifcs, x.1 = y.1 → x = y) :
    portOrder ports ifcs = portOrder ports' ifcs' := by
  unfold portOrder
  rw [sortByKey_perm_eq id _ _ hp (fun a _ b _ h => h), sortByKey_perm_eq (fun kv => kv.1) _ _ hi hd]

/-- block order of a module does not depend on the enumeration order of the update blocks -/
theorem blockOrder_perm_invariant (comb comb' seq seq' : List String)
    (hc : comb.Perm comb') (hs : seq.Perm seq') : blockOrder comb seq = blockOrder comb' seq' := by
  unfold blockOrder
  rw [sortByKey_perm_eq id _ _ hc (fun a _ b _ h => h), sortByKey_perm_eq id _ _ hs (fun a _ b _ h => h)]

/-! ## non-vacuity -/

/-- a table the checker accepts … -/
example : wfModules ⟨["S__a_4"], [⟨"Inner_noparam", ["clk", "in_", "out", "up"], []⟩,
    ⟨"Top_noparam", ["clk", "a", "a__clk"], [("Inner_noparam", "a")]⟩]⟩ = true := by decide
/-- … and ones it rejects: a module defined twice, an undefined instantiated module, a reserved word, a duplicate -/
example : wfModules ⟨[], [⟨"A", [], []⟩, ⟨"A", [], []⟩]⟩ = false := by decide
example : wfModules ⟨[], [⟨"T", ["a"], [("Missing", "a")]⟩]⟩ = false := by decide
example : wfModules ⟨[], [⟨"T", ["logic"], []⟩]⟩ = false := by decide
example : wfModules ⟨[], [⟨"T", ["x", "x"], []⟩]⟩ = false := by decide
example : wfModules ⟨[], [⟨"Inner__p_-1", [], []⟩]⟩ = false := by decide
/-- the hypotheses of `fullName_inj` are satisfiable, and needed: with a separator inside a value two different
parameter lists collide -/
example : NoSep "Bits32" := by
  constructor
  · intro p q h
    have : "Bits32".toList = ['B', 'i', 't', 's', '3', '2'] := by decide
    rw [this] at h
    have hm : '_' ∈ p ++ '_' :: '_' :: q := by simp
    rw [← h] at hm
    revert hm; decide
  · intro p h
    have : "Bits32".toList = ['B', 'i', 't', 's', '3', '2'] := by decide
    rw [this] at h
    have hm : '_' ∈ p ++ ['_'] := by simp
    rw [← h] at hm
    revert hm; decide
example : fullName "C" [("a", "1__b_2"), ("b", "3")] = fullName "C" [("a", "1"), ("b", "2__b_3")] := by decide
/-- first-wins on a walk with a repeated name; the repaired walk refuses it, and accepts equal bodies -/
example : translateAll [("A", 1), ("A", 2), ("T", 0)] = [("A", 1), ("T", 0)] := by decide
example : translateChecked [("A", 1), ("A", 2), ("T", 0)] = .error "A" := by rfl
example : translateChecked [("A", 1), ("A", 1), ("T", 0)] = .ok [("A", 1), ("T", 0)] := by rfl
/-- children are visited in `repr` order (`s.x[10]` before `s.x[2]`), whatever order they are given in -/
example : (Tree.node "s" "T" 0 [.node "s.x[2]" "B" 2 [], .node "s.x[10]" "A" 1 []]).post = [("A", 1), ("B", 2), ("T", 0)] := by
  decide

end PV.C13
