/-! # C13 — property theorems (stub: not built yet) -/
namespace PV.C13
end PV.C13
