/-! # C07 — property theorems (stub: not built yet) -/
namespace PV.C07
end PV.C07
