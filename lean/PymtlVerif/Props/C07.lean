import PymtlVerif.Proofs.Rtl
/-!
# C07 — flip-flop updates are atomic at the clock edge

Model: `Model/Rtl.lean` (`Asg.runFF`, `Blk.runFF`, `runFFs`, `flip`, `tick`). An `update_ff` block evaluates its
right-hand sides on the *current* values and writes only the `_next` shadow; the flip installs the shadow of
exactly the registers. The theorems hold for every number of blocks, every permutation, every state.
-/
namespace PV.C07
open PV.Rtl PV.Sched

/-! ## helper facts about `runFF` (kept here because they are specific to this property) -/

theorem foldl_runFF_frame (as : List Asg) (cur nx : St) (v : Var) (h : ∀ a ∈ as, ¬ a.tgt.has v) :
    (as.foldl (fun nx a => a.runFF cur nx) nx) v = nx v := by
  induction as generalizing nx with
  | nil => rfl
  | cons a as ih =>
    simp only [List.foldl_cons]
    rw [ih _ (fun b hb => h b (List.mem_cons_of_mem _ hb))]
    simp [Asg.runFF, h a List.mem_cons_self]

theorem foldl_runFF_dep (as : List Asg) (cur nx nx' : St) (X : Var → Prop) (hX : ∀ v, X v → nx v = nx' v) :
    ∀ v, (X v ∨ ∃ a ∈ as, a.tgt.has v) →
      (as.foldl (fun nx a => a.runFF cur nx) nx) v = (as.foldl (fun nx a => a.runFF cur nx) nx') v := by
  induction as generalizing X nx nx' with
  | nil =>
    intro v hv
    rcases hv with hv | ⟨a, ha, _⟩
    · exact hX v hv
    · cases ha
  | cons a as ih =>
    intro v hv
    simp only [List.foldl_cons]
    apply ih (a.runFF cur nx) (a.runFF cur nx') (fun u => X u ∨ a.tgt.has u)
    · intro u hu
      by_cases ht : a.tgt.has u
      · simp [Asg.runFF, ht]
      · simp only [Asg.runFF, ht, ↓reduceIte]
        rcases hu with hu | hu
        · exact hX u hu
        · exact absurd hu ht
    · rcases hv with hv | ⟨c, hc, hcv⟩
      · exact Or.inl (Or.inl hv)
      · rcases List.mem_cons.mp hc with rfl | hc
        · exact Or.inl (Or.inr hcv)
        · exact Or.inr ⟨c, hc, hcv⟩

/-- an ff block, for fixed pre-edge values `cur`, as an abstract block on the shadow buffer:
it reads nothing of the shadow and writes its targets -/
def denoteFF (cur : St) (b : Blk) : Sched.Blk Var Bool :=
  { R := fun _ => False, W := inRngs b.writes, run := b.runFF cur }

theorem denoteFF_wf (cur : St) (b : Blk) : (denoteFF cur b).Wf := by
  refine ⟨?_, ?_, ?_⟩
  · intro nx v hv
    apply foldl_runFF_frame
    intro a ha hav
    exact hv ⟨a.tgt, by simp [Blk.writes]; exact ⟨a, ha, rfl⟩, hav⟩
  · intro nx nx' _ v ⟨r, hr, hv⟩
    apply foldl_runFF_dep b.asgs cur nx nx' (fun _ => False) (fun _ h => h.elim)
    simp only [Blk.writes, List.mem_map] at hr
    obtain ⟨a, ha, rfl⟩ := hr
    exact Or.inr ⟨a, ha, hv⟩
  · intro v h; exact h.elim

theorem runFFs_eq (ffs : List Blk) (cur nx : St) :
    runFFs ffs cur nx = runList (ffs.map (denoteFF cur)) nx := by
  unfold runFFs runList
  induction ffs generalizing nx with
  | nil => rfl
  | cons b bs ih => simp only [List.foldl_cons, List.map_cons]; exact ih _

/-! ## the property theorems -/

/-- every order of the update_ff blocks produces the same shadow buffer (single writer per register) -/
theorem ff_perm (p1 p2 : List Blk) (h : p1.Perm p2) (hsw : singleWriterB p1 = true) (cur nx : St) :
    runFFs p1 cur nx = runFFs p2 cur nx := by
  rw [runFFs_eq, runFFs_eq]
  apply perm_commute _ _ (h.map _)
  · intro b hb
    obtain ⟨c, _, rfl⟩ := List.mem_map.mp hb
    exact denoteFF_wf cur c
  · have := singleWriterB_sound p1 hsw
    unfold SingleWriter at this ⊢
    rw [List.pairwise_map] at this ⊢
    exact this
  · intro a ha b _ v hr
    obtain ⟨c, _, rfl⟩ := List.mem_map.mp ha
    exact hr.elim

/-- nothing an ff block assigns is visible before the flip: the ff phase leaves every current value
untouched, so every block — whatever its position — evaluates on the pre-edge values -/
theorem ff_reads_pre_edge (comb ffs : List Blk) (st : FState) :
    let st1 := evalComb comb st
    ({ st1 with next := runFFs ffs st1.cur st1.next } : FState).cur = st1.cur := rfl

/-- a register no executed assignment targets keeps its shadow (= its value, by `next_eq_cur`) -/
theorem hold (b : Blk) (cur nx : St) (v : Var) (h : ¬ inRngs b.writes v) : b.runFF cur nx v = nx v := by
  apply foldl_runFF_frame
  intro a ha hav
  exact h ⟨a.tgt, by simp [Blk.writes]; exact ⟨a, ha, rfl⟩, hav⟩

/-- the committed value is that of the last assignment executed in the block, evaluated on pre-edge values -/
theorem last_wins (pre post : List Asg) (a : Asg) (id : Nat) (cur nx : St) (v : Var)
    (hv : a.tgt.has v) (hpost : ∀ c ∈ post, ¬ c.tgt.has v) :
    (Blk.mk id (pre ++ a :: post)).runFF cur nx v = (a.e.eval cur).testBit (v.2 - a.tgt.lo) := by
  unfold Blk.runFF
  simp only [List.foldl_append, List.foldl_cons]
  rw [foldl_runFF_frame post cur _ v hpost]
  simp [Asg.runFF, hv]

/-- all bits of all registers change in the same step: after the flip a register bit holds its shadow,
every other bit is unchanged (struct-typed registers are ranges of one signal: their leaves flip together) -/
theorem edge (ffs : List Blk) (st : FState) (v : Var) :
    (Rtl.flip ffs st).cur v = if isReg ffs v.1 then st.next v else st.cur v := rfl

/-- invariant at every cycle boundary: the shadow of a register equals its value (so "not assigned" means
"holds"); it is established by `value <<= value` at lock-in and preserved by every tick in which the comb
blocks do not write registers -/
theorem next_eq_cur (comb ffs : List Blk) (st : FState)
    (hcomb : ∀ b ∈ comb, ∀ v, inRngs b.writes v → isReg ffs v.1 = false) :
    ∀ v, isReg ffs v.1 = true → (tick comb ffs st).next v = (tick comb ffs st).cur v := by
  intro v hv
  unfold tick evalComb
  simp only
  have hfr : ∀ (s : St), runBlocks comb s v = s v := by
    intro s
    unfold runBlocks
    induction comb generalizing s with
    | nil => rfl
    | cons b bs ih =>
      simp only [List.foldl_cons]
      rw [ih (fun c hc => hcomb c (List.mem_cons_of_mem _ hc))]
      apply Blk.run_frame
      intro hw
      have := hcomb b List.mem_cons_self v hw
      rw [hv] at this; cases this
  rw [hfr]
  simp [Rtl.flip, hv]

/-- the whole tick does not depend on the order of the ff blocks -/
theorem tick_ff_perm (comb p1 p2 : List Blk) (h : p1.Perm p2) (hsw : singleWriterB p1 = true) (st : FState) :
    tick comb p1 st = tick comb p2 st := by
  have hreg : isReg p1 = isReg p2 := by
    funext g
    unfold isReg
    rw [Bool.eq_iff_iff, List.any_eq_true, List.any_eq_true]
    constructor
    · intro ⟨b, hb, hx⟩; exact ⟨b, h.mem_iff.mp hb, hx⟩
    · intro ⟨b, hb, hx⟩; exact ⟨b, h.mem_iff.mpr hb, hx⟩
  unfold tick Rtl.flip
  simp only [ff_perm p1 p2 h hsw, hreg]

/-! ## non-vacuity: two blocks reading each other's register (a swap) -/
def swapA : Blk := ⟨0, [⟨⟨0, 0, 4⟩, .rd ⟨1, 0, 4⟩⟩]⟩     -- r0 <<= r1
def swapB : Blk := ⟨1, [⟨⟨1, 0, 4⟩, .rd ⟨0, 0, 4⟩⟩]⟩     -- r1 <<= r0
example : singleWriterB [swapA, swapB] = true := by decide
example : [swapA, swapB].Perm [swapB, swapA] := List.Perm.swap _ _ _

end PV.C07
