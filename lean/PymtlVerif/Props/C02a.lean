import PymtlVerif.Proofs.AstRW
/-!
# C02a — the read / write / call sets extracted from the source of an update block cover what the block does

Theorems about `Model/AstRW.lean` (`AstHelper.DetectReadsWritesCalls`, `extract_reads_writes_calls`,
`ComponentLevel2.extract_obj_from_names`) against the semantics of `Proofs/AstRW.lean`:

* `Exec ρ ns tr` — executing the statements `ns` can produce the trace of accesses `tr` (read / assign / call of a concrete
  object path, every index with its run-time value); every branch outcome, loop count, `else` clause and early exit is an
  execution; an index has any value unless it is a literal or a name that is constant during the execution (`ρ`);
  `acc ρ n e` — some execution of `n` performs the access `e` (`exec_acc`: every access of every trace is one);
* `Matches σ nm p` — the recorded name `nm` matches the concrete path `p` step by step (`"*"` matches every index or slice,
  a literal itself, `(is_closure, x)` the value `σ` that `extract_obj_from_names` will look up, `slice(lo, up)` the same
  bounds); `Recorded σ evs e` — some record of `evs` of the kind of `e` matches the path of `e`;
* `Agree env σ ρ` — every name the visitor resolves statically (`x in self.closure`, `x in self.globals` after the
  block-local names were removed) is constant during the execution and has the value the lookup uses;
* `resolve v p` — the object the path reaches in the elaborated component; `lookName` — the objects the real lookup puts
  into the set for a name.

Statements:

* `complete_partial` — for every function body: every object path read, assigned or called by ANY execution of any
  statement of the body is matched by a recorded read, write resp. call; `complete_fn` — the same for a function with
  parameters; `exec_complete` — the same for the traces of `Exec`.  `supported` only excludes shapes the visitor itself
  rejects (a slice that is not the last subscript, a slice of a slice); that a successful extraction implies it is not
  proved, so it stays a hypothesis (hence `_partial`).  `Agree` is a hypothesis about the names, not about the visitor: the
  examples `innerCompare` and `paramIndex` show the two former gaps of the visitor closed.
* `objects_covered` — down to objects: when the path of such an access resolves in the component, the real lookup of the
  matching record yields, for every NamedObject reached, that object or one it is a part / an element of.
* `sound` — every record is the name, as written in the source, of an attribute / subscript node that occurs in the body in
  load (read) resp. store (write) context, or of the callee of a call node (call).
* `for_else_visited`, `if_elif_else_visited`, `children_visited` — the records of a `for` are those of its target, iterable,
  body AND `else` clause; of an `if` those of the test, the body and the `else` / `elif` part; every child of every other
  compound node is visited.
* `env_congr`, `enter_idem`, `enter_comm`, `body_append` — the result depends on `self.closure` / `self.globals` as sets only;
  entering a statement twice, or two statements in either order, leaves the same module-level names; the records of a
  body are the records of its parts in order, the second part under the names left by the first.
-/
namespace PV.C02a
open PV.AstRW

/-! ### completeness -/

/-- FULL STATEMENT: the same without `hsup` (a body the visitor accepts is `supported`; not proved). -/
theorem complete_partial {σ : Valuation} {ρ : REnv} {env : Env} {body : List Node} {evs : List Ev}
    (hsup : supportedBody body = true) (hA : AgreeBody σ ρ env body) (h : extractBody env body = .ok evs)
    {e : Access} (he : accList ρ body e) :
    ∃ r, r ∈ evs ∧ r.kind = e.kind ∧ Matches σ r.name e.path :=
  body_complete body hA hsup h e he

/-- a function with parameters: the parameter names are not module-level names -/
theorem complete_fn {σ : Valuation} {ρ : REnv} {env : Env} {params : List String} {body : List Node} {evs : List Ev}
    (hsup : supportedBody body = true)
    (hA : AgreeBody σ ρ { env with globals := env.globals.filter (fun g => !params.contains g) } body)
    (h : extractFn env params body = .ok evs) {e : Access} (he : accList ρ body e) :
    ∃ r, r ∈ evs ∧ r.kind = e.kind ∧ Matches σ r.name e.path :=
  body_complete body hA hsup h e he

/-- the same for executions: every access of every trace of the body -/
theorem exec_complete {σ : Valuation} {ρ : REnv} {env : Env} {body : List Node} {evs : List Ev} {tr : List Access}
    (hsup : supportedBody body = true) (hA : AgreeBody σ ρ env body) (h : extractBody env body = .ok evs)
    (hx : Exec ρ body tr) {e : Access} (he : e ∈ tr) :
    ∃ r, r ∈ evs ∧ r.kind = e.kind ∧ Matches σ r.name e.path :=
  complete_partial hsup hA h (exec_acc hx e he)

/-- the trace semantics is contained in the access semantics the completeness theorems are stated for -/
theorem exec_accesses {ρ : REnv} {ns : List Node} {tr : List Access} (h : Exec ρ ns tr) {e : Access} (he : e ∈ tr) :
    accList ρ ns e :=
  exec_acc h e he

/-- the hypothesis on the names holds for every statement when it holds for the names the visitor starts with -/
theorem agree_body {σ : Valuation} {ρ : REnv} {env : Env} (h : Agree env σ ρ) (body : List Node) : AgreeBody σ ρ env body :=
  h.body body

/-- down to objects: the block runs on the component `root`; an access of an execution whose path `s.<p>` resolves to `v` is
matched by a record whose lookup (`extract_obj_from_names`) contains, for every NamedObject `u` of `v` (`v` itself, or its
elements when it is a list), an object from which `u` is reached by a path: `u` itself or an object `u` is a part of -/
theorem objects_covered {σ : Valuation} {ρ : REnv} {env : Env} {body : List Node} {evs : List Ev}
    (hsup : supportedBody body = true) (hA : AgreeBody σ ρ env body) (h : extractBody env body = .ok evs)
    {e : Access} (he : accList ρ body e) {p : List CStep} (hp : e.path = .fld "s" :: p) (hsl : sliceLast p = true)
    {id : Nat} {fs : List (String × Obj)} {funcs : List String} {v : Val} (hr : resolve (.obj (.named id fs)) p = some v) :
    ∃ r, r ∈ evs ∧ r.kind = e.kind ∧ ∀ ws, lookName σ (.named id fs) funcs r.name = .ok ws →
      ∀ u, u ∈ lookEnd v → ∃ w, w ∈ ws ∧ ∃ q, resolve w q = some u := by
  obtain ⟨r, hr1, hr2, hm⟩ := complete_partial hsup hA h he
  rw [hp] at hm
  exact ⟨r, hr1, hr2, fun ws hl => lookName_covers hm hsl hr hl⟩

/-! ### soundness -/

/-- every record comes from a node of the body: an attribute / subscript whose name (as `_get_full_name` writes it down,
under the names visible at its statement: the closure names and a subset of the module-level names) is the recorded one,
in load context for a read and store context for a write, or the callee of a call -/
theorem sound {env : Env} {body : List Node} {evs : List Ev} (h : extractBody env body = .ok evs) {ev : Ev} (hev : ev ∈ evs) :
    ∃ s env', s ∈ body ∧ (∀ x, x ∈ env'.closure ↔ x ∈ env.closure) ∧ (∀ x, x ∈ env'.globals → x ∈ env.globals) ∧
      ((∃ m, m ∈ subs s ∧ topName env' m = some ev.name ∧
          ((ev.kind = .rd ∧ ctxOf m = some .load) ∨ (ev.kind = .wr ∧ ctxOf m = some .store))) ∨
       (ev.kind = .fc ∧ ∃ f args kws, Node.call f args kws ∈ subs s ∧ topName env' f = some ev.name)) :=
  body_sound body h ev hev

/-! ### every part is visited -/

/-- the records of a `for` statement are those of the target, the iterable, every statement of the body and every statement
of the `else` clause -/
theorem for_else_visited {env : Env} {op : Op} {t it : Node} {body orelse : List Node} {evs : List Ev} :
    visit env op (.for_ t it body orelse) = .ok evs ↔
      ∃ a b c d, visit env .for_ t = .ok a ∧ visit env .none it = .ok b ∧ visitList env .none body = .ok c ∧
        visitList env .none orelse = .ok d ∧ evs = a ++ b ++ c ++ d :=
  visit_for_iff

/-- the records of an `if` are those of the test, the body and the `else` part (an `elif` is an `if` in the `else` part) -/
theorem if_elif_else_visited {env : Env} {op : Op} {t : Node} {body orelse : List Node} {evs : List Ev} :
    visit env op (.node .ifS [t, .node .block body, .node .block orelse]) = .ok evs ↔
      ∃ a c d, visit env op t = .ok a ∧ visitList env op body = .ok c ∧ visitList env op orelse = .ok d ∧
        evs = a ++ c ++ d :=
  visit_if_iff

/-- every child of a node without a visitor method of its own is visited, and its records are kept -/
theorem children_visited {env : Env} {op : Op} {k : Kind} {cs : List Node} {evs : List Ev}
    (h : visit env op (.node k cs) = .ok evs) {c : Node} (hc : c ∈ cs) :
    ∃ e, visit env op c = .ok e ∧ ∀ x, x ∈ e → x ∈ evs := by
  simp only [visit] at h
  exact visitList_mem h c hc

/-! ### determinism -/

/-- `self.closure` and `self.globals` are sets: only membership matters -/
theorem env_congr {e1 e2 : Env} (hc : ∀ x, x ∈ e1.closure ↔ x ∈ e2.closure) (hg : ∀ x, x ∈ e1.globals ↔ x ∈ e2.globals)
    (body : List Node) : extractBody e1 body = extractBody e2 body :=
  extractBody_congr body ⟨hc, hg⟩

theorem enter_idem (env : Env) (s : Node) : enterEnv (enterEnv env s) s = enterEnv env s := enterEnv_idem env s

theorem enter_comm (env : Env) (a b : Node) : enterEnv (enterEnv env a) b = enterEnv (enterEnv env b) a :=
  enterEnv_comm env a b

theorem body_append (a b : List Node) (env : Env) :
    extractBody env (a ++ b) = (do
      let x ← extractBody env a
      let y ← extractBody (enterAll env a) b
      pure (x ++ y)) :=
  extractBody_append a b env

/-! ### non-vacuity and counter-examples -/

def S : Node := .name "s" .load
def sig (a : String) : Node := .attr S a .load
def wsig (a : String) : Node := .attr S a .store
def matmul (t v : Node) : Node := .aug t "MatMult" v
/-- no closure or module-level name is an integer constant -/
def σ0 : Valuation := fun _ _ => none
def ρ0 : REnv := fun _ => none
def env0 : Env := ⟨[], []⟩

theorem agree0 : Agree env0 σ0 ρ0 := by intro x; simp [env0]

/-- `s.o @= s.v[ s.sel + 1 ].a`, then `for x in s.v: x else: s.q[ 0 : 4 ] @= s.c` -/
def demo : List Node :=
  [matmul (wsig "o") (.attr (.sub (sig "v") (.node .binOp [sig "sel", .num 1]) .load) "a" .load),
   .for_ (.name "x" .store) (sig "v") [.node .exprS [.name "x" .load]]
     [matmul (.sub (sig "q") (.slice (.num 0) (.num 4) .nil) .store) (sig "c")]]

def demoRecords : List Ev :=
  [⟨.wr, [.fld "s", .fld "o"], .aug "MatMult"⟩, ⟨.rd, [.fld "s", .fld "sel"], .none⟩,
   ⟨.rd, [.fld "s", .fld "v", .sel .star, .fld "a"], .none⟩, ⟨.rd, [.fld "s", .fld "v"], .none⟩,
   ⟨.wr, [.fld "s", .fld "q", .sel (.slice (.num 0) (.num 4))], .aug "MatMult"⟩, ⟨.rd, [.fld "s", .fld "c"], .none⟩]

example : supportedBody demo = true := by decide
example : extractBody env0 demo = .ok demoRecords := by rfl
/-- an execution reads `s.v[3].a`, one writes `s.q[0:4]` in the `else` clause -/
example : accList ρ0 demo ⟨.rd, [.fld "s", .fld "v", .sel (.idx 3), .fld "a"]⟩ := by
  simp [demo, matmul, accList, acc, accIdx, sig, wsig, S, rooted, cpath, accKind, idxVal]
  exact ⟨_, ⟨3, rfl⟩, rfl⟩
example : accList ρ0 demo ⟨.wr, [.fld "s", .fld "q", .sel (.slc (some 0) (some 4))]⟩ := by
  simp [demo, matmul, accList, acc, accIdx, sig, wsig, S, rooted, cpath, accKind, bndVal]
example : Recorded σ0 demoRecords ⟨.rd, [.fld "s", .fld "v", .sel (.idx 3), .fld "a"]⟩ := by
  rw [← recordedB_iff]; decide

/-- an execution of the second statement as a trace: the iterable is read, the loop runs twice, then the `else` clause -/
example : Exec ρ0 [.for_ (.name "x" .store) (sig "v") [.node .exprS [.name "x" .load]]
      [matmul (.sub (sig "q") (.slice (.num 0) (.num 4) .nil) .store) (sig "c")]]
    [⟨.rd, [.fld "s", .fld "v"]⟩, ⟨.rd, [.fld "s", .fld "c"]⟩,
     ⟨.wr, [.fld "s", .fld "q", .sel (.slc (some 0) (some 4))]⟩] := by
  have hit : Exec ρ0 [sig "v"] [⟨.rd, [.fld "s", .fld "v"]⟩] :=
    Exec.attrR (v := S) (ti := []) (tr := []) (by simp [S, rooted]) (by simp [S, idxNodes]; exact .nil)
      (by simp [S, cpath]) .nil
  have hbody : Exec ρ0 [.name "x" .store, .node .exprS [.name "x" .load]] [] := .stop
  have hc : Exec ρ0 [sig "c"] [⟨.rd, [.fld "s", .fld "c"]⟩] :=
    Exec.attrR (v := S) (ti := []) (tr := []) (by simp [S, rooted]) (by simp [S, idxNodes]; exact .nil)
      (by simp [S, cpath]) .nil
  have hq : Exec ρ0 [.sub (sig "q") (.slice (.num 0) (.num 4) .nil) .store]
      [⟨.wr, [.fld "s", .fld "q", .sel (.slc (some 0) (some 4))]⟩] :=
    Exec.subR (ti := []) (tr := []) (by simp [sig, S, rooted]) (by simp [sig, S, idxNodes]; exact .stop)
      (by simp [sig, S, cpath, bndVal]) .nil
  have helse : Exec ρ0 [matmul (.sub (sig "q") (.slice (.num 0) (.num 4) .nil) .store) (sig "c")]
      [⟨.rd, [.fld "s", .fld "c"]⟩, ⟨.wr, [.fld "s", .fld "q", .sel (.slc (some 0) (some 4))]⟩] :=
    Exec.aug (tr := []) hc hq .nil
  exact Exec.forStart hit (Exec.forIter hbody (Exec.forIter hbody (Exec.forElse (tr := []) helse .nil)))

/-- objects: on a component with a list `v` of two struct signals, the record `s.v[*].a` is looked up as both `a` fields;
the path `s.v[1].a` an execution reads reaches the second -/
def root : Obj := .named 0 [("v", .lst [.sig 1 true 0 [("a", .sig 2 false 8 [])], .sig 3 true 0 [("a", .sig 4 false 8 [])]])]
example : lookName σ0 root [] [.fld "s", .fld "v", .sel .star, .fld "a"] = .ok [.obj (.sig 2 false 8 []), .obj (.sig 4 false 8 [])] := by
  simp [root, lookName, look, lookAll, getattr, assoc?, children, Val.isNone, Val.isNamed, isSel, lookEnd, flattenObj,
    List.dropWhile, bind, Except.bind, pure, Except.pure]
example : resolve (.obj root) [.fld "v", .sel (.idx 1), .fld "a"] = some (.obj (.sig 4 false 8 [])) := by rfl

/-- `s.o @= s.ps[ s.sel == 1 ].a`: every index expression that is followed by a field is visited, also a comparison -/
def innerCompare : List Node :=
  [matmul (wsig "o") (.attr (.sub (sig "ps") (.node .compare [sig "sel", .num 1]) .load) "a" .load)]
example : supportedBody innerCompare = true := by decide
example : extractBody env0 innerCompare = .ok
    [⟨.wr, [.fld "s", .fld "o"], .aug "MatMult"⟩, ⟨.rd, [.fld "s", .fld "sel"], .none⟩,
     ⟨.rd, [.fld "s", .fld "ps", .sel .star, .fld "a"], .none⟩] := by rfl

/-- `s.o @= s.ps[ hsel( k=s.c ) ].a`: a call used as an index that is followed by a field is visited as a call — the
helper is recorded as called, its arguments and keyword arguments as read -/
def innerCall : List Node :=
  [matmul (wsig "o") (.attr (.sub (sig "ps") (.call (.name "hsel" .load) [] [sig "c"]) .load) "a" .load)]
example : supportedBody innerCall = true := by decide
example : extractBody env0 innerCall = .ok
    [⟨.wr, [.fld "s", .fld "o"], .aug "MatMult"⟩, ⟨.fc, [.fld "hsel"], .none⟩, ⟨.rd, [.fld "s", .fld "c"], .none⟩,
     ⟨.rd, [.fld "s", .fld "ps", .sel .star, .fld "a"], .none⟩] := by rfl

/-- `s.o @= s.a[ s.lo : s.lo + 4 ][ 0 : 2 ]`: a slice of a slice is rejected (`assert len(slices) == 1`); a single slice
with a bound that is not constant is recorded as `s.a[*]`, which matches every part of the signal -/
def sliceSlice : List Node :=
  [matmul (wsig "o") (.sub (.sub (sig "a") (.slice (sig "lo") (.node .binOp [sig "lo", .num 4]) .nil) .load)
     (.slice (.num 0) (.num 2) .nil) .load)]
example : extractBody env0 sliceSlice = .error .multiSlice := by rfl
example : extractBody env0 [matmul (wsig "o") (.sub (sig "a") (.slice (sig "lo") (.node .binOp [sig "lo", .num 4]) .nil) .load)] = .ok
    [⟨.wr, [.fld "s", .fld "o"], .aug "MatMult"⟩, ⟨.rd, [.fld "s", .fld "a", .sel .star], .none⟩,
     ⟨.rd, [.fld "s", .fld "lo"], .none⟩, ⟨.rd, [.fld "s", .fld "lo"], .none⟩] := by rfl

/-- `def hp( i ): return s.v[ i ]` with a module-level `i = 0`: the parameter is removed from the module-level names, the
index is `"*"`; without the parameter list the same body is resolved to the module-level value -/
def paramIndex : List Node := [.node .gen [.sub (sig "v") (.name "i" .load) .load]]
def envI : Env := ⟨[], ["i"]⟩
example : extractFn envI ["i"] paramIndex = .ok [⟨.rd, [.fld "s", .fld "v", .sel .star], .none⟩] := by rfl
example : extractFn envI [] paramIndex = .ok [⟨.rd, [.fld "s", .fld "v", .sel (.var false "i")], .none⟩] := by rfl
/-- `lambda i: s.v[ i ]`: the parameter (rendered as a stored name of the `arg` node) is local to the statement -/
example : extractBody envI [.node .gen [.node .gen [.node .gen [.name "i" .store]], .sub (sig "v") (.name "i" .load) .load]] = .ok
    [⟨.rd, [.fld "s", .fld "v", .sel .star], .none⟩] := by rfl

/-- `for i in ...: s.o @= s.v[ i ]` with the same module-level `i`: the stored name is removed from the module-level names
before the statement is visited, the index is `"*"` -/
example : extractBody envI [.for_ (.name "i" .store) (.name "r" .load) [matmul (wsig "o") (.sub (sig "v") (.name "i" .load) .load)] []] = .ok
    [⟨.wr, [.fld "s", .fld "o"], .aug "MatMult"⟩, ⟨.rd, [.fld "s", .fld "v", .sel .star], .none⟩] := by rfl

end PV.C02a
