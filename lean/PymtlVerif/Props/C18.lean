/-! # C18 — property theorems (stub: not built yet) -/
namespace PV.C18
end PV.C18
