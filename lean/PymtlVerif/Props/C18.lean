import PymtlVerif.Proofs.Mem
/-!
# C18 — magic memories act as one in-order memory whatever the timing parameters

Property theorems about `Model/Mem.lean`.

* byte store: read-after-write, frame (`read_write`, `write_frame`, `write_keeps_bytes`)
* every byte a read (or the old value of an AMO) returns is the byte stored by the latest
  earlier-processed request covering it, else the initial image (`read_latest`); the same for the
  final image (`image_latest`); what a write / an AMO stores (`write_stores`, `amo_spec`, `amo_old_new`,
  `amo_low_bytes_only`, `amo_full_width`, `amo_table`, `sint_twos_complement`): an AMO has a byte count like a read or
  a write (`len`, 0 = full width), works on the low `len` bytes of the data field at width `8·len` (signed min / max at
  that width) and answers the old `len` bytes zero-extended
* the three delay pipes are FIFO for every delay and every history of ticks / enqueue and dequeue
  attempts / back-pressure (`deq_pipe_fifo`, `send_pipe_fifo`, `inelastic_pipe_fifo`)
* timing independence of the two memory systems (`cl_timing_independent`, `rtl_timing_independent`
  and their corollaries): for every number of ports, every latency, every per-port stall stream,
  source-offer stream and sink-ready stream (arbitrary functions of the cycle — quantified, not
  sampled) and every number of cycles.
-/
namespace PV.C18
open PV.Mem

/-! ## byte store -/

/-- reading back `k` bytes just written returns the low `k` bytes of the data -/
theorem read_write (k : Nat) (m : Store) (a d : Nat) : readLE (writeLE m a k d) a k = d % 256 ^ k :=
  PV.Mem.read_write k m a d

/-- a write changes nothing outside `[a, a+k)`, and inside puts byte `b-a` of the data at `b` -/
theorem write_frame (k : Nat) (m : Store) (a d b : Nat) :
    ((b < a ∨ a + k ≤ b) → writeLE m a k d b = m b) ∧
    ((a ≤ b ∧ b < a + k) → writeLE m a k d b = (d / 256 ^ (b - a)) % 256) := by
  rw [writeLE_byte]
  constructor
  · intro h; exact if_neg (by omega)
  · intro h; exact if_pos h

/-- the store stays a byte store under every processed request -/
theorem write_keeps_bytes (l : List Req) (m : Store) (h : Bytes m) : Bytes (seqSpec l m).2 :=
  seqSpec_bytes l m h

/-! ## reads return the latest earlier-processed write, byte by byte -/

/-- In any processed sequence `pre ++ r :: post`: a write is answered `(WRITE, opaque, 0, 0, 0)`;
a read or an AMO `r` is answered `(type, opaque, 0, len, d)` where, for every byte `j` of the access,
byte `j` of `d` is the byte stored at `r.addr + j` by the latest request of `pre` that stored to that
address — or the byte of the initial image if no request of `pre` did. -/
theorem read_latest (pre post : List Req) (r : Req) (m0 : Store) (hm : Bytes m0) :
    (r.kind = .write →
      (seqSpec (pre ++ r :: post) m0).1[pre.length]? = some ⟨1, r.opq, 0, 0, 0⟩) ∧
    (r.kind ≠ .write →
      ∃ d, (seqSpec (pre ++ r :: post) m0).1[pre.length]? = some ⟨r.kind.code, r.opq, 0, r.len, d⟩ ∧
        d < 256 ^ nbytes r.nb r.len ∧
        ∀ j, j < nbytes r.nb r.len →
          (d / 256 ^ j) % 256 = (latest (effects pre m0) (r.addr + j)).getD (m0 (r.addr + j))) := by
  have hidx : (seqSpec (pre ++ r :: post) m0).1[pre.length]? = some (service r (seqSpec pre m0).2).1 := by
    rw [seqSpec_append]
    simp only []
    rw [List.getElem?_append_right (by rw [seqSpec_length]; exact Nat.le_refl _), seqSpec_length]
    simp [seqSpec]
  have hb := seqSpec_bytes pre m0 hm
  constructor
  · intro hw
    rw [hidx]; simp [service, hw, Kind.code]
  · intro hw
    refine ⟨readLE (seqSpec pre m0).2 r.addr (nbytes r.nb r.len), ?_, readLE_lt _ _ _ hb, ?_⟩
    · rw [hidx]
      unfold service
      cases hk : r.kind with
      | read => simp [Kind.code]
      | write => exact absurd hk hw
      | amo op => simp [Kind.code]
    · intro j hj
      rw [readLE_byte _ _ _ _ hb hj, store_latest]

/-- the final image: every byte is the one stored by the latest processed request covering it,
else the initial byte -/
theorem image_latest (l : List Req) (m0 : Store) (b : Nat) :
    (seqSpec l m0).2 b = (latest (effects l m0) b).getD (m0 b) :=
  store_latest l m0 b

/-- what a write stores: byte `j` of its data at `addr + j`, for the `len` bytes of the access
(`len = 0` means the full data width `r.nb` of the request's message class) -/
theorem write_stores (r : Req) (m : Store) (h : r.kind = .write) :
    ∃ e, effect r m = some e ∧ e.addr = r.addr ∧ e.k = nbytes r.nb r.len ∧
      ∀ j, j < e.k → e.covers (r.addr + j) = true ∧ e.byte (r.addr + j) = (r.data / 256 ^ j) % 256 := by
  refine ⟨⟨r.addr, nbytes r.nb r.len, r.data % 2 ^ (8 * nbytes r.nb r.len)⟩, by simp [effect, h], rfl, rfl, ?_⟩
  intro j hj
  simp only [WEvent.covers, WEvent.byte] at hj ⊢
  refine ⟨by simp; omega, ?_⟩
  have : r.addr + j - r.addr = j := by omega
  rw [this, byte_mod _ _ _ hj]

/-- the memory may have any size (power of two or not): while every request stays inside `[0, size)` — the real
byte array raises IndexError otherwise — responses and the first `size` bytes are determined by the first `size` bytes
of the initial image alone, addresses select bytes directly (no aliasing of in-range addresses: `image_latest` holds
cell by cell), and nothing at or beyond `size` is ever stored: an array of exactly `size` bytes is the whole state -/
theorem bounded_store (size : Nat) (l : List Req) (m m' : Store)
    (hl : ∀ r ∈ l, r.addr + nbytes r.nb r.len ≤ size) (h : ∀ b, b < size → m b = m' b) :
    (seqSpec l m).1 = (seqSpec l m').1 ∧ (∀ b, b < size → (seqSpec l m).2 b = (seqSpec l m').2 b) ∧
    (∀ b, size ≤ b → (seqSpec l m).2 b = m b) :=
  seqSpec_in_range size l m m' hl h

/-! ## atomic operations -/

/-- an AMO of `k` bytes (`k = len`, or the full data width `nb` of the request's message class when `len = 0`; a
sub-word AMO is `0 < len < nb`) operates on the low `k` bytes `arg` of the data field at width `8k`: it answers the old
`k` bytes, leaves `op(old, arg) mod 2^(8k)` in memory — byte `j` of it at `addr + j` —, touches nothing outside its
`k` bytes, and the event recorded for it in `effects` is exactly that store -/
theorem amo_spec (r : Req) (op : AmoOp) (m : Store) (h : r.kind = .amo op) :
    let k := nbytes r.nb r.len
    let old := readLE m r.addr k
    let arg := r.data % 2 ^ (8 * k)
    (service r m).1 = ⟨op.code, r.opq, 0, r.len, old⟩ ∧
    readLE (service r m).2 r.addr k = amoFun (8 * k) op old arg % 2 ^ (8 * k) ∧
    (∀ j, j < k → (service r m).2 (r.addr + j) = (amoFun (8 * k) op old arg / 256 ^ j) % 256) ∧
    (∀ b, (b < r.addr ∨ r.addr + k ≤ b) → (service r m).2 b = m b) ∧
    effect r m = some ⟨r.addr, k, amoFun (8 * k) op old arg⟩ := by
  refine ⟨?_, ?_, ?_, ?_, ?_⟩
  · simp [service, h]
  · simp only [service, h]; rw [PV.Mem.read_write, pow256]
  · intro j hj
    simp only [service, h]
    rw [writeLE_byte, if_pos (by omega)]
    congr 3; omega
  · intro b hb; simp only [service, h]; exact PV.Mem.write_frame _ _ _ _ _ hb
  · simp [effect, h]

/-- on a byte store the answer of an AMO is what a read of the same `len` at the same address answers (the old `k`
bytes, zero-extended: it is below `2^(8k)`), and the value written back is `op(old, arg)` itself: every `AMO_FUNS`
entry maps two `8k`-bit operands to an `8k`-bit value, no truncation takes place -/
theorem amo_old_new (r : Req) (op : AmoOp) (m : Store) (h : r.kind = .amo op) (hm : Bytes m) :
    let k := nbytes r.nb r.len
    let old := readLE m r.addr k
    let arg := r.data % 2 ^ (8 * k)
    (service r m).1.data = (service { r with kind := .read } m).1.data ∧
    (service r m).1.data = old ∧ old < 2 ^ (8 * k) ∧
    (∀ j, j < k → (old / 256 ^ j) % 256 = m (r.addr + j)) ∧
    amoFun (8 * k) op old arg < 2 ^ (8 * k) ∧
    readLE (service r m).2 r.addr k = amoFun (8 * k) op old arg := by
  have hold : readLE m r.addr (nbytes r.nb r.len) < 2 ^ (8 * nbytes r.nb r.len) := by
    rw [pow256]; exact readLE_lt _ _ _ hm
  have hlt := amoFun_lt (8 * nbytes r.nb r.len) op _ (r.data % 2 ^ (8 * nbytes r.nb r.len)) hold
    (Nat.mod_lt _ (Nat.two_pow_pos _))
  refine ⟨by simp [service, h], by simp [service, h], hold, fun j hj => readLE_byte _ _ _ _ hm hj, hlt, ?_⟩
  rw [(amo_spec r op m h).2.1, Nat.mod_eq_of_lt hlt]

/-- only the low `k` bytes of the data field of an AMO matter -/
theorem amo_low_bytes_only (r : Req) (op : AmoOp) (m : Store) (h : r.kind = .amo op) (d d' : Nat)
    (hd : d % 2 ^ (8 * nbytes r.nb r.len) = d' % 2 ^ (8 * nbytes r.nb r.len)) :
    service { r with data := d } m = service { r with data := d' } m := by
  simp only [service, h, hd]

/-- the full-width AMO is the special case `len = 0` (also `len = nb`, which no message can express): on a well-formed
message (`data` fits the `8·nb` bits of its field) the operand is the whole data field and the width is `8·nb` -/
theorem amo_full_width (r : Req) (op : AmoOp) (m : Store) (h : r.kind = .amo op) (hl : r.len = 0)
    (hd : r.data < 2 ^ (8 * r.nb)) :
    let old := readLE m r.addr r.nb
    service r m = (⟨op.code, r.opq, 0, 0, old⟩, writeLE m r.addr r.nb (amoFun (8 * r.nb) op old r.data)) := by
  simp only [service, h, hl, nbytes, if_true, Nat.mod_eq_of_lt hd]

/-- the nine `AMO_FUNS` on `w`-bit operands -/
theorem amo_table (w m a : Nat) :
    amoFun w .add m a = (m + a) % 2 ^ w ∧
    amoFun w .and m a = m &&& a ∧ amoFun w .or m a = m ||| a ∧ amoFun w .xor m a = m ^^^ a ∧
    amoFun w .swap m a = a ∧
    amoFun w .min m a = (if sint w m < sint w a then m else a) ∧
    amoFun w .max m a = (if sint w m > sint w a then m else a) ∧
    amoFun w .minu m a = (if a < m then a else m) ∧
    amoFun w .maxu m a = (if a > m then a else m) := by
  simp [amoFun]

/-- `sint` is the two's complement reading of a `w`-bit value -/
theorem sint_twos_complement (w x : Nat) (hw : 1 ≤ w) (hx : x < 2 ^ w) :
    sint w x = (if x < 2 ^ (w - 1) then (x : Int) else (x : Int) - (2 ^ w : Nat)) ∧
    -((2 ^ (w - 1) : Nat) : Int) ≤ sint w x ∧ sint w x < ((2 ^ (w - 1) : Nat) : Int) ∧
    sint w x % ((2 ^ w : Nat) : Int) = x := by
  have hp : 2 ^ w = 2 * 2 ^ (w - 1) := by
    have : w = (w - 1) + 1 := by omega
    conv => lhs; rw [this, Nat.pow_succ]
    omega
  have hpos : 0 < 2 ^ (w - 1) := Nat.two_pow_pos _
  have hz : x / 2 ^ (w - 1) = 0 ↔ x < 2 ^ (w - 1) := by
    rw [Nat.div_eq_zero_iff]; omega
  have hc : ((2 : Int) ^ w) = ((2 ^ w : Nat) : Int) := by simp
  unfold sint
  rw [hc]
  by_cases h : x < 2 ^ (w - 1)
  · rw [if_pos (hz.mpr h), if_pos h]
    refine ⟨rfl, by omega, by omega, ?_⟩
    exact Int.emod_eq_of_lt (by omega) (by omega)
  · rw [if_neg (fun h' => h (hz.mp h')), if_neg h]
    refine ⟨rfl, by omega, by omega, ?_⟩
    rw [Int.sub_emod_right]
    exact Int.emod_eq_of_lt (by omega) (by omega)

/-! ## the delay pipes are FIFO -/

/-- `DelayPipeDeqCL(delay)`: after any history of `up_delay` ticks, enqueue attempts and dequeue
attempts (an attempt on a pipe that is not ready is skipped), the dequeued messages followed by the
messages still inside are exactly the accepted messages, in order: no loss, duplication or
reordering, whatever the delay and the back-pressure. -/
theorem deq_pipe_fifo {α : Type} (delay : Nat) (ops : List (DeqOp α)) :
    let r := DeqPipe.runOps ops (Slots.empty (delay + 1)) [] []
    r.2.2 ++ r.1.contents = r.2.1 ∧ r.2.2 <+: r.2.1 := by
  have h := DeqPipe.runOps_fifo ops (Slots.empty (delay + 1) : Slots α) [] []
    (by simp [Slots.contents_empty])
  exact ⟨h, ⟨_, h⟩⟩

/-- `DelayPipeSendCL(delay)`: the same, the consumer being `send` with an arbitrary `rdy` per tick -/
theorem send_pipe_fifo {α : Type} (delay : Nat) (ops : List (SendOp α)) :
    let r := SendPipe.runOps ops (Slots.empty delay) [] []
    r.2.2 ++ r.1.contents = r.2.1 ∧ r.2.2 <+: r.2.1 := by
  have h := SendPipe.runOps_fifo ops (Slots.empty delay : Slots α) [] [] (by simp [Slots.contents_empty])
  exact ⟨h, ⟨_, h⟩⟩

/-- `InelasticDelayPipe(delay)`, `delay ≥ 1`: for any sequence of clock edges with arbitrary
upstream `val`/`msg` and downstream `rdy` -/
theorem inelastic_pipe_fifo {α : Type} (delay : Nat) (hd : 1 ≤ delay) (es : List (Bool × α × Bool)) :
    let r := IPipe.runEdges es (IPipe.init delay) [] []
    r.2.2 ++ r.1.slots.contents = r.2.1 ∧ r.2.2 <+: r.2.1 := by
  have h := IPipe.runEdges_fifo es (IPipe.init delay : IPipe α) [] [] (IPipe.init_ok delay hd)
    (by simp [IPipe.init, Slots.contents_empty])
  exact ⟨h, ⟨_, h⟩⟩

/-! ## timing independence -/

/-- `MagicMemoryCL`. For every port count `n`, `latency`, data widths (each request carries the byte width `nb` of
the message class of its port, so ports may differ in width), request streams `reqs`,
initial image `m0`, environment `env` (per cycle and port: does the source offer, does the stall
gate close, is the sink ready — arbitrary) and number of cycles `T`, with `log` the requests in the
order the memory processed them:
the store is `seqSpec log`'s store; each port's responses (received, then those still in the
response pipe) are `seqSpec log`'s responses for that port, in order; each port's processed
requests followed by those in its request pipe and those not yet sent are its request stream; only
ports `< n` are served. -/
theorem cl_timing_independent (n latency : Nat) (reqs : Nat → List Req) (m0 : Store)
    (env : Nat → Nat → CL.Env) (T : Nat) :
    let s := CL.run n env T (CL.init latency reqs m0)
    let spec := seqSpec (s.log.map (·.2)) m0
    s.store = spec.2 ∧
    (∀ i, (s.ports i).delivered ++ (s.ports i).respQ.contents = respsOf i s.log spec.1) ∧
    (∀ i, procs i s.log ++ (s.ports i).reqQ.contents ++ (s.ports i).pending = reqs i) ∧
    (∀ e ∈ s.log, e.1 < n) := by
  have h := CL.run_inv n latency reqs m0 env T
  exact ⟨h.main.1, h.main.2.1, h.main.2.2, h.bound⟩

/-- the stream `MagicMemoryRTL` (with `RandomStall` and `InelasticDelayPipe(extra_latency+1)`) -/
theorem rtl_timing_independent (n extra : Nat) (reqs : Nat → List Req) (m0 : Store)
    (env : Nat → Nat → RTL.Env) (T : Nat) :
    let s := RTL.run n env T (RTL.init extra reqs m0)
    let spec := seqSpec (s.log.map (·.2)) m0
    s.store = spec.2 ∧
    (∀ i, (s.ports i).delivered ++ (s.ports i).pipe.slots.contents = respsOf i s.log spec.1) ∧
    (∀ i, procs i s.log ++ (s.ports i).pending = reqs i) ∧
    (∀ e ∈ s.log, e.1 < n) := by
  have h := (RTL.run_inv n extra reqs m0 env T).1
  refine ⟨h.main.1, h.main.2.1, ?_, h.bound⟩
  intro i; have := h.main.2.2 i; simpa [RTL.Port.view] using this

/-- observable consequences, `MagicMemoryCL`: what a sink has received is a prefix of the
sequential specification's responses for its port; the processed requests of a port are a prefix
of its request stream; the (type, opaque) sequence received is a prefix of the (type, opaque)
sequence requested; and once nothing is in flight everything was processed and answered. -/
theorem cl_responses_in_order (n latency : Nat) (reqs : Nat → List Req) (m0 : Store)
    (env : Nat → Nat → CL.Env) (T : Nat) (i : Nat) :
    let s := CL.run n env T (CL.init latency reqs m0)
    (s.ports i).delivered <+: respsOf i s.log (seqSpec (s.log.map (·.2)) m0).1 ∧
    procs i s.log <+: reqs i ∧
    (s.ports i).delivered.map tyOpq <+: (reqs i).map reqTyOpq ∧
    ((s.ports i).pending = [] → (s.ports i).reqQ.contents = [] → (s.ports i).respQ.contents = [] →
      procs i s.log = reqs i ∧
      (s.ports i).delivered = respsOf i s.log (seqSpec (s.log.map (·.2)) m0).1) := by
  have h := CL.run_inv n latency reqs m0 env T
  exact ⟨h.delivered_prefix i, h.procs_prefix i, h.echo i, h.drained i⟩

theorem rtl_responses_in_order (n extra : Nat) (reqs : Nat → List Req) (m0 : Store)
    (env : Nat → Nat → RTL.Env) (T : Nat) (i : Nat) :
    let s := RTL.run n env T (RTL.init extra reqs m0)
    (s.ports i).delivered <+: respsOf i s.log (seqSpec (s.log.map (·.2)) m0).1 ∧
    procs i s.log <+: reqs i ∧
    (s.ports i).delivered.map tyOpq <+: (reqs i).map reqTyOpq ∧
    ((s.ports i).pending = [] → (s.ports i).pipe.slots.contents = [] →
      procs i s.log = reqs i ∧
      (s.ports i).delivered = respsOf i s.log (seqSpec (s.log.map (·.2)) m0).1) := by
  have h := (RTL.run_inv n extra reqs m0 env T).1
  exact ⟨h.delivered_prefix i, h.procs_prefix i, h.echo i, fun h1 h3 => h.drained i h1 rfl h3⟩

/-- with one port the contents do not depend on timing at all: under *any* latency / stall / source
/ sink timing the responses received are a prefix of the sequential specification applied to the
request list itself, and once every request was processed the image is the specification's. Two
runs of the same stream under different timing therefore agree on every response they both got. -/
theorem cl_single_port (latency : Nat) (reqs : Nat → List Req) (m0 : Store)
    (env : Nat → Nat → CL.Env) (T : Nat) :
    let s := CL.run 1 env T (CL.init latency reqs m0)
    (s.ports 0).delivered <+: (seqSpec (reqs 0) m0).1 ∧
    ((s.ports 0).pending = [] → (s.ports 0).reqQ.contents = [] → s.store = (seqSpec (reqs 0) m0).2) :=
  (CL.run_inv 1 latency reqs m0 env T).single_port

theorem rtl_single_port (extra : Nat) (reqs : Nat → List Req) (m0 : Store)
    (env : Nat → Nat → RTL.Env) (T : Nat) :
    let s := RTL.run 1 env T (RTL.init extra reqs m0)
    (s.ports 0).delivered <+: (seqSpec (reqs 0) m0).1 ∧
    ((s.ports 0).pending = [] → s.store = (seqSpec (reqs 0) m0).2) := by
  have h := (RTL.run_inv 1 extra reqs m0 env T).1.single_port
  exact ⟨h.1, fun h1 => h.2 h1 rfl⟩

/-- several ports working on pairwise disjoint address regions: under any timing and any
interleaving each port receives a prefix of the sequential specification applied to its own request
list, and once all its requests are processed its region of the image is that specification's -/
theorem cl_disjoint_ports (n latency : Nat) (reqs : Nat → List Req) (m0 : Store)
    (env : Nat → Nat → CL.Env) (T : Nat) (region : Nat → Nat → Prop)
    (hdisj : ∀ i j b, i ≠ j → region i b → ¬ region j b)
    (hreg : ∀ i, ∀ r ∈ reqs i, ∀ b, footprint r b → region i b) (i : Nat) :
    let s := CL.run n env T (CL.init latency reqs m0)
    (s.ports i).delivered <+: (seqSpec (reqs i) m0).1 ∧
    ((s.ports i).pending = [] → (s.ports i).reqQ.contents = [] →
      AgreeOn (region i) s.store (seqSpec (reqs i) m0).2) :=
  (CL.run_inv n latency reqs m0 env T).disjoint region hdisj hreg i

theorem rtl_disjoint_ports (n extra : Nat) (reqs : Nat → List Req) (m0 : Store)
    (env : Nat → Nat → RTL.Env) (T : Nat) (region : Nat → Nat → Prop)
    (hdisj : ∀ i j b, i ≠ j → region i b → ¬ region j b)
    (hreg : ∀ i, ∀ r ∈ reqs i, ∀ b, footprint r b → region i b) (i : Nat) :
    let s := RTL.run n env T (RTL.init extra reqs m0)
    (s.ports i).delivered <+: (seqSpec (reqs i) m0).1 ∧
    ((s.ports i).pending = [] → AgreeOn (region i) s.store (seqSpec (reqs i) m0).2) := by
  have h := (RTL.run_inv n extra reqs m0 env T).1.disjoint region hdisj hreg i
  exact ⟨h.1, fun h1 => h.2 h1 rfl⟩

/-- timing changes only *when*, never *what*: two runs of `MagicMemoryCL` (different latency,
environment, length) that processed the requests in the same order have the same image and the same
per-port response streams -/
theorem cl_same_order_same_contents (n l1 l2 : Nat) (reqs : Nat → List Req) (m0 : Store)
    (e1 e2 : Nat → Nat → CL.Env) (T1 T2 : Nat)
    (h : (CL.run n e1 T1 (CL.init l1 reqs m0)).log = (CL.run n e2 T2 (CL.init l2 reqs m0)).log) :
    let s1 := CL.run n e1 T1 (CL.init l1 reqs m0)
    let s2 := CL.run n e2 T2 (CL.init l2 reqs m0)
    s1.store = s2.store ∧
    ∀ i, (s1.ports i).delivered ++ (s1.ports i).respQ.contents =
         (s2.ports i).delivered ++ (s2.ports i).respQ.contents := by
  have h1 := cl_timing_independent n l1 reqs m0 e1 T1
  have h2 := cl_timing_independent n l2 reqs m0 e2 T2
  simp only [] at h1 h2 ⊢
  refine ⟨by rw [h1.1, h2.1, h], fun i => ?_⟩
  rw [h1.2.1 i, h2.2.1 i, h]

/-! ## non-vacuity: concrete runs in which requests are processed, stalled and delivered -/

private def wr (o a l d : Nat) : Req := ⟨.write, o, a, l, d, 4⟩
private def rd (o a l : Nat) : Req := ⟨.read, o, a, l, 0, 4⟩
private def exReqs : Nat → List Req
  | 0 => [wr 1 16 0 0xdeadbeef, rd 2 17 2]
  | 1 => [⟨.amo .add, 3, 16, 0, 1, 4⟩, rd 4 16 0]
  | _ => []
/-- port 1 is stalled in cycles 0..2, the sinks are not ready in cycle 4 -/
private def exEnv (t i : Nat) : CL.Env := ⟨true, i == 1 && t < 3, t != 4⟩

example :
    let s := CL.run 2 exEnv 12 (CL.init 3 exReqs (fun _ => 0))
    s.log.map (·.1) = [0, 0, 1, 1] ∧
    (s.ports 0).delivered = [⟨1, 1, 0, 0, 0⟩, ⟨0, 2, 0, 2, 0xadbe⟩] ∧
    (s.ports 1).delivered = [⟨3, 3, 0, 0, 0xdeadbeef⟩, ⟨0, 4, 0, 0, 0xdeadbef0⟩] ∧
    readLE s.store 16 4 = 0xdeadbef0 := by decide +kernel

example :
    let s := RTL.run 2 (fun t i => ⟨true, i == 1 && t < 3, t != 4⟩) 12 (RTL.init 1 exReqs (fun _ => 0))
    s.log.map (·.1) = [0, 0, 1, 1] ∧
    (s.ports 1).delivered = [⟨3, 3, 0, 0, 0xdeadbeef⟩, ⟨0, 4, 0, 0, 0xdeadbef0⟩] := by decide +kernel

/-- ports of different data widths: a full-width write of a 16-byte port next to a full-width read of a 4-byte port -/
example :
    let x := seqSpec [⟨.write, 1, 32, 0, 0x0123456789abcdeffedcba9876543210, 16⟩, ⟨.read, 2, 44, 0, 0, 4⟩,
                      ⟨.read, 3, 32, 0, 0, 16⟩] (fun _ => 0)
    x.1 = [⟨1, 1, 0, 0, 0⟩, ⟨0, 2, 0, 0, 0x01234567⟩, ⟨0, 3, 0, 0, 0x0123456789abcdeffedcba9876543210⟩] ∧
    x.2 47 = 0x01 ∧ x.2 48 = 0 := by decide +kernel

/-- sub-word AMOs on a 4-byte port. The word at 16 holds 0x1234beef: positive as a 32-bit value, its low half 0xbeef
negative as a 16-bit value. A 2-byte AMO_MAX with data 0xffff0001 works on (0xbeef, 0x0001) at width 16: signed max is 1
(a 32-bit signed max of 0x1234beef and 0xffff0001 would have kept the word), the answer is the old half 0xbeef
zero-extended, bytes 18 / 19 stay. Then a 1-byte AMO_ADD of 0x1ff at 17 adds 0xff to 0x00 without a carry into byte 18,
a 2-byte AMO_MIN at 18 compares 0x1234 with 0x8000 (negative at 16 bits), a 3-byte AMO_MINU, and a full-width AMO_MIN
(`len = 0`) sees the 32-bit sign again. -/
example :
    let x := seqSpec [⟨.write, 1, 16, 0, 0x1234beef, 4⟩, ⟨.amo .max, 2, 16, 2, 0xffff0001, 4⟩,
                      ⟨.amo .add, 3, 17, 1, 0x1ff, 4⟩, ⟨.amo .min, 4, 18, 2, 0x77778000, 4⟩,
                      ⟨.amo .minu, 5, 16, 3, 0xff000002, 4⟩, ⟨.amo .min, 6, 16, 0, 5, 4⟩, ⟨.read, 7, 16, 0, 0, 4⟩]
              (fun _ => 0)
    x.1 = [⟨1, 1, 0, 0, 0⟩, ⟨9, 2, 0, 2, 0xbeef⟩, ⟨3, 3, 0, 1, 0x00⟩, ⟨7, 4, 0, 2, 0x1234⟩, ⟨8, 5, 0, 3, 0x00ff01⟩,
           ⟨7, 6, 0, 0, 0x80000002⟩, ⟨0, 7, 0, 0, 0x80000002⟩] ∧
    x.2 20 = 0 ∧ x.2 15 = 0 := by decide +kernel

/-- the same 16-bit operands under the two readings of the sign: signed at the sub-word width against unsigned /
against the 32-bit reading of the zero-extended values -/
example : amoFun 16 .max 0xbeef 1 = 1 ∧ amoFun 16 .maxu 0xbeef 1 = 0xbeef ∧ amoFun 32 .max 0xbeef 1 = 0xbeef ∧
    amoFun 16 .min 0x1234 0x8000 = 0x8000 ∧ amoFun 32 .min 0x1234 0x8000 = 0x1234 ∧
    amoFun 8 .add 0xbe 0xff = 0xbd := by decide

example : amoFun 32 .min 0x80000000 1 = 0x80000000 ∧ amoFun 32 .minu 0x80000000 1 = 1 ∧
    amoFun 32 .max 0xffffffff 1 = 1 ∧ amoFun 32 .maxu 0xffffffff 1 = 0xffffffff ∧
    amoFun 32 .add 0xffffffff 2 = 1 := by decide

example : latest [⟨16, 4, 0xdeadbeef⟩, ⟨17, 2, 0x1234⟩] 18 = some 0x12 ∧
    latest [⟨16, 4, 0xdeadbeef⟩, ⟨17, 2, 0x1234⟩] 19 = some 0xde ∧
    latest [⟨16, 4, 0xdeadbeef⟩, ⟨17, 2, 0x1234⟩] 20 = none := by decide

end PV.C18
