import PymtlVerif.Proofs.Nets
import PymtlVerif.Proofs.NetsElab
import PymtlVerif.Proofs.NetsDfs
import PymtlVerif.Proofs.NetsWalk
import PymtlVerif.Proofs.NetsFunc
/-!
# C09 — structurally illegal designs are always rejected at elaboration

Model: `Model/Nets.lean`, `elaborate` = the stages of `Component.elaborate()` in their order
(operators, connection loop, two writers in a net, `_check_upblk_writes`, `_check_port_in_upblk`,
`NoWriterError`, `_check_port_in_nets`).

**Proved equivalences** (the model's procedure against an order-free reading of the design):
* `related_iff_overlap`: ancestor-or-self either way, or overlapping sibling slices ⇔ sharing a bit;
* `upblk_writes_iff`: the parent-chain + sibling-slice walk of `_check_upblk_writes` (repaired version)
  raises ⇔ some signal bit is written by two different update blocks;
* `multi_writer_iff` / `no_writer_iff`: writer resolution raises / leaves a net headless ⇔ some net has
  two / no members driven from outside (least-fixed-point specification `Mark`/`Src` of C08);
* `loop_iff`: the loop test ⇔ the graph of the *merged* connections has a cycle (`HasCycle`: some
  connection joins two nodes that stay connected without it; a self connection counts);
  `floodfill_cycle`, `floodfill_cycle_any_order`: the code's `pred`-based test, modelled as the stack
  machine it is (`ffRun`/`ffRoots`), stops within its fuel and fires exactly on these graphs, for every
  order in which the adjacency sets and the signal set are iterated;
* `verdict_iff`, `verdict_class`: the model rejects ⇔ one of the defects holds, and the class it
  reports belongs to the first stage that has a defect;
* `order_invariant_perm`, `order_invariant_flip`: the whole outcome is unchanged by permuting the
  connect statements or swapping their sides.

* `port_walk_spec`: the walk of `_check_port_in_nets` from the writer of a resolved net checks, for
  every other member `v`, exactly one connection `(u, v)`, and `u` is on the writer's side of it.

**Modelled decision tables** (the table is the code's; the theorem only restates it
declaratively): `op_table` (`=`/`@=`/`<<=`, top-level LHS of `<<=`), `port_upblk_table`
(Types 1–4), `port_net_table` (Types 5–9 and the loop-back rule).

Quirk kept from the code: connecting the same pair twice (either orientation) is merged by the
adjacency *sets*, so it is not a loop (`dup_is_no_loop`).
-/
namespace PV.C09
open PV.Nets

/-- the code's relation (ancestor or self either way, or overlapping sibling slices) is "the two
objects share a bit" -/
theorem related_iff_overlap (L : Leaves) (a b : Obj) (ha : WfObj L a) (hb : WfObj L b) :
    related a b = true ↔ ∃ bit, ValidBit L bit ∧ covers a bit ∧ covers b bit :=
  PV.Nets.related_iff_overlap L a b ha hb

/-- `Connectable._overlap` on non-empty slices is "the ranges intersect" -/
theorem overlap_spec (x y : Nat × Nat) (hx : x.1 < x.2) (hy : y.1 < y.2) :
    overlap x y = true ↔ ∃ i, (x.1 ≤ i ∧ i < x.2) ∧ (y.1 ≤ i ∧ i < y.2) :=
  PV.Nets.overlap_spec x y hx hy

/-- `_check_upblk_writes` raises `MultiWriterError` iff some signal bit is written by two different
update blocks (in particular one block writing overlapping objects is accepted) -/
theorem upblk_writes_iff (D : Design) (L : Leaves) (hwf : D.WF) (hL : ∀ w ∈ D.writes, WfObj L (D.obj w.2)) :
    upblkErrs D ≠ [] ↔ ∃ bit b1 b2, b1 ≠ b2 ∧ ValidBit L bit ∧ BlkDrives D b1 bit ∧ BlkDrives D b2 bit :=
  upblk_iff_bits D L hwf hL

theorem upblk_writes_iff_rel (D : Design) (hwf : D.WF) : upblkErrs D ≠ [] ↔ BlockConflict D :=
  upblk_iff D hwf

/-- writer resolution raises (always `MultiWriterError`) iff some net has two different members
driven from outside the net -/
theorem multi_writer_iff (D : Design) (hwf : D.WF) :
    ((∃ e, resolve D = .error e) ↔ Bad D) ∧ ∀ e, resolve D = .error e → e = .multiWriter :=
  ⟨resolve_error_iff D (D.rel_symm hwf.slices), fun e he => ((resolve_spec (D.rel_symm hwf.slices)).2 e he).1⟩

/-- a net is left without writer (`NoWriterError`) iff none of its members is driven from outside -/
theorem no_writer_iff (D : Design) (hwf : D.WF) (st : RState) (h : resolve D = .ok st) :
    st.headless ≠ [] ↔ NoWriter D :=
  resolve_headless_iff D (D.rel_symm hwf.slices) h

/-- the loop test fires iff the merged connection graph has a cycle -/
theorem loop_iff (E : List Edge) : hasLoop E = true ↔ HasCycle (simple E) := cyc_iff (simple E)

/-- the `pred`-based flood fill of `_floodfill_nets` (stack machine `ffLoop`: roots and neighbours
in increasing order) fires iff there is a loop, and never runs out of fuel -/
theorem floodfill_cycle (E : List Edge) : ffLoop E = some (hasLoop E) := ffLoop_eq E

/-- … and so it does for any order in which the adjacency sets (`adjf`) and the signal set (`rs`)
are iterated -/
theorem floodfill_cycle_any_order (E : List Edge) (adjf : Nat → List Nat) (rs : List Nat) (fuel : Nat)
    (hadj : ∀ u v, v ∈ adjf u ↔ Step (simple E) u v) (hnd : ∀ u, (adjf u).Nodup)
    (hrs : ∀ r, r ∈ rs ↔ r ∈ nodesOf (simple E)) (hfuel : (nodesOf (simple E)).length < fuel) :
    ffRoots adjf fuel rs [] = some (hasLoop E) :=
  ffRoots_eq_any_order E adjf rs fuel hadj hnd hrs hfuel

/-- `HasCycle` does not depend on the order of the edge list -/
theorem hasCycle_order_free (E E' : List Edge) (hp : E.Perm E') : HasCycle E ↔ HasCycle E' := hasCycle_perm hp

/-- the loop verdict is a function of the undirected edge set -/
theorem loop_edge_set (E E' : List Edge) (h : ∀ a b, Step E a b ↔ Step E' a b) : hasLoop E = hasLoop E' :=
  hasLoop_congr h

/-- a self connection is a loop -/
theorem self_loop (E : List Edge) (a : Nat) (h : (a, a) ∈ E) : hasLoop E = true := by
  rw [loop_iff]
  refine ⟨(a, a), (mem_simple E _).mpr ⟨(a, a), h, by simp [normEdge]⟩, Reach.refl a⟩

/-- the quirk: repeating a connection (in either orientation) never creates a loop -/
theorem dup_is_no_loop (E : List Edge) (a b : Nat) (h : Step E a b) : hasLoop ((a, b) :: E) = hasLoop E := by
  apply hasLoop_congr
  intro x y
  unfold Step at h ⊢
  simp only [List.mem_cons, Prod.mk.injEq]
  constructor
  · rintro ((⟨rfl, rfl⟩ | h') | (⟨rfl, rfl⟩ | h'))
    · exact h
    · exact Or.inl h'
    · exact h.symm
    · exact Or.inr h'
  · rintro (h' | h')
    · exact Or.inl (Or.inr h')
    · exact Or.inr (Or.inr h')

/-- the model rejects a design iff it has a structural defect -/
theorem verdict_iff (D : Design) (hwf : D.WF) : (elaborate D).verdict.isSome = true ↔ Defect D :=
  PV.Nets.verdict_iff D hwf

/-- … and the error class is the one of the first stage that has a defect -/
theorem verdict_class (D : Design) (hwf : D.WF) (e : Err) (h : (elaborate D).verdict = some e) :
    (OpDefect D ∧ e.isOp = true) ∨
    (HasCycle (simple D.edges) ∧ e = .invalidConnection) ∨
    ((Bad D ∨ BlockConflict D) ∧ e = .multiWriter) ∨
    (PortUpblkDefect D ∧ ∃ k, 1 ≤ k ∧ k ≤ 4 ∧ e = .signalType k) ∨
    (NoWriter D ∧ e = .noWriter) ∨
    (PortNetDefect D ∧ (e = .invalidConnection ∨ ∃ k, 5 ≤ k ∧ k ≤ 9 ∧ e = .signalType k)) :=
  PV.Nets.verdict_class D hwf e h

/-- a design free of all defects is accepted -/
theorem legal_accepted (D : Design) (hwf : D.WF) (h : ¬ Defect D) : (elaborate D).verdict = none := by
  cases hv : (elaborate D).verdict with
  | none => rfl
  | some e => exact absurd ((verdict_iff D hwf).mp (by rw [hv]; rfl)) h

/-- the whole outcome (stage, errors, nets, writers) is unchanged by permuting the connect statements -/
theorem order_invariant_perm (D : Design) (c : List (Nat × Nat × Nat)) (hp : c.Perm D.conns) :
    elaborate (D.withConns c) = elaborate D := elaborate_perm D c hp

/-- … and by swapping the two sides of any of them -/
theorem order_invariant_flip (D : Design) (p : Nat → Bool) :
    elaborate (D.withConns (flipConns p D.conns)) = elaborate D := elaborate_flip D p

/-- operator table: accepted iff `@=` in `update`, or `<<=` on a top-level signal in `update_ff` -/
theorem op_table (ff : Bool) (op : Op) (isTop : Bool) : opErr ff op isTop = none ↔ LegalOp ff op isTop :=
  opErr_none_iff ff op isTop

theorem op_errors_iff (D : Design) : opErrs D ≠ [] ↔ OpDefect D := opErrs_iff D

/-- port table in update blocks (Types 1–4) -/
theorem port_upblk_table (D : Design) (h o : Nat) :
    (readErr D h o = none ↔ LegalRead D h o) ∧ (writeErr D h o = none ↔ LegalWrite D h o) :=
  ⟨readErr_none_iff D h o, writeErr_none_iff D h o⟩

theorem port_upblk_iff (D : Design) : portUpblkErrs D ≠ [] ↔ PortUpblkDefect D := portUpblkErrs_iff D

/-- port table over nets (Types 5–9, loop-back) -/
theorem port_net_table (D : Design) (u v : Nat) : edgeErr D u v = none ↔ LegalFlow D u v :=
  edgeErr_none_iff D u v

/-- which pairs `_check_port_in_nets` checks in a resolved net `(w, N)`: every pair is a connection
inside the net, oriented away from the writer (`u` stays connected to `w` when the connection between
`u` and `v` is removed); no member is the driven side twice; every member but the writer is the
driven side once -/
theorem port_walk_spec (D : Design) (hwf : D.WF) (st : RState) (hr : resolve D = .ok st) (w : Nat) (N : List Nat)
    (h : (w, N) ∈ st.headed) :
    (∀ p ∈ walk (fun u => sortDedup (adj (simple D.edges) u)) (N.length + 1) [w] [w],
        Step (simple D.edges) p.1 p.2 ∧ p.2 ∈ N ∧ p.2 ≠ w ∧
        ∀ e : Edge, (e = (p.1, p.2) ∨ e = (p.2, p.1)) → Reach ((simple D.edges).erase e) w p.1) ∧
    ((walk (fun u => sortDedup (adj (simple D.edges) u)) (N.length + 1) [w] [w]).map (·.2)).Nodup ∧
    (∀ y ∈ N, y ≠ w → ∃ u, (u, y) ∈ walk (fun u => sortDedup (adj (simple D.edges) u)) (N.length + 1) [w] [w]) := by
  obtain ⟨hI, _, _⟩ := (resolve_spec (D.rel_symm hwf.slices)).1 st hr
  obtain ⟨hN, hwN, _⟩ := hI.hnets _ h
  have hspec := (nets_spec hN).2.2.2
  have hadj := adjf_simple D.edges
  have hnd : ∀ u, (sortDedup (adj (simple D.edges) u)).Nodup := fun u => sorted_nodup (sorted_sortDedup _)
  have toE : ∀ {a b}, Reach (simple D.edges) a b → Reach D.edges a b :=
    fun hr => (reach_congr (step_simple D.edges) _ _).mp hr
  have ofE : ∀ {a b}, Reach D.edges a b → Reach (simple D.edges) a b :=
    fun hr => (reach_congr (step_simple D.edges) _ _).mpr hr
  have hrw : Reach D.edges (rep N) w := (hspec w).mp hwN
  have closedN : ∀ x ∈ N, ∀ y, Step (simple D.edges) x y → y ∈ N := by
    intro x hx y hs
    exact (hspec y).mpr (Reach.step ((hspec x).mp hx) ((step_simple D.edges x y).mp hs))
  refine ⟨?_, (walk_snd_nodup hnd _ _ _).1, ?_⟩
  · intro p hp
    obtain ⟨hs, hne, hor⟩ := walk_oriented hadj w _ p hp
    have hp1 : p.1 ∈ N := by
      have r := hor (p.1, p.2) (Or.inl rfl)
      have r' : Reach (simple D.edges) w p.1 := reach_mono (fun _ _ => step_of_mem_erase) r
      exact (hspec p.1).mpr (reach_trans hrw (toE r'))
    exact ⟨hs, closedN _ hp1 _ hs, hne, hor⟩
  · intro y hy hne
    have r : Reach D.edges w y := reach_trans (reach_symm hrw) ((hspec y).mp hy)
    exact walk_complete hadj hnd N w hwN closedN y (ofE r) hne

/-! ### `@s.func` helper functions -/

/-- the functions whose reads and writes are folded into an update block are exactly those reached
from the block's direct calls by a chain of calls (fuel = number of functions always suffices) -/
theorem helpers_reached (H : HDesign) (hc : H.CallsOk) (roots : List Nat) (f : Nat) :
    f ∈ H.reached roots ↔ ∃ r ∈ roots, DReach H.callees r f :=
  H.mem_reached hc roots f

/-- in the design the structural checks see, a block writes what it writes itself and what any
function it reaches writes — however many call paths lead there and whichever other block reaches
the same function -/
theorem helpers_flatten_writes (H : HDesign) (hc : H.CallsOk) (b o : Nat) :
    (b, o) ∈ H.flatten.writes ↔
      ((b, o) ∈ H.base.writes ∨
        (b < H.base.blks.length ∧ ∃ r ∈ H.bcalls.getD b [], ∃ f, DReach H.callees r f ∧ o ∈ (H.funcs.getD f default).writes)) :=
  H.flatten_writes hc b o

/-- with helper functions: operator rules on the blocks' own statements, then call cycles
(`InvalidFuncCallError`), then the verdict of the flattened design -/
theorem helpers_verdict (H : HDesign) (h1 : opErrs H.base = []) :
    (H.callCycle = true → (elaborateH H).verdict = some .invalidFuncCall) ∧
    (H.callCycle = false → elaborateH H = elaborate H.flatten) := by
  unfold elaborateH
  simp only [h1, List.isEmpty_nil, Bool.not_true, Bool.false_eq_true, if_false]
  constructor
  · intro h; simp [h, Outcome.verdict]
  · intro h; simp [h]

theorem helpers_wf (H : HDesign) (h : H.wf = true) : H.CallsOk ∧ H.flatten.WF := by
  refine ⟨H.callsOk_of_wf h, wf_sound ?_⟩
  unfold HDesign.wf at h
  simp only [Bool.and_eq_true] at h
  exact h.1.1.1

/-- what the driver checks before it answers implies the well-formedness the theorems assume -/
theorem wf_checked (D : Design) (h : D.wf = true) : D.WF := wf_sound h

/-! ## non-vacuity -/

/-- two blocks write `x[0:6]` and `x[4:8]` -/
def exOverlap : Design :=
  { objs := [⟨0, .wire, 0, [], some (0, 6)⟩, ⟨0, .wire, 0, [], some (4, 8)⟩], par := [none], conns := [],
    blks := [⟨0, false, [(0, .at)], []⟩, ⟨0, false, [(1, .at)], []⟩] }
example : exOverlap.wf = true := by decide
example : (elaborate exOverlap).verdict = some .multiWriter := by decide
/-- one block writing both is accepted (the repaired F6) -/
def exOverlapSame : Design := { exOverlap with blks := [⟨0, false, [(0, .at), (1, .at)], []⟩] }
example : (elaborate exOverlapSame).verdict = none := by decide
/-- a triangle -/
example : hasLoop [(0, 1), (1, 2), (2, 0)] = true := by decide
example : ffLoop [(0, 1), (1, 2), (2, 0)] = some true := by decide
example : hasLoop [(0, 1), (1, 0), (0, 1)] = false := by decide
example : hasLoop [(3, 3)] = true := by decide
/-- a net of two wires and nothing that drives them -/
def exHeadless : Design :=
  { objs := [⟨0, .wire, 0, [], none⟩, ⟨1, .wire, 0, [], none⟩], par := [none], conns := [(0, 1, 0)], blks := [] }
example : (elaborate exHeadless).verdict = some .noWriter := by decide
/-- a child's wire drives a wire of the parent: Type 6 -/
def exType6 : Design :=
  { objs := [⟨0, .wire, 1, [], none⟩, ⟨1, .wire, 0, [], none⟩], par := [none, some 0], conns := [(0, 1, 0)],
    blks := [⟨1, false, [(0, .at)], []⟩] }
example : (elaborate exType6).verdict = some (.signalType 6) := by decide
example : opErr true .ff false = some .updateFFNonTop := by decide
/-- `up_a -> fa -> drive`, `up_b -> fb -> drive`, `drive` writes object 0: two drivers -/
def exHelpers : HDesign :=
  { base := { objs := [⟨0, .outp, 0, [], none⟩], par := [none], conns := [], blks := [⟨0, false, [], []⟩, ⟨0, false, [], []⟩] },
    funcs := [⟨[0], [], []⟩, ⟨[], [], [0]⟩, ⟨[], [], [0]⟩], bcalls := [[1], [2]] }
example : exHelpers.wf = true := by decide
example : (elaborateH exHelpers).verdict = some .multiWriter := by decide
example : (elaborateH { exHelpers with bcalls := [[1, 2], []] }).verdict = none := by decide
example : (elaborateH { exHelpers with funcs := [⟨[0], [], [1]⟩, ⟨[], [], [0]⟩, ⟨[], [], [0]⟩] }).verdict = some .invalidFuncCall := by decide
/-- a second write with a wrong operator to a signal the block already wrote legally is rejected, in
either statement order, and so is a `for` target -/
def exSecondWrite (ops : List Op) : Design :=
  { objs := [⟨0, .outp, 0, [], none⟩], par := [none], conns := [], blks := [⟨0, false, ops.map (fun o => (0, o)), []⟩] }
example : (elaborate (exSecondWrite [.at, .assign])).verdict = some .updateBlockWrite := by decide
example : (elaborate (exSecondWrite [.assign, .at])).verdict = some .updateBlockWrite := by decide
example : (elaborate (exSecondWrite [.at, .forT])).verdict = some .updateBlockWrite := by decide
example : (elaborate (exSecondWrite [.at, .at])).verdict = none := by decide

end PV.C09
