/-! # C09 — property theorems (stub: not built yet) -/
namespace PV.C09
end PV.C09
