import PymtlVerif.Proofs.OpenLoopSched
import PymtlVerif.Props.C02d
import PymtlVerif.Props.C11s
/-!
# C02o — `OpenLoopCLPass.schedule_with_top_level_callee`: the open-loop schedule and every sequence of top-level calls

Model: `Model/OpenLoop.lean` (the pass as it is; see its header for the quirks). Everything below holds for **every**
input (blocks, callee ports and interfaces, constraint sets, shuffle of the vertices `InputOK`), every iteration order of
the sets `G_new[i]` and every intra-SCC order (`EnvOK`: permutations), and **every sequence of top-level method calls**.

What "legal" means for a call sequence: the wrappers reject nothing and reorder nothing. A call of the port at index `p`
of `schedule` is served in the running cycle iff `p` lies strictly after the port served last (`same_cycle_iff_ascending`);
otherwise the rest of the schedule is executed, `simulated_cycles` is incremented, and the call is served in the new
cycle (`call_plan`). So every finite sequence of calls of wrapped ports is legal (`exec_total`), the cycles are the
maximal strictly ascending runs of the sequence (`cycle_count`), and each cycle executes a **sublist of the one static
schedule** that contains every non-method entry exactly once (`cycle_is_schedule_sublist`,
`every_entry_once_per_cycle`): whatever the order of the calls, what runs inside one cycle is a linear extension of the
constraints (`constraint_order_at_runtime`, `writer_before_reader_at_runtime`).

Termination: all definitions are structurally recursive or fuel-bounded; `static_total` shows that the worklist loop ends
by its own exit condition and that the Kosaraju hypotheses of `PV.C11s` (fuel sufficiency included) hold.

Scope: an entry of the schedule is a block, a CalleePort or an SCC wrapper; "once per cycle" is about entries (what an
SCC wrapper does inside is C11's subject). A CalleePort inside a non-trivial SCC is not wrapped by the pass; calls are
calls of wrapped ports.
-/
namespace PV.C02o
open PV.OpenLoop PV.Scc

/-! ## a concrete design for the non-vacuity examples

blocks `0` (up_amp) and `1` (up_compose_in), plain ports `2` = push (ACTUAL method 10) and `3` = pull (11), one
non-blocking interface: method port `4`, rdy port `5` (ACTUAL 12, 13); `0 -> 1` is a value edge;
`M(push) < U(1)`, `U(1) < M(pull)`, `U(1) < M(ifc)` (which means `U(1) < ifc.rdy`). -/
def exInp : Input :=
  { blocks := [0, 1], ports := [(2, 10), (3, 11)], ifcs := [⟨4, 5, 12, 13⟩],
    cons := [(0, 1)], tlc := [(10, 1), (1, 11), (1, 12)], order := [3, 5, 1, 0, 4, 2],
    ff := ⟨false, [7], false, false, [0], true⟩ }
def exEnv : Env := ⟨id, id⟩
theorem exOK : InputOK exInp := ⟨by decide, fun v => by simp [exInp, verts, portVerts]; omega⟩
theorem exEnvOK : EnvOK exEnv := ⟨fun _ _ => Iff.rfl, fun _ h => h, fun _ _ => Iff.rfl, fun _ h => h⟩
def exSched : List Slot :=
  [.port 2, .blk 0, .blk 1, .port 3, .port 5, .port 4, .ff .constFalse, .ff (.ffBlk 7), .ff (.flip 0), .ff .clearCl]
theorem exStatic : (match static exInp exEnv with | .ok st => st.schedule | .error _ => []) = exSched := by decide

/-! ## the dictionaries and the edge sets -/

/-- **the translation of the callee constraints**, when the ACTUAL methods are pairwise different (they are distinct
Python objects) and so are the method ports of the interfaces: no assert fires; an ACTUAL method becomes its CalleePort;
on the right-hand side the method of a non-blocking interface becomes its rdy port; anything else stays -/
theorem map_exact (inp : Input) (h : (rawKeys inp).Nodup) (h2 : (inp.ifcs.map (·.meth)).Nodup) :
    calleeMap inp = some (mapList inp) ∧
    (∀ p ∈ inp.ports, through (mapList inp) p.2 = p.1) ∧
    (∀ x ∈ inp.ifcs, through (mapList inp) x.rawM = x.meth ∧ through (mapList inp) x.rawR = x.rdy) ∧
    (∀ k, k ∉ rawKeys inp → through (mapList inp) k = k) ∧
    (∀ x ∈ inp.ifcs, through (guardMap inp) x.meth = x.rdy) ∧
    (∀ k, k ∉ inp.ifcs.map (·.meth) → through (guardMap inp) k = k) :=
  ⟨calleeMap_of_nodup inp h, (through_mapList inp h).1, (through_mapList inp h).2.1, (through_mapList inp h).2.2,
   (through_guardMap inp h2).1, (through_guardMap inp h2).2⟩

/-- an `assert m not in method_callee_mapping` can only fire when two ACTUAL methods coincide -/
theorem map_assert (inp : Input) (env : Env) (h : static inp env = .error .mapAssert) : ¬ (rawKeys inp).Nodup := by
  intro hnd
  have := static_err_map h
  rw [calleeMap_of_nodup inp hnd] at this
  cases this

example : calleeMap exInp = some [(13, 5), (12, 4), (11, 3), (10, 2)] ∧ mapPair [(13, 5), (12, 4), (11, 3), (10, 2)] (guardMap exInp) (1, 12) = (1, 5) ∧
    calleeMap { exInp with ifcs := [⟨4, 5, 10, 13⟩] } = none := by decide

/-- **the edge sets**: `G` gets `all_constraints` restricted to `V` and the translated callee constraints with both ends
in `V`; `E` has in addition `rdy -> method` for every interface (which `G` has not) -/
theorem edges_exact (inp : Input) (cm : Map) (e : Nat × Nat) :
    (e ∈ gEdges inp cm ↔ (e.1 ∈ verts inp ∧ e.2 ∈ verts inp) ∧
      (e ∈ inp.cons ∨ ∃ c ∈ inp.tlc, mapPair cm (guardMap inp) c = e)) ∧
    (e ∈ eEdges inp cm ↔ (∃ x ∈ inp.ifcs, e = (x.rdy, x.meth)) ∨ e ∈ gEdges inp cm) :=
  ⟨mem_gEdges inp cm e, mem_eEdges inp cm e⟩

example : gEdges exInp [(13, 5), (12, 4), (11, 3), (10, 2)] = [(0, 1), (2, 1), (1, 3), (1, 5)] ∧
    eEdges exInp [(13, 5), (12, 4), (11, 3), (10, 2)] = [(5, 4), (0, 1), (2, 1), (1, 3), (1, 5)] := by decide

/-! ## the static schedule -/

/-- **totality / termination of the static part**: the result is one of the two asserts or a schedule; in the last two
cases the worklist loop ended by its own exit condition (not by fuel), and the graph handed to Kosaraju satisfies the
hypothesis `WF` of `PV.C11s` (so `PV.C11s.fuel_sufficient`, `groups_partition`, `same_group_iff_mutual` … apply to it) -/
theorem static_total (inp : Input) (env : Env) (ok : InputOK inp) (eok : EnvOK env) :
    (static inp env = .error .mapAssert ∧ calleeMap inp = none) ∨
    ∃ cm, calleeMap inp = some cm ∧ WF (adjOf (gEdges inp cm)) (adjTOf (gEdges inp cm)) inp.order ∧
      (let k := kosaraju (adjOf (gEdges inp cm)) (adjTOf (gEdges inp cm)) inp.order
       (topo pickFirst (gnOf env (gnewE k.vmap (eEdges inp cm))) k.sccs.length).done = true) ∧
      (static inp env = .error .schedAssert ∨ ∃ st, static inp env = .ok st) := by
  cases hc : calleeMap inp with
  | none => left; exact ⟨by simp [static, hc], rfl⟩
  | some cm =>
    right
    refine ⟨cm, rfl, wf_of_ok ok cm, (schedule_factsW (condW_of_ok ok eok cm).1 pickFirst).1, ?_⟩
    unfold static
    simp only [hc]
    split
    · left; rfl
    · right; exact ⟨_, rfl⟩

/-- **every vertex exactly once**: the entries of `update_schedule` are pairwise different, none is empty, and every
block / CalleePort of `V` is a member of exactly one of them -/
theorem schedule_partition {inp : Input} {env : Env} {st : Static} (ok : InputOK inp) (eok : EnvOK env)
    (h : static inp env = .ok st) :
    (st.update.flatMap Entry.members).Nodup ∧ (∀ x, x ∈ st.update.flatMap Entry.members ↔ x ∈ verts inp) ∧
    (∀ e ∈ st.update, e.members ≠ []) ∧ st.update.Nodup :=
  (static_facts ok eok h).partition ok eok h

/-- **every edge of `E` between two different SCCs goes forward in `update_schedule`** -/
theorem schedule_respects_edges {inp : Input} {env : Env} {st : Static} (ok : InputOK inp) (eok : EnvOK env)
    (h : static inp env = .ok st) (e : Nat × Nat) (he : e ∈ eEdges inp st.cmap)
    (hne : vscc st.kos.vmap e.1 ≠ vscc st.kos.vmap e.2) :
    ∃ q1 q2, q1 < q2 ∧ ∃ (h2 : q2 < st.update.length), ∃ (h1 : q1 < st.update.length),
      e.1 ∈ st.update[q1].members ∧ e.2 ∈ st.update[q2].members :=
  (static_facts ok eok h).order_idx e he hne

/-- **explicit constraints against top-level callees are honoured**: for every pair `(a, b)` of
`top_level_callee_constraints`, translated as the pass does (`mapPair`), if both ends are vertices in different SCCs the
left one is scheduled before the right one -/
theorem callee_constraint_scheduled {inp : Input} {env : Env} {st : Static} (ok : InputOK inp) (eok : EnvOK env)
    (h : static inp env = .ok st) (c : Nat × Nat) (hc : c ∈ inp.tlc)
    (hv : (mapPair st.cmap (guardMap inp) c).1 ∈ verts inp ∧ (mapPair st.cmap (guardMap inp) c).2 ∈ verts inp)
    (hne : vscc st.kos.vmap (mapPair st.cmap (guardMap inp) c).1 ≠ vscc st.kos.vmap (mapPair st.cmap (guardMap inp) c).2) :
    ∃ q1 q2, q1 < q2 ∧ ∃ (h2 : q2 < st.update.length), ∃ (h1 : q1 < st.update.length),
      (mapPair st.cmap (guardMap inp) c).1 ∈ st.update[q1].members ∧
      (mapPair st.cmap (guardMap inp) c).2 ∈ st.update[q2].members :=
  schedule_respects_edges ok eok h _
    ((mem_eEdges inp _ _).mpr (.inr ((mem_gEdges inp _ _).mpr ⟨hv, .inr ⟨c, hc, rfl⟩⟩))) hne

/-- the shape seed C02-6 broke: `U(b) < M(p)` (or `M(q) < M(p)`) with `p` a plain CalleePort or the rdy port of an
interface — anything that is not the method port of an interface: the right end is translated to the port itself -/
theorem guardless_right_end (inp : Input) (h : (rawKeys inp).Nodup) (h2 : (inp.ifcs.map (·.meth)).Nodup)
    (a raw v : Nat) (hp : (v, raw) ∈ inp.ports ∨ ∃ x ∈ inp.ifcs, x.rawR = raw ∧ x.rdy = v)
    (hv : v ∉ inp.ifcs.map (·.meth)) :
    (mapPair (mapList inp) (guardMap inp) (a, raw)).2 = v := by
  obtain ⟨_, m1, m2, _, _, g2⟩ := map_exact inp h h2
  unfold mapPair
  simp only
  rcases hp with hp | ⟨x, hx, rfl, rfl⟩
  · rw [m1 _ hp, g2 _ hv]
  · rw [(m2 x hx).2, g2 _ hv]

/-- … and the method of a non-blocking interface on the right is translated to its rdy port -/
theorem guarded_right_end (inp : Input) (h : (rawKeys inp).Nodup) (h2 : (inp.ifcs.map (·.meth)).Nodup)
    (a : Nat) (x : Ifc) (hx : x ∈ inp.ifcs) : (mapPair (mapList inp) (guardMap inp) (a, x.rawM)).2 = x.rdy := by
  obtain ⟨_, _, m2, _, g1, _⟩ := map_exact inp h h2
  unfold mapPair
  simp only
  rw [(m2 x hx).1, g1 x hx]

/-- **rdy before its method** whenever they are in different SCCs -/
theorem rdy_before_method {inp : Input} {env : Env} {st : Static} (ok : InputOK inp) (eok : EnvOK env)
    (h : static inp env = .ok st) (x : Ifc) (hx : x ∈ inp.ifcs) (hne : vscc st.kos.vmap x.rdy ≠ vscc st.kos.vmap x.meth) :
    ∃ q1 q2, q1 < q2 ∧ ∃ (h2 : q2 < st.update.length), ∃ (h1 : q1 < st.update.length),
      x.rdy ∈ st.update[q1].members ∧ x.meth ∈ st.update[q2].members :=
  schedule_respects_edges ok eok h (x.rdy, x.meth) ((mem_eEdges inp _ _).mpr (.inl ⟨x, hx, rfl⟩)) hne

/-- **the assert**: `assert len(scc_schedule) == len(SCCs)` fails iff some SCC is never scheduled, and then every
unscheduled SCC has an unscheduled predecessor in `G_new` (the leftovers lie on or behind a cycle of the condensation —
which can only come from a `rdy -> method` edge, the edges Kosaraju did not see) -/
theorem assert_iff_leftover (inp : Input) (env : Env) (ok : InputOK inp) (eok : EnvOK env) :
    (static inp env = .error .schedAssert ↔
      ∃ cm, calleeMap inp = some cm ∧
        let k := kosaraju (adjOf (gEdges inp cm)) (adjTOf (gEdges inp cm)) inp.order
        ∃ v, v < k.sccs.length ∧ v ∉ sccSchedule pickFirst (gnOf env (gnewE k.vmap (eEdges inp cm))) k.sccs.length) ∧
    (∀ cm, calleeMap inp = some cm →
      let k := kosaraju (adjOf (gEdges inp cm)) (adjTOf (gEdges inp cm)) inp.order
      let gn := gnOf env (gnewE k.vmap (eEdges inp cm))
      ∀ v, v < k.sccs.length → v ∉ sccSchedule pickFirst gn k.sccs.length →
        ∃ a, a < k.sccs.length ∧ v ∈ gn a ∧ a ∉ sccSchedule pickFirst gn k.sccs.length) := by
  refine ⟨?_, ?_⟩
  · constructor
    · intro h
      obtain ⟨cm, hcm, hlen⟩ := static_err_sched h
      refine ⟨cm, hcm, ?_⟩
      intro k
      obtain ⟨_, _, _, _, _, hall⟩ := schedule_factsW (condW_of_ok ok eok cm).1 pickFirst
      by_cases hex : ∃ v, v < k.sccs.length ∧ v ∉ sccSchedule pickFirst (gnOf env (gnewE k.vmap (eEdges inp cm))) k.sccs.length
      · exact hex
      · exfalso
        apply hlen
        apply hall.mpr
        intro i hi
        by_cases hin : i ∈ sccSchedule pickFirst (gnOf env (gnewE k.vmap (eEdges inp cm))) k.sccs.length
        · exact hin
        · exact absurd ⟨i, hi, hin⟩ hex
    · rintro ⟨cm, hcm, v, hv, hnot⟩
      obtain ⟨_, _, _, _, _, hall⟩ := schedule_factsW (condW_of_ok ok eok cm).1 pickFirst
      unfold static
      simp only [hcm]
      split
      · rfl
      · next hlen =>
        exfalso
        exact hnot (hall.mp (by simpa [sccSchedule] using hlen) v hv)
  · intro cm _ k gn
    exact (schedule_factsW (condW_of_ok ok eok cm).1 pickFirst).2.2.2.2.1

/-- non-vacuity: `M(ifc) < U(1)` and `U(1) < M(ifc)`, i.e. method -> block -> rdy, and rdy -> method only in `E`: the three
are separate SCCs for Kosaraju, the condensation has the cycle, the assert fires -/
example : (match static { exInp with tlc := [(12, 1), (1, 12)] } exEnv with | .error .schedAssert => true | _ => false) = true := by decide

/-- **`ffs` and the shape of `schedule`**: `ffs` starts with `lambda: False`, is never empty and lists its functions
once; hence the schedule ends with a non-method (`next_func` always exists) and `schedule_no_method` has no function
twice (`mapping` is injective) -/
theorem schedule_shape {inp : Input} {env : Env} {st : Static} (ok : InputOK inp) (eok : EnvOK env)
    (h : static inp env = .ok st) (h1 : inp.ff.ffBlocks.Nodup) (h2 : inp.ff.flips.Nodup) :
    (ffsLayout inp.ff).head? = some FfFn.constFalse ∧ (ffsLayout inp.ff).Nodup ∧
    st.schedule = st.update.map (slotOf (portVerts inp)) ++ (ffsLayout inp.ff).map Slot.ff ∧
    SchedOK st.schedule :=
  ⟨ffsLayout_head _, ffsLayout_nodup _ h1 h2, (static_ok h).choose_spec.2.2.2.2.2.2, schedOK_of_static ok eok h h1 h2⟩

example : ffsLayout ⟨true, [7, 8], true, false, [0, 1], true⟩ =
    [.constFalse, .printLineTrace, .ffBlk 7, .ffBlk 8, .vcd, .flip 0, .flip 1, .clearCl] := by decide

/-! ## the wrappers -/

/-- **wrapper indices**: `my_idx_orig` is the port's own index in `schedule`, `my_idx_new` the number of non-method
entries before it (= the index in `schedule_no_method` of the next function); only CalleePorts are wrapped -/
theorem wrap_exact {S : List Slot} (ok : SchedOK S) (p : Nat) :
    (∀ v, S[p]? = some (Slot.port v) → wrapAt S p = some ⟨p, npc S p⟩) ∧
    (∀ w, wrapAt S p = some w → ∃ v, S[p]? = some (Slot.port v)) :=
  ⟨fun _ hp => wrapAt_spec ok hp, fun _ hw => wrapAt_some hw⟩

example : wrapAt exSched 0 = some ⟨0, 0⟩ ∧ wrapAt exSched 3 = some ⟨3, 2⟩ ∧ wrapAt exSched 5 = some ⟨5, 2⟩ ∧
    wrapAt exSched 1 = none := by decide

/-! ## every sequence of calls -/

/-- **no call is rejected**: a sequence of calls is executed iff every call names a (wrapped) CalleePort of the schedule -/
theorem exec_total {S : List Slot} (ok : SchedOK S) (s : St) (calls : List Nat) :
    (∃ r, exec S s calls = some r) ↔ ∀ p ∈ calls, ∃ v, S[p]? = some (Slot.port v) :=
  ⟨fun ⟨r, hr⟩ => exec_some calls s r hr, fun h => ⟨_, exec_eq ok calls s h⟩⟩

/-- **the plan of one call**: if the port lies at or after `orig_schedule_index` the non-method entries between the
two are executed, then the method; otherwise the rest of the schedule is executed first, the cycle count is
incremented, and the call is served from the start of the schedule -/
theorem call_plan {S : List Slot} (ok : SchedOK S) {s : St} (inv : Inv S s) {p v : Nat} (hp : S[p]? = some (Slot.port v)) :
    callAt S s p = some
      (if s.j ≤ p then
        ⟨npc S p, p + 1, s.cycles, s.done, s.cur ++ runRange (npc S s.j) (npc S p) ++ [Ev.meth p]⟩
      else
        ⟨npc S p, p + 1, s.cycles + 1, s.done ++ [s.cur ++ runRange (npc S s.j) (snm S).length],
          runRange 0 (npc S p) ++ [Ev.meth p]⟩) ∧
    Inv S (callS S s p) := by
  rw [callAt_eq ok s hp, callS_eq inv hp]
  exact ⟨rfl, by rw [← callS_eq inv hp]; exact inv_call inv hp⟩

/-- the invariant holds at the start and after every sequence of calls -/
theorem invariant {S : List Slot} (ok : SchedOK S) (calls : List Nat) (r : St) (h : exec S St.init calls = some r) : Inv S r := by
  have hp := exec_some calls St.init r h
  rw [exec_eq ok calls St.init hp] at h
  cases h
  exact inv_exec calls St.init (inv_init S) hp

/-- **each cycle is the static schedule with the methods that were not called left out**: the events of every finished
cycle, and of the running one, form a sublist of `fullEvents schedule` (the schedule read as events, ports included) -/
theorem cycle_is_schedule_sublist {S : List Slot} (ok : SchedOK S) (calls : List Nat) (r : St)
    (h : exec S St.init calls = some r) :
    (∀ c ∈ r.done, c.Sublist (fullEvents S 0 0)) ∧ r.cur.Sublist (fullEvents (S.take r.j) 0 0) ∧
    r.cur.Sublist (fullEvents S 0 0) := by
  have inv := invariant ok calls r h
  refine ⟨inv.done_sub, inv.cur_sub, inv.cur_sub.trans ?_⟩
  have hS : S = S.take r.j ++ S.drop r.j := (List.take_append_drop _ _).symm
  conv => rhs; rw [hS]
  rw [fullEvents_append]
  exact List.sublist_append_left _ _

/-- **every non-method entry of the schedule runs exactly once per cycle, in schedule order**: the `run` events of a
finished cycle are `schedule_no_method[0], …, [N-1]`; those of the running cycle are the first `new_schedule_index` -/
theorem every_entry_once_per_cycle {S : List Slot} (ok : SchedOK S) (calls : List Nat) (r : St)
    (h : exec S St.init calls = some r) :
    (∀ c ∈ r.done, c.filter Ev.isRun = (List.range (snm S).length).map Ev.run) ∧
    r.cur.filter Ev.isRun = (List.range r.i).map Ev.run ∧
    (∀ c ∈ r.done, ∀ k, k < (snm S).length → c.count (Ev.run k) = 1) ∧
    (∀ k, r.cur.count (Ev.run k) = if k < r.i then 1 else 0) := by
  have inv := invariant ok calls r h
  have hcount : ∀ (c : List Ev) (n k : Nat), c.filter Ev.isRun = (List.range n).map Ev.run →
      c.count (Ev.run k) = if k < n then 1 else 0 := by
    intro c n k hc
    have h1 : c.count (Ev.run k) = (c.filter Ev.isRun).count (Ev.run k) := by
      rw [List.count_filter]; rfl
    rw [h1, hc]
    have hnd : ((List.range n).map Ev.run).Nodup := nodup_map_of_inj_on List.nodup_range (fun a _ b _ e => by cases e; rfl)
    rw [List.Nodup.count hnd]
    have : Ev.run k ∈ (List.range n).map Ev.run ↔ k < n := by
      constructor
      · intro hm
        obtain ⟨k', hk', e⟩ := List.mem_map.mp hm
        cases e
        exact List.mem_range.mp hk'
      · intro hk; exact List.mem_map.mpr ⟨k, List.mem_range.mpr hk, rfl⟩
    simp only [this]
  refine ⟨fun c hc => by rw [inv.done_run c hc, runRange_zero], by rw [inv.cur_run, runRange_zero], ?_, ?_⟩
  · intro c hc k hk
    rw [hcount c _ k (by rw [inv.done_run c hc, runRange_zero]), if_pos hk]
  · intro k
    exact hcount r.cur _ k (by rw [inv.cur_run, runRange_zero])

/-- **the methods are executed in call order, each call exactly once** -/
theorem methods_in_call_order {S : List Slot} (ok : SchedOK S) (calls : List Nat) (r : St)
    (h : exec S St.init calls = some r) : (r.done.flatten ++ r.cur).filterMap Ev.methIdx = calls := by
  have hp := exec_some calls St.init r h
  rw [exec_eq ok calls St.init hp] at h
  cases h
  have := methsOf_exec S calls St.init
  simpa [methsOf, St.init] using this

/-- **the cycles are the maximal strictly ascending runs of the call sequence**: `simulated_cycles` (= the number of
finished cycles) is the number of calls whose port does not lie after the port of the call before -/
theorem cycle_count {S : List Slot} (ok : SchedOK S) (calls : List Nat) (r : St) (h : exec S St.init calls = some r) :
    r.cycles = descFrom 0 calls ∧ r.done.length = descFrom 0 calls := by
  have hp := exec_some calls St.init r h
  rw [exec_eq ok calls St.init hp] at h
  cases h
  have := execS_cycles S calls St.init
  simpa [St.init] using this

/-- two consecutive calls are served in the same cycle iff the second port lies strictly after the first in `schedule`;
otherwise exactly one cycle boundary lies between them -/
theorem same_cycle_iff_ascending (S : List Slot) (s : St) (p q : Nat) :
    (callS S (callS S s p) q).cycles = (callS S s p).cycles + (if q ≤ p then 1 else 0) := by
  obtain ⟨_, h2, _⟩ := callS_cycles S s p
  obtain ⟨h1, _, _⟩ := callS_cycles S (callS S s p) q
  rw [h1, h2]
  by_cases h : q ≤ p
  · have : p + 1 > q := by omega
    simp [h, this]
  · have : ¬ p + 1 > q := by omega
    simp [h, this]

example : descFrom 0 [0, 3, 0, 3, 3] = 2 ∧
    (exec exSched St.init [0, 3, 0, 3, 3]).map (fun r => (r.cycles, r.done, r.cur)) =
      some (2, [[.meth 0, .run 0, .run 1, .meth 3, .run 2, .run 3, .run 4, .run 5],
                [.meth 0, .run 0, .run 1, .meth 3, .run 2, .run 3, .run 4, .run 5]], [.run 0, .run 1, .meth 3]) := by decide

/-- the event of the schedule entry at index `q` -/
def evAt (S : List Slot) (q : Nat) : Ev := if (S.getD q (Slot.blk 0)).isPort then Ev.meth q else Ev.run (npc S q)

/-- **two entries of the schedule execute in schedule order whenever both execute in a cycle** (finished or running),
for every sequence of calls -/
theorem pair_order_at_runtime {S : List Slot} (ok : SchedOK S) (calls : List Nat) (r : St)
    (h : exec S St.init calls = some r) (q1 q2 : Nat) (hlt : q1 < q2) (hq2 : q2 < S.length)
    (c : List Ev) (hc : c ∈ r.done ∨ c = r.cur) (h1 : evAt S q1 ∈ c) (h2 : evAt S q2 ∈ c) :
    ∃ m1 m2, c = m1 ++ evAt S q1 :: m2 ∧ evAt S q2 ∈ m2 := by
  obtain ⟨hd, _, hcur⟩ := cycle_is_schedule_sublist ok calls r h
  have hsub : c.Sublist (fullEvents S 0 0) := by
    rcases hc with hc | rfl
    · exact hd c hc
    · exact hcur
  have hlen := fullEvents_length S 0 0
  have hev : ∀ q (hq : q < S.length), (fullEvents S 0 0)[q]'(by rw [hlen]; exact hq) = evAt S q := by
    intro q hq
    rw [fullEvents_getElem S q hq]
    unfold evAt
    rw [List.getD_eq_getElem?_getD, List.getElem?_eq_getElem hq]; rfl
  have hq1 : q1 < S.length := by omega
  have hL : fullEvents S 0 0 = (fullEvents S 0 0).take q1 ++ evAt S q1 :: (fullEvents S 0 0).drop (q1 + 1) := by
    rw [← hev q1 hq1, List.getElem_cons_drop, List.take_append_drop]
  have hb : evAt S q2 ∈ (fullEvents S 0 0).drop (q1 + 1) := by
    rw [← hev q2 hq2, List.mem_iff_getElem]
    refine ⟨q2 - (q1 + 1), by simp [hlen]; omega, ?_⟩
    simp only [List.getElem_drop]
    congr 1; omega
  exact sublist_order hsub (fullEvents_nodup S 0 0) hL hb h1 h2

/-- **constraints are honoured at run time, for every order of the calls**: for every edge of `E` (a value or explicit
constraint between blocks, a translated callee constraint, `rdy -> method`) between different SCCs there are two
entries `q1 < q2` of the schedule holding its ends, and in every cycle of every call sequence in which both entries
execute, `q1` executes first -/
theorem constraint_order_at_runtime {inp : Input} {env : Env} {st : Static} (ok : InputOK inp) (eok : EnvOK env)
    (h : static inp env = .ok st) (h1 : inp.ff.ffBlocks.Nodup) (h2 : inp.ff.flips.Nodup)
    (e : Nat × Nat) (he : e ∈ eEdges inp st.cmap) (hne : vscc st.kos.vmap e.1 ≠ vscc st.kos.vmap e.2) :
    ∃ q1 q2, q1 < q2 ∧ q2 < st.schedule.length ∧
      e.1 ∈ (st.schedule.getD q1 (Slot.blk 0)).members ∧ e.2 ∈ (st.schedule.getD q2 (Slot.blk 0)).members ∧
      ∀ (calls : List Nat) (r : St), exec st.schedule St.init calls = some r →
        ∀ c, (c ∈ r.done ∨ c = r.cur) → evAt st.schedule q1 ∈ c → evAt st.schedule q2 ∈ c →
          ∃ m1 m2, c = m1 ++ evAt st.schedule q1 :: m2 ∧ evAt st.schedule q2 ∈ m2 := by
  obtain ⟨q1, q2, hlt, hq2, hq1, hm1, hm2⟩ := schedule_respects_edges ok eok h e he hne
  obtain ⟨_, _, hs, sok⟩ := schedule_shape ok eok h h1 h2
  have hget : ∀ q (hq : q < st.update.length), st.schedule.getD q (Slot.blk 0) = slotOf (portVerts inp) st.update[q] := by
    intro q hq
    rw [hs, List.getD_eq_getElem?_getD, List.getElem?_append_left (by simpa using hq)]
    simp [List.getElem?_eq_getElem hq]
  have hlen : q2 < st.schedule.length := by rw [hs]; simp; omega
  refine ⟨q1, q2, hlt, hlen, by rw [hget q1 hq1, slotOf_members]; exact hm1, by rw [hget q2 hq2, slotOf_members]; exact hm2, ?_⟩
  intro calls r hr c hc
  exact pair_order_at_runtime sok calls r hr q1 q2 hlt hlen c hc

/-- **writer before reader at run time** (reuse of `PV.C02d`): let `I` be a `GenDAGPass` input whose final value
constraints are among `all_constraints`; if block `a` (not an `update_ff` block) writes a bit that block `b` reads, both
are vertices and lie in different SCCs, then in every cycle of every call sequence the entry of `a` executes before the
entry of `b` — or the pair is explicitly inverted and `b`'s entry executes first -/
theorem writer_before_reader_at_runtime {inp : Input} {env : Env} {st : Static} (ok : InputOK inp) (eok : EnvOK env)
    (h : static inp env = .ok st) (h1 : inp.ff.ffBlocks.Nodup) (h2 : inp.ff.flips.Nodup)
    (I : PV.GenDag.Input) (hwf : I.WF) (L : PV.Nets.Leaves) (hL : ∀ o ∈ I.objs, PV.Nets.WfObj L o)
    (hsub : ∀ p ∈ PV.GenDag.valueConstraints I, p ∈ inp.cons)
    (a : PV.GenDag.Blk) (ha : a ∈ I.blks) (b : PV.GenDag.Blk) (hb : b ∈ I.blks) (hne : a.id ≠ b.id) (hff : a.ff = false)
    (bit : PV.Nets.Bit) (hv : PV.Nets.ValidBit L bit) (hw : ∃ w ∈ a.writes, PV.Nets.covers w bit)
    (hr : ∃ r ∈ b.reads, PV.Nets.covers r bit)
    (hav : a.id ∈ verts inp) (hbv : b.id ∈ verts inp) (hscc : vscc st.kos.vmap a.id ≠ vscc st.kos.vmap b.id) :
    ∃ x y, ((x, y) = (a.id, b.id) ∨ ((x, y) = (b.id, a.id) ∧ (b.id, a.id) ∈ PV.GenDag.explicitPairs I)) ∧
      ∃ q1 q2, q1 < q2 ∧ q2 < st.schedule.length ∧
        x ∈ (st.schedule.getD q1 (Slot.blk 0)).members ∧ y ∈ (st.schedule.getD q2 (Slot.blk 0)).members ∧
        ∀ (calls : List Nat) (r : St), exec st.schedule St.init calls = some r →
          ∀ c, (c ∈ r.done ∨ c = r.cur) → evAt st.schedule q1 ∈ c → evAt st.schedule q2 ∈ c →
            ∃ m1 m2, c = m1 ++ evAt st.schedule q1 :: m2 ∧ evAt st.schedule q2 ∈ m2 := by
  have himp : (a.id, b.id) ∈ PV.GenDag.implicitPairs I :=
    (PV.C02d.implicit_iff_bits I hwf L hL a.id b.id).mpr ⟨a, ha, b, hb, rfl, rfl, hne, hff, bit, hv, hw, hr⟩
  have edge : ∀ x y, (x, y) ∈ PV.GenDag.valueConstraints I → x ∈ verts inp → y ∈ verts inp → (x, y) ∈ eEdges inp st.cmap :=
    fun x y hxy hx hy => (mem_eEdges inp _ _).mpr (.inr ((mem_gEdges inp _ _).mpr ⟨⟨hx, hy⟩, .inl (hsub _ hxy)⟩))
  by_cases hx : (b.id, a.id) ∈ PV.GenDag.explicitPairs I
  · refine ⟨b.id, a.id, .inr ⟨rfl, hx⟩, ?_⟩
    exact constraint_order_at_runtime ok eok h h1 h2 (b.id, a.id)
      (edge _ _ ((PV.C02d.final_constraints I _).mpr (.inl hx)) hbv hav) (fun e => hscc e.symm)
  · refine ⟨a.id, b.id, .inl rfl, ?_⟩
    exact constraint_order_at_runtime ok eok h h1 h2 (a.id, b.id)
      (edge _ _ (PV.C02d.implicit_kept I (a.id, b.id) himp hx) hav hbv) hscc

/-- non-vacuity of the run-time order: in the example `1` (up_compose_in, entry 2) < `3` (pull, entry 3) < … and the
second cycle of the call sequence `pull, push, pull` runs `push, up_amp, up_compose_in, pull` in this order -/
example : evAt exSched 2 = .run 1 ∧ evAt exSched 3 = .meth 3 ∧
    (exec exSched St.init [3, 0, 3]).map (fun r => (r.done, r.cur)) =
      some ([[.run 0, .run 1, .meth 3, .run 2, .run 3, .run 4, .run 5]], [.meth 0, .run 0, .run 1, .meth 3]) := by decide

/-! ## frame and `sim_reset` -/

/-- **the log already written does not influence what the calls do**: running calls from a state equals running them
from the same two indices with an empty log, with the old log put in front -/
theorem exec_frame (S : List Slot) (s : St) (calls : List Nat) :
    execS S s calls = prefixLog s.cycles s.done s.cur (execS S ⟨s.i, s.j, 0, [], []⟩ calls) := by
  rw [← execS_prefix, prefixLog_self]

/-- **`sim_reset`** leaves `new_schedule_index` / `orig_schedule_index` alone, counts three cycles (the first `+= 1` closes
what was running), and leaves the update entries already executed once in the cycle that follows: at a cycle start
(`i = j = 0`) the calls after a reset behave exactly as from power-on, with `up()` of the reset in front of the first
cycle — so **the update entries run twice in the cycle in which reset is released** -/
theorem reset_effect (S : List Slot) (s : St) (calls : List Nat) :
    (resetAt S s).i = s.i ∧ (resetAt S s).j = s.j ∧ (resetAt S s).cycles = s.cycles + 3 ∧
    (resetAt S s).done = s.done ++ [s.cur, runRange 0 (nUps S) ++ runRange (nUps S) (snm S).length,
                                     runRange 0 (nUps S) ++ runRange (nUps S) (snm S).length] ∧
    (resetAt S s).cur = runRange 0 (nUps S) ∧
    (s.i = 0 → s.j = 0 →
      execS S (resetAt S s) calls = prefixLog (resetAt S s).cycles (resetAt S s).done (runRange 0 (nUps S)) (execS S St.init calls)) := by
  refine ⟨rfl, rfl, rfl, rfl, rfl, ?_⟩
  intro hi hj
  rw [exec_frame]
  have : (⟨(resetAt S s).i, (resetAt S s).j, 0, [], []⟩ : St) = St.init := by
    simp [resetAt, hi, hj, St.init]
  rw [this]; rfl

example : (resetAt exSched St.init).cycles = 3 ∧ (resetAt exSched St.init).cur = [.run 0, .run 1] ∧
    (execS exSched (resetAt exSched St.init) [3]).cur = [.run 0, .run 1, .run 0, .run 1, .meth 3] := by decide

/-! ## non-vacuity: the hypotheses of the theorems are jointly satisfiable (the example design, concrete call sequences) -/

theorem exStaticOk : ∃ st, static exInp exEnv = .ok st ∧ st.schedule = exSched := by
  have h0 := exStatic
  cases h : static exInp exEnv with
  | ok st => rw [h] at h0; exact ⟨st, rfl, h0⟩
  | error e => rw [h] at h0; cases h0

theorem exSchedOK : SchedOK exSched := ⟨by decide, ⟨_, rfl, rfl⟩⟩

theorem exCalls : ∀ p ∈ [3, 0, 3, 5, 4, 4], ∃ v, exSched[p]? = some (Slot.port v) := by
  intro p hp
  simp only [List.mem_cons, List.not_mem_nil, or_false] at hp
  rcases hp with rfl | rfl | rfl | rfl | rfl | rfl <;> exact ⟨_, rfl⟩

example : (rawKeys exInp).Nodup ∧ (exInp.ifcs.map (·.meth)).Nodup ∧
    (mapPair (mapList exInp) (guardMap exInp) (1, 11)).2 = 3 ∧ (mapPair (mapList exInp) (guardMap exInp) (1, 12)).2 = 5 :=
  ⟨by decide, by decide, guardless_right_end exInp (by decide) (by decide) 1 11 3 (.inl (by decide)) (by decide),
   guarded_right_end exInp (by decide) (by decide) 1 ⟨4, 5, 12, 13⟩ (by decide)⟩

/-- `static_total`, `schedule_partition`, `schedule_shape` on the example -/
example : ∃ st, static exInp exEnv = .ok st ∧ (st.update.flatMap Entry.members).Nodup ∧ SchedOK st.schedule := by
  obtain ⟨st, h, _⟩ := exStaticOk
  exact ⟨st, h, (schedule_partition exOK exEnvOK h).1, (schedule_shape exOK exEnvOK h (by decide) (by decide)).2.2.2⟩

/-- `schedule_respects_edges` / `callee_constraint_scheduled` / `rdy_before_method` / `constraint_order_at_runtime` on the
example: `U(1) < M(ifc)` became the edge `1 -> 5` (the rdy port), and `5 -> 4` is the interface's own edge; all groups are
singletons, so the hypothesis "different SCCs" holds -/
example : ∃ st, static exInp exEnv = .ok st ∧ (1, 5) ∈ eEdges exInp st.cmap ∧ (5, 4) ∈ eEdges exInp st.cmap ∧
    vscc st.kos.vmap 1 ≠ vscc st.kos.vmap 5 ∧ vscc st.kos.vmap 5 ≠ vscc st.kos.vmap 4 ∧
    ∃ q1 q2, q1 < q2 ∧ q2 < st.schedule.length ∧ 1 ∈ (st.schedule.getD q1 (Slot.blk 0)).members ∧
      5 ∈ (st.schedule.getD q2 (Slot.blk 0)).members := by
  obtain ⟨st, h, _⟩ := exStaticOk
  have key : (match static exInp exEnv with
      | .ok st => decide ((1, 5) ∈ eEdges exInp st.cmap ∧ (5, 4) ∈ eEdges exInp st.cmap ∧
          vscc st.kos.vmap 1 ≠ vscc st.kos.vmap 5 ∧ vscc st.kos.vmap 5 ≠ vscc st.kos.vmap 4)
      | .error _ => false) = true := by decide
  rw [h] at key
  obtain ⟨k1, k2, k3, k4⟩ := of_decide_eq_true key
  obtain ⟨q1, q2, a, b, c, d, _⟩ := constraint_order_at_runtime exOK exEnvOK h (by decide) (by decide) (1, 5) k1 k3
  exact ⟨st, h, k1, k2, k3, k4, q1, q2, a, b, c, d⟩

/-- the run-time theorems on a concrete call sequence (pull, push, pull, ifc.rdy, ifc, ifc: three cycle boundaries) -/
example : ∃ r, exec exSched St.init [3, 0, 3, 5, 4, 4] = some r ∧ Inv exSched r ∧ r.cycles = 3 ∧
    (∀ c ∈ r.done, c.filter Ev.isRun = (List.range 6).map Ev.run) ∧
    (r.done.flatten ++ r.cur).filterMap Ev.methIdx = [3, 0, 3, 5, 4, 4] ∧
    (∀ c ∈ r.done, c.Sublist (fullEvents exSched 0 0)) := by
  obtain ⟨r, hr⟩ := (exec_total exSchedOK St.init _).mpr exCalls
  refine ⟨r, hr, invariant exSchedOK _ r hr, ?_, (every_entry_once_per_cycle exSchedOK _ r hr).1,
    methods_in_call_order exSchedOK _ r hr, (cycle_is_schedule_sublist exSchedOK _ r hr).1⟩
  rw [(cycle_count exSchedOK _ r hr).1]; decide

example : (callS exSched (callS exSched St.init 3) 0).cycles = 1 ∧ (callS exSched (callS exSched St.init 0) 3).cycles = 0 :=
  ⟨by rw [same_cycle_iff_ascending]; decide, by rw [same_cycle_iff_ascending]; decide⟩

example : (callAt exSched St.init 3).map (·.cur) = some [.run 0, .run 1, .meth 3] :=
  by rw [(call_plan exSchedOK (inv_init _) (v := 3) rfl).1]; decide

example : execS exSched ⟨2, 4, 5, [[.run 9]], [.run 8]⟩ [0] =
    prefixLog 5 [[.run 9]] [.run 8] (execS exSched ⟨2, 4, 0, [], []⟩ [0]) := exec_frame _ _ _

/-- `writer_before_reader_at_runtime` on `PV.C02d.ex1` (block 3 writes `x[0:4]`, block 5 reads `x[2:6]`, shared bit 3 of
signal 1) scheduled open-loop together with a plain port `7` constrained by `U(5) < M(port)` -/
def exInp2 : Input :=
  { blocks := [1, 2, 3, 4, 5, 6], ports := [(7, 10)], ifcs := [], cons := [(3, 5), (4, 5), (1, 2)], tlc := [(5, 10)],
    order := [7, 5, 6, 3, 1, 4, 2], ff := ⟨false, [9], false, false, [0], true⟩ }

theorem exWf1 : ∀ o ∈ PV.C02d.ex1.objs, PV.Nets.WfObj PV.C02d.exL o := by
  intro o ho
  have : o = PV.C02d.sA ∨ o = PV.C02d.sWhole ∨ o = PV.C02d.x04 ∨ o = PV.C02d.x48 ∨ o = PV.C02d.x26 ∨ o = PV.C02d.sB := by
    simp [PV.GenDag.Input.objs, PV.GenDag.readObjs, PV.GenDag.writtenObjs, PV.C02d.ex1] at ho
    rcases ho with h | h | h | h | h | h <;> simp [h]
  rcases this with h | h | h | h | h | h <;> subst h
  · intro _; exact ⟨[0], 4, by simp [PV.C02d.exL, PV.C02d.sA], by omega, by simp [PV.C02d.sA], by simp [PV.C02d.sA]⟩
  · intro _; exact ⟨[0], 4, by simp [PV.C02d.exL, PV.C02d.sWhole], by omega, by simp [PV.C02d.sWhole], by simp [PV.C02d.sWhole]⟩
  · intro _; exact ⟨[], 8, by simp [PV.C02d.exL, PV.C02d.x04], by omega, by simp [PV.C02d.x04], by simp [PV.C02d.x04]⟩
  · intro _; exact ⟨[], 8, by simp [PV.C02d.exL, PV.C02d.x48], by omega, by simp [PV.C02d.x48], by simp [PV.C02d.x48]⟩
  · intro _; exact ⟨[], 8, by simp [PV.C02d.exL, PV.C02d.x26], by omega, by simp [PV.C02d.x26], by simp [PV.C02d.x26]⟩
  · intro _; exact ⟨[1], 8, by simp [PV.C02d.exL, PV.C02d.sB], by omega, by simp [PV.C02d.sB], by simp [PV.C02d.sB]⟩

example : ∃ st, static exInp2 exEnv = .ok st ∧
    ∃ q1 q2, q1 < q2 ∧ q2 < st.schedule.length ∧ 3 ∈ (st.schedule.getD q1 (Slot.blk 0)).members ∧
      5 ∈ (st.schedule.getD q2 (Slot.blk 0)).members := by
  have key : (match static exInp2 exEnv with
      | .ok st => decide (vscc st.kos.vmap 3 ≠ vscc st.kos.vmap 5)
      | .error _ => false) = true := by decide
  cases h : static exInp2 exEnv with
  | error e => rw [h] at key; cases key
  | ok st =>
    rw [h] at key
    have ok2 : InputOK exInp2 := ⟨by decide, fun v => by simp [exInp2, verts, portVerts]; omega⟩
    obtain ⟨x, y, hxy, q1, q2, a, b, c, d, _⟩ := writer_before_reader_at_runtime ok2 exEnvOK h (by decide) (by decide)
      PV.C02d.ex1 (PV.C02d.wf_checked _ (by decide)) PV.C02d.exL exWf1 (by decide)
      ⟨3, false, [], [PV.C02d.x04]⟩ (by simp [PV.C02d.ex1]) ⟨5, false, [PV.C02d.x26], []⟩ (by simp [PV.C02d.ex1]) (by decide) rfl
      ⟨1, [], 3⟩ ⟨8, by simp [PV.C02d.exL], by simp⟩
      ⟨PV.C02d.x04, by simp, by simp [PV.C02d.x04], rfl, by simp [PV.C02d.x04], by
        intro s hs; simp [PV.C02d.x04] at hs; subst hs; simp [PV.C02d.x04]⟩
      ⟨PV.C02d.x26, by simp, by simp [PV.C02d.x26], rfl, by simp [PV.C02d.x26], by
        intro s hs; simp [PV.C02d.x26] at hs; subst hs; simp [PV.C02d.x26]⟩
      (by decide) (by decide) (of_decide_eq_true key)
    rcases hxy with hxy | ⟨_, hex⟩
    · cases hxy; exact ⟨st, rfl, q1, q2, a, b, c, d⟩
    · exact absurd hex (by decide)

end PV.C02o
