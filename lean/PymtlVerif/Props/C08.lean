/-! # C08 — property theorems (stub: not built yet) -/
namespace PV.C08
end PV.C08
