import PymtlVerif.Proofs.Nets
import PymtlVerif.Proofs.NetsElab
/-!
# C08 — connected signals form single-writer nets independent of connect order

Model: `Model/Nets.lean` (`nets` = `_floodfill_nets`, `resolve` = `_resolve_value_connections`).
Objects are numbered; `Reach E` is undirected reachability over the connect statements `E`.

What is proved here, for every design / edge list:
* `component` (frontier expansion, fuel `|nodes|`, sufficiency proved) is exactly `Reach`;
* `nets` = the `Reach` classes with at least two members, each exactly once, in canonical form;
* nets **and** the whole result of writer resolution are unchanged by permuting the connect
  statements and by swapping the two sides of any of them;
* writer characterisation against an order-free least-fixed-point specification (`Mark`, `Src`):
  the writer of a resolved net is a member that is driven from outside the net, and it is the only
  such member; a net left without writer has no such member; the marks the rounds collect are
  exactly the specified ones;
* `Src` read on bits: a member is a source iff it is a constant or shares a bit with an object
  marked from elsewhere (block-written, top-level input, reader of another net).

Not proved here (by correspondence only): that the implementation's own iteration order over Python
sets gives the same result as the model's canonical order (the model's result is characterised
order-free, the implementation is compared with it for several statement orders), and the
simulation part ("every member carries the writer's value").
-/
namespace PV.C08
open PV.Nets

/-- frontier expansion to the fixed point computes exactly the reachable set (no fuel hypothesis:
`|nodes|` rounds are proved to suffice) -/
theorem component_sound_complete (E : List Edge) (a b : Nat) : b ∈ component E a ↔ Reach E a b :=
  mem_component E a b

theorem component_is_closed (E : List Edge) (a : Nat) : closed E (component E a) = true :=
  component_closed E a

/-- every net is a strictly increasing list with at least two members and is exactly the
reachability class of its least member -/
theorem nets_are_classes (E : List Edge) (N : List Nat) (h : N ∈ nets E) :
    List.Pairwise (· < ·) N ∧ 2 ≤ N.length ∧ rep N ∈ N ∧ ∀ b, b ∈ N ↔ Reach E (rep N) b :=
  nets_spec h

/-- every class with two different members is a net -/
theorem nets_cover_classes (E : List Edge) (a b : Nat) (hr : Reach E a b) (hne : a ≠ b) :
    ∃ N ∈ nets E, a ∈ N ∧ b ∈ N :=
  nets_cover hr hne

/-- each class exactly once: no net is listed twice and two nets never share a member -/
theorem nets_each_once (E : List Edge) :
    (nets E).Nodup ∧ ∀ N ∈ nets E, ∀ M ∈ nets E, ∀ x, x ∈ N → x ∈ M → N = M :=
  ⟨nets_nodup E, fun _ hN _ hM _ hxN hxM => nets_disjoint hN hM hxN hxM⟩

/-- the nets are a function of the undirected edge *set* -/
theorem nets_edge_set (E E' : List Edge) (h : ∀ a b, Step E a b ↔ Step E' a b) : nets E = nets E' :=
  nets_congr h

/-- permuting the connect statements: same nets, same writers (the whole resolution result) -/
theorem perm_invariant (D : Design) (c : List (Nat × Nat × Nat)) (hp : c.Perm D.conns) :
    (D.withConns c).nets = D.nets ∧ resolve (D.withConns c) = resolve D := by
  have hn : (D.withConns c).nets = D.nets := nets_congr (fun a b => step_perm (hp.map _) a b)
  exact ⟨hn, resolve_withConns D c hn⟩

/-- swapping the two sides of any subset of the connect statements: same nets, same writers -/
theorem flip_invariant (D : Design) (p : Nat → Bool) :
    (D.withConns (flipConns p D.conns)).nets = D.nets ∧
    resolve (D.withConns (flipConns p D.conns)) = resolve D := by
  have h := elaborate_flip D p
  have hn : (D.withConns (flipConns p D.conns)).nets = D.nets := by
    apply nets_congr
    intro a b
    have key : ∀ (c : List (Nat × Nat × Nat)) (x y : Nat),
        Step (c.map (fun e => (e.1, e.2.1))) x y ↔ ∃ q, (x, y, q) ∈ c ∨ (y, x, q) ∈ c := by
      intro c x y
      unfold Step
      simp only [List.mem_map, Prod.mk.injEq]
      constructor
      · rintro (⟨⟨a1, a2, a3⟩, he, h1, h2⟩ | ⟨⟨a1, a2, a3⟩, he, h1, h2⟩)
        · simp only at h1 h2; subst h1 h2; exact ⟨a3, Or.inl he⟩
        · simp only at h1 h2; subst h1 h2; exact ⟨a3, Or.inr he⟩
      · rintro ⟨q, h | h⟩
        · exact Or.inl ⟨_, h, rfl, rfl⟩
        · exact Or.inr ⟨_, h, rfl, rfl⟩
    show Step ((flipConns p D.conns).map _) a b ↔ Step (D.conns.map _) a b
    rw [key, key]
    exact exists_congr (fun q => mem_flipConns p D.conns a b q)
  exact ⟨hn, resolve_withConns D _ hn⟩

/-- writer characterisation: the writer of a resolved net is a member of it that is driven from
outside the net (a constant, or sharing a bit with an object marked by an update block, as a
top-level input port, or as a reader of another net), and every member driven from outside is that
writer -/
theorem writer_unique (D : Design) (hwf : D.WF) (st : RState) (h : resolve D = .ok st)
    (w : Nat) (N : List Nat) (hN : (w, N) ∈ st.headed) :
    N ∈ D.nets ∧ w ∈ N ∧ Src D (rep N) w ∧ ∀ x ∈ N, Src D (rep N) x → x = w := by
  obtain ⟨hI, hP, hfin⟩ := (resolve_spec (D.rel_symm hwf.slices)).1 st h
  refine ⟨(hI.hnets _ hN).1, (hI.hnets _ hN).2.1, hI.srcT_sound (hI.wsrc _ hN), ?_⟩
  intro x hx hs
  exact hI.key _ hN x hx ((src_iff_srcT hI hP hfin _ _).mp hs)

/-- resolved nets and nets without writer together are the nets of the design, each once -/
theorem every_net_once (D : Design) (hwf : D.WF) (st : RState) (h : resolve D = .ok st) :
    (st.headed.map (·.2) ++ st.headless).Perm D.nets := by
  have := ((resolve_spec (D.rel_symm hwf.slices)).1 st h).2.1
  unfold Part at this
  simpa using this

/-- a net is left without writer only if none of its members is driven from outside -/
theorem headless_has_no_source (D : Design) (hwf : D.WF) (st : RState) (h : resolve D = .ok st)
    (N : List Nat) (hN : N ∈ st.headless) : ∀ x ∈ N, ¬ Src D (rep N) x := by
  obtain ⟨hI, hP, hfin⟩ := (resolve_spec (D.rel_symm hwf.slices)).1 st h
  intro x hx hs
  have hm : x ∈ N.filter (drivenBy D st.marks) := List.mem_filter.mpr ⟨hx, drivenBy_of_src hI hP hfin hs⟩
  rw [hfin N hN] at hm
  cases hm

/-- the marks collected by the rounds are exactly the order-free specification `Mark` -/
theorem marks_are_spec (D : Design) (hwf : D.WF) (st : RState) (h : resolve D = .ok st)
    (t : Nat) (o : Origin) : (t, o) ∈ st.marks ↔ Mark D t o := by
  obtain ⟨hI, hP, hfin⟩ := (resolve_spec (D.rel_symm hwf.slices)).1 st h
  exact ⟨fun hm => hI.sound _ hm, fun hm => mark_complete hI hP hfin hm⟩

/-- the only error of writer resolution is `MultiWriterError`, raised iff some net has two
different members that are both driven from outside -/
theorem two_writers_iff (D : Design) (hwf : D.WF) :
    ((∃ e, resolve D = .error e) ↔ Bad D) ∧ ∀ e, resolve D = .error e → e = .multiWriter :=
  ⟨resolve_error_iff D (D.rel_symm hwf.slices), fun e he => ((resolve_spec (D.rel_symm hwf.slices)).2 e he).1⟩

/-- "driven from outside", read on bits: `x` is a constant or has a bit that also belongs to an
object marked from elsewhere -/
theorem src_iff_bits (D : Design) (L : Leaves) (r x : Nat) (hx : WfObj L (D.obj x))
    (hm : ∀ t o, Mark D t o → WfObj L (D.obj t)) :
    Src D r x ↔ D.isConst x = true ∨
      ∃ bit, ValidBit L bit ∧ covers (D.obj x) bit ∧ ∃ t o, Mark D t o ∧ o ≠ Origin.net r ∧ covers (D.obj t) bit := by
  unfold Src
  constructor
  · rintro (h | ⟨t, o, hmk, ho, hr⟩)
    · exact Or.inl h
    · obtain ⟨bit, hv, c1, c2⟩ := (related_iff_overlap L _ _ hx (hm t o hmk)).mp hr
      exact Or.inr ⟨bit, hv, c1, t, o, hmk, ho, c2⟩
  · rintro (h | ⟨bit, hv, c1, t, o, hmk, ho, c2⟩)
    · exact Or.inl h
    · exact Or.inr ⟨t, o, hmk, ho, (related_iff_overlap L _ _ hx (hm t o hmk)).mpr ⟨bit, hv, c1, c2⟩⟩

/-- confluence of the propagation: started from **any** order of the nets and of the initial marks
(the two things the implementation obtains by iterating Python sets), the rounds raise iff some net
has two members driven from outside, and otherwise end with exactly the order-free result: `(w, N)`
is resolved iff `w` is the member of net `N` driven from outside, `N` stays without writer iff it
has no such member. (`resolve D` is the instance `T0 = initMarks D`, `ns = D.nets`.) -/
theorem propagation_confluent (D : Design) (hwf : D.WF) (T0 : Marks) (ns : List (List Nat))
    (hT : ∀ m, m ∈ T0 ↔ m ∈ initMarks D) (hns : ns.Perm D.nets) :
    ((∃ e, resolveFrom D T0 ns = .error e) ↔ Bad D) ∧
    (∀ e, resolveFrom D T0 ns = .error e → e = .multiWriter) ∧
    ∀ st, resolveFrom D T0 ns = .ok st →
      (∀ w N, (w, N) ∈ st.headed ↔ N ∈ D.nets ∧ w ∈ N ∧ Src D (rep N) w) ∧
      (∀ N, N ∈ st.headless ↔ N ∈ D.nets ∧ ∀ x ∈ N, ¬ Src D (rep N) x) := by
  obtain ⟨hok, herr⟩ := resolveFrom_spec (D.rel_symm hwf.slices) T0 ns hT hns
  refine ⟨⟨fun ⟨e, he⟩ => (herr e he).2, ?_⟩, fun e he => (herr e he).1, ?_⟩
  · intro hb
    cases hr : resolveFrom D T0 ns with
    | error e => exact ⟨e, rfl⟩
    | ok st => exact absurd hb (hok st hr).not_bad
  · intro st hr
    exact ⟨(hok st hr).headed_iff, (hok st hr).headless_iff⟩

theorem resolve_is_resolveFrom (D : Design) : resolve D = resolveFrom D (initMarks D) D.nets := rfl

/-! ## non-vacuity -/

example : nets [(0, 1), (2, 1), (5, 6), (7, 7)] = [[0, 1, 2], [5, 6]] := by decide

/-- a chain across nets: block 0 writes `x` (a struct, object 5); `x` drives `y` (4); the field
`y.1` (3) drives `z` (2); the slice `z[0:4]` (1) drives `o` (0); a constant (7) drives `k` (6).
In the canonical order of the nets the writers need three rounds. -/
def exD : Design :=
  { objs := [⟨3, .outp, 0, [], none⟩, ⟨2, .wire, 0, [], some (0, 4)⟩, ⟨2, .wire, 0, [], none⟩, ⟨1, .wire, 0, [1], none⟩,
             ⟨1, .wire, 0, [], none⟩, ⟨0, .wire, 0, [], none⟩, ⟨4, .wire, 0, [], none⟩, ⟨9, .const, 0, [], none⟩],
    par := [none],
    conns := [(1, 0, 0), (3, 2, 0), (5, 4, 0), (6, 7, 0)],
    blks := [⟨0, false, [(5, .at)], []⟩] }

example : exD.wf = true := by decide
example : (resolve exD).toOption.map (·.headed) = some [(5, [4, 5]), (7, [6, 7]), (3, [2, 3]), (1, [0, 1])] := by
  decide
/-- the same design visited in the opposite order of nets: other round structure, same writers -/
example : (resolveFrom exD (initMarks exD).reverse exD.nets.reverse).toOption.map (·.headed) =
    some [(7, [6, 7]), (5, [4, 5]), (3, [2, 3]), (1, [0, 1])] := by decide
example : resolve (exD.withConns exD.conns.reverse) = resolve exD :=
  (perm_invariant exD _ (List.reverse_perm _)).2
example : resolve (exD.withConns (flipConns (fun i => i % 2 == 0) exD.conns)) = resolve exD :=
  (flip_invariant exD _).2
/-- the writer of the last net of the chain is the slice, because it shares bits with `z` -/
example : related (exD.obj 1) (exD.obj 2) = true := by decide

end PV.C08
