import PymtlVerif.Proofs.Methods
import PymtlVerif.Proofs.Kahn
/-!
# C02, clause "explicit … METHOD ordering constraints are honoured too"

`I.process` (Model/Methods.lean) is the list of block-level pairs `GenDAGPass._process_methods` adds to
`all_constraints`, from the update-block → method call table (`I.Calls b m`), the declared constraints
(`I.Lt x y`: `M(x) < M(y)`, `U(b) < M(y)`, `M(x) < U(b)`; `I.Eqv x y`: `M(x) == M(y)` in either direction) and the set
of update blocks.

* `search_exact`, `class_exact` — the two work-list searches (per-method search with direction `w ∈ {-1,0,1}`,
  flood fill of the `==` classes) examine exactly the reachable states / class members: the model's fuel never
  cuts a search short.
* `process_exact` — **exact** characterisation of the added pairs (both directions, any number of hops): `(A,B)` is added
  iff there is a walk of the search from a method `m` called by one of the two blocks, forwards along `<` for `A`
  (`Fwd`) or backwards for `B` (`Bwd`), through `==` steps and `<` steps whose target is not a block, to a node `u`,
  one more declared constraint `u < v` (resp. `v < u`), and the other block is `v` itself (a constrained block) or calls
  a method of `v`'s `==` class — and none of the four exclusions of the code applies and `A ≠ B`.
* `sound` — every added pair is justified by a chain of declared constraints containing at least one `<`
  (`Rel I true a b`) between an end of `A` and an end of `B` (a method the block calls, or the block itself when the
  constraint names it).
* `complete_MM`, `complete_UM`, `complete_MU` — direct constraints: `M(x) < M(y)` orders every caller of a method of
  `x`'s class before every caller of a method of `y`'s class; `U(b) < M(y)` and `M(x) < U(b)` likewise — unless one
  of the exclusions applies.
* `complete_fwd`, `complete_bwd` — multi-hop completeness along the walks of `process_exact`.
* `schedule_direct`, `schedule_kahn` — any order that respects `I.process` (in particular Kahn's output for an edge
  set containing it, whatever the tie-break) runs every caller of `x` before every caller of `y`.

What is NOT proved (and not true of the code):
* transitivity in general — `A` calls `x`, `x < y`, `y < z`, `B` calls `z` is covered (`complete_fwd`), but a chain that
  has to pass *through a block* (`M(x) < U(b)`, `U(b) < M(z)`) only yields `(A,b)` and `(b,B)`, which a topological
  order composes; a `<` step whose target is a block ends the walk;
* the exclusions are evaluated on the last hop only (`u`, `v`), as in the code: an explicit opposite constraint further
  back on the walk does not suppress the pair; whether the resulting graph is acyclic is not claimed (cycles are
  rejected later by the scheduler — C02 `kahn_leftover`);
* `top_level_callee_constraints` (OpenLoopCLPass) and the greenlet marking of blocking interfaces are not modelled.
-/
namespace PV.C02m
open PV.Methods

/-- an end of block `A`: a method it calls, or `A` itself when it is an update block named by a constraint -/
def End (I : Input) (A a : Nat) : Prop := (a = A ∧ A ∈ I.blocks) ∨ I.Calls A a

/-- `a` stands before `b` in `order` -/
def Before (order : List Nat) (a b : Nat) : Prop := ∃ pre post, order = pre ++ a :: post ∧ b ∈ post

/-- `order` is topological for the edge list `E` (on the vertices it contains) -/
def Respects (order : List Nat) (E : List (Nat × Nat)) : Prop :=
  ∀ e ∈ E, e.1 ∈ order → e.2 ∈ order → Before order e.1 e.2

/-- the per-method search examines exactly the states reachable from `(m, 0)` by the steps of the code
    (`step_exact`) -/
theorem search_exact (I : Input) (m : Nat) (s : State) : s ∈ I.search m ↔ Reach I.nexts (m, 0) s := I.mem_search

/-- one step of the search in terms of the declared constraints: to a member of the `==` class with the same
    direction; backwards along a declared `<` when `w ≤ 0`; forwards when `w ≥ 0`; never onto a block -/
theorem step_exact (I : Input) (s t : State) :
    t ∈ I.nexts s ↔
      (t.2 = s.2 ∧ (∃ x, I.Eqv s.1 x) ∧ Rel I false s.1 t.1) ∨
      (s.2 ≤ 0 ∧ t.2 = -1 ∧ I.Lt t.1 s.1 ∧ t.1 ∉ I.blocks) ∨
      (s.2 ≥ 0 ∧ t.2 = 1 ∧ I.Lt s.1 t.1 ∧ t.1 ∉ I.blocks) := by
  rw [I.mem_nexts]
  constructor
  · rintro (⟨h1, h2, h3⟩ | h | h)
    · exact Or.inl ⟨h1, h2, Rel.of_reach h3⟩
    · exact Or.inr (Or.inl h)
    · exact Or.inr (Or.inr h)
  · rintro (⟨h1, h2, h3⟩ | h | h)
    · exact Or.inl ⟨h1, h2, h3.to_reach⟩
    · exact Or.inr (Or.inl h)
    · exact Or.inr (Or.inr h)

/-- the flood fill: `equiv[u]` (or `(u,)` when `u` is in no `==` constraint) is exactly the set of nodes linked to `u` by
    a chain of declared `==` constraints -/
theorem class_exact (I : Input) (u v : Nat) : v ∈ I.eqClass u ↔ Rel I false u v := by
  rw [I.mem_eqClass]; exact ⟨Rel.of_reach, Rel.to_reach⟩

/-- exact characterisation of the pairs `_process_methods` adds -/
theorem process_exact (I : Input) (A B : Nat) :
    (A, B) ∈ I.process ↔
      (∃ m u v vv, I.Calls A m ∧ Fwd I m u ∧ I.Lt u v ∧ v ∉ I.blocks ∧ Rel I false v vv ∧ I.Calls B vv ∧
          ¬ I.Lt B u ∧ ¬ I.Lt v A ∧ A ≠ B) ∨
      (∃ m u, I.Calls A m ∧ Fwd I m u ∧ I.Lt u B ∧ B ∈ I.blocks ∧ ¬ I.Lt u A ∧ A ≠ B) ∨
      (∃ m u v vv, I.Calls B m ∧ Bwd I m u ∧ I.Lt v u ∧ v ∉ I.blocks ∧ Rel I false v vv ∧ I.Calls A vv ∧
          ¬ I.Lt u A ∧ ¬ I.Lt B v ∧ A ≠ B) ∨
      (∃ m u, I.Calls B m ∧ Bwd I m u ∧ I.Lt A u ∧ A ∈ I.blocks ∧ ¬ I.Lt B u ∧ A ≠ B) := by
  rw [I.mem_process]
  constructor
  · rintro ⟨m, _, ⟨u, w⟩, hr, he⟩
    have hwalk := I.reach_walk hr
    rcases I.mem_emit.mp he with ⟨hw, v, hl, h⟩ | ⟨hw, v, hl, h⟩
    · have hb := hwalk.2 hw
      rcases h with ⟨hvb, blk, hc, hx, hne, heq⟩ | ⟨hvb, vv, vb, blk, hrv, hcv, hx1, hc, hx2, hne, heq⟩
      · simp only [Prod.mk.injEq] at heq; obtain ⟨rfl, rfl⟩ := heq
        exact Or.inr (Or.inr (Or.inr ⟨m, u, hc, hb, hl, hvb, hx, hne⟩))
      · simp only [Prod.mk.injEq] at heq; obtain ⟨rfl, rfl⟩ := heq
        exact Or.inr (Or.inr (Or.inl ⟨m, u, v, vv, hc, hb, hl, hvb, Rel.of_reach hrv, hcv, hx1, hx2, hne⟩))
    · have hf := hwalk.1 hw
      rcases h with ⟨hvb, blk, hc, hx, hne, heq⟩ | ⟨hvb, vv, vb, blk, hrv, hcv, hx1, hc, hx2, hne, heq⟩
      · simp only [Prod.mk.injEq] at heq; obtain ⟨rfl, rfl⟩ := heq
        exact Or.inr (Or.inl ⟨m, u, hc, hf, hl, hvb, hx, fun h => hne h.symm⟩)
      · simp only [Prod.mk.injEq] at heq; obtain ⟨rfl, rfl⟩ := heq
        exact Or.inl ⟨m, u, v, vv, hc, hf, hl, hvb, Rel.of_reach hrv, hcv, hx1, hx2, fun h => hne h.symm⟩
  · rintro (⟨m, u, v, vv, hc, hf, hl, hvb, hrv, hcv, hx1, hx2, hne⟩ | ⟨m, u, hc, hf, hl, hvb, hx, hne⟩ |
            ⟨m, u, v, vv, hc, hb, hl, hvb, hrv, hcv, hx1, hx2, hne⟩ | ⟨m, u, hc, hb, hl, hvb, hx, hne⟩)
    · obtain ⟨w, hw, hr⟩ := hf.reach
      refine ⟨m, ⟨A, hc⟩, (u, w), hr, I.mem_emit.mpr (Or.inr ⟨hw, v, hl, Or.inr ⟨hvb, vv, B, A, hrv.to_reach, hcv, hx1, hc, hx2, fun h => hne h.symm, rfl⟩⟩)⟩
    · obtain ⟨w, hw, hr⟩ := hf.reach
      refine ⟨m, ⟨A, hc⟩, (u, w), hr, I.mem_emit.mpr (Or.inr ⟨hw, B, hl, Or.inl ⟨hvb, A, hc, hx, fun h => hne h.symm, rfl⟩⟩)⟩
    · obtain ⟨w, hw, hr⟩ := hb.reach
      refine ⟨m, ⟨B, hc⟩, (u, w), hr, I.mem_emit.mpr (Or.inl ⟨hw, v, hl, Or.inr ⟨hvb, vv, A, B, hrv.to_reach, hcv, hx1, hc, hx2, hne, rfl⟩⟩)⟩
    · obtain ⟨w, hw, hr⟩ := hb.reach
      refine ⟨m, ⟨B, hc⟩, (u, w), hr, I.mem_emit.mpr (Or.inl ⟨hw, A, hl, Or.inl ⟨hvb, B, hc, hx, hne, rfl⟩⟩)⟩

/-- (sound) every added pair `(A,B)` has `A ≠ B` and is justified by a chain of declared constraints with at least one
    `<` step, from an end of `A` to an end of `B` -/
theorem sound (I : Input) (A B : Nat) (h : (A, B) ∈ I.process) :
    A ≠ B ∧ ∃ a b, End I A a ∧ End I B b ∧ Rel I true a b := by
  rcases (process_exact I A B).mp h with
    ⟨m, u, v, vv, hc, hf, hl, _, hrv, hcv, _, _, hne⟩ | ⟨m, u, hc, hf, hl, hvb, _, hne⟩ |
    ⟨m, u, v, vv, hc, hb, hl, _, hrv, hcv, _, _, hne⟩ | ⟨m, u, hc, hb, hl, hvb, _, hne⟩
  · obtain ⟨s, hs⟩ := hf.rel
    exact ⟨hne, m, vv, Or.inr hc, Or.inr hcv, by simpa using (hs.lt hl).trans hrv⟩
  · obtain ⟨s, hs⟩ := hf.rel
    exact ⟨hne, m, B, Or.inr hc, Or.inl ⟨rfl, hvb⟩, hs.lt hl⟩
  · obtain ⟨s, hs⟩ := hb.rel
    exact ⟨hne, vv, m, Or.inr hcv, Or.inr hc, by simpa using (hrv.symm.lt hl).trans hs⟩
  · obtain ⟨s, hs⟩ := hb.rel
    exact ⟨hne, A, m, Or.inl ⟨rfl, hvb⟩, Or.inr hc, by simpa using ((Rel.refl A).lt hl).trans hs⟩

/-- (multi-hop, forwards) `A` calls `m`; the search walks from `m` forwards to `u`; `u < v` is declared, `v` is a
    method and `B` calls a method of `v`'s class: `(A,B)` is added unless an exclusion applies -/
theorem complete_fwd (I : Input) (A B m u v vv : Nat) (hc : I.Calls A m) (hf : Fwd I m u) (hl : I.Lt u v)
    (hv : v ∉ I.blocks) (hvv : Rel I false v vv) (hcB : I.Calls B vv)
    (hx1 : ¬ I.Lt B u) (hx2 : ¬ I.Lt v A) (hne : A ≠ B) : (A, B) ∈ I.process :=
  (process_exact I A B).mpr (Or.inl ⟨m, u, v, vv, hc, hf, hl, hv, hvv, hcB, hx1, hx2, hne⟩)

/-- (multi-hop, backwards) mirror image of `complete_fwd` -/
theorem complete_bwd (I : Input) (A B m u v vv : Nat) (hc : I.Calls B m) (hb : Bwd I m u) (hl : I.Lt v u)
    (hv : v ∉ I.blocks) (hvv : Rel I false v vv) (hcA : I.Calls A vv)
    (hx1 : ¬ I.Lt u A) (hx2 : ¬ I.Lt B v) (hne : A ≠ B) : (A, B) ∈ I.process :=
  (process_exact I A B).mpr (Or.inr (Or.inr (Or.inl ⟨m, u, v, vv, hc, hb, hl, hv, hvv, hcA, hx1, hx2, hne⟩)))

/-- (complete, `M(x) < M(y)`) `A` calls a method of `x`'s `==` class, `B` calls a method of `y`'s class, `A ≠ B`, and
    neither explicit opposite constraint `B < x` nor `y < A` is declared: `(A,B)` is added -/
theorem complete_MM (I : Input) (A B x y x' y' : Nat) (hl : I.Lt x y) (hx : Rel I false x x') (hy : Rel I false y y')
    (hA : I.Calls A x') (hB : I.Calls B y') (hne : A ≠ B) (hm : x ∉ I.blocks ∨ y ∉ I.blocks)
    (hx1 : ¬ I.Lt B x) (hx2 : ¬ I.Lt y A) : (A, B) ∈ I.process := by
  rcases hm with hm | hm
  · exact complete_bwd I A B y' y x x' hB (Bwd.of_rel hy.symm) hl hm hx hA hx2 hx1 hne
  · exact complete_fwd I A B x' x y y' hA (Fwd.of_rel hx.symm) hl hm hy hB hx1 hx2 hne

/-- (complete, `U(b) < M(y)`) block `b` is ordered before every caller `B` of a method of `y`'s class (unless `B < y`
    is declared explicitly) -/
theorem complete_UM (I : Input) (b B y y' : Nat) (hl : I.Lt b y) (hb : b ∈ I.blocks) (hy : Rel I false y y')
    (hB : I.Calls B y') (hne : b ≠ B) (hx : ¬ I.Lt B y) : (b, B) ∈ I.process :=
  (process_exact I b B).mpr (Or.inr (Or.inr (Or.inr ⟨y', y, hB, Bwd.of_rel hy.symm, hl, hb, hx, hne⟩)))

/-- (complete, `M(x) < U(b)`) every caller `A` of a method of `x`'s class is ordered before block `b` (unless `x < A`
    is declared explicitly) -/
theorem complete_MU (I : Input) (A b x x' : Nat) (hl : I.Lt x b) (hb : b ∈ I.blocks) (hx : Rel I false x x')
    (hA : I.Calls A x') (hne : A ≠ b) (hx1 : ¬ I.Lt x A) : (A, b) ∈ I.process :=
  (process_exact I A b).mpr (Or.inr (Or.inl ⟨x', x, hA, Fwd.of_rel hx.symm, hl, hb, hx1, hne⟩))

/-- (schedule) an order that is topological for the added pairs runs, for every direct constraint `M(x) < M(y)`, every
    caller of (a method of the class of) `x` before every caller of (a method of the class of) `y` -/
theorem schedule_direct (I : Input) (order : List Nat) (hr : Respects order I.process)
    (A B x y x' y' : Nat) (hl : I.Lt x y) (hx : Rel I false x x') (hy : Rel I false y y')
    (hA : I.Calls A x') (hB : I.Calls B y') (hne : A ≠ B) (hm : x ∉ I.blocks ∨ y ∉ I.blocks)
    (hx1 : ¬ I.Lt B x) (hx2 : ¬ I.Lt y A) (hAo : A ∈ order) (hBo : B ∈ order) : Before order A B :=
  hr (A, B) (complete_MM I A B x y x' y' hl hx hy hA hB hne hm hx1 hx2) hAo hBo

/-- (schedule, Kahn) the schedulers' topological sort, with any tie-break, on any edge set that contains the added
    pairs: the caller of `x` stands before the caller of `y` whenever the latter is scheduled -/
theorem schedule_kahn (I : Input) (pick : List Nat → Nat) (V : List Nat) (E : List (Nat × Nat)) (fuel : Nat)
    (hE : ∀ e ∈ I.process, e ∈ E)
    (A B x y x' y' : Nat) (hl : I.Lt x y) (hx : Rel I false x x') (hy : Rel I false y y')
    (hA : I.Calls A x') (hB : I.Calls B y') (hne : A ≠ B) (hm : x ∉ I.blocks ∨ y ∉ I.blocks)
    (hx1 : ¬ I.Lt B x) (hx2 : ¬ I.Lt y A) (hBo : B ∈ PV.Kahn.kahn pick V E fuel []) :
    Before (PV.Kahn.kahn pick V E fuel []) A B :=
  (PV.Kahn.kahn_sound pick V E fuel).2 (A, B)
    (hE _ (complete_MM I A B x y x' y' hl hx hy hA hB hne hm hx1 hx2)) hBo

/-! ## non-vacuity (ids: methods 1.., blocks 10..) -/

/-- pipe queue: `M(deq=1) < M(enq=2)`, block 10 calls enq, block 11 calls deq -/
example : Input.process ⟨[(10, 2), (11, 1)], [(1, 2, false)], [10, 11]⟩ = [(11, 10), (11, 10)] := by decide

/-- pass-throughs on both sides (`1 == 2`, `2 < 3`, `3 == 4`; block 10 calls 1, block 11 calls 4) -/
example : (10, 11) ∈ Input.process ⟨[(10, 1), (11, 4)], [(1, 2, true), (2, 3, false), (3, 4, true)], [10, 11]⟩ := by
  decide

/-- two hops through methods nobody calls: `1 < 2 < 3` -/
example : (10, 11) ∈ Input.process ⟨[(10, 1), (11, 3)], [(1, 2, false), (2, 3, false)], [10, 11]⟩ := by decide

/-- the exclusion: `M(1) < M(2)` but the explicit `U(11) < M(1)` keeps `(10, 11)` out -/
example : (10, 11) ∉ Input.process ⟨[(10, 1), (11, 2)], [(1, 2, false), (11, 1, false)], [10, 11]⟩ := by decide

/-- `U(12) < M(1)`, `M(1) < U(13)` -/
example : Input.process ⟨[(10, 1)], [(12, 1, false), (1, 13, false)], [10, 12, 13]⟩ = [(12, 10), (10, 13)] := by decide

/-- a `<` step onto a block ends the walk: `M(1) < U(12)`, `U(12) < M(2)` gives `(10,12)` and `(12,11)`, not `(10,11)` -/
example : Input.process ⟨[(10, 1), (11, 2)], [(1, 12, false), (12, 2, false)], [10, 11, 12]⟩ = [(10, 12), (12, 11)] := by
  decide

end PV.C02m
