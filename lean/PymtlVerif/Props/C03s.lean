import PymtlVerif.Proofs.SConnFix
/-!
# C03s — the structural part of the translation: which `assign` is emitted in which module

Theorems about `Model/SConn.lean` (`gen_connections` + `StructuralRTLIRGenL1Pass._gen_metadata` + one `assign` per pair),
for every component hierarchy `H`, every list of connect statements, every net list and every order `nb` in which the
adjacency sets are iterated (`ValidOrder H nb`: `nb u` enumerates the neighbours of `u` without repetition).

1. `tree_edges`            the pairs filed for a net form a spanning tree of the writer's net, rooted at the writer and listed
                           parent-before-child; `tree_edges_fuel` (the fuel is not what ends the traversal);
                           `tree_edges_order_indep` (connect graph without cycle: the same oriented pairs whatever `nb`);
2. `host_total`, `host_can_name`, `host_elsewhere_iff`, `no_typeError_of_legal`
                           the four-case rule on the shapes PyMTL allows; the one legal shape filed under a component other
                           than the one that executed the statement: both ends are signals of the same child;
   `emit_error_iff`        `emit` fails exactly when a statement of the component is filed under it in neither orientation;
   `emit_error_iff_legal`  on legal designs: exactly when the component connects two signals of one and the same child;
3. `emit_exact`            when nothing raises, the emitted assigns are the filed tree edges, each once (reader = target);
   `emit_eq_assigns`       the per-component `connections` metadata is the part of `assigns` tagged with the component;
   `single_driver`         every member of a net other than the writer is the left side of exactly one assign, the writer of none;
   `members_equal_writer`  in every valuation that satisfies all assigns, every member equals its net's writer;
   `assigns_settle`, `assigns_fixed_point_unique`
                           (through `Proofs/Sched.lean`) executing the assigns in tree order reaches a valuation that
                           satisfies all of them and keeps every undriven signal; two valuations that satisfy all assigns and
                           agree on the undriven signals are equal;
4. `emit_order`            a component's assigns come in the order of its `connect_order`, each statement as written or swapped.

Hypotheses, where used: `NetsOk H` (what elaboration guarantees about `get_all_value_nets()`: members = the writer's
connected component, different nets not connected, every connected signal is in a headed net), `StmtsNodup H` (no component
states one pair twice: `_connect_signal_signal` skips it), `¬ HasCycle H.edges` (`_floodfill_nets` rejects loops; as a
multigraph: also no pair stated by two components), legality of the statements (`CanName`). All are evaluated on every
design of the correspondence run (`harness/checks/c03_sconn.py`).
-/
namespace PV.C03s
open PV.Nets PV.SConn

/-! ## 0. the hypotheses as the driver evaluates them on every design of the correspondence run -/

/-- `valid 1`, `nodup 1`, `netsok 1`, `cyclic 0` in a reply of `pv_sconn` establish `ValidOrder`, `StmtsNodup`, `NetsOk`,
`¬ HasCycle`; and a valid order always exists -/
theorem preconditions_sound {H : Hier} {nb : Sig → List Sig} :
    (validOrderB H nb = true → (∀ u, u ∉ nodesOf H.edges → nb u = []) → ValidOrder H nb) ∧
    (stmtsNodupB H = true → StmtsNodup H) ∧
    (netsOkB H = true → NetsOk H) ∧
    (cyc H.edges = false → ¬ HasCycle H.edges) ∧
    ValidOrder H H.nbrs :=
  ⟨validOrderB_sound, stmtsNodupB_sound, netsOkB_sound,
    fun (h : cyc H.edges = false) (hc : HasCycle H.edges) => (by rw [(cyc_iff _).mpr hc] at h; cases h), nbrs_valid H⟩

/-! ## 1. the traversal -/

/-- The pairs filed for the net of writer `w`:
every pair is a connection; the list is in discovery order — every source is the writer or the target of an *earlier* pair and
every target is new (`TreeOrd`, so the pairs are acyclic and rooted at the writer); every signal connected to the writer, other
than the writer, is the target of exactly one pair, the writer of none; nothing outside the writer's net is touched. -/
theorem tree_edges {H : Hier} {nb : Sig → List Sig} (hv : ValidOrder H nb) (w : Sig) :
    (∀ p ∈ traverse H nb w, Step H.edges p.1 p.2) ∧
    TreeOrd [w] (traverse H nb w) ∧
    (∀ pre p post, traverse H nb w = pre ++ p :: post → (p.1 = w ∨ p.1 ∈ pre.map (·.2)) ∧ p.2 ≠ w ∧ p.2 ∉ pre.map (·.2)) ∧
    (∀ m, Reach H.edges w m → m ≠ w → ((traverse H nb w).map (·.2)).count m = 1) ∧
    ((traverse H nb w).map (·.2)).count w = 0 ∧
    (∀ p ∈ traverse H nb w, Reach H.edges w p.1 ∧ Reach H.edges w p.2) := by
  refine ⟨traverse_step hv w, traverse_treeOrd hv w, ?_, fun m hr hne => traverse_count hv w m hr hne, ?_, traverse_reach hv w⟩
  · intro pre p post h
    have := traverse_treeOrd hv w
    rw [h] at this
    obtain ⟨a, b, c⟩ := this.split
    refine ⟨?_, fun hc => b (by rw [hc]; exact List.mem_singleton.mpr rfl), c⟩
    rcases a with a | a
    · exact Or.inl (List.mem_singleton.mp a)
    · exact Or.inr a
  · apply List.count_eq_zero.mpr
    intro hc
    obtain ⟨p, hp, hpw⟩ := List.mem_map.mp hc
    exact traverse_writer_not_target hv w p hp hpw

/-- more fuel files the same pairs in the same order -/
theorem tree_edges_fuel {H : Hier} {nb : Sig → List Sig} (hv : ValidOrder H nb) (w : Sig) (f : Nat) (hf : H.fuel ≤ f) :
    walk nb f [w] [w] = traverse H nb w := traverse_fuel hv w f hf

/-- when the connect graph has no cycle (each net's connections form a tree), the set of filed pairs — orientation
included — is the same for every order in which the adjacency sets are iterated, and it is the whole connect graph of the net -/
theorem tree_edges_order_indep {H : Hier} {nb nb' : Sig → List Sig} (hv : ValidOrder H nb) (hv' : ValidOrder H nb')
    (hac : ¬ HasCycle H.edges) (w : Sig) :
    (∀ p, p ∈ traverse H nb w ↔ p ∈ traverse H nb' w) ∧
    (∀ e ∈ H.edges, Reach H.edges w e.1 → e ∈ traverse H nb w ∨ (e.2, e.1) ∈ traverse H nb w) :=
  ⟨traverse_order_indep hv hv' hac w, fun e he hr => tree_closed hv hac w e he hr⟩

/-! ## 2. hosting and rejection -/

/-- hosts related as PyMTL allows (same component, parent / child, siblings): the rule is defined, and nothing else is -/
theorem host_total (H : Hier) (u v : Sig) : (∃ c, hostOf H (u, v) = some c) ↔ Related H u v := by
  constructor
  · rintro ⟨c, hc⟩
    by_cases h : Related H u v
    · exact h
    · rw [(hostOf_none_iff H u v).mpr h] at hc; cases hc
  · exact SConn.host_total H u v

/-- the chosen component can name both ends: each is its own signal or a signal of a direct child -/
theorem host_can_name (H : Hier) (u v : Sig) (c : Comp) (h : hostOf H (u, v) = some c) : CanName H c u ∧ CanName H c v :=
  SConn.host_can_name H u v c h

/-- a statement between two signals that component `c` can name is filed under `c`, with one exception: both ends are
hosted by one and the same other component (a child of `c`: the parent connects two ports of one child) — then it is filed
under that child, in either orientation -/
theorem host_elsewhere_iff {H : Hier} {c : Comp} {u v : Sig} (hu : CanName H c u) (hv : CanName H c v)
    (hT : H.parent (H.parent c) ≠ c) :
    (hostOf H (u, v) ≠ some c ↔ (H.hostC u = H.hostC v ∧ H.hostC u ≠ c)) ∧
    (H.hostC u = H.hostC v → hostOf H (u, v) = some (H.hostC u) ∧ hostOf H (v, u) = some (H.hostC u)) := by
  refine ⟨SConn.host_elsewhere_iff hu hv hT, fun e => ?_⟩
  constructor
  · rw [hostOf_legal hu hv hT, if_pos e]
  · rw [hostOf_legal hv hu hT, if_pos e.symm, e]

/-- `gen_connections` does not raise when every statement connects signals the executing component can name -/
theorem no_typeError_of_legal {H : Hier} {nb : Sig → List Sig} (hv : ValidOrder H nb)
    (hl : ∀ s ∈ H.stmts, CanName H s.1 s.2.1 ∧ CanName H s.1 s.2.2) : typeErr H nb = false := by
  apply typeErr_false_iff.mpr
  intro p hp
  obtain ⟨n, _, hpn⟩ := mem_treeEdges.mp hp
  rcases traverse_step hv n.1 p hpn with h | h
  · obtain ⟨s, hs, e⟩ := List.mem_map.mp h
    obtain ⟨h1, h2⟩ := hl s hs
    rw [e] at h1 h2
    exact SConn.host_total H p.1 p.2 (canName_related h1 h2)
  · obtain ⟨s, hs, e⟩ := List.mem_map.mp h
    obtain ⟨h1, h2⟩ := hl s hs
    rw [e] at h1 h2
    exact SConn.host_total H p.1 p.2 (canName_related h2 h1)

/-- `emit` fails exactly when some statement of the component is filed under it in neither orientation — because the pair
is not a tree edge at all (a redundant statement) or because the tree edge is filed under another component; the failure is
the assertion of `_gen_metadata` (`RTLIRConversionError`), and there is no other outcome than a list or this error -/
theorem emit_error_iff (H : Hier) (nb : Sig → List Sig) (c : Comp) (e : SConn.Err) :
    emit H nb c = .error e ↔
      e = .conversion ∧ ∃ x ∈ H.connectOrder c, ∀ y, (y = x ∨ y = (x.2, x.1)) → y ∈ treeEdges H nb → hostOf H y ≠ some c := by
  unfold emit emitOf
  change emitFrom (filed H nb c) _ = _ ↔ _
  rw [emitFrom_error_iff]
  constructor
  · rintro ⟨he, x, hx, h1, h2⟩
    refine ⟨he, x, hx, ?_⟩
    rintro y (rfl | rfl) hy hh
    · exact h1 (mem_filed.mpr ⟨hy, hh⟩)
    · exact h2 (mem_filed.mpr ⟨hy, hh⟩)
  · rintro ⟨he, x, hx, h⟩
    refine ⟨he, x, hx, ?_, ?_⟩
    · intro hf; exact h x (Or.inl rfl) (mem_filed.mp hf).1 (mem_filed.mp hf).2
    · intro hf; exact h _ (Or.inr rfl) (mem_filed.mp hf).1 (mem_filed.mp hf).2

theorem emit_total (H : Hier) (nb : Sig → List Sig) (c : Comp) :
    (∃ l, emit H nb c = .ok l) ∨ emit H nb c = .error .conversion := emitFrom_total _ _

/-- On a design as elaboration leaves it (nets as `NetsOk`, no connection loop, every statement between signals its
component can name, a proper component tree) a component is rejected **exactly** when it connects two signals hosted by one
and the same other component — the parent-level loop-through `s.child.in_ //= s.child.out`, which the DSL accepts. -/
theorem emit_error_iff_legal {H : Hier} {nb : Sig → List Sig} (hv : ValidOrder H nb) (hn : NetsOk H)
    (hac : ¬ HasCycle H.edges) (hl : ∀ s ∈ H.stmts, CanName H s.1 s.2.1 ∧ CanName H s.1 s.2.2) (c : Comp)
    (hT : H.parent (H.parent c) ≠ c) :
    emit H nb c = .error .conversion ↔ ∃ x ∈ H.connectOrder c, H.hostC x.1 = H.hostC x.2 ∧ H.hostC x.1 ≠ c := by
  rw [emit_error_iff]
  constructor
  · rintro ⟨_, x, hx, h⟩
    refine ⟨x, hx, ?_⟩
    have hs := mem_connectOrder.mp hx
    obtain ⟨h1, h2⟩ := hl (c, x) hs
    have he : x ∈ H.edges := List.mem_map.mpr ⟨(c, x), hs, rfl⟩
    rcases stmt_is_tree_edge hv hn hac x he with ht | ht
    · exact (SConn.host_elsewhere_iff h1 h2 hT).mp (h x (Or.inl rfl) ht)
    · have := (SConn.host_elsewhere_iff h2 h1 hT).mp (h _ (Or.inr rfl) ht)
      exact ⟨this.1.symm, by rw [← this.1]; exact this.2⟩
  · rintro ⟨x, hx, e, hne⟩
    refine ⟨rfl, x, hx, ?_⟩
    have hs := mem_connectOrder.mp hx
    obtain ⟨h1, h2⟩ := hl (c, x) hs
    rintro y (rfl | rfl) _
    · exact (SConn.host_elsewhere_iff h1 h2 hT).mpr ⟨e, hne⟩
    · exact (SConn.host_elsewhere_iff h2 h1 hT).mpr ⟨e.symm, by rw [← e]; exact hne⟩

/-! ## 3. what is emitted -/

/-- When no component raises, the emitted assigns of the whole hierarchy are exactly the filed tree edges, each once; an
assign `(c, (u, v))` stands for `assign v = u;` in the module of `c`, and `c` is the component the pair is filed under. -/
theorem emit_exact {H : Hier} {nb : Sig → List Sig} (hv : ValidOrder H nb) (hn : NetsOk H) (hs : StmtsNodup H)
    (hacc : accepted H nb = true) :
    ((assigns H nb).map (·.2)).Perm (treeEdges H nb) ∧ (∀ a ∈ assigns H nb, hostOf H a.2 = some a.1) :=
  ⟨assigns_perm hv hn.disjoint hs hacc, fun _ ha => (mem_filed.mp (assigns_filed ha)).2⟩

/-- `accepted` = no `TypeError` and every component's `emit` succeeds; the list a component emits is the part of `assigns`
tagged with it, in the same order -/
theorem emit_eq_assigns {H : Hier} {nb : Sig → List Sig} :
    (accepted H nb = true ↔ typeErr H nb = false ∧ ∀ c, ∃ l, emit H nb c = .ok l) ∧
    (∀ c l, emit H nb c = .ok l → l = ((assigns H nb).filter (fun a => a.1 == c)).map (·.2)) :=
  ⟨accepted_iff, SConn.emit_eq_assigns⟩

/-- an accepted design has no redundant statement: every statement is a tree edge, one way round -/
theorem accepted_stmts_are_tree_edges {H : Hier} {nb : Sig → List Sig} (hacc : accepted H nb = true) :
    ∀ e ∈ H.edges, e ∈ treeEdges H nb ∨ (e.2, e.1) ∈ treeEdges H nb := by
  intro e he
  obtain ⟨s, hs, rfl⟩ := List.mem_map.mp he
  unfold accepted acceptedOf at hacc
  simp only [Bool.and_eq_true, List.all_eq_true] at hacc
  obtain ⟨y, hy⟩ : ∃ y, orient (filed H nb s.1) s.2 = some y := Option.isSome_iff_exists.mp (hacc.2 s hs)
  obtain ⟨hf, ho⟩ := orient_eq_some hy
  have := (mem_filed.mp hf).1
  rcases ho with ho | ho
  · left; rw [← ho]; exact this
  · right; rw [← ho]; exact this

/-- every member of every net other than the writer is the reader of exactly ONE emitted assign (over all modules), the
writer of none -/
theorem single_driver {H : Hier} {nb : Sig → List Sig} (hv : ValidOrder H nb) (hn : NetsOk H) (hs : StmtsNodup H)
    (hacc : accepted H nb = true) (n : Sig × List Sig) (hnm : n ∈ H.nets) :
    (∀ m ∈ n.2, m ≠ n.1 → ((assigns H nb).map (fun a => a.2.2)).count m = 1) ∧
    ((assigns H nb).map (fun a => a.2.2)).count n.1 = 0 := by
  have hp := (assigns_perm hv hn.disjoint hs hacc).map (·.2)
  have e : (assigns H nb).map (fun a => a.2.2) = ((assigns H nb).map (·.2)).map (·.2) := by
    simp [List.map_map, Function.comp_def]
  rw [e]
  have hnd := treeEdges_snd_nodup hv hn.disjoint
  constructor
  · intro m hm hne
    rw [hp.count_eq, hnd.count]
    have hr := (hn.members n hnm m).mp hm
    obtain ⟨u, hu⟩ := traverse_complete hv n.1 m hr hne
    have : m ∈ (treeEdges H nb).map (·.2) := List.mem_map.mpr ⟨(u, m), mem_treeEdges.mpr ⟨n, hnm, hu⟩, rfl⟩
    simp [this]
  · rw [hp.count_eq]
    apply List.count_eq_zero.mpr
    intro hc
    obtain ⟨p, hp', hpw⟩ := List.mem_map.mp hc
    exact treeEdges_writer_not_target hv hn.disjoint n hnm p hp' hpw

/-- continuous assigns: in every valuation in which each emitted `assign v = u` holds (`σ v = σ u`), every member of every
net carries the value of the net's writer -/
theorem members_equal_writer {H : Hier} {nb : Sig → List Sig} (hv : ValidOrder H nb) (hn : NetsOk H) (hs : StmtsNodup H)
    (hacc : accepted H nb = true) {α : Type} (σ : Sig → α) (hσ : ∀ a ∈ assigns H nb, σ a.2.2 = σ a.2.1) :
    ∀ n ∈ H.nets, ∀ m ∈ n.2, σ m = σ n.1 := by
  intro n hnm m hm
  have hp := assigns_perm hv hn.disjoint hs hacc
  have hr := (hn.members n hnm m).mp hm
  by_cases hne : m = n.1
  · rw [hne]
  · obtain ⟨u, hu⟩ := traverse_complete hv n.1 m hr hne
    apply (traverse_treeOrd hv n.1).const (σ := σ) (a := σ n.1) _ _ (u, m) hu
    · intro p hpn
      have : p ∈ (assigns H nb).map (·.2) := hp.mem_iff.mpr (mem_treeEdges.mpr ⟨n, hnm, hpn⟩)
      obtain ⟨a, ha, rfl⟩ := List.mem_map.mp this
      exact hσ a ha
    · intro x hx
      rw [List.mem_singleton.mp hx]

/-- the assigns as processes (`Proofs/Sched.lean`): executing them once, net after net in tree order, from any valuation
`s` yields a valuation that satisfies every emitted assign, leaves every undriven signal (so every writer) as it was, and
gives every member of a net the value its writer has in `s` -/
theorem assigns_settle {H : Hier} {nb : Sig → List Sig} (hv : ValidOrder H nb) (hn : NetsOk H) (hs : StmtsNodup H)
    (hacc : accepted H nb = true) {α : Type} (s : Sig → α) :
    let t := settleTree H nb s
    (∀ a ∈ assigns H nb, t a.2.2 = t a.2.1) ∧
    (∀ x, x ∉ (assigns H nb).map (fun a => a.2.2) → t x = s x) ∧
    (∀ n ∈ H.nets, ∀ m ∈ n.2, t m = s n.1) := by
  intro t
  have hp := assigns_perm hv hn.disjoint hs hacc
  have hfix := settleTree_fixed hv hn.disjoint s
  have hσ : ∀ a ∈ assigns H nb, t a.2.2 = t a.2.1 := by
    intro a ha
    exact hfix a.2 (hp.mem_iff.mp (List.mem_map.mpr ⟨a, ha, rfl⟩))
  have hframe : ∀ x, x ∉ (treeEdges H nb).map (·.2) → t x = s x := settleTree_frame hv hn.disjoint s
  refine ⟨hσ, ?_, ?_⟩
  · intro x hx
    apply hframe
    intro hc
    apply hx
    obtain ⟨p, hp', rfl⟩ := List.mem_map.mp hc
    obtain ⟨a, ha, rfl⟩ := List.mem_map.mp (hp.mem_iff.mpr hp')
    exact List.mem_map.mpr ⟨a, ha, rfl⟩
  · intro n hnm m hm
    rw [members_equal_writer hv hn hs hacc t hσ n hnm m hm]
    apply hframe
    intro hc
    obtain ⟨p, hp', hpw⟩ := List.mem_map.mp hc
    exact treeEdges_writer_not_target hv hn.disjoint n hnm p hp' hpw

/-- single driver ⇒ unique fixed point: two valuations that satisfy every emitted assign and agree on the undriven
signals are equal -/
theorem assigns_fixed_point_unique {H : Hier} {nb : Sig → List Sig} (hv : ValidOrder H nb) (hn : NetsOk H) (hs : StmtsNodup H)
    (hacc : accepted H nb = true) {α : Type} (t t' : Sig → α)
    (hin : ∀ x, x ∉ (assigns H nb).map (fun a => a.2.2) → t x = t' x)
    (ht : ∀ a ∈ assigns H nb, t a.2.2 = t a.2.1) (ht' : ∀ a ∈ assigns H nb, t' a.2.2 = t' a.2.1) : t = t' := by
  have hp := assigns_perm hv hn.disjoint hs hacc
  apply treeEdges_fixed_unique hv hn.disjoint t t'
  · intro x hx
    apply hin
    intro hc
    apply hx
    obtain ⟨a, ha, rfl⟩ := List.mem_map.mp hc
    exact List.mem_map.mpr ⟨a.2, hp.mem_iff.mp (List.mem_map.mpr ⟨a, ha, rfl⟩), rfl⟩
  · intro p hp'
    obtain ⟨a, ha, rfl⟩ := List.mem_map.mp (hp.mem_iff.mpr hp')
    exact ht a ha
  · intro p hp'
    obtain ⟨a, ha, rfl⟩ := List.mem_map.mp (hp.mem_iff.mpr hp')
    exact ht' a ha

/-! ## 4. order -/

/-- the assigns of a component come in the order of its `connect_order`: as many, the `i`-th one is the `i`-th statement as
written or swapped (writer side first), and it is filed under the component -/
theorem emit_order {H : Hier} {nb : Sig → List Sig} {c : Comp} {l : List Pair} (h : emit H nb c = .ok l) :
    l.length = (H.connectOrder c).length ∧
    ∀ (i : Nat) (h1 : i < (H.connectOrder c).length) (h2 : i < l.length),
      (l[i] = (H.connectOrder c)[i] ∨ l[i] = (((H.connectOrder c)[i]).2, ((H.connectOrder c)[i]).1)) ∧ l[i] ∈ filed H nb c := by
  have hf := (emitFrom_ok_iff _ _ _).mp h
  refine ⟨hf.length_eq.symm, fun i h1 h2 => ?_⟩
  have := orient_eq_some (hf.get i h1 h2)
  exact ⟨this.2, this.1⟩

/-! ## non-vacuity -/

deriving instance DecidableEq for Except

/-- a pass-through net over three levels: `top.in_ → mid.in_ → leaf.in_ → leaf.w`, each statement written `reader //= writer`
in the component that owns the deeper end's parent -/
def exPass : Hier :=
  { par := [0, 0, 1, 2], host := [1, 2, 3, 3],
    stmts := [(1, (1, 0)), (2, (2, 1)), (3, (3, 2))], nets := [(0, [0, 1, 2, 3])] }

example : traverse exPass exPass.nbrs 0 = [(0, 1), (1, 2), (2, 3)] := by decide
example : accepted exPass exPass.nbrs = true := by decide
example : emit exPass exPass.nbrs 1 = .ok [(0, 1)] ∧ emit exPass exPass.nbrs 2 = .ok [(1, 2)] ∧
    emit exPass exPass.nbrs 3 = .ok [(2, 3)] := by decide
example : assigns exPass exPass.nbrs = [(1, (0, 1)), (2, (1, 2)), (3, (2, 3))] := by decide
example : validOrderB exPass exPass.nbrs = true ∧ stmtsNodupB exPass = true ∧ netsOkB exPass = true ∧ exPass.wf = true ∧
    cyc exPass.edges = false := by decide

/-- the hypotheses of `emit_exact` / `single_driver` / `members_equal_writer` hold together on `exPass`, and the conclusion of
`single_driver` is the expected one: signal 3 (`leaf.w`) has exactly one driving assign, signal 0 (`top.in_`, the writer) none -/
example : ((assigns exPass exPass.nbrs).map (fun a => a.2.2)).count 3 = 1 ∧
    ((assigns exPass exPass.nbrs).map (fun a => a.2.2)).count 0 = 0 := by
  have h := single_driver (nbrs_valid exPass) (netsOkB_sound (by decide)) (stmtsNodupB_sound (by decide))
    (by decide : accepted exPass exPass.nbrs = true) (0, [0, 1, 2, 3]) (by decide)
  exact ⟨h.1 3 (by decide) (by decide), h.2⟩

/-- a parent connecting two ports of one child (`s.c.in_ //= s.c.out`; `s.c.out` is the writer): filed under the child,
the parent's `emit` fails, the child emits nothing for it -/
def exLoop : Hier :=
  { par := [0, 0, 1], host := [2, 2, 1], stmts := [(1, (1, 0)), (1, (2, 0))], nets := [(0, [0, 1, 2])] }

example : hostOf exLoop (0, 1) = some 2 ∧ hostOf exLoop (0, 2) = some 1 := by decide
example : filed exLoop exLoop.nbrs 2 = [(0, 1)] ∧ filed exLoop exLoop.nbrs 1 = [(0, 2)] := by decide
example : emit exLoop exLoop.nbrs 1 = .error .conversion ∧ emit exLoop exLoop.nbrs 2 = .ok [] := by decide
example : accepted exLoop exLoop.nbrs = false ∧ typeErr exLoop exLoop.nbrs = false := by decide
example : CanName exLoop 1 0 ∧ CanName exLoop 1 1 ∧ exLoop.hostC 0 = exLoop.hostC 1 ∧ exLoop.hostC 0 ≠ 1 := by
  unfold CanName; decide

/-- a redundant third statement closing a triangle: not a tree edge, the component is rejected -/
def exTri : Hier :=
  { par := [0, 0], host := [1, 1, 1], stmts := [(1, (1, 0)), (1, (2, 1)), (1, (0, 2))], nets := [(0, [0, 1, 2])] }

example : traverse exTri exTri.nbrs 0 = [(0, 1), (0, 2)] := by decide
example : emit exTri exTri.nbrs 1 = .error .conversion := by decide
example : hasLoop exTri.edges = true := by decide

/-- a square: the filed pairs depend on the order in which `adjs[0]` is iterated (the hypothesis of `tree_edges_order_indep`
is needed) -/
def exSq : Hier :=
  { par := [0, 0], host := [1, 1, 1, 1], stmts := [(1, (1, 0)), (1, (2, 1)), (1, (3, 2)), (1, (0, 3))], nets := [(0, [0, 1, 2, 3])] }

example : traverse exSq exSq.nbrs 0 = [(0, 1), (0, 3), (3, 2)] := by decide
example : traverse exSq (fun u => if u = 0 then [3, 1] else exSq.nbrs u) 0 = [(0, 3), (0, 1), (1, 2)] := by decide

/-- hosts too far apart: `TypeError` -/
example : hostOf exPass (0, 2) = none := by decide

end PV.C03s
