import PymtlVerif.Proofs.QAdapter
/-!
# C17 (second part) — queues reached through the RTL↔CL adapters; who owns a message object

Vocabulary (`Model/QAdapter.lean`):

* a message OBJECT is a heap cell id, its value is what the heap holds there now; `sig` is the one live signal object
  of the RTL producer, rewritten in place every cycle; `clone_deepcopy` makes a new cell;
* `r2cStep aliased early k n` is one cycle of  RTL producer → `RecvRTL2SendCL` → CL queue of kind `k`, capacity `n`
  → CL consumer, with the queue holding cell ids (`aliased = false`: the adapter as repaired; `true`: as it was, handing
  the callee `sig` itself).  `early` says whether the scheduler runs the adapter's `enq.rdy()` block before the
  consumer's block (only a pipe queue cares: its constraints order `enq` after `deq` but say nothing about `enq.rdy`,
  so with `early` it takes the ready flag of a normal queue: `effKind`);
* `c2rStep` is one cycle of `RecvCL2SendRTL`; `composeStep inner` one cycle of it in front of a queue machine.

What is proved, for every kind, every capacity `n ≥ 1`, every message type and every history of offers and stalls:

* the repaired adapter + CL queue over heap cells IS the CL queue over values (outputs and contents), hence the FIFO
  specification of `Props/C17.lean` (`r2c_refines`, `r2c_trace`, `r2c_fifo`): the adapter adds no latency and no place;
* ownership (`r2c_owned`): the objects in the queue are pairwise distinct, none is the live signal object; rewriting any
  object that is not in the queue — the signal, or an object already delivered — leaves the contents unchanged
  (`r2c_mutation_frame`), and a delivered object is never still inside (`r2c_delivered_not_inside`);
* the adapter as it was (`aliased_*`): every entry of the queue is the live signal object, whatever the history; every
  value the consumer reads is the value the producer wrote in that same cycle, so earlier messages are lost;
* `RecvCL2SendRTL` is exactly a one-entry bypass queue whose dequeue side pushes (`c2r_is_bypass1`); in front of any FIFO
  of kind `k` and capacity `n` it raises `en` only when the queue is ready (`c2r_inner_legal`, so `refines_trace` of
  `Props/C17.lean` applies to the real queue class behind it) and the composition keeps
  `accepted = delivered ++ queue ++ slot`, at most `n + 1` inside (`c2r_fifo`);
* any chain of FIFO places joined by hand-overs is a FIFO of the summed capacity (`chain_fifo`).
-/
namespace PV.C17a
open PV.Queue PV.QAdapter

/-! ## RTL producer → `RecvRTL2SendCL` → CL queue -/

/-- One cycle, repaired adapter: under the ownership invariant the values held by the queue and all outputs are those
of the CL queue model run on VALUES with the producer's offer gated by reset, and the invariant is kept. -/
theorem r2c_refines {α} (early : Bool) (k : Kind) (n : Nat) (s : R2C α) (i : In α) (ho : Own s) :
    vals (r2cStep false early k n s i).1 = (clStep (effKind early k) n (vals s) (gateIn i)).1 ∧
    (r2cStep false early k n s i).2 = gateOut i (clStep (effKind early k) n (vals s) (gateIn i)).2 ∧
    Own (r2cStep false early k n s i).1 :=
  r2c_step early k n s i ho

/-- Every history: the outputs at the adapter's RTL face and at the queue's `deq` are those of
`FIFO_spec(effKind early k, n)` on the gated offers — zero latency, no extra place. -/
theorem r2c_trace {α} (early : Bool) (k : Kind) (n : Nat) (hn : 1 ≤ n) (d : α) (is : List (In α)) :
    run (r2cStep false early k n) (R2C.init d) is =
      List.zipWith gateOut is (runSpec styleV1 (effKind early k) n (is.map gateIn)) := by
  have h := (r2c_run early k n is (R2C.init d) (own_init d)).1
  rw [h]
  have hv : vals (R2C.init d) = [] := rfl
  rw [hv]
  congr 1
  exact (clSim (effKind early k) n hn).run_eq (is.map gateIn) [] (Nat.zero_le _)
    (legalTrace_free styleV1 rfl rfl _ _)

/-- Messages delivered are exactly the messages accepted, in order; at most `n` inside; and what is inside is the
queue's content read through the heap (oldest first). -/
theorem r2c_fifo {α} (early : Bool) (k : Kind) (n : Nat) (hn : 1 ≤ n) (d : α) (is : List (In α)) :
    let os := run (r2cStep false early k n) (R2C.init d) is
    (ledger styleV1 is os).acc = (ledger styleV1 is os).del ++ (vals (runState (r2cStep false early k n) (R2C.init d) is)).reverse ∧
    (vals (runState (r2cStep false early k n) (R2C.init d) is)).length ≤ n := by
  intro os
  obtain ⟨h1, _, h3⟩ := r2c_run early k n is (R2C.init d) (own_init d)
  have hv : vals (R2C.init d) = [] := rfl
  rw [hv] at h1 h3
  have hcl := (clSim (effKind early k) n hn).run_eq (is.map gateIn) [] (Nat.zero_le _)
    (legalTrace_free styleV1 rfl rfl _ _)
  have hsp := spec_ledger styleV1 (effKind early k) n hn (is.map gateIn)
  -- the state of the CL model is the reverse of the specification's state
  have hst : ∀ (js : List (In α)) (q : List α), q.length ≤ n →
      (runState (clStep (effKind early k) n) q js).reverse = runState (specStep styleV1 (effKind early k) n) q.reverse js := by
    intro js
    induction js with
    | nil => intro q _; rfl
    | cons j js ih =>
      intro q hq
      have := cl_sim (effKind early k) n hn q j hq
      simp only [runState]
      rw [ih _ this.2.2, this.2.1]
  have hos : os = List.zipWith gateOut is (runSpec styleV1 (effKind early k) n (is.map gateIn)) := by
    show run _ _ _ = _
    rw [h1]; congr 1
  refine ⟨?_, ?_⟩
  · simp only [ledger, hos, ledger_gate]
    rw [h3, hst _ [] (Nat.zero_le _)]
    exact hsp.1
  · rw [h3, ← List.length_reverse, hst _ [] (Nat.zero_le _)]
    exact hsp.2

/-- Ownership, every history: the objects in the queue are pairwise distinct and none of them is the live signal
object (all are objects made by the adapter: `0 < c < next`). -/
theorem r2c_owned {α} (early : Bool) (k : Kind) (n : Nat) (d : α) (is : List (In α)) :
    let s := runState (r2cStep false early k n) (R2C.init d) is
    s.q.Nodup ∧ (∀ c ∈ s.q, c ≠ sig ∧ c < s.h.next) := by
  intro s
  have ho := (r2c_run early k n is (R2C.init d) (own_init d)).2.1
  exact ⟨ho.nodup, fun c hc => ⟨by have := (ho.fresh c hc).1; simp [sig]; omega, (ho.fresh c hc).2⟩⟩

/-- Rewriting an object that is not in the queue (the producer rewriting its signal, the consumer scribbling over what
it was given) does not change what the queue holds. -/
theorem r2c_mutation_frame {α} (s : R2C α) (c : Nat) (v : α) (hc : c ∉ s.q) :
    vals { s with h := s.h.write c v } = vals s := by
  simp only [vals]
  apply List.map_congr_left
  intro x hx
  have : x ≠ c := fun h => hc (h ▸ hx)
  simp [Heap.write, this]

/-- The object handed to the consumer is not in the queue any more (and is not the live signal), so by
`r2c_mutation_frame` whatever the consumer does to it afterwards cannot change the contents. -/
theorem r2c_delivered_not_inside {α} (early : Bool) (k : Kind) (n : Nat) (s : R2C α) (i : In α) (ho : Own s) (c : Nat)
    (hp : r2cPopped false early k n s i = some c) :
    c ∉ (r2cStep false early k n s i).1.q ∧ c ≠ sig := by
  simp only [r2cPopped, Heap.write, Bool.false_eq_true, if_false] at hp
  split at hp
  case isFalse => cases hp
  case isTrue hcond =>
    simp only [Bool.and_eq_true] at hcond
    obtain ⟨c', hret, hsub⟩ := clStep_popped (effKind early k) n s.q
      { rst := false, enq := i.enq && !i.rst, msg := s.h.next, deq := i.deq } hcond.1 hcond.2
    rw [hret] at hp
    cases hp
    have hnot : s.h.next ∉ s.q := fun hm => Nat.lt_irrefl _ (ho.fresh _ hm).2
    have hnd : (s.h.next :: s.q).Nodup := List.nodup_cons.mpr ⟨hnot, ho.nodup⟩
    have hnd' := hnd.sublist hsub
    have hq : (r2cStep false early k n s i).1.q =
        (clStep (effKind early k) n s.q { rst := false, enq := i.enq && !i.rst, msg := s.h.next, deq := i.deq }).1 := by
      simp [r2cStep, Heap.write]
    refine ⟨?_, ?_⟩
    · rw [hq]
      intro hin
      have := (List.nodup_append.mp hnd').2.2 _ hin c (List.mem_singleton.mpr rfl)
      exact this rfl
    · have hm : c ∈ s.h.next :: s.q := hsub.subset (List.mem_append_right _ (List.mem_singleton.mpr rfl))
      simp only [List.mem_cons] at hm
      rcases hm with h | h
      · have := ho.hnext; simp [sig]; omega
      · have := (ho.fresh _ h).1; simp [sig]; omega

/-! ## the adapter as it was before the repair -/

/-- Whatever the history, every entry of the queue is the live signal object itself. -/
theorem aliased_all_live {α} (early : Bool) (k : Kind) (n : Nat) (d : α) (is : List (In α)) :
    ∀ c ∈ (runState (r2cStep true early k n) (R2C.init d) is).q, c = sig := by
  have key : ∀ (is : List (In α)) (s : R2C α), (∀ c ∈ s.q, c = sig) →
      ∀ c ∈ (runState (r2cStep true early k n) s is).q, c = sig := by
    intro is
    induction is with
    | nil => intro s hs; exact hs
    | cons i is ih => intro s hs; exact ih _ (aliased_step early k n s i hs).1
  exact key is _ (by simp [R2C.init])

/-- …so every value the consumer reads is the value the producer wrote into its signal in that same cycle: the
messages accepted earlier are gone. -/
theorem aliased_delivers_current {α} (early : Bool) (k : Kind) (n : Nat) (d : α) (pre : List (In α)) (i : In α) (v : α)
    (h : (r2cStep true early k n (runState (r2cStep true early k n) (R2C.init d) pre) i).2.ret = some v) :
    v = i.msg :=
  (aliased_step early k n _ i (aliased_all_live early k n d pre)).2 v h

/-- The reproduction of the defect in the model (capacity 2, the consumer stalls for two cycles, the producer keeps
counting): the repaired adapter delivers 0x10, 0x11; the old one delivers the counter's current value twice and
0x10, 0x11 never arrive. -/
theorem aliased_loses_messages :
    (run (r2cStep false false .normal 2) (R2C.init (0 : Nat))
      [⟨false, true, 0x10, false⟩, ⟨false, true, 0x11, false⟩, ⟨false, false, 0x12, true⟩, ⟨false, false, 0x13, true⟩]).map
        (fun o => o.ret) = [none, some 0x10, some 0x10, some 0x11] ∧
    (run (r2cStep true false .normal 2) (R2C.init (0 : Nat))
      [⟨false, true, 0x10, false⟩, ⟨false, true, 0x11, false⟩, ⟨false, false, 0x12, true⟩, ⟨false, false, 0x13, true⟩]).map
        (fun o => o.ret) = [none, some 0x11, some 0x12, some 0x13] := by
  decide

/-! ## CL producer → `RecvCL2SendRTL` → RTL queue -/

/-- `RecvCL2SendRTL` is `FIFO_spec(bypass, 1)` in the style of `enrdy_queues.py` (the dequeue side pushes: `send.en`
is raised by the adapter itself; no reset): equal outputs and equal next content for every state and input. -/
theorem c2r_is_bypass1 {α} (s : C2R α) (i : In α) :
    (c2rStep s i).2 = (specStep styleER .bypass 1 (c2rAbs s) i).2 ∧
    c2rAbs (c2rStep s i).1 = (specStep styleER .bypass 1 (c2rAbs s) i).1 ∧ (c2rAbs s).length ≤ 1 :=
  ⟨(c2r_bypass1 s i).1, (c2r_bypass1 s i).2, c2rAbs_len s⟩

/-- One cycle of the adapter in front of `FIFO_spec(k, n)` is one cycle of the two specifications wired together:
the adapter sees the queue's `enq.rdy` as its `send.rdy`, the queue sees the adapter's `send.en` / `send.msg`. -/
theorem c2r_compose_refines {α} (st : Style) (k : Kind) (n : Nat) (a : C2R α) (l : List α) (i : In α) :
    let r := composeStep (specStep st k n) (a, l) i
    r.2.aIn = { rst := false, enq := i.enq, msg := i.msg, deq := specEr st k n l.length i } ∧
    r.2.aOut = (specStep styleER .bypass 1 (c2rAbs a) r.2.aIn).2 ∧
    c2rAbs r.1.1 = (specStep styleER .bypass 1 (c2rAbs a) r.2.aIn).1 ∧
    r.2.bIn = { rst := i.rst, enq := r.2.aOut.deqRdy, msg := r.2.aOut.ret.getD i.msg, deq := i.deq } ∧
    r.2.bOut = (specStep st k n l r.2.bIn).2 ∧ r.1.2 = (specStep st k n l r.2.bIn).1 := by
  intro r
  refine ⟨rfl, ?_, ?_, rfl, rfl, rfl⟩
  · exact (c2r_bypass1 a _).1
  · exact (c2r_bypass1 a _).2

/-- The adapter is a protocol-legal producer: it raises `enq.en` only in a cycle in which the queue's `enq.rdy` is
high (so the refinement theorems of `Props/C17.lean`, which assume legal producers, apply to the queue behind it). -/
theorem c2r_inner_legal {α} (st : Style) (k : Kind) (n : Nat) (a : C2R α) (l : List α) (i : In α) :
    let o := (composeStep (specStep st k n) (a, l) i).2
    o.bIn.enq = true → o.bOut.enqRdy = true := by
  intro o h
  exact compose_enq_legal st k n a l i h

/-- Every history without reset, every kind, every capacity: what the CL producer handed to the adapter is what the
queue delivered followed by what the queue holds followed by what the adapter's slot holds; at most `n + 1` inside. -/
theorem c2r_fifo {α} (st : Style) (k : Kind) (n : Nat) (hn : 1 ≤ n) (is : List (In α)) (hr : ∀ i ∈ is, i.rst = false) :
    let os := composeRun (specStep st k n) (C2R.init, []) is
    let s := composeState (specStep st k n) (C2R.init, []) is
    (outerLedgerFrom st ⟨[], []⟩ os).acc = (outerLedgerFrom st ⟨[], []⟩ os).del ++ (s.2 ++ c2rAbs s.1) ∧
    (s.2 ++ c2rAbs s.1).length ≤ n + 1 := by
  intro os s
  have h := compose_run_ledger st k n hn is hr C2R.init [] ⟨[], []⟩ (by simp [c2rAbs, C2R.init]) (Nat.zero_le _)
  refine ⟨h.1, ?_⟩
  rw [List.length_append]
  have h1 : (c2rAbs s.1).length ≤ 1 := c2rAbs_len s.1
  have h2 : s.2.length ≤ n := h.2
  omega

/-- The adapter in front of a real queue CLASS of `Model/Queue.lean` (ring buffer, one-entry, valrdy, CL `deque` machines —
what the driver runs and the check compares with the real pipeline cycle by cycle) is, for every capacity the class can be
built with and every history in which the consumer behind the queue is protocol-legal, the adapter in front of
`FIFO_spec(kind, capacity)` — the composition `c2r_fifo` / `c2r_inner_legal` speak about. -/
theorem c2r_class_refines {α} (c : Cls) (hc : c ≠ .erBypass2) (n : Nat) (hn : c.capOK n) (d : α) (is : List (In α))
    (hd : DeqLegal c.style (composeCls c n d is)) :
    composeCls c n d is = composeRun (specStep c.style c.kind (c.cap n)) (C2R.init, []) is :=
  composeCls_spec c hc n hn d is hd

/-! ## chains of places -/

/-- A pipeline of FIFO places (queues, adapter slots) in which what one place delivers is what the next accepts: what
entered at the front is what left at the back followed by everything inside, back to front; the pipeline holds at
most the sum of the capacities.  (The adapter stream of the check evaluates exactly these hypotheses, place by place,
on the real pipelines of 1–3 queues of mixed kinds and levels.) -/
theorem chain_fifo {α} (p : PlaceLedger α) (ps : List (PlaceLedger α))
    (hok : ∀ x ∈ p :: ps, x.ok) (hl : Linked (p :: ps)) :
    p.acc = chainDel p ps ++ chainInside (p :: ps) ∧ (chainInside (p :: ps)).length ≤ chainCap (p :: ps) :=
  chain_ledger p ps hok hl

/-! ## non-vacuity -/

/-- the ownership invariant holds initially and the step theorem's hypothesis is satisfiable after real work -/
example : Own (R2C.init (0 : Nat)) ∧
    Own (runState (r2cStep false true .pipe 2) (R2C.init (0 : Nat))
      [⟨false, true, 5, false⟩, ⟨false, true, 6, true⟩, ⟨true, true, 7, true⟩]) :=
  ⟨own_init 0, (r2c_run true .pipe 2 _ _ (own_init 0)).2.1⟩

/-- a history in which the queue fills, the producer is held off, reset gates the adapter, and the consumer drains -/
example : (run (r2cStep false false .pipe 2) (R2C.init (0 : Nat))
      [⟨false, true, 5, false⟩, ⟨false, true, 6, false⟩, ⟨false, true, 7, false⟩, ⟨false, true, 8, true⟩,
       ⟨true, true, 9, true⟩, ⟨false, false, 0, true⟩]).map (fun o => (o.enqRdy, o.deqRdy, o.ret, o.count)) =
    [(true, false, none, 0), (true, true, some 5, 1), (false, true, some 5, 2), (true, true, some 5, 2),
     (false, true, some 6, 2), (true, true, some 8, 1)] := by decide

/-- `early` matters: a full pipe queue takes a message in the cycle of a dequeue only if its ready flag is sampled late -/
example : ((r2cStep false false .pipe 1 ⟨⟨fun _ => 0, 2⟩, [1]⟩ ⟨false, true, 7, true⟩).2.enqRdy,
           (r2cStep false true  .pipe 1 ⟨⟨fun _ => 0, 2⟩, [1]⟩ ⟨false, true, 7, true⟩).2.enqRdy) = (true, false) := by decide

/-- a popped object exists (hypothesis of `r2c_delivered_not_inside`) -/
example : r2cPopped false false .normal 2 (⟨⟨fun _ => (0 : Nat), 3⟩, [2, 1]⟩) ⟨false, false, 9, true⟩ = some 1 := by decide

/-- the aliased queue really holds the signal object, twice -/
example : (runState (r2cStep true false .normal 2) (R2C.init (0 : Nat))
    [⟨false, true, 5, false⟩, ⟨false, true, 6, false⟩]).q = [sig, sig] := by decide

/-- the adapter slot is used: downstream not ready, the message waits one cycle, the producer is held off meanwhile -/
example : (composeRun (specStep styleQ .normal 1) (C2R.init, ([] : List Nat))
      [⟨false, true, 5, false⟩, ⟨false, true, 6, false⟩, ⟨false, true, 7, true⟩, ⟨false, false, 0, true⟩, ⟨false, false, 0, true⟩]).map
        (fun o => (o.aOut.enqRdy, o.aOut.deqRdy, o.bOut.enqRdy, o.bOut.ret)) =
    [(true, true, true, none), (true, false, false, some 5), (false, false, false, some 5),
     (false, true, true, none), (true, false, false, some 6)] := by decide

/-- the hypothesis of `c2r_class_refines` holds on a history with a stall, a hand-over and dequeues -/
example : DeqLegal Cls.qPipe.style (composeCls .qPipe 2 (0 : Nat)
    [⟨false, true, 5, false⟩, ⟨false, true, 6, false⟩, ⟨false, true, 7, false⟩, ⟨false, true, 8, true⟩, ⟨false, false, 0, true⟩]) := by
  intro o ho _ _
  simp only [composeCls, composeRun, composeStep] at ho
  simp at ho
  rcases ho with rfl | rfl | rfl | rfl | rfl <;> simp_all <;> decide

/-- a chain of three linked places -/
example : Linked [(⟨[1, 2, 3], [1, 2], [3], 1⟩ : PlaceLedger Nat), ⟨[1, 2], [1], [2], 2⟩, ⟨[1], [], [1], 1⟩] ∧
    (∀ x ∈ [(⟨[1, 2, 3], [1, 2], [3], 1⟩ : PlaceLedger Nat), ⟨[1, 2], [1], [2], 2⟩, ⟨[1], [], [1], 1⟩], x.ok) := by
  refine ⟨⟨rfl, rfl, trivial⟩, ?_⟩
  intro x hx
  simp only [List.mem_cons, List.mem_nil_iff, or_false] at hx
  rcases hx with rfl | rfl | rfl <;> exact ⟨rfl, by decide⟩

end PV.C17a
