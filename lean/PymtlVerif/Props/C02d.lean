import PymtlVerif.Proofs.GenDag
/-!
# C02 (first clause) — the value constraints GenDAGPass computes, for every design

Model: `Model/GenDag.lean`, `valueConstraints` = `GenDAGPass._process_value_constraints` (explicit
`RD/WR(x) <> U` entries expanded into block pairs, the reader-side walk over parent chain and overlapping
written sibling slices, the writer-side walk over the parent chain, `update_ff` writers excluded, implicit
pairs dropped when the reverse pair is explicit).

* `implicit_iff_related`: the two asymmetric walks together are exactly the symmetric relation
  `related` of `Model/Nets.lean` between a written and a read object;
* `implicit_iff_bits`: … which is "some bit written by A is read by B" (`PV.C09.related_iff_overlap`);
* `final_constraints`, `explicit_pairs`, `explicit_honoured`: the final set;
* `schedule_respects_bits`: every order that is topological for the final set runs a non-ff writer of
  a bit before every reader of that bit, unless the pair is explicitly inverted (then the reader runs
  first);
* `constraint_objs_cover`: the objects recorded in `constraint_objs` for a pair cover every bit the
  writer writes and the reader reads (what the SCC watch list of C11 is built from).

Well-formedness assumed of the input (`Input.WF`, checked by the driver on every request, `wf_checked`):
kind and host are attributes of the top-level signal, slices of signals are non-empty.
-/
namespace PV.C02d
open PV.Nets PV.GenDag

/-- (A,B) is an implicit pair iff A is not an update_ff block, differs from B, writes an object and B
reads an object such that one is the other or above it, or both are overlapping slices of one signal -/
theorem implicit_iff_related (I : Input) (hwf : I.WF) (A B : Nat) :
    (A, B) ∈ implicitPairs I ↔
      ∃ a ∈ I.blks, ∃ b ∈ I.blks, a.id = A ∧ b.id = B ∧ A ≠ B ∧ a.ff = false ∧
        ∃ w ∈ a.writes, ∃ r ∈ b.reads, related w r = true := by
  rw [mem_implicitPairs]
  exact pairing_congr (fun w r hw hr =>
    found_iff_related w r (hwf.coh w hw r hr) (hwf.slices w hw) (hwf.slices r hr))

/-- what the two walks find separately: reader side = the written object is the read one or above it, or
an overlapping sibling slice; writer side = the read object is the written one or above it -/
theorem implicit_by_walks (I : Input) (A B : Nat) :
    (A, B) ∈ implicitPairs I ↔
      ∃ a ∈ I.blks, ∃ b ∈ I.blks, a.id = A ∧ b.id = B ∧ A ≠ B ∧ a.ff = false ∧
        ∃ w ∈ a.writes, ∃ r ∈ b.reads,
          (w ∈ ancestors r ∨ (isSig r = true ∧ sibling r w = true ∧ sliceOverlap w r = true) ∨ r ∈ ancestors w) :=
  mem_implicitPairs I A B

/-- with the objects well-formed w.r.t. a table of Bits-typed leaves: (A,B) implicit ⇔ A ≠ B, A not
ff, some bit written by A is read by B -/
theorem implicit_iff_bits (I : Input) (hwf : I.WF) (L : Leaves) (hL : ∀ o ∈ I.objs, WfObj L o) (A B : Nat) :
    (A, B) ∈ implicitPairs I ↔
      ∃ a ∈ I.blks, ∃ b ∈ I.blks, a.id = A ∧ b.id = B ∧ A ≠ B ∧ a.ff = false ∧
        ∃ bit, ValidBit L bit ∧ (∃ w ∈ a.writes, covers w bit) ∧ (∃ r ∈ b.reads, covers r bit) := by
  rw [implicit_iff_related I hwf]
  constructor
  · rintro ⟨a, ha, b, hb, h1, h2, hne, hff, w, hw, r, hr, hrel⟩
    obtain ⟨bit, hv, hcw, hcr⟩ := (related_iff_overlap L w r (hL w (mem_objs_of_write ha hw))
      (hL r (mem_objs_of_read hb hr))).mp hrel
    exact ⟨a, ha, b, hb, h1, h2, hne, hff, bit, hv, ⟨w, hw, hcw⟩, ⟨r, hr, hcr⟩⟩
  · rintro ⟨a, ha, b, hb, h1, h2, hne, hff, bit, hv, ⟨w, hw, hcw⟩, ⟨r, hr, hcr⟩⟩
    exact ⟨a, ha, b, hb, h1, h2, hne, hff, w, hw, r, hr,
      (related_iff_overlap L w r (hL w (mem_objs_of_write ha hw)) (hL r (mem_objs_of_read hb hr))).mpr ⟨bit, hv, hcw, hcr⟩⟩

/-- `all_constraints` = the explicit pairs, and the implicit pairs whose reverse is not explicit -/
theorem final_constraints (I : Input) (p : Nat × Nat) :
    p ∈ valueConstraints I ↔ p ∈ explicitPairs I ∨ (p ∈ implicitPairs I ∧ (p.2, p.1) ∉ explicitPairs I) :=
  mem_valueConstraints I p

/-- the explicit pairs: `U(a) < U(b)`, and for every `RD(x) < U` (`>`) every other block that reads
exactly `x`, before (after) `U`; likewise `WR(x)` with the blocks that write exactly `x` -/
theorem explicit_pairs (I : Input) (p : Nat × Nat) :
    p ∈ explicitPairs I ↔ p ∈ I.uu ∨
      (∃ c ∈ I.rdU, ∃ b ∈ I.blks, c.obj ∈ b.reads ∧ c.blk ≠ b.id ∧ p = c.pair b.id) ∨
      (∃ c ∈ I.wrU, ∃ b ∈ I.blks, c.obj ∈ b.writes ∧ c.blk ≠ b.id ∧ p = c.pair b.id) :=
  mem_explicitPairs I p

/-- every explicit `U < U` pair and every pair an `RD/WR(x) <> U` entry expands to is in the final set -/
theorem explicit_honoured (I : Input) :
    (∀ p ∈ I.uu, p ∈ valueConstraints I) ∧
    (∀ c ∈ I.rdU, ∀ b ∈ I.blks, c.obj ∈ b.reads → c.blk ≠ b.id → c.pair b.id ∈ valueConstraints I) ∧
    (∀ c ∈ I.wrU, ∀ b ∈ I.blks, c.obj ∈ b.writes → c.blk ≠ b.id → c.pair b.id ∈ valueConstraints I) := by
  refine ⟨fun p hp => ?_, fun c hc b hb ho hne => ?_, fun c hc b hb ho hne => ?_⟩
  · exact (final_constraints I p).mpr (Or.inl ((explicit_pairs I p).mpr (Or.inl hp)))
  · exact (final_constraints I _).mpr (Or.inl ((explicit_pairs I _).mpr (Or.inr (Or.inl ⟨c, hc, b, hb, ho, hne, rfl⟩))))
  · exact (final_constraints I _).mpr (Or.inl ((explicit_pairs I _).mpr (Or.inr (Or.inr ⟨c, hc, b, hb, ho, hne, rfl⟩))))

/-- an implicit pair survives unless the reverse pair is explicit -/
theorem implicit_kept (I : Input) (p : Nat × Nat) (h : p ∈ implicitPairs I) (hn : (p.2, p.1) ∉ explicitPairs I) :
    p ∈ valueConstraints I := (final_constraints I p).mpr (Or.inr ⟨h, hn⟩)

/-- C02, first clause, for every design: in any order `o` of block ids that is topological for the
final constraint set, a block that is not an update_ff block and writes a bit runs before every other
block that reads that bit — unless the pair is explicitly inverted, and then the reader runs first -/
theorem schedule_respects_bits (I : Input) (hwf : I.WF) (L : Leaves) (hL : ∀ o ∈ I.objs, WfObj L o)
    (o : List Nat) (ht : topoFor (valueConstraints I) o = true)
    (a : GenDag.Blk) (ha : a ∈ I.blks) (b : GenDag.Blk) (hb : b ∈ I.blks) (hne : a.id ≠ b.id) (hff : a.ff = false)
    (bit : Bit) (hv : ValidBit L bit) (hw : ∃ w ∈ a.writes, covers w bit) (hr : ∃ r ∈ b.reads, covers r bit) :
    posOf o a.id < posOf o b.id ∨ ((b.id, a.id) ∈ explicitPairs I ∧ posOf o b.id < posOf o a.id) := by
  rw [topoFor_iff] at ht
  have himp : (a.id, b.id) ∈ implicitPairs I :=
    (implicit_iff_bits I hwf L hL a.id b.id).mpr ⟨a, ha, b, hb, rfl, rfl, hne, hff, bit, hv, hw, hr⟩
  by_cases hx : (b.id, a.id) ∈ explicitPairs I
  · exact Or.inr ⟨hx, ht (b.id, a.id) ((final_constraints I _).mpr (Or.inl hx))⟩
  · exact Or.inl (ht (a.id, b.id) (implicit_kept I (a.id, b.id) himp hx))

/-- … and every explicit pair is respected by such an order -/
theorem schedule_respects_explicit (I : Input) (o : List Nat) (ht : topoFor (valueConstraints I) o = true)
    (p : Nat × Nat) (hp : p ∈ explicitPairs I) : posOf o p.1 < posOf o p.2 := by
  rw [topoFor_iff] at ht
  exact ht p ((final_constraints I p).mpr (Or.inl hp))

/-- `constraint_objs`: for a non-ff writer `a` of `w` and another block `b` reading `r` with `w`, `r`
related, some object recorded for the pair (a, b) contains every bit that is both in `w` and in `r` -/
theorem constraint_objs_cover (I : Input) (hwf : I.WF) (a : GenDag.Blk) (ha : a ∈ I.blks) (b : GenDag.Blk) (hb : b ∈ I.blks)
    (hne : a.id ≠ b.id) (hff : a.ff = false) (w : Obj) (hw : w ∈ a.writes) (r : Obj) (hr : r ∈ b.reads)
    (hrel : related w r = true) :
    ∃ x, ((a.id, b.id), x) ∈ constraintObjs I ∧ (x = w ∨ x = r) ∧ ∀ bit, covers w bit → covers r bit → covers x bit := by
  have hf := (found_iff_related w r (hwf.coh w (mem_objs_of_write ha hw) r (mem_objs_of_read hb hr))
    (hwf.slices w (mem_objs_of_write ha hw)) (hwf.slices r (mem_objs_of_read hb hr))).mpr hrel
  unfold constraintObjs implicitTagged
  simp only [List.mem_append]
  rcases hf with hf | hf | hf
  · exact ⟨r, Or.inr (Or.inl ((mem_readerSide I _ _ r).mpr ⟨a, ha, b, hb, rfl, rfl, hne, hff, hr, w, hw, Or.inl hf⟩)),
      Or.inr rfl, fun _ _ h => h⟩
  · exact ⟨r, Or.inr (Or.inl ((mem_readerSide I _ _ r).mpr ⟨a, ha, b, hb, rfl, rfl, hne, hff, hr, w, hw, Or.inr hf⟩)),
      Or.inr rfl, fun _ _ h => h⟩
  · exact ⟨w, Or.inr (Or.inr ((mem_writerSide I _ _ w).mpr ⟨a, ha, b, hb, rfl, rfl, hne, hff, hw, r, hr, hf⟩)),
      Or.inl rfl, fun _ h _ => h⟩

/-- what the driver checks before it answers implies the well-formedness the theorems assume -/
theorem wf_checked (I : Input) (h : I.wf = true) : I.WF := wf_sound h

/-! ## non-vacuity -/

/-- signal 0 is a struct `{a: Bits4 (field 0), b: Bits8 (field 1)}`, signal 1 a `Bits8` wire -/
def exL : Leaves := fun s => if s = 0 then [([0], 4), ([1], 8)] else [([], 8)]
def sWhole : Obj := ⟨0, .wire, 0, [], none⟩
def sA : Obj := ⟨0, .wire, 0, [0], none⟩
def sB : Obj := ⟨0, .wire, 0, [1], none⟩
def x04 : Obj := ⟨1, .wire, 0, [], some (0, 4)⟩
def x26 : Obj := ⟨1, .wire, 0, [], some (2, 6)⟩
def x48 : Obj := ⟨1, .wire, 0, [], some (4, 8)⟩

/-- block 1 writes the field `s.a`, block 2 reads the whole struct `s` (found from the writer side only:
the read object is above the written one); block 6 reads the other field `s.b` (no shared bit);
block 3 writes `x[0:4]`, block 4 writes `x[4:8]`, block 5 reads `x[2:6]`: two written sibling slices
that overlap the read slice (found from the reader side only) -/
def ex1 : Input :=
  { blks := [⟨1, false, [], [sA]⟩, ⟨2, false, [sWhole], []⟩, ⟨3, false, [], [x04]⟩, ⟨4, false, [], [x48]⟩,
             ⟨5, false, [x26], []⟩, ⟨6, false, [sB], []⟩],
    uu := [], rdU := [], wrU := [] }

example : ex1.wf = true := by decide
example : implicitPairs ex1 = [(3, 5), (4, 5), (1, 2)] := by decide
/-- field vs parent: the hypothesis side of `implicit_iff_related` holds for (1,2) and the walk finds it -/
example : related sA sWhole = true ∧ (1, 2) ∈ implicitPairs ex1 := by decide
/-- both overlapping sibling slices get an edge, the disjoint field `s.b` does not -/
example : (3, 5) ∈ valueConstraints ex1 ∧ (4, 5) ∈ valueConstraints ex1 ∧ (1, 6) ∉ valueConstraints ex1 := by decide
example : related x04 x26 = true ∧ related x48 x26 = true ∧ related x04 x48 = false ∧ related sA sB = false := by decide
/-- the objects are well-formed w.r.t. the leaves table, and the shared bit exists -/
example : ∀ o ∈ ex1.objs, WfObj exL o := by
  intro o ho
  have : o = sA ∨ o = sWhole ∨ o = x04 ∨ o = x48 ∨ o = x26 ∨ o = sB := by
    simp [Input.objs, readObjs, GenDag.writtenObjs, ex1] at ho
    rcases ho with h | h | h | h | h | h <;> simp [h]
  rcases this with h | h | h | h | h | h <;> subst h
  · intro _; exact ⟨[0], 4, by simp [exL, sA], by omega, by simp [sA], by simp [sA]⟩
  · intro _; exact ⟨[0], 4, by simp [exL, sWhole], by omega, by simp [sWhole], by simp [sWhole]⟩
  · intro _; exact ⟨[], 8, by simp [exL, x04], by omega, by simp [x04], by simp [x04]⟩
  · intro _; exact ⟨[], 8, by simp [exL, x48], by omega, by simp [x48], by simp [x48]⟩
  · intro _; exact ⟨[], 8, by simp [exL, x26], by omega, by simp [x26], by simp [x26]⟩
  · intro _; exact ⟨[1], 8, by simp [exL, sB], by omega, by simp [sB], by simp [sB]⟩
example : ValidBit exL ⟨1, [], 3⟩ ∧ covers x04 ⟨1, [], 3⟩ ∧ covers x26 ⟨1, [], 3⟩ := by
  refine ⟨⟨8, by simp [exL], by simp⟩, ⟨by simp [x04], rfl, by simp [x04], ?_⟩, ⟨by simp [x26], rfl, by simp [x26], ?_⟩⟩
  · intro s hs; simp [x04] at hs; subst hs; simp [x04]
  · intro s hs; simp [x26] at hs; subst hs; simp [x26]

/-- explicit inversion: `U(5) < U(3)` removes the implicit (3,5), the other edges stay; a schedule
that runs 5 before 3 is topological, the implicit order 3,4,5 is not any more -/
def ex2 : Input := { ex1 with uu := [(5, 3)] }
example : valueConstraints ex2 = [(5, 3), (4, 5), (1, 2)] := by decide
example : topoFor (valueConstraints ex2) [1, 2, 4, 5, 3, 6] = true ∧ topoFor (valueConstraints ex2) [1, 2, 3, 4, 5, 6] = false := by decide

/-- `RD(x[2:6]) < U(4)`: every block reading exactly `x[2:6]` (block 5) goes before block 4; this
inverts the implicit (4,5); `WR(s.a) > U(6)`: block 6 before the writer of `s.a` (block 1) -/
def ex3 : Input := { ex1 with rdU := [⟨x26, true, 4⟩], wrU := [⟨sA, false, 6⟩] }
example : explicitPairs ex3 = [(5, 4), (6, 1)] := by decide
example : valueConstraints ex3 = [(5, 4), (6, 1), (3, 5), (1, 2)] := by decide

/-- an update_ff writer gets no edge; a block reading what it writes gets no self edge -/
def ex4 : Input :=
  { blks := [⟨1, true, [sWhole], [sWhole]⟩, ⟨2, false, [sA], [sB]⟩, ⟨3, false, [sB], []⟩], uu := [], rdU := [], wrU := [] }
example : valueConstraints ex4 = [(2, 3), (2, 3), (2, 1)] := by decide   -- (2,3) from either side; the pass keeps a set

/-- `constraint_objs` of ex1: the read object on the reader side, the written object on the writer side -/
example : constraintObjs ex1 = [((3, 5), x26), ((4, 5), x26), ((1, 2), sA)] := by decide

end PV.C02d
