import PymtlVerif.Proofs.Flat
import PymtlVerif.Proofs.SV
import PymtlVerif.Proofs.SVStmt
import PymtlVerif.Proofs.SVMod
/-!
# C12 — the Yosys-compatible translation is equivalent, with a faithful flat port map

Models: `Model/Flat.lean` (`flatPorts`, `mangle`, `portLeaves`: the flattened ports of
`YosysStructuralTranslatorL1/L2` with the slice `[msb:lsb]` each leaf occupies in the packed vector; `toBits`: the
packed value of a port as `bitstruct.to_bits()` lays it out — first field most significant, element 0 of a list
field least significant) and the SystemVerilog / RTLIR models of C03 (the plain-Verilog subset is a sub-language).

Side conditions of the port-map theorems: `Pos T` (every vector width positive), `Distinct T` (field names of a
struct pairwise distinct — Python guarantees it), `WFNames T` / `GoodName` (a field name contains no `__`, does not
end with `_`, does not start with a digit: the identifier well-formedness of C13; the examples in Proofs/Flat.lean
show that each condition is necessary).

The expression / statement theorems are those of C03 instantiated at the Yosys backend: constants are inlined as
literals, `BitsN(e)` is emitted as the operand itself / a zero-extension, loop variables are
`integer __loopvar__<blk>_<i>`; struct member access by flattened name (`a.b` → `a__b`) is outside `WT` for this
backend (covered by the correspondence).
-/
namespace PV.C12
open PV.SV PV.VTr PV.SVProofs PV.Flat PV.Sched

/-- **Each flattened leaf is the slice `[msb:lsb]` of the packed value of the port**, as wide as the leaf's
    vector type. -/
theorem flat_is_slice {T : PTy} {v : Val} (h : HasTy v T) (hp : Pos T) (hd : Distinct T)
    {l : Leaf} (hl : l ∈ flatPorts T) :
    ∃ T' v', leafAt T v l.path = some (T', v') ∧
      toBits T v / 2 ^ l.lsb % 2 ^ (l.msb + 1 - l.lsb) = toBits T' v' ∧
      l.msb + 1 - l.lsb = T'.width ∧ HasTy v' T' ∧ ∃ w, T' = .vec w :=
  Flat.flat_is_slice h hp hd hl

/-- **The leaves partition the packed vector**: every range lies inside `[0, width)`, the ranges are pairwise
    disjoint, and every bit position belongs to exactly one leaf. -/
theorem flat_partition (T : PTy) (hp : Pos T) :
    (∀ l ∈ flatPorts T, l.lsb ≤ l.msb ∧ l.msb < T.width) ∧
    (flatPorts T).Pairwise (fun a c => a.msb < c.lsb ∨ c.msb < a.lsb) ∧
    (∀ b, b < T.width → ∃ i, ∃ hi : i < (flatPorts T).length,
      ((flatPorts T)[i].lsb ≤ b ∧ b ≤ (flatPorts T)[i].msb) ∧
      ∀ j (hj : j < (flatPorts T).length),
        ((flatPorts T)[j].lsb ≤ b ∧ b ≤ (flatPorts T)[j].msb) → j = i) :=
  Flat.flat_partition T hp

/-- **Distinct leaves get distinct mangled names** (`base__field__3…`), at the level of the emitted strings. -/
theorem flat_names_injective (T : PTy) (hw : WFNames T) (base : String) {l₁ l₂ : Leaf}
    (h₁ : l₁ ∈ flatPorts T) (h₂ : l₂ ∈ flatPorts T)
    (e : mangle base l₁.path = mangle base l₂.path) : l₁ = l₂ :=
  Flat.flat_names_injective T hw base h₁ h₂ e

/-- the same for the port names the check drives / observes (a port, an element of a list of ports, a member of
    an interface …) -/
theorem port_names_injective (T : PTy) (hw : WFNames T) (t : Tok) (rest : List Tok) (hr : GoodPath rest)
    (dims : List Nat) {q₁ q₂ : PortLeaf}
    (h₁ : q₁ ∈ portLeaves true (t :: rest) dims T) (h₂ : q₂ ∈ portLeaves true (t :: rest) dims T)
    (e : q₁.svName = q₂.svName) : q₁ = q₂ :=
  Flat.portLeaves_names_injective T hw t rest hr dims h₁ h₂ e

/-- the packed value fits the width of the type -/
theorem to_bits_lt {T : PTy} {v : Val} (h : HasTy v T) : toBits T v < 2 ^ T.width :=
  Flat.toBits_lt _ _ h

/-- **Expressions, Yosys backend** (C03's theorem restricted to the plain-Verilog forms) -/
theorem expr_correct_yosys (cb : Bool) (Γ : Env) (C : List (String × Nat)) (σ : Store)
    (hC : HoldsC σ C) {e : RExpr} (hwt : WT .yosys Γ C e) {v : Nat} (hv : evalPy .yosys Γ σ e = some v) :
    eval cb Γ σ e.width (tr .yosys e) = v ∧ selfWidth Γ (tr .yosys e) = e.width ∧ v < 2 ^ e.width :=
  SVProofs.expr_correct .yosys cb Γ C σ hC hwt hv

/-- **Loop-free statements, Yosys backend** -/
theorem stmt_correct_yosys (cb : Bool) (Γ : Env) (C : List (String × Nat)) {s : RStmt}
    (hwt : WTs .yosys Γ C s) {xs xs' : XS} (h : execPy .yosys Γ s xs = some xs') (hC : HoldsC xs.σ C) :
    exec cb Γ (trStmt .yosys s) xs = xs' ∧ HoldsC xs'.σ C :=
  SVProofs.stmt_correct .yosys cb Γ C hwt h hC

/-- **Single driver** (as C03) -/
theorem singleDriver_sound (ws : List (List WR)) (h : singleDriver ws = true) (x : String) (e b : Nat) :
    (drivers ws x e b).length ≤ 1 :=
  SV.singleDriver_sound ws h x e b

/-- **Design level** (as C03): unique fixed point of single-writer, acyclic combinational processes -/
theorem design_fixpoint_unique {Var Val : Type} {vw : XS → St Var Val} {castB : Bool} {Γ : Env}
    {ps : List Proc} {bs : List (Blk Var Val)} (hrep : Represents vw castB Γ ps bs) (hwf : ∀ b ∈ bs, b.Wf)
    (hsw : SingleWriter bs) (htopo : Topo bs) (s t : XS)
    (hin : ∀ k, (∀ b ∈ bs, ¬ b.W k) → vw t k = vw s k)
    (ht : ∀ p ∈ ps, vw (exec castB Γ p.body t) = vw t) :
    vw t = vw (runProcs castB Γ ps s) :=
  SV.design_fixpoint_unique hrep hwf hsw htopo s t hin ht

/-! ### non-vacuity: the port `p : Pt { a: Bits4; b: [Bits2]*3; c: Inner { x: Bits3; y: Bits5 } }` -/

/-- what the real Yosys pass emits for it -/
example : (flatPorts Flat.exPt).map (fun l => (mangle "p" l.path, l.msb, l.lsb)) =
    [("p__a", 17, 14), ("p__b__0", 9, 8), ("p__b__1", 11, 10), ("p__b__2", 13, 12),
     ("p__c__x", 7, 5), ("p__c__y", 4, 0)] := by decide

/-- `to_bits()` of `AB(a=0xA, b=[1,2,3])` is `0x2b9`: element 0 of the list field is least significant -/
example : toBits Flat.exAB (.struct [.bits 0xA, .arr [.bits 1, .bits 2, .bits 3]]) = 0x2b9 := by decide

example : (portLeaves true [.fld "ifc", .idx 1, .fld "msg"] [2] Flat.exPt).map (·.svName) =
    ["ifc__1__msg__a", "ifc__1__msg__b__0", "ifc__1__msg__b__1", "ifc__1__msg__b__2",
     "ifc__1__msg__c__x", "ifc__1__msg__c__y"] := by decide

end PV.C12
