/-! # C12 — property theorems (stub: not built yet) -/
namespace PV.C12
end PV.C12
