import PymtlVerif.Proofs.Flat
import PymtlVerif.Proofs.SV
import PymtlVerif.Proofs.SVStmt
import PymtlVerif.Proofs.SVMod
import PymtlVerif.Proofs.SVSigned
/-!
# C12 — the Yosys-compatible translation is equivalent, with a faithful flat port map

Models: `Model/Flat.lean` (`flatPorts`, `mangle`, `portLeaves`: the flattened ports of
`YosysStructuralTranslatorL1/L2` with the slice `[msb:lsb]` each leaf occupies in the packed vector; `toBits`: the
packed value of a port as `bitstruct.to_bits()` lays it out — first field most significant, element 0 of a list
field least significant) and the SystemVerilog / RTLIR models of C03 (the plain-Verilog subset is a sub-language).

Side conditions of the port-map theorems: `Pos T` (every vector width positive), `Distinct T` (field names of a
struct pairwise distinct — Python guarantees it), `WFNames T` / `GoodName` (a field name contains no `__`, does not
end with `_`, does not start with a digit: the identifier well-formedness of C13; the examples in Proofs/Flat.lean
show that each condition is necessary).

The expression / statement theorems are those of C03 instantiated at the Yosys backend: constants are inlined as
literals, `BitsN(e)` is emitted as the operand itself / a zero-extension; struct member access by flattened name
(`a.b` → `a__b`) is outside `WT` for this backend (covered by the correspondence).

**Signedness.**  Loop variables are `integer __loopvar__<blk>_<i>` — a SIGNED type — and every use is rendered
`N'(__loopvar__<blk>_<i>)`; a size cast keeps the signedness of its operand (IEEE 1800-2017 §6.24.1), so an operator
whose operands are all loop variables (or casts / sums / … of loop variables) is evaluated signed (§11.8.1).  PyMTL
computes with unsigned `Bits`.  `+ - * & | ^ ~ << >> == !=` and `?:` give the same bits either way at the node's own
width; `< <= > >=` and `%` do not.  `signSafe .yosys e` (decidable, `Model/VTr.lean`) says that no `< <= > >=` / `%`
node of `e` has two signed operands; under it the translation is correct (`expr_correct_yosys`,
`stmt_correct_yosys`), without it it is not (`signed_loopvar_counterexample`: `i < j`, i = 1, j = 5, three bits;
`signed_loopvar_mod_counterexample`: `i % j`, i = 5, j = 3) — a genuine defect of the backend, recorded as the
known finding `C12-yosys-signed-loopvar`.  As soon as ONE operand is unsigned (a signal, a sized literal, a
temporary) the operator is unsigned: the common case.
-/
namespace PV.C12
open PV.SV PV.VTr PV.SVProofs PV.Flat PV.Sched

/-- **Each flattened leaf is the slice `[msb:lsb]` of the packed value of the port**, as wide as the leaf's
    vector type. -/
theorem flat_is_slice {T : PTy} {v : Val} (h : HasTy v T) (hp : Pos T) (hd : Distinct T)
    {l : Leaf} (hl : l ∈ flatPorts T) :
    ∃ T' v', leafAt T v l.path = some (T', v') ∧
      toBits T v / 2 ^ l.lsb % 2 ^ (l.msb + 1 - l.lsb) = toBits T' v' ∧
      l.msb + 1 - l.lsb = T'.width ∧ HasTy v' T' ∧ ∃ w, T' = .vec w :=
  Flat.flat_is_slice h hp hd hl

/-- **The leaves partition the packed vector**: every range lies inside `[0, width)`, the ranges are pairwise
    disjoint, and every bit position belongs to exactly one leaf. -/
theorem flat_partition (T : PTy) (hp : Pos T) :
    (∀ l ∈ flatPorts T, l.lsb ≤ l.msb ∧ l.msb < T.width) ∧
    (flatPorts T).Pairwise (fun a c => a.msb < c.lsb ∨ c.msb < a.lsb) ∧
    (∀ b, b < T.width → ∃ i, ∃ hi : i < (flatPorts T).length,
      ((flatPorts T)[i].lsb ≤ b ∧ b ≤ (flatPorts T)[i].msb) ∧
      ∀ j (hj : j < (flatPorts T).length),
        ((flatPorts T)[j].lsb ≤ b ∧ b ≤ (flatPorts T)[j].msb) → j = i) :=
  Flat.flat_partition T hp

/-- **Distinct leaves get distinct mangled names** (`base__field__3…`), at the level of the emitted strings. -/
theorem flat_names_injective (T : PTy) (hw : WFNames T) (base : String) {l₁ l₂ : Leaf}
    (h₁ : l₁ ∈ flatPorts T) (h₂ : l₂ ∈ flatPorts T)
    (e : mangle base l₁.path = mangle base l₂.path) : l₁ = l₂ :=
  Flat.flat_names_injective T hw base h₁ h₂ e

/-- the same for the port names the check drives / observes (a port, an element of a list of ports, a member of
    an interface …) -/
theorem port_names_injective (T : PTy) (hw : WFNames T) (t : Tok) (rest : List Tok) (hr : GoodPath rest)
    (dims : List Nat) {q₁ q₂ : PortLeaf}
    (h₁ : q₁ ∈ portLeaves true (t :: rest) dims T) (h₂ : q₂ ∈ portLeaves true (t :: rest) dims T)
    (e : q₁.svName = q₂.svName) : q₁ = q₂ :=
  Flat.portLeaves_names_injective T hw t rest hr dims h₁ h₂ e

/-- the packed value fits the width of the type -/
theorem to_bits_lt {T : PTy} {v : Val} (h : HasTy v T) : toBits T v < 2 ^ T.width :=
  Flat.toBits_lt _ _ h

/-- **Expressions, Yosys backend** (C03's theorem restricted to the plain-Verilog forms), for every expression in
    which no ordering comparison / remainder has two signed operands -/
theorem expr_correct_yosys (cb : Bool) (Γ : Env) (C : List (String × Nat)) (σ : Store)
    (hC : HoldsC σ C) {e : RExpr} (hwt : WT .yosys Γ C e) (hs : signSafe .yosys e = true) {v : Nat}
    (hv : evalPy .yosys Γ σ e = some v) :
    eval cb Γ σ e.width (tr .yosys e) = v ∧ selfWidth Γ (tr .yosys e) = e.width ∧ v < 2 ^ e.width :=
  SVProofs.expr_correct .yosys cb Γ C σ hC hwt hs hv

/-- … also as an operand: in a context of the node's width and of whatever type `S` (signed only if the node is) the
    enclosing expression propagates to it -/
theorem expr_correct_yosys_ctx (cb : Bool) (Γ : Env) (C : List (String × Nat)) (σ : Store)
    (hC : HoldsC σ C) {e : RExpr} (hwt : WT .yosys Γ C e) (hs : signSafe .yosys e = true) {v : Nat}
    (hv : evalPy .yosys Γ σ e = some v) (S : Bool) (hS : S = true → signedOf (tr .yosys e) = true) :
    evalC cb Γ σ e.width S (tr .yosys e) = v :=
  SVProofs.expr_correct_ctx .yosys cb Γ C σ hC hwt hs hv S hS

/-- **Loop-free statements, Yosys backend** -/
theorem stmt_correct_yosys (cb : Bool) (Γ : Env) (C : List (String × Nat)) {s : RStmt}
    (hwt : WTs .yosys Γ C s) (hs : signSafeS .yosys s = true) {xs xs' : XS}
    (h : execPy .yosys Γ s xs = some xs') (hC : HoldsC xs.σ C) :
    exec cb Γ (trStmt .yosys s) xs = xs' ∧ HoldsC xs'.σ C :=
  SVProofs.stmt_correct .yosys cb Γ C hwt hs h hC

/-- **The side condition cannot be dropped** (`i < j`): a well-typed expression that PyMTL evaluates to `v` while
    the text the Yosys backend emits for it evaluates to something else, under both readings of the size cast:
    `3'(__loopvar__up_i) < 3'(__loopvar__up_j)` at i = 1, j = 5 is the signed comparison `1 < -3`. -/
theorem signed_loopvar_counterexample :
    ∃ (Γ : Env) (σ : Store) (e : RExpr) (v : Nat), WT .yosys Γ [] e ∧ HoldsC σ [] ∧
      evalPy .yosys Γ σ e = some v ∧ ∀ cb, eval cb Γ σ e.width (tr .yosys e) ≠ v :=
  ⟨SVProofs.sgΓ, SVProofs.sgσ 1 5, SVProofs.exLt, 1, SVProofs.exLt_wt .yosys, SVProofs.sg_holdsC 1 5,
    SVProofs.exLt_py .yosys, fun cb => by rw [SVProofs.exLt_yosys cb]; decide⟩

/-- the same for `%`: `3'(i) % 3'(j)` at i = 5, j = 3 is the signed remainder `-3 % 3 = 0`; PyMTL: `5 % 3 = 2` -/
theorem signed_loopvar_mod_counterexample :
    ∃ (Γ : Env) (σ : Store) (e : RExpr) (v : Nat), WT .yosys Γ [] e ∧ HoldsC σ [] ∧
      evalPy .yosys Γ σ e = some v ∧ ∀ cb, eval cb Γ σ e.width (tr .yosys e) ≠ v :=
  ⟨SVProofs.sgΓ, SVProofs.sgσ 5 3, SVProofs.exMod, 2, SVProofs.exMod_wt .yosys, SVProofs.sg_holdsC 5 3,
    SVProofs.exMod_py .yosys, fun cb => by rw [SVProofs.exMod_yosys cb]; decide⟩

/-- … and `signSafe` is what excludes them (so the two theorems above do not contradict `expr_correct_yosys`);
    the SystemVerilog backend (`int unsigned`) translates the same expression correctly -/
theorem counterexamples_not_signSafe :
    signSafe .yosys SVProofs.exLt = false ∧ signSafe .yosys SVProofs.exMod = false ∧
    (∀ cb, eval cb SVProofs.sgΓ (SVProofs.sgσ 1 5) SVProofs.exLt.width (tr .verilog SVProofs.exLt) = 1) :=
  ⟨SVProofs.exLt_notSafe, SVProofs.exMod_notSafe, SVProofs.exLt_verilog⟩

/-- **Single driver** (as C03) -/
theorem singleDriver_sound (ws : List (List WR)) (h : singleDriver ws = true) (x : String) (e b : Nat) :
    (drivers ws x e b).length ≤ 1 :=
  SV.singleDriver_sound ws h x e b

/-- **Design level** (as C03): unique fixed point of single-writer, acyclic combinational processes -/
theorem design_fixpoint_unique {Var Val : Type} {vw : XS → St Var Val} {castB : Bool} {Γ : Env}
    {ps : List Proc} {bs : List (Blk Var Val)} (hrep : Represents vw castB Γ ps bs) (hwf : ∀ b ∈ bs, b.Wf)
    (hsw : SingleWriter bs) (htopo : Topo bs) (s t : XS)
    (hin : ∀ k, (∀ b ∈ bs, ¬ b.W k) → vw t k = vw s k)
    (ht : ∀ p ∈ ps, vw (exec castB Γ p.body t) = vw t) :
    vw t = vw (runProcs castB Γ ps s) :=
  SV.design_fixpoint_unique hrep hwf hsw htopo s t hin ht

/-! ### non-vacuity of the signed fragment: operators on two loop variables that stay correct -/

/-- `i + j`, `i == j`, `i < 3'd5` are well typed and `signSafe` although (some of) their operands are signed -/
example : WT .yosys SVProofs.sgΓ [] SVProofs.exAdd ∧ signSafe .yosys SVProofs.exAdd = true ∧
    signedOf (tr .yosys SVProofs.exAdd) = true :=
  ⟨SVProofs.exAdd_wt .yosys, SVProofs.exAdd_safe, by simp [SVProofs.exAdd, SVProofs.lvI, SVProofs.lvJ, tr, trBin, signedOf]⟩
example : WT .yosys SVProofs.sgΓ [] SVProofs.exEq ∧ signSafe .yosys SVProofs.exEq = true :=
  ⟨SVProofs.exEq_wt .yosys, SVProofs.exEq_safe⟩
example : WT .yosys SVProofs.sgΓ [] SVProofs.exLtLit ∧ signSafe .yosys SVProofs.exLtLit = true :=
  ⟨SVProofs.exLtLit_wt .yosys, SVProofs.exLtLit_safe⟩

/-- `expr_correct_yosys` at `i + j`, i = 1, j = 5: the signed 3-bit sum has PyMTL's value 6 -/
example (cb : Bool) : eval cb SVProofs.sgΓ (SVProofs.sgσ 1 5) 3 (tr .yosys SVProofs.exAdd) = 6 :=
  (expr_correct_yosys cb _ [] _ (SVProofs.sg_holdsC 1 5) (SVProofs.exAdd_wt .yosys) SVProofs.exAdd_safe
    (v := 6) (by simp [SVProofs.exAdd, SVProofs.lvI, SVProofs.lvJ, evalPy, loopVarName, SVProofs.sgσ, Store.get,
      Store.set, Store.getL, Store.setL, Store.empty, pyBin, RExpr.width])).1

/-- `s.o @= i + j` is in the fragment of `stmt_correct_yosys` -/
example : WTs .yosys SVProofs.sgΓ [] SVProofs.exAsg ∧ signSafeS .yosys SVProofs.exAsg = true :=
  ⟨SVProofs.exAsg_wt .yosys, SVProofs.exAsg_safe⟩

/-! ### non-vacuity: the port `p : Pt { a: Bits4; b: [Bits2]*3; c: Inner { x: Bits3; y: Bits5 } }` -/

/-- what the real Yosys pass emits for it -/
example : (flatPorts Flat.exPt).map (fun l => (mangle "p" l.path, l.msb, l.lsb)) =
    [("p__a", 17, 14), ("p__b__0", 9, 8), ("p__b__1", 11, 10), ("p__b__2", 13, 12),
     ("p__c__x", 7, 5), ("p__c__y", 4, 0)] := by decide

/-- `to_bits()` of `AB(a=0xA, b=[1,2,3])` is `0x2b9`: element 0 of the list field is least significant -/
example : toBits Flat.exAB (.struct [.bits 0xA, .arr [.bits 1, .bits 2, .bits 3]]) = 0x2b9 := by decide

example : (portLeaves true [.fld "ifc", .idx 1, .fld "msg"] [2] Flat.exPt).map (·.svName) =
    ["ifc__1__msg__a", "ifc__1__msg__b__0", "ifc__1__msg__b__1", "ifc__1__msg__b__2",
     "ifc__1__msg__c__x", "ifc__1__msg__c__y"] := by decide

end PV.C12
