/-! # C20 — property theorems (stub: not built yet) -/
namespace PV.C20
end PV.C20
