import PymtlVerif.Proofs.TinyRV0
import PymtlVerif.Proofs.Cksum
/-!
# C20 — FL, CL and RTL example processors agree with the ISA on every program

What is PROVED here (for all instructions / states / inputs, no sampling):

* the encoding of `Model/TinyRV0.lean` (written from `tinyrv0-isa.md`): `decode ∘ encode = id` on
  instructions with in-range fields, `encode` injective, `decode` only accepts words of the table
  (`decode w = some i ↔ i.Wf ∧ encode i = w`);
* properties of the ISA interpreter: immediates are sign-extended, x0 stays 0, the state stays
  well-formed (32 registers, 32-bit values, bytes), shifts use the low five bits of `R[rs2]`,
  `PC' = PC + 4` except for a taken `bne`, `lw` after `sw` to the same address returns the stored
  word, memory is little endian, a store leaves every non-overlapping word alone, the `proc2mngr`
  stream only grows;
* the accelerator CSRs 0x7E0..0x7FF as the tutorial's NullXcel implements them (one register behind all 32
  numbers): `execX` / `stepX` / `runX` extend the interpreter conservatively, read-after-write through any pair of
  numbers, frame conditions, and the invariants above carried over;
* the checksum unit: `cksumRTL ws = cksumFL ws = cksumCL = cksumSpec ws` for every list of
  16-bit words of every length (the hardware has 8), and for every 128-bit message.

What is NOT proved (PARTIAL, stated plainly): there is no theorem relating the five-stage
`ProcRTL`, the three-stage `ProcCL` or `ProcFL` to this interpreter.  Their hazard / bypass /
stall / squash logic and the FL/CL/RTL interface adapters are covered only by the differential
execution of `harness/checks/c20.py` (random terminating programs under random timing, each
processor's `proc2mngr` sequence and final memory image against `run` of this model).  The full
statement would be
  `∀ program timing, obs (ProcRTL program timing) = obs (run program)`
for a model of the pipeline; only the right-hand side exists in Lean.
-/
namespace PV.C20
open PV.TinyRV0 PV.Cksum

/-! ## encoding -/

/-- every instruction with in-range fields decodes back to itself (all ten instructions) -/
theorem decode_encode (i : Inst) (h : i.Wf) : decode (encode i) = some i :=
  PV.TinyRV0.decode_encode i h

/-- distinct instructions have distinct encodings -/
theorem encode_injective (i j : Inst) (hi : i.Wf) (hj : j.Wf) (h : encode i = encode j) : i = j := by
  have h1 := decode_encode i hi
  have h2 := decode_encode j hj
  rw [h] at h1
  rw [h1] at h2
  exact Option.some.inj h2

/-- `decode` accepts exactly the 32-bit words of the table: whatever it returns is in range and
re-encodes to the same word (so no two words decode to the same instruction, and every word outside
the image of `encode` is rejected) -/
theorem decode_iff (w : Nat) (i : Inst) : decode w = some i ↔ (i.Wf ∧ encode i = w) := by
  constructor
  · exact decode_sound w i
  · intro ⟨h1, h2⟩; rw [← h2]; exact decode_encode i h1

/-- every encoding is a 32-bit word -/
theorem encode_lt (i : Inst) (h : i.Wf) : encode i < 2 ^ 32 := by
  have := decode_encode i h
  unfold decode at this
  split at this
  · assumption
  · cases this

/-- the all-zero word (what follows a program in the test memory) is not an instruction -/
theorem decode_zero : decode 0 = none := by decide

/-! ## immediates -/

/-- two's complement reading of a 12-bit / 13-bit field -/
def signed12 (imm : Nat) : Int := if imm < 2048 then (imm : Int) else (imm : Int) - 4096
def signed13 (imm : Nat) : Int := if imm < 4096 then (imm : Int) else (imm : Int) - 8192

/-- I/S immediates are sign-extended: adding `sext12 imm` modulo 2^32 is adding the signed value -/
theorem imm12_sign_extended (a imm : Nat) (hi : imm < 4096) :
    sext12 imm < W32 ∧
    (((a + sext12 imm) % W32 : Nat) : Int) = ((a : Int) + signed12 imm) % 4294967296 := by
  unfold sext12 signed12 W32
  split <;> constructor <;> omega

/-- B immediates are sign-extended -/
theorem imm13_sign_extended (a imm : Nat) (hi : imm < 8192) :
    sext13 imm < W32 ∧
    (((a + sext13 imm) % W32 : Nat) : Int) = ((a : Int) + signed13 imm) % 4294967296 := by
  unfold sext13 signed13 W32
  split <;> constructor <;> omega

/-! ## the interpreter -/

/-- a step keeps the state well-formed: 32 registers, x0 = 0, 32-bit register / FIFO values, byte
memory, 32-bit PC -/
theorem step_ok (s s' : State) (h : s.Ok) (hs : step s = .ok s') : s'.Ok := by
  unfold step at hs
  split at hs
  · exact exec_ok s s' _ h hs
  · cases hs

/-- the reset state is well-formed when the image holds bytes and the inputs are 32-bit values -/
theorem init_ok (m : Mem) (inp : List Nat) (hm : ∀ a, m.get a < 256) (hi : ∀ v ∈ inp, v < W32) :
    (State.init m inp).Ok := by
  refine ⟨by simp [State.init], by simp [State.init, rget], ?_, hm, hi, by simp [State.init],
    by simp [State.init, W32]⟩
  intro r
  simp only [State.init, rget, List.getD_eq_getElem?_getD, List.getElem?_replicate]
  split <;> simp [W32]

/-- x0 stays 0 after every step (whatever the instruction writes to) -/
theorem x0_step (s s' : State) (h : rget s.regs 0 = 0) (hs : step s = .ok s') : rget s'.regs 0 = 0 := by
  unfold step at hs
  split at hs
  · rename_i i _
    cases i <;> simp only [exec] at hs
    all_goals (repeat' split at hs)
    all_goals first
      | (cases hs; done)
      | (cases hs; simp only [rget_rset_zero]; exact h)
      | (cases hs; exact h)
  · cases hs

/-- ... hence after every run from any state with x0 = 0, in particular from reset -/
theorem x0_run (fuel : Nat) (s : State) (n : Nat) (h : rget s.regs 0 = 0) :
    rget (run fuel s n).1.regs 0 = 0 := by
  induction fuel generalizing s n with
  | zero => exact h
  | succ f ih =>
    unfold run
    split
    · exact h
    · next s' hs => exact ih s' (n + 1) (x0_step s s' h hs)

/-- a run keeps the state well-formed -/
theorem run_ok (fuel : Nat) (s : State) (n : Nat) (h : s.Ok) : (run fuel s n).1.Ok := by
  induction fuel generalizing s n with
  | zero => exact h
  | succ f ih =>
    unfold run
    split
    · exact h
    · next s' hs => exact ih s' (n + 1) (step_ok s s' h hs)

/-- SLL / SRL use only the low five bits of `R[rs2]`: the result is `R[rs1] * 2^(R[rs2] % 32)`
modulo 2^32, resp. `R[rs1] / 2^(R[rs2] % 32)` (zeros shifted in) -/
theorem shift_low5 (s s' : State) (rd rs1 rs2 : Nat) (hlen : s.regs.length = 32) (hrd : rd ≠ 0) (hrd' : rd < 32) :
    (exec s (.sll rd rs1 rs2) = .ok s' →
      rget s'.regs rd = (rget s.regs rs1 * 2 ^ (rget s.regs rs2 % 32)) % W32) ∧
    (exec s (.srl rd rs1 rs2) = .ok s' →
      rget s'.regs rd = rget s.regs rs1 / 2 ^ (rget s.regs rs2 % 32)) := by
  have hc : rd = rd ∧ rd ≠ 0 ∧ rd < s.regs.length := ⟨rfl, hrd, by omega⟩
  constructor
  · intro h; simp only [exec] at h; cases h
    rw [rget_rset, if_pos hc, Nat.shiftLeft_eq]
  · intro h; simp only [exec] at h; cases h
    rw [rget_rset, if_pos hc, Nat.shiftRight_eq_div_pow]

/-- `PC' = PC + 4` except for a taken `bne`, whose target is `PC + sext(imm)` -/
theorem pc_next (s s' : State) (i : Inst) (hf : fetch s = .ok i) (hs : step s = .ok s') :
    s'.pc = match i with
      | .bne rs1 rs2 imm =>
        if rget s.regs rs1 ≠ rget s.regs rs2 then (s.pc + sext13 imm) % W32 else (s.pc + 4) % W32
      | _ => (s.pc + 4) % W32 := by
  unfold step at hs
  rw [hf] at hs
  simp only at hs
  cases i <;> simp only [exec] at hs
  all_goals (repeat' split at hs)
  all_goals first
    | (cases hs; done)
    | (cases hs; simp_all; done)

/-- little endian: after `sw`, the byte at the lowest address is the least significant one -/
theorem mem_little_endian (m : Mem) (a v : Nat) :
    (storeWord m a v).get a = v % 256 ∧ (storeWord m a v).get (a + 1) = v / 256 % 256 ∧
    (storeWord m a v).get (a + 2) = v / 65536 % 256 ∧ (storeWord m a v).get (a + 3) = v / 16777216 % 256 ∧
    loadWord m a = m.get a + 256 * m.get (a + 1) + 65536 * m.get (a + 2) + 16777216 * m.get (a + 3) := by
  refine ⟨?_, ?_, ?_, ?_, rfl⟩ <;> rw [storeWord_get] <;> simp

/-- a stored word reads back, and every word that does not overlap it is unchanged -/
theorem load_store (m : Mem) (a v a' : Nat) (hv : v < W32) :
    loadWord (storeWord m a v) a = v ∧
    ((a' + 4 ≤ a ∨ a + 4 ≤ a') → loadWord (storeWord m a v) a' = loadWord m a') := by
  refine ⟨?_, loadWord_storeWord_disjoint m a v a'⟩
  rw [loadWord_storeWord_same, Nat.mod_eq_of_lt hv]

/-- `lw` right after `sw` to the same effective address returns the stored register value -/
theorem lw_after_sw (s s1 s2 : State) (rs2 rs1 imm rd rs1' imm' : Nat) (hok : s.Ok)
    (hf : fetch s = .ok (.sw rs2 rs1 imm)) (h1 : step s = .ok s1)
    (hf1 : fetch s1 = .ok (.lw rd rs1' imm')) (h2 : step s1 = .ok s2)
    (ha : (rget s1.regs rs1' + sext12 imm') % W32 = (rget s.regs rs1 + sext12 imm) % W32)
    (hrd : rd ≠ 0) (hrd' : rd < 32) :
    rget s2.regs rd = rget s.regs rs2 := by
  unfold step at h1 h2
  rw [hf] at h1; rw [hf1] at h2
  simp only [exec] at h1 h2
  split at h1
  · next hA =>
    cases h1
    simp only at h2 ha
    rw [ha, if_pos hA] at h2
    cases h2
    have hc : rd = rd ∧ rd ≠ 0 ∧ rd < s.regs.length := ⟨rfl, hrd, by rw [hok.len]; exact hrd'⟩
    rw [rget_rset, if_pos hc]
    rw [loadWord_storeWord_same, Nat.mod_eq_of_lt (hok.regs rs2)]
  · cases h1

/-- the `proc2mngr` sequence only grows: what was delivered stays delivered, in order -/
theorem run_out_prefix (fuel : Nat) (s : State) (n : Nat) : s.out <+: (run fuel s n).1.out := by
  induction fuel generalizing s n with
  | zero => exact List.prefix_refl _
  | succ f ih =>
    unfold run
    split
    · exact List.prefix_refl _
    · next s' hs =>
      refine List.IsPrefix.trans ?_ (ih s' (n + 1))
      unfold step at hs
      split at hs
      · rename_i i _
        cases i <;> simp only [exec] at hs
        all_goals (repeat' split at hs)
        all_goals first
          | (cases hs; done)
          | (cases hs; exact List.prefix_refl _)
          | (cases hs; exact List.prefix_append _ _)
      · cases hs

/-- the instruction count reported by `run` is the number of successful steps: at most `fuel` -/
theorem run_count (fuel : Nat) (s : State) (n : Nat) :
    n ≤ (run fuel s n).2.1 ∧ (run fuel s n).2.1 ≤ n + fuel := by
  induction fuel generalizing s n with
  | zero => simp [run]
  | succ f ih =>
    unfold run
    split
    · simp
    · next s' _ => have := ih s' (n + 1); omega

/-! ## accelerator CSRs: the NullXcel register behind xcelreg00..31 (`execX` / `stepX` / `runX`)

No theorem above had to be restricted: the encoding theorems already cover every 12-bit CSR number, and the
interpreter theorems are about `exec` / `step` / `run`, which are unchanged.  The theorems below show that the
extension is conservative and carry the invariants over to `stepX` / `runX` (what the driver executes). -/

/-- the accelerator-free ISA leaves accelerator accesses undefined ... -/
theorem exec_xcel_undefined (s : State) (i : Inst) (h : i.isXcel = true) : exec s i = .error .undefined := by
  cases i <;> simp only [Inst.isXcel] at h <;> try cases h
  all_goals
    simp only [isXcelCsr, Bool.and_eq_true, decide_eq_true_eq] at h
    simp only [exec]
    split
    · next hc => simp only [CSR_MNGR2PROC, CSR_PROC2MNGR] at hc; omega
    · rfl

/-- ... and the extension changes nothing else: on every other instruction `execX` is `exec` on the core state with
`xr0` untouched -/
theorem execX_conservative (s : StateX) (i : Inst) (h : i.isXcel = false) :
    execX s i = liftX s (exec s.core i) := by
  cases i <;> simp only [Inst.isXcel] at h <;> simp [execX, h]

theorem stepX_conservative (s : StateX) (i : Inst) (hf : fetch s.core = .ok i) (h : i.isXcel = false) :
    stepX s = liftX s (step s.core) := by
  unfold stepX step; rw [hf]; exact execX_conservative s i h

/-- the three ways `execX` succeeds -/
theorem execX_cases (s s' : StateX) (i : Inst) (h : execX s i = .ok s') :
    (exec s.core i = .ok s'.core ∧ s'.xr0 = s.xr0) ∨
    (∃ rd csr, i = .csrr rd csr ∧ isXcelCsr csr = true ∧ s'.xr0 = s.xr0 ∧
      s'.core = { s.core with pc := (s.core.pc + 4) % W32, regs := rset s.core.regs rd s.xr0 }) ∨
    (∃ csr rs1, i = .csrw csr rs1 ∧ isXcelCsr csr = true ∧ s'.xr0 = rget s.core.regs rs1 ∧
      s'.core = { s.core with pc := (s.core.pc + 4) % W32 }) := by
  have lift : ∀ r, liftX s r = .ok s' → r = .ok s'.core ∧ s'.xr0 = s.xr0 := by
    intro r hr; unfold liftX at hr
    split at hr
    · cases hr; exact ⟨rfl, rfl⟩
    · cases hr
  cases i with
  | csrr rd csr =>
    simp only [execX] at h
    split at h
    · next hx => cases h; exact .inr (.inl ⟨rd, csr, rfl, hx, rfl, rfl⟩)
    · exact .inl (lift _ h)
  | csrw csr rs1 =>
    simp only [execX] at h
    split at h
    · next hx => cases h; exact .inr (.inr ⟨csr, rs1, rfl, hx, rfl, rfl⟩)
    · exact .inl (lift _ h)
  | _ => exact .inl (lift _ (by simpa [execX] using h))

/-- one register behind all 32 numbers: a read of ANY accelerator CSR returns what the last write to ANY accelerator
CSR stored (NullXcel ignores the address) -/
theorem xcel_read_after_write (s s1 s2 : StateX) (c1 rs1 rd c2 : Nat)
    (h1 : execX s (.csrw c1 rs1) = .ok s1) (h2 : execX s1 (.csrr rd c2) = .ok s2)
    (hc1 : isXcelCsr c1 = true) (hc2 : isXcelCsr c2 = true)
    (hlen : s.core.regs.length = 32) (hrd : rd ≠ 0) (hrd' : rd < 32) :
    rget s2.core.regs rd = rget s.core.regs rs1 ∧ s2.xr0 = rget s.core.regs rs1 := by
  simp only [execX, hc1, if_true] at h1; cases h1
  simp only [execX, hc2, if_true] at h2; cases h2
  have hc : rd = rd ∧ rd ≠ 0 ∧ rd < s.core.regs.length := ⟨rfl, hrd, by omega⟩
  exact ⟨by rw [rget_rset, if_pos hc], rfl⟩

/-- only an accelerator write changes the accelerator register; the power-on value is 0 -/
theorem xcel_reg_stable (s s' : StateX) (i : Inst) (h : execX s i = .ok s')
    (hw : ∀ csr rs1, i = .csrw csr rs1 → isXcelCsr csr = false) : s'.xr0 = s.xr0 := by
  rcases execX_cases s s' i h with ⟨_, h⟩ | ⟨_, _, _, _, h, _⟩ | ⟨csr, rs1, hi, hx, _, _⟩
  · exact h
  · exact h
  · rw [hw csr rs1 hi] at hx; cases hx

theorem xcel_reg_init (m : Mem) (inp : List Nat) : (StateX.init m inp).xr0 = 0 := rfl

/-- well-formed state with the accelerator register -/
def OkX (s : StateX) : Prop := s.core.Ok ∧ s.xr0 < W32

theorem execX_ok (s s' : StateX) (i : Inst) (h : OkX s) (he : execX s i = .ok s') : OkX s' := by
  rcases execX_cases s s' i he with ⟨hc, hx⟩ | ⟨rd, csr, _, _, hx, hc⟩ | ⟨csr, rs1, _, _, hx, hc⟩
  · exact ⟨exec_ok s.core s'.core i h.1 hc, by rw [hx]; exact h.2⟩
  · refine ⟨?_, by rw [hx]; exact h.2⟩
    rw [hc]
    exact ⟨by simp [rset_length, h.1.len], by simp [rget_rset_zero, h.1.x0],
      rset_lt _ _ _ h.1.regs h.2, h.1.mem, h.1.inp, h.1.out, mod_W32_lt _⟩
  · refine ⟨?_, by rw [hx]; exact h.1.regs rs1⟩
    rw [hc]
    exact ⟨h.1.len, h.1.x0, h.1.regs, h.1.mem, h.1.inp, h.1.out, mod_W32_lt _⟩

theorem stepX_ok (s s' : StateX) (h : OkX s) (hs : stepX s = .ok s') : OkX s' := by
  unfold stepX at hs
  split at hs
  · exact execX_ok s s' _ h hs
  · cases hs

theorem initX_ok (m : Mem) (inp : List Nat) (hm : ∀ a, m.get a < 256) (hi : ∀ v ∈ inp, v < W32) :
    OkX (StateX.init m inp) := ⟨init_ok m inp hm hi, by simp [StateX.init, W32]⟩

theorem runX_ok (fuel : Nat) (s : StateX) (n : Nat) (h : OkX s) : OkX (runX fuel s n).1 := by
  induction fuel generalizing s n with
  | zero => exact h
  | succ f ih =>
    unfold runX
    split
    · exact h
    · next s' hs => exact ih s' (n + 1) (stepX_ok s s' h hs)

/-- x0 stays 0 with the accelerator attached (a `csrr x0, xcelreg` is dropped like any other write to x0) -/
theorem x0_stepX (s s' : StateX) (h : rget s.core.regs 0 = 0) (hs : stepX s = .ok s') :
    rget s'.core.regs 0 = 0 := by
  unfold stepX at hs
  split at hs
  · next i hf =>
    rcases execX_cases s s' i hs with ⟨hc, _⟩ | ⟨rd, csr, _, _, _, hc⟩ | ⟨csr, rs1, _, _, _, hc⟩
    · exact x0_step s.core s'.core h (by unfold step; rw [hf]; exact hc)
    · rw [hc]; simp only [rget_rset_zero]; exact h
    · rw [hc]; exact h
  · cases hs

theorem x0_runX (fuel : Nat) (s : StateX) (n : Nat) (h : rget s.core.regs 0 = 0) :
    rget (runX fuel s n).1.core.regs 0 = 0 := by
  induction fuel generalizing s n with
  | zero => exact h
  | succ f ih =>
    unfold runX
    split
    · exact h
    · next s' hs => exact ih s' (n + 1) (x0_stepX s s' h hs)

/-- accelerator accesses never touch memory, the manager FIFOs, or (for writes) the register file -/
theorem xcel_access_frame (s s' : StateX) (i : Inst) (hx : i.isXcel = true) (h : execX s i = .ok s') :
    s'.core.mem.m = s.core.mem.m ∧ s'.core.inp = s.core.inp ∧ s'.core.out = s.core.out ∧
    s'.core.pc = (s.core.pc + 4) % W32 := by
  rcases execX_cases s s' i h with ⟨hc, _⟩ | ⟨_, _, _, _, _, hc⟩ | ⟨_, _, _, _, _, hc⟩
  · rw [exec_xcel_undefined s.core i hx] at hc; cases hc
  · rw [hc]; exact ⟨rfl, rfl, rfl, rfl⟩
  · rw [hc]; exact ⟨rfl, rfl, rfl, rfl⟩

/-- the `proc2mngr` sequence only grows, with the accelerator attached -/
theorem runX_out_prefix (fuel : Nat) (s : StateX) (n : Nat) : s.core.out <+: (runX fuel s n).1.core.out := by
  induction fuel generalizing s n with
  | zero => exact List.prefix_refl _
  | succ f ih =>
    unfold runX
    split
    · exact List.prefix_refl _
    · next s' hs =>
      refine List.IsPrefix.trans ?_ (ih s' (n + 1))
      unfold stepX at hs
      split at hs
      · next i hf =>
        rcases execX_cases s s' i hs with ⟨hc, _⟩ | ⟨_, _, _, _, _, hc⟩ | ⟨_, _, _, _, _, hc⟩
        · have := run_out_prefix 1 s.core 0
          unfold run at this
          have hstep : step s.core = .ok s'.core := by unfold step; rw [hf]; exact hc
          rw [hstep] at this
          simpa [run] using this
        · rw [hc]; exact List.prefix_refl _
        · rw [hc]; exact List.prefix_refl _
      · cases hs

theorem runX_count (fuel : Nat) (s : StateX) (n : Nat) :
    n ≤ (runX fuel s n).2.1 ∧ (runX fuel s n).2.1 ≤ n + fuel := by
  induction fuel generalizing s n with
  | zero => simp [runX]
  | succ f ih =>
    unfold runX
    split
    · simp
    · next s' _ => have := ih s' (n + 1); omega

/-! ## checksum unit -/

/-- ChecksumFL equals the specification for every word list -/
theorem cksum_fl_eq_spec (ws : List Nat) : cksumFL ws = cksumSpec ws := fl_eq_spec ws

/-- ChecksumRTL (32-bit step units, shift/or) equals the specification for every list of 16-bit words -/
theorem cksum_rtl_eq_spec (ws : List Nat) (h : ∀ w ∈ ws, w < 65536) : cksumRTL ws = cksumSpec ws :=
  rtl_eq_spec ws h

/-- the property's clause on word lists: RTL = FL = specification (stated for every length; the unit has 8
words; `ChecksumCL` calls the FL function) -/
theorem cksum_agree (ws : List Nat) (h : ∀ w ∈ ws, w < 65536) :
    cksumRTL ws = cksumFL ws ∧ cksumFL ws = cksumSpec ws :=
  ⟨by rw [rtl_eq_spec ws h, fl_eq_spec], fl_eq_spec ws⟩

/-- the property's clause on the units' message interface: for every 8 × 16-bit input, the CL unit and the
RTL unit applied to the packed 128-bit message both return the specification's checksum of the words -/
theorem cksum_units_agree (ws : List Nat) (h : ∀ w ∈ ws, w < 65536) (h8 : ws.length = 8) :
    cksumCLmsg (packWords ws) = cksumSpec ws ∧ cksumRTLmsg (packWords ws) = cksumSpec ws ∧
    cksumFL ws = cksumSpec ws := by
  unfold cksumCLmsg cksumRTLmsg
  rw [← h8, unpack_pack ws h]
  exact ⟨fl_eq_spec ws, rtl_eq_spec ws h, fl_eq_spec ws⟩

/-- on the 128-bit message interface: CL and RTL units return the same value for every message, the
specification applied to the eight 16-bit slices -/
theorem cksum_msg_agree (b : Nat) :
    cksumRTLmsg b = cksumCLmsg b ∧ cksumCLmsg b = cksumSpec (unpackWords 8 b) := by
  unfold cksumRTLmsg cksumCLmsg
  rw [rtl_eq_spec _ (unpack_lt 8 b), fl_eq_spec]
  exact ⟨rfl, rfl⟩

/-- `b128_to_words ∘ words_to_b128 = id` on 16-bit words -/
theorem unpack_pack_words (ws : List Nat) (h : ∀ w ∈ ws, w < 65536) :
    unpackWords ws.length (packWords ws) = ws := unpack_pack ws h

/-- the checksum is a 32-bit value: both halves are below 2^16 -/
theorem cksum_lt (ws : List Nat) : cksumSpec ws < 2 ^ 32 := by
  obtain ⟨h1, h2⟩ := spec_inv ws (0, 0) (by decide) (by decide)
  simp only [cksumSpec]
  omega

/-! ## non-vacuity -/

-- the encodings of the document's tables
example : encode (.add 3 1 2) = 0x002081b3 := by decide
example : encode (.addi 1 0 0xfff) = 0xfff00093 := by decide           -- addi x1, x0, -1
example : encode (.sw 2 1 0xffc) = 0xfe20ae23 := by decide             -- sw x2, -4(x1)
example : encode (.bne 1 2 0x1ff8) = 0xfe209ce3 := by decide           -- bne x1, x2, -8
example : encode (.csrr 2 0xfc0) = 0xfc002173 := by decide
example : encode (.csrw 0x7c0 2) = 0x7c011073 := by decide
example : decode 0x00000013 = some (.addi 0 0 0) := by decide          -- nop
example : decode 0x40208033 = none := by decide                         -- sub: funct7 ≠ 0
example : decode 0xfc00a173 = none := by decide                         -- csrrs with rs1 ≠ x0
-- single instructions on the reset state (registers all 0, input FIFO [7])
def s0 : State := State.init Mem.empty [7]
example : (exec s0 (.csrr 1 0xfc0)).toOption.map (fun s => (s.regs.take 3, s.inp, s.pc)) = some ([0, 7, 0], [], 0x204) := by
  decide
example : (exec s0 (.csrr 0 0xfc0)).toOption.map (fun s => (s.regs.take 3, s.inp)) = some ([0, 0, 0], []) := by
  decide                                                                  -- write to x0 dropped, FIFO still dequeued
example : (exec { s0 with regs := [0, 3, 33] } (.sll 1 1 2)).toOption.map (fun s => s.regs) = some [0, 6, 33] := by
  decide                                                                  -- shift by 33 is a shift by 1
example : (exec { s0 with regs := [0, 3, 4] } (.bne 1 2 0x1ff8)).toOption.map (fun s => s.pc) = some 0x1f8 := by
  decide                                                                  -- taken, target PC - 8
example : (exec { s0 with regs := [0, 3, 3] } (.bne 1 2 0x1ff8)).toOption.map (fun s => s.pc) = some 0x204 := by
  decide
example : (exec { s0 with regs := [0, 5] } (.csrw 0x7c0 1)).toOption.map (fun s => s.out) = some [5] := by decide
example : (exec { s0 with regs := [0, 2] } (.lw 2 1 0)).toOption.map (fun s => s.pc) = none := by decide   -- unaligned: undefined
-- accelerator: write through xcelreg05, read back through xcelreg31
example : ((execX ⟨{ s0 with regs := [0, 0xabc] }, 0⟩ (.csrw 0x7E5 1)).toOption.bind
    (fun s => (execX s (.csrr 2 0x7FF)).toOption)).map (fun s => (s.core.regs, s.xr0)) = some ([0, 0xabc], 0xabc) := by
  decide                                      -- (register list has 2 entries here, so the write to x2 is out of range)
example : (execX ⟨{ s0 with regs := [0, 5, 0] }, 9⟩ (.csrr 2 0x7E0)).toOption.map (fun s => s.core.regs) = some [0, 5, 9] := by
  decide
example : (exec s0 (.csrw 0x7E0 1)).toOption.map (fun s => s.pc) = none := by decide
example : cksumSpec [1, 2, 3, 4, 5, 6, 7, 8] = 0x00780024 := by decide
example : cksumRTL [0xffff, 0xffff, 0xffff, 0xffff, 0xffff, 0xffff, 0xffff, 0xffff] = 0xffdcfff8 := by decide

end PV.C20
