import PymtlVerif.Proofs.Pipe
import PymtlVerif.Proofs.PipeDemo
import PymtlVerif.Proofs.PipeExcl
import PymtlVerif.Proofs.PipeL2
import PymtlVerif.Proofs.PipeL2Ex
import PymtlVerif.Proofs.PipeRef6
import PymtlVerif.Proofs.PipeEx
/-!
# C20p — the five-stage `ProcRTL` itself, inside the model

`Model/Pipe.lean` is a cycle-level transcription of ProcCtrlRTL + ProcDpathRTL + drop unit + the fetch-path
queues (tied to /repo cycle by cycle by `harness/checks/c20_pipe.py`).  Proved here about that model:

* LEVEL 1 — one-cycle facts of the control equations, any state, any input: stall chain, a stalled stage keeps
  its instruction, bubbles, squash only from a taken branch in a non-stalled X and only into D and F,
  register-file writes only from W, x0.
* LEVEL 2 — for all states reachable from power-on under ANY input list (no assumption on the environment,
  resets at any time), with ghost sequence numbers: every stage is a one-place buffer of its input stream
  (`stage_conservation`), tags are strictly increasing from W back to F and commits are in fetch order without
  repetition (`tags_in_order`), every fetched instruction is exactly one of committed / squashed in D /
  squashed in F / still in flight (`no_dup_no_loss`), squashed instructions are younger than the branch
  (`squashed_younger`), the drop unit drops exactly the responses of squashed fetches and the stream entering
  D is the stream of the others (`drop_unit_exact`, `deq_accounted`), a register-file write comes from a
  non-stalled W (`rf_written_by_unstalled_W`).
* LEVEL 3 — data correctness for ALL programs and ALL environment timings allowed by the explicit assumption
  `envOk` (instruction memory answers accepted fetches in order with the words of the image, data memory
  answers accepted requests in order with little-endian word semantics, mngr2proc delivers the source list in
  order; every `rdy` and all delays arbitrary, no fairness): the control table + immediate generator + ALU
  implement the ten instructions (`isa_step_is_datapath`); along every admissible trace from reset the
  refinement invariant holds (`refinement_invariant`: operands after bypass, results, branch decisions,
  memory and mngr2proc side effects of every valid instruction in D/X/M/W are the ISA's at its position in
  program order; at most two fetches outstanding); hence register file and proc2mngr stream always equal the
  ISA state after as many instructions as have committed (`arch_state_refines`), and the sequence of
  architectural states at the commits IS the ISA execution (`commits_are_isa`).
  Hypothesis on the program (`Runs p N`): the ISA interpreter executes N instructions from reset without
  stopping, and none of them was overwritten by an earlier store (no self-modifying code).  Safety only: nothing
  says that a commit ever happens (the environment may stall forever).
-/
namespace PV.C20p
open PV.Pipe

/-! # LEVEL 1 -/

/-! ## stall / bubble / squash, one cycle, any state, any input -/

/-- the stall chain: a stalled stage stalls every valid younger stage -/
theorem stall_chain (s : State) (i : EnvIn) :
    (stall_W s i = true → s.val_M = true → stall_M s i = true) ∧
    (stall_M s i = true → s.val_X = true → stall_X s i = true) ∧
    (stall_X s i = true → s.val_D = true → stall_D s i = true) ∧
    (stall_D s i = true → s.val_F = true → stall_F s i = true) :=
  ⟨stall_M_of_stall_W s i, stall_X_of_stall_M s i, stall_D_of_stall_X s i, stall_F_of_stall_D s i⟩

/-- a stage that stalls keeps its instruction: valid bit, control word and data registers unchanged -/
theorem stall_keeps (s : State) (i : EnvIn) (hr : i.reset = false) :
    (stall_W s i = true → (next s i).val_W = s.val_W ∧ (next s i).cw = s.cw ∧ (next s i).wb_result_W = s.wb_result_W) ∧
    (stall_M s i = true → (next s i).val_M = s.val_M ∧ (next s i).cm = s.cm ∧ (next s i).ex_result_M = s.ex_result_M) ∧
    (stall_X s i = true → (next s i).val_X = s.val_X ∧ (next s i).cx = s.cx ∧ (next s i).op1_X = s.op1_X ∧
        (next s i).op2_X = s.op2_X ∧ (next s i).store_X = s.store_X ∧ (next s i).br_target_X = s.br_target_X) ∧
    (stall_D s i = true → squash_D s i = false →
        (next s i).val_D = s.val_D ∧ (next s i).pc_D = s.pc_D ∧ (next s i).inst_D = s.inst_D) ∧
    (stall_F s i = true → squash_F s i = false → (next s i).val_F = s.val_F ∧ (next s i).pc_F = s.pc_F) :=
  ⟨hold_W s i hr, hold_M s i hr, hold_X s i hr, hold_D s i hr, hold_F s i hr⟩

/-- a non-stalled stage whose predecessor stalls, is squashed or is empty receives a bubble -/
theorem bubble (s : State) (i : EnvIn) (hr : i.reset = false) :
    (stall_W s i = false → (stall_M s i = true ∨ s.val_M = false) → (next s i).val_W = false) ∧
    (stall_M s i = false → (stall_X s i = true ∨ s.val_X = false) → (next s i).val_M = false) ∧
    (stall_X s i = false → (stall_D s i = true ∨ squash_D s i = true ∨ s.val_D = false) → (next s i).val_X = false) ∧
    (reg_en_D s i = true → (stall_F s i = true ∨ squash_F s i = true ∨ s.val_F = false) → (next s i).val_D = false) :=
  ⟨bubble_W s i hr, bubble_M s i hr, bubble_X s i hr, bubble_D s i hr⟩

/-- squashes originate only from a valid, non-stalled X-stage instruction whose control word is "branch"
and whose operands differ (there is no jump: `osquash_D` is constant 0) -/
theorem squash_origin (s : State) (i : EnvIn) (h : squash_D s i = true ∨ squash_F s i = true) :
    s.val_X = true ∧ stall_X s i = false ∧ s.cx.br_type = true ∧ s.op1_X ≠ s.op2_X := by
  rcases h with h | h
  · exact osquash_X_origin s i (squash_D_origin s i h).2
  · exact osquash_X_origin s i (squash_F_origin s i h).2

/-- ... and it only hits the younger stages D and F: both are empty after the edge, the PC is the branch
target, and X itself moves on (it is not stalled) -/
theorem squash_younger_only (s : State) (i : EnvIn) (hr : i.reset = false) (h : osquash_X s i = true) :
    (next s i).val_D = false ∧ (next s i).val_X = false ∧ (next s i).val_M = true ∧
    (s.val_F = true → (next s i).pc_F = s.br_target_X) := by
  obtain ⟨a, b, c⟩ := squash_effect s i hr h
  obtain ⟨hv, hs, _⟩ := osquash_X_origin s i h
  refine ⟨a, b, ?_, c⟩
  have hm : stall_M s i = false := by
    cases hm : stall_M s i
    · rfl
    · rw [stall_X_of_stall_M s i hm hv] at hs; cases hs
  simp [next, hr, reg_en_M, hm, next_val_X, hv, hs]

/-! ## register file -/

/-- the register file changes only through a valid W-stage instruction with `rf_wen_pending` and a
non-zero destination, and then exactly that register takes `wb_result_W` -/
theorem rf_write_only_W (s : State) (i : EnvIn) (h : (next s i).rf ≠ s.rf) :
    s.val_W = true ∧ s.cw.rf_wen_pending = true ∧ s.cw.rf_waddr ≠ 0 ∧
    (next s i).rf = s.rf.set s.cw.rf_waddr s.wb_result_W := rf_change s i h

/-- x0 is never written ... -/
theorem x0_never_written (s : State) (i : EnvIn) : rf_read (next s i).rf 0 = rf_read s.rf 0 := rf_zero s i

/-- ... so it reads 0 in every state reachable from power-on under ANY input sequence (resets included) -/
theorem x0_zero (envs : List EnvIn) : rf_read (runS State.init envs).rf 0 = 0 := by
  suffices ∀ s, rf_read s.rf 0 = 0 → rf_read (runS s envs).rf 0 = 0 from this _ (by decide)
  induction envs with
  | nil => intro s h; exact h
  | cons i is ih => intro s h; exact ih _ (by rw [rf_zero]; exact h)

/-! ## non-vacuity on the recorded trace -/

-- a load-use stall in D (cycle 9: `add x4,x3,x2` behind `lw x3`), which also stalls F and bubbles X
example : (demo.map fun r => (stall_D r.1 r.2.1, stall_F r.1 r.2.1, ostall_hazard_D r.1))[9]? = some (true, true, true) := by decide
example : (demo.map fun r => r.1.val_X)[10]? = some false := by decide
-- a taken branch in X (cycle 13) squashes D and F; one cycle later D and X are empty and the PC is the target
example : (demo.map fun r => (osquash_X r.1 r.2.1, squash_D r.1 r.2.1, squash_F r.1 r.2.1))[13]? = some (true, true, true) := by decide
example : (demo.map fun r => (r.1.val_D, r.1.val_X, r.1.pc_F))[14]? = some (false, false, 0x208) := by decide
-- bypasses from M and X (cycle 7), from W (cycle 8)
example : (demo.map fun r => (op1_byp_sel_D r.1, op2_byp_sel_D r.1))[7]? = some (2, 1) := by decide
example : (demo.map fun r => op1_byp_sel_D r.1)[8]? = some 3 := by decide
-- the 13th commit (cycle 24) is the `csrw`, which sends 2; behind it the zero words after the program flow through
example : ((demo.take 25).filter fun r => r.2.2.commit_inst).length = 13 := by decide
example : (demo.filterMap fun r => if r.2.2.proc2mngr_en then some r.2.2.proc2mngr_msg else none) = [2] := by decide
-- the register file at the end: x1 = 0x2000, x2 = 0, x3 = 1, x4 = 2
example : (runS State.init demoTrace).rf.take 5 = [0, 0x2000, 0, 1, 2] := by decide


/-! # LEVEL 2: reachable states under any input, ghost sequence numbers

`Ghost` / `gnext` / `grun` (`Proofs/PipeGhost.lean`) instrument the model: every fetch issue (`reg_en_F`) takes a
fresh tag; tags move with the instructions; logs record what leaves each stage.  A reset cycle clears the
logs and starts a new tag epoch (`base`).  `Reach s g` = `(s, g)` is the instrumented state after some input
list from power-on. -/

/-- the ghost state does not influence the model -/
theorem ghost_projection (s : State) (g : Ghost) (envs : List EnvIn) : (grun s g envs).1 = runS s envs :=
  grun_fst s g envs

/-- every stage is a one-place buffer: (stream that entered) = (log of what left) ++ (occupant).
F: the tags issued since reset are the consumed responses, then the awaited squashed fetch, then the current
fetch.  D receives exactly the non-dropped responses; X exactly the non-squashed instructions that left D;
M what left X; W what left M; commits what left W.  So the sequence entering stage S+1 is the
subsequence-by-squash of the sequence entering S, nothing duplicated, nothing lost, order kept. -/
theorem stage_conservation {s : State} {g : Ghost} (h : Reach s g) :
    List.range' g.base (g.nxt - g.base) = g.consumedF.map (·.1) ++ opt [g.tWait] s.drop_wait ++ opt [g.tF] s.val_F ∧
    (g.consumedF.filter (fun e => !e.2)).map (·.1) = g.outD.map (·.1) ++ opt [g.tD] s.val_D ∧
    (g.outD.filter (fun e => !e.2)).map (·.1) = g.outX ++ opt [g.tX] s.val_X ∧
    g.outX = g.outM ++ opt [g.tM] s.val_M ∧
    g.outM = g.commits ++ opt [g.tW] s.val_W ∧
    (s.drop_wait = true → s.val_D = false ∧ s.val_X = false) :=
  ⟨h.inv.F, h.inv.D, h.inv.X, h.inv.M, h.inv.W, h.inv.wait⟩

/-- committed tags, then the tags in W, M, X, D, the drop unit, F are strictly increasing: commits are in
fetch order without repetition, everything committed is older than everything in flight, the pipeline holds
strictly younger instructions from W back to F -/
theorem tags_in_order {s : State} {g : Ghost} (h : Reach s g) :
    List.Pairwise (· < ·)
      (g.commits ++ opt [g.tW] s.val_W ++ opt [g.tM] s.val_M ++ opt [g.tX] s.val_X ++ opt [g.tD] s.val_D
        ++ opt [g.tWait] s.drop_wait ++ opt [g.tF] s.val_F) := tags_increasing h

/-- every tag issued since the last reset is exactly one of: committed, squashed in D, squashed in F, still
in W / M / X / D / F -/
theorem no_dup_no_loss {s : State} {g : Ghost} (h : Reach s g) :
    List.Perm
      (g.commits ++ (g.outD.filter (·.2)).map (·.1) ++ g.sqF ++
        (opt [g.tW] s.val_W ++ opt [g.tM] s.val_M ++ opt [g.tX] s.val_X ++ opt [g.tD] s.val_D ++ opt [g.tF] s.val_F))
      (List.range' g.base (g.nxt - g.base)) := fate_partition h

/-- when X squashes, what it squashes (D, F) is younger than the branch, and the branch itself moves on to M -/
theorem squashed_younger {s : State} {g : Ghost} (h : Reach s g) (i : EnvIn) (hq : osquash_X s i = true) :
    (s.val_D = true → g.tX < g.tD) ∧ (s.val_F = true → g.tX < g.tF) ∧
    (i.reset = false → (gnext s g i).outX = g.outX ++ [g.tX]) := squashed_are_younger h i hq

/-- the drop unit drops exactly the responses of the squashed fetches (in order; the last one may still be
awaited), the stream entering D is exactly the stream of non-dropped responses, and only squashed fetches
are dropped -/
theorem drop_unit_exact {s : State} {g : Ghost} (h : Reach s g) :
    g.sqF = (g.consumedF.filter (·.2)).map (·.1) ++ opt [g.tWait] s.drop_wait ∧
    (g.consumedF.filter (fun e => !e.2)).map (·.1) = g.outD.map (·.1) ++ opt [g.tD] s.val_D ∧
    (∀ e ∈ g.consumedF, e.2 = true → e.1 ∈ g.sqF) := drop_exact h

/-- every real dequeue from the instruction response queue is a WAIT-drop, a squash-drop, a delivery to D, or
(before the first fetch only) an unrequested response thrown away -/
theorem deq_is_accounted (s : State) (g : Ghost) (i : EnvIn) (hr : i.reset = false)
    (hen : drop_in_en s i = true) (hrdy : drop_in_rdy s i = true) :
    (s.drop_wait = true ∧ (gnext s g i).consumedF = g.consumedF ++ [(g.tWait, true)]) ∨
    (s.drop_wait = false ∧ squash_F s i = true ∧ (gnext s g i).consumedF = g.consumedF ++ [(g.tF, true)]) ∨
    (s.drop_wait = false ∧ next_val_F s i = true ∧ (gnext s g i).consumedF = g.consumedF ++ [(g.tF, false)]) ∨
    (s.drop_wait = false ∧ s.val_F = false ∧ (gnext s g i).consumedF = g.consumedF) :=
  deq_accounted s g i hr hen hrdy

/-- in every state reachable from power-on under any input list, a register-file write comes from a valid,
NON-STALLED (committing) W-stage instruction with `rf_wen_pending` and a non-zero destination -/
theorem rf_written_by_unstalled_W (envs : List EnvIn) (i : EnvIn)
    (hc : (next (runS State.init envs) i).rf ≠ (runS State.init envs).rf) :
    let s := runS State.init envs
    s.val_W = true ∧ stall_W s i = false ∧ commit_inst s i = true ∧ s.cw.rf_wen_pending = true ∧
    s.cw.rf_waddr ≠ 0 ∧ (next s i).rf = s.rf.set s.cw.rf_waddr s.wb_result_W :=
  rf_change_unstalled (excl_run envs) i hc

-- non-vacuity: `Proofs/PipeL2Ex.lean` evaluates the ghost machine on the recorded trace (one instruction squashed
-- in D, one fetch squashed in F and dropped at once, 16 commits) and on a variant that goes through the WAIT
-- state of the drop unit and through a reset in mid-flight; two of its facts repeated here
example : (grun State.init {} demoTrace).2.sqF = [8] ∧
    ((grun State.init {} demoTrace).2.outD.filter (·.2)).map (·.1) = [7] := by decide
example : (grun State.init {} (waitTrace.take 14)).1.drop_wait = true := by decide

/-! # LEVEL 3: the committed instructions are the ISA execution -/

open PV.TinyRV0 (decode exec loadWord)

/-- the control-signal table, the immediate generator and the ALU implement the ISA: for every word the ISA
document decodes and every state in which it executes, the ISA step is the step computed through the
table row of that word (`U.next`: rs1 / rs2 / immediate / mngr2proc operand selection, ALU function,
write-back select, memory request type, branch condition), and the row satisfies the side conditions the
hazard logic relies on (`RowOk`) -/
theorem isa_step_is_datapath (S S' : TinyRV0.State) (w : Nat) (ins : TinyRV0.Inst)
    (hd : decode w = some ins) (he : exec S ins = .ok S') : S' = U.next S w ∧ RowOk S w :=
  exec_uniform S S' w ins hd he

/-- the refinement invariant holds after every admissible trace from a post-reset state, with the commit
count of the trace -/
theorem refinement_invariant (p : Prog) (N : Nat) (hR : Runs p N) (s0 : State) (h0 : PostReset s0)
    (envs : List EnvIn) (hE : EnvTrace p (Env.init p) s0 envs) :
    Inv p N (runS s0 envs) (envRun (Env.init p) s0 envs) (commitCount s0 envs) := by
  simpa using inv_run hR envs (inv_init p N h0) hE

/-- at every moment the architectural state of the pipeline is the ISA state after as many instructions
as have committed: register file, messages sent to proc2mngr, and -- once X, M, W are empty -- the data
memory; the mngr2proc messages not yet consumed by the ISA are still in the source list or the input queue -/
theorem arch_state_refines (p : Prog) (N : Nat) (hR : Runs p N) (s0 : State) (h0 : PostReset s0)
    (envs : List EnvIn) (hE : EnvTrace p (Env.init p) s0 envs) (hk : commitCount s0 envs ≤ N) :
    let s := runS s0 envs
    let k := commitCount s0 envs
    s.rf = (isaAt p k).regs ∧ sent s0 envs = (isaAt p k).out ∧
    (s.val_X = false → s.val_M = false → s.val_W = false →
      (envRun (Env.init p) s0 envs).dmem = (isaAt p k).mem ∧
      (s.val_D = false → (if s.mngr2proc_q.full then [s.mngr2proc_q.entry] else []) ++
        (envRun (Env.init p) s0 envs).src = (isaAt p k).inp)) := by
  have I := refinement_invariant p N hR s0 h0 envs hE
  refine ⟨I.rf hk, ?_, ?_⟩
  · have := I.out hk
    rw [envRun_out] at this
    simpa [Env.init] using this
  · intro hx hm hw
    have e : iX (runS s0 envs) (commitCount s0 envs) = commitCount s0 envs := by simp [iX, iM, hw, hm]
    refine ⟨by have := I.dmem (by rw [e]; exact hk); rw [e] at this; exact this, ?_⟩
    intro hd
    have e2 : iD (runS s0 envs) (commitCount s0 envs) = commitCount s0 envs := by simp [iD, e, hx]
    have := I.inp (by rw [e2]; exact hk); rw [e2] at this; exact this

/-- `commits (run s0 envs) = isaPrefix prog k`: the register file and the proc2mngr stream observed right
after each commit are those of the ISA after 1, 2, ..., k instructions -/
theorem commits_are_isa (p : Prog) (N : Nat) (hR : Runs p N) (s0 : State) (h0 : PostReset s0)
    (envs : List EnvIn) (hE : EnvTrace p (Env.init p) s0 envs) (hk : commitCount s0 envs ≤ N) :
    commitObs (Env.init p) s0 envs = isaObs p 0 (commitCount s0 envs) :=
  commitObs_eq hR envs (inv_init p N h0) hE (by simpa using hk)

/-- the hardware's branch decision is the ISA's: in every admissible state, a valid X-stage instruction
inside the ISA window redirects the PC iff the ISA takes the branch, and a squash leaves the ISA's next
PC in the PC register -/
theorem branch_decision_is_isa (p : Prog) (N : Nat) (hR : Runs p N) (s0 : State) (h0 : PostReset s0)
    (envs : List EnvIn) (hE : EnvTrace p (Env.init p) s0 envs) :
    let s := runS s0 envs
    let k := iX s (commitCount s0 envs)
    s.val_X = true → k < N → pc_redirect_X s = U.taken (isaAt p k) (wordAt p k) :=
  fun hv hj => redirect_X_ok hR (refinement_invariant p N hR s0 h0 envs hE) hv hj

/-! ## the assumptions are satisfiable -/

/-- the environment assumption is satisfiable for every program, from every state, for every length: the
environment that answers as early as the protocol allows -/
theorem env_assumption_satisfiable (p : Prog) (n : Nat) (E : Env) (s : State) :
    EnvTrace p E s (idealTrace p n E s) := idealTrace_ok p n E s

-- so is the silent one: never ready, never answering (no fairness is assumed anywhere)
example (p : Prog) (E : Env) (s : State) : EnvTrace p E s [{}, {}, {}] := by
  simp [EnvTrace, envOk]

/-- one reset cycle from power-on gives a `PostReset` state (so does the reset sequence of the simulator) -/
theorem reset_gives_postReset (i : EnvIn) (hr : i.reset = true) : PostReset (next State.init i) :=
  postReset_of_reset i hr
example : PostReset (runS State.init (demoTrace.take 3)) := by
  constructor <;> decide

/-- a program that satisfies `Runs`: `addi x1, x0, 5 ; csrw proc2mngr, x1` -/
theorem runs_satisfiable : Runs tiny 2 := tiny_runs

-- all hypotheses of `commits_are_isa` together, on `tiny` against the ideal environment, any number of cycles
example (n : Nat) :
    let s0 := next State.init { reset := true }
    let envs := idealTrace tiny n (Env.init tiny) s0
    commitCount s0 envs ≤ 2 → commitObs (Env.init tiny) s0 envs = isaObs tiny 0 (commitCount s0 envs) :=
  fun hk => commits_are_isa tiny 2 tiny_runs _ (postReset_of_reset _ rfl) _ (idealTrace_ok tiny n _ _) hk


/-! ## a concrete instance end to end: the real ProcRTL's recorded inputs while running `tiny` -/

-- the recorded inputs satisfy the environment assumption for `tiny` (`tinyTrace_ok`, by a reflective checker
-- for the fetch bookkeeping + the four words of the image that were fetched)
example : EnvTrace tiny (Env.init tiny) tinyS0 tinyTrace := tinyTrace_ok
-- two commits in these nine cycles, and 5 is sent to proc2mngr in the second one
example : commitCount tinyS0 tinyTrace = 2 ∧ sent tinyS0 tinyTrace = [5] := by decide
-- what the model's pipeline shows at its two commits (evaluated) ...
example : (commitObs (Env.init tiny) tinyS0 tinyTrace).map (fun o => (o.1.take 3, o.2)) = [([0, 5, 0], []), ([0, 5, 0], [5])] := by
  decide
-- ... is, by `commits_are_isa`, the ISA's register file and output stream after 1 and 2 instructions
example : isaObs tiny 0 2 = commitObs (Env.init tiny) tinyS0 tinyTrace :=
  (commits_are_isa tiny 2 tiny_runs tinyS0 (postReset_of_reset _ rfl) tinyTrace tinyTrace_ok (by decide)).symm
example : (isaAt tiny 2).out = [5] ∧ (isaAt tiny 2).regs.take 3 = [0, 5, 0] := by
  have h := arch_state_refines tiny 2 tiny_runs tinyS0 (postReset_of_reset _ rfl) tinyTrace tinyTrace_ok (by decide)
  have hc : commitCount tinyS0 tinyTrace = 2 := by decide
  simp only [hc] at h
  exact ⟨by rw [← h.2.1]; decide, by rw [← h.1]; decide⟩

end PV.C20p
