import PymtlVerif.Proofs.Arb
/-!
# C19 — round-robin arbiters grant exactly one requester, fairly

Property theorems about `Model/Arb.lean` (`RoundRobinArbiter` = `hasEn := false`, `RoundRobinArbiterEn` =
`hasEn := true`), for every number of requesters `n`, every request vector and every input history.

`Pointer n s p` (from `Proofs/Arb.lean`): the priority register value `s` is `2^p` with `p < n`.
`dist n p k = (k + n - p) % n`: cyclic distance from the pointer to input `k`.
`advances hasEn inp = !hasEn || inp.en`: the enable seen by the priority update.
-/
namespace PV.C19
open PV.Arb

/-! ## the pointer stays one-hot in every reachable state -/

/-- one cycle keeps the register a pointer, whatever the inputs are (reset included) -/
theorem step_pointer (hasEn : Bool) {n s p : Nat} (hn : 0 < n) (inp : In) (hs : Pointer n s p) :
    ∃ p', Pointer n (step hasEn n s inp) p' := by
  unfold step
  rcases cycle_cases hasEn inp hs with ⟨_, hc⟩ | ⟨k, hk, _, hc⟩
  · rw [hc]
    cases inp.reset
    · exact ⟨p, hs⟩
    · exact ⟨0, hn, rfl⟩
  · rw [hc]
    cases inp.reset
    · cases advances hasEn inp
      · exact ⟨p, hs⟩
      · exact ⟨(k + 1) % n, Nat.mod_lt _ hn, rfl⟩
    · exact ⟨0, hn, rfl⟩

/-- a reset cycle makes the register point to input 0, from any previous value (also from the
    uninitialised value 0 of a fresh simulation, which is not a pointer) -/
theorem reset_pointer (hasEn : Bool) (n s0 : Nat) (inp : In) (hr : inp.reset = true) :
    step hasEn n s0 inp = 2 ^ 0 := by
  simp [step, cycle, regEnRst, hr]

/-- C19_onehot_inv: every register value reachable through a reset is one-hot: exactly one `p < n`
    has its bit set, and the value is `2^p` -/
theorem onehot_inv (hasEn : Bool) (n : Nat) (hn : 2 ≤ n) (s : Nat) (h : Reachable hasEn n s) :
    ∃ p, Pointer n s p ∧ (∀ i, bit s i = decide (i = p)) ∧ ∀ q, Pointer n s q → q = p := by
  have key : ∃ p, Pointer n s p := by
    induction h with
    | reset s0 inp hr => exact ⟨0, by omega, reset_pointer hasEn n s0 inp hr⟩
    | step inp _ ih =>
      obtain ⟨p, hp⟩ := ih
      exact step_pointer hasEn (by omega) inp hp
  obtain ⟨p, hp⟩ := key
  refine ⟨p, hp, ?_, ?_⟩
  · intro i; rw [hp.2]; exact bit_two_pow p i
  · intro q hq
    have := hq.2; rw [hp.2] at this
    exact (two_pow_inj this).symm

/-- the same over input histories: after any history that contains a reset cycle — whatever came before
    it, whatever comes after it (further resets included) — the register is a pointer -/
theorem onehot_history (hasEn : Bool) (n : Nat) (hn : 2 ≤ n) (s0 : Nat) (pre post : List In) (r : In)
    (hr : r.reset = true) : ∃ p, Pointer n (run hasEn n s0 (pre ++ r :: post)) p := by
  rw [run_append]
  show ∃ p, Pointer n (run hasEn n (step hasEn n (run hasEn n s0 pre) r) post) p
  have h0 : ∃ p, Pointer n (step hasEn n (run hasEn n s0 pre) r) p :=
    ⟨0, by omega, reset_pointer hasEn n _ r hr⟩
  generalize step hasEn n (run hasEn n s0 pre) r = s at h0
  induction post generalizing s with
  | nil => exact h0
  | cons x post ih =>
    obtain ⟨p, hp⟩ := h0
    exact ih _ (step_pointer hasEn (by omega) x hp)

/-- without a reset the invariant is not established: from the uninitialised register value 0 nothing is
    ever granted and the register stays 0 (why `Reachable` starts at a reset) -/
theorem dead_before_reset (hasEn : Bool) (n reqs : Nat) (en : Bool) :
    cycle hasEn n 0 ⟨false, en, reqs⟩ = ⟨0, 0, false, 0⟩ := by
  have hk : ∀ i, kills (prioInt n 0) (reqsInt n reqs) i = true := by
    intro i
    induction i with
    | zero => rfl
    | succ i ih =>
      rw [kills_succ]
      have : prioInt n 0 i = false := by simp [prioInt, bit]
      simp [this, ih]
  have hg : grants n reqs 0 = 0 := by
    unfold grants
    apply pack_eq_zero
    intro i _
    have hp : ∀ j, prioInt n 0 j = false := by intro j; simp [prioInt, bit]
    simp [grantBit, grantsInt, hp, hk]
  simp only [cycle, hg, priorityEn, regEnRst]
  cases hasEn <;> simp

/-! ## the grant vector, for a register holding a pointer -/

/-- C19_subset: only requesting inputs (and only bits below n) are granted -/
theorem grants_subset {n s p : Nat} (reqs : Nat) (hs : Pointer n s p) (k : Nat)
    (hg : bit (grants n reqs s) k = true) : k < n ∧ bit reqs k = true := by
  obtain ⟨hp, rfl⟩ := hs
  rw [bit_grants] at hg
  simp only [Bool.and_eq_true, decide_eq_true_eq] at hg
  exact ⟨hg.1, grantBit_subset hp k hg.1 hg.2⟩

/-- C19_onehot0: at most one bit of `grants` is set -/
theorem grants_onehot0 {n s p : Nat} (reqs : Nat) (hs : Pointer n s p) (k k' : Nat)
    (hg : bit (grants n reqs s) k = true) (hg' : bit (grants n reqs s) k' = true) : k = k' := by
  obtain ⟨hp, rfl⟩ := hs
  rw [bit_grants] at hg hg'
  simp only [Bool.and_eq_true, decide_eq_true_eq] at hg hg'
  exact grantBit_unique hp k k' hg.1 hg'.1 hg.2 hg'.2

/-- the same as a value: `grants` is 0 or a power of two below 2^n -/
theorem grants_zero_or_onehot {n s p : Nat} (reqs : Nat) (hs : Pointer n s p) :
    grants n reqs s = 0 ∨ ∃ k, k < n ∧ grants n reqs s = 2 ^ k := by
  obtain ⟨hp, rfl⟩ := hs
  rcases grants_cases reqs hp with ⟨hz, _⟩ | ⟨k, hk, hg, _⟩
  · exact Or.inl hz
  · exact Or.inr ⟨k, hk, hg⟩

/-- C19_nonzero_iff: something is granted iff something is requested -/
theorem grants_nonzero_iff {n s p : Nat} (reqs : Nat) (hs : Pointer n s p) :
    grants n reqs s ≠ 0 ↔ ∃ k, k < n ∧ bit reqs k = true := by
  obtain ⟨hp, rfl⟩ := hs
  rcases grants_cases reqs hp with ⟨hz, hall⟩ | ⟨k, hk, hg, hgb⟩
  · constructor
    · intro h; exact absurd hz h
    · rintro ⟨k, hk, hr⟩; rw [hall k hk] at hr; cases hr
  · constructor
    · intro _; exact ⟨k, hk, grantBit_subset hp k hk hgb⟩
    · intro _; rw [hg]; exact two_pow_ne_zero k

/-- C19_first_from_pointer: the granted input is the first requester at or after the pointer in cyclic
    order: no requester is cyclically closer to the pointer -/
theorem first_from_pointer {n s p : Nat} (reqs : Nat) (hs : Pointer n s p) (k : Nat)
    (hg : bit (grants n reqs s) k = true) (j : Nat) (hj : j < n) (hr : bit reqs j = true) :
    dist n p k ≤ dist n p j := by
  obtain ⟨hp, rfl⟩ := hs
  rw [bit_grants] at hg
  simp only [Bool.and_eq_true, decide_eq_true_eq] at hg
  exact grantBit_first hp k hg.1 hg.2 j hj hr

/-- closed form of the whole kill-chain network: `grants = 2^k` exactly for the requester `k` that is
    cyclically closest to the pointer (and `grants = 0` iff there is none, `grants_nonzero_iff`) -/
theorem grants_closed_form {n s p : Nat} (reqs : Nat) (hs : Pointer n s p) (k : Nat) (hk : k < n) :
    grants n reqs s = 2 ^ k ↔
      (bit reqs k = true ∧ ∀ j, j < n → bit reqs j = true → dist n p k ≤ dist n p j) := by
  have hs' := hs
  obtain ⟨hp, rfl⟩ := hs
  constructor
  · intro h
    have hb : bit (grants n reqs (2 ^ p)) k = true := by rw [h, bit_two_pow]; simp
    exact ⟨(grants_subset reqs hs' k hb).2, fun j hj hr => first_from_pointer reqs hs' k hb j hj hr⟩
  · rintro ⟨hr, hfirst⟩
    rcases grants_cases reqs hp with ⟨_, hall⟩ | ⟨k', hk', hg, hgb⟩
    · rw [hall k hk] at hr; cases hr
    · have h1 := grantBit_first hp k' hk' hgb k hk hr
      have h2 := hfirst k' hk' (grantBit_subset hp k' hk' hgb)
      have : k' = k := dist_inj p k' k hp hk' hk (by omega)
      rw [hg, this]

/-! ## the pointer update -/

/-- the wire `priority_en`: high iff something is granted (and, in the `En` variant, `en` is high) -/
theorem prioEn_iff (hasEn : Bool) (n s : Nat) (inp : In) :
    (cycle hasEn n s inp).prioEn = true ↔
      ((cycle hasEn n s inp).grants ≠ 0 ∧ (hasEn = true → inp.en = true)) := by
  simp only [cycle, priorityEn]
  cases hasEn <;> simp

/-- C19_pointer_update: reset → pointer 0; advancing (no reset, `priority_en` high) → the granted input is
    some `k` and the new pointer is `(k+1) % n` (the grant vector rotated left by one); otherwise the
    register keeps its value -/
theorem pointer_update (hasEn : Bool) {n s p : Nat} (inp : In) (hs : Pointer n s p) :
    (inp.reset = true → (cycle hasEn n s inp).next = 2 ^ 0) ∧
    (inp.reset = false → (cycle hasEn n s inp).prioEn = true →
        ∃ k, k < n ∧ (cycle hasEn n s inp).grants = 2 ^ k ∧ (cycle hasEn n s inp).next = 2 ^ ((k + 1) % n)) ∧
    (inp.reset = false → (cycle hasEn n s inp).prioEn = false → (cycle hasEn n s inp).next = s) := by
  rcases cycle_cases hasEn inp hs with ⟨_, hc⟩ | ⟨k, hk, _, hc⟩
  · rw [hc]
    refine ⟨?_, ?_, ?_⟩
    · intro hr; simp [hr]
    · intro _ h; cases h
    · intro hr _; simp [hr]
  · rw [hc]
    refine ⟨?_, ?_, ?_⟩
    · intro hr; simp [hr]
    · intro hr ha
      simp only at ha
      exact ⟨k, hk, rfl, by simp [hr, ha]⟩
    · intro hr ha
      simp only at ha
      simp [hr, ha]

/-- `RoundRobinArbiterEn`: with `en` low (and no reset) the priority never moves, whatever is granted -/
theorem en_low_holds (n s : Nat) (inp : In) (hr : inp.reset = false) (he : inp.en = false) :
    step true n s inp = s := by
  simp [step, cycle, priorityEn, regEnRst, hr, he]

/-- `RoundRobinArbiter` ignores `en` altogether -/
theorem plain_ignores_en (n s : Nat) (r e e' : Bool) (reqs : Nat) :
    cycle false n s ⟨r, e, reqs⟩ = cycle false n s ⟨r, e', reqs⟩ := by
  simp [cycle, priorityEn]

/-! ## fairness -/

/-- the cycles with `priority_en` high are, while input `i` keeps requesting, exactly the cycles whose
    inputs enable the update (`en` high for the `En` variant, every cycle for the plain arbiter) -/
theorem enCount_eq (hasEn : Bool) {n : Nat} (hn : 0 < n) (i : Nat) (hi : i < n) :
    ∀ (h : List In) (s p : Nat), Pointer n s p →
      (∀ inp ∈ h, inp.reset = false ∧ bit inp.reqs i = true) →
      enCount (trace hasEn n s h) = (h.filter (advances hasEn)).length := by
  intro h
  induction h with
  | nil => intro s p _ _; rfl
  | cons inp h ih =>
    intro s p hs hall
    have hinp := hall inp (List.mem_cons_self ..)
    have hrest : ∀ x ∈ h, x.reset = false ∧ bit x.reqs i = true :=
      fun x hx => hall x (List.mem_cons_of_mem _ hx)
    obtain ⟨p', hp'⟩ := step_pointer hasEn hn inp hs
    simp only [trace, enCount_cons, ih _ p' hp' hrest]
    rcases cycle_cases hasEn inp hs with ⟨hz, _⟩ | ⟨k, hk, _, hc⟩
    · have := hz i hi; rw [hinp.2] at this; cases this
    · rw [hc]
      cases ha : advances hasEn inp <;> simp [ha]; omega

/-- C19_fair, measure form: from any pointer position `p`, while input `i` keeps requesting (no reset),
    `i` is granted in an advancing cycle that is preceded by at most `dist n p i` advancing cycles.
    (`dist n p i` strictly decreases in every advancing cycle that grants someone else.) -/
theorem fair_within (hasEn : Bool) {n : Nat} (i : Nat) (hi : i < n) :
    ∀ (h : List In) (s p : Nat), Pointer n s p →
      (∀ inp ∈ h, inp.reset = false ∧ bit inp.reqs i = true) →
      dist n p i < enCount (trace hasEn n s h) →
      ∃ pre c post, trace hasEn n s h = pre ++ c :: post ∧
        c.prioEn = true ∧ bit c.grants i = true ∧ enCount pre ≤ dist n p i := by
  have hn : 0 < n := by omega
  intro h
  induction h with
  | nil => intro s p _ _ hc; simp [trace, enCount] at hc
  | cons inp h ih =>
    intro s p hs hall hcount
    have hinp := hall inp (List.mem_cons_self ..)
    have hrest : ∀ x ∈ h, x.reset = false ∧ bit x.reqs i = true :=
      fun x hx => hall x (List.mem_cons_of_mem _ hx)
    simp only [trace, enCount_cons] at hcount
    rcases cycle_cases hasEn inp hs with ⟨hz, _⟩ | ⟨k, hk, hgb, hc⟩
    · have := hz i hi; rw [hinp.2] at this; cases this
    · have hnext : step hasEn n s inp = if advances hasEn inp then 2 ^ ((k + 1) % n) else s := by
        simp [step, hc, hinp.1]
      obtain ⟨hp, hs2⟩ := hs
      cases ha : advances hasEn inp with
      | false =>
        -- the register keeps its value; the count does not move
        rw [ha] at hnext; simp only [Bool.false_eq_true, if_false] at hnext
        have hpe : (cycle hasEn n s inp).prioEn = false := by rw [hc]; exact ha
        rw [hpe] at hcount
        obtain ⟨pre, c, post, htr, hce, hcg, hle⟩ := ih (step hasEn n s inp) p ⟨hp, by rw [hnext]; exact hs2⟩ hrest
          (by simpa using hcount)
        refine ⟨cycle hasEn n s inp :: pre, c, post, by simp [trace, htr], hce, hcg, ?_⟩
        rw [enCount_cons, hpe]; simpa using hle
      | true =>
        rw [ha] at hnext; simp only [if_true] at hnext
        have hpe : (cycle hasEn n s inp).prioEn = true := by rw [hc]; exact ha
        by_cases hki : k = i
        · -- i itself is granted in this advancing cycle
          refine ⟨[], cycle hasEn n s inp, trace hasEn n (step hasEn n s inp) h, by simp [trace], hpe, ?_, by simp [enCount]⟩
          rw [hc, hki, bit_two_pow]; simp
        · -- somebody else, not farther from the pointer than i, is granted: i gets closer
          have hle : dist n p k ≤ dist n p i := by
            subst hs2; exact grantBit_first hp k hk hgb i hi hinp.2
          have hdec := dist_decreases p k i hp hk hi hki hle
          rw [hpe] at hcount
          obtain ⟨pre, c, post, htr, hce, hcg, hle'⟩ :=
            ih (step hasEn n s inp) ((k + 1) % n) ⟨Nat.mod_lt _ hn, hnext⟩ hrest (by simp at hcount; omega)
          refine ⟨cycle hasEn n s inp :: pre, c, post, by simp [trace, htr], hce, hcg, ?_⟩
          rw [enCount_cons, hpe]; simp; omega

/-- C19_fair: an input that keeps requesting is granted within `n` advancing cycles.  For every history
    `h` without reset in which input `i` requests all the time and which contains `n` cycles that enable
    the update (`advances`: all cycles for `RoundRobinArbiter`, the cycles with `en` high for
    `RoundRobinArbiterEn`), some advancing cycle grants `i`, and fewer than `n` advancing cycles precede it.
    The window may start in any reachable state. -/
theorem fair (hasEn : Bool) {n : Nat} (i : Nat) (hi : i < n) (h : List In) (s p : Nat) (hs : Pointer n s p)
    (hall : ∀ inp ∈ h, inp.reset = false ∧ bit inp.reqs i = true)
    (hlen : n ≤ (h.filter (advances hasEn)).length) :
    ∃ pre c post, trace hasEn n s h = pre ++ c :: post ∧
      c.prioEn = true ∧ bit c.grants i = true ∧ enCount pre < n := by
  have hn : 0 < n := by omega
  have hd := dist_lt n p i hn
  have hcnt := enCount_eq hasEn hn i hi h s p hs hall
  obtain ⟨pre, c, post, htr, hce, hcg, hle⟩ := fair_within hasEn i hi h s p hs hall (by omega)
  exact ⟨pre, c, post, htr, hce, hcg, by omega⟩

/-- the plain arbiter: a continuously requesting input is granted within the first `n` cycles -/
theorem fair_plain {n : Nat} (i : Nat) (hi : i < n) (h : List In) (s p : Nat) (hs : Pointer n s p)
    (hall : ∀ inp ∈ h, inp.reset = false ∧ bit inp.reqs i = true) (hlen : n ≤ h.length) :
    ∃ pre c post, trace false n s h = pre ++ c :: post ∧ bit c.grants i = true ∧ pre.length < n := by
  have hf : h.filter (advances false) = h := by
    apply List.filter_eq_self.mpr; intro a _; rfl
  obtain ⟨pre, c, post, htr, _, hcg, hlt⟩ := fair false i hi h s p hs hall (by rw [hf]; exact hlen)
  refine ⟨pre, c, post, htr, hcg, ?_⟩
  -- every cycle of the prefix has priority_en high, so its length is the count
  have hpre : enCount pre = pre.length := by
    have hn : 0 < n := by omega
    have hcnt := enCount_eq false hn i hi h s p hs hall
    rw [hf, htr] at hcnt
    have hlen2 : (trace false n s h).length = h.length := by
      clear hcnt hf hlen hall hs htr
      induction h generalizing s with
      | nil => rfl
      | cons x h ih => simp [trace, ih]
    rw [htr] at hlen2
    unfold enCount at hcnt ⊢
    simp only [List.filter_append, List.length_append] at hcnt hlen2
    have h1 := List.length_filter_le (fun c : Cycle => c.prioEn) pre
    have h2 := List.length_filter_le (fun c : Cycle => c.prioEn) (c :: post)
    simp only [List.length_cons] at hlen2 h2
    omega
  omega

/-- fairness stated from reset: in every state reachable through a reset, for both variants -/
theorem fair_reachable (hasEn : Bool) (n : Nat) (hn : 2 ≤ n) (s : Nat) (hr : Reachable hasEn n s)
    (i : Nat) (hi : i < n) (h : List In)
    (hall : ∀ inp ∈ h, inp.reset = false ∧ bit inp.reqs i = true)
    (hlen : n ≤ (h.filter (advances hasEn)).length) :
    ∃ pre c post, trace hasEn n s h = pre ++ c :: post ∧
      c.prioEn = true ∧ bit c.grants i = true ∧ enCount pre < n := by
  obtain ⟨p, hp, _⟩ := onehot_inv hasEn n hn s hr
  exact fair hasEn i hi h s p hp hall hlen

/-! ## non-vacuity -/
example : Reachable false 4 1 := Reachable.reset 0 ⟨true, false, 0⟩ rfl
example : Pointer 4 8 3 := ⟨by decide, by decide⟩
example : grants 4 0b0110 (2 ^ 3) = 0b0010 := by decide
example : (cycle true 4 (2 ^ 3) ⟨false, true, 0b0110⟩).next = 2 ^ 2 := by decide
example : (cycle true 4 (2 ^ 3) ⟨false, false, 0b0110⟩).next = 2 ^ 3 := by decide
example : (trace false 3 1 [⟨false, false, 7⟩, ⟨false, false, 7⟩, ⟨false, false, 7⟩]).map (·.grants) = [1, 2, 4] := by
  decide

end PV.C19
