/-! # C19 — property theorems (stub: not built yet) -/
namespace PV.C19
end PV.C19
