import PymtlVerif.Proofs.BitStructHeap
/-!
# C06 — bitstruct packing is a lossless, order-preserving bijection

Property theorems about `Model/BitStruct.lean`, for every type shape (nested structs,
multi-dimensional list fields) and every value. Helper lemmas: `Proofs/BitStruct.lean`,
`Proofs/BitStructHeap.lean`.

The statements are on the code-shaped face of the model — `nbitsPy` (the `start_bit` fold),
`toBitsPy` (the flat `concat(...)` argument list through the `concat` of `Model/Bits.lean`),
`fromBitsPy` (slices counted down from `total_nbits`) — and relate it to the structural
specification `Ty.width` / `toBits` / `fromBits` in which the layout is stated.
`slice p lo w` = bits `[lo, lo+w)` of `p`.
-/
namespace PV.C06
open PV.BitStruct
open PV.Bits (B Reg)

/-! ## width -/

/-- `cls.nbits` is the structural width, which is the sum of the leaf widths; the leaves of any value
of the type have exactly these widths, in order -/
theorem width (T : Ty) :
    nbitsPy T = T.width ∧ T.width = T.leaves.sum ∧
    ∀ v, HasTy v T → (leafVals v).map (·.1) = T.leaves ∧ (toBits v).1 = T.width :=
  ⟨nbitsPy_eq T, width_eq_sum_leaves T, fun _ h => ⟨leafVals_widths h, toBits_width h⟩⟩

/-! ## to_bits / from_bits -/

/-- `to_bits()` returns a `Bits` of width `cls.nbits` holding the structural packing (which fits) -/
theorem to_bits_spec {v : Val} {T : Ty} (h : HasTy v T) (h1 : 1 ≤ T.width) (h2 : T.width < 1024) :
    toBitsPy v = .ok ⟨nbitsPy T, (toBits v).2⟩ ∧ (toBits v).2 < 2 ^ nbitsPy T := by
  rw [nbitsPy_eq]
  exact ⟨(toBitsPy_eq h).1 ⟨h1, h2⟩, toBits_lt h⟩

/-- 1024 bits or more cannot be packed: `concat` raises ValueError (the stated bound of the property) -/
theorem to_bits_too_wide {v : Val} {T : Ty} (h : HasTy v T) (h2 : T.width ≥ 1024) :
    toBitsPy v = .error .range := (toBitsPy_eq h).2 (Or.inr h2)

/-- `from_bits(to_bits(v)) == v` -/
theorem from_to {v : Val} {T : Ty} (h : HasTy v T) (h1 : 1 ≤ T.width) (h2 : T.width < 1024) :
    ∃ b, toBitsPy v = .ok b ∧ fromBitsPy T b = .ok v := by
  refine ⟨⟨T.width, (toBits v).2⟩, (toBitsPy_eq h).1 ⟨h1, h2⟩, ?_⟩
  rw [(fromBitsPy_eq T T.width _).1 rfl, PV.BitStruct.from_to h]

/-- `to_bits(from_bits(b)) == b` for every `b : Bits(cls.nbits)`, and the result is a value of the type -/
theorem to_from (T : Ty) (b : Nat) (hb : b < 2 ^ T.width) (h1 : 1 ≤ T.width) (h2 : T.width < 1024) :
    ∃ v, fromBitsPy T ⟨nbitsPy T, b⟩ = .ok v ∧ HasTy v T ∧ toBitsPy v = .ok ⟨nbitsPy T, b⟩ := by
  rw [nbitsPy_eq]
  refine ⟨fromBits T b, (fromBitsPy_eq T T.width b).1 rfl, hasTy_fromBits T b, ?_⟩
  rw [(toBitsPy_eq (hasTy_fromBits T b)).1 ⟨h1, h2⟩, PV.BitStruct.to_from T b hb]

/-- a `Bits` of any other width is rejected by the assertion in `from_bits` -/
theorem from_bits_width_mismatch (T : Ty) (n b : Nat) (h : n ≠ nbitsPy T) :
    fromBitsPy T ⟨n, b⟩ = .error .assert := by
  rw [nbitsPy_eq] at h
  exact (fromBitsPy_eq T n b).2 h

/-- the two directions together: `to_bits` is a bijection between the values of the type and `[0, 2^nbits)` -/
theorem bijection (T : Ty) :
    (∀ v, HasTy v T → (toBits v).2 < 2 ^ T.width ∧ fromBits T (toBits v).2 = v) ∧
    (∀ b, b < 2 ^ T.width → HasTy (fromBits T b) T ∧ (toBits (fromBits T b)).2 = b) :=
  ⟨fun _ h => ⟨toBits_lt h, PV.BitStruct.from_to h⟩,
   fun b hb => ⟨hasTy_fromBits T b, PV.BitStruct.to_from T b hb⟩⟩

/-! ## layout -/

/-- field `i` of a struct occupies bits `[fieldOff T i, fieldOff T i + wᵢ)` of the packed value -/
theorem layout_struct {v : Val} {T : Ty} (h : HasTy v T) (i : Nat) (f : Val) (F : Ty)
    (hf : fieldVal v i = some f) (hF : fieldTy T i = some F) :
    HasTy f F ∧ slice (toBits v).2 (fieldOff T i) F.width = (toBits f).2 :=
  field_layout h i f F hf hF

/-- … where `fieldOff T i = Σ_{j>i} wⱼ` (so the first field is the most significant) and `nbits = Σⱼ wⱼ` -/
theorem layout_struct_offsets (T : Ty) (hT : T.IsRec) (i : Nat) (hi : i < (fieldTys T).length) :
    fieldOff T i = (((fieldTys T).drop (i + 1)).map Ty.width).sum ∧
    T.width = ((fieldTys T).map Ty.width).sum :=
  fieldOff_sum T hT i hi

/-- element `k` of a list field occupies bits `[k·w, (k+1)·w)` of the field's bits (element 0 least significant) -/
theorem layout_list {v : Val} {T : Ty} {n : Nat} (h : HasTy v (.arr n T)) (k : Nat) (x : Val)
    (hx : elemVal v k = some x) :
    HasTy x T ∧ slice (toBits v).2 (k * T.width) T.width = (toBits x).2 :=
  elem_layout h k x hx

/-- the same two facts through the `Bits` model: slicing the `to_bits()` result with
`[off : off + w]` gives the `to_bits()` of the field -/
theorem layout_struct_getslice {v : Val} {T : Ty} (h : HasTy v T) (h1 : 1 ≤ T.width) (h2 : T.width < 1024)
    (i : Nat) (f : Val) (F : Ty) (hf : fieldVal v i = some f) (hF : fieldTy T i = some F) (hF1 : 1 ≤ F.width) :
    ∃ p q, toBitsPy v = .ok p ∧ toBitsPy f = .ok q ∧
      PV.Bits.getSlice p (some (fieldOff T i : Int)) (some ((fieldOff T i + F.width : Nat) : Int)) none = .ok q := by
  obtain ⟨hfF, hs⟩ := field_layout h i f F hf hF
  have hle := fieldOff_le T i F hF
  refine ⟨⟨T.width, (toBits v).2⟩, ⟨F.width, (toBits f).2⟩, (toBitsPy_eq h).1 ⟨h1, h2⟩,
    (toBitsPy_eq hfF).1 ⟨hF1, by omega⟩, ?_⟩
  rw [PV.C05.get_slice T.width _ (fieldOff T i) (fieldOff T i + F.width) (by omega) hle]
  rw [← hs, slice_eq]; simp

/-- … and `field[k]` of a list-typed value `v` is `v.to_bits()[k·w : (k+1)·w]` -/
theorem layout_list_getslice {v : Val} {T : Ty} {n : Nat} (h : HasTy v (.arr n T))
    (h1 : 1 ≤ T.width) (h2 : n * T.width < 1024) (k : Nat) (x : Val) (hx : elemVal v k = some x) :
    ∃ p q, toBitsPy v = .ok p ∧ toBitsPy x = .ok q ∧
      PV.Bits.getSlice p (some (k * T.width : Nat)) (some ((k * T.width + T.width : Nat) : Int)) none = .ok q := by
  obtain ⟨hxT, hs⟩ := elem_layout h k x hx
  have hk := elem_lt h k x hx
  have hle : k * T.width + T.width ≤ n * T.width := by
    have : (k + 1) * T.width ≤ n * T.width := Nat.mul_le_mul_right _ hk
    rw [Nat.add_mul] at this; omega
  have hn1 : 1 ≤ n * T.width := by omega
  refine ⟨⟨n * T.width, (toBits v).2⟩, ⟨T.width, (toBits x).2⟩, (toBitsPy_eq h).1 ⟨hn1, h2⟩,
    (toBitsPy_eq hxT).1 ⟨h1, by omega⟩, ?_⟩
  rw [PV.C05.get_slice (n * T.width) _ (k * T.width) (k * T.width + T.width) (by omega) hle]
  rw [← hs, slice_eq]; simp

/-- all leaves at once: leaf `j` (canonical order) sits at offset `(leafOffs T 0)[j]` of the packed value -/
theorem layout_leaves {v : Val} {T : Ty} (h : HasTy v T) :
    LeavesAt (toBits v).2 (leafOffs T 0) (leafVals v) :=
  leaf_layout_at h _ 0 (slice_zero_of_lt _ _ (toBits_lt h))

/-! ## equality and hash -/

/-- `==` between two instances of one class is equality of the field values, which is equality of
the packed values; an instance of any other class is never equal -/
theorem eq_iff_packed {v w : Val} {T : Ty} (hv : HasTy v T) (hw : HasTy w T) :
    (eqCls true v w = true ↔ v = w) ∧ (eqCls true v w = true ↔ (toBits v).2 = (toBits w).2) ∧
    eqCls false v w = false := by
  refine ⟨by simp [eqCls, eqPy_iff], ?_, by simp [eqCls]⟩
  rw [← eq_iff_bits hv hw]; simp [eqCls, eqPy_iff]

/-- equal instances have equal hashes, whatever `hash(Bits)` and the tuple hash are -/
theorem hash_respects_eq {α : Type} (hb : Nat → Nat → α) (ht : List α → α) (v w : Val) (h : eqPy v w = true) :
    hashV hb ht v = hashV hb ht w := by
  rw [(eqPy_iff v w).1 h]

/-- `to_bits`, `==` and `hash` of an instance only look at the visible values of its leaves:
they do not depend on which `Bits` objects hold them, nor on pending `_next` values -/
theorem observers_depend_on_read (h h' : Heap) (i j : Inst) (hr : read h i = read h' j)
    {α : Type} (hb : Nat → Nat → α) (ht : List α → α) :
    toBitsPy (read h i) = toBitsPy (read h' j) ∧ hashV hb ht (read h i) = hashV hb ht (read h' j) ∧
    ∀ w, eqPy (read h i) w = eqPy (read h' j) w := by
  rw [hr]; exact ⟨rfl, rfl, fun _ => rfl⟩

/-! ## copies: clone / deepcopy -/

/-- constructing an instance (`cls(...)`, `from_bits`): it holds the given value, all its leaf objects are
new and pairwise distinct — hence disjoint from every instance that existed — and nothing that existed
changes. (This and `clone_spec` establish the distinctness / disjointness hypotheses of the theorems below.) -/
theorem build_fresh (h : Heap) (v : Val) :
    read (build h v).1 (build h v).2 = v ∧ (cells (build h v).2).Nodup ∧
    InHeap (build h v).1 (build h v).2 ∧
    (∀ j, InHeap h j → Disj (build h v).2 j ∧ InHeap (build h v).1 j ∧ read (build h v).1 j = read h j) := by
  obtain ⟨f, r⟩ := build_spec h v
  refine ⟨r, f.nodup, fun c hc => (f.range c hc).2, ?_⟩
  intro j hj
  refine ⟨?_, fun c hc => Nat.lt_of_lt_of_le (hj c hc) f.size_le, ?_⟩
  · intro c hc hcj
    have := (f.range c hc).1; have := hj c hcj; omega
  · exact read_congr _ _ _ (fun c hc => by rw [f.old c (hj c hc)])

/-- `clone()` / `__deepcopy__`: the copy has the same visible value, all its leaf objects are new
(ids not in use before, pairwise distinct, without `_next`), nothing that existed is modified -/
theorem clone_spec (h : Heap) (i : Inst) (hin : InHeap h i) :
    read (clone h i).1 (clone h i).2 = read h i ∧
    (∀ c ∈ cells (clone h i).2, h.size ≤ c ∧ c < (clone h i).1.size) ∧
    (cells (clone h i).2).Nodup ∧
    (∀ c, c < h.size → (clone h i).1.cell c = h.cell c) ∧
    (∀ c ∈ cells (clone h i).2, ((clone h i).1.cell c).next = none) ∧
    (∀ j, InHeap h j → Disj (clone h i).2 j) := by
  rw [clone_eq_build h i hin]
  obtain ⟨f, r⟩ := build_spec h (read h i)
  refine ⟨r, f.range, f.nodup, f.old, f.next_none, ?_⟩
  intro j hj c hc hcj
  have := (f.range c hc).1; have := hj c hcj; omega

/-- a later write to any leaf of one of two instances without a common leaf is invisible through the other -/
theorem write_independent (h : Heap) (a b : Inst) (hd : Disj a b) (c : Nat) (hc : c ∈ cells a) (r : Reg) :
    read (h.upd c r) b = read h b :=
  read_upd_of_not_mem h b c r (hd c hc)

/-- copy and source are independent: mutate a leaf of the copy — the source still reads the same, and vice versa -/
theorem clone_independent (h : Heap) (i : Inst) (hin : InHeap h i) :
    (∀ c ∈ cells (clone h i).2, ∀ r, read ((clone h i).1.upd c r) i = read h i) ∧
    (∀ c ∈ cells i, ∀ r, read ((clone h i).1.upd c r) (clone h i).2 = read h i) := by
  obtain ⟨hr, _, _, hold, _, hdj⟩ := clone_spec h i hin
  have hsrc : read (clone h i).1 i = read h i :=
    read_congr _ _ _ (fun c hc => by rw [hold c (hin c hc)])
  constructor
  · intro c hc r
    rw [write_independent _ _ _ (hdj i hin) c hc r, hsrc]
  · intro c hc r
    rw [write_independent _ _ _ (hdj i hin).symm c hc r, hr]

/-! ## `@=` -/

/-- `dst @= src`, same class: the new value is visible at once, `src` is untouched, nothing else
changes, and no leaf object becomes shared: a later write to either side is invisible through the other -/
theorem assign_no_alias (T : Ty) (h : Heap) (dst src : Inst)
    (hd : HasTy (read h dst) T) (hs : HasTy (read h src) T) (nd : (cells dst).Nodup) (dj : Disj dst src) :
    ∃ h', imatmul T true h dst src = .ok h' ∧ read h' dst = read h src ∧ read h' src = read h src ∧
      (∀ c, c ∉ cells dst → h'.cell c = h.cell c) ∧
      (∀ c, (h'.cell c).next = (h.cell c).next) ∧
      (∀ c ∈ cells dst, ∀ r, read (h'.upd c r) src = read h src) ∧
      (∀ c ∈ cells src, ∀ r, read (h'.upd c r) dst = read h src) := by
  obtain ⟨h', e, r1, r2, _, fr, nx⟩ := imatmulSame_spec h dst src (sameShape_of_hasTy h dst src hd hs) nd dj
  refine ⟨h', by simp [imatmul, e], r1, r2, fr, nx, ?_, ?_⟩
  · intro c hc r; rw [write_independent _ _ _ dj c hc r, r2]
  · intro c hc r; rw [write_independent _ _ _ dj.symm c hc r, r1]

/-- `dst @= src` with `src` of another class (or a `Bits`) of the same width: `dst` receives
`from_bits(src.to_bits())` — same packed value — `src` and everything else is untouched, and no leaf
object of `dst` is shared with anything that existed -/
theorem assign_cross_class (T U : Ty) (h : Heap) (dst src : Inst)
    (hd : HasTy (read h dst) T) (hs : HasTy (read h src) U) (hw : U.width = T.width)
    (h1 : 1 ≤ T.width) (h2 : T.width < 1024) (nd : (cells dst).Nodup) (hin : InHeap h dst) :
    ∃ h', imatmul T false h dst src = .ok h' ∧
      read h' dst = fromBits T (toBits (read h src)).2 ∧
      (toBits (read h' dst)).2 = (toBits (read h src)).2 ∧
      (∀ c, c ∉ cells dst → c < h.size → h'.cell c = h.cell c) := by
  have hc := convert_ok T U h src hs hw h1 h2
  obtain ⟨f, r⟩ := build_spec h (fromBits T (toBits (read h src)).2)
  generalize hbd : build h (fromBits T (toBits (read h src)).2) = bd at hc f r
  obtain ⟨hp, tmp⟩ := bd
  simp only at f r
  have hdst : read hp dst = read h dst := read_congr _ _ _ (fun c hc => by rw [f.old c (hin c hc)])
  have dj : Disj dst tmp := fun c hc ht => by
    have := (f.range c ht).1; have := hin c hc; omega
  have hsh : SameShape hp dst tmp :=
    sameShape_of_hasTy hp dst tmp (T := T) (by rw [hdst]; exact hd) (by rw [r]; exact hasTy_fromBits T _)
  obtain ⟨h', e, r1, _, _, fr, _⟩ := imatmulSame_spec hp dst tmp hsh nd dj
  have hlt : (toBits (read h src)).2 < 2 ^ T.width := by rw [← hw]; exact toBits_lt hs
  refine ⟨h', by simp [imatmul, hc, e], by rw [r1, r], ?_, ?_⟩
  · rw [r1, r, PV.BitStruct.to_from T _ hlt]
  · intro c hc hlt; rw [fr c hc, f.old c hlt]

/-- cross-class assignment between two classes of the *same shape* copies the value unchanged -/
theorem assign_cross_same_shape (T : Ty) (h : Heap) (src : Inst) (hs : HasTy (read h src) T) :
    fromBits T (toBits (read h src)).2 = read h src := PV.BitStruct.from_to hs

/-- an operand of a different width fails the `from_bits` assertion -/
theorem assign_cross_width_mismatch (T U : Ty) (h : Heap) (dst src : Inst) (hs : HasTy (read h src) U)
    (hw : U.width ≠ T.width) (h1 : 1 ≤ U.width) (h2 : U.width < 1024) :
    imatmul T false h dst src = .error .assert ∧ ilshift T false h dst src = .error .assert := by
  have e1 := (toBitsPy_eq hs).1 ⟨h1, h2⟩
  have e2 := (fromBitsPy_eq T U.width (toBits (read h src)).2).2 hw
  simp [imatmul, ilshift, convert, e1, e2]

/-! ## `<<=` and `_flip` -/

/-- `dst <<= src`, same class: no visible value of any object changes (`dst` included); the value of
`src` at this moment is what is pending in `dst` -/
theorem nb_assign (T : Ty) (h : Heap) (dst src : Inst)
    (hd : HasTy (read h dst) T) (hs : HasTy (read h src) T) (nd : (cells dst).Nodup) (dj : Disj dst src) :
    ∃ h', ilshift T true h dst src = .ok h' ∧ (∀ i, read h' i = read h i) ∧
      readNext h' dst = some (read h src) ∧ (∀ c, c ∉ cells dst → h'.cell c = h.cell c) := by
  obtain ⟨h', e, cu, rn, _, fr⟩ := ilshiftSame_spec h dst src (sameShape_of_hasTy h dst src hd hs) nd dj
  exact ⟨h', by simp [ilshift, e], fun i => read_congr _ _ _ (fun c _ => cu c), rn, fr⟩

/-- `_flip()` makes the pending value visible — whatever happened to the visible values in between
(`h2` is any later heap in which the pending values and widths of `dst`'s leaves are as `<<=` left
them, e.g. after `src` was overwritten) — and touches nothing else -/
theorem flip_pending (h' h2 : Heap) (dst : Inst) (v : Val) (hp : readNext h' dst = some v) (nd : (cells dst).Nodup)
    (hk : ∀ c ∈ cells dst, (h2.cell c).next = (h'.cell c).next ∧ (h2.cell c).cur.n = (h'.cell c).cur.n) :
    ∃ h3, flip h2 dst = .ok h3 ∧ read h3 dst = v ∧ (∀ c, c ∉ cells dst → h3.cell c = h2.cell c) ∧
      (∀ j, Disj dst j → read h3 j = read h2 j) := by
  have hp2 : readNext h2 dst = some v := by rw [readNext_congr h' h2 dst hk]; exact hp
  obtain ⟨h3, e, r, _, fr, _⟩ := PV.BitStruct.flip_spec dst h2 v hp2 nd
  refine ⟨h3, e, r, fr, ?_⟩
  intro j hj
  exact read_congr _ _ _ (fun c hc => by rw [fr c (fun hd => hj c hd hc)])

/-- `dst <<= src` then `dst._flip()`: `dst` is unchanged until the flip, afterwards it equals the old `src` -/
theorem nb_assign_then_flip (T : Ty) (h : Heap) (dst src : Inst)
    (hd : HasTy (read h dst) T) (hs : HasTy (read h src) T) (nd : (cells dst).Nodup) (dj : Disj dst src) :
    ∃ h' h3, ilshift T true h dst src = .ok h' ∧ read h' dst = read h dst ∧
      flip h' dst = .ok h3 ∧ read h3 dst = read h src ∧ read h3 src = read h src := by
  obtain ⟨h', e, rd, rn, _⟩ := nb_assign T h dst src hd hs nd dj
  obtain ⟨h3, e3, r3, _, fj⟩ := flip_pending h' h' dst _ rn nd (fun _ _ => ⟨rfl, rfl⟩)
  exact ⟨h', h3, e, rd dst, e3, r3, by rw [fj src dj, rd src]⟩

/-- `dst <<= src` with `src` of another class of the same width: pending value = `from_bits(src.to_bits())` -/
theorem nb_assign_cross_class (T U : Ty) (h : Heap) (dst src : Inst)
    (hd : HasTy (read h dst) T) (hs : HasTy (read h src) U) (hw : U.width = T.width)
    (h1 : 1 ≤ T.width) (h2 : T.width < 1024) (nd : (cells dst).Nodup) (hin : InHeap h dst) :
    ∃ h', ilshift T false h dst src = .ok h' ∧ (∀ i, InHeap h i → read h' i = read h i) ∧
      readNext h' dst = some (fromBits T (toBits (read h src)).2) := by
  have hc := convert_ok T U h src hs hw h1 h2
  obtain ⟨f, r⟩ := build_spec h (fromBits T (toBits (read h src)).2)
  generalize hbd : build h (fromBits T (toBits (read h src)).2) = bd at hc f r
  obtain ⟨hp, tmp⟩ := bd
  simp only at f r
  have hdst : read hp dst = read h dst := read_congr _ _ _ (fun c hc => by rw [f.old c (hin c hc)])
  have dj : Disj dst tmp := fun c hc ht => by
    have := (f.range c ht).1; have := hin c hc; omega
  have hsh : SameShape hp dst tmp :=
    sameShape_of_hasTy hp dst tmp (T := T) (by rw [hdst]; exact hd) (by rw [r]; exact hasTy_fromBits T _)
  obtain ⟨h', e, cu, rn, _, _⟩ := ilshiftSame_spec hp dst tmp hsh nd dj
  refine ⟨h', by simp [ilshift, hc, e], ?_, by rw [rn, r]⟩
  intro i hi
  exact read_congr _ _ _ (fun c hc => by rw [cu c, f.old c (hi c hc)])

/-- `_flip()` of an instance with a leaf that was never `<<=`-assigned raises AttributeError -/
theorem flip_unset (h : Heap) (c : Nat) (hn : (h.cell c).next = none) : flip h (.leaf c) = .error .attr := by
  simp only [PV.BitStruct.flip]; exact leafFlip_err h c hn

/-! ## non-vacuity -/

/-- `struct { a:Bits4; l:[Bits2]*2; c:Bits1 }`, value a=0xA, l=[1,2], c=1 -/
def exT : Ty := .pair (.bits 4) (.pair (.arr 2 (.bits 2)) (.pair (.bits 1) .unit))
def exV : Val := .pair (.bits 4 10) (.pair (.acons (.bits 2 1) (.acons (.bits 2 2) .anil)) (.pair (.bits 1 1) .unit))

example : hasTy exV exT = true := by decide
example : nbitsPy exT = 9 := by decide
-- 1010 | 10 01 | 1  : first field on top, l[1] above l[0]
example : toBitsPy exV = .ok ⟨9, 0b101010011⟩ := by decide
example : fromBitsPy exT ⟨9, 0b101010011⟩ = .ok exV := by decide
example : fromBitsPy exT ⟨8, 0⟩ = .error .assert := by decide
example : leafOffs exT 0 = [(5, 4), (1, 2), (3, 2), (0, 1)] := by decide
example : fieldOff exT 0 = 5 ∧ fieldOff exT 1 = 1 ∧ fieldOff exT 2 = 0 := by decide
example : eqCls true exV exV = true ∧ eqCls false exV exV = false := by decide

/-- aliasing is expressible in the model: a write through a shared leaf *is* visible (so the
independence theorems above are not vacuous) -/
example : read ((Heap.empty.alloc ⟨⟨4, 3⟩, none⟩).1.upd 0 ⟨⟨4, 9⟩, none⟩) (.leaf 0) = .bits 4 9 := by
  simp [PV.BitStruct.read, Heap.upd]

end PV.C06
