/-! # C06 — property theorems (stub: not built yet) -/
namespace PV.C06
end PV.C06
