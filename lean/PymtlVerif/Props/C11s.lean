import PymtlVerif.Proofs.Scc
import PymtlVerif.Proofs.SccCheck
import PymtlVerif.Proofs.SccKahn
import PymtlVerif.Proofs.Rtl
import PymtlVerif.Props.C02
/-!
# C11s — the SCC partition and the SCC-level schedule of the cyclic-capable schedulers (used by C01 / C02 / C11)

`DynamicSchedulePass`, `Mamba2020Pass` and `OpenLoopCLPass` accept cyclic block graphs: they partition the blocks with
Kosaraju's algorithm (`kosaraju_scc`) and sort the condensation topologically. Model: `Model/Scc.lean` (the code as it
is: iterative DFS with `(u, second_visit)` stack entries, BFS over `G_T` in reverse post-order, `G_new`, `InD` counts and
a worklist). Everything below holds for **every** finite graph `G` over the vertex list `V`, **every** iteration order
of `V` (dict order / `random.shuffle`), every order of the adjacency lists, every iteration order of the sets
`G_new[i]` (`gn'`), and every worklist discipline `pick` (`Q.pop()`, `Q.pop(0)`, Mamba's priority order, …).

Hypothesis `WF G GT V` = what `schedule_intra_cycle` guarantees by construction: the keys of `G` are distinct, every
edge has both ends in `V` (`if u in V and v in V`), `G_T` is the transpose (`wf_adjOf`: the `G[u].append(v);
G_T[v].append(u)` construction satisfies it).

No result depends on a loop running out of fuel: `fuel_sufficient`.
-/
namespace PV.C11s
open PV.Scc PV.Rtl

variable {G GT : Graph} {V : List Nat}

/-! ## a concrete graph for the non-vacuity examples:
`0 → 1 → 2 → 0` (a 3-cycle), `2 → 3`, `3 ⇄ 4` (a 2-cycle), `5 → 5` (self loop), `6` isolated, `4 → 6`; keys shuffled -/
def exE : List (Nat × Nat) := [(0, 1), (1, 2), (2, 0), (2, 3), (3, 4), (4, 3), (5, 5), (4, 6)]
def exV : List Nat := [3, 0, 5, 1, 6, 4, 2]
def exG : Graph := adjOf exE
def exGT : Graph := adjTOf exE
theorem exWF : WF exG exGT exV := wf_adjOf exV exE (by decide) (by decide)
/-- what the model computes on it (creation order: the 3-cycle, then the 2-cycle, then `6`; the self loop first) -/
example : (kosaraju exG exGT exV).po = [6, 4, 3, 2, 1, 0, 5] ∧
    (kosaraju exG exGT exV).sccs = [[5], [0, 2, 1], [3, 4], [6]] ∧
    (List.range 4).map (kosaraju exG exGT exV).gn = [[], [2], [3], []] ∧
    sccSchedule pickLast (kosaraju exG exGT exV).gn 4 = [1, 2, 3, 0] ∧
    sccSchedule pickFirst (kosaraju exG exGT exV).gn 4 = [0, 1, 2, 3] := by decide

/-! ## fuel -/

/-- **no result depends on the fuel**: each of the three bounded loops ends by its own exit condition within the fuel
the model grants (`fuel1 G V` iterations per DFS root, `len(V)` per BFS, `len(SCCs)` for the sort), and any larger fuel
gives the same result -/
theorem fuel_sufficient (wf : WF G GT V) :
    (∀ F, fuel1 G V ≤ F → V.foldl (dfsRoot G F) ([], []) = phase1 G V) ∧
    (∀ F, V.length ≤ F →
      (postOrder G V).reverse.foldl (phase2Step GT F) ⟨[], [], []⟩ = phase2 GT V (postOrder G V).reverse) ∧
    (∀ (pick : List Nat → List Nat → Nat) (gn' : Graph),
      (∀ i, (gn' i).Nodup ∧ ∀ j, j ∈ gn' i ↔ j ∈ (kosaraju G GT V).gn i) →
      (topo pick gn' (kosaraju G GT V).sccs.length).done = true ∧
      ∀ F, (kosaraju G GT V).sccs.length ≤ F →
        iter T3.done (step3 pick gn') F (topoInit gn' (kosaraju G GT V).sccs.length) =
          topo pick gn' (kosaraju G GT V).sccs.length) := by
  refine ⟨phase1_fuel wf, ?_, ?_⟩
  · intro F hF
    exact phase2_fuel wf F hF _ [] _ (by simp) ⟨by simp, by simp, by simp, by simp, by simp, by simp, by simp, by simp⟩
  · intro pick gn' hsame
    have hd := (schedule_facts (cond_kosaraju wf gn' hsame) pick).1
    refine ⟨hd, ?_⟩
    intro F hF
    obtain ⟨d, rfl⟩ := Nat.exists_eq_add_of_le hF
    exact iter_more _ _ _ _ _ hd

example : fuel1 exG exV = 16 ∧ (topo pickLast (kosaraju exG exGT exV).gn 4).done = true := by decide

/-- the post-order of phase 1 lists every vertex exactly once, and `v_SCC[x]` is defined for every vertex -/
theorem postorder_perm (wf : WF G GT V) :
    (postOrder G V).Nodup ∧ (∀ x, x ∈ postOrder G V ↔ x ∈ V) ∧
    ∀ x ∈ V, ∃ i, (kosaraju G GT V).vmap.lookup x = some i ∧ i < (kosaraju G GT V).sccs.length := by
  obtain ⟨h1, h2, _⟩ := postOrder_facts wf
  refine ⟨h1, h2, ?_⟩
  intro x hx
  have f := kosaraju_facts wf
  obtain ⟨i, hi⟩ := f.lookup_some x hx
  refine ⟨i, hi, ?_⟩
  have := f.vscc_lt hx
  unfold vscc at this; rw [hi] at this; exact this

/-! ## (a) partition -/

/-- **(a)** the groups returned are non-empty, pairwise disjoint (and duplicate-free), and cover exactly the vertex list -/
theorem groups_partition (wf : WF G GT V) :
    (∀ g ∈ (kosaraju G GT V).sccs, g ≠ []) ∧ (kosaraju G GT V).sccs.flatten.Nodup ∧
    ∀ x, x ∈ (kosaraju G GT V).sccs.flatten ↔ x ∈ V :=
  (kosaraju_facts wf).partition wf

/-- `v_SCC` is the index of the group: `x ∈ SCCs[i] ↔ v_SCC[x] = i` -/
theorem vscc_is_group (wf : WF G GT V) {x i : Nat} {g : List Nat} (hx : x ∈ V) (hg : (kosaraju G GT V).sccs[i]? = some g) :
    x ∈ g ↔ vscc (kosaraju G GT V).vmap x = i :=
  (kosaraju_facts wf).mem_iff_vscc hx hg

example : (kosaraju exG exGT exV).sccs.flatten = [5, 0, 2, 1, 3, 4, 6] ∧ vscc (kosaraju exG exGT exV).vmap 1 = 1 := by decide

/-! ## (b) strongly connected -/

/-- **(b)** any two vertices of one group reach each other in `G`, by paths that stay inside the group (hence inside `V`) -/
theorem groups_strongly_connected (wf : WF G GT V) {g : List Nat} (hg : g ∈ (kosaraju G GT V).sccs)
    {x y : Nat} (hx : x ∈ g) (hy : y ∈ g) : RA G (fun z => z ∈ g) x y :=
  (kosaraju_facts wf).strongly hg hx hy

example : RA exG (fun z => z ∈ [0, 2, 1]) 1 0 :=
  groups_strongly_connected exWF (g := [0, 2, 1]) (by decide) (by decide) (by decide)

/-! ## (c) maximal; the condensation is acyclic -/

/-- **(c)** two vertices are in the same group *iff* they reach each other: the groups are exactly the strongly
connected components -/
theorem same_group_iff_mutual (wf : WF G GT V) {x y : Nat} (hx : x ∈ V) (hy : y ∈ V) :
    vscc (kosaraju G GT V).vmap x = vscc (kosaraju G GT V).vmap y ↔ (Reach G x y ∧ Reach G y x) :=
  (kosaraju_facts wf).vscc_eq_iff hx hy

/-- `G_new` is the condensation: `j ∈ G_new[i]` iff `i ≠ j` and some edge of `G` leads from group `i` to group `j`;
each `G_new[i]` is duplicate-free -/
theorem gnew_is_condensation (G GT : Graph) (V : List Nat) :
    (∀ i, ((kosaraju G GT V).gn i).Nodup) ∧
    ∀ i j, j ∈ (kosaraju G GT V).gn i ↔
      i ≠ j ∧ ∃ u ∈ V, ∃ v ∈ G u, vscc (kosaraju G GT V).vmap u = i ∧ vscc (kosaraju G GT V).vmap v = j :=
  gnew_spec G V _

/-- **(c)** the condensation `G_new` has no cycle: every path goes to a higher (or the same) index, and no edge can be
closed to a cycle -/
theorem condensation_acyclic (wf : WF G GT V) {i j : Nat} (h : j ∈ (kosaraju G GT V).gn i) :
    i < j ∧ j < (kosaraju G GT V).sccs.length ∧ ¬ Reach (kosaraju G GT V).gn j i := by
  obtain ⟨h1, h2⟩ := gnew_increasing wf h
  refine ⟨h1, h2, ?_⟩
  intro hr
  have := reach_le (cond_kosaraju_self wf) hr h2
  omega

example : 2 ∈ (kosaraju exG exGT exV).gn 1 ∧ vscc (kosaraju exG exGT exV).vmap 0 = vscc (kosaraju exG exGT exV).vmap 2 ∧
    vscc (kosaraju exG exGT exV).vmap 2 ≠ vscc (kosaraju exG exGT exV).vmap 3 := by decide

/-! ## (d) order -/

/-- **(d), creation order** (reverse post-order of `G`, BFS on `G_T`): for every edge `u → v` of `G` between two
different groups, the group of `u` was created BEFORE the group of `v` — the creation order is already a topological
order of the condensation, sources first -/
theorem creation_order (wf : WF G GT V) {u v : Nat} (he : v ∈ G u)
    (hne : vscc (kosaraju G GT V).vmap u ≠ vscc (kosaraju G GT V).vmap v) :
    vscc (kosaraju G GT V).vmap u < vscc (kosaraju G GT V).vmap v :=
  (kosaraju_facts wf).edge_order wf he hne

/-- **(d), `scc_schedule`**, for every worklist discipline `pick` and every iteration order `gn'` of the sets `G_new[i]`:
it contains every group index exactly once — so `assert len(scc_schedule) == len(SCCs)` can never fail — and every
condensation edge goes forward in it; `scc_pred[v] = u` only for a condensation edge `u → v`, with `u` scheduled earlier -/
theorem scc_schedule_topological (wf : WF G GT V) (pick : List Nat → List Nat → Nat) (gn' : Graph)
    (hsame : ∀ i, (gn' i).Nodup ∧ ∀ j, j ∈ gn' i ↔ j ∈ (kosaraju G GT V).gn i) :
    let n := (kosaraju G GT V).sccs.length
    let sched := sccSchedule pick gn' n
    sched.Nodup ∧ (∀ i, i ∈ sched ↔ i < n) ∧ sched.length = n ∧
    (∀ i j, j ∈ (kosaraju G GT V).gn i → ∃ pre post, sched = pre ++ i :: post ∧ j ∈ post) ∧
    (∀ v u, (topo pick gn' n).pred.lookup v = some (some u) →
      v ∈ (kosaraju G GT V).gn u ∧ ∃ pre post, sched = pre ++ u :: post ∧ v ∈ post) := by
  intro n sched
  have hc := cond_kosaraju wf gn' hsame
  obtain ⟨_, h1, h2, h3, _, h5, h6⟩ := schedule_facts hc pick
  refine ⟨h1, h2, h3, ?_, ?_⟩
  · intro i j hj
    have hi : i < n := by
      obtain ⟨_, u, hu, _, _, hiu, _⟩ := ((gnew_spec G V _).2 i j).mp hj
      rw [← hiu]; exact (kosaraju_facts wf).vscc_lt hu
    exact h5 i j hi (((hsame i).2 j).mpr hj)
  · intro v u hl
    obtain ⟨g1, g2⟩ := h6 v u hl
    exact ⟨((hsame u).2 v).mp g1, g2⟩

/-- **(d), reuse of `PV.Kahn`**: `scc_schedule` is a run of Kahn's algorithm (`Model/Kahn.lean`, the model of
SimpleSchedulePass / HeuristicTopoPass) over the group indices and the condensation edges, for some tie-break oracle; hence
`PV.Kahn.kahn_sound` (no duplicates, every edge forward) holds of it literally -/
theorem scc_schedule_is_kahn_run (wf : WF G GT V) (pick : List Nat → List Nat → Nat) (gn' : Graph)
    (hsame : ∀ i, (gn' i).Nodup ∧ ∀ j, j ∈ gn' i ↔ j ∈ (kosaraju G GT V).gn i) :
    let n := (kosaraju G GT V).sccs.length
    ∃ pick', sccSchedule pick gn' n = PV.Kahn.kahn pick' (List.range n) (condEdgeList gn' n) n [] ∧
      (PV.Kahn.kahn pick' (List.range n) (condEdgeList gn' n) n []).Nodup ∧
      ∀ e ∈ condEdgeList gn' n, e.2 ∈ PV.Kahn.kahn pick' (List.range n) (condEdgeList gn' n) n [] →
        ∃ pre post, PV.Kahn.kahn pick' (List.range n) (condEdgeList gn' n) n [] = pre ++ e.1 :: post ∧ e.2 ∈ post := by
  intro n
  obtain ⟨pick', h⟩ := schedule_is_kahn_run (cond_kosaraju wf gn' hsame) pick
  exact ⟨pick', h, PV.Kahn.kahn_sound pick' (List.range n) (condEdgeList gn' n) n⟩

example : sccSchedule pickLast (kosaraju exG exGT exV).gn 4 =
    PV.Kahn.kahn (followPick [1, 2, 3, 0]) (List.range 4) (condEdgeList (kosaraju exG exGT exV).gn 4) 4 [] := by decide

example : sccSchedule pickLast (kosaraju exG exGT exV).gn 4 = [1, 2, 3, 0] ∧
    (topo pickLast (kosaraju exG exGT exV).gn 4).pred.lookup 3 = some (some 2) := by decide

/-! ## (e) corollaries used by C01 / C02 / C11 -/

/-- **(e)** a group of size 1 without a self edge is not on any cycle (it is run once, as a plain block) -/
theorem singleton_not_on_cycle (wf : WF G GT V) {u : Nat} (hg : [u] ∈ (kosaraju G GT V).sccs) (hself : u ∉ G u) :
    ¬ ∃ v ∈ G u, Reach G v u := by
  rintro ⟨v, hv, hr⟩
  have f := kosaraju_facts wf
  obtain ⟨i, hi⟩ := List.getElem?_of_mem hg
  have huV := wf.src u v hv
  have hvV := wf.dst u v hv
  have hui : vscc (kosaraju G GT V).vmap u = i := (f.mem_iff_vscc huV hi).mp (by simp)
  have hsame := (f.vscc_eq_iff huV hvV).mpr ⟨Reach.edge hv, hr⟩
  have : v ∈ [u] := (f.mem_iff_vscc hvV hi).mpr (by rw [← hsame, hui])
  simp at this; subst this
  exact hself hv

example : [6] ∈ (kosaraju exG exGT exV).sccs ∧ 6 ∉ exG 6 ∧ [5] ∈ (kosaraju exG exGT exV).sccs ∧ 5 ∈ exG 5 := by decide

/-- **(e)** expanding `scc_schedule` — each group in any internal order `perm` — gives a block order in which every edge
between two different groups goes forward -/
theorem expanded_schedule_order (wf : WF G GT V) (pick : List Nat → List Nat → Nat) (gn' : Graph)
    (hsame : ∀ i, (gn' i).Nodup ∧ ∀ j, j ∈ gn' i ↔ j ∈ (kosaraju G GT V).gn i)
    (perm : List Nat → List Nat) (hperm : ∀ g x, x ∈ perm g ↔ x ∈ g) {u v : Nat} (he : v ∈ G u)
    (hne : vscc (kosaraju G GT V).vmap u ≠ vscc (kosaraju G GT V).vmap v) :
    ∃ pre post,
      (sccSchedule pick gn' (kosaraju G GT V).sccs.length).flatMap (fun i => perm ((kosaraju G GT V).sccs.getD i [])) =
        pre ++ u :: post ∧ v ∈ post := by
  have f := kosaraju_facts wf
  have huV := wf.src u v he
  have hvV := wf.dst u v he
  obtain ⟨gu, hgu, hu⟩ := f.vscc_mem u huV
  obtain ⟨gv, hgv, hv⟩ := f.vscc_mem v hvV
  have hedge : vscc (kosaraju G GT V).vmap v ∈ (kosaraju G GT V).gn (vscc (kosaraju G GT V).vmap u) :=
    ((gnew_spec G V _).2 _ _).mpr ⟨hne, u, huV, v, he, rfl, rfl⟩
  exact expand_order perm hperm hgu hgv hu hv ((scc_schedule_topological wf pick gn' hsame).2.2.2.1 _ _ hedge)

example : expand (kosaraju exG exGT exV).sccs (sccSchedule pickLast (kosaraju exG exGT exV).gn 4) = [0, 2, 1, 3, 4, 6, 5] := by
  decide

/-! ### connection to `PV.C11.whole_schedule` (hypothesis `entriesTopoB`) -/

/-- the schedule entry of a group: a plain block for a singleton, an SCC super-block (with some watch list) otherwise -/
def entryOf (blk : Nat → Blk) (w : List Rng) (g : List Nat) : Entry :=
  match g with
  | [b] => .blk (blk b)
  | _ => .scc (g.map blk) w

theorem entryOf_blocks (blk : Nat → Blk) (w : List Rng) (g : List Nat) : (entryOf blk w g).blocks = g.map blk := by
  unfold entryOf
  split <;> simp [Entry.blocks]

theorem rngsOverlap_flatMap {α : Type} {f g : α → List Rng} {xs ys : List α}
    (h : rngsOverlap (xs.flatMap f) (ys.flatMap g) = true) : ∃ a ∈ xs, ∃ b ∈ ys, rngsOverlap (f a) (g b) = true := by
  unfold rngsOverlap at h
  simp only [List.any_eq_true, List.mem_flatMap] at h
  obtain ⟨x, ⟨a, ha, hx⟩, y, ⟨b, hb, hy⟩, hxy⟩ := h
  refine ⟨a, ha, b, hb, ?_⟩
  unfold rngsOverlap
  simp only [List.any_eq_true]
  exact ⟨x, hx, y, hy, hxy⟩

/-- **(e)** the "entries topological" hypothesis that `PV.C11.whole_schedule` checks on every real schedule today holds for
the schedule the model builds: if the block graph `G` has an edge `a → b` whenever block `a` writes a bit block `b`
reads (`GenDAGPass`: writer before reader), then the entries obtained by expanding `scc_schedule` satisfy `entriesTopoB` -/
theorem entries_topological (wf : WF G GT V) (blk : Nat → Blk) (watch : Nat → List Rng)
    (hdep : ∀ a ∈ V, ∀ b ∈ V, a ≠ b → rngsOverlap (blk a).writes (blk b).reads = true → b ∈ G a)
    (pick : List Nat → List Nat → Nat) (gn' : Graph)
    (hsame : ∀ i, (gn' i).Nodup ∧ ∀ j, j ∈ gn' i ↔ j ∈ (kosaraju G GT V).gn i)
    (perm : List Nat → List Nat) (hperm : ∀ g x, x ∈ perm g ↔ x ∈ g) :
    entriesTopoB ((sccSchedule pick gn' (kosaraju G GT V).sccs.length).map
      (fun i => entryOf blk (watch i) (perm ((kosaraju G GT V).sccs.getD i [])))) = true := by
  have f := kosaraju_facts wf
  have hc := cond_kosaraju wf gn' hsame
  obtain ⟨_, _, hmem, _, hpw, _, _⟩ := schedule_facts hc pick
  unfold entriesTopoB
  rw [pairwiseB_iff, List.pairwise_map]
  refine hpw.imp_of_mem ?_
  intro i j hi hj ⟨hij, hnot⟩
  cases hov : rngsOverlap (entryOf blk (watch i) (perm ((kosaraju G GT V).sccs.getD i []))).reads
      (entryOf blk (watch j) (perm ((kosaraju G GT V).sccs.getD j []))).writes with
  | false => rfl
  | true =>
    exfalso
    unfold Entry.reads Entry.writes at hov
    rw [entryOf_blocks, entryOf_blocks, List.flatMap_map, List.flatMap_map] at hov
    obtain ⟨a, ha, b, hb, hab⟩ := rngsOverlap_flatMap hov
    have hin := (hmem i).mp hi
    have hjn := (hmem j).mp hj
    have egi : (kosaraju G GT V).sccs.getD i [] = (kosaraju G GT V).sccs[i] := by
      rw [List.getD_eq_getElem?_getD, List.getElem?_eq_getElem hin]; rfl
    have egj : (kosaraju G GT V).sccs.getD j [] = (kosaraju G GT V).sccs[j] := by
      rw [List.getD_eq_getElem?_getD, List.getElem?_eq_getElem hjn]; rfl
    rw [hperm, egi] at ha
    rw [hperm, egj] at hb
    have hgi := List.getElem?_eq_getElem hin
    have hgj := List.getElem?_eq_getElem hjn
    have part := f.partition wf
    have haV : a ∈ V := (part.2.2 a).mp (List.mem_flatten.mpr ⟨_, List.getElem_mem hin, ha⟩)
    have hbV : b ∈ V := (part.2.2 b).mp (List.mem_flatten.mpr ⟨_, List.getElem_mem hjn, hb⟩)
    have hai := (f.mem_iff_vscc haV hgi).mp ha
    have hbj := (f.mem_iff_vscc hbV hgj).mp hb
    have hne : b ≠ a := by
      intro h; subst h; exact hij (hai.symm.trans hbj)
    rw [PV.C02.rngsOverlap_comm] at hab
    have hedge := hdep b hbV a haV hne hab
    have : i ∈ (kosaraju G GT V).gn j :=
      ((gnew_spec G V _).2 j i).mpr ⟨fun h => hij h.symm, b, hbV, a, hedge, hbj, hai⟩
    exact hnot (((hsame j).2 i).mpr this)

/-- non-vacuity: three blocks `x = y | in`, `y = x`, `out = y` (a true loop feeding an output): entries `[scc {0,1}, blk 2]` -/
def exBlk : Nat → Blk
  | 0 => ⟨0, [⟨⟨1, 0, 4⟩, .bin .or 4 (.rd ⟨2, 0, 4⟩) (.rd ⟨0, 0, 4⟩)⟩]⟩
  | 1 => ⟨1, [⟨⟨2, 0, 4⟩, .rd ⟨1, 0, 4⟩⟩]⟩
  | _ => ⟨2, [⟨⟨3, 0, 4⟩, .rd ⟨2, 0, 4⟩⟩]⟩
def exE2 : List (Nat × Nat) := [(0, 1), (1, 0), (1, 2)]
example : (kosaraju (adjOf exE2) (adjTOf exE2) [2, 1, 0]).sccs = [[1, 0], [2]] ∧
    entriesTopoB ((sccSchedule pickLast (kosaraju (adjOf exE2) (adjTOf exE2) [2, 1, 0]).gn 2).map
      (fun i => entryOf exBlk [] ((kosaraju (adjOf exE2) (adjTOf exE2) [2, 1, 0]).sccs.getD i []))) = true ∧
    (∀ a ∈ [2, 1, 0], ∀ b ∈ [2, 1, 0], a ≠ b → rngsOverlap (exBlk a).writes (exBlk b).reads = true → b ∈ adjOf exE2 a) := by
  decide

/-! ## the executable checkers applied to real schedules -/

/-- **soundness of `scc check`** (evaluated by the correspondence check on the partition and group order read back from
the real schedules of DynamicSchedulePass, Mamba2020Pass and OpenLoopCLPass): if the checkers accept, two vertices are in
the same group iff they reach each other, `order` lists every group once, and every edge between groups goes forward -/
theorem check_sound (V : List Nat) (E : List (Nat × Nat)) (groups : List (List Nat)) (order : List Nat)
    (hp : partitionB V groups = true) (hs : groups.all (stronglyB (adjOf E) (adjTOf E)) = true)
    (ho : orderPermB groups order = true) (ht : orderTopoB E groups order = true) :
    (∀ x ∈ V, ∀ y ∈ V, groupOf groups x = groupOf groups y ↔ (Reach (adjOf E) x y ∧ Reach (adjOf E) y x)) ∧
    (∀ i, i < groups.length → i ∈ order) ∧ order.Nodup ∧
    (∀ e ∈ E, groupOf groups e.1 ≠ groupOf groups e.2 →
      order.idxOf (groupOf groups e.1) < order.idxOf (groupOf groups e.2)) :=
  PV.Scc.check_sound V E groups order hp hs ho ht

/-- the checkers accept what the model computes on the example, and reject a partition that splits the 3-cycle, one that
merges two components, and a backward order -/
example : partitionB exV [[5], [0, 2, 1], [3, 4], [6]] = true ∧
    [[5], [0, 2, 1], [3, 4], [6]].all (stronglyB exG exGT) = true ∧ acyclicB exE [[5], [0, 2, 1], [3, 4], [6]] = true ∧
    orderPermB [[5], [0, 2, 1], [3, 4], [6]] [1, 2, 3, 0] = true ∧ orderTopoB exE [[5], [0, 2, 1], [3, 4], [6]] [1, 2, 3, 0] = true ∧
    orderTopoB exE [[5], [0, 2], [1], [3, 4], [6]] [0, 1, 2, 3, 4] = false ∧ acyclicB exE [[5], [0, 2], [1], [3, 4], [6]] = false ∧
    [[5], [0, 2, 1, 3, 4], [6]].all (stronglyB exG exGT) = false ∧
    orderTopoB exE [[5], [0, 2, 1], [3, 4], [6]] [2, 1, 3, 0] = false := by decide

end PV.C11s
