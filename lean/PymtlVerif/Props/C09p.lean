import PymtlVerif.Proofs.Place
/-!
# C09 / C07 — operator placement: which assignment targets are accepted where, and what the analysis records for them

Model: `Model/Place.lean` — the names a block binds (`Tgt`, `Scope.bound`), the classification of an index expression as
constant / variable (`classify`), the walk from the recorded name to signal objects (`expand`, `resolve`: `objs` and
`part_objs` of `extract_obj_from_names`), the write checks (`verdict`) and the flip-flop marking (`marked`); against the
run-time meaning of the statement (`evalIdx`, `dynPath`, `Target.isWhole`).

* `place_total`, `update_table`, `update_ff_table`, `helper_table`: the decision table — target shape × operator × block
  kind × inside an `@s.func` helper or not — is total, every rejection carries the class that belongs to the block kind, and
  acceptance is characterised declaratively;
* `ff_accept_whole` / `ff_whole_accepted`: a `<<=` the `update_ff` rules accept assigns **whole top-level signals** (the
  signal itself or whole elements of a list of signals) — no field, no bit, no slice, whatever the index expressions are —
  and conversely; `helper_ff_accept_nocut` / `helper_nocut_accepted`: a `<<=` accepted inside a helper assigns whole
  signals or whole struct fields (which carry their own shadow value);
* `static_covers_dynamic`: for **every** run-time value of the index expressions (loop variables, temporaries, signal
  values), the element the statement assigns belongs to the recorded object set — under Python's scoping (`Scope.WF`: a
  name the block binds is not one of its free variables), in particular whatever module-level names exist;
  `ff_marks_cover`: hence every register an accepted `<<=` can assign at run time is marked `needs_double_buffer` (the
  flip machinery of C07 sees it);
* `bound_name_is_variable`, `bound_index_all_elements`: an index written with a name bound anywhere in the block — plain,
  tuple, nested-tuple or starred target of a loop / assignment / comprehension — is a variable index even if a module-level
  name of the same spelling exists, and `s.l[x]` then records every element of the list.
-/
namespace PV.C09p
open PV.Place

/-! ## the decision table -/

/-- the table is total and a rejection carries the class of the block kind: `UpdateBlockWriteError` only in `update`
blocks, the two `update_ff` classes only there (or, for the part-select rule, inside a helper) -/
theorem place_total (ff helper : Bool) (op : AOp) (objs : List RObj) :
    verdict ff helper op objs = .accept ∨
    (verdict ff helper op objs = .reject .updateBlockWrite ∧ ff = false ∧ helper = false ∧ op ≠ .at) ∨
    (verdict ff helper op objs = .reject .updateFFBlockWrite ∧ ff = true ∧ helper = false ∧ op ≠ .ff) ∨
    (verdict ff helper op objs = .reject .updateFFNonTop ∧ op = .ff ∧ (ff = true ∨ helper = true)) := by
  unfold verdict
  cases helper <;> cases ff <;> by_cases h1 : op = .ff <;> by_cases h2 : op = .at <;>
    by_cases h3 : objs.isEmpty = true <;> by_cases h4 : objs.all RObj.whole = true <;>
    by_cases h5 : objs.any RObj.cut = true <;> simp_all

/-- `update` blocks: `@=` on anything, nothing else -/
theorem update_table (op : AOp) (objs : List RObj) (hne : objs ≠ []) :
    (verdict false false op objs = .accept ↔ op = .at) ∧
    (op ≠ .at → verdict false false op objs = .reject .updateBlockWrite) := by
  have : objs.isEmpty = false := by cases objs <;> simp_all
  unfold verdict
  by_cases h : op = .at <;> simp [this, h]

/-- `update_ff` blocks: `<<=` only, and only on whole top-level signals -/
theorem update_ff_table (op : AOp) (objs : List RObj) (hne : objs ≠ []) :
    (verdict true false op objs = .accept ↔ op = .ff ∧ ∀ o ∈ objs, o.whole = true) ∧
    (op ≠ .ff → verdict true false op objs = .reject .updateFFBlockWrite) ∧
    (op = .ff → (∃ o ∈ objs, o.whole = false) → verdict true false op objs = .reject .updateFFNonTop) := by
  have : objs.isEmpty = false := by cases objs <;> simp_all
  unfold verdict
  by_cases h : op = .ff <;> by_cases h4 : objs.all RObj.whole = true <;> simp_all

/-- inside an `@s.func` helper no operator rule applies, except that `<<=` on a bit / slice / run-time selected part is
rejected -/
theorem helper_table (ff : Bool) (op : AOp) (objs : List RObj) :
    (verdict ff true op objs = .accept ↔ (op = .ff → ∀ o ∈ objs, o.cut = false)) ∧
    (verdict ff true op objs ≠ .accept → verdict ff true op objs = .reject .updateFFNonTop) := by
  unfold verdict
  by_cases h : op = .ff <;> by_cases h5 : objs.any RObj.cut = true <;> simp_all

/-- under the proposed repair `verdictStrict` (not in the tree; see `Model/Place.lean`) a helper may not use the other block
kind's operator: `@=` is rejected when an `update_ff` block reaches it, `<<=` when an `update` block does (and, as now, on a
bit / slice); everything else inside helpers and the blocks themselves are unchanged -/
theorem helper_table_strict (ff : Bool) (op : AOp) (objs : List RObj) (hne : objs ≠ []) :
    (verdictStrict ff true op objs = .accept ↔
      ¬ (ff = true ∧ op = .at) ∧ ¬ (ff = false ∧ op = .ff) ∧ (op = .ff → ∀ o ∈ objs, o.cut = false)) ∧
    (verdictStrict ff true op objs = .reject .updateFFBlockWrite ↔ ff = true ∧ op = .at) ∧
    (verdictStrict ff true op objs = .reject .updateBlockWrite ↔ ff = false ∧ op = .ff ∧ ∀ o ∈ objs, o.cut = false) ∧
    verdictStrict ff false op objs = verdict ff false op objs := by
  have : objs.isEmpty = false := by cases objs <;> simp_all
  unfold verdictStrict
  cases ff <;> by_cases h : op = .ff <;> by_cases h2 : op = .at <;> by_cases h5 : objs.any RObj.cut = true <;> simp_all <;>
    (split <;> simp_all)

/-! ## accepted `<<=` ⇒ whole signals -/

theorem resolve_not_whole_of_fields (sc : Scope) (dims : List Nat) (t : Target) (hf : t.fields ≠ 0) :
    ∀ o ∈ resolve sc dims t, o.whole = false := by
  intro o ho
  simp only [resolve, hf, if_false, List.mem_map] at ho
  obtain ⟨o', _, rfl⟩ := ho
  exact applyField_not_whole _ o'

/-- every object recorded for a target that selects a bit or a slice of a signal is a slice object or part-marked -/
theorem resolve_cut (sc : Scope) (dims : List Nat) (t : Target) (h : ¬ t.noCut dims) :
    ∀ o ∈ resolve sc dims t, o.cut = true := by
  intro o ho
  unfold Target.noCut at h
  by_cases hf : t.fields = 0
  · simp only [resolve, hf, if_true, subSteps] at ho
    refine expand_cut _ (subSteps_idx sc) _ dims t.subs ?_ o ho
    by_cases hl : t.subs.length ≤ dims.length
    · right
      have h2 : ¬ (t.tail = .none ∨ (t.fields = 0 ∧ t.subs.length < dims.length)) := fun h' => h ⟨hl, h'⟩
      refine ⟨?_, ?_⟩
      · by_cases hlt : t.subs.length < dims.length
        · exact absurd (Or.inr ⟨hf, hlt⟩) h2
        · omega
      · intro hnil
        exact h2 (Or.inl ((tailSteps_nil_iff sc t.tail).mp hnil))
    · left; omega
  · simp only [resolve, hf, if_false, List.mem_map, subSteps] at ho
    obtain ⟨o', ho', rfl⟩ := ho
    rw [applyField_cut]
    by_cases hl : t.subs.length ≤ dims.length
    · have h2 : ¬ (t.tail = .none ∨ (t.fields = 0 ∧ t.subs.length < dims.length)) := fun h' => h ⟨hl, h'⟩
      have hne : tailSteps sc t.tail ≠ [] := fun hnil => h2 (Or.inl ((tailSteps_nil_iff sc t.tail).mp hnil))
      cases hts : tailSteps sc t.tail with
      | nil => exact absurd hts hne
      | cons _ _ => simp
    · have := expand_cut _ (subSteps_idx sc) [] dims t.subs (Or.inl (by omega)) o' (by simpa using ho')
      simp [this]

/-- every object recorded for a target without bit select / slice of a signal is neither a slice object nor part-marked -/
theorem resolve_nocut (sc : Scope) (dims : List Nat) (t : Target) (h : t.noCut dims) :
    ∀ o ∈ resolve sc dims t, o.cut = false := by
  intro o ho
  obtain ⟨hl, ht⟩ := h
  by_cases hf : t.fields = 0
  · simp only [resolve, hf, if_true, subSteps] at ho
    have hw := expand_whole _ (subSteps_idx sc) _ (tailSteps_short sc t.tail) dims t.subs hl
      (by rcases ht with h | h
          · exact Or.inl ((tailSteps_nil_iff sc t.tail).mpr h)
          · exact Or.inr h.2) o ho
    obtain ⟨p, f, sl, pt⟩ := o
    cases sl <;> cases pt <;> simp_all [RObj.whole, RObj.cut]
  · have htn : t.tail = .none := by
      rcases ht with h | h
      · exact h
      · exact absurd h.1 hf
    simp only [resolve, hf, if_false, List.mem_map, subSteps, htn, tailSteps] at ho
    obtain ⟨o', ho', rfl⟩ := ho
    rw [applyField_cut]
    have hw := expand_whole _ (subSteps_idx sc) [] (Or.inl rfl) dims t.subs hl (Or.inl rfl) o' (by simpa using ho')
    obtain ⟨p, f, sl, pt⟩ := o'
    cases sl <;> cases pt <;> simp_all [RObj.whole, RObj.cut]

/-- **accepted in `update_ff` ⇒ whole top-level signal(s)**: the signal itself or whole elements of a list of signals,
never a field, a bit or a slice — for every form of the index expressions -/
theorem ff_accept_whole (sc : Scope) (dims : List Nat) (t : Target) (op : AOp)
    (hne : resolve sc dims t ≠ []) (h : verdict true false op (resolve sc dims t) = .accept) :
    op = .ff ∧ t.isWhole dims := by
  obtain ⟨hop, hall⟩ := ((update_ff_table op _ hne).1).mp h
  refine ⟨hop, ?_⟩
  obtain ⟨o, ho⟩ := List.exists_mem_of_ne_nil _ hne
  have hw := hall o ho
  by_cases hf : t.fields = 0
  · refine ⟨hf, ?_⟩
    by_cases hc : t.noCut dims
    · exact hc
    · have := resolve_cut sc dims t hc o ho
      obtain ⟨p, f, sl, pt⟩ := o
      cases sl <;> cases pt <;> simp_all [RObj.whole, RObj.cut]
  · have := resolve_not_whole_of_fields sc dims t hf o ho
    simp [hw] at this

/-- … and conversely every whole target is accepted under `<<=` -/
theorem ff_whole_accepted (sc : Scope) (dims : List Nat) (t : Target) (h : t.isWhole dims) :
    verdict true false .ff (resolve sc dims t) = .accept := by
  by_cases hne : resolve sc dims t = []
  · simp [verdict, hne]
  · refine ((update_ff_table .ff _ hne).1).mpr ⟨rfl, ?_⟩
    intro o ho
    obtain ⟨hf, hl, ht⟩ := h
    simp only [resolve, hf, if_true, subSteps] at ho
    exact expand_whole _ (subSteps_idx sc) _ (tailSteps_short sc t.tail) dims t.subs hl
      (by rcases ht with h | h
          · exact Or.inl ((tailSteps_nil_iff sc t.tail).mpr h)
          · exact Or.inr h.2) o ho

/-- a `<<=` accepted inside a helper assigns whole signals or whole struct fields -/
theorem helper_ff_accept_nocut (sc : Scope) (dims : List Nat) (t : Target) (ff : Bool)
    (hne : resolve sc dims t ≠ []) (h : verdict ff true .ff (resolve sc dims t) = .accept) : t.noCut dims := by
  have hall := ((helper_table ff .ff _).1).mp h rfl
  by_cases hc : t.noCut dims
  · exact hc
  · obtain ⟨o, ho⟩ := List.exists_mem_of_ne_nil _ hne
    have := resolve_cut sc dims t hc o ho
    simp [hall o ho] at this

theorem helper_nocut_accepted (sc : Scope) (dims : List Nat) (t : Target) (ff : Bool) (op : AOp) (h : t.noCut dims) :
    verdict ff true op (resolve sc dims t) = .accept :=
  ((helper_table ff op _).1).mpr (fun _ => resolve_nocut sc dims t h)

/-! ## the recorded objects cover what happens at run time -/

/-- for every run-time value of the index expressions, the element the statement assigns to is among the recorded objects -/
theorem static_covers_dynamic (sc : Scope) (hwf : sc.WF) (ρ : Rt) (dims : List Nat) (t : Target) (p : List Nat)
    (h : dynPath dims (t.subs.map (evalIdx sc ρ)) = some p) : ∃ o ∈ resolve sc dims t, o.path = p := by
  by_cases hf : t.fields = 0
  · simp only [resolve, hf, if_true, subSteps]
    exact expand_covers sc hwf ρ _ dims t.subs p h
  · obtain ⟨o, ho, hop⟩ := expand_covers sc hwf ρ [] dims t.subs p h
    refine ⟨applyField (tailSteps sc t.tail) o, ?_, by rw [applyField_path]; exact hop⟩
    simp only [resolve, hf, if_false, subSteps, List.mem_map]
    exact ⟨o, by simpa using ho, rfl⟩

/-- every register an accepted `<<=` (in the block or in a helper it calls) can assign at run time is marked as a flip-flop -/
theorem ff_marks_cover (sc : Scope) (hwf : sc.WF) (ρ : Rt) (dims : List Nat) (t : Target) (helper : Bool) (op : AOp)
    (p : List Nat) (hacc : verdict true helper op (resolve sc dims t) = .accept)
    (h : dynPath dims (t.subs.map (evalIdx sc ρ)) = some p) : p ∈ marked helper op (resolve sc dims t) := by
  obtain ⟨o, ho, hop⟩ := static_covers_dynamic sc hwf ρ dims t p h
  simp only [marked, hacc, if_true, List.mem_map]
  exact ⟨o, ho, hop⟩

/-! ## names bound in the block -/

/-- a name bound by any target of the block — plain, tuple, nested tuple, starred — is a variable index, whatever
module-level names exist -/
theorem bound_name_is_variable (sc : Scope) (hwf : sc.WF) (x : String) (tg : Tgt) (ht : tg ∈ sc.tgts) (hb : tg.Binds x) :
    classify sc (.name x) = .star := by
  have hx : x ∈ sc.bound := (sc.mem_bound_iff x).mpr ⟨tg, ht, hb⟩
  exact classify_bound sc x hx (hwf x hx)

/-- … so `s.l[x] ⟨op⟩ …` records every element of the list -/
theorem bound_index_all_elements (sc : Scope) (hwf : sc.WF) (x : String) (tg : Tgt) (ht : tg ∈ sc.tgts) (hb : tg.Binds x)
    (d : Nat) : (resolve sc [d] ⟨[.name x], 0, .none⟩).map (·.path) = (List.range d).map (fun i => [i]) := by
  have := bound_name_is_variable sc hwf x tg ht hb
  have hl : ∀ l : List Nat, List.flatMap (fun a => [[a]]) l = List.map (fun i => [i]) l := by
    intro l; induction l with
    | nil => rfl
    | cons a l ih => simp [List.flatMap_cons, ih]
  simp [resolve, subSteps, tailSteps, this, expand, RObj.whole0, List.map_flatMap, hl]

/-! ## non-vacuity -/

def scI : Scope := { closure := [("K", 2)], globals := [("i", 0), ("N", 1)], tgts := [.pair (.name "i") (.pair (.name "j") (.name "v"))] }
example : scI.WF := by decide
-- `for i, (j, v) in …: s.l[i] <<= …` with a module-level `i = 0`: all four elements, accepted, all marked
example : resolve scI [4] ⟨[.name "i"], 0, .none⟩ = [.whole0 [0], .whole0 [1], .whole0 [2], .whole0 [3]] := by decide
example : verdict true false .ff (resolve scI [4] ⟨[.name "i"], 0, .none⟩) = .accept := by decide
example : marked false .ff (resolve scI [4] ⟨[.name "i"], 0, .none⟩) = [[0], [1], [2], [3]] := by decide
-- a module-level name the block does not bind, a closure constant: one element
example : resolve scI [4] ⟨[.name "N"], 0, .none⟩ = [.whole0 [1]] := by decide
example : resolve scI [4] ⟨[.name "K"], 0, .none⟩ = [.whole0 [2]] := by decide
-- `s.r[ s.sel ] <<= …`, `s.r[ s.sel : s.sel+2 ] <<= …`, `s.r[2] <<= …`, `s.st.a <<= …` in an update_ff block
example : verdict true false .ff (resolve scI [] ⟨[.dyn 0], 0, .none⟩) = .reject .updateFFNonTop := by decide
example : verdict true false .ff (resolve scI [] ⟨[], 0, .sliceV⟩) = .reject .updateFFNonTop := by decide
example : verdict true false .ff (resolve scI [] ⟨[.num 2], 0, .none⟩) = .reject .updateFFNonTop := by decide
example : verdict true false .ff (resolve scI [] ⟨[], 1, .none⟩) = .reject .updateFFNonTop := by decide
example : verdict true false .ff (resolve scI [] ⟨[], 0, .none⟩) = .accept := by decide
example : verdict true false (.aug .add) (resolve scI [] ⟨[], 0, .none⟩) = .reject .updateFFBlockWrite := by decide
example : verdict false false (.aug .add) (resolve scI [] ⟨[], 0, .none⟩) = .reject .updateBlockWrite := by decide
example : verdict false false .at (resolve scI [4] ⟨[.dyn 0], 1, .sliceV⟩) = .accept := by decide
-- inside a helper: the field is accepted, the bit of it is not
example : verdict true true .ff (resolve scI [] ⟨[], 1, .none⟩) = .accept := by decide
example : verdict true true .ff (resolve scI [] ⟨[], 1, .bit (.num 1)⟩) = .reject .updateFFNonTop := by decide
example : verdict true true .assign (resolve scI [] ⟨[.num 1], 0, .none⟩) = .accept := by decide
-- the two shapes the proposed helper rule is about: `@=` in a helper reached from update_ff, `<<=` in one reached from update
example : verdict true true .at (resolve scI [] ⟨[], 0, .none⟩) = .accept := by decide
example : verdictStrict true true .at (resolve scI [] ⟨[], 0, .none⟩) = .reject .updateFFBlockWrite := by decide
example : verdict false true .ff (resolve scI [] ⟨[], 0, .none⟩) = .accept := by decide
example : verdictStrict false true .ff (resolve scI [] ⟨[], 0, .none⟩) = .reject .updateBlockWrite := by decide
example : verdictStrict true true .ff (resolve scI [4] ⟨[.name "i"], 0, .none⟩) = .accept := by decide
example : verdictStrict true true .assign (resolve scI [] ⟨[], 0, .none⟩) = .accept := by decide
example : (⟨[.name "i"], 0, .none⟩ : Target).isWhole [4] := by decide
example : ¬ (⟨[.name "i", .dyn 0], 0, .none⟩ : Target).isWhole [4] := by decide
example : dynPath [4] [3] = some [3] := by decide
example : Tgt.Binds "v" (.pair (.name "i") (.pair (.name "j") (.name "v"))) := .right (.right .name)

end PV.C09p
