import PymtlVerif.Model.Scc
/-!
# Executable model of `OpenLoopCLPass.schedule_with_top_level_callee` (the scheduler behind `AutoTickSimPass`)

Code modelled: `pymtl3/passes/autotick/OpenLoopCLPass.py`, written as it is, quirks included.

## Static part (what the pass computes once)

* `verts`: `V = final_upblks - update_ff`, plus every normal top-level `CalleePort`, plus `x.method` and `x.rdy` of every
  top-level `CalleeIfcCL`.
* `calleeMap` = `method_callee_mapping` (ACTUAL method -> CalleePort vertex) with its two `assert m not in …` (the rdy entry
  of an interface is written **without** an assert: it may overwrite); `guardMap` = `method_guard_mapping` (method port -> rdy port).
* `mapPair`: the three `if … in …` steps applied to a pair of `top._dag.top_level_callee_constraints`: left end through
  `calleeMap`; right end through `calleeMap` and then through `guardMap` (a constraint `A < n`, `n` the method of a
  non-blocking interface, means `A < n.rdy`). The pair is kept when both ends are vertices.
* `gEdges`: what is appended to `G` / `G_T` — `all_constraints` restricted to `V`, then the mapped callee constraints,
  in iteration order, duplicates included (`G[u].append(v)`).
  **Quirk:** the edges `(x.rdy, x.method)` are put into the set `E` only, *not* into `G` / `G_T` (`eEdges` has them,
  `gEdges` has not): Kosaraju does not see them, the condensation `G_new` (built from `E`) does. So `G_new` need not be
  acyclic, and `assert len(scc_schedule) == len(SCCs)` can fail (`Err.schedAssert`); it is the only way a cycle is reported.
* Kosaraju on `(G, G_T)` over `vertices` after `random.shuffle` (`Input.order`, an argument): `PV.Scc.kosaraju`.
* `gnewE`: `for (u, v) in E: if scc_u != scc_v and scc_v not in G_new[scc_u]: InD[scc_v] += 1; G_new[scc_u].add(scc_v)`.
  The iteration order of the int sets `G_new[i]` is the parameter `Env.rowOrd` (a permutation of each row).
* SCC-level sort: `PV.Scc.topo pickFirst`. The "prioritise update blocks" scan
  `if m not in method_guard_mapping or m not in guard_method_mapping` tests an SCC *index* (an int) against dicts keyed by
  CalleePorts: it is always true, so the scan pops `Q[0]` (`pickFirst`); `scc_pred` as in `PV.Scc`.
* `entries` = `update_schedule`: a group of one vertex is that vertex, a larger group becomes `wrapped_SCC_<id>` over
  `tmp_schedule` (the intra-SCC BFS order is the parameter `Env.intra`, a permutation of the group).
* `ffsLayout` = the list `ffs`: `[lambda: False] + [print_line_trace]? + schedule_ff + [vcd]? + [textwave]? +
  schedule_posedge_flip + [clear_cl_trace]?`; `schedule = update_schedule + ffs`.
* `wrapAt` = the arguments `wrap_method` gets for the CalleePort at index `i` of `schedule`: `my_idx_orig = i`,
  `my_idx_new = mapping[schedule[next_func]]` with `next_func` the next non-method index and
  `mapping = { x : i for i, x in enumerate(schedule_no_method) }` (the *last* index of an equal function: `lastIdx`).
  Only CalleePorts that are themselves entries of `schedule` are wrapped (a port inside a non-trivial SCC is not).

## Run-time part (what a call of a wrapped top-level method does)

`callAt` is `actual_method`: with `i = new_schedule_index`, `j = orig_schedule_index`
```
if j > my_idx_orig:   run schedule_no_method[i:], i = j = 0, simulated_cycles += 1      # finish the cycle
while i < my_idx_new: run schedule_no_method[i]; i += 1                                  # catch up
j = my_idx_orig + 1;  call the method
```
No call is ever rejected or reordered: a call that comes "too late" for the running cycle ends it and is served in
the next one. The state logs the events (`Ev.run k` = `schedule_no_method[k]()`, `Ev.meth p` = the method of the port
at `schedule[p]`), split at the places where the code increments `simulated_cycles`.
`resetAt` is `sim_reset` (`up(); ff(); up(); ff(); up()` with `simulated_cycles += 1` before each `up()`); it does not touch
`i` / `j` — so the cycle in which reset is released runs the update entries of the schedule a second time.

Mathlib-free: linked into the native driver `pv_openloop`.
-/
namespace PV.OpenLoop
open PV.Scc

/-! ## input -/

/-- a top-level `CalleeIfcCL` -/
structure Ifc where
  meth : Nat    -- the CalleePort `x.method` (a vertex)
  rdy : Nat     -- the CalleePort `x.rdy` (a vertex)
  rawM : Nat    -- `get_raw_method( x.method )`: the ACTUAL method object
  rawR : Nat    -- `get_raw_method( x.rdy )`
deriving DecidableEq, Repr

/-- which optional entries `ffs` has, and the ff blocks / flip functions (ids) -/
structure FfCfg where
  printTrace : Bool
  ffBlocks : List Nat       -- `top._sched.schedule_ff`
  vcd : Bool
  textwave : Bool
  flips : List Nat          -- `top._sched.schedule_posedge_flip`
  clearCl : Bool
deriving Repr

structure Input where
  blocks : List Nat            -- `top._dag.final_upblks - top.get_all_update_ff()`
  ports : List (Nat × Nat)     -- normal top-level callee ports: (vertex, ACTUAL method), iteration order of the set
  ifcs : List Ifc              -- top-level non-blocking interfaces, iteration order of the set
  cons : List (Nat × Nat)      -- `top._dag.all_constraints`, iteration order
  tlc : List (Nat × Nat)       -- `top._dag.top_level_callee_constraints` (ACTUAL methods / blocks), iteration order
  order : List Nat             -- `vertices` after `random.shuffle`
  ff : FfCfg

/-! ## vertices, dictionaries, edges -/

/-- every CalleePort vertex (`isinstance( x, CalleePort )`) -/
def portVerts (inp : Input) : List Nat := inp.ports.map (·.1) ++ inp.ifcs.flatMap (fun x => [x.meth, x.rdy])

/-- the members of the set `V` -/
def verts (inp : Input) : List Nat := inp.blocks ++ portVerts inp

/-- a dict, latest binding first -/
abbrev Map := List (Nat × Nat)

/-- `m = get_raw_method( x ); assert m not in method_callee_mapping; method_callee_mapping[m] = x` -/
def addPort (m : Option Map) (p : Nat × Nat) : Option Map :=
  m.bind (fun mp => if (mp.lookup p.2).isSome then none else some ((p.2, p.1) :: mp))

/-- `assert m not in method_callee_mapping; method_callee_mapping[m] = x.method; method_callee_mapping[r] = x.rdy` -/
def addIfc (m : Option Map) (x : Ifc) : Option Map :=
  m.bind (fun mp => if (mp.lookup x.rawM).isSome then none else some ((x.rawR, x.rdy) :: (x.rawM, x.meth) :: mp))

/-- `method_callee_mapping`; `none` = AssertionError -/
def calleeMap (inp : Input) : Option Map := inp.ifcs.foldl addIfc (inp.ports.foldl addPort (some []))

/-- `method_guard_mapping` -/
def guardMap (inp : Input) : Map := inp.ifcs.foldl (fun m x => (x.meth, x.rdy) :: m) []

/-- `if k in d: k = d[k]` -/
def through (d : Map) (k : Nat) : Nat := (d.lookup k).getD k

/-- the three mapping steps applied to one pair of `top_level_callee_constraints` -/
def mapPair (cm gm : Map) (c : Nat × Nat) : Nat × Nat := (through cm c.1, through gm (through cm c.2))

def inV (V : List Nat) (e : Nat × Nat) : Bool := decide (e.1 ∈ V) && decide (e.2 ∈ V)

/-- the pairs appended to `G` / `G_T`, in order, duplicates included -/
def gEdges (inp : Input) (cm : Map) : List (Nat × Nat) :=
  inp.cons.filter (inV (verts inp)) ++ ((inp.tlc.map (mapPair cm (guardMap inp))).filter (inV (verts inp)))

/-- `E.add( (x.rdy, x.method) )` -/
def ifcEdges (inp : Input) : List (Nat × Nat) := inp.ifcs.map (fun x => (x.rdy, x.meth))

/-- the members of the set `E` -/
def eEdges (inp : Input) (cm : Map) : List (Nat × Nat) := ifcEdges inp ++ gEdges inp cm

/-- `G_new` built from `E` (rows in insertion order) -/
def gnewE (vm : List (Nat × Nat)) (E : List (Nat × Nat)) : List (List Nat) :=
  E.foldl (fun rows e => addEdge vm rows e.1 e.2) []

/-! ## the schedule -/

/-- the two things the pass takes from CPython's set iteration: the order in which a set `G_new[i]` of ints is
iterated, and `tmp_schedule` of a non-trivial SCC (both permutations of their argument) -/
structure Env where
  rowOrd : List Nat → List Nat
  intra : List Nat → List Nat

/-- an entry of `update_schedule` -/
inductive Entry where
  | one (v : Nat)                         -- a block or a CalleePort
  | grp (id : Nat) (members : List Nat)   -- `wrapped_SCC_<id>` running `members` (= `tmp_schedule`) until nothing changes
deriving DecidableEq, Repr

def Entry.members : Entry → List Nat
  | .one v => [v]
  | .grp _ ms => ms

/-- `for i in scc_schedule: …` with the counter `scc_id` -/
def entries (sccs : List (List Nat)) (intra : List Nat → List Nat) : List Nat → Nat → List Entry
  | [], _ => []
  | i :: rest, id =>
    match sccs.getD i [] with
    | [u] => .one u :: entries sccs intra rest id
    | g => .grp (id + 1) (intra g) :: entries sccs intra rest (id + 1)

/-- the functions of the list `ffs` -/
inductive FfFn where
  | constFalse            -- `lambda: False`
  | printLineTrace
  | ffBlk (b : Nat)
  | vcd
  | textwave
  | flip (k : Nat)
  | clearCl
deriving DecidableEq, Repr

/-- `ffs`: [ update, ff, tracing, posedge, clear_cl_trace ] -/
def ffsLayout (c : FfCfg) : List FfFn :=
  [FfFn.constFalse] ++ (if c.printTrace then [FfFn.printLineTrace] else []) ++ c.ffBlocks.map FfFn.ffBlk ++
  (if c.vcd then [FfFn.vcd] else []) ++ (if c.textwave then [FfFn.textwave] else []) ++ c.flips.map FfFn.flip ++
  (if c.clearCl then [FfFn.clearCl] else [])

/-- an entry of `schedule = update_schedule + ffs` -/
inductive Slot where
  | port (v : Nat)
  | blk (v : Nat)
  | scc (id : Nat) (members : List Nat)
  | ff (f : FfFn)
deriving DecidableEq, Repr

/-- `isinstance( x, CalleePort )` -/
def Slot.isPort : Slot → Bool
  | .port _ => true
  | _ => false

def slotOf (pv : List Nat) : Entry → Slot
  | .one v => if v ∈ pv then .port v else .blk v
  | .grp id ms => .scc id ms

inductive Err where
  | mapAssert      -- `assert m not in method_callee_mapping`
  | schedAssert    -- `assert len(scc_schedule) == len(SCCs)`
deriving DecidableEq, Repr

/-- everything the static part computes -/
structure Static where
  cmap : Map
  kos : Kos
  rows : List (List Nat)        -- `G_new` from `E`, rows already in iteration order
  t3 : T3                       -- final state of the SCC-level sort (`out` = `scc_schedule`, `pred` = `scc_pred`)
  update : List Entry           -- `update_schedule`
  schedule : List Slot          -- `schedule`

/-- `G_new` as a graph, each set iterated in the order `rowOrd` -/
def gnOf (env : Env) (rows : List (List Nat)) : Graph := fun i => env.rowOrd (rowOf rows i)

def static (inp : Input) (env : Env) : Except Err Static :=
  match calleeMap inp with
  | none => .error .mapAssert
  | some cm =>
    let ge := gEdges inp cm
    let k := kosaraju (adjOf ge) (adjTOf ge) inp.order
    let rows := gnewE k.vmap (eEdges inp cm)
    let n := k.sccs.length
    let t := topo pickFirst (gnOf env rows) n
    if t.out.length ≠ n then .error .schedAssert
    else
      let up := entries k.sccs env.intra t.out 0
      .ok ⟨cm, k, (List.range n).map (gnOf env rows), t, up,
           up.map (slotOf (portVerts inp)) ++ (ffsLayout inp.ff).map Slot.ff⟩

/-! ## the wrappers -/

/-- `schedule_no_method` -/
def snm (S : List Slot) : List Slot := S.filter (fun x => !x.isPort)

/-- `next_func`: the first index after `i` that holds a non-method (`len(schedule)` if there is none) -/
def nextFunc (S : List Slot) (i : Nat) : Nat := i + 1 + ((S.drop (i + 1)).takeWhile Slot.isPort).length

/-- `{ x : i for i, x in enumerate( l ) }[ x ]` with the enumeration starting at `k`: the last index of `x` -/
def lastIdx (x : Slot) : List Slot → Nat → Option Nat
  | [], _ => none
  | y :: ys, k =>
    match lastIdx x ys (k + 1) with
    | some r => some r
    | none => if y = x then some k else none

/-- `my_idx_orig`, `my_idx_new` -/
structure Wrap where
  orig : Nat
  new : Nat
deriving DecidableEq, Repr

/-- the wrapper arguments of the CalleePort at index `i` of `schedule`; `none`: `schedule[i]` is not a CalleePort, or
`schedule[next_func]` raises IndexError -/
def wrapAt (S : List Slot) (i : Nat) : Option Wrap :=
  match S[i]? with
  | some (.port _) =>
    match S[nextFunc S i]? with
    | none => none
    | some f => (lastIdx f (snm S) 0).map (fun k => ⟨i, k⟩)
  | _ => none

/-! ## run time -/

inductive Ev where
  | run (k : Nat)     -- `schedule_no_method[k]()`
  | meth (p : Nat)    -- the method of the CalleePort `schedule[p]` is executed
deriving DecidableEq, Repr

/-- `top._sched.new_schedule_index`, `top._sched.orig_schedule_index`, `top._sim.simulated_cycles`, and the log:
`done` = the events of the finished cycles (oldest first), `cur` = the events since the last `simulated_cycles += 1` -/
structure St where
  i : Nat
  j : Nat
  cycles : Nat
  done : List (List Ev)
  cur : List Ev
deriving DecidableEq, Repr

def St.init : St := ⟨0, 0, 0, [], []⟩

/-- `while i < hi: schedule_no_method[i](); i += 1` -/
def runRange (i hi : Nat) : List Ev := (List.range' i (hi - i)).map Ev.run

/-- `actual_method` of the wrapper `w`, `N = len(schedule_no_method)` -/
def callW (N : Nat) (w : Wrap) (s : St) : St :=
  let s1 : St := if s.j > w.orig then ⟨0, 0, s.cycles + 1, s.done ++ [s.cur ++ runRange s.i N], []⟩ else s
  { s1 with i := if s1.i < w.new then w.new else s1.i, j := w.orig + 1,
            cur := s1.cur ++ runRange s1.i w.new ++ [Ev.meth w.orig] }

/-- a call of the CalleePort at `schedule[p]` -/
def callAt (S : List Slot) (s : St) (p : Nat) : Option St := (wrapAt S p).map (fun w => callW (snm S).length w s)

/-- a sequence of calls (indices into `schedule`); `none` if one of them is not a wrapped CalleePort -/
def exec (S : List Slot) : St → List Nat → Option St
  | s, [] => some s
  | s, p :: ps => (callAt S s p).bind (fun s' => exec S s' ps)

/-- `len(ups_no_method)`: the non-method entries of `update_schedule` -/
def nUps (S : List Slot) : Nat := ((snm S).filter (fun x => match x with | .ff _ => false | _ => true)).length

/-- `sim_reset`: `cycles += 1; up(); ff(); cycles += 1; up(); ff(); cycles += 1; up()` — `i`, `j` untouched -/
def resetAt (S : List Slot) (s : St) : St :=
  let U := nUps S
  let N := (snm S).length
  { s with cycles := s.cycles + 3,
           done := s.done ++ [s.cur, runRange 0 U ++ runRange U N, runRange 0 U ++ runRange U N],
           cur := runRange 0 U }

/-- the whole schedule as events: what one cycle executes when every method is called, in `schedule` order
(`p` = index into `schedule`, `k` = index into `schedule_no_method`) -/
def fullEvents : List Slot → Nat → Nat → List Ev
  | [], _, _ => []
  | x :: xs, p, k => if x.isPort then Ev.meth p :: fullEvents xs (p + 1) k else Ev.run k :: fullEvents xs (p + 1) (k + 1)

end PV.OpenLoop
