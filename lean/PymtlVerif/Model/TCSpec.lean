import PymtlVerif.Model.TC
/-!
Specification-level analysis used by the C10 theorems and by the correspondence check to label
generated blocks.  Nothing here mirrors pymtl3 code: it states *on which blocks* the type checker is
sound.  `issuesS Γ s = []` ("clean") is the hypothesis of `PV.C10.no_width_error`; every other block
falls in (at least) one of the classes of `Issue`:

* shapes the property itself excludes: `castChange` (an explicit width-changing `Bits<n>( … )`),
  `shiftMis` (shift amount narrower / wider than the shifted value);
* shapes on which the checker is unsound (known findings): `implArith` (F12), `tmpFlip` (N1), `softArith`
  (N4: arithmetic between terms that are typed explicit but may hold a Python int, i.e. if-expressions
  with one literal branch); `iteWidth` (an if-expression narrower than one of its branches) cannot occur
  on an accepted block any more since the repair of `visit_IfExp` and is kept as a safety net;
* shapes outside the proof only: `plusSlice` (`lo : lo + N` part selections whose bounds are not plain
  integer expressions, e.g. a signal as base), `constBound` (constant slice bounds that are not plain integer
  expressions), `big` (a width outside 1..1023).

`hardE`: the term certainly evaluates to a `Bits` object (or raises).  A term that is not hard may hold
a Python int at run time: implicit terms always do, explicit-typed if-expressions with a literal
branch sometimes do ("soft").
-/
namespace PV.TC

inductive Issue where
  | implArith | tmpFlip | iteWidth | softArith
  | castChange | shiftMis
  | plusSlice | constBound | big
deriving DecidableEq, Repr, Inhabited

def Issue.name : Issue → String
  | .implArith => "implArith" | .tmpFlip => "tmpFlip" | .iteWidth => "iteWidth"
  | .softArith => "softArith" | .castChange => "castChange"
  | .shiftMis => "shiftMis" | .plusSlice => "plusSlice" | .constBound => "constBound" | .big => "big"

def hardE (Γ : Env) : Expr → Bool
  | .sig _ _ => true
  | .num _ => false
  | .lv _ => false
  | .tmp t => match Γ.tmps.lookup t with
    | some (_, ex) => ex
    | none => false
  | .un _ e => hardE Γ e
  | .bin op l r => if op.isShift then hardE Γ l else hardE Γ l || hardE Γ r
  | .cmp _ l r => hardE Γ l || hardE Γ r
  | .ite _ t f => hardE Γ t && hardE Γ f
  | .cast _ _ => true
  | .ext _ _ _ _ => true
  | .red _ _ => true
  | .cat _ _ => true
  | .idx _ _ _ => true
  | .slc _ _ _ _ => true

/-- built from literals, loop variables, unary / binary operators and comparisons only: evaluates on
    Python ints alone, whatever the checker thinks of its width -/
def intOnly : Expr → Bool
  | .num _ => true
  | .lv _ => true
  | .un _ e => intOnly e
  | .bin _ l r => intOnly l && intOnly r
  | .cmp _ l r => intOnly l && intOnly r
  | _ => false

/-- all sub-expressions in preorder (node first, children in source order) -/
def subs : Expr → List Expr
  | e@(.sig _ _) | e@(.num _) | e@(.lv _) | e@(.tmp _) => [e]
  | e@(.un _ a) => e :: subs a
  | e@(.bin _ l r) => e :: (subs l ++ subs r)
  | e@(.cmp _ l r) => e :: (subs l ++ subs r)
  | e@(.ite c t f) => e :: (subs c ++ subs t ++ subs f)
  | e@(.cast _ a) => e :: subs a
  | e@(.ext _ _ a _) => e :: subs a
  | e@(.red _ a) => e :: subs a
  | e@(.cat l r) => e :: (subs l ++ subs r)
  | e@(.idx _ _ i) => e :: subs i
  | e@(.slc _ _ lo hi) => e :: (subs lo ++ subs hi)


/-- the sub-expressions in value positions (conditions / indices / slice bounds that are plain integer
    expressions are skipped: they have no width) -/
def vsubs : Expr → List Expr
  | e@(.sig _ _) | e@(.num _) | e@(.lv _) | e@(.tmp _) => [e]
  | e@(.un _ a) => e :: vsubs a
  | e@(.bin _ l r) => e :: (vsubs l ++ vsubs r)
  | e@(.cmp _ l r) => e :: (vsubs l ++ vsubs r)
  | e@(.ite c t f) => e :: ((if intOnly c then [] else vsubs c) ++ vsubs t ++ vsubs f)
  | e@(.cast _ a) => e :: vsubs a
  | e@(.ext _ _ a _) => e :: vsubs a
  | e@(.red _ a) => e :: vsubs a
  | e@(.cat l r) => e :: (vsubs l ++ vsubs r)
  | e@(.idx _ _ i) => e :: (if intOnly i then [] else vsubs i)
  | e@(.slc _ _ _ _) => [e]

/-- direct children of an expression / of an annotated tree, in the same order -/
def kidsE : Expr → List Expr
  | .sig _ _ | .num _ | .lv _ | .tmp _ => []
  | .un _ a => [a]
  | .bin _ l r => [l, r]
  | .cmp _ l r => [l, r]
  | .ite c t f => [c, t, f]
  | .cast _ a => [a]
  | .ext _ _ a _ => [a]
  | .red _ a => [a]
  | .cat l r => [l, r]
  | .idx _ _ i => [i]
  | .slc _ _ lo hi => [lo, hi]

def kidsT : AT → List AT
  | .leaf _ => []
  | .idx _ k => [k]
  | .n1 _ k => [k]
  | .n2 _ k1 k2 => [k1, k2]
  | .ite _ c t f => [c, t, f]

def widthIssues (w : Nat) : List Issue := if 1 ≤ w ∧ w < 1024 then [] else [.big]

/-- both operands may hold ints: which family -/
def softKind (la ra : Ann) : List Issue := if !la.ex && !ra.ex then [.implArith] else [.softArith]

def foldedNonneg (a : Ann) : Bool :=
  match a.val with
  | some v => v ≥ 0
  | none => false

def binIssues (op : Op) (la ra : Ann) (hl hr : Bool) (a : Ann) : List Issue :=
  if op.isShift then
    if hl then
      (if ra.ex then (if ra.w = la.w then [] else [.shiftMis]) else (if ra.w ≤ la.w then [] else [.shiftMis]))
    else if !la.ex && !ra.ex then (if foldedNonneg a then [] else [.implArith])
    else if la.ex then [.softArith] else [.implArith]
  else
    if hl || hr then []
    else if !la.ex && !ra.ex then (if foldedNonneg a then [] else [.implArith])
    else [.softArith]

def cmpIssues (la ra : Ann) (hl hr : Bool) : List Issue :=
  if hl || hr then [] else softKind la ra

def unIssues (ea : Ann) (he : Bool) : List Issue :=
  if he then [] else if ea.ex then [.softArith] else [.implArith]

def iteIssues (ta fa : Ann) (w : Nat) : List Issue :=
  if ta.w ≤ w ∧ fa.w ≤ w ∧ (ta.ex → ta.w = w) ∧ (fa.ex → fa.w = w) then [] else [.iteWidth]

def castIssues (n : Nat) (ea : Ann) : List Issue :=
  widthIssues n ++
  (if ea.ex then (if ea.w = n then [] else [.castChange]) else (if ea.w ≤ n then [] else [.castChange]))

def annOf (r : Except TErr AT) : Ann :=
  match r with
  | .ok t => t.ann
  | .error _ => ⟨0, false, none⟩

/-- issues of an expression in a value position; in positions where the value is only tested for truth or
    converted with `int()` (conditions, indices, slice bounds) a plain integer expression is always fine -/
def issuesE (Γ : Env) : Expr → List Issue
  | .sig _ w => widthIssues w
  | .num _ => []
  | .lv _ => []
  | .tmp _ => []
  | .un _ e => issuesE Γ e ++ unIssues (annOf (checkE Γ e)) (hardE Γ e)
  | .bin op l r =>
    issuesE Γ l ++ issuesE Γ r ++
      binIssues op (annOf (checkE Γ l)) (annOf (checkE Γ r)) (hardE Γ l) (hardE Γ r)
        (annOf (checkE Γ (.bin op l r)))
  | .cmp _ l r =>
    issuesE Γ l ++ issuesE Γ r ++ cmpIssues (annOf (checkE Γ l)) (annOf (checkE Γ r)) (hardE Γ l) (hardE Γ r)
  | .ite c t f =>
    (if intOnly c then [] else issuesE Γ c) ++ issuesE Γ t ++ issuesE Γ f ++
      iteIssues (annOf (checkE Γ t)) (annOf (checkE Γ f)) (annOf (checkE Γ (.ite c t f))).w
  | .cast n e => issuesE Γ e ++ castIssues n (annOf (checkE Γ e))
  | .ext _ _ e n => issuesE Γ e ++ widthIssues n
  | .red _ e => issuesE Γ e
  | .cat l r => issuesE Γ l ++ issuesE Γ r ++ widthIssues ((annOf (checkE Γ l)).w + (annOf (checkE Γ r)).w)
  | .idx _ w i => widthIssues w ++ (if intOnly i then [] else issuesE Γ i)
  | .slc _ w lo hi =>
    widthIssues w ++
    (match (annOf (checkE Γ lo)).val, (annOf (checkE Γ hi)).val with
     | some _, some _ => if intOnly lo && intOnly hi then [] else [.constBound]
     | _, _ =>
       if intOnly lo && intOnly hi then []
       else .plusSlice :: ((if intOnly lo then [] else issuesE Γ lo) ++ (if intOnly hi then [] else issuesE Γ hi)))

/-- issues of an expression whose value is only tested for truth or converted with `int()` -/
def posIssues (Γ : Env) (e : Expr) : List Issue := if intOnly e then [] else issuesE Γ e

def envAfter (Γ : Env) (s : Stmt) : Env :=
  match checkS Γ s with
  | .ok (Γ1, _) => Γ1
  | .error _ => Γ

def issuesS (Γ : Env) : Stmt → List Issue
  | .skip => []
  | .seq a b => issuesS Γ a ++ issuesS (envAfter Γ a) b
  | .asg tgt e =>
    issuesE Γ tgt ++ issuesE Γ e
  | .tasg t e =>
    let ea := annOf (checkE Γ e)
    issuesE Γ e ++
      (match Γ.tmps.lookup t with
       | some (_, ex) => if ex = ea.ex then [] else [.tmpFlip]
       | none => []) ++
      (if ea.ex && !hardE Γ e then [.softArith] else [])
  | .ifs c b o => posIssues Γ c ++ issuesS Γ b ++ issuesS (envAfter Γ b) o
  | .for_ i start stop step body =>
    issuesS { Γ with lvs := (i, loopWidth start stop step) :: Γ.lvs } body

end PV.TC
