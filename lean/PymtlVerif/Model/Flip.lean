/-!
# Model of `SimpleSchedulePass.schedule_posedge_flip` (grouping of the double-buffered signals)

`schedule_posedge_flip` collects every signal with `needs_double_buffer` under its host component, then repeatedly
moves a group that holds a single signal (and is not at `top`) to the parent component, until every group either
holds at least two signals or sits at `top`; the generated function flips each signal of each group, addressing it
relative to the group's component (`x = s.a.b; x.r._flip()`).  Used unchanged by every simulation pass group
(DefaultPassGroup, Mamba2020, ...).

Components are paths from `top` (`[]` = top, `[2,0]` = child 0 of child 2); a signal is its host path and an id.
`hostobj_signals` is an insertion-ordered dict: an association list whose new keys are appended at the end.
-/
namespace PV.Flip

abbrev Path := List Nat

structure Sig where
  host : Path
  id   : Nat
deriving DecidableEq, Repr

abbrev Groups := List (Path × List Sig)

/-- `d[k].extend(ys)` on a `defaultdict(list)` -/
def addTo : Groups → Path → List Sig → Groups
  | [], k, ys => [(k, ys)]
  | (k', zs) :: rest, k, ys => if k' = k then (k', zs ++ ys) :: rest else (k', zs) :: addTo rest k ys

/-- `x.get_parent_object()` for a component that is not `top` -/
def parent (p : Path) : Path := p.dropLast

/-- the initial dict: every double-buffered signal under its host component, in the given order -/
def initial (sigs : List Sig) : Groups :=
  sigs.foldl (fun g z => addTo g z.host [z]) []

/-- one entry of the `for x, y in hostobj_signals.items()` loop (`y[0]` of a one-element list is `y.take 1`) -/
def stepEntry (acc : Groups × Bool) (xy : Path × List Sig) : Groups × Bool :=
  if xy.2.length > 1 || xy.1 = [] then (addTo acc.1 xy.1 xy.2, acc.2)
  else (addTo acc.1 (parent xy.1) (xy.2.take 1), false)

/-- one pass of the `while not done` loop: the next dict and the `done` flag -/
def round (g : Groups) : Groups × Bool := g.foldl stepEntry ([], true)

/-- the `while not done` loop with fuel -/
def iter : Nat → Groups → Groups
  | 0, g => g
  | n + 1, g => let r := round g; if r.2 then r.1 else iter n r.1

/-- Σ depth(key) · |group| : strictly decreases in every round that is not the last one -/
def weight (g : Groups) : Nat := (g.map (fun xy => xy.1.length * xy.2.length)).sum

/-- the grouping `schedule_posedge_flip` ends with -/
def grouping (sigs : List Sig) : Groups :=
  let g := initial sigs
  iter (weight g + 1) g

/-- the signals flipped by the generated function, in emission order (up to the `sorted(..., key=repr)` inside a group) -/
def flips (g : Groups) : List Sig := (g.map (·.2)).flatten

/-- every group is final: at least two signals, or at `top` -/
def settledB (g : Groups) : Bool := g.all (fun xy => decide (xy.2.length > 1) || decide (xy.1 = []))

end PV.Flip
