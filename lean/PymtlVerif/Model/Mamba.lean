/-!
# Model of the schedulers of `pymtl3/passes/mamba` (Mathlib-free, executable, total)

Written from the code as it is:

* `sortBr`, `packFFGo`, `packFFOn`, `packFF` — `Mamba2020Pass.schedule_ff`: `sorted(ffs, key=lambda x: x[0])` (Python's
  sort is stable: insertion sort that keeps equal keys in input order) followed by the packing loop
  (`branchiness_factor = 20`, `branchy_block_factor = 6`, one flush site + the final `if cur_meta`).
* `stepWith`, `sccStep`, `finish`, `packSCCOn`, `packSCC` — the packing inside `compile_scc` (an SCC whose BFS order
  `tmp_schedule` has >= 10 blocks is cut into meta blocks, three flush sites; `< 10` blocks are inlined as one group).
  The BFS itself is not modelled: the packing is a function of the order it is given.
* `keyLe`, `bsearch`, `insertSorted` — `insert_sortedlist` (binary search for the position after the last key `<=` the
  new key, then `list.insert`). A key `(br, -cnt)` of the code is the pair `(br, cnt)` here, `keyLe` is Python's tuple
  comparison `(br1, -cnt1) <= (br2, -cnt2)`.
* `initInD`, `expand`, `push`, `popQ`, `mainStep` (= `stepWith mainFirst`), `mambaLoop`, `mambaSched` — the topological sort of
  `Mamba2020Pass.schedule_intra_cycle` over the condensation graph `G_new` (`G : Nat → List Nat`, vertices `0..n-1`,
  `G u` in the iteration order of the set `G_new[u]`): `Q.pop(0)` when `cur_br == 0`, `Q.pop()` otherwise,
  `expand_node`, and the three flush sites of the meta-block packing. The result is `schedule` (a list of meta blocks of
  SCC ids; `compile_scc(u)` is represented by `u`).
* `popMin`, `heuLoop`, `heuSched` — `HeuristicTopoPass.schedule_intra_cycle`: Kahn's algorithm whose work list is a
  `queue.PriorityQueue` of `(branchiness, id(blk))`; `get()` returns the smallest pair. (This pass does no packing.)

`InD` holds Python ints, so it is `Nat → Int` here: `InD[v] -= 1; if not InD[v]` is literally `d := ind v - 1; d = 0`.
-/
namespace PV.Mamba

/-- `branchiness_factor` -/
def brFactor : Nat := 20
/-- `branchy_block_factor` -/
def blkFactor : Nat := 6

/-! ## schedule_ff -/
section
variable {β : Type}

/-- insert `x` in front of the first element of the (sorted) tail whose key is `>= br x`: with `sortBr` folding from the
right, equal keys stay in input order (stable sort) -/
def insertBr (br : β → Nat) (x : β) : List β → List β
  | [] => [x]
  | y :: ys => if br x ≤ br y then x :: y :: ys else y :: insertBr br x ys

/-- `sorted(l, key=br)` (stable) -/
def sortBr (br : β → Nat) : List β → List β
  | [] => []
  | x :: xs => insertBr br x (sortBr br xs)

/-- the loop of `schedule_ff` over the sorted list; arguments: remaining blocks, `cur_meta`, `cur_br`, `cur_count` -/
def packFFGo (br : β → Nat) : List β → List β → Nat → Nat → List (List β)
  | [], cur, _, _ => if cur.isEmpty then [] else [cur]                   -- `if cur_meta: schedule.append(...)`
  | b :: rest, cur, cb, cc =>
    if br b = 0 then packFFGo br rest (cur ++ [b]) cb cc                 -- `if br == 0: cur_meta.append( blk )`
    else
      let cur := cur ++ [b]
      let cb := cb + br b
      let cc := cc + 1
      if cb ≥ brFactor ∨ cc ≥ blkFactor then cur :: packFFGo br rest [] 0 0
      else packFFGo br rest cur cb cc

def packFFOn (br : β → Nat) (l : List β) : List (List β) := packFFGo br (sortBr br l) [] 0 0

/-- `schedule_ff` on `ffs = [(branchiness (0 for loop-only blocks), blk), ...]` in the iteration order of
`top.get_all_update_ff()` -/
def packFF (l : List (Nat × β)) : List (List β) := (packFFOn Prod.fst l).map (List.map Prod.snd)

/-! ## packing state shared by compile_scc and the main loop -/

/-- `cur_meta, cur_br, cur_count` and the list of meta blocks emitted so far -/
structure Pack (β : Type) where
  cur : List β
  cb : Nat
  cc : Nat
  out : List (List β)

def Pack.empty : Pack β := ⟨[], 0, 0, []⟩

/-- `if cur_meta: schedule.append( cur_meta )` -/
def finish (p : Pack β) : List (List β) := if p.cur.isEmpty then p.out else p.out ++ [p.cur]

/-- One iteration of the packing logic that `compile_scc` (the `else:` branch for >= 10 blocks) and the `while Q` loop of
`schedule_intra_cycle` both spell out; `r` = the block's effective branchiness. The two copies differ only in the
flush test of the first branch (`first cur_br cur_count`): `sccFirst` / `mainFirst`. -/
def stepWith (first : Nat → Nat → Bool) (p : Pack β) (r : Nat) (b : β) : Pack β :=
  if p.cb = 0 then
    -- `if cur_br == 0:` append, then flush when the block alone exceeds the bound
    let cur := p.cur ++ [b]
    let cb := p.cb + r
    let cc := p.cc + (if r > 0 then 1 else 0)
    if first cb cc then ⟨[], 0, 0, p.out ++ [cur]⟩ else ⟨cur, cb, cc, p.out⟩
  else if r = 0 then
    -- "If no branchy block available, directly start a new metablock": `cur_meta, cur_br, cur_count = [ blk ], 0, 0`
    ⟨[b], 0, 0, p.out ++ [p.cur]⟩
  else
    let cur := p.cur ++ [b]
    let cb := p.cb + r
    let cc := p.cc + (if r > 0 then 1 else 0)
    -- `if cur_br + br >= branchiness_factor or cur_count + 1 >= branchy_block_factor:` (br counted twice, as in the code)
    if cb + r ≥ brFactor ∨ cc + 1 ≥ blkFactor then ⟨[], 0, 0, p.out ++ [cur]⟩ else ⟨cur, cb, cc, p.out⟩

/-- compile_scc: `if cur_br >= branchiness_factor or cur_count >= branchy_block_factor:` -/
def sccFirst (cb cc : Nat) : Bool := decide (cb ≥ brFactor ∨ cc ≥ blkFactor)
/-- schedule_intra_cycle: `if cur_br >= branchiness_factor:` -/
def mainFirst (cb _cc : Nat) : Bool := decide (cb ≥ brFactor)

def sccStep (br : β → Nat) (p : Pack β) (b : β) : Pack β := stepWith sccFirst p (br b) b

/-- compile_scc: `if len(tmp_schedule) < 10:` all blocks inline (one group) `else:` the packing loop -/
def packSCCOn (br : β → Nat) (l : List β) : List (List β) :=
  if l.length < 10 then [l] else finish (l.foldl (sccStep br) Pack.empty)

/-- `br = 0 if self.only_loop_at_top[blk] else self.branchiness[blk]` -/
def effBr (x : Nat × Bool × β) : Nat := if x.2.1 then 0 else x.1

/-- compile_scc's grouping of the BFS order `[(branchiness, only_loop_at_top, blk), ...]` -/
def packSCC (l : List (Nat × Bool × β)) : List (List β) := (packSCCOn effBr l).map (List.map (fun x => x.2.2))

end

/-! ## insert_sortedlist -/

/-- `(br, cnt)` stands for the code's key `(br, -cnt)` -/
abbrev Key := Nat × Nat
/-- Python `(a.1, -a.2) <= (b.1, -b.2)` -/
def keyLe (a b : Key) : Bool := a.1 < b.1 || (a.1 == b.1 && b.2 ≤ a.2)

/-- queue entry `( key, item )` -/
abbrev QE := Key × Nat

/-- the `while left + 1 < right` loop with `lo = left + 1`; `mid = (left + right) >> 1 = (lo + right - 1) / 2`
(`left + right >= 0` whenever the loop body runs). Fuel `len(arr)` suffices (`bsearch_fuel`). `arr[mid]` out of range
(IndexError in Python, unreachable: `lo <= mid < right <= len`) stops the search. -/
def bsearch (arr : List QE) (key : Key) : Nat → Nat → Nat → Nat
  | 0, _, right => right
  | fuel + 1, lo, right =>
    if lo < right then
      let mid := (lo + right - 1) / 2
      match arr[mid]? with
      | none => right
      | some e => if keyLe e.1 key then bsearch arr key fuel (mid + 1) right else bsearch arr key fuel lo mid
    else right

/-- `insert_sortedlist( arr, key, item )` -/
def insertSorted (arr : List QE) (key : Key) (item : Nat) : List QE :=
  arr.insertIdx (bsearch arr key arr.length 0 arr.length) (key, item)

/-! ## expand_node (shared shape with HeuristicTopoPass's inner loop) -/

/-- `for v in G_new[u]: InD[v] -= 1; if not InD[v]: <push v>`; `σ` is whatever the push changes (queue, counter) -/
def expand {σ : Type} (push : σ → Nat → σ) : List Nat → (Nat → Int) → σ → (Nat → Int) × σ
  | [], ind, s => (ind, s)
  | v :: vs, ind, s =>
    let d := ind v - 1
    let ind' := fun w => if w = v then d else ind w
    if d = 0 then expand push vs ind' (push s v) else expand push vs ind' s

/-- `InD` after `for u, vs in G_new.items(): for v in vs: InD[v] += 1` -/
def initInD (G : Nat → List Nat) (n : Nat) : Nat → Int :=
  fun v => (((List.range n).map (fun u => (G u).count v)).sum : Nat)

/-! ## Mamba2020Pass.schedule_intra_cycle -/

/-- `cnt += 1; insert_sortedlist( Q, (kb v, -cnt), v )` where `kb v` is 0 for nontrivial / loop-only SCCs and the
block's branchiness otherwise -/
def push (kb : Nat → Nat) (s : List QE × Nat) (v : Nat) : List QE × Nat :=
  (insertSorted s.1 (kb v, s.2 + 1) v, s.2 + 1)

/-- `Q.pop(0)` if `cur_br == 0` else `Q.pop()`; `none` = `Q` is empty (the `while Q` test) -/
def popQ (cb : Nat) (q : List QE) : Option (QE × List QE) :=
  if cb = 0 then
    match q with
    | [] => none
    | e :: q' => some (e, q')
  else
    match q.getLast? with
    | none => none
    | some e => some (e, q.dropLast)

/-- the body of the `while Q` loop after the pop, packing part; `r` is the `br` of the popped key -/
def mainStep (p : Pack Nat) (r u : Nat) : Pack Nat := stepWith mainFirst p r u

structure MSt where
  q : List QE
  ind : Nat → Int
  cnt : Nat
  pk : Pack Nat

/-- "Put the graph input nodes into the queue" -/
def mambaInit (G : Nat → List Nat) (kb : Nat → Nat) (n : Nat) : MSt :=
  let ind := initInD G n
  let qc := ((List.range n).filter (fun v => ind v == 0)).foldl (push kb) ([], 0)
  ⟨qc.1, ind, qc.2, Pack.empty⟩

def mambaLoop (G : Nat → List Nat) (kb : Nat → Nat) : Nat → MSt → MSt
  | 0, s => s
  | fuel + 1, s =>
    match popQ s.pk.cb s.q with
    | none => s
    | some (((r, _), u), q') =>
      let pk := mainStep s.pk r u
      let res := expand (push kb) (G u) s.ind (q', s.cnt)
      mambaLoop G kb fuel ⟨res.2.1, res.1, res.2.2, pk⟩

/-- final state; fuel `n` suffices (`mamba_fuel`: the queue is empty at the end) -/
def mambaFinal (G : Nat → List Nat) (kb : Nat → Nat) (n : Nat) : MSt := mambaLoop G kb n (mambaInit G kb n)

/-- `schedule`: the meta blocks of SCC ids -/
def mambaSched (G : Nat → List Nat) (kb : Nat → Nat) (n : Nat) : List (List Nat) := finish (mambaFinal G kb n).pk

/-- the flattened SCC order -/
def mambaOrder (G : Nat → List Nat) (kb : Nat → Nat) (n : Nat) : List Nat := (mambaSched G kb n).flatten

/-! ## HeuristicTopoPass.schedule_intra_cycle -/

/-- `PriorityQueue.get()` on a queue held as a list of vertices ordered by `le` on their `(branchiness, id)` pairs:
the (first) smallest element and the rest -/
def popMin (le : Nat → Nat → Bool) : List Nat → Option (Nat × List Nat)
  | [] => none
  | x :: xs =>
    match popMin le xs with
    | none => some (x, [])
    | some (m, rest) => if le x m then some (x, xs) else some (m, x :: rest)

/-- `(branchiness[u], id(u)) <= (branchiness[v], id(v))` -/
def heuLe (br ident : Nat → Nat) (u v : Nat) : Bool :=
  br u < br v || (br u == br v && ident u ≤ ident v)

/-- `Q.put( (branchiness[v], id(v)) )` -/
def heuPush (q : List Nat) (v : Nat) : List Nat := v :: q

structure HSt where
  q : List Nat
  ind : Nat → Int
  out : List Nat

def heuLoop (G : Nat → List Nat) (le : Nat → Nat → Bool) : Nat → HSt → HSt
  | 0, s => s
  | fuel + 1, s =>
    match popMin le s.q with
    | none => s
    | some (u, q') =>
      let res := expand heuPush (G u) s.ind q'
      heuLoop G le fuel ⟨res.2, res.1, s.out ++ [u]⟩

def heuInit (G : Nat → List Nat) (n : Nat) : HSt :=
  let ind := initInD G n
  ⟨((List.range n).filter (fun v => ind v == 0)).foldl heuPush [], ind, []⟩

def heuFinal (G : Nat → List Nat) (le : Nat → Nat → Bool) (n : Nat) : HSt := heuLoop G le n (heuInit G n)

/-- `update_schedule` (check_schedule raises UpblkCyclicError when its length is not `n`) -/
def heuSched (G : Nat → List Nat) (br ident : Nat → Nat) (n : Nat) : List Nat := (heuFinal G (heuLe br ident) n).out

end PV.Mamba
