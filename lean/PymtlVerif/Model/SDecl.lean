import PymtlVerif.Model.Flat
import PymtlVerif.Model.Names
/-!
# Declarations, instances and operand rendering of the structural translators (C03 / C12)

Executable model, written from the pymtl3 code as it is (quirks included).

Input = the *structural table* of one component: what `RTLIRGetter` hands the translators
(`pymtl3/passes/rtlir/rtype/RTLIRType.py`: `get_ports_packed`, `get_wires_packed`, `get_ifc_views_packed`,
`get_subcomps_packed`, each sorted by name; `rt.Array.get_dim_sizes()`; `InterfaceView.get_all_properties_packed()`):
ports / wires (name, list dimensions, direction, data type), interface views (nested), sub-component slots (list dimensions,
the module name of every element, the ports and interfaces of the element type).

Generic driver of both backends (`passes/backends/generic/structural/StructuralTranslatorL1…L4.translate_decls`) calls, per
object, the backend hooks modelled here:

**SystemVerilog backend** (`passes/backends/verilog/translation/structural/VStructuralTranslatorL1…L4.py`)
* `vSigDecl`       — `rtlir_tr_port_decl` / `rtlir_tr_wire_decl`: packed type, identifier, unpacked dimensions `[0:n-1]…` in the
                     order of `get_dim_sizes()` (`rtlir_tr_unpacked_array_type`)
* `vIfcMembers`    — `rtlir_tr_interface_port_decl`: a port of an interface; a nested interface is walked recursively with the name
                     `f'{port_id}__{name}'`. QUIRK kept: the recursive call hands down the raw `rt.Array` / `None` instead of the
                     translated dictionary, so `port_array_type['unpacked_type']` raises `TypeError` for a list of ports inside a
                     nested interface and for every non-empty interface nested two deep (`none` here)
* `vIfcDecl`       — `rtlir_tr_interface_decl`: `f"{ifc_id}__{tr['id']}"`, unpacked = interface list dimensions, then the member's
* `vSubIfcMembers`, `vSubDescs` — `rtlir_tr_subcomp_port_decl`, `rtlir_tr_subcomp_ifc_port_decl` (no quirk here: the dictionaries are
                     combined properly, `ifc_array_type['n_dim'] + port_array_type['n_dim']`)
* `vSubWires`, `vInst`, `vSubInsts` — `rtlir_tr_subcomp_decl`: one wire `f"{c_id}__{id}"` per child port with unpacked dimensions
                     `c_array ++ port dims`; `gen_subcomp_array_decl`: one instance `c_id__i__j` per index tuple in row-major order,
                     port map `.{id}( {c_id}__{id}[i][j] )` in the order `port_conns + ifc_conns`
* `vModulePorts`   — `VTranslator.rtlir_tr_component`: `{port_decls}{ifc_decls}`

**Signal expressions** (`passes/rtlir/structural/StructuralRTLIRSignalExpr.py`)
* `pushFrames`, `tokens` — `gen_signal_expr`: the token stack built while walking from the signal up to the component
                     (`reversed(_my_indices)`, then `_my_name`, per object) and popped in reverse
* `construct`, `genSExp` — `construct_attr` / `construct_index` / `construct_slice`: the node class is chosen from the RTLIR type of the base
* `rend`           — the `rtlir_tr_*` hooks of the SystemVerilog backend with their shared queue `_rtlir_tr_unpacked_q`
                     (`_rtlir_tr_process_unpacked`): indices of component / interface lists are queued and emitted after the
                     mangled identifier; `rtlir_tr_current_comp_attr` returns the attribute alone
* `yRend`          — the same hooks of the Yosys backend (`s.deq[-1]`: all attributes joined by `__`, then all indices)

**Yosys backend** (`passes/backends/yosys/translation/structural/YosysStructuralTranslatorL1…L4.py`), in relative form (paths below the
object that is being declared; a wrapper adds the enclosing names / indices / dimensions)
* `yOfSig`         — `port_gen` (flat ports: `Flat.flatPorts`, one per leaf, list indices in the name), `port_wire_gen` =
                     `wire_dtype_gen` / `wire_struct_gen` / `wire_packed_gen` (wire forms: dimensions = list dimensions, then the
                     dimensions of every packed-array field on the way, IN THIS ORDER), `port_connection_gen` = `_port_conn_gen` /
                     `struct_conn_gen` / `_packed_conn_gen` / `vec_conn_*_gen` (flat port ↔ element of the wire form; the index
                     collected so far comes first: `f"{idx}[{i}]"`)
* `yWrap`          — `ifc_port_gen` / `ifc_conn_gen` (L3), `_subcomp_ifc_port_gen` / `_subcomp_ifc_conn_gen`, `_subcomp_port_gen` /
                     `_subcomp_conn_gen` (L4) and, with `inline = true`, `_gen_ifc` (a list of interfaces INSIDE an interface puts its
                     indices into the identifiers of ports, wire forms and connections alike: known finding F25)
* `yEmitWire`, `yEmitConn` — the emission filters (`if n_dim or "present" in …`, `if idx or … or "present" in …`)

The order of the emitted items inside one section is reproduced where the code fixes it by a loop over `range`; the slices of a
struct's packed vector are taken from `Flat.flatPorts` (proved in `Props/C12.lean`), so their order inside one struct follows
`flatPorts`, not `reversed(range(n))` — the correspondence compares sections as multisets.

Mathlib-free: linked into the native driver `pv_sdecl`.
-/
namespace PV.SDecl
open PV.SV PV.Names

inductive Dir where
  | input | output | wire
deriving DecidableEq, Repr, Inhabited

instance : Inhabited PTy := ⟨.vec 1⟩

/-- members of an interface view, sorted by name (`get_all_properties_packed`): ports and nested interfaces -/
inductive Members where
  | nil
  | port (name : String) (dims : List Nat) (dir : Dir) (ty : PTy) (rest : Members)
  | ifc (name : String) (dims : List Nat) (sub : Members) (rest : Members)
deriving Inhabited

structure Sig where
  name : String
  dims : List Nat
  dir : Dir
  ty : PTy
deriving Inhabited

structure IfcE where
  name : String
  dims : List Nat
  ms : Members
deriving Inhabited

/-- a sub-component slot: list dimensions, module name of every element (row-major), ports / interfaces of the element type -/
structure Sub where
  name : String
  dims : List Nat
  mods : List String
  ports : List Sig
  ifcs : List IfcE
deriving Inhabited

structure Table where
  ports : List Sig
  wires : List Sig
  ifcs : List IfcE
  subs : List Sub
deriving Inhabited

/-- a declared variable: identifier = `flatId path`, packed type, unpacked dimensions in order -/
structure Decl where
  dir : Dir
  path : List Seg
  ty : PTy
  dims : List Nat
deriving Inhabited

def Decl.ident (d : Decl) : String := flatId d.path

/-! ## SystemVerilog backend: declarations -/

def vSigDecl (s : Sig) : Decl := ⟨s.dir, [.name s.name], s.ty, s.dims⟩

/-- `rtlir_tr_interface_port_decl` over the members of one interface view; `top`: called from `translate_decls` (the array
argument is the translated dictionary) / `false`: the recursive call (raw `rt.Array` or `None`). `none` = `TypeError`. -/
def vIfcMembers (top : Bool) (pre : List Seg) : Members → Option (List Decl)
  | .nil => some []
  | .port n dims dir ty rest =>
    match vIfcMembers top pre rest with
    | none => none
    | some r => if top || dims.isEmpty then some (⟨dir, pre ++ [.name n], ty, dims⟩ :: r) else none
  | .ifc n dims sub rest =>
    match vIfcMembers false (pre ++ [.name n]) sub, vIfcMembers top pre rest with
    | some inner, some r =>
      if top then some (inner.map (fun d => { d with dims := dims ++ d.dims }) ++ r)
      else if inner.isEmpty then some r else none
    | _, _ => none

/-- `rtlir_tr_interface_decl` -/
def vIfcDecl (e : IfcE) : Option (List Decl) :=
  (vIfcMembers true [] e.ms).map fun ds => ds.map fun d => ⟨d.dir, .name e.name :: d.path, d.ty, e.dims ++ d.dims⟩

def vIfcDecls : List IfcE → Option (List Decl)
  | [] => some []
  | e :: es =>
    match vIfcDecl e, vIfcDecls es with
    | some a, some b => some (a ++ b)
    | _, _ => none

/-- ports of the emitted module: `{port_decls}{ifc_decls}` -/
def vModulePorts (T : Table) : Option (List Decl) :=
  (vIfcDecls T.ifcs).map fun ds => T.ports.map vSigDecl ++ ds

def vModuleWires (T : Table) : List Decl := T.wires.map vSigDecl

/-- `rtlir_tr_subcomp_ifc_port_decl` (paths relative to the child) -/
def vSubIfcMembers (pre : List Seg) (adims : List Nat) : Members → List Decl
  | .nil => []
  | .port n dims dir ty rest => ⟨dir, pre ++ [.name n], ty, adims ++ dims⟩ :: vSubIfcMembers pre adims rest
  | .ifc n dims sub rest => vSubIfcMembers (pre ++ [.name n]) (adims ++ dims) sub ++ vSubIfcMembers pre adims rest

def vSubIfc (e : IfcE) : List Decl := vSubIfcMembers [.name e.name] e.dims e.ms

/-- the descriptors `port_conns + ifc_conns` of one sub-component slot: formal port of the child (relative path), its type and
unpacked dimensions -/
def vSubDescs (k : Sub) : List Decl := k.ports.map vSigDecl ++ k.ifcs.flatMap vSubIfc

/-- wires declared in the parent for the ports of a sub-component slot -/
def vSubWires (k : Sub) : List Decl :=
  (vSubDescs k).map fun d => ⟨.wire, .name k.name :: d.path, d.ty, k.dims ++ d.dims⟩

/-- all index tuples of a list with dimensions `ds`, row-major (`gen_subcomp_array_decl`: outer dimension first) -/
def allIdx : List Nat → List (List Nat)
  | [] => [[]]
  | d :: ds => (List.range d).flatMap fun i => (allIdx ds).map (i :: ·)

/-- one port connection `.formal( wire[idx] )` -/
structure Conn where
  formal : String
  wire : List Seg
  idx : List Nat
deriving Inhabited

structure Inst where
  name : List Seg
  mod : String
  conns : List Conn
deriving Inhabited

def vInst (k : Sub) (ix : List Nat) (mod : String) : Inst :=
  ⟨.name k.name :: ix.map .idx, mod, (vSubDescs k).map fun d => ⟨flatId d.path, .name k.name :: d.path, ix⟩⟩

def vSubInsts (k : Sub) : List Inst := ((allIdx k.dims).zip k.mods).map fun p => vInst k p.1 p.2

/-! ## signal expressions -/

/-- one object on the way from the signal up to the component: `_dsl._my_name`, `_dsl._my_indices` -/
structure Frame where
  name : String
  idxs : List Nat
deriving Inhabited, Repr, DecidableEq

inductive Tk where
  | attr (a : String)
  | idx (i : Nat)
  | slice (lo hi : Nat)
deriving Inhabited, Repr, DecidableEq

/-- the stack after the `while tmp is not cur_component` loop (bottom first); `frames`: innermost object first -/
def pushFrames : List Frame → List Tk
  | [] => []
  | f :: fs => (f.idxs.reverse.map Tk.idx ++ [Tk.attr f.name]) ++ pushFrames fs

def sliceTk : Option (Nat × Nat) → List Tk
  | none => []
  | some (a, b) => [Tk.slice a b]

/-- the tokens in the order in which `for f, token in reversed(stack)` applies them -/
def tokens (sl : Option (Nat × Nat)) (frames : List Frame) : List Tk := (sliceTk sl ++ pushFrames frames).reverse

inductive SExp where
  | cur
  | curAttr (b : SExp) (a : String)
  | subAttr (b : SExp) (a : String)
  | ifcAttr (b : SExp) (a : String)
  | structAttr (b : SExp) (a : String)
  | portIdx (b : SExp) (i : Nat)
  | wireIdx (b : SExp) (i : Nat)
  | ifcIdx (b : SExp) (i : Nat)
  | compIdx (b : SExp) (i : Nat)
  | packedIdx (b : SExp) (i : Nat)
  | bitSel (b : SExp) (i : Nat)
  | partSel (b : SExp) (lo hi : Nat)
deriving Inhabited, Repr, DecidableEq

/-- RTLIR type of a signal-expression node, as far as the choice of the node class needs it -/
inductive RT where
  | cur (T : Table)
  | sub (k : Sub)
  | ifc (ms : Members)
  | port (ty : PTy)
  | wire (ty : PTy)
  | arr (dims : List Nat) (e : RT)
deriving Inhabited

def mkArr (dims : List Nat) (e : RT) : RT := if dims.isEmpty then e else .arr dims e

def Members.prop (a : String) : Members → Option RT
  | .nil => none
  | .port n dims _ ty rest => if n = a then some (mkArr dims (.port ty)) else rest.prop a
  | .ifc n dims sub rest => if n = a then some (mkArr dims (.ifc sub)) else rest.prop a

def sigProp (a : String) (wire : Bool) : List Sig → Option RT
  | [] => none
  | s :: ss => if s.name = a then some (mkArr s.dims (if wire then .wire s.ty else .port s.ty)) else sigProp a wire ss

def ifcProp (a : String) : List IfcE → Option RT
  | [] => none
  | e :: es => if e.name = a then some (mkArr e.dims (.ifc e.ms)) else ifcProp a es

def subProp (a : String) : List Sub → Option RT
  | [] => none
  | k :: ks => if k.name = a then some (mkArr k.dims (.sub k)) else subProp a ks

def Table.prop (T : Table) (a : String) : Option RT :=
  (sigProp a false T.ports).orElse fun _ => (sigProp a true T.wires).orElse fun _ => (ifcProp a T.ifcs).orElse fun _ => subProp a T.subs

def Sub.prop (k : Sub) (a : String) : Option RT :=
  (sigProp a false k.ports).orElse fun _ => ifcProp a k.ifcs

/-- `get_next_dim_type` -/
def nextDim (dims : List Nat) (e : RT) : RT := mkArr dims.tail e

/-- `construct_attr` / `construct_index` / `construct_slice` -/
def construct : SExp × RT → Tk → Option (SExp × RT)
  | (e, .cur T), .attr a => (T.prop a).map fun t => (.curAttr e a, t)
  | (e, .sub k), .attr a => (k.prop a).map fun t => (.subAttr e a, t)
  | (e, .ifc ms), .attr a => (ms.prop a).map fun t => (.ifcAttr e a, t)
  | (e, .port (.struct _ fs)), .attr a => (fs.find a).map fun p => (.structAttr e a, .port p.2)
  | (e, .wire (.struct _ fs)), .attr a => (fs.find a).map fun p => (.structAttr e a, .wire p.2)
  | (e, .port (.vec _)), .idx i => some (.bitSel e i, .port (.vec 1))
  | (e, .wire (.vec _)), .idx i => some (.bitSel e i, .wire (.vec 1))
  | (e, .port (.arr _ t)), .idx i => some (.packedIdx e i, .port t)
  | (e, .wire (.arr _ t)), .idx i => some (.packedIdx e i, .wire t)
  | (e, .arr dims (.port t)), .idx i => some (.portIdx e i, nextDim dims (.port t))
  | (e, .arr dims (.wire t)), .idx i => some (.wireIdx e i, nextDim dims (.wire t))
  | (e, .arr dims (.ifc ms)), .idx i => some (.ifcIdx e i, nextDim dims (.ifc ms))
  | (e, .arr dims (.sub k)), .idx i => some (.compIdx e i, nextDim dims (.sub k))
  | (e, .port (.vec _)), .slice lo hi => some (.partSel e lo hi, .port (.vec (hi - lo)))
  | (e, .wire (.vec _)), .slice lo hi => some (.partSel e lo hi, .wire (.vec (hi - lo)))
  | _, _ => none

def constructAll : SExp × RT → List Tk → Option (SExp × RT)
  | n, [] => some n
  | n, t :: ts => match construct n t with
    | some n' => constructAll n' ts
    | none => none

/-- `gen_signal_expr` (signals; constants are passed through by the driver) -/
def genSExp (T : Table) (sl : Option (Nat × Nat)) (frames : List Frame) : Option (SExp × RT) :=
  constructAll (.cur, .cur T) (tokens sl frames)

/-! ## rendering of an operand, SystemVerilog backend -/

inductive Sel where
  | idx (i : Nat)
  | fld (f : String)
  | rng (msb lsb : Nat)
deriving Inhabited, Repr, DecidableEq

/-- a rendered reference: identifier `"__".join(id)` followed by the selects -/
structure Ref where
  id : List String
  sels : List Sel
deriving Inhabited, Repr, DecidableEq

def Ref.ident (r : Ref) : String := "__".intercalate r.id

/-- the text built so far and the queue `_rtlir_tr_unpacked_q` -/
structure RSt where
  ref : Ref
  q : List Nat
deriving Inhabited, Repr, DecidableEq

/-- `_rtlir_tr_process_unpacked` with `enable = ('status', 'unpacked')` followed by the suffix `sel`: the queue is emitted when the
node is the outermost one or the queue is not empty — in the remaining case the queue is empty, so the text is the same -/
def appSel (s : RSt) (sel : Sel) : RSt := ⟨⟨s.ref.id, s.ref.sels ++ s.q.map Sel.idx ++ [sel]⟩, []⟩

/-- `f'{base_signal}__{attr}'` then, if outermost, the queue (`enable = ('status')`); `none`: the base is not a plain identifier -/
def appAttr (fin : Bool) (s : RSt) (a : String) : Option RSt :=
  if s.ref.sels ≠ [] then none
  else if fin then some ⟨⟨s.ref.id ++ [a], s.q.map Sel.idx⟩, []⟩
  else some ⟨⟨s.ref.id ++ [a], []⟩, s.q⟩

/-- `rtlir_signal_expr_translation` of the SystemVerilog backend; `fin`: status is `reader` / `writer` (outermost node) -/
def rend : SExp → Bool → Option RSt
  | .cur, _ => some ⟨⟨[], []⟩, []⟩
  | .curAttr b a, _ => (rend b false).map fun s => ⟨⟨[a], []⟩, s.q⟩
  | .compIdx b i, _ => (rend b false).map fun s => { s with q := s.q ++ [i] }
  | .ifcIdx b i, _ => (rend b false).map fun s => { s with q := s.q ++ [i] }
  | .subAttr b a, fin => (rend b false).bind fun s => appAttr fin s a
  | .ifcAttr b a, fin => (rend b false).bind fun s => appAttr fin s a
  | .portIdx b i, _ => (rend b false).map fun s => appSel s (.idx i)
  | .packedIdx b i, _ => (rend b false).map fun s => appSel s (.idx i)
  | .bitSel b i, _ => (rend b false).map fun s => appSel s (.idx i)
  | .structAttr b a, _ => (rend b false).map fun s => appSel s (.fld a)
  | .partSel b lo hi, _ => (rend b false).map fun s => appSel s (.rng (hi - 1) lo)
  | .wireIdx b i, _ => (rend b false).map fun s => { s with ref := ⟨s.ref.id, s.ref.sels ++ [.idx i]⟩ }

/-- the operand as emitted (status `reader` / `writer`) -/
def render (e : SExp) : Option RSt := rend e true

/-! ## rendering of an operand, Yosys backend (`s.deq[-1]`: `s_attr` then `s_index`) -/

def yRendAux : SExp → List String × List Sel
  | .cur => ([], [])
  | .curAttr b a => ([a], (yRendAux b).2)
  | .subAttr b a => let r := yRendAux b; (r.1 ++ [a], r.2)
  | .ifcAttr b a => let r := yRendAux b; (r.1 ++ [a], r.2)
  | .structAttr b a => let r := yRendAux b; (r.1 ++ [a], r.2)
  | .portIdx b i => let r := yRendAux b; (r.1, r.2 ++ [.idx i])
  | .wireIdx b i => let r := yRendAux b; (r.1, r.2 ++ [.idx i])
  | .ifcIdx b i => let r := yRendAux b; (r.1, r.2 ++ [.idx i])
  | .compIdx b i => let r := yRendAux b; (r.1, r.2 ++ [.idx i])
  | .packedIdx b i => let r := yRendAux b; (r.1, r.2 ++ [.idx i])
  | .bitSel b i => let r := yRendAux b; (r.1, r.2 ++ [.idx i])
  | .partSel b lo hi => let r := yRendAux b; (r.1, r.2 ++ [.rng (hi - 1) lo])

def yRender (e : SExp) : Ref := ⟨(yRendAux e).1, (yRendAux e).2⟩

/-! ## Yosys backend: flat ports, wire forms, connections (relative form) -/

structure YPort where
  dir : Dir
  path : List Seg
  msb : Nat
deriving Inhabited

structure YWire where
  path : List Seg
  msb : Nat
  dims : List Nat
  present : Bool
deriving Inhabited

/-- flat port `pid` ↔ element `wid idx` of a wire form -/
structure YConn where
  dir : Dir
  pid : List Seg
  wid : List Seg
  idx : List Sel
  present : Bool
deriving Inhabited

structure YRec where
  ports : List YPort
  wires : List YWire
  conns : List YConn
deriving Inhabited

def YRec.append (a b : YRec) : YRec := ⟨a.ports ++ b.ports, a.wires ++ b.wires, a.conns ++ b.conns⟩
instance : Append YRec := ⟨YRec.append⟩
def YRec.empty : YRec := ⟨[], [], []⟩

def tokSeg : Flat.Tok → Seg
  | .fld f => .name f
  | .idx i => .idx i

mutual
  /-- `wire_dtype_gen` / `wire_struct_gen` / `wire_packed_gen`: `nd` = the dimensions collected so far -/
  def yWires : PTy → List Nat → List YWire
    | .vec w, nd => [⟨[], w - 1, nd, false⟩]
    | .struct _ fs, nd => yWiresF fs nd ++ [⟨[], fs.width - 1, nd, true⟩]
    | .arr n e, nd => yWires e (nd ++ [n])
  def yWiresF : Fields → List Nat → List YWire
    | .nil, _ => []
    | .cons f t rest, nd => (yWires t nd).map (fun w => { w with path := .name f :: w.path }) ++ yWiresF rest nd
end

mutual
  /-- `dtype_conn_gen` / `struct_conn_gen` / `_packed_conn_gen` with `pid = wid = idx = ""` -/
  def yConns (d : Dir) : PTy → List YConn
    | .vec _ => [⟨d, [], [], [], false⟩]
    | .struct nm fs =>
      yConnsF d fs ++ (Flat.flatPorts (.struct nm fs)).map fun l => ⟨d, l.path.map tokSeg, [], [.rng l.msb l.lsb], true⟩
    | .arr n e =>
      let inner := yConns d e
      (List.range n).flatMap fun i => inner.map fun c => { c with pid := .idx i :: c.pid, idx := .idx i :: c.idx }
  def yConnsF (d : Dir) : Fields → List YConn
    | .nil => []
    | .cons f t rest =>
      (yConns d t).map (fun c => { c with pid := .name f :: c.pid, wid := .name f :: c.wid }) ++ yConnsF d rest
end

/-- `port_gen` / `_port_conn_gen` over the list dimensions: index into the identifier of the flat port, `[i]` after the index
collected so far -/
def yNestPorts : List Nat → List YPort → List YPort
  | [], ps => ps
  | d :: ds, ps => (List.range d).flatMap fun i => (yNestPorts ds ps).map fun p => { p with path := .idx i :: p.path }

def yNestConns : List Nat → List YConn → List YConn
  | [], cs => cs
  | d :: ds, cs =>
    (List.range d).flatMap fun i => (yNestConns ds cs).map fun c => { c with pid := .idx i :: c.pid, idx := .idx i :: c.idx }

def yLeafPorts (d : Dir) (T : PTy) : List YPort := (Flat.flatPorts T).map fun l => ⟨d, l.path.map tokSeg, l.msb - l.lsb⟩

/-- one port (or interface port): `port_gen`, `port_wire_gen`, `port_connection_gen` with the identifier `s.name` -/
def yOfSig (s : Sig) : YRec :=
  let pre := Seg.name s.name
  ⟨(yNestPorts s.dims (yLeafPorts s.dir s.ty)).map (fun p => { p with path := pre :: p.path }),
   (yWires s.ty s.dims).map (fun w => { w with path := pre :: w.path }),
   (yNestConns s.dims (yConns s.dir s.ty)).map (fun c => { c with pid := pre :: c.pid, wid := pre :: c.wid })⟩

/-- enclosing list of interfaces / sub-components called `name` with dimensions `dims` -/
def yWrap (name : String) (dims : List Nat) (inline : Bool) (r : YRec) : YRec :=
  let pre := Seg.name name
  let ixs := allIdx dims
  if inline then
    ⟨ixs.flatMap (fun ix => r.ports.map fun p => { p with path := pre :: ix.map Seg.idx ++ p.path }),
     ixs.flatMap (fun ix => r.wires.map fun w => { w with path := pre :: ix.map Seg.idx ++ w.path }),
     ixs.flatMap (fun ix => r.conns.map fun c =>
       { c with pid := pre :: ix.map Seg.idx ++ c.pid, wid := pre :: ix.map Seg.idx ++ c.wid })⟩
  else
    ⟨r.ports.flatMap (fun p => ixs.map fun ix => { p with path := pre :: ix.map Seg.idx ++ p.path }),
     r.wires.map (fun w => { w with path := pre :: w.path, dims := dims ++ w.dims }),
     r.conns.flatMap (fun c => ixs.map fun ix =>
       { c with pid := pre :: ix.map Seg.idx ++ c.pid, wid := pre :: c.wid, idx := ix.map Sel.idx ++ c.idx })⟩

def yOfMembers : Members → YRec
  | .nil => YRec.empty
  | .port n dims dir ty rest => yOfSig ⟨n, dims, dir, ty⟩ ++ yOfMembers rest
  | .ifc n dims sub rest => yWrap n dims true (yOfMembers sub) ++ yOfMembers rest

def yOfIfc (e : IfcE) : YRec := yWrap e.name e.dims false (yOfMembers e.ms)

def yConcat : List YRec → YRec
  | [] => YRec.empty
  | r :: rs => r ++ yConcat rs

/-- the child's flat ports / wire forms / connections seen from the parent, before the sub-component wrapper -/
def ySubInner (k : Sub) : YRec := yConcat (k.ports.map yOfSig) ++ yConcat (k.ifcs.map yOfIfc)

def yOfSub (k : Sub) : YRec := yWrap k.name k.dims false (ySubInner k)

/-- emission filters: a wire form is declared iff it has unpacked dimensions or is a struct's packed vector; a connection is
emitted iff it selects something of the wire form or is a slice of a packed vector -/
def yEmitWire (w : YWire) : Bool := !w.dims.isEmpty || w.present
def yEmitConn (c : YConn) : Bool := !c.idx.isEmpty || c.present

structure YModule where
  ports : List YPort           -- the flat ports of the module
  wires : List YWire           -- all declared wire forms (ports, interfaces, wires, sub-component ports)
  subPorts : List YPort        -- `logic c__i__j__id;` per port of every sub-component instance
  insts : List Inst
  portConns : List YConn       -- flat port ↔ wire form (ports and interfaces of the module)
  subConns : List YConn        -- the same for the ports of the sub-components (directions as seen from the child)
deriving Inhabited

def yInsts (k : Sub) : List Inst :=
  let inner := ySubInner k
  ((allIdx k.dims).zip k.mods).map fun p =>
    let pre := Seg.name k.name :: p.1.map Seg.idx
    ⟨pre, p.2, inner.ports.map fun q => ⟨flatId q.path, pre ++ q.path, []⟩⟩

def yModule (T : Table) : YModule :=
  let own := yConcat (T.ports.map yOfSig) ++ yConcat (T.ifcs.map yOfIfc)
  let subs := yConcat (T.subs.map yOfSub)
  ⟨own.ports,
   own.wires.filter yEmitWire ++ (T.wires.flatMap fun s => (yWires s.ty s.dims).map fun w => { w with path := .name s.name :: w.path })
     ++ subs.wires.filter yEmitWire,
   subs.ports, T.subs.flatMap yInsts, own.conns.filter yEmitConn, subs.conns.filter yEmitConn⟩

end PV.SDecl
