import PymtlVerif.Gen.ProcFLGen
import PymtlVerif.Gen.ProcCLGen
import PymtlVerif.Model.TinyRV0
/-!
# The environments in which the generated `ProcFL` / `ProcCL` blocks are read (property C20)

`Gen/ProcFLGen.lean` / `Gen/ProcCLGen.lean` (regenerated from ProcFL.py / ProcCL.py) reach everything outside the component
through a structure `Env W` of interface functions.  This file gives the two instances the theorems of `Props/C20fGen.lean`
and `Props/C20cGen.lean` are about — they are the ASSUMPTIONS of those theorems about the interfaces — and the iteration of
the blocks the native driver `pv_procfl` runs against the real processors:

* `flEnv : FL.Env World`      the five FL interfaces of ProcFL on one little-endian byte memory (`readN` / `writeN` = what
                              `MagicMemoryFL.read / write` do, see `Props/C20fGen.readN_c18`), the NullXcel register, the manager's
                              input stream (`mngr2proc()` blocks while it is empty) and output stream;
* `idealEnv : Env IW`         ProcCL's child queues as lists, its memory / accelerator / manager ports answered at once by the
                              same memory, register and streams.
Mathlib-free on purpose: linked into the native driver.
-/
namespace PV.ProcEnv
open PV.TinyRV0 PV.ProcFLGen

/-! ## ProcFL -/

/-- memory, the NullXcel register, the manager's input stream and everything sent to the manager so far -/
structure World where
  mem : Mem
  xr0 : Nat
  inp : List Nat
  out : List Nat

/-- the `n` bytes at `a`, little endian (what `MagicMemoryFL.read( a, n )` returns) -/
def readN (m : Mem) : Nat → Nat → Nat
  | _, 0 => 0
  | a, k+1 => m.get a + 256 * readN m (a+1) k

/-- the low `n` bytes of `d` stored at `a`, little endian (`MagicMemoryFL.write( a, n, d )`) -/
def writeN (m : Mem) : Nat → Nat → Nat → Mem
  | _, 0, _ => m
  | a, k+1, d => writeN (m.set a (d % 256)) (a+1) k (d / 256)

/-- THE ASSUMPTION about the five FL interfaces (see the header) -/
def flEnv : FL.Env World where
  imem_read w a n := readN w.mem a n
  dmem_read w a n := readN w.mem a n
  dmem_write w a n d := { w with mem := writeN w.mem a n d }
  proc2mngr_call w v := { w with out := w.out ++ [v] }
  mngr2proc_call w := match w.inp with | [] => none | v :: r => some (v, { w with inp := r })
  xcel_write w _ d := { w with xr0 := d }
  xcel_read w _ := (w.xr0, w)

/-- the ISA state a ProcFL state denotes (`commit_inst` and `raw_inst` are not architectural) -/
def toX (s : FL.St) (w : World) : StateX :=
  { core := { pc := s.PC, regs := s.R, mem := w.mem, inp := w.inp, out := w.out }, xr0 := w.xr0 }

/-- `n` executions of the block, stopping at the first that does not end normally -/
def flRun : Nat → FL.St → World → Option (FL.St × World)
  | 0, s, w => some (s, w)
  | n + 1, s, w =>
    match FL.up_ProcFL flEnv false s w with
    | .ok (s', w') => flRun n s' w'
    | _ => none


/-! ## ProcCL -/

section cl
open PV.ProcCLGen

/-- the ideal world: the child queues as lists (oldest first), and behind the interfaces the ISA's memory, NullXcel register
and manager streams, answering every request at once -/
structure IW where
  fdq : List Nat                              -- F_DXM_queue (capacity 1)
  irq : List MemRespMsg                       -- imemresp_q
  dwq : List (Option (Nat × Nat × Nat))       -- DXM_W_queue (capacity 1)
  drq : List MemRespMsg                       -- dmemresp_q
  xrq : List XcelRespMsg                      -- xcelresp_q
  mq : List Nat                               -- mngr2proc_q: what the manager's source has delivered
  mem : Mem
  xr0 : Nat
  out : List Nat

def memResp (t d : Nat) : MemRespMsg := { type_ := t, opaque_ := 0, test := 0, len := 0, data := d }

def idealEnv : Env IW where
  imem_req_rdy _ := true
  F_DXM_queue_enq_rdy w := decide (w.fdq.length < 1)
  imem_req w m := { w with irq := w.irq ++ [memResp 0 (loadWord w.mem m.addr)] }
  F_DXM_queue_enq w x := { w with fdq := w.fdq ++ [x] }
  F_DXM_queue_deq_rdy w := !w.fdq.isEmpty
  imemresp_q_deq_rdy w := !w.irq.isEmpty
  DXM_W_queue_enq_rdy w := decide (w.dwq.length < 1)
  F_DXM_queue_peek w := w.fdq.headD 0
  imemresp_q_peek w := w.irq.headD default
  DXM_W_queue_enq w e := { w with dwq := w.dwq ++ [e] }
  dmem_req_rdy _ := true
  dmem_req w m :=
    if m.type_ = 0 then { w with drq := w.drq ++ [memResp 0 (loadWord w.mem m.addr)] }
    else { w with mem := storeWord w.mem m.addr m.data, drq := w.drq ++ [memResp 1 0] }
  xcel_req_rdy _ := true
  xcel_req w m :=
    if m.type_ = 0 then { w with xrq := w.xrq ++ [{ type_ := 0, data := w.xr0 }] }
    else { w with xr0 := m.data, xrq := w.xrq ++ [{ type_ := 1, data := 0 }] }
  mngr2proc_q_deq_rdy w := !w.mq.isEmpty
  mngr2proc_q_deq w := (w.mq.headD 0, { w with mq := w.mq.tail })
  F_DXM_queue_deq w := (w.fdq.headD 0, { w with fdq := w.fdq.tail })
  imemresp_q_deq w := (w.irq.headD default, { w with irq := w.irq.tail })
  DXM_W_queue_deq_rdy w := !w.dwq.isEmpty
  DXM_W_queue_peek w := w.dwq.headD none
  dmemresp_q_deq_rdy w := !w.drq.isEmpty
  dmemresp_q_deq w := (w.drq.headD default, { w with drq := w.drq.tail })
  DXM_W_queue_deq w := (w.dwq.headD none, { w with dwq := w.dwq.tail })
  xcelresp_q_deq_rdy w := !w.xrq.isEmpty
  xcelresp_q_deq w := (w.xrq.headD default, { w with xrq := w.xrq.tail })
  proc2mngr_rdy _ := true
  proc2mngr_call w x := { w with out := w.out ++ [x] }

def andThen (r : Res (St × IW)) (f : St → IW → Res (St × IW)) : Res (St × IW) :=
  match r with
  | .ok (s, w) => f s w
  | .raised e => .raised e
  | .blocked => .blocked

/-- execute the waiting instruction (DXM), write it back (W), fetch the next one (F) -/
def round (s : St) (w : IW) : Res (St × IW) :=
  andThen (andThen (DXM idealEnv false s w) (W idealEnv false)) (F idealEnv false)

def rounds : Nat → St → IW → Option (St × IW)
  | 0, s, w => some (s, w)
  | n + 1, s, w =>
    match round s w with
    | .ok (s', w') => rounds n s' w'
    | _ => none


end cl

end PV.ProcEnv
