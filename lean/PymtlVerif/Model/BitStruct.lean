import PymtlVerif.Model.Bits
/-
Model of `pymtl3/datatypes/bitstructs.py` — the methods `@bitstruct` / `mk_bitstruct` generate:
`nbits`, `to_bits`, `from_bits`, `__eq__`, `__hash__`, `clone`, `__deepcopy__`, `__imatmul__`,
`__ilshift__`, `_flip`.

Types and values are *plain* inductives (no nested `List`), so ordinary structural induction works:
a struct is a right-nested `pair` chain ending in `unit` (first field = outermost `fst`), a list
field `[T]*k` is `arr k T` (multi-dimensional lists nest `arr`), a list value is an `acons` chain
(`head` = element 0) ending in `anil`.

Two faces of packing are defined:
* code-shaped (what the string templates compute):
  `concatArgs`/`toBitsPy`  — `_mk_nbits_to_bits_fn._gen_to_bits_strs`: the flat argument list of the
                              generated `concat(...)` (fields in declaration order, list indices
                              reversed), fed to the `concat` of `Model/Bits.lean` (helpers.py);
  `nbitsPy`                — the `start_bit` fold of the same function;
  `fromBitsAt`/`fromBitsPy`— `_mk_from_bits_fns._gen_from_bits_strs`: slices `other[start:end]`
                              counted down from `total_nbits`, list elements collected and reversed;
* specification-shaped (`toBits`, `fromBits`, `Ty.width`): plain structural recursion.
`Proofs/BitStruct.lean` proves the two faces equal; `Props/C06.lean` states the property on the
code-shaped face.

Copy semantics use a small heap: every leaf `Bits` object is a cell `Reg` (`cur` = `_nbits,_uint`,
`next` = `_next` or unset) of `Model/Bits.lean`; an instance is a tree of cell ids (`Inst`).
The generated methods never rebind an attribute or a list slot, they only mutate leaf `Bits`
objects in place, so the identity of struct / list containers is not part of the model.

Mathlib-free on purpose: this file is linked into the native driver `pv_bstruct`.
-/
namespace PV.BitStruct
open PV.Bits (B Reg)

/-! ### types and values -/

inductive Ty where
  | bits (n : Nat)
  | unit
  | pair (fst rest : Ty)        -- struct = right-nested pairs ending in unit; first field first
  | arr (len : Nat) (elem : Ty) -- `[elem]*len`
deriving Repr, DecidableEq, Inhabited

inductive Val where
  | bits (n v : Nat)
  | unit
  | pair (fst rest : Val)
  | anil
  | acons (head tail : Val)     -- head = element 0
deriving Repr, DecidableEq, Inhabited

/-- `xs` repeated `k` times -/
def rep {α} : Nat → List α → List α
  | 0, _ => []
  | k+1, xs => xs ++ rep k xs

/-- specification width: sum over the structure -/
def Ty.width : Ty → Nat
  | .bits n => n
  | .unit => 0
  | .pair a b => a.width + b.width
  | .arr k t => k * t.width

/-- leaf widths in canonical order (fields in declaration order, list elements in index order) -/
def Ty.leaves : Ty → List Nat
  | .bits n => [n]
  | .unit => []
  | .pair a b => a.leaves ++ b.leaves
  | .arr k t => rep k t.leaves

/-- `cls.nbits` as `_mk_nbits_to_bits_fn` computes it: thread `start_bit` through the traversal
(for a list: `len` times through the element type) -/
def iterN {α} (f : α → α) : Nat → α → α
  | 0, x => x
  | k+1, x => iterN f k (f x)

def nbitsFrom : Ty → Nat → Nat
  | .bits n, s => s + n
  | .unit, s => s
  | .pair a b, s => nbitsFrom b (nbitsFrom a s)
  | .arr k t, s => iterN (nbitsFrom t) k s

def nbitsPy (T : Ty) : Nat := nbitsFrom T 0

/-- typing: the values an instance of the class can hold (every leaf a valid `Bits`) -/
inductive HasTy : Val → Ty → Prop
  | bits (n v) (h : v < 2 ^ n) : HasTy (.bits n v) (.bits n)
  | unit : HasTy .unit .unit
  | pair {a b A B} : HasTy a A → HasTy b B → HasTy (.pair a b) (.pair A B)
  | anil {T} : HasTy .anil (.arr 0 T)
  | acons {x xs k T} : HasTy x T → HasTy xs (.arr k T) → HasTy (.acons x xs) (.arr (k+1) T)

/-- executable typing test (used by the driver to reject malformed requests) -/
def hasTy : Val → Ty → Bool
  | .bits n v, .bits m => n == m && decide (v < 2 ^ n)
  | .unit, .unit => true
  | .pair a b, .pair A B => hasTy a A && hasTy b B
  | .anil, .arr 0 _ => true
  | .acons x xs, .arr (k+1) T => hasTy x T && hasTy xs (.arr k T)
  | _, _ => false

/-- leaf `(nbits, uint)` pairs in canonical order -/
def leafVals : Val → List (Nat × Nat)
  | .bits n v => [(n, v)]
  | .unit => []
  | .pair a b => leafVals a ++ leafVals b
  | .anil => []
  | .acons x xs => leafVals x ++ leafVals xs

/-! ### to_bits -/

/-- specification packing: (width, value); first field most significant, element 0 least -/
def toBits : Val → Nat × Nat
  | .bits n v => (n, v)
  | .unit => (0, 0)
  | .pair a b => ((toBits a).1 + (toBits b).1, (toBits a).2 * 2 ^ (toBits b).1 + (toBits b).2)
  | .anil => (0, 0)
  | .acons x xs => ((toBits xs).1 + (toBits x).1, (toBits xs).2 * 2 ^ (toBits x).1 + (toBits x).2)

/-- the argument list of the generated `concat(...)`: `_gen_to_bits_strs` walks the fields in
declaration order and a list with `reversed(range(len))` -/
def concatArgs : Val → List B
  | .bits n v => [⟨n, v⟩]
  | .unit => []
  | .pair a b => concatArgs a ++ concatArgs b
  | .anil => []
  | .acons x xs => concatArgs xs ++ concatArgs x

/-- `self.to_bits()` : `concat(<leaves>)` of helpers.py (a `Bits(nbits, value)` construction, hence a
ValueError for a total width outside 1..1023) -/
def toBitsPy (v : Val) : PV.Bits.R := PV.Bits.concat (concatArgs v)

/-! ### from_bits -/

/-- `other[lo : lo+w]` on a valid slice, as `Bits.__getitem__` computes it -/
def slice (b lo w : Nat) : Nat := (b >>> lo) % 2 ^ w

/-- unpack `k` consecutive elements, element 0 from the least significant end (specification) -/
def unrollArr (f : Nat → Val) (w : Nat) : Nat → Nat → Val
  | 0, _ => .anil
  | k+1, b => .acons (f (b % 2 ^ w)) (unrollArr f w k (b / 2 ^ w))

/-- specification unpacking -/
def fromBits : Ty → Nat → Val
  | .bits n, b => .bits n (b % 2 ^ n)
  | .unit, _ => .unit
  | .pair A B, b => .pair (fromBits A (b / 2 ^ B.width)) (fromBits B (b % 2 ^ B.width))
  | .arr k T, b => unrollArr (fromBits T) T.width k b

/-- the `for i in range(len)` loop of `_gen_from_bits_strs` on a list: each round takes the next
slice below `end_bit`; `[...reversed(from_strs)...]` puts the element taken first at the end, which
is what consing onto the accumulator does -/
def iterArr (f : Nat → Val × Nat) : Nat → Nat → Val → Val × Nat
  | 0, e, acc => (acc, e)
  | k+1, e, acc => iterArr f k (f e).2 (.acons (f e).1 acc)

/-- `_gen_from_bits_strs(type_, end_bit)` evaluated on the packed value `b`:
returns the unpacked value and the new `end_bit` -/
def fromBitsAt : Ty → Nat → Nat → Val × Nat
  | .bits n, e, b => (.bits n (slice b (e - n) n), e - n)
  | .unit, e, _ => (.unit, e)
  | .pair A B, e, b =>
      let r1 := fromBitsAt A e b
      let r2 := fromBitsAt B r1.2 b
      (.pair r1.1 r2.1, r2.2)
  | .arr k T, e, b => iterArr (fun e' => fromBitsAt T e' b) k e .anil

/-- exceptions of the struct-level methods -/
inductive Err where
  | bits (e : PV.Bits.Err)   -- raised by a `Bits` operation on a leaf / by `concat`
  | assert                   -- `assert cls.nbits == other.nbits` of `from_bits`
  | attr                     -- AttributeError: `_flip` of a leaf whose `_next` was never written
  | shape                    -- operand is not an instance of a class of this shape (not reachable for typed instances)
deriving DecidableEq, Repr, Inhabited

def Err.pyClass : Err → String
  | .bits e => e.pyClass
  | .assert => "AssertionError"
  | .attr => "AttributeError"
  | .shape => "AttributeError"

/-- `cls.from_bits(other)` for a `Bits` (or packed bitstruct) `other` -/
def fromBitsPy (T : Ty) (other : B) : Except Err Val :=
  if nbitsPy T ≠ other.n then .error .assert
  else .ok (fromBitsAt T (nbitsPy T) other.v).1

/-! ### layout: explicit offsets (reused by C12 / C16) -/

def fieldTy : Ty → Nat → Option Ty
  | .pair A _, 0 => some A
  | .pair _ B, i+1 => fieldTy B i
  | _, _ => none

def fieldVal : Val → Nat → Option Val
  | .pair a _, 0 => some a
  | .pair _ b, i+1 => fieldVal b i
  | _, _ => none

/-- bit offset of field `i` of a struct: the total width of the fields declared after it -/
def fieldOff : Ty → Nat → Nat
  | .pair _ B, 0 => B.width
  | .pair _ B, i+1 => fieldOff B i
  | _, _ => 0

/-- the field types of a struct, in declaration order -/
def fieldTys : Ty → List Ty
  | .pair A B => A :: fieldTys B
  | _ => []

/-- a struct proper: a `pair` chain that ends in `unit` -/
def Ty.IsRec : Ty → Prop
  | .unit => True
  | .pair _ B => B.IsRec
  | _ => False

def elemVal : Val → Nat → Option Val
  | .acons x _, 0 => some x
  | .acons _ xs, k+1 => elemVal xs k
  | _, _ => none

/-- offsets (from bit 0 of the enclosing value) and widths of all leaves, canonical order;
`o` = offset of the least significant bit of this sub-value -/
def repOffs (f : Nat → List (Nat × Nat)) (w : Nat) : Nat → Nat → List (Nat × Nat)
  | 0, _ => []
  | k+1, o => f o ++ repOffs f w k (o + w)

def leafOffs : Ty → Nat → List (Nat × Nat)
  | .bits n, o => [(o, n)]
  | .unit, _ => []
  | .pair A B, o => leafOffs A (o + B.width) ++ leafOffs B o
  | .arr k T, o => repOffs (leafOffs T) T.width k o

/-! ### `__eq__` and `__hash__` -/

/-- `(self.f1, self.f2, ...) == (other.f1, other.f2, ...)` for two instances of the same class:
tuples / lists compare element-wise, `Bits == Bits` compares the stored values, a nested struct
recurses -/
def eqPy : Val → Val → Bool
  | .bits n v, .bits m w => n == m && v == w
  | .unit, .unit => true
  | .pair a b, .pair c d => eqPy a c && eqPy b d
  | .anil, .anil => true
  | .acons x xs, .acons y ys => eqPy x y && eqPy xs ys
  | _, _ => false

/-- `self == other` : `(other.__class__ is self.__class__) and <tuples equal>` -/
def eqCls (sameClass : Bool) (v w : Val) : Bool := sameClass && eqPy v w

/-- `hash(self)` = `hash((f1, (l[0], l[1],), ...))`, parametric in the two Python functions it is built
from: `hb n v` = `hash(Bits)` = `hash((nbits, uint))`, `ht` = hash of a tuple from its element hashes
(a nested struct contributes its own `hash`, i.e. `ht` of its fields; a list field a nested tuple).
`α` is the type of hash values (the driver instantiates it with a printable key). -/
def hashV {α : Type} (hb : Nat → Nat → α) (ht : List α → α) : Val → α
  | .bits n v => hb n v
  | .unit => ht []
  | .anil => ht []
  | .pair a b => ht (hashV hb ht a :: hashRest hb ht b)
  | .acons x xs => ht (hashV hb ht x :: hashRest hb ht xs)
where
  hashRest {α : Type} (hb : Nat → Nat → α) (ht : List α → α) : Val → List α
  | .pair a b => hashV hb ht a :: hashRest hb ht b
  | .acons x xs => hashV hb ht x :: hashRest hb ht xs
  | _ => []

/-! ### heap of leaf cells -/

structure Heap where
  cell : Nat → Reg
  size : Nat

instance : Inhabited Reg := ⟨⟨⟨0, 0⟩, none⟩⟩

def Heap.empty : Heap := ⟨fun _ => default, 0⟩

def Heap.upd (h : Heap) (c : Nat) (r : Reg) : Heap :=
  { h with cell := fun i => if i = c then r else h.cell i }

/-- a new `Bits` object: the next unused id -/
def Heap.alloc (h : Heap) (r : Reg) : Heap × Nat :=
  ({ cell := fun i => if i = h.size then r else h.cell i, size := h.size + 1 }, h.size)

/-- an instance: the tree of its leaf `Bits` objects -/
inductive Inst where
  | leaf (c : Nat)
  | unit
  | pair (fst rest : Inst)
  | anil
  | acons (head tail : Inst)
deriving Repr, DecidableEq, Inhabited

def cells : Inst → List Nat
  | .leaf c => [c]
  | .unit => []
  | .pair a b => cells a ++ cells b
  | .anil => []
  | .acons x xs => cells x ++ cells xs

/-- the visible value: what reading the fields gives -/
def read (h : Heap) : Inst → Val
  | .leaf c => .bits (h.cell c).cur.n (h.cell c).cur.v
  | .unit => .unit
  | .pair a b => .pair (read h a) (read h b)
  | .anil => .anil
  | .acons x xs => .acons (read h x) (read h xs)

/-- the value `_flip` would make visible (`none`: some leaf has no `_next`) -/
def readNext (h : Heap) : Inst → Option Val
  | .leaf c => (h.cell c).next.map (fun w => .bits (h.cell c).cur.n w)
  | .unit => some .unit
  | .pair a b => do some (.pair (← readNext h a) (← readNext h b))
  | .anil => some .anil
  | .acons x xs => do some (.acons (← readNext h x) (← readNext h xs))

/-- constructing an instance holding `v` (the `cls(...)` calls of `from_bits`, or building it field by
field): every leaf is a new `Bits` object without `_next` -/
def build (h : Heap) : Val → Heap × Inst
  | .bits n v => let r := h.alloc ⟨⟨n, v⟩, none⟩; (r.1, .leaf r.2)
  | .unit => (h, .unit)
  | .pair a b =>
      let r1 := build h a
      let r2 := build r1.1 b
      (r2.1, .pair r1.2 r2.2)
  | .anil => (h, .anil)
  | .acons x xs =>
      let r1 := build h x
      let r2 := build r1.1 xs
      (r2.1, .acons r1.2 r2.2)

/-- `self.clone()` / `self.__deepcopy__(memo)` (the two templates are identical): every leaf is
`.clone()`d (`_new_valid_bits(nbits, uint)`: `_next` is not copied), containers are rebuilt -/
def clone (h : Heap) : Inst → Heap × Inst
  | .leaf c => let r := h.alloc ⟨(h.cell c).cur, none⟩; (r.1, .leaf r.2)
  | .unit => (h, .unit)
  | .pair a b =>
      let r1 := clone h a
      let r2 := clone r1.1 b
      (r2.1, .pair r1.2 r2.2)
  | .anil => (h, .anil)
  | .acons x xs =>
      let r1 := clone h x
      let r2 := clone r1.1 xs
      (r2.1, .acons r1.2 r2.2)

/-- leaf `d @= s` : `Bits.__imatmul__` with a `Bits` operand -/
def leafAssign (h : Heap) (d s : Nat) : Except Err Heap :=
  match PV.Bits.imatmul (h.cell d).cur (.bits (h.cell s).cur) with
  | .ok b => .ok (h.upd d { (h.cell d) with cur := b })
  | .error e => .error (.bits e)

/-- leaf `d <<= s` : `Bits.__ilshift__` -/
def leafNb (h : Heap) (d s : Nat) : Except Err Heap :=
  match PV.Bits.ilshift (h.cell d) (.bits (h.cell s).cur) with
  | .ok r => .ok (h.upd d r)
  | .error e => .error (.bits e)

/-- leaf `d._flip()` -/
def leafFlip (h : Heap) (d : Nat) : Except Err Heap :=
  match PV.Bits.flip (h.cell d) with
  | some r => .ok (h.upd d r)
  | none => .error .attr

/-- the statement list `self.f @= other.f` … of `__imatmul__` / `self.f <<= other.f` … of
`__ilshift__` for two instances of the same class, executed in order (`op` = the leaf statement) -/
def zipWithM (op : Heap → Nat → Nat → Except Err Heap) : Heap → Inst → Inst → Except Err Heap
  | h, .leaf d, .leaf s => op h d s
  | h, .unit, .unit => .ok h
  | h, .pair a b, .pair c d =>
      match zipWithM op h a c with
      | .ok h1 => zipWithM op h1 b d
      | .error e => .error e
  | h, .anil, .anil => .ok h
  | h, .acons x xs, .acons y ys =>
      match zipWithM op h x y with
      | .ok h1 => zipWithM op h1 xs ys
      | .error e => .error e
  | _, _, _ => .error .shape

def imatmulSame (h : Heap) (dst src : Inst) : Except Err Heap := zipWithM leafAssign h dst src
def ilshiftSame (h : Heap) (dst src : Inst) : Except Err Heap := zipWithM leafNb h dst src

/-- `self._flip()` : every leaf in order -/
def flip : Heap → Inst → Except Err Heap
  | h, .leaf d => leafFlip h d
  | h, .unit => .ok h
  | h, .pair a b =>
      match flip h a with
      | .ok h1 => flip h1 b
      | .error e => .error e
  | h, .anil => .ok h
  | h, .acons x xs =>
      match flip h x with
      | .ok h1 => flip h1 xs
      | .error e => .error e

/-- `other = self.__class__.from_bits(other.to_bits())` : a temporary instance of `self`'s class -/
def convert (T : Ty) (h : Heap) (src : Inst) : Except Err (Heap × Inst) :=
  match toBitsPy (read h src) with
  | .error e => .error (.bits e)
  | .ok b =>
    match fromBitsPy T b with
    | .error e => .error e
    | .ok v => .ok (build h v)

/-- `dst @= src` where `dst` is an instance of a class of shape `T`;
`sameClass` = `self.__class__ is other.__class__` -/
def imatmul (T : Ty) (sameClass : Bool) (h : Heap) (dst src : Inst) : Except Err Heap :=
  if sameClass then imatmulSame h dst src else
  match convert T h src with
  | .ok (h1, tmp) => imatmulSame h1 dst tmp
  | .error e => .error e

/-- `dst <<= src` -/
def ilshift (T : Ty) (sameClass : Bool) (h : Heap) (dst src : Inst) : Except Err Heap :=
  if sameClass then ilshiftSame h dst src else
  match convert T h src with
  | .ok (h1, tmp) => ilshiftSame h1 dst tmp
  | .error e => .error e

/-- k-th leaf object of an instance (canonical order) -/
def leafId (i : Inst) (k : Nat) : Option Nat := (cells i)[k]?

end PV.BitStruct
