import PymtlVerif.Model.Nets
/-!
# Model of `GenDAGPass._process_value_constraints` (C02, first clause)

Written from `pymtl3/passes/sim/GenDAGPass.py` (lines 199–337) as it is, on the hierarchical object
model of `Model/Nets.lean` (`Obj` = top-level signal id / field path / optional final slice).

* input: for every block (update blocks, update_ff blocks and the generated net blocks of
  `_generate_net_blocks`) the objects the DSL recorded as read and as written
  (`all_upblk_reads/writes` after `ComponentLevel2._elaborate_read_write_func`, `genblk_reads/writes`),
  the explicit `U(a) < U(b)` pairs, and the `RD(x) </> U` / `WR(x) </> U` entries
  (`get_all_explicit_constraints`);
* `read_upblks` / `write_upblks` (dict object → set of blocks): `readBlks` / `writeBlks`, the key
  tests `x in read_upblks` / `x in write_upblks`: membership in `readObjs` / `writtenObjs`.
  (`equal_blks[obj]` of the explicit part may create keys with an empty block set in these
  defaultdicts; such a key passes `x in write_upblks` but contributes no block, hence no pair.)
* explicit part (`for typ in ['rd','wr']`): `expand` — every block that reads (writes) *exactly* the
  object of a `RD(x) < U` (`WR(x) < U`) entry, other than `U`, is put before `U` (after it for `>`);
  the pairs are added to `U_U` itself;
* implicit part, reader side (`for obj, rd_blks in read_upblks.items()`): `x = obj; while
  x.is_signal(): …; x = x.get_parent_object()` is `ancestors` (`chain` with `parent`), then
  `obj.get_sibling_slices()` filtered by `x.slice_overlap(obj) and x in write_upblks` is `sibWriters`
  (the other slice objects of the same parent object; `parent._dsl.slices` holds every slice ever
  made of the parent — `Signal.__getitem__` registers each — so the filtered result is the set of
  *written* sibling slices that overlap, whatever the iteration order);
  writer side (`for obj, wr_blks in write_upblks.items()`): the parent chain only;
  `wr_blk not in update_ff`, `wr_blk != rd_blk`;
* result: `all_constraints = {*U_U}` (with the expanded pairs) plus every implicit `(x, y)` with
  `(y, x) not in U_U` — `valueConstraints`; `constraint_objs` — `constraintObjs` (entries of implicit
  pairs stay even when the pair is dropped).

A non-signal object among the reads (a component or interface named in a block) is presented as an
object of kind `const` (its own `sid`): `is_signal()` is false for it, both walks skip it.

Blocks are identified by numbers (`wr_blk != rd_blk` is identity of the block functions): the driver
requires distinct ids. Mathlib-free: linked into `pv_gendag`.
-/
namespace PV.GenDag
open PV.Nets

structure Blk where
  id : Nat
  /-- `blk in update_ff` -/
  ff : Bool
  reads : List Obj
  writes : List Obj
deriving Repr

/-- one entry `(sign, blk)` of `RD_U[obj]` / `WR_U[obj]`: `lt` = `sign == 1` = `RD(obj) < U(blk)` -/
structure VC where
  obj : Obj
  lt : Bool
  blk : Nat
deriving Repr

structure Input where
  blks : List Blk
  uu : List (Nat × Nat)
  rdU : List VC
  wrU : List VC
deriving Repr

/-- `read_upblks[o]` -/
def readBlks (I : Input) (o : Obj) : List Blk := I.blks.filter (fun b => decide (o ∈ b.reads))
/-- `write_upblks[o]` -/
def writeBlks (I : Input) (o : Obj) : List Blk := I.blks.filter (fun b => decide (o ∈ b.writes))
/-- keys of `read_upblks` (with repetitions) -/
def readObjs (I : Input) : List Obj := I.blks.flatMap (·.reads)
/-- keys of `write_upblks` (with repetitions) -/
def writtenObjs (I : Input) : List Obj := I.blks.flatMap (·.writes)

/-! ## explicit part -/

/-- a pair of blocks with the object recorded for it in `constraint_objs` -/
abbrev Tagged := (Nat × Nat) × Obj

def expand (blksOf : Obj → List Blk) (cs : List VC) : List Tagged :=
  cs.flatMap (fun c =>
    ((blksOf c.obj).filter (fun b => c.blk != b.id)).map (fun b =>
      (if c.lt then (b.id, c.blk) else (c.blk, b.id), c.obj)))

def explicitTagged (I : Input) : List Tagged := expand (readBlks I) I.rdU ++ expand (writeBlks I) I.wrU

/-- `U_U` after the loop over `RD_U` and `WR_U` -/
def explicitPairs (I : Input) : List (Nat × Nat) := I.uu ++ (explicitTagged I).map (·.1)

/-! ## implicit part -/

/-- `x.is_signal()` -/
def isSig (o : Obj) : Bool := o.kind != .const

/-- `x.get_parent_object()` as long as it is a signal: a slice's parent is the sliced signal, a
field's parent the struct signal one level up; `none` = a component / interface -/
def parent (o : Obj) : Option Obj :=
  match o.slice with
  | some _ => some { o with slice := none }
  | none => if o.fields.isEmpty then none else some { o with fields := o.fields.dropLast }

/-- `x = obj; while x.is_signal(): yield x; x = x.get_parent_object()` -/
def chain : Nat → Obj → List Obj
  | 0, _ => []
  | f+1, x => if isSig x then x :: (match parent x with
      | none => []
      | some p => chain f p) else []

def ancestors (o : Obj) : List Obj := chain (o.fields.length + 2) o

/-- `x in obj.get_sibling_slices()`: `obj` is a slice, `x` another slice of the same parent object -/
def sibling (o x : Obj) : Bool :=
  o.slice.isSome && x.slice.isSome && x != o && parent x == parent o

/-- `x.slice_overlap(obj)` = `_overlap(x._dsl.slice, obj._dsl.slice)` -/
def sliceOverlap (x o : Obj) : Bool :=
  match x.slice, o.slice with
  | some a, some b => overlap a b
  | _, _ => false

/-- the written overlapping sibling slices of a read object -/
def sibWriters (I : Input) (r : Obj) : List Obj :=
  if isSig r then (writtenObjs I).filter (fun x => sibling r x && sliceOverlap x r) else []

/-- `writers` of the reader-side walk -/
def foundWriters (I : Input) (r : Obj) : List Obj :=
  (ancestors r).filter (fun x => decide (x ∈ writtenObjs I)) ++ sibWriters I r

/-- `readers` of the writer-side walk -/
def foundReaders (I : Input) (w : Obj) : List Obj :=
  (ancestors w).filter (fun x => decide (x ∈ readObjs I))

def readerSide (I : Input) : List Tagged :=
  (readObjs I).flatMap (fun r =>
    (foundWriters I r).flatMap (fun w =>
      ((writeBlks I w).filter (fun wb => !wb.ff)).flatMap (fun wb =>
        ((readBlks I r).filter (fun rb => wb.id != rb.id)).map (fun rb => ((wb.id, rb.id), r)))))

def writerSide (I : Input) : List Tagged :=
  (writtenObjs I).flatMap (fun w =>
    ((writeBlks I w).filter (fun wb => !wb.ff)).flatMap (fun wb =>
      (foundReaders I w).flatMap (fun r =>
        ((readBlks I r).filter (fun rb => wb.id != rb.id)).map (fun rb => ((wb.id, rb.id), w)))))

def implicitTagged (I : Input) : List Tagged := readerSide I ++ writerSide I

/-- `impl_constraints` -/
def implicitPairs (I : Input) : List (Nat × Nat) := (implicitTagged I).map (·.1)

/-- `top._dag.all_constraints` before `_process_methods` -/
def valueConstraints (I : Input) : List (Nat × Nat) :=
  explicitPairs I ++ (implicitPairs I).filter (fun p => !(explicitPairs I).contains (p.2, p.1))

/-- `top._dag.constraint_objs` as a list of (pair, object) -/
def constraintObjs (I : Input) : List Tagged := explicitTagged I ++ implicitTagged I

/-! ## what the driver checks before it answers -/

def Input.objs (I : Input) : List Obj :=
  readObjs I ++ writtenObjs I ++ I.rdU.map (·.obj) ++ I.wrU.map (·.obj)

/-- block ids pairwise different; kind and host are attributes of the top-level signal; slices of
signals are non-empty ranges (`Signal.__getitem__` asserts it) -/
def Input.wf (I : Input) : Bool :=
  decide ((I.blks.map (·.id)).Nodup) &&
  I.objs.all (fun a => I.objs.all (fun b => a.sid != b.sid || (a.kind == b.kind && a.host == b.host))) &&
  I.objs.all (fun o => match o.slice with
    | some s => !isSig o || decide (s.1 < s.2)
    | none => true)

/-! ## schedules -/

def posOf (o : List Nat) (x : Nat) : Nat := o.findIdx (· == x)

/-- every pair of `E` points forward in the order `o` (a list of block ids) -/
def topoFor (E : List (Nat × Nat)) (o : List Nat) : Bool := E.all (fun e => decide (posOf o e.1 < posOf o e.2))

end PV.GenDag
