import Std.Data.HashMap
/-
The TinyRV0 ISA as an executable interpreter, written from the ISA DOCUMENT
`/repo/examples/ex03_proc/tinyrv0-isa.md` (sections "Architectural State", "Instruction and
Immediate Encoding", "Instruction Details", "Privileged ISA") — NOT from `ProcFL.py`.

* `Inst`, `encode`, `decode`      : the ten instructions (CSRR, CSRW, ADD, AND, SLL, SRL, ADDI, LW, SW, BNE)
                                     and the R/I/S encodings with the I/S/B immediates of the document
                                     (field layout cross-checked against `tinyrv0_encoding.py` by the
                                     correspondence check, not copied from it).
* `State`, `exec`, `step`, `run`  : architectural state = PC (reset vector 0x200), 32 registers with
                                     x0 hard-wired to 0, little-endian byte memory, the `mngr2proc`
                                     FIFO (input stream) and the `proc2mngr` FIFO (output list).

Everything the document leaves undefined (unaligned or > 1MB effective addresses, CSRs other than
`mngr2proc` read / `proc2mngr` write) stops the interpreter with `Stop.undefined`; a word that is
not in the encoding table stops it with `Stop.illegal`; `csrr mngr2proc` on an empty FIFO ("will
stall") stops it with `Stop.inputEmpty`.  The accelerator CSRs (xcelregXX) are added by the conservative extension
`StateX` / `execX` / `stepX` / `runX` at the end of the file (the tutorial's NullXcel: one register behind all 32 numbers).

CSRR / CSRW are the pseudo-instructions `csrrs rd, csr, x0` / `csrrw x0, csr, rs1` of the document:
the unused register field is 0 in `encode` and is required to be 0 by `decode`.

Immediates are kept in `Inst` as the raw unsigned field (12 bits for I/S, 13 bits with bit 0 = 0
for B); `sext12` / `sext13` give their sign-extended 32-bit value.

Mathlib-free on purpose: this file is linked into the native driver `pv_rv`.
-/
namespace PV.TinyRV0

/-- 2^32 -/
def W32 : Nat := 4294967296

inductive Inst where
  | csrr (rd csr : Nat)
  | csrw (csr rs1 : Nat)
  | add  (rd rs1 rs2 : Nat)
  | and  (rd rs1 rs2 : Nat)
  | sll  (rd rs1 rs2 : Nat)
  | srl  (rd rs1 rs2 : Nat)
  | addi (rd rs1 imm : Nat)
  | lw   (rd rs1 imm : Nat)
  | sw   (rs2 rs1 imm : Nat)
  | bne  (rs1 rs2 imm : Nat)
deriving DecidableEq, Repr, Inhabited

/-- every field fits its slot of the encoding (register specifiers 5 bits, I/S immediates and CSR
numbers 12 bits, B immediates 13 bits and even) -/
def Inst.Wf : Inst → Prop
  | .csrr rd csr => rd < 32 ∧ csr < 4096
  | .csrw csr rs1 => csr < 4096 ∧ rs1 < 32
  | .add rd rs1 rs2 => rd < 32 ∧ rs1 < 32 ∧ rs2 < 32
  | .and rd rs1 rs2 => rd < 32 ∧ rs1 < 32 ∧ rs2 < 32
  | .sll rd rs1 rs2 => rd < 32 ∧ rs1 < 32 ∧ rs2 < 32
  | .srl rd rs1 rs2 => rd < 32 ∧ rs1 < 32 ∧ rs2 < 32
  | .addi rd rs1 imm => rd < 32 ∧ rs1 < 32 ∧ imm < 4096
  | .lw rd rs1 imm => rd < 32 ∧ rs1 < 32 ∧ imm < 4096
  | .sw rs2 rs1 imm => rs2 < 32 ∧ rs1 < 32 ∧ imm < 4096
  | .bne rs1 rs2 imm => rs1 < 32 ∧ rs2 < 32 ∧ imm < 8192 ∧ imm % 2 = 0

instance (i : Inst) : Decidable i.Wf := by
  cases i <;> unfold Inst.Wf <;> infer_instance

/-! ### encoding (document: "R-type", "I-type", "S-type", "I/S/B-immediate") -/

/-- `| funct7 | rs2 | rs1 | funct3 | rd | opcode |` with field widths 7,5,5,3,5,7 -/
def encR (f7 rs2 rs1 f3 rd opc : Nat) : Nat :=
  f7 * 2^25 + rs2 * 2^20 + rs1 * 2^15 + f3 * 2^12 + rd * 2^7 + opc

/-- `| imm[11:0] | rs1 | funct3 | rd | opcode |` -/
def encI (imm rs1 f3 rd opc : Nat) : Nat :=
  imm * 2^20 + rs1 * 2^15 + f3 * 2^12 + rd * 2^7 + opc

/-- `| imm[11:5] | rs2 | rs1 | funct3 | imm[4:0] | opcode |` -/
def encS (imm rs2 rs1 f3 opc : Nat) : Nat :=
  (imm / 32) * 2^25 + rs2 * 2^20 + rs1 * 2^15 + f3 * 2^12 + (imm % 32) * 2^7 + opc

/-- `| imm[12] imm[10:5] | rs2 | rs1 | funct3 | imm[4:1] imm[11] | opcode |` -/
def encB (imm rs2 rs1 f3 opc : Nat) : Nat :=
  (imm / 4096) * 2^31 + (imm / 32 % 64) * 2^25 + rs2 * 2^20 + rs1 * 2^15 + f3 * 2^12 +
    (imm / 2 % 16) * 2^8 + (imm / 2048 % 2) * 2^7 + opc

def encode : Inst → Nat
  | .csrr rd csr     => encI csr 0 2 rd 0x73
  | .csrw csr rs1    => encI csr rs1 1 0 0x73
  | .add rd rs1 rs2  => encR 0 rs2 rs1 0 rd 0x33
  | .and rd rs1 rs2  => encR 0 rs2 rs1 7 rd 0x33
  | .sll rd rs1 rs2  => encR 0 rs2 rs1 1 rd 0x33
  | .srl rd rs1 rs2  => encR 0 rs2 rs1 5 rd 0x33
  | .addi rd rs1 imm => encI imm rs1 0 rd 0x13
  | .lw rd rs1 imm   => encI imm rs1 2 rd 0x03
  | .sw rs2 rs1 imm  => encS imm rs2 rs1 2 0x23
  | .bne rs1 rs2 imm => encB imm rs2 rs1 1 0x63

/-- the bit fields of a 32-bit instruction word -/
structure Fields where
  opc : Nat
  rd : Nat
  f3 : Nat
  rs1 : Nat
  rs2 : Nat
  f7 : Nat
  immI : Nat
  immS : Nat
  immB : Nat
deriving DecidableEq, Repr

def fields (w : Nat) : Fields where
  opc := w % 128
  rd := w / 2^7 % 32
  f3 := w / 2^12 % 8
  rs1 := w / 2^15 % 32
  rs2 := w / 2^20 % 32
  f7 := w / 2^25 % 128
  immI := w / 2^20 % 4096
  immS := (w / 2^25 % 128) * 32 + w / 2^7 % 32
  immB := (w / 2^31 % 2) * 4096 + (w / 2^7 % 2) * 2048 + (w / 2^25 % 64) * 32 + (w / 2^8 % 16) * 2

/-- the opcode / funct3 / funct7 table of "Instruction Details" -/
def decodeF (f : Fields) : Option Inst :=
  if f.opc = 0x33 then
    if f.f7 = 0 then
      if f.f3 = 0 then some (.add f.rd f.rs1 f.rs2)
      else if f.f3 = 1 then some (.sll f.rd f.rs1 f.rs2)
      else if f.f3 = 5 then some (.srl f.rd f.rs1 f.rs2)
      else if f.f3 = 7 then some (.and f.rd f.rs1 f.rs2)
      else none
    else none
  else if f.opc = 0x13 then
    if f.f3 = 0 then some (.addi f.rd f.rs1 f.immI) else none
  else if f.opc = 0x03 then
    if f.f3 = 2 then some (.lw f.rd f.rs1 f.immI) else none
  else if f.opc = 0x23 then
    if f.f3 = 2 then some (.sw f.rs2 f.rs1 f.immS) else none
  else if f.opc = 0x63 then
    if f.f3 = 1 then some (.bne f.rs1 f.rs2 f.immB) else none
  else if f.opc = 0x73 then
    if f.f3 = 2 then (if f.rs1 = 0 then some (.csrr f.rd f.immI) else none)
    else if f.f3 = 1 then (if f.rd = 0 then some (.csrw f.immI f.rs1) else none)
    else none
  else none

def decode (w : Nat) : Option Inst :=
  if w < 2^32 then decodeF (fields w) else none

/-! ### immediates and arithmetic -/

/-- sign extension of a 12-bit field to 32 bits (as an unsigned 32-bit number) -/
def sext12 (imm : Nat) : Nat := if imm < 2048 then imm else imm + (W32 - 4096)
/-- sign extension of a 13-bit field to 32 bits -/
def sext13 (imm : Nat) : Nat := if imm < 4096 then imm else imm + (W32 - 8192)

/-! ### memory: bytes, little endian -/

structure Mem where
  m : Std.HashMap Nat Nat

instance : Inhabited Mem := ⟨⟨{}⟩⟩

def Mem.empty : Mem := ⟨{}⟩
/-- byte at address `a` (0 where nothing was ever stored) -/
def Mem.get (m : Mem) (a : Nat) : Nat := m.m.getD a 0
def Mem.set (m : Mem) (a b : Nat) : Mem := ⟨m.m.insert a b⟩

/-- `M_4B[a]`: the byte at the lowest address is the least significant one -/
def loadWord (m : Mem) (a : Nat) : Nat :=
  m.get a + 256 * m.get (a + 1) + 65536 * m.get (a + 2) + 16777216 * m.get (a + 3)

def storeWord (m : Mem) (a v : Nat) : Mem :=
  (((m.set a (v % 256)).set (a + 1) (v / 256 % 256)).set (a + 2) (v / 65536 % 256)).set (a + 3)
    (v / 16777216 % 256)

/-- effective addresses the document defines: four-byte aligned, inside the 1MB address space -/
def addrOk (a : Nat) : Bool := a % 4 == 0 && a + 4 ≤ 1048576

/-! ### registers -/

/-- `R[r]` -/
def rget (rs : List Nat) (r : Nat) : Nat := rs.getD r 0
/-- `R[r] = v`; x0 is hard-wired to zero: a write to it is dropped -/
def rset (rs : List Nat) (r v : Nat) : List Nat := if r = 0 then rs else rs.set r v

/-! ### state and step -/

structure State where
  pc : Nat
  regs : List Nat        -- 32 entries
  mem : Mem
  inp : List Nat         -- mngr2proc FIFO, head first
  out : List Nat         -- proc2mngr FIFO: everything enqueued so far, oldest first
deriving Inhabited

inductive Stop where
  | illegal       -- the word at PC is not a TinyRV0 instruction
  | inputEmpty    -- csrr mngr2proc with an empty FIFO: the processor would wait forever
  | undefined     -- behaviour the document leaves undefined
  | fuel          -- `run` ran out of fuel
deriving DecidableEq, Repr, Inhabited

def Stop.name : Stop → String
  | .illegal => "illegal" | .inputEmpty => "input-empty" | .undefined => "undefined" | .fuel => "fuel"

def CSR_PROC2MNGR : Nat := 0x7C0
def CSR_MNGR2PROC : Nat := 0xFC0

/-- reset state: PC at the reset vector 0x200, all registers 0 -/
def State.init (mem : Mem) (inp : List Nat) : State :=
  { pc := 0x200, regs := List.replicate 32 0, mem := mem, inp := inp, out := [] }

/-- "Instruction Details": semantics of one decoded instruction -/
def exec (s : State) (i : Inst) : Except Stop State :=
  let pc4 := (s.pc + 4) % W32
  let R := rget s.regs
  match i with
  | .add rd rs1 rs2 => .ok { s with pc := pc4, regs := rset s.regs rd ((R rs1 + R rs2) % W32) }
  | .and rd rs1 rs2 => .ok { s with pc := pc4, regs := rset s.regs rd (R rs1 &&& R rs2) }
  | .sll rd rs1 rs2 => .ok { s with pc := pc4, regs := rset s.regs rd ((R rs1 <<< (R rs2 % 32)) % W32) }
  | .srl rd rs1 rs2 => .ok { s with pc := pc4, regs := rset s.regs rd (R rs1 >>> (R rs2 % 32)) }
  | .addi rd rs1 imm => .ok { s with pc := pc4, regs := rset s.regs rd ((R rs1 + sext12 imm) % W32) }
  | .lw rd rs1 imm =>
    let a := (R rs1 + sext12 imm) % W32
    if addrOk a then .ok { s with pc := pc4, regs := rset s.regs rd (loadWord s.mem a) }
    else .error .undefined
  | .sw rs2 rs1 imm =>
    let a := (R rs1 + sext12 imm) % W32
    if addrOk a then .ok { s with pc := pc4, mem := storeWord s.mem a (R rs2) }
    else .error .undefined
  | .bne rs1 rs2 imm =>
    if R rs1 ≠ R rs2 then .ok { s with pc := (s.pc + sext13 imm) % W32 }
    else .ok { s with pc := pc4 }
  | .csrr rd csr =>
    if csr = CSR_MNGR2PROC then
      match s.inp with
      | [] => .error .inputEmpty
      | v :: rest => .ok { s with pc := pc4, regs := rset s.regs rd v, inp := rest }
    else .error .undefined
  | .csrw csr rs1 =>
    if csr = CSR_PROC2MNGR then .ok { s with pc := pc4, out := s.out ++ [R rs1] }
    else .error .undefined

/-- instruction fetch: the word at PC (PC must be a defined address) -/
def fetch (s : State) : Except Stop Inst :=
  if addrOk s.pc then
    match decode (loadWord s.mem s.pc) with
    | some i => .ok i
    | none => .error .illegal
  else .error .undefined

def step (s : State) : Except Stop State :=
  match fetch s with
  | .ok i => exec s i
  | .error e => .error e

/-- run at most `fuel` instructions; returns the last state, the number of instructions executed
and why it stopped -/
def run : Nat → State → Nat → State × Nat × Stop
  | 0, s, n => (s, n, .fuel)
  | fuel + 1, s, n =>
    match step s with
    | .error e => (s, n, e)
    | .ok s' => run fuel s' (n + 1)

/-! ### accelerator CSRs (xcelreg00..31 = 0x7E0..0x7FF)

The document: "used to communicate data to/from the processor and an accelerator; the exact semantics of each register
is specific to each accelerator".  The accelerator of the tutorial's test harness is `NullXcel.py` (`NullXcelRTL`): ONE
32-bit register `xr0`; a write request to ANY of the 32 register numbers stores the data in `xr0`, a read request from
ANY register number returns `xr0` (the address field is ignored); `xr0` is 0 at power-on.

`exec` / `step` / `run` above are the accelerator-free ISA (accelerator CSRs stop them with `Stop.undefined`; the
refinement proofs of the pipeline model are stated against them).  `execX` / `stepX` / `runX` extend them conservatively
with the NullXcel register: identical on every other instruction (`PV.C20.execX_conservative`). -/

def isXcelCsr (csr : Nat) : Bool := decide (0x7E0 ≤ csr) && decide (csr ≤ 0x7FF)

/-- does the instruction access an accelerator register? -/
def Inst.isXcel : Inst → Bool
  | .csrr _ csr => isXcelCsr csr
  | .csrw csr _ => isXcelCsr csr
  | _ => false

/-- architectural state with the NullXcel accelerator attached -/
structure StateX where
  core : State
  xr0 : Nat
deriving Inhabited

def StateX.init (mem : Mem) (inp : List Nat) : StateX := { core := State.init mem inp, xr0 := 0 }

def liftX (s : StateX) (r : Except Stop State) : Except Stop StateX :=
  match r with
  | .ok c => .ok { s with core := c }
  | .error e => .error e

def execX (s : StateX) (i : Inst) : Except Stop StateX :=
  let pc4 := (s.core.pc + 4) % W32
  match i with
  | .csrr rd csr =>
    if isXcelCsr csr then .ok { s with core := { s.core with pc := pc4, regs := rset s.core.regs rd s.xr0 } }
    else liftX s (exec s.core i)
  | .csrw csr rs1 =>
    if isXcelCsr csr then .ok { core := { s.core with pc := pc4 }, xr0 := rget s.core.regs rs1 }
    else liftX s (exec s.core i)
  | _ => liftX s (exec s.core i)

def stepX (s : StateX) : Except Stop StateX :=
  match fetch s.core with
  | .ok i => execX s i
  | .error e => .error e

def runX : Nat → StateX → Nat → StateX × Nat × Stop
  | 0, s, n => (s, n, .fuel)
  | fuel + 1, s, n =>
    match stepX s with
    | .error e => (s, n, e)
    | .ok s' => runX fuel s' (n + 1)

/-- memory image from `(address, word)` pairs -/
def loadImage (ws : List (Nat × Nat)) : Mem :=
  ws.foldl (fun m aw => storeWord m aw.1 aw.2) Mem.empty

end PV.TinyRV0
