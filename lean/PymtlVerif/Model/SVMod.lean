import PymtlVerif.Model.SV
/-
Module level of the SystemVerilog subset (continuation of Model/SV.lean): module items, elaboration
(flattening of the instance hierarchy into one list of processes over hierarchically named
variables), static write footprints and the single-driver check, and the simulation loop
(`settle` = fixed point of the combinational processes by bounded sweeps, `tick` = all
`always_ff` processes on the settled store, non-blocking updates committed together).

A module instance is inlined: the child's variables are renamed `<inst>.<name>`, an input port
connection `.p(e)` becomes the continuous assignment `<inst>.p = e`, an output port connection the
assignment `e = <inst>.p` (IEEE 1800-2017 §23.3.3: a port connection is a continuous assignment).
`always_ff @(posedge clk)`: one clock domain; the clock expression is not interpreted.

Mathlib-free: linked into the native driver `pv_sv`.
-/
namespace PV.SV

/-! ### modules, elaboration (flattening of the instance hierarchy) -/

inductive Item where
  | comb (name : String) (body : Stmt)             -- always_comb begin : name … end
  | ff (name clk : String) (body : Stmt)           -- always_ff @(posedge clk) begin : name … end
  | assign (lhs rhs : Expr)                        -- assign lhs = rhs;
  | inst (modName instName : String) (conns : List (String × Expr))
deriving Repr, Inhabited

inductive Dir where | input | output
deriving DecidableEq, Repr, Inhabited

structure Port where
  dir : Dir
  name : String
  decl : Decl

/-- `localparam T x [dims] = init` with one initialiser per flattened unpacked element -/
structure Param where
  name : String
  decl : Decl
  init : List Expr

structure Module where
  name : String
  ports : List Port
  decls : List (String × Decl)
  params : List Param
  items : List Item

inductive PKind where | comb | ff | assign | param
deriving DecidableEq, Repr, Inhabited

/-- a process of the flattened design -/
structure Proc where
  kind : PKind
  name : String
  body : Stmt

structure Flat where
  decls : List (String × Decl)
  inputs : List String
  outputs : List String
  procs : List Proc
  errors : List String           -- unknown module / port names met while flattening

def pfx (p x : String) : String := if p = "" then x else p ++ "." ++ x

def Expr.rename (p : String) : Expr → Expr
  | .lit w v => .lit w v
  | .num v => .num v
  | .ident x => .ident (pfx p x)
  | .member e f => .member (e.rename p) f
  | .index e i => .index (e.rename p) (i.rename p)
  | .range e hi lo => .range (e.rename p) (hi.rename p) (lo.rename p)
  | .plusSel e b w => .plusSel (e.rename p) (b.rename p) (w.rename p)
  | .cat1 e => .cat1 (e.rename p)
  | .concat a b => .concat (a.rename p) (b.rename p)
  | .repl n e => .repl (n.rename p) (e.rename p)
  | .un op e => .un op (e.rename p)
  | .bin op a b => .bin op (a.rename p) (b.rename p)
  | .cond c t f => .cond (c.rename p) (t.rename p) (f.rename p)
  | .cast w e => .cast w (e.rename p)
  | .sgn e => .sgn (e.rename p)

def Stmt.rename (p : String) : Stmt → Stmt
  | .skip => .skip
  | .blocking l r => .blocking (l.rename p) (r.rename p)
  | .nonblocking l r => .nonblocking (l.rename p) (r.rename p)
  | .ite c t e => .ite (c.rename p) (t.rename p) (e.rename p)
  | .seq a b => .seq (a.rename p) (b.rename p)
  | .for_ d v i c st b => .for_ d (pfx p v) (i.rename p) (c.rename p) (st.rename p) (b.rename p)

/-! ### variables of a signed type

A variable declared `integer x;` is a signed 32-bit vector: a reference to the whole variable in an expression is
its `$signed` view (`sgn (ident x)`); a bit / part select of it is unsigned (§11.8.1), an assignment target is the
vector itself.  `sg` lists the names declared with a signed type in the module; a loop variable declared in a
`for ( int unsigned v = … )` header shadows a module-level name. -/

mutual
/-- value position -/
def Expr.elabS (sg : List String) : Expr → Expr
  | .lit w v => .lit w v
  | .num v => .num v
  | .ident x => if sg.contains x then .sgn (.ident x) else .ident x
  | .member e f => .member (e.elabR sg) f
  | .index e i => .index (e.elabR sg) (i.elabS sg)
  | .range e hi lo => .range (e.elabR sg) hi lo
  | .plusSel e b w => .plusSel (e.elabR sg) (b.elabS sg) w
  | .cat1 e => .cat1 (e.elabS sg)
  | .concat a b => .concat (a.elabS sg) (b.elabS sg)
  | .repl n e => .repl n (e.elabS sg)
  | .un op e => .un op (e.elabS sg)
  | .bin op a b => .bin op (a.elabS sg) (b.elabS sg)
  | .cond c t f => .cond (c.elabS sg) (t.elabS sg) (f.elabS sg)
  | .cast w e => .cast w (e.elabS sg)
  | .sgn e => .sgn (e.elabS sg)
/-- the root of a select chain / an assignment target: the variable itself; index expressions are values -/
def Expr.elabR (sg : List String) : Expr → Expr
  | .member e f => .member (e.elabR sg) f
  | .index e i => .index (e.elabR sg) (i.elabS sg)
  | .range e hi lo => .range (e.elabR sg) hi lo
  | .plusSel e b w => .plusSel (e.elabR sg) (b.elabS sg) w
  | .cat1 e => .cat1 (e.elabS sg)                  -- a select of a concatenation: its members are values
  | .concat a b => .concat (a.elabS sg) (b.elabS sg)
  | .repl n e => .repl n (e.elabS sg)
  | e => e
end

def Stmt.elabS (sg : List String) : Stmt → Stmt
  | .skip => .skip
  | .blocking l r => .blocking (l.elabR sg) (r.elabS sg)
  | .nonblocking l r => .nonblocking (l.elabR sg) (r.elabS sg)
  | .ite c t e => .ite (c.elabS sg) (t.elabS sg) (e.elabS sg)
  | .seq a b => .seq (a.elabS sg) (b.elabS sg)
  | .for_ d v i c st b =>
    let sg' := if d then sg.filter (· != v) else sg
    .for_ d v (i.elabS sg) (c.elabS sg') (st.elabS sg') (b.elabS sg')

def Item.elabS (sg : List String) : Item → Item
  | .comb n b => .comb n (b.elabS sg)
  | .ff n clk b => .ff n clk (b.elabS sg)
  | .assign l r => .assign (l.elabR sg) (r.elabS sg)
  | .inst m i conns => .inst m i (conns.map fun (p, e) => (p, e.elabS sg))

/-- all index tuples of the unpacked dimensions, as select chains on `e` -/
def expandDims (e : Expr) : List Nat → List Expr
  | [] => [e]
  | d :: ds => (List.range d).flatMap fun i => expandDims (.index e (.num i)) ds

/-- element-wise copy `l = r` of a variable with unpacked dimensions `dims` -/
def copyStmts (l r : Expr) (dims : List Nat) : List Stmt :=
  (expandDims l dims).zip (expandDims r dims) |>.map fun (a, b) => .blocking a b

def seqOf : List Stmt → Stmt
  | [] => .skip
  | [s] => s
  | s :: rest => .seq s (seqOf rest)

def paramProc (p : String) (q : Param) : Proc :=
  ⟨.param, pfx p q.name,
   seqOf ((expandDims (.ident (pfx p q.name)) q.decl.dims).zip q.init |>.map fun (l, r) => .blocking l (r.rename p))⟩

def emptyFlat : Flat := ⟨[], [], [], [], []⟩

def Flat.append (a b : Flat) : Flat :=
  ⟨a.decls ++ b.decls, a.inputs ++ b.inputs, a.outputs ++ b.outputs, a.procs ++ b.procs, a.errors ++ b.errors⟩

def findModule (mods : List Module) (n : String) : Option Module := mods.find? (·.name == n)

/-- inline module `m` under prefix `p` (fuel = remaining hierarchy depth) -/
def flattenAt (mods : List Module) : Nat → String → Module → Flat
  | 0, p, _ => { emptyFlat with errors := ["hierarchy-too-deep:" ++ p] }
  | fuel+1, p, m =>
    let own : Flat :=
      { decls := (m.ports.map fun q => (pfx p q.name, q.decl)) ++ (m.decls.map fun (x, d) => (pfx p x, d))
                 ++ (m.params.map fun q => (pfx p q.name, q.decl)),
        inputs := [], outputs := [],
        procs := m.params.map (paramProc p),
        errors := [] }
    m.items.foldl (fun acc it =>
      match it with
      | .comb n b => { acc with procs := acc.procs ++ [⟨.comb, pfx p n, b.rename p⟩] }
      | .ff n clk b =>
        -- the process reads its clock (so that an unconnected clock net is reported as undriven); the
        -- clock expression itself is not interpreted: every always_ff process runs at every `tick`
        { acc with procs := acc.procs ++ [⟨.ff, pfx p n, (Stmt.seq (.ite (.ident clk) .skip .skip) b).rename p⟩] }
      | .assign l r => { acc with procs := acc.procs ++ [⟨.assign, pfx p "assign", .blocking (l.rename p) (r.rename p)⟩] }
      | .inst mn inn conns =>
        match findModule mods mn with
        | none => { acc with errors := acc.errors ++ ["unknown-module:" ++ mn] }
        | some c =>
          let cp := pfx p inn
          let sub := flattenAt mods fuel cp c
          let conn : Flat := conns.foldl (fun a (pn, e) =>
            match c.ports.find? (·.name == pn) with
            | none => { a with errors := a.errors ++ ["unknown-port:" ++ mn ++ "." ++ pn] }
            | some q =>
              let inner : Expr := .ident (pfx cp pn)
              let outer := e.rename p
              let body := match q.dir with
                | .input => seqOf (copyStmts inner outer q.decl.dims)
                | .output => seqOf (copyStmts outer inner q.decl.dims)
              { a with procs := a.procs ++ [⟨.assign, pfx cp ("port." ++ pn), body⟩] }) emptyFlat
          let missing := c.ports.filter fun q => !(conns.any fun (pn, _) => pn == q.name)
          let conn := { conn with errors := conn.errors ++ missing.map fun q => "unconnected-port:" ++ cp ++ "." ++ q.name }
          (acc.append sub).append conn) own

def flatten (mods : List Module) (top : String) : Flat :=
  match findModule mods top with
  | none => { emptyFlat with errors := ["unknown-module:" ++ top] }
  | some m =>
    let f := flattenAt mods 16 "" m
    { f with inputs := (m.ports.filter (·.dir == .input)).map (·.name),
             outputs := (m.ports.filter (·.dir == .output)).map (·.name) }

def envOf (decls : List (String × Decl)) : Env := fun x => (decls.find? (·.1 == x)).map (·.2)

/-! ### drivers: static write footprints -/

/-- a rectangle of (flattened element, bit) positions of one variable -/
structure WR where
  x : String
  e0 : Nat
  e1 : Nat
  b0 : Nat
  b1 : Nat
deriving DecidableEq, Repr, Inhabited

def WR.has (r : WR) (x : String) (e b : Nat) : Prop := r.x = x ∧ r.e0 ≤ e ∧ e < r.e1 ∧ r.b0 ≤ b ∧ b < r.b1
instance (r : WR) (x e b) : Decidable (r.has x e b) := by unfold WR.has; infer_instance

def WR.overlap (a b : WR) : Bool :=
  a.x == b.x && decide (a.e0 < b.e1) && decide (b.e0 < a.e1) && decide (a.b0 < b.b1) && decide (b.b0 < a.b1)

/-- static footprint of a select chain: constant indices select, others cover the dimension -/
structure SLoc where
  x : String
  e0 : Nat
  e1 : Nat
  lo : Nat
  ty : PTy
  dims : List Nat

def sloc (Γ : Env) : Expr → Option SLoc
  | .ident x => match Γ x with | some d => some ⟨x, 0, 1, 0, d.ty, d.dims⟩ | none => none
  | .member e f =>
    match sloc Γ e with
    | some ⟨x, e0, e1, lo, .struct _ fs, []⟩ =>
      match fs.find f with
      | some (off, t) => some ⟨x, e0, e1, lo + off, t, []⟩
      | none => none
    | _ => none
  | .index e i =>
    match sloc Γ e with
    | some ⟨x, e0, e1, lo, t, d :: ds⟩ =>
      match constVal i with
      | some iv => if e1 = e0 + 1 ∧ iv < d then some ⟨x, e0 * d + iv, e0 * d + iv + 1, lo, t, ds⟩
                   else some ⟨x, e0 * d, e1 * d, lo, t, ds⟩
      | none => some ⟨x, e0 * d, e1 * d, lo, t, ds⟩
    | some ⟨x, e0, e1, lo, .arr n t, []⟩ =>
      match constVal i with
      | some iv => if iv < n then some ⟨x, e0, e1, lo + iv * t.width, t, []⟩ else some ⟨x, e0, e1, lo, .arr n t, []⟩
      | none => some ⟨x, e0, e1, lo, .arr n t, []⟩
    | some ⟨x, e0, e1, lo, .vec w, []⟩ =>
      match constVal i with
      | some iv => if iv < w then some ⟨x, e0, e1, lo + iv, .vec 1, []⟩ else some ⟨x, e0, e1, lo, .vec w, []⟩
      | none => some ⟨x, e0, e1, lo, .vec w, []⟩
    | _ => none
  | .range e hi lo' =>
    match sloc Γ e, constVal hi, constVal lo' with
    | some ⟨x, e0, e1, lo, .vec _, []⟩, some h, some l => some ⟨x, e0, e1, lo + l, .vec (h + 1 - l), []⟩
    | _, _, _ => none
  | .plusSel e b w' =>
    match sloc Γ e, constVal w' with
    | some ⟨x, e0, e1, lo, .vec w, []⟩, some k =>
      match constVal b with
      | some bv => some ⟨x, e0, e1, lo + bv, .vec k, []⟩
      | none => some ⟨x, e0, e1, lo, .vec w, []⟩
    | _, _ => none
  | _ => none

def SLoc.wr (l : SLoc) : WR := ⟨l.x, l.e0 * dimsSize l.dims, l.e1 * dimsSize l.dims, l.lo, l.lo + l.ty.width⟩

/-- write footprint of a statement (loop variables declared by the loop are local) -/
def wset (Γ : Env) : Stmt → List WR
  | .skip => []
  | .blocking l _ => match sloc Γ l with | some s => [s.wr] | none => []
  | .nonblocking l _ => match sloc Γ l with | some s => [s.wr] | none => []
  | .ite _ t e => wset Γ t ++ wset Γ e
  | .seq a b => wset Γ a ++ wset Γ b
  | .for_ decl v _ _ _ body =>
    let Γ' := if decl then Γ.extend v intDecl else Γ
    (if decl then [] else [⟨v, 0, 1, 0, 32⟩]) ++ (wset Γ' body).filter fun r => !(decl && r.x == v)

def Expr.idents : Expr → List String
  | .lit _ _ => [] | .num _ => []
  | .ident x => [x]
  | .member e _ => e.idents
  | .index e i => e.idents ++ i.idents
  | .range e _ _ => e.idents
  | .plusSel e b _ => e.idents ++ b.idents
  | .cat1 e => e.idents
  | .concat a b => a.idents ++ b.idents
  | .repl _ e => e.idents
  | .un _ e => e.idents
  | .bin _ a b => a.idents ++ b.idents
  | .cond c t f => c.idents ++ t.idents ++ f.idents
  | .cast _ e => e.idents
  | .sgn e => e.idents

/-- variables read: right-hand sides, conditions and the index expressions of targets -/
def lhsReads : Expr → List String
  | .member e _ => lhsReads e
  | .index e i => lhsReads e ++ i.idents
  | .range e _ _ => lhsReads e
  | .plusSel e b _ => lhsReads e ++ b.idents
  | _ => []

def rset : Stmt → List String
  | .skip => []
  | .blocking l r => lhsReads l ++ r.idents
  | .nonblocking l r => lhsReads l ++ r.idents
  | .ite c t e => c.idents ++ rset t ++ rset e
  | .seq a b => rset a ++ rset b
  | .for_ _ v i c st b => (i.idents ++ c.idents ++ st.idents ++ rset b).filter (· != v)

/-- the pairs of processes (by position) whose write footprints overlap, with the variable -/
def driverConflicts (ws : List (List WR)) : List (Nat × Nat × String) :=
  let idx := ws.zipIdx
  idx.flatMap fun (a, i) => idx.flatMap fun (b, j) =>
    if i < j then
      match a.find? (fun r => b.any (·.overlap r)) with
      | some r => [(i, j, r.x)]
      | none => []
    else []

/-- every bit of every variable is written by at most one process -/
def singleDriver (ws : List (List WR)) : Bool := (driverConflicts ws).isEmpty

/-- the processes that drive position (x, e, b) -/
def drivers (ws : List (List WR)) (x : String) (e b : Nat) : List Nat :=
  (ws.zipIdx.filter fun (w, _) => w.any fun r => decide (r.has x e b)).map (·.2)

def coveredBits (rs : List WR) (x : String) (e : Nat) (width : Nat) : Bool :=
  (List.range width).all fun b => rs.any fun r => decide (r.has x e b)

/-- declared variables that are read (or are outputs) and have a bit no process writes -/
def undriven (F : Flat) (ws : List (List WR)) : List String :=
  let all := ws.flatten
  let reads := F.procs.flatMap (rset ·.body)
  F.decls.filterMap fun (x, d) =>
    if F.inputs.contains x then none
    else if !(reads.contains x || F.outputs.contains x) then none
    else if (List.range (dimsSize d.dims)).all fun e => coveredBits (all.filter (·.x == x)) x e d.ty.width then none
    else some x

def Flat.wsets (F : Flat) : List (List WR) :=
  let Γ := envOf F.decls
  (F.inputs.map fun x => match Γ x with
      | some d => [⟨x, 0, dimsSize d.dims, 0, d.ty.width⟩]
      | none => [])
  ++ F.procs.map fun p => wset Γ p.body

/-! ### simulation -/

def initStore (decls : List (String × Decl)) : Store :=
  ⟨decls.flatMap fun (x, d) => (List.range (dimsSize d.dims)).map fun e => ((x, e), 0)⟩

def runProcs (castB : Bool) (Γ : Env) (ps : List Proc) (s : XS) : XS :=
  ps.foldl (fun s p => exec castB Γ p.body s) s

/-- sweep the combinational processes until nothing changes (at most `n` sweeps); `none` = unstable -/
def settleN (castB : Bool) (Γ : Env) (ps : List Proc) : Nat → XS → Option XS
  | 0, _ => none
  | n+1, s =>
    let s' := runProcs castB Γ ps s
    if s'.σ.cells == s.σ.cells then some s' else settleN castB Γ ps n s'

def Flat.combProcs (F : Flat) : List Proc := F.procs.filter fun p => p.kind != .ff
def Flat.ffProcs (F : Flat) : List Proc := F.procs.filter fun p => p.kind == .ff

def settle (castB : Bool) (F : Flat) (Γ : Env) (s : XS) : Option XS :=
  settleN castB Γ F.combProcs (F.combProcs.length + 3) s

/-- clock edge: all always_ff processes on the settled store, then commit, then settle -/
def tick (castB : Bool) (F : Flat) (Γ : Env) (s : XS) : Option XS :=
  let s1 := runProcs castB Γ F.ffProcs { s with nba := [] }
  settle castB F Γ { s1 with σ := commit s1.σ s1.nba, nba := [] }

def readVar (σ : Store) (x : String) (d : Decl) : List Nat :=
  (List.range (dimsSize d.dims)).map fun e => σ.get (x, e)

end PV.SV
