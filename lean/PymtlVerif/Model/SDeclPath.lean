import PymtlVerif.Model.SDecl
/-!
# Object paths (C03 / C12, structural declarations)

A signal as PyMTL names it — `s.c[i][j].ifc[k].p[l].fld[m][a:b]` — and the signal expression `gen_signal_expr` builds for it
(`OPath.sexp`: the node classes `construct_attr` / `construct_index` / `construct_slice` choose when the path is well typed).
The theorems about operands (`Props/C03d.lean`: `render_path`, `operand_denotes`, `yrender_path`) are stated for `OPath.sexp`; the
driver checks on every operand of a run that the expression computed by `SDecl.genSExp` from the real frames IS `OPath.sexp` of
the path the harness classified from the real objects.

Mathlib-free: linked into the native driver `pv_sdecl`.
-/
namespace PV.SDecl
open PV.SV PV.Names

/-- a step below the signal object: struct field, element of a packed-array field, bit, slice -/
inductive PStep where
  | fld (f : String)
  | pidx (i : Nat)
  | bit (i : Nat)
  | slice (lo hi : Nat)
deriving Inhabited, Repr, DecidableEq

/-- a signal in the scope of a component: optional sub-component level, interface levels (outermost first), the port / wire,
each with its list indices, then the steps into the signal's data type -/
structure OPath where
  comp : Option (String × List Nat)
  ifcs : List (String × List Nat)
  sigName : String
  sigIdx : List Nat
  isWire : Bool
  packed : List PStep
deriving Inhabited, Repr

/-- the (name, indices) levels, outermost first -/
def OPath.levels (p : OPath) : List (String × List Nat) :=
  (match p.comp with | some c => [c] | none => []) ++ p.ifcs ++ [(p.sigName, p.sigIdx)]

def OPath.names (p : OPath) : List String := p.levels.map (·.1)
def OPath.allIdx (p : OPath) : List Nat := p.levels.flatMap (·.2)

/-- the PyMTL object: `s.c[i][j].ifc[k].p[l]` -/
def OPath.objPath (p : OPath) : List Seg := p.levels.flatMap fun l => Seg.name l.1 :: l.2.map Seg.idx

def PStep.sexp (e : SExp) : PStep → SExp
  | .fld f => .structAttr e f
  | .pidx i => .packedIdx e i
  | .bit i => .bitSel e i
  | .slice lo hi => .partSel e lo hi

def PStep.sel : PStep → Sel
  | .fld f => .fld f
  | .pidx i => .idx i
  | .bit i => .idx i
  | .slice lo hi => .rng (hi - 1) lo

/-- interface levels: the first attribute is made by `first` (CurCompAttr / SubCompAttr), the following ones are InterfaceAttr -/
def goIfcs (e : SExp) (first : SExp → String → SExp) : List (String × List Nat) → SExp × (SExp → String → SExp)
  | [] => (e, first)
  | (n, ix) :: rest => goIfcs (ix.foldl SExp.ifcIdx (first e n)) SExp.ifcAttr rest

def OPath.head (p : OPath) : SExp × (SExp → String → SExp) :=
  match p.comp with
  | none => (SExp.cur, SExp.curAttr)
  | some (c, ix) => (ix.foldl SExp.compIdx (SExp.curAttr SExp.cur c), SExp.subAttr)

/-- the node classes `construct_attr` / `construct_index` / `construct_slice` choose for a well-typed path -/
def OPath.sexp (p : OPath) : SExp :=
  let h := p.head
  let g := goIfcs h.1 h.2 p.ifcs
  let s := p.sigIdx.foldl (if p.isWire then SExp.wireIdx else SExp.portIdx) (g.2 g.1 p.sigName)
  p.packed.foldl PStep.sexp s

end PV.SDecl
