/-!
# Model of `GenDAGPass._process_methods` (pymtl3/passes/sim/GenDAGPass.py) — property C02, method constraints

Methods (the ACTUAL method objects, as the code uses them) and update blocks are natural-number ids.

Input (what the pass reads):
* `calls`  — `top._dsl.all_upblk_calls`: pairs (update block, actual method it calls)  →  `method_blks`;
* `mcons`  — `top.get_all_explicit_constraints()[3]` after the "actual method" translation: `(x, y, isEqual)`,
             `M(x) < M(y)`, `U(b) < M(x)`, `M(x) < U(b)` (`isEqual = false`) and `M(x) == M(y)` (`isEqual = true`);
* `blocks` — the ids that are update blocks (`v in all_upblks`).

Output: `process I` = the block-level pairs the pass ADDS to `top._dag.all_constraints`.

Definitions mirror the code (line numbers of GenDAGPass.py at the time of writing):
* `closure`  — a work-list search with a visited set (`visited`/`Q`), used twice: FIFO (`Q.popleft()`, the flood fill
               of the equivalence classes, l.427-446) and LIFO (`Q.pop()`, the per-method search, l.491-587).
               Python loops until the queue is empty; the model is total through a fuel argument and the fuel it is
               given is proved sufficient (`Proofs/Methods.lean: closure_spec`), so the fuel is not observable.
* `eqAdj`, `inEquiv`, `cls` — `equiv[x]` before / after the flood fill (the class of `u` is the set flooded from `u`:
               the adjacency is symmetric, so this is the class the code assigns whatever member it starts from).
* `pred`, `succ` — the `pred`/`succ` dictionaries (l.448-468).
* `nexts`    — the states `(v, w)` pushed while `(u, w)` is examined: `equiv[u]` with the same direction, `pred[u]`
               with -1 when `w <= 0`, `succ[u]` with +1 when `w >= 0`; a `v in all_upblks` is never pushed.
* `emit`     — the pairs added while `(u, w)` is examined, with the four "INVALID if explicit constraint" exclusions
               (`blk not in pred[u]`, `vb not in succ[u]` / `blk not in pred[v]`, `blk not in succ[u]`,
               `vb not in pred[u]` / `blk not in succ[v]`) and `v != blk` / `vb != blk`. The blocks associated with a
               neighbouring method `v` are the callers of every method of `v`'s equivalence class (`eqClass`;
               `for vv in ( equiv[v] if v in equiv else (v,) )`, l.524 / l.565 — the code as repaired by /repo 7d1ccf2).
* `process`  — the loop over `method_blks.items()`.
Mathlib-free, executable (driver `rtl methods`).
-/
namespace PV.Methods

/-! ## generic work-list closure -/

/-- `for t in ts: if t not in visited: visited.add(t); Q.append(t)`; the work list keeps the next element to pop at its
    head: LIFO (`Q.pop()`) pushes in front, FIFO (`Q.popleft()`) at the end -/
def pushAll {α : Type} [DecidableEq α] (fifo : Bool) : List α → List α → List α → List α × List α
  | [], work, vis => (work, vis)
  | t :: ts, work, vis =>
    if t ∈ vis then pushAll fifo ts work vis
    else pushAll fifo ts (if fifo then work ++ [t] else t :: work) (t :: vis)

/-- `while Q: s = Q.pop(); <examine s>; push the unvisited successors` — returns the examined elements -/
def closure {α : Type} [DecidableEq α] (next : α → List α) (fifo : Bool) :
    Nat → List α → List α → List α → List α
  | 0, _, _, done => done
  | _+1, [], _, done => done
  | f+1, s :: work, vis, done =>
    let p := pushAll fifo (next s) work vis
    closure next fifo f p.1 p.2 (s :: done)

/-! ## the pass -/

structure Input where
  calls : List (Nat × Nat)            -- (block, actual method)
  mcons : List (Nat × Nat × Bool)     -- (x, y, isEqual)
  blocks : List Nat
deriving Repr

abbrev State := Nat × Int             -- (node, w)  w = -1: pred side, 0: start, 1: succ side

namespace Input

/-- every id the search can ever meet -/
def nodes (I : Input) : List Nat := I.calls.map (·.2) ++ I.mcons.flatMap (fun c => [c.1, c.2.1])

/-- `method_blks[m]` -/
def callers (I : Input) (m : Nat) : List Nat := (I.calls.filter (fun c => c.2 == m)).map (·.1)

/-- `m in method_blks` -/
def hasCallers (I : Input) (m : Nat) : Bool := I.calls.any (fun c => c.2 == m)

/-- the keys of `method_blks` -/
def methodKeys (I : Input) : List Nat := (I.calls.map (·.2)).eraseDups

/-- `pred[u]` -/
def pred (I : Input) (u : Nat) : List Nat := (I.mcons.filter (fun c => !c.2.2 && c.2.1 == u)).map (·.1)

/-- `succ[u]` -/
def succ (I : Input) (u : Nat) : List Nat := (I.mcons.filter (fun c => !c.2.2 && c.1 == u)).map (·.2.1)

/-- `equiv[u]` before the flood fill: the other sides of the `==` constraints that mention `u` -/
def eqAdj (I : Input) (u : Nat) : List Nat :=
  I.mcons.flatMap (fun c => if c.2.2 then (if c.1 = u then [c.2.1] else []) ++ (if c.2.1 = u then [c.1] else []) else [])

/-- `u in equiv` -/
def inEquiv (I : Input) (u : Nat) : Bool := I.mcons.any (fun c => c.2.2 && (c.1 == u || c.2.1 == u))

/-- `equiv[u]` after the flood fill (only looked at when `u in equiv`) -/
def cls (I : Input) (u : Nat) : List Nat := closure I.eqAdj true (I.nodes.length + 1) [u] [u] []

/-- `equiv[v] if v in equiv else (v,)` -/
def eqClass (I : Input) (v : Nat) : List Nat := if I.inEquiv v then I.cls v else [v]

/-- states pushed while `(u, w)` is examined (before the visited test) -/
def nexts (I : Input) (s : State) : List State :=
  (if I.inEquiv s.1 then (I.cls s.1).map (fun v => (v, s.2)) else []) ++
  (if s.2 ≤ 0 then ((I.pred s.1).filter (fun v => decide (v ∉ I.blocks))).map (fun v => (v, (-1 : Int))) else []) ++
  (if s.2 ≥ 0 then ((I.succ s.1).filter (fun v => decide (v ∉ I.blocks))).map (fun v => (v, (1 : Int))) else [])

/-- pairs added while `(u, w)` is examined during the search that started from method `m` -/
def emit (I : Input) (m : Nat) (s : State) : List (Nat × Nat) :=
  let u := s.1
  let assoc := I.callers m
  (if s.2 ≤ 0 then
    (I.pred u).flatMap (fun v =>
      if v ∈ I.blocks then
        (assoc.filter (fun blk => decide (blk ∉ I.pred u ∧ v ≠ blk))).map (fun blk => (v, blk))
      else
        (I.eqClass v).flatMap (fun vv =>
          if I.hasCallers vv then
            (I.callers vv).flatMap (fun vb =>
              if vb ∈ I.succ u then []
              else (assoc.filter (fun blk => decide (blk ∉ I.pred v ∧ vb ≠ blk))).map (fun blk => (vb, blk)))
          else []))
   else []) ++
  (if s.2 ≥ 0 then
    (I.succ u).flatMap (fun v =>
      if v ∈ I.blocks then
        (assoc.filter (fun blk => decide (blk ∉ I.succ u ∧ v ≠ blk))).map (fun blk => (blk, v))
      else
        (I.eqClass v).flatMap (fun vv =>
          if I.hasCallers vv then
            (I.callers vv).flatMap (fun vb =>
              if vb ∈ I.pred u then []
              else (assoc.filter (fun blk => decide (blk ∉ I.succ v ∧ vb ≠ blk))).map (fun blk => (blk, vb)))
          else []))
   else [])

/-- the states examined by the search that starts from method `m` (`visited = {(method, 0)}`) -/
def search (I : Input) (m : Nat) : List State :=
  closure I.nexts false (3 * (I.nodes.length + 1)) [(m, 0)] [(m, 0)] []

/-- the pairs `_process_methods` adds to `all_constraints` -/
def process (I : Input) : List (Nat × Nat) :=
  I.methodKeys.flatMap (fun m => (I.search m).flatMap (I.emit m))

end Input

end PV.Methods
