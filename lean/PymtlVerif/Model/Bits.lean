/-
Model of `pymtl3/datatypes/PythonBits.py` (class `Bits`) and `pymtl3/datatypes/helpers.py`.

Written from the code as it is (after the `fix:` commits for slice bounds and clog2):
every operator has the same case split as the Python method — operand is a `Bits`
(has `.nbits`), or is converted with `int()`, or (comparisons) is not convertible.
Python's `x & _upper[n]` on an unbounded int is modelled by `% 2^n` on `Int`
(the two agree for every Python int; this is part of the model, validated by the
correspondence check, not proved).

Mathlib-free on purpose: this file is linked into the native driver.
-/
namespace PV.Bits

/-- canonical image of the exception classes the Python code raises -/
inductive Err where
  | width     -- ValueError: operand / assignment widths differ
  | range     -- ValueError: integer does not fit / nbits out of 1..1023
  | index     -- IndexError
  | zerodiv   -- ZeroDivisionError
  | type      -- TypeError
  | assert    -- AssertionError (helpers.py asserts)
deriving DecidableEq, Repr, Inhabited

def Err.pyClass : Err → String
  | .width => "ValueError"
  | .range => "ValueError"
  | .index => "IndexError"
  | .zerodiv => "ZeroDivisionError"
  | .type => "TypeError"
  | .assert => "AssertionError"

/-- a Bits object: width and stored unsigned value -/
structure B where
  n : Nat
  v : Nat
deriving DecidableEq, Repr, Inhabited

abbrev R := Except Err B

/-- the invariant every Bits object must satisfy -/
def B.Wf (b : B) : Prop := 1 ≤ b.n ∧ b.n < 1024 ∧ b.v < 2 ^ b.n

/-- the table `_upper` as the module builds it: `_upper = [0, 1]; _upper[i] = (_upper[i-1] << 1) + 1` -/
def upperTab : Nat → Nat
  | 0 => 0
  | 1 => 1
  | (i+2) => (upperTab (i+1)) * 2 + 1

/-- the table `_lower`: `_lower = [0, -1]; _lower[i] = _lower[i-1] << 1` -/
def lowerTab : Nat → Int
  | 0 => 0
  | 1 => -1
  | (i+2) => (lowerTab (i+1)) * 2

/-- closed forms used everywhere else (proved equal to the tables in Proofs/Bits) -/
def upper (n : Nat) : Nat := 2 ^ n - 1
def lower (n : Nat) : Int := - (2 ^ (n - 1) : Int)

/-- `k & _upper[n]` for a Python int `k` -/
def maskInt (n : Nat) (k : Int) : Nat := (k % (2 ^ n : Int)).toNat

/-- what the right operand of an operator (or the value of a constructor/assignment) is -/
inductive Opnd where
  | bits (b : B)      -- an object with `.nbits` (a Bits)
  | int (k : Int)     -- anything `int()` converts (int, bool)
  | other             -- not convertible by `int()` (only reaches a defined result in `==`/`!=`)
deriving DecidableEq, Repr, Inhabited

/-! ### construction and assignment -/

/-- `Bits(nbits, v, trunc_int)` -/
def ctor (nbits : Int) (v : Opnd) (trunc : Bool) : R :=
  if nbits < 1 ∨ nbits ≥ 1024 then .error .range else
  let n := nbits.toNat
  match v with
  | .bits b => if n ≠ b.n then .error .width else .ok ⟨n, b.v⟩
  | .int k =>
    if !trunc && (k < lower n || k > (upper n : Int)) then .error .range
    else .ok ⟨n, maskInt n k⟩
  | .other => .error .type

/-- `x @= v` : new stored value of x -/
def imatmul (x : B) (v : Opnd) : R :=
  match v with
  | .bits b => if b.n ≠ x.n then .error .width else .ok ⟨x.n, b.v⟩
  | .int k =>
    if k < lower x.n || k > (upper x.n : Int) then .error .range
    else .ok ⟨x.n, maskInt x.n k⟩
  | .other => .error .type

/-- a Bits object together with its shadow `_next` (none = attribute not set yet) -/
structure Reg where
  cur : B
  next : Option Nat
deriving DecidableEq, Repr

/-- `x <<= v` : only `_next` changes -/
def ilshift (x : Reg) (v : Opnd) : Except Err Reg :=
  match imatmul x.cur v with
  | .ok b => .ok { x with next := some b.v }
  | .error e => .error e

/-- `x._flip()`; `none` models the AttributeError when `_next` was never written -/
def flip (x : Reg) : Option Reg :=
  match x.next with
  | some w => some { x with cur := ⟨x.cur.n, w⟩ }
  | none => none

/-! ### binary operators, left operand a Bits -/

inductive BinOp where
  | add | sub | mul | and | or | xor | floordiv | mod | lshift | rshift
deriving DecidableEq, Repr, Inhabited

inductive CmpOp where
  | eq | ne | lt | le | gt | ge
deriving DecidableEq, Repr, Inhabited

/-- the arithmetic each `__op__` performs on two in-range unsigned values, before/after masking, as in the code -/
def binRaw (op : BinOp) (n a b : Nat) : Except Err Nat :=
  match op with
  | .add => .ok ((a + b) % 2 ^ n)
  | .sub => .ok (maskInt n ((a : Int) - (b : Int)))
  | .mul => .ok ((a * b) % 2 ^ n)
  | .and => .ok (a &&& b)
  | .or  => .ok (a ||| b)
  | .xor => .ok (a ^^^ b)
  | .floordiv => if b = 0 then .error .zerodiv else .ok (a / b)
  | .mod => if b = 0 then .error .zerodiv else .ok (a % b)
  | .lshift => if b ≥ n then .ok 0 else .ok ((a <<< b) % 2 ^ n)
  | .rshift => .ok (a >>> b)

/-- `x op y` with `x` a Bits -/
def binop (op : BinOp) (x : B) (y : Opnd) : R :=
  match y with
  | .bits b =>
    if b.n ≠ x.n then .error .width else
    match binRaw op x.n x.v b.v with
    | .ok r => .ok ⟨x.n, r⟩
    | .error e => .error e
  | .int k =>
    if k < 0 || k > (upper x.n : Int) then .error .range else
    match binRaw op x.n x.v k.toNat with
    | .ok r => .ok ⟨x.n, r⟩
    | .error e => .error e
  | .other => .error .type

/-- reflected forms `k op x` with `k` not a Bits (`__radd__` …); shifts have no reflected method -/
def rbinop (op : BinOp) (k : Opnd) (x : B) : R :=
  match k with
  | .bits _ => .error .type      -- not reachable from Python: a Bits left operand uses `binop`
  | .other => .error .type
  | .int k =>
    match op with
    | .lshift | .rshift => .error .type
    | .add | .mul | .and | .or | .xor => binop op x (.int k)
    | .sub | .floordiv | .mod =>
      if k < 0 || k > (upper x.n : Int) then .error .range else
      match binRaw op x.n k.toNat x.v with
      | .ok r => .ok ⟨x.n, r⟩
      | .error e => .error e

def invert (x : B) : B := ⟨x.n, maskInt x.n (-(x.v : Int) - 1)⟩

def cmpRaw (op : CmpOp) (a b : Nat) : Bool :=
  match op with
  | .eq => a == b
  | .ne => a != b
  | .lt => a < b
  | .le => a ≤ b
  | .gt => a > b
  | .ge => a ≥ b

def b1 (c : Bool) : B := ⟨1, if c then 1 else 0⟩

/-- `x cmp y` with `x` a Bits -/
def cmpop (op : CmpOp) (x : B) (y : Opnd) : R :=
  match y with
  | .bits b => if b.n ≠ x.n then .error .width else .ok (b1 (cmpRaw op x.v b.v))
  | .int k =>
    if k < 0 || k > (upper x.n : Int) then .error .range
    else .ok (b1 (cmpRaw op x.v k.toNat))
  | .other =>
    match op with
    | .eq => .ok (b1 false)
    | .ne => .ok (b1 true)
    | _ => .error .type

def CmpOp.swap : CmpOp → CmpOp
  | .eq => .eq | .ne => .ne | .lt => .gt | .le => .ge | .gt => .lt | .ge => .le

/-- `k cmp x` : Python calls the swapped method on the Bits -/
def rcmpop (op : CmpOp) (k : Opnd) (x : B) : R := cmpop op.swap x k

/-! ### conversions -/

def toBool (x : B) : Bool := x.v != 0
def toUInt (x : B) : Nat := x.v
/-- `x.int()` : two's complement reading, computed as the code does (`-int(~x + 1)`) -/
def toInt (x : B) : Int :=
  if x.v >>> (x.n - 1) != 0 then
    - ((((invert x).v + 1) % 2 ^ x.n : Nat) : Int)
  else (x.v : Int)

/-! ### indexing and slicing (C05) -/

/-- a slice bound as written by the caller -/
abbrev Bound := Option Int

/-- normalisation + validity test of `__getitem__/__setitem__` for a slice; `none` = IndexError -/
def sliceBounds (n : Nat) (lo hi step : Bound) : Option (Nat × Nat) :=
  if step.isSome then none else
  let start : Int := lo.getD 0
  let stop : Int := hi.getD (n : Int)
  if 0 ≤ start ∧ start < stop ∧ stop ≤ (n : Int) then some (start.toNat, stop.toNat) else none

def getSlice (x : B) (lo hi step : Bound) : R :=
  match sliceBounds x.n lo hi step with
  | none => .error .index
  | some (a, b) => .ok ⟨b - a, (x.v >>> a) % 2 ^ (b - a)⟩

def getBit (x : B) (i : Int) : R :=
  if i ≥ (x.n : Int) ∨ i < 0 then .error .index
  else .ok ⟨1, (x.v >>> i.toNat) % 2⟩

/-- `(sv & ~((1<<stop) - (1<<start))) | (w << start)` on naturals: clear bits [a,b) then OR -/
def pokeRaw (sv a b w : Nat) : Nat :=
  (sv - ((sv >>> a) % 2 ^ (b - a)) * 2 ^ a) + w * 2 ^ a

def setSlice (x : B) (lo hi step : Bound) (v : Opnd) : R :=
  match sliceBounds x.n lo hi step with
  | none => .error .index
  | some (a, b) =>
    let w := b - a
    match v with
    | .bits y => if y.n ≠ w then .error .width else .ok ⟨x.n, pokeRaw x.v a b (y.v % 2 ^ w)⟩
    | .int k =>
      if k < lower w || k > (upper w : Int) then .error .range
      else .ok ⟨x.n, pokeRaw x.v a b (maskInt w k)⟩
    | .other => .error .type

def setBit (x : B) (i : Int) (v : Opnd) : R :=
  if i ≥ (x.n : Int) ∨ i < 0 then .error .index else
  let j := i.toNat
  match v with
  | .bits y => if y.n > 1 then .error .width else .ok ⟨x.n, pokeRaw x.v j (j+1) (y.v % 2)⟩
  | .int k => if k.natAbs > 1 then .error .range else .ok ⟨x.n, pokeRaw x.v j (j+1) (maskInt 1 k)⟩
  | .other => .error .type

/-! ### helpers.py -/

/-- `concat(*args)` : fold `(value << xnb) | x`, then `Bits(nbits, value)` -/
def concatRaw (xs : List B) : Nat × Nat :=
  xs.foldl (fun (acc : Nat × Nat) x => (acc.1 + x.n, acc.2 * 2 ^ x.n + x.v)) (0, 0)

def concat (xs : List B) : R :=
  let (n, v) := concatRaw xs
  ctor n (.int v) false

/-- `trunc(value, new_width)` with an int width -/
def trunc (x : B) (w : Int) : R :=
  if ¬ (w ≤ (x.n : Int)) then .error .assert else ctor w (.int x.v) true
/-- `zext(value, new_width)` with an int width -/
def zext (x : B) (w : Int) : R :=
  if ¬ (w ≥ (x.n : Int)) then .error .assert else ctor w (.int x.v) false
/-- `sext(value, new_width)` with an int width -/
def sext (x : B) (w : Int) : R :=
  if ¬ (w ≥ (x.n : Int)) then .error .assert else ctor w (.int (toInt x)) false

/-- the `BitsN`-typed forms: `BitsN(value.uint(), trunc_int=True)` etc. — no assertion on the width -/
def truncT (x : B) (w : Nat) : R := ctor w (.int x.v) true
def zextT (x : B) (w : Nat) : R := ctor w (.int x.v) false
def sextT (x : B) (w : Nat) : R := ctor w (.int (toInt x)) false

def reduceAnd (x : B) : B := b1 (x.v == 2 ^ x.n - 1)
def reduceOr (x : B) : B := b1 (x.v != 0)

/-- the `while value != 0: pop_count += value & 1; value >>= 1` loop, with fuel = number of bits -/
def popcount : Nat → Nat → Nat
  | 0, _ => 0
  | fuel+1, v => if v = 0 then 0 else v % 2 + popcount fuel (v / 2)

def reduceXor (x : B) : B := b1 (popcount x.n x.v % 2 == 1)

/-- `int.bit_length()` by repeated halving (fuel = the number itself is always enough) -/
def bitLength : Nat → Nat → Nat
  | 0, _ => 0
  | fuel+1, v => if v = 0 then 0 else 1 + bitLength fuel (v / 2)

/-- `clog2(N)` for an integer N > 0 (as repaired): `(N-1).bit_length()`; `none` = AssertionError -/
def clog2 (N : Int) : Option Nat :=
  if N > 0 then some (bitLength (N.toNat) (N.toNat - 1)) else none

/-- `to_vcd_str` -/
def binDigits : Nat → Nat → List Char
  | 0, _ => []
  | w+1, v => binDigits w (v / 2) ++ [if v % 2 = 1 then '1' else '0']

def toVcdStr (x : B) : String :=
  if x.n = 1 then (if x.v % 2 = 1 then "1" else "0")
  else "b" ++ String.ofList (binDigits x.n x.v) ++ " "

end PV.Bits
