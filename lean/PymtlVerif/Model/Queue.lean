/-!
# Model of the pymtl3 library queues (property C17)

Executable, cycle-by-cycle models of every queue class of

* `pymtl3/stdlib/queues/queues.py`        — `NormalQueueRTL/PipeQueueRTL/BypassQueueRTL` (`*CtrlRTL` + `*DpathRTL`
                                             with `RegisterFile` for `num_entries ≥ 2`, `*Queue1EntryRTL` for 1)
* `pymtl3/stdlib/stream/queues.py`        — the val/rdy (`recv`/`send`) flavour of the same six
* `pymtl3/stdlib/queues/enrdy_queues.py`  — `PipeQueue1RTL/BypassQueue1RTL/NormalQueue1RTL/BypassQueue2RTL`
* `pymtl3/stdlib/queues/valrdy_queues.py` — `PipeQueue1RTL/BypassQueue1RTL/NormalQueue1RTL/NormalQueueRTL(n)`
* `pymtl3/stdlib/queues/cl_queues.py`     — `PipeQueueCL/BypassQueueCL/NormalQueueCL`

and of the specification `specStep`: an abstract FIFO (a list, oldest first) with the advertised
same-cycle behaviour of the three kinds. Every model follows the code of its class: the registers it has,
its wrap tests, the widths of its `Bits` arithmetic, and what (if anything) reset does.

One cycle of every machine is `step : σ → In α → σ × Out α`: the outputs are those visible after
`sim_eval_combinational()` with the inputs applied, the new state is the one after `sim_tick()`.
No Mathlib; linked into `pv_queue`.
-/
namespace PV.Queue

inductive Kind | normal | pipe | bypass
  deriving DecidableEq, Repr

/-- Inputs of one cycle. `enq`: `enq.en` / `recv.val` / `enq.val` / "the producer wants to enqueue" (CL);
`deq`: `deq.en` (give interface) / `send.rdy` / `deq.rdy` / "the consumer wants to dequeue" (CL). -/
structure In (α : Type) where
  rst : Bool
  enq : Bool
  msg : α
  deq : Bool

/-- Outputs of one cycle. `enqRdy`: `enq.rdy` / `recv.rdy`; `deqRdy`: `deq.rdy` / `send.val` / `deq.val`
(for the `enrdy_queues.py` classes, whose dequeue side is a send interface: the output `deq.en`);
`ret`: the message on `deq.ret` / `send.msg` / `deq.msg` when `deqRdy`; `count`: the `count` port
(`num_free_entries` for `valrdy_queues.NormalQueueRTL`; the `full` register / `len(queue)` for classes without
a count port). -/
structure Out (α : Type) where
  enqRdy : Bool
  deqRdy : Bool
  ret    : Option α
  count  : Nat
  deriving DecidableEq, Repr

/-! ## Specification -/

/-- What differs between the interface families (not between queue kinds). -/
structure Style where
  /-- reset empties the queue -/
  reset    : Bool
  /-- both ready outputs are forced low while reset is high (`queues.py`) -/
  gate     : Bool
  /-- the dequeue side is a send interface: the observable is `deq.en = deq.rdy ∧ data available` (`enrdy_queues.py`) -/
  push     : Bool
  /-- the count output is `num_free_entries` (capacity while reset is high) (`valrdy_queues.NormalQueueRTL`) -/
  free     : Bool
  /-- the enqueue side is an en/rdy interface: a legal producer raises `en` only when `rdy` -/
  enqEnRdy : Bool
  /-- the dequeue side is an en/rdy (give) interface: a legal consumer raises `en` only when `rdy` -/
  deqEnRdy : Bool
  deriving DecidableEq, Repr

/-- enqueue is possible iff not full; a pipe queue also when full if a dequeue is offered this cycle -/
def enqLaw (k : Kind) (n len : Nat) (deq : Bool) : Bool :=
  match k with
  | .pipe => decide (len < n) || deq
  | _     => decide (len < n)

/-- dequeue is possible iff not empty; a bypass queue also when empty if an enqueue is offered this cycle -/
def deqLaw (k : Kind) (len : Nat) (enq : Bool) : Bool :=
  match k with
  | .bypass => decide (len > 0) || enq
  | _       => decide (len > 0)

/-- `FIFO_spec(kind, n)`: one cycle of the abstract queue `l` (oldest message first). -/
def specStep {α} (st : Style) (k : Kind) (n : Nat) (l : List α) (i : In α) : List α × Out α :=
  let live := !(st.gate && i.rst)
  let er := live && enqLaw k n l.length i.deq
  let dr := live && deqLaw k l.length i.enq
  let ex := i.enq && er
  let dx := i.deq && dr
  let l1 := if ex then l ++ [i.msg] else l
  let l2 := if dx then l1.tail else l1
  let front : α := match l with | x :: _ => x | [] => i.msg
  let dv := if st.push then dx else dr
  ( if st.reset && i.rst then [] else l2,
    { enqRdy := er, deqRdy := dv, ret := if dv then some front else none,
      count := if st.free then (if i.rst then n else n - l.length) else l.length } )

/-- protocol legality of one cycle, judged on the ready outputs of that same cycle -/
def Legal {α} (st : Style) (o : Out α) (i : In α) : Prop :=
  (st.enqEnRdy = true → i.enq = true → o.enqRdy = true) ∧
  (st.deqEnRdy = true → i.deq = true → o.deqRdy = true)

instance {α} (st : Style) (o : Out α) (i : In α) : Decidable (Legal st o i) := by
  unfold Legal; exact inferInstance

/-! ## Observables: the ledger of the handshakes seen at the ports

The FIFO clauses of the property are stated on what an observer of the ports sees: `accepted` (an enqueue
handshake happened), `delivered` (a dequeue handshake happened), and the two lists of messages accepted and
delivered since the last cycle in which a reset took effect. -/

/-- an enqueue handshake happens in this cycle -/
def accepted {α} (i : In α) (o : Out α) : Bool := i.enq && o.enqRdy

/-- a dequeue handshake happens in this cycle (`push`: the queue itself raises `deq.en`) -/
def delivered {α} (st : Style) (i : In α) (o : Out α) : Bool := if st.push then o.deqRdy else i.deq && o.deqRdy

structure Ledger (α : Type) where
  acc : List α      -- messages accepted, oldest first
  del : List α      -- messages delivered, oldest first

def Ledger.step {α} (st : Style) (L : Ledger α) (i : In α) (o : Out α) : Ledger α :=
  if st.reset && i.rst then ⟨[], []⟩
  else ⟨ if accepted i o then L.acc ++ [i.msg] else L.acc,
         if delivered st i o then L.del ++ o.ret.toList else L.del ⟩

def ledgerFrom {α} (st : Style) : Ledger α → List (In α) → List (Out α) → Ledger α
  | L, i :: is, o :: os => ledgerFrom st (L.step st i o) is os
  | L, _, _ => L

/-- the ledger after the history `is` with outputs `os` -/
def ledger {α} (st : Style) (is : List (In α)) (os : List (Out α)) : Ledger α := ledgerFrom st ⟨[], []⟩ is os

/-! ## Running a machine over a history -/

def run {σ α} (step : σ → In α → σ × Out α) : σ → List (In α) → List (Out α)
  | _, [] => []
  | s, i :: is => (step s i).2 :: run step (step s i).1 is

def runState {σ α} (step : σ → In α → σ × Out α) : σ → List (In α) → σ
  | s, [] => s
  | s, i :: is => runState step (step s i).1 is

/-- every cycle of the history is protocol-legal with respect to the outputs `os` -/
def LegalTrace {α} (st : Style) : List (In α) → List (Out α) → Prop
  | i :: is, o :: os => Legal st o i ∧ LegalTrace st is os
  | _, _ => True

def LegalTrace.dec {α} (st : Style) : (is : List (In α)) → (os : List (Out α)) → Decidable (LegalTrace st is os)
  | [], _ => isTrue (by simp [LegalTrace])
  | _ :: _, [] => isTrue (by simp [LegalTrace])
  | i :: is, o :: os =>
    match (inferInstance : Decidable (Legal st o i)), LegalTrace.dec st is os with
    | isTrue h1, isTrue h2 => isTrue ⟨h1, h2⟩
    | isFalse h1, _ => isFalse (fun h => h1 h.1)
    | _, isFalse h2 => isFalse (fun h => h2 h.2)

instance {α} (st : Style) (is : List (In α)) (os : List (Out α)) : Decidable (LegalTrace st is os) :=
  LegalTrace.dec st is os

/-! ## Bit widths (`clog2`, `mk_bits`) -/

/-- `clog2` of `pymtl3/datatypes/helpers.py` for positive arguments -/
def clog2 (n : Nat) : Nat := if n ≤ 1 then 0 else Nat.log2 (n - 1) + 1

/-- value of a `Bits(w)` after an arithmetic result `x` is truncated to the width -/
def trunc (w x : Nat) : Nat := x % 2 ^ w

/-- `p + PtrType(1) if p < last_idx else PtrType(0)` with `PtrType = mk_bits(clog2(n))`, `last_idx = PtrType(n-1)`
(`queues.py up_reg`; `stream/queues.py`: `s.tail + 1 if s.tail < num_entries - 1 else 0`) -/
def ptrInc (n p : Nat) : Nat :=
  if p < trunc (clog2 n) (n - 1) then trunc (clog2 n) (p + 1) else 0

/-- `s.count + CountType(1)` with `CountType = mk_bits(clog2(n+1))` -/
def cntInc (n c : Nat) : Nat := trunc (clog2 (n + 1)) (c + 1)

/-- `s.count - CountType(1)` (two's complement wrap) -/
def cntDec (n c : Nat) : Nat := trunc (clog2 (n + 1)) (c + 2 ^ clog2 (n + 1) - 1)

/-! ## `queues.py` / `stream/queues.py`: `*QueueCtrlRTL` + `*QueueDpathRTL` (`RegisterFile`) -/

structure Ring (α : Type) where
  head  : Nat
  tail  : Nat
  count : Nat
  regs  : Nat → α      -- RegisterFile.regs

def Ring.init {α} (d : α) : Ring α := ⟨0, 0, 0, fun _ => d⟩

/-- One cycle of `NormalQueueRTL/PipeQueueRTL/BypassQueueRTL` for `num_entries ≥ 2`.
`gate = true`: `queues.py` (`enq_rdy //= ~s.reset & (...)`, `deq_rdy //= ~s.reset & (...)`);
`gate = false`: `stream/queues.py` (`recv_rdy`, `send_val` do not look at reset).
`up_reg` resets head/tail/count; the register file has no reset and is written whenever `wen = enq_xfer`. -/
def ringStep {α} (gate : Bool) (k : Kind) (n : Nat) (s : Ring α) (i : In α) : Ring α × Out α :=
  let live := !(gate && i.rst)
  let notFull := decide (s.count < trunc (clog2 (n + 1)) n)       -- s.count < s.num_entries
  let notEmpty := decide (s.count > 0)
  let enqRdy := match k with
    | .pipe => live && (notFull || i.deq)
    | _     => live && notFull
  let deqRdy := match k with
    | .bypass => live && (notEmpty || i.enq)
    | _       => live && notEmpty
  let enqXfer := i.enq && enqRdy
  let deqXfer := i.deq && deqRdy
  -- BypassQueueDpathRTL: mux_sel = (count == 0) selects enq_msg, otherwise RegisterFile rdata[raddr = head]
  let ret : α := match k with
    | .bypass => if s.count = 0 then i.msg else s.regs s.head
    | _       => s.regs s.head
  let regs' := if enqXfer then (fun a => if a = s.tail then i.msg else s.regs a) else s.regs
  let s' : Ring α :=
    if i.rst then { head := 0, tail := 0, count := 0, regs := regs' }
    else
      { head  := if deqXfer then ptrInc n s.head else s.head
        tail  := if enqXfer then ptrInc n s.tail else s.tail
        count := if enqXfer && !deqXfer then cntInc n s.count
                 else if !enqXfer && deqXfer then cntDec n s.count else s.count
        regs  := regs' }
  (s', { enqRdy := enqRdy, deqRdy := deqRdy, ret := if deqRdy then some ret else none, count := s.count })

/-! ## one-entry queues: a `full` bit and an `entry` register -/

structure One (α : Type) where
  full  : Bool
  entry : α

def One.init {α} (d : α) : One α := ⟨false, d⟩

def b2n (b : Bool) : Nat := if b then 1 else 0

/-- `queues.py`: `NormalQueue1EntryRTL`, `PipeQueue1EntryRTL`, `BypassQueue1EntryRTL`.
The flip-flop blocks use `enq.en` / `deq.en` directly (not `en & rdy`); `entry` has no reset. -/
def q1Step {α} (k : Kind) (s : One α) (i : In α) : One α × Out α :=
  let nr := !i.rst
  match k with
  | .normal =>
    let enqRdy := nr && !s.full
    let deqRdy := nr && s.full
    ( { full := nr && (!i.deq && (i.enq || s.full)), entry := if i.enq then i.msg else s.entry },
      { enqRdy := enqRdy, deqRdy := deqRdy, ret := if deqRdy then some s.entry else none, count := b2n s.full } )
  | .pipe =>
    let enqRdy := nr && (!s.full || i.deq)
    let deqRdy := s.full && nr
    ( { full := nr && (i.enq || (s.full && !i.deq)), entry := if i.enq then i.msg else s.entry },
      { enqRdy := enqRdy, deqRdy := deqRdy, ret := if deqRdy then some s.entry else none, count := b2n s.full } )
  | .bypass =>
    let enqRdy := nr && !s.full
    let deqRdy := nr && (s.full || i.enq)
    let mux : α := if s.full then s.entry else i.msg           -- bypass_mux: sel = full
    ( { full := nr && (!i.deq && (i.enq || s.full)), entry := if i.enq && !i.deq then i.msg else s.entry },
      { enqRdy := enqRdy, deqRdy := deqRdy, ret := if deqRdy then some mux else none, count := b2n s.full } )

/-- `stream/queues.py`: `NormalQueue1EntryRTL`, `PipeQueue1EntryRTL`, `BypassQueue1EntryRTL`
(`enq` = `recv.val`, `deq` = `send.rdy`; outputs `recv.rdy`, `send.val`, `send.msg`). Reset clears `full` only. -/
def s1Step {α} (k : Kind) (s : One α) (i : In α) : One α × Out α :=
  match k with
  | .normal =>
    let recvRdy := !s.full
    let sendVal := s.full
    ( { full := if i.rst then false else (i.enq && !s.full) || (s.full && !i.deq),
        entry := if i.enq && !s.full then i.msg else s.entry },
      { enqRdy := recvRdy, deqRdy := sendVal, ret := if sendVal then some s.entry else none, count := b2n s.full } )
  | .pipe =>
    let recvRdy := i.deq || !s.full
    let sendVal := s.full
    ( { full := if i.rst then false else !recvRdy || i.enq,
        entry := if recvRdy && i.enq then i.msg else s.entry },
      { enqRdy := recvRdy, deqRdy := sendVal, ret := if sendVal then some s.entry else none, count := b2n s.full } )
  | .bypass =>
    let recvRdy := !s.full
    let sendVal := s.full || i.enq
    let mux : α := if s.full then s.entry else i.msg
    ( { full := if i.rst then false else !i.deq && (s.full || i.enq),
        entry := if !i.deq && !s.full && i.enq then i.msg else s.entry },
      { enqRdy := recvRdy, deqRdy := sendVal, ret := if sendVal then some mux else none, count := b2n s.full } )

/-- `enrdy_queues.py`: `NormalQueue1RTL`, `PipeQueue1RTL`, `BypassQueue1RTL` — the raw signals
`(state', enq.rdy, deq.en, deq.msg)`. `enq` = `enq.en`, `deq` = the consumer's `deq.rdy`.
`full` is a `Reg` (no reset) in the normal and pipe queue, a `RegRst` in the bypass queue; `buffer` is a `RegEn`. -/
def er1Raw {α} (k : Kind) (s : One α) (i : In α) : One α × Bool × Bool × α :=
  match k with
  | .normal =>
    let deqEn := s.full && i.deq
    ( { full := (!s.full && i.enq) || (!i.deq && i.enq) || (!i.deq && s.full),
        entry := if i.enq then i.msg else s.entry },
      !s.full, deqEn, s.entry )
  | .pipe =>
    let deqEn := s.full && i.deq
    ( { full := i.enq || (s.full && !i.deq), entry := if i.enq then i.msg else s.entry },
      !s.full || i.deq, deqEn, s.entry )
  | .bypass =>
    let deqEn := (i.enq || s.full) && i.deq
    let nextFull := (i.enq || s.full) && !deqEn
    ( { full := if i.rst then false else nextFull, entry := if i.enq && !deqEn then i.msg else s.entry },
      !s.full, deqEn, if s.full then s.entry else i.msg )

def er1Step {α} (k : Kind) (s : One α) (i : In α) : One α × Out α :=
  let r := er1Raw k s i
  (r.1, { enqRdy := r.2.1, deqRdy := r.2.2.1, ret := if r.2.2.1 then some r.2.2.2 else none, count := b2n s.full })

/-- `enrdy_queues.BypassQueue2RTL`: `enq → q1 → q2 → deq`, two `BypassQueue1RTL`;
`q1.deq.rdy = q2.enq.rdy`, `q2.enq.en = q1.deq.en`, `q2.enq.msg = q1.deq.msg`. -/
def er2Step {α} (s : One α × One α) (i : In α) : (One α × One α) × Out α :=
  let q2rdy := !s.2.full                                   -- q2.enq.rdy
  let r1 := er1Raw .bypass s.1 { i with deq := q2rdy }
  let r2 := er1Raw .bypass s.2 { rst := i.rst, enq := r1.2.2.1, msg := r1.2.2.2, deq := i.deq }
  ((r1.1, r2.1), { enqRdy := r1.2.1, deqRdy := r2.2.2.1, ret := if r2.2.2.1 then some r2.2.2.2 else none,
                   count := b2n s.1.full + b2n s.2.full })

/-- `valrdy_queues.py`: `NormalQueue1RTL`, `PipeQueue1RTL`, `BypassQueue1RTL` (`enq` = `enq.val`, `deq` = `deq.rdy`;
outputs `enq.rdy`, `deq.val`, `deq.msg`). `full` is a plain flip-flop (`s.full <<= s.next_full`): no reset. -/
def v1Step {α} (k : Kind) (s : One α) (i : In α) : One α × Out α :=
  match k with
  | .normal =>
    let enqRdy := !s.full
    let bufEn := i.enq && enqRdy
    ( { full := (s.full && !i.deq) || bufEn, entry := if bufEn then i.msg else s.entry },
      { enqRdy := enqRdy, deqRdy := s.full, ret := if s.full then some s.entry else none, count := b2n s.full } )
  | .pipe =>
    let enqRdy := !s.full || i.deq
    let bufEn := i.enq && enqRdy
    ( { full := i.enq || (s.full && !i.deq), entry := if bufEn then i.msg else s.entry },
      { enqRdy := enqRdy, deqRdy := s.full, ret := if s.full then some s.entry else none, count := b2n s.full } )
  | .bypass =>
    let enqRdy := !s.full
    let deqVal := s.full || i.enq
    let bufEn := !i.deq && (i.enq && enqRdy)
    let mux : α := if s.full then s.entry else i.msg
    ( { full := !i.deq && deqVal, entry := if bufEn then i.msg else s.entry },
      { enqRdy := enqRdy, deqRdy := deqVal, ret := if deqVal then some mux else none, count := b2n s.full } )

/-! ## `valrdy_queues.NormalQueueRTL(num_entries, Type)`: full bit + two pointers + `num_free_entries` -/

structure VRing (α : Type) where
  enqPtr : Nat
  deqPtr : Nat
  full   : Bool
  nfe    : Nat        -- last value of the `num_free_entries` wire (the `comb` block has a branch that does not assign it)
  regs   : Nat → α

def VRing.init {α} (d : α) : VRing α := ⟨0, 0, false, 0, fun _ => d⟩

/-- `NormalQueueRTLCtrl.comb / up_ctrl_signals / seq` + `NormalQueueRTLDpath` (`RegisterFile`), `num_entries ≥ 2`.
The count output carries `num_free_entries`. -/
def vrStep {α} (n : Nat) (s : VRing α) (i : In α) : VRing α × Out α :=
  let aw := clog2 n
  let cw := clog2 (n + 1)
  let lastIdx := trunc aw (n - 1)
  let empty := !s.full && decide (s.enqPtr = s.deqPtr)
  let enqRdy := !s.full
  let deqVal := !empty
  let doEnq := enqRdy && i.enq
  let doDeq := i.deq && deqVal
  let enqInc := if s.enqPtr = lastIdx then 0 else trunc aw (s.enqPtr + 1)
  let deqInc := if s.deqPtr = lastIdx then 0 else trunc aw (s.deqPtr + 1)
  let enqNext := if doEnq then enqInc else s.enqPtr
  let deqNext := if doDeq then deqInc else s.deqPtr
  let nfe :=
    if i.rst then trunc cw n
    else if s.full then 0
    else if empty then trunc cw n
    else if s.enqPtr > s.deqPtr then
      -- s.num_entries - zext(s.enq_ptr - s.deq_ptr, SizeType): int minus Bits, in SizeType
      trunc cw (n + 2 ^ cw - trunc aw (s.enqPtr + 2 ^ aw - s.deqPtr))
    else if s.deqPtr > s.enqPtr then trunc aw (s.deqPtr + 2 ^ aw - s.enqPtr)
    else s.nfe
  let fullNext := doEnq && !doDeq && decide (enqNext = s.deqPtr)
  let regs' := if doEnq then (fun a => if a = s.enqPtr then i.msg else s.regs a) else s.regs
  let s' : VRing α :=
    { enqPtr := if i.rst then 0 else enqNext
      deqPtr := if i.rst then 0 else deqNext
      full   := if i.rst then false else if fullNext then true else if doDeq && s.full then false else s.full
      nfe    := nfe
      regs   := regs' }
  (s', { enqRdy := enqRdy, deqRdy := deqVal, ret := if deqVal then some (s.regs s.deqPtr) else none, count := nfe })

/-! ## `cl_queues.py`: `deque` models; the same-cycle order is the one the method constraints impose -/

/-- The state is the `deque` (`appendleft` = cons, `pop` = remove last). One cycle = the producer block
(`if q.enq.rdy() and want: q.enq(msg)`) and the consumer block (`if q.deq.rdy() and want: q.deq()`), in the order
fixed by `add_constraints`: pipe `M(deq) < M(enq)`, bypass `M(enq) < M(deq)`, normal: `up_pulse` samples both
ready flags before either method. There is no reset behaviour. -/
def clStep {α} (k : Kind) (n : Nat) (q : List α) (i : In α) : List α × Out α :=
  match k with
  | .pipe =>
    let deqRdy := decide (q.length > 0)
    let q1 := if i.deq && deqRdy then q.dropLast else q
    let enqRdy := decide (q1.length < n)
    let q2 := if i.enq && enqRdy then i.msg :: q1 else q1
    (q2, { enqRdy := enqRdy, deqRdy := deqRdy, ret := if deqRdy then q.getLast? else none, count := q.length })
  | .bypass =>
    let enqRdy := decide (q.length < n)
    let q1 := if i.enq && enqRdy then i.msg :: q else q
    let deqRdy := decide (q1.length > 0)
    let q2 := if i.deq && deqRdy then q1.dropLast else q1
    (q2, { enqRdy := enqRdy, deqRdy := deqRdy, ret := if deqRdy then q1.getLast? else none, count := q.length })
  | .normal =>
    let enqRdy := decide (q.length < n)
    let deqRdy := decide (q.length > 0)
    let q1 := if i.deq && deqRdy then q.dropLast else q
    let q2 := if i.enq && enqRdy then i.msg :: q1 else q1
    (q2, { enqRdy := enqRdy, deqRdy := deqRdy, ret := if deqRdy then q.getLast? else none, count := q.length })

/-! ## The classes -/

inductive Cls
  | qNormal | qPipe | qBypass                       -- queues.py
  | sNormal | sPipe | sBypass                       -- stream/queues.py
  | erNormal1 | erPipe1 | erBypass1 | erBypass2     -- enrdy_queues.py
  | vrNormal1 | vrPipe1 | vrBypass1 | vrNormalN     -- valrdy_queues.py
  | clNormal | clPipe | clBypass                    -- cl_queues.py
  deriving DecidableEq, Repr

def Cls.kind : Cls → Kind
  | .qNormal | .sNormal | .erNormal1 | .vrNormal1 | .vrNormalN | .clNormal => .normal
  | .qPipe | .sPipe | .erPipe1 | .vrPipe1 | .clPipe => .pipe
  | .qBypass | .sBypass | .erBypass1 | .erBypass2 | .vrBypass1 | .clBypass => .bypass

/-- capacity of the class instantiated with parameter `n` -/
def Cls.cap : Cls → Nat → Nat
  | .erNormal1, _ | .erPipe1, _ | .erBypass1, _ | .vrNormal1, _ | .vrPipe1, _ | .vrBypass1, _ => 1
  | .erBypass2, _ => 2
  | _, n => n

/-- the capacities the class can be built with (`valrdy NormalQueueRTL(1)` fails: `mk_bits(clog2(1))`) -/
def Cls.capOK : Cls → Nat → Prop
  | .vrNormalN, n => 2 ≤ n
  | _, n => 1 ≤ n

def styleQ  : Style := ⟨true,  true,  false, false, true,  true ⟩   -- queues.py
def styleS  : Style := ⟨true,  false, false, false, false, false⟩   -- stream/queues.py, valrdy NormalQueueRTL (+free)
def styleER : Style := ⟨false, false, true,  false, true,  false⟩   -- enrdy Normal1/Pipe1: no reset at all
def styleEB : Style := ⟨true,  false, true,  false, true,  false⟩   -- enrdy Bypass1/Bypass2: RegRst
def styleV1 : Style := ⟨false, false, false, false, false, false⟩   -- valrdy 1-entry, CL: no reset behaviour
def styleVN : Style := ⟨true,  false, false, true,  false, false⟩   -- valrdy NormalQueueRTL

def Cls.style : Cls → Style
  | .qNormal | .qPipe | .qBypass => styleQ
  | .sNormal | .sPipe | .sBypass => styleS
  | .erNormal1 | .erPipe1 => styleER
  | .erBypass1 | .erBypass2 => styleEB
  | .vrNormal1 | .vrPipe1 | .vrBypass1 => styleV1
  | .vrNormalN => styleVN
  | .clNormal | .clPipe | .clBypass => styleV1

/-- The outputs of class `c` (capacity parameter `n`, registers initially holding `d`) over the input history `is`.
`queues.py` and `stream/queues.py` instantiate the one-entry class when `num_entries == 1`. -/
def runCls {α} (c : Cls) (n : Nat) (d : α) (is : List (In α)) : List (Out α) :=
  match c with
  | .qNormal | .qPipe | .qBypass =>
    if n = 1 then run (q1Step c.kind) (One.init d) is else run (ringStep true c.kind n) (Ring.init d) is
  | .sNormal | .sPipe | .sBypass =>
    if n = 1 then run (s1Step c.kind) (One.init d) is else run (ringStep false c.kind n) (Ring.init d) is
  | .erNormal1 | .erPipe1 | .erBypass1 => run (er1Step c.kind) (One.init d) is
  | .erBypass2 => run er2Step (One.init d, One.init d) is
  | .vrNormal1 | .vrPipe1 | .vrBypass1 => run (v1Step c.kind) (One.init d) is
  | .vrNormalN => run (vrStep n) (VRing.init d) is
  | .clNormal | .clPipe | .clBypass => run (clStep c.kind n) [] is

/-- the specification's outputs over the same history -/
def runSpec {α} (st : Style) (k : Kind) (n : Nat) (is : List (In α)) : List (Out α) :=
  run (specStep st k n) [] is

end PV.Queue
