/-! Kahn's topological sort with an arbitrary tie-break oracle: model of `schedule_intra_cycle` in
`SimpleSchedulePass.py` (random.shuffle + pop) and `HeuristicTopoPass.py` (priority queue). Mathlib-free. -/
namespace PV.Kahn
variable {α : Type} [DecidableEq α]

/-- vertices whose predecessors have all been emitted and which have not been emitted themselves -/
def ready (V : List α) (E : List (α × α)) (done : List α) : List α :=
  V.filter (fun v => decide (v ∉ done) && E.all (fun e => decide (e.2 = v → e.1 ∈ done)))

/-- `pick` is the tie-break oracle (random shuffle, priority queue, …): any function choosing an index -/
def kahn (pick : List α → Nat) (V : List α) (E : List (α × α)) : Nat → List α → List α
  | 0, done => done.reverse
  | fuel+1, done =>
    match h : ready V E done with
    | [] => done.reverse
    | r :: rs =>
      let v := (r :: rs)[pick (r :: rs) % (r :: rs).length]'(Nat.mod_lt _ (by simp))
      kahn pick V E fuel (v :: done)


end PV.Kahn
