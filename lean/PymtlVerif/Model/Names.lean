/-!
# Module / struct naming and the component table of the translators (C13)

Executable model, written from the pymtl3 code as it is:

* `suffix`, `fullName`      — `get_component_full_name` (pymtl3/passes/rtlir/util/utility.py):
                              class name + `__<arg>_<str image of value>` per `construct` parameter, or `_noparam`
* `PVal.image`              — its local `get_string` (types by `__name__`, bitstruct classes by their RTLIR name,
                              everything else by `str()`): *different values can have the same image*
* `uniqueName`              — `get_component_unique_name` (pymtl3/passes/backends/verilog/util/utility.py):
                              the `len < 64 and no special character` test, else class name + `__` + hash of the
                              parameter suffix. The hash (blake2b, 8 bytes, hex) is the parameter `H`.
* `DT.fullName`, `structName` — `Vector/Struct/PackedArray.get_full_name`, `Struct.get_name`
                              (pymtl3/passes/rtlir/rtype/RTLIRDataType.py)
* `translateAll`, `Tree.post` — `translate_component` of `RTLIRTranslator.translate`
                              (pymtl3/passes/backends/generic/RTLIRTranslator.py): post-order walk over
                              `get_child_components(repr)` (children sorted by `repr`), `if name not in components`
                              (first writer wins), dict insertion order = order of the emitted modules
* `translateChecked`        — the same walk with the proposed repair (name present ⇒ bodies must be equal)
* `skeleton`                — order of ports / interface ports / update blocks of one module
                              (`get_ports_packed`, `get_ifc_views_packed` sort by name; `translate_behavioral` sorts
                              combinational blocks by name, then sequential blocks by name)
* `wfModules`               — the checker run on the module table scanned from emitted text
-/
namespace PV.Names

/-! ## names -/

/-- `''.join('__' + k + '_' + v)` over the (ordered) parameter list -/
def suffix : List (String × String) → String
  | [] => ""
  | (k, v) :: ps => "__" ++ k ++ "_" ++ v ++ suffix ps

def fullName (cls : String) (ps : List (String × String)) : String :=
  if ps.isEmpty then cls ++ "_noparam" else cls ++ suffix ps

/-- the part of the full name after the class name (`full_name[len(comp_name):]`), which is what is hashed -/
def nameTail (ps : List (String × String)) : String :=
  if ps.isEmpty then "_noparam" else suffix ps

def specialChars : List Char := [' ', '<', '>', '.', '[', ']']

def hasSpecial (s : String) : Bool := s.toList.any (fun c => specialChars.contains c)

/-- the shape of `get_component_unique_name`, with the test that decides "use the full name as it is" left open -/
def uniqueNameWith (ok : String → Bool) (H : String → String) (cls : String) (ps : List (String × String)) : String :=
  let f := fullName cls ps
  if f.length < 64 && ok f then f else cls ++ "__" ++ H (nameTail ps)

/-- `get_component_unique_name` as it is: the full name is kept unless it contains one of six special characters -/
def uniqueName (H : String → String) (cls : String) (ps : List (String × String)) : String :=
  uniqueNameWith (fun f => !hasSpecial f) H cls ps

/-- RTLIR data types, as far as their names are concerned -/
inductive DT where
  | vec (n : Nat)
  | struct (cls : String) (fields : List (String × DT))
  | arr (dims : List Nat) (sub : DT)
deriving Repr, Inhabited

mutual
  /-- `get_full_name` -/
  def DT.fullName : DT → String
    | .vec n => toString n
    | .struct cls fs => cls ++ "__" ++ fieldStr fs
    | .arr dims sub => sub.fullName ++ "x" ++ "x".intercalate (dims.map toString)
  /-- `Struct.get_field_str`: `'__'.join(name + '_' + type.get_full_name())` -/
  def fieldStr : List (String × DT) → String
    | [] => ""
    | [(n, t)] => n ++ "_" ++ t.fullName
    | (n, t) :: f :: fs => n ++ "_" ++ t.fullName ++ "__" ++ fieldStr (f :: fs)
end

/-- `Struct.get_name`: only the length test, no special-character test -/
def structName (H : String → String) (cls : String) (fs : List (String × DT)) : String :=
  let full := DT.fullName (.struct cls fs)
  if full.length < 64 then full else cls ++ "__" ++ H (fieldStr fs)

def hexDigits (n : Nat) : String := String.ofList (Nat.toDigits 16 n)

/-- `str(BitsN(v))`: lower-case hex, zero-padded to ceil(n/4) digits -/
def bitsStr (n v : Nat) : String :=
  let d := hexDigits v
  String.ofList (List.replicate ((n + 3) / 4 - d.length) '0') ++ d

/-- a `construct` argument, as far as `get_string` distinguishes them -/
inductive PVal where
  | int (i : Int)
  | bool (b : Bool)
  | str (s : String)
  | none
  | bits (n v : Nat)
  | type (name : String)                              -- a class that is not a bitstruct (BitsN included): `__name__`
  | structT (cls : String) (fs : List (String × DT))  -- a bitstruct class: the name of its RTLIR type
  | other (s : String)                                -- anything else: `str(obj)` as observed
deriving Repr, Inhabited

def PVal.image (H : String → String) : PVal → String
  | .int i => toString i
  | .bool b => if b then "True" else "False"
  | .str s => s
  | .none => "None"
  | .bits n v => bitsStr n v
  | .type n => n
  | .structT cls fs => structName H cls fs
  | .other s => s

def images (H : String → String) (ps : List (String × PVal)) : List (String × String) :=
  ps.map (fun kv => (kv.1, kv.2.image H))

/-! ## the component table -/

abbrev Table (β : Type) := List (String × β)

def Table.has {β : Type} (t : Table β) (n : String) : Bool := t.any (fun e => e.1 == n)

/-- `if name not in components: components[name] = ...` (dict insertion order = list order) -/
def insertIfAbsent {β : Type} (t : Table β) (nb : String × β) : Table β :=
  if t.has nb.1 then t else t ++ [nb]

/-- the walk over the instances in post-order -/
def translateAll {β : Type} (is : List (String × β)) : Table β :=
  is.foldl insertIfAbsent []

/-- the proposed repair of `translate_component`: a name that is already present must come with the same body -/
def insertChecked {β : Type} [DecidableEq β] (t : Table β) (nb : String × β) : Except String (Table β) :=
  match t.lookup nb.1 with
  | none => .ok (t ++ [nb])
  | some b => if b = nb.2 then .ok t else .error nb.1

def translateCheckedFrom {β : Type} [DecidableEq β] : Table β → List (String × β) → Except String (Table β)
  | t, [] => .ok t
  | t, nb :: rest =>
    match insertChecked t nb with
    | .ok t' => translateCheckedFrom t' rest
    | .error e => .error e

def translateChecked {β : Type} [DecidableEq β] (is : List (String × β)) : Except String (Table β) :=
  translateCheckedFrom [] is

/-- stable insertion sort by a string key (Python `sorted(key=...)`): `x` goes before the first element whose key is
not smaller, so elements with equal keys keep their order -/
def insertByKey {α : Type} (key : α → String) (x : α) : List α → List α
  | [] => [x]
  | y :: ys => if key y < key x then y :: insertByKey key x ys else x :: y :: ys

def sortByKey {α : Type} (key : α → String) : List α → List α
  | [] => []
  | x :: xs => insertByKey key x (sortByKey key xs)

/-- the instance hierarchy: `repr` of the instance (`s.a.b[3]`), module name, body, children (in any order) -/
inductive Tree (β : Type) where
  | node (repr : String) (name : String) (body : β) (children : List (Tree β))
deriving Repr, Inhabited

def Tree.repr {β : Type} : Tree β → String
  | .node r _ _ _ => r

mutual
  /-- the (name, body) sequence in the order `translate_component` reaches the instances -/
  def Tree.post {β : Type} : Tree β → List (String × β)
    | .node _ n b cs => ((sortByKey (fun kv => kv.1) (postKids cs)).flatMap (fun kv => kv.2)) ++ [(n, b)]
  def postKids {β : Type} : List (Tree β) → List (String × List (String × β))
    | [] => []
    | c :: cs => (c.repr, c.post) :: postKids cs
end

def translateTree {β : Type} (t : Tree β) : Table β := translateAll t.post

/-- instances (by position in the walk) whose own body is not the body the table holds under their name -/
def aliased {β : Type} [DecidableEq β] (is : List (String × β)) : List (String × β) :=
  let t := translateAll is
  is.filter (fun nb => t.lookup nb.1 != some nb.2)

/-! ## order of ports and blocks inside one module -/

/-- an interface: name, its ports, nested interfaces -/
inductive Ifc where
  | mk (name : String) (ports : List String) (subs : List Ifc)
deriving Repr, Inhabited

def Ifc.name : Ifc → String
  | .mk n _ _ => n

mutual
  /-- flattened port names of an interface: its own ports sorted by name, then its nested interfaces sorted by name -/
  def Ifc.flat : Ifc → List String
    | .mk n ps subs =>
      ((sortByKey id ps) ++ (sortByKey (fun kv => kv.1) (flatKids subs)).flatMap (fun kv => kv.2)).map
        (fun p => n ++ "__" ++ p)
  def flatKids : List Ifc → List (String × List String)
    | [] => []
    | i :: is => (i.name, i.flat) :: flatKids is
end

/-- ports sorted by name, then the interfaces sorted by name -/
def portOrder (ports : List String) (ifcs : List Ifc) : List String :=
  sortByKey id ports ++ (sortByKey (fun kv => kv.1) (flatKids ifcs)).flatMap (fun kv => kv.2)

/-- combinational blocks sorted by name, then sequential blocks sorted by name -/
def blockOrder (comb seq : List String) : List String :=
  sortByKey id comb ++ sortByKey id seq

/-! ## the checker for a scanned module table -/

def verilogReserved : List String := [
  "always", "and", "assign", "begin", "buf", "bufif0", "bufif1", "case",
  "casex", "casez", "cmos", "deassign", "default", "defparam", "disable",
  "edge", "else", "end", "endcase", "endmodule", "endfunction", "endprimitive",
  "endspecify", "endtable", "endtask", "event", "for", "force", "forever",
  "fork", "function", "highz0", "highz1", "if", "ifnone", "initial",
  "inout", "input", "output", "integer", "join", "large", "macromodule",
  "medium", "module", "nand", "negedge", "nmos", "nor", "not", "notif0",
  "notif1", "or", "parameter", "pmos", "posedge", "primitive",
  "pull0", "pull1", "pullup", "pulldown", "rcmos", "real", "realtime",
  "reg", "release", "repeat", "rnmos", "rpmos", "rtran", "rtranif0",
  "rtranif1", "scalared", "small", "specify", "specparam", "strong0",
  "strong1", "supply0", "supply1", "table", "task", "time", "tran",
  "tranif0", "tranif1", "tri", "tri0", "tri1", "triand", "trior",
  "trireg", "vectored", "wait", "wand", "weak0", "weak1", "while",
  "wire", "wor", "xnor", "xor",
  "automatic", "cell", "config", "design", "endconfig", "endgenerate",
  "generate", "genvar", "incdir", "include", "instance", "liblist",
  "library", "localparam", "noshowcancelled", "pulsestyle_onevent",
  "pulsestyle_ondetect", "showcancelled", "signed", "unsigned", "use",
  "uwire",
  "alias", "always_comb", "always_ff", "always_latch", "assert", "assume",
  "before", "bind", "bins", "binsof", "bit", "break", "byte", "chandle",
  "class", "clocking", "const", "constraint", "context", "continue",
  "cover", "covergroup", "coverpoint", "cross", "dist", "do", "endclass",
  "endclocking", "endgroup", "endinterface", "endpackage",
  "endprogram", "endproperty", "endsequence", "enum", "expect", "export",
  "extends", "extern", "final", "first_match", "foreach", "forkjoin",
  "iff", "ignore_bins", "illegal_bins", "import", "inside", "int", "interface",
  "intersect", "join_any", "join_none", "local", "logic", "longint", "matches",
  "modport", "new", "null", "package", "packed", "priority", "program",
  "property", "protected", "pure", "rand", "randc", "randcase", "randsequence",
  "ref", "return", "sequence", "shortint", "shortreal", "solve", "static",
  "string", "struct", "super", "tagged", "this", "throughout", "timeprecision",
  "timeunit", "type", "typedef", "union", "unique", "var", "virtual", "void",
  "wait_order", "wildcard", "with", "within"]

def isIdStart (c : Char) : Bool := c.isAlpha || c == '_'
def isIdChar (c : Char) : Bool := c.isAlphanum || c == '_' || c == '$'

/-- `[A-Za-z_][A-Za-z0-9_$]*` -/
def idShape (s : String) : Bool :=
  match s.toList with
  | [] => false
  | c :: cs => isIdStart c && cs.all isIdChar

def legalId (s : String) : Bool := idShape s && !verilogReserved.contains s

/-- the proposed repair of `get_component_unique_name`: the full name is kept only if it is an identifier -/
def uniqueNameR (H : String → String) (cls : String) (ps : List (String × String)) : String :=
  uniqueNameWith idShape H cls ps

structure Module where
  name : String
  /-- identifiers declared in the module's scope: ports, nets/variables, localparams, instance names, block labels -/
  ids : List String
  /-- instantiations: (module name, instance name) -/
  insts : List (String × String)
deriving Repr, Inhabited

structure ModTable where
  /-- names of `typedef`s (compilation-unit scope) -/
  typedefs : List String
  modules : List Module
deriving Repr, Inhabited

def nodupB : List String → Bool
  | [] => true
  | x :: xs => !xs.contains x && nodupB xs

def ModTable.names (t : ModTable) : List String := t.modules.map (·.name)

def wfModule (defined : List String) (m : Module) : Bool :=
  legalId m.name && m.ids.all legalId && nodupB m.ids &&
  m.insts.all (fun i => defined.contains i.1 && m.ids.contains i.2)

def wfModules (t : ModTable) : Bool :=
  nodupB t.names && nodupB t.typedefs && t.typedefs.all legalId && t.modules.all (wfModule t.names)

/-- which clause fails first, and where (diagnostics for the harness; `ok` iff `wfModules`) -/
def wfDiag (t : ModTable) : String × String :=
  if !nodupB t.names then ("module-defined-twice", "")
  else if !nodupB t.typedefs then ("typedef-defined-twice", "")
  else if !t.typedefs.all legalId then ("illegal-typedef-name", "")
  else match t.modules.find? (fun m => !wfModule t.names m) with
    | none => ("ok", "")
    | some m =>
      if !legalId m.name then ("illegal-module-name", m.name)
      else if !m.ids.all legalId then ("illegal-identifier", m.name)
      else if !nodupB m.ids then ("duplicate-identifier", m.name)
      else ("undefined-module-or-instance", m.name)


/-! ## identifiers built by `__`-joining user names (flattened wires, instance names) and struct type names:
well-formedness of the user names

Written from
* `VStructuralTranslatorL3.rtlir_tr_interface_decl` (`f"{ifc_id}__{tr['id']}"`, nested interfaces
  `f'{port_id}__{name}'`), `VStructuralTranslatorL4.rtlir_tr_subcomp_decl` (wire `f"{c_id}__{dscp['id']}"`, instance
  `c_id + '__' + str(idx)` per list dimension), `rtlir_tr_subcomp_ifc_port_decl` (`f'{ifc_id}__{port_id}'`);
* `YosysStructuralTranslatorL1.port_gen` / `_port_conn_gen` (`f"{id_}__{idx}"` per list dimension),
  `YosysStructuralTranslatorL2.struct_gen` / `wire_struct_gen` (`id_+"__"+name` per field), `_packed_gen`
  (`f"{id_}__{i}"`), and the L3 / L4 twins of the Verilog backend;
* `NamedObject.__setattr_for_elaborate__` (`if name[0] != '_'`: an attribute whose name starts with `_` is never a
  hardware object), Python identifiers (never empty, never start with a digit).

Every identifier of a module scope that stands for a hardware object is `"__".join(segments)` where a segment is a
user name (port, wire, interface, sub-component, struct field) or a decimal list index. -/

/-- one step of the path of a hardware object below its component -/
inductive Seg where
  | name (s : String)
  | idx (i : Nat)
deriving DecidableEq, Repr, Inhabited

def Seg.str : Seg → String
  | .name s => s
  | .idx i => toString i

/-- the identifier a path is declared under -/
def flatId (p : List Seg) : String := "__".intercalate (p.map Seg.str)

/-- `__` occurs in the character list -/
def hasDunderL : List Char → Bool
  | [] => false
  | c :: r => (c == '_' && r.head? == some '_') || hasDunderL r

/-- **well-formed user name**: not empty, does not start with `_` or a digit, contains no `__`.
(A trailing `_` is allowed: `in_`, `type_`.) -/
def okNameL (s : List Char) : Bool :=
  match s with
  | [] => false
  | c :: _ => c != '_' && !c.isDigit && !hasDunderL s

def okName (s : String) : Bool := okNameL s.toList

def Seg.ok : Seg → Bool
  | .name s => okName s
  | .idx _ => true

/-- the identifiers that more than one of the given paths is declared under (one entry per declaration) -/
def flatCollisions (ps : List (List Seg)) : List String :=
  let ids := ps.map flatId
  ids.filter (fun x => ids.count x > 1)

/-- a field type whose name can be read back from a struct name: a vector, or a list (at least one dimension) of
vectors -/
def DT.flatLeaf : DT → Bool
  | .vec _ => true
  | .arr dims (.vec _) => !dims.isEmpty
  | _ => false

/-- a struct without nested structs whose field names are well formed -/
def flatStruct (fs : List (String × DT)) : Bool :=
  !fs.isEmpty && fs.all (fun f => okName f.1 && f.2.flatLeaf)

/-- widths of the vectors a value of the type is made of, first field first (the packed layout) -/
def DT.leafWidths : DT → List Nat
  | .vec n => [n]
  | .struct _ fs => leafWidthsFields fs
  | .arr dims sub => (List.replicate (dims.foldl (· * ·) 1) sub.leafWidths).flatten
where
  leafWidthsFields : List (String × DT) → List Nat
    | [] => []
    | (_, t) :: fs => t.leafWidths ++ leafWidthsFields fs

end PV.Names
