import PymtlVerif.Model.Rtl
/-!
A small IR of the *generated SCC super-block* (the `wrapped_SCC_<k>` function the three cyclic-capable schedulers
compile from a text template) and its executable semantics.  Used by C11 (`Props/C11w.lean`, `Driver/LoopIR.lean`).

The three real templates, all of the form `N = 0; while True: <body>`:

* `DynamicSchedulePass.schedule_intra_cycle` and `Mamba2020Pass.compile_scc`
      N += 1
      if N > 100: raise UpblkCyclicError(...)
      host=<h1>; t1=host.x.clone(); t2=host.y.clone(); host=<h2>; t3=host.z.clone()
      <run the group once>
      host=<h1>
      if host.x != t1 or host.y != t2: continue
      host=<h2>
      if host.z != t3: continue
      break
  = `{ vars := [x, y, z], pre := some 100, post := [test ⟨[(0,ne),(1,ne)], or, cont⟩, test ⟨[(2,ne)], or, cont⟩], fall := brk }`
* `OpenLoopCLPass.schedule_with_top_level_callee`
      num_iters += 1
      t0 = s.x.clone(); t1 = s.y.clone()
      for blk in scc: blk()
      if s.x == t0 and s.y == t1: break
      if num_iters > 100: raise UpblkCyclicError(...)
  = `{ vars := [x, y], pre := none, post := [test ⟨[(0,eq),(1,eq)], and, brk⟩, raiseIf 100], fall := cont }`
  (101 sweeps are possible before the error is raised: the bound is tested after the sweep).

What the IR fixes (and the harness' parser enforces, otherwise the wrapper is "outside the IR"): the counter is incremented
first in the body; every variable is snapshotted before the sweep, in every iteration; one sweep per iteration; every
comparison is between a variable and its *own* snapshot.  What it leaves free: whether / where the bound is tested, the
comparison operator of every literal, conjunction or disjunction, `break` or `continue` on every test, and what happens at
the end of the body.

The semantics is generic in the state type (`σ`) so that the native driver executes *this very loop* on its table
representation; `IR.run` is the instance on the bit-level states of `Model/Rtl.lean`.

Mathlib-free: linked into the native driver `pv_loopir`.
-/
namespace PV.LoopIR
open PV.Rtl

inductive Exit where
  | brk | cont
deriving DecidableEq, Repr, Inhabited

/-- `if l1 <and|or> l2 ...: <break|continue>`; a literal `(j, true)` is `var_j == t_j`, `(j, false)` is `var_j != t_j` -/
structure Test where
  lits : List (Nat × Bool)
  all : Bool
  act : Exit
deriving Repr, Inhabited

/-- a statement after the sweep -/
inductive Post where
  | test (t : Test)
  | raiseIf (b : Nat)          -- `if N > b: raise UpblkCyclicError`
deriving Repr, Inhabited

structure IR where
  vars : List Rng              -- variable j, snapshotted (`t_j = var_j.clone()`) before the sweep in every iteration
  pre : Option Nat             -- `if N > b: raise UpblkCyclicError` in front of the sweep
  post : List Post             -- after the sweep, in order
  fall : Exit                  -- the end of the body: a bare `break`, or falling off the end / a bare `continue`
deriving Repr, Inhabited

inductive Res (σ : Type) where
  | ret (s : σ)                -- the super-block returned
  | raised                     -- UpblkCyclicError
  | timeout                    -- still looping after `fuel` iterations (a hang, if it happens for every fuel)

/-- outcome of the statements after the sweep -/
inductive Out where
  | brk | cont | raise
deriving DecidableEq, Repr

def Exit.out : Exit → Out
  | .brk => .brk
  | .cont => .cont

section generic
variable {σ : Type} (same : Rng → σ → σ → Bool)

/-- value of one literal; `s` is the state when the snapshots were taken, `s'` the state after the sweep.
An index outside `vars` would be a NameError in Python; `IR.ok` excludes it. -/
def litVal (vars : List Rng) (s s' : σ) (l : Nat × Bool) : Bool :=
  match vars[l.1]? with
  | some r => if l.2 then same r s s' else !same r s s'
  | none => false

def Test.holds (vars : List Rng) (s s' : σ) (t : Test) : Bool :=
  if t.all then t.lits.all (litVal same vars s s') else t.lits.any (litVal same vars s s')

def runPost (ir : IR) (N : Nat) (s s' : σ) : List Post → Out
  | [] => ir.fall.out
  | .test t :: ps => if t.holds same ir.vars s s' then t.act.out else runPost ir N s s' ps
  | .raiseIf b :: ps => if N > b then .raise else runPost ir N s s' ps

/-- the bound test in front of the sweep -/
def IR.preRaises (ir : IR) (N : Nat) : Bool :=
  match ir.pre with
  | some b => decide (N > b)
  | none => false

/-- `while True: N += 1; [if N > b: raise]; snapshots; sweep; post`, at most `fuel` iterations, counter starting at `N` -/
def runG (sweep : σ → σ) (ir : IR) : Nat → Nat → σ → Res σ
  | 0, _, _ => .timeout
  | f+1, N, s =>
    if ir.preRaises (N + 1) then .raised else
    match runPost same ir (N + 1) s (sweep s) ir.post with
    | .brk => .ret (sweep s)
    | .raise => .raised
    | .cont => runG sweep ir f (N + 1) (sweep s)

/-- the loop of `Model/Rtl.iterate`, generic in the state type -/
def iterateG (sweep : σ → σ) (stable : σ → σ → Bool) : Nat → σ → Option σ
  | 0, _ => none
  | f+1, s => if stable s (sweep s) then some (sweep s) else iterateG sweep stable f (sweep s)

end generic

/-- the stability test of one watched range on bit-level states (the inner test of `Rtl.iterate`) -/
def sameRng (r : Rng) (s s' : St) : Bool := (List.range r.w).all (fun i => s (r.sig, r.lo + i) == s' (r.sig, r.lo + i))

/-- the super-block described by `ir` around the group `scc`, from state `s` -/
def IR.run (ir : IR) (scc : List Blk) (fuel : Nat) (s : St) : Res St := runG sameRng (runBlocks scc) ir fuel 0 s

/-! ### the normal class -/

/-- `if v1 != t1 or v2 != t2 ...: continue` (re-run when a compared variable changed) -/
def Test.isChangedCont (t : Test) : Bool :=
  t.act == .cont && t.lits.all (fun l => !l.2) && (!t.all || t.lits.length == 1)

/-- `if v1 == t1 and v2 == t2 ...: break` (leave when every compared variable is unchanged) -/
def Test.isSameBrk (t : Test) : Bool :=
  t.act == .brk && t.lits.all (fun l => l.2) && (t.all || t.lits.length == 1)

def Post.idx : Post → List Nat
  | .test t => t.lits.map (·.1)
  | .raiseIf _ => []

/-- indices of the compared variables, in the order of the comparisons -/
def IR.idx (ir : IR) : List Nat := ir.post.flatMap Post.idx

/-- the variables that are actually compared: the effective watch list -/
def IR.watch (ir : IR) : List Rng := ir.idx.filterMap (fun j => ir.vars[j]?)

/-- the shape of `DynamicSchedulePass` / `Mamba2020Pass` -/
def IR.formD (ir : IR) : Bool :=
  ir.pre.isSome && ir.fall == .brk &&
  ir.post.all (fun p => match p with | .test t => t.isChangedCont | .raiseIf _ => false)

/-- the shape of `OpenLoopCLPass` -/
def IR.formO (ir : IR) : Bool :=
  ir.pre.isNone && ir.fall == .cont &&
  (match ir.post with | [.test t, .raiseIf _] => t.isSameBrk | _ => false)

/-- the normal class: every compared variable exists and the body has one of the two shapes -/
def IR.ok (ir : IR) : Bool :=
  ir.idx.all (fun j => decide (j < ir.vars.length)) && (ir.formD || ir.formO)

/-- number of sweeps after which the error is raised -/
def IR.fuel (ir : IR) : Nat :=
  match ir.pre, ir.post with
  | some b, _ => b
  | none, [_, .raiseIf b] => b + 1
  | none, _ => 0

/-! ### whole schedules whose SCC entries carry their own loop -/

inductive EntryIR where
  | blk (b : Blk)
  | scc (bs : List Blk) (ir : IR)
deriving Repr, Inhabited

def runEntriesIR (fuel : Nat) : List EntryIR → St → Res St
  | [], s => .ret s
  | .blk b :: es, s => runEntriesIR fuel es (b.run s)
  | .scc bs ir :: es, s =>
    match ir.run bs fuel s with
    | .ret s' => runEntriesIR fuel es s'
    | .raised => .raised
    | .timeout => .timeout

def EntryIR.toEntry : EntryIR → Entry
  | .blk b => .blk b
  | .scc bs ir => .scc bs ir.watch

def entriesOK (es : List EntryIR) : Bool :=
  es.all (fun e => match e with | .blk _ => true | .scc _ ir => ir.ok)

/-- the largest bound of the SCC entries -/
def entriesFuel : List EntryIR → Nat
  | [] => 0
  | .blk _ :: es => entriesFuel es
  | .scc _ ir :: es => max ir.fuel (entriesFuel es)

end PV.LoopIR
