import PymtlVerif.Model.Nets
/-!
# Model of the structural part of the translators: which `assign` is emitted in which module

Written from the code as it is in

* `pymtl3/passes/backends/generic/structural/StructuralTranslatorL1.py`, `gen_connections( top )`:
  `for writer, net in nets:` (only the writer is used) `S = deque([writer]); visited = {writer}; while S: u = S.pop();
  for v in adjs[u]: if v not in visited: visited.add(v); S.append(v); <file (u, v)>` — `traverse` (the stack machine is
  `PV.Nets.walk`, the same LIFO walk `_check_port_in_nets` makes; `adjs[u]` is a Python *set*: the order in which it is
  iterated is the oracle `nb`); the four-case hosting rule, in the code's order, `else: raise TypeError` — `hostOf`;
  `_inst_conns[host].add((u, v))` — `filed`;
* `pymtl3/passes/rtlir/structural/StructuralRTLIRGenL1Pass.py`, `_gen_metadata( m )`: `ordered_conns = [*m.get_connect_order()]`,
  every statement `x` stays if `x in m_conns_set`, else becomes `(x[1], x[0])` which must be in the set (`assert`, turned
  into `RTLIRConversionError` by `__call__`) — `orient`, `emitFrom`, `emit`; `StructuralRTLIRGenL4Pass` does this for every
  component of the hierarchy — `assigns`, `accepted`;
* the back ends (`StructuralTranslatorL1.translate_connections`, `VStructuralTranslatorL1.rtlir_tr_connection`): one
  `assign <reader> = <writer>;` per pair of the `connections` metadata of a component, in that order, in that component's
  module — a pair `(c, (u, v))` of `assigns` is the statement `assign v = u;` in the module of `c`;
* `pymtl3/dsl/ComponentLevel3.py`: `_connect_signal_signal` / `_connect_signal_const` append `(o1, o2)` to the
  `connect_order` of the component whose `construct` executes the statement (`get_connect_order()`) and add both directions to
  its adjacency sets; `_collect_vars` unions them into `get_signal_adjacency_dict()` — `Hier.stmts`, `Hier.edges`, `Hier.nbrs`;
  `get_all_value_nets()` = `[(writer, members)]` — `Hier.nets`.

Components are numbered from 1 (`top`); **0 stands for Python's `None`** (`top.get_parent_object()`), `par[0] = 0`. With
this convention the fourth case `writer_host_parent == reader_host_parent` files under `None` when both hosts are parentless,
exactly as the code would (it cannot happen in a hierarchy with one root: then both hosts are `top` and the first case applies).
Signals (ports, wires, slices, struct fields, constants of connect statements) are numbered by the harness.
-/
namespace PV.SConn
open PV.Nets (Edge adj walk nodesOf dedup)

abbrev Comp := Nat
abbrev Sig := Nat
abbrev Pair := Sig × Sig

inductive Err where
  | typeError      -- `raise TypeError( "unexpected connection type!" )` in `gen_connections`
  | conversion     -- "There is a connection missing from connect_order" → `RTLIRConversionError`
deriving DecidableEq, Repr

def Err.pyClass : Err → String
  | .typeError => "TypeError"
  | .conversion => "RTLIRConversionError"

structure Hier where
  /-- `par[c]` = `c.get_parent_object()`; index 0 is `None` -/
  par : List Comp
  /-- `host[s]` = `s.get_host_component()` -/
  host : List Comp
  /-- every connect statement, tagged with the component that executed it; the statements of one component are in
  source order (`get_connect_order()`), pairs as written (`(o1, o2)`) -/
  stmts : List (Comp × Pair)
  /-- `get_all_value_nets()`: `(writer, members)` -/
  nets : List (Sig × List Sig)
deriving Repr

def Hier.parent (H : Hier) (c : Comp) : Comp := H.par.getD c 0
def Hier.hostC (H : Hier) (s : Sig) : Comp := H.host.getD s 0

/-- `m.get_connect_order()` -/
def Hier.connectOrder (H : Hier) (c : Comp) : List Pair := (H.stmts.filter (fun s => s.1 == c)).map (·.2)

/-- the connections of the whole hierarchy (what the adjacency dict is made of) -/
def Hier.edges (H : Hier) : List Edge := H.stmts.map (·.2)

/-- `get_signal_adjacency_dict()[u]` in the order of the statements (one of the possible iteration orders of the set) -/
def Hier.nbrs (H : Hier) (u : Sig) : List Sig := dedup (adj H.edges u)

/-- every popped signal is new, so `|signals that occur in a statement| + 2` pops are never exceeded
(`Proofs/SConn.lean: traverse_complete`, `traverse_fuel`) -/
def Hier.fuel (H : Hier) : Nat := (nodesOf H.edges).length + 2

/-- the traversal of one net from its writer: the pairs `(u, v)` in the order they are filed; `nb u` = the order in which
`adjs[u]` is iterated -/
def traverse (H : Hier) (nb : Sig → List Sig) (w : Sig) : List Pair := walk nb H.fuel [w] [w]

/-- all pairs `gen_connections` files, net after net -/
def treeEdges (H : Hier) (nb : Sig → List Sig) : List Pair := H.nets.flatMap (fun n => traverse H nb n.1)

/-- the four cases, in the code's order; `none` = `TypeError` -/
def hostOf (H : Hier) (p : Pair) : Option Comp :=
  let wh := H.hostC p.1
  let rh := H.hostC p.2
  let wp := H.parent wh
  let rp := H.parent rh
  if wh = rh then some wh
  else if wp = rh then some rh
  else if wh = rp then some wh
  else if wp = rp then some wp
  else none

/-! `…Of` versions take the list of filed pairs as an argument (the driver computes it once); the plain versions are these
applied to `treeEdges H nb`. -/

/-- `gen_connections` raises -/
def typeErrOf (H : Hier) (T : List Pair) : Bool := T.any (fun e => (hostOf H e).isNone)
def typeErr (H : Hier) (nb : Sig → List Sig) : Bool := typeErrOf H (treeEdges H nb)

/-- `_inst_conns[c]` -/
def filedOf (H : Hier) (T : List Pair) (c : Comp) : List Pair := T.filter (fun e => hostOf H e == some c)
def filed (H : Hier) (nb : Sig → List Sig) (c : Comp) : List Pair := filedOf H (treeEdges H nb) c

/-- `x` if it is in the set, else the swapped pair if that is, else the assertion fails -/
def orient (F : List Pair) (x : Pair) : Option Pair :=
  if x ∈ F then some x else if (x.2, x.1) ∈ F then some (x.2, x.1) else none

/-- the loop over `ordered_conns` -/
def emitFrom (F : List Pair) : List Pair → Except Err (List Pair)
  | [] => .ok []
  | x :: xs =>
    match orient F x with
    | none => .error .conversion
    | some y =>
      match emitFrom F xs with
      | .error e => .error e
      | .ok ys => .ok (y :: ys)

/-- the `connections` metadata of component `c` (writer side first), or the error -/
def emitOf (H : Hier) (T : List Pair) (c : Comp) : Except Err (List Pair) := emitFrom (filedOf H T c) (H.connectOrder c)
def emit (H : Hier) (nb : Sig → List Sig) (c : Comp) : Except Err (List Pair) := emitOf H (treeEdges H nb) c

/-- every statement with its orientation, tagged with the module it is emitted in, in statement order; the assigns of
component `c` are the `c`-tagged ones, in this order (`Proofs/SConnEmit.lean: emit_eq_assigns`) -/
def assignsOf (H : Hier) (T : List Pair) : List (Comp × Pair) :=
  H.stmts.filterMap (fun s => (orient (filedOf H T s.1) s.2).map (fun y => (s.1, y)))
def assigns (H : Hier) (nb : Sig → List Sig) : List (Comp × Pair) := assignsOf H (treeEdges H nb)

/-- the translator goes through: no `TypeError`, no component with an unfiled statement -/
def acceptedOf (H : Hier) (T : List Pair) : Bool :=
  !typeErrOf H T && H.stmts.all (fun s => (orient (filedOf H T s.1) s.2).isSome)
def accepted (H : Hier) (nb : Sig → List Sig) : Bool := acceptedOf H (treeEdges H nb)

/-- what the whole translation raises first: `gen_connections` runs in the translator's constructor, before the pass -/
def verdictOf (H : Hier) (T : List Pair) : Option Err :=
  if typeErrOf H T then some .typeError else if acceptedOf H T then none else some .conversion
def verdict (H : Hier) (nb : Sig → List Sig) : Option Err := verdictOf H (treeEdges H nb)

/-! ### preconditions the driver evaluates on every request -/

def sameMembers (a b : List Nat) : Bool := a.all (fun x => decide (x ∈ b)) && b.all (fun x => decide (x ∈ a))

def nodupB : List Nat → Bool
  | [] => true
  | a :: l => !decide (a ∈ l) && nodupB l

/-- `nb` enumerates every adjacency set without repetition -/
def validOrderB (H : Hier) (nb : Sig → List Sig) : Bool :=
  (nodesOf H.edges).all (fun u => nodupB (nb u) && sameMembers (nb u) (adj H.edges u))

/-- no component states the same pair twice (either way round): `_connect_signal_signal` skips such a statement -/
def stmtsNodupB (H : Hier) : Bool :=
  let keys := H.stmts.map (fun s => (s.1, PV.Nets.normEdge s.2))
  decide (dedup keys = keys)

/-- `all pairs (earlier, later)` of a list satisfy `r` -/
def pairwiseB {α : Type} (r : α → α → Bool) : List α → Bool
  | [] => true
  | a :: l => l.all (r a) && pairwiseB r l

/-- the net list is what elaboration leaves: the members of a net are the connected component of its writer, the writers
of different nets are not connected, every signal that occurs in a statement is in the component of some writer -/
def netsOkB (H : Hier) : Bool :=
  let cs := H.nets.map (fun n => (n, PV.Nets.netOf H.edges n.1))      -- each component computed once
  cs.all (fun c => PV.Nets.sortDedup c.1.2 == c.2) &&
  pairwiseB (fun a b => !decide (b.1.1 ∈ a.2)) cs &&
  H.edges.all (fun e => cs.any (fun c => decide (e.1 ∈ c.2)))

/-- ids in range, `None` is its own parent, nothing is hosted by `None`, no statement is executed by `None` -/
def Hier.wf (H : Hier) : Bool :=
  decide (H.par.head? = some 0) &&
  H.par.all (fun p => decide (p < H.par.length)) &&
  H.host.all (fun h => decide (0 < h) && decide (h < H.par.length)) &&
  H.stmts.all (fun s => decide (0 < s.1) && decide (s.1 < H.par.length) &&
    decide (s.2.1 < H.host.length) && decide (s.2.2 < H.host.length)) &&
  H.nets.all (fun n => decide (n.1 < H.host.length) && n.2.all (fun m => decide (m < H.host.length)))

end PV.SConn
