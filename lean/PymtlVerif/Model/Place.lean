/-!
# Model of the placement rules for assignment targets in update blocks

Which left-hand sides `pymtl3` accepts under which assignment operator, in which kind of block, and which signal objects
the analysis records for them.  Written from the code as it is:

* `pymtl3/dsl/AstHelper.py`
  * `DetectReadsWritesCalls.enter` — the names the block binds (`ast.Name` in `Store` context anywhere in the statement:
    plain / tuple / nested-tuple loop targets, comprehension variables, temporaries, walrus, `with … as`) are removed from
    the module-level names: `Tgt.names`, `Scope.bound`;
  * `DetectVarNames._get_full_name_starting_py39` — how an index expression is recorded: a literal, a closure name or a
    module-level name is a *constant* index, everything else (`s.sel`, `i + 1`, a name bound in the block, `int(x)`) is
    `"*"`: `classify`; a trailing slice is kept as a slice only when *both* bounds are literals / closure / module-level
    names, and is recorded as `"*"` otherwise (fix 744e2f6): `Tail`, `tailSteps`;
* `pymtl3/dsl/ComponentLevel2.py`, `_elaborate_read_write_func.extract_obj_from_names`
  * `lookup_variable` / `expand_array_index` — from the recorded name to the set of objects (`objs`) and the signals of
    which only a run-time-selected part is accessed (`part_objs`, fix ed2bf03): `expand`, `resolve`;
  * the write checks (operator per block kind, top-level test of `<<=`): `verdict`; helper functions (`@s.func`) are
    analysed with `is_write = False`: no operator rule applies inside them, except that `<<=` on a bit / slice / run-time
    selected part of a signal is rejected (fix c472181), and `_collect_vars` marks the top-level signal of whatever a
    helper reached from an `update_ff` block writes as a flip-flop: `marked`.

A component attribute is a rectangular (possibly 0-dimensional) Python list of signals of dimensions `dims`; an element
is named by its index path.  What the statement does at run time is `dynPath` (which element) / `Target.isWhole` (all of
it or a part).
-/
namespace PV.Place

/-! ## 1. names bound by the block -/

/-- a binding target: `i`, `(i, v)`, `(i, (j, v))`, `*rest`, or something that binds no name (`s.x`, `a[0]`) -/
inductive Tgt where
  | name (x : String)
  | pair (a b : Tgt)
  | starred (t : Tgt)
  | other
deriving Repr, Inhabited

/-- `{ x.id for x in ast.walk( tgt ) if isinstance( x, ast.Name ) and isinstance( x.ctx, ast.Store ) }` -/
def Tgt.names : Tgt → List String
  | .name x => [x]
  | .pair a b => a.names ++ b.names
  | .starred t => t.names
  | .other => []

/-- does the target bind `x` in Python (`x` is one of its leaves) -/
inductive Tgt.Binds (x : String) : Tgt → Prop where
  | name : Tgt.Binds x (.name x)
  | left {a b} : Tgt.Binds x a → Tgt.Binds x (.pair a b)
  | right {a b} : Tgt.Binds x b → Tgt.Binds x (.pair a b)
  | starred {t} : Tgt.Binds x t → Tgt.Binds x (.starred t)

structure Scope where
  /-- free variables of the block function (`co_freevars`) with the integer in their cell -/
  closure : List (String × Nat)
  /-- module-level names (`func.__globals__`) holding integers -/
  globals : List (String × Nat)
  /-- every binding target of the statements of the block: loop targets, assignment targets, comprehension variables … -/
  tgts : List Tgt
deriving Repr, Inhabited

def Scope.bound (sc : Scope) : List String := sc.tgts.flatMap Tgt.names

def lookup (env : List (String × Nat)) (x : String) : Option Nat := (env.find? (fun p => p.1 == x)).map (·.2)

/-! ## 2. index expressions -/

inductive IExpr where
  | num (n : Nat)        -- a literal
  | name (x : String)    -- a bare name
  | dyn (k : Nat)        -- any other expression; its run-time value is component `k` of the valuation
deriving DecidableEq, Repr, Inhabited

inductive SIdx where
  | const (n : Nat)
  | star
deriving DecidableEq, Repr, Inhabited

/-- `_get_full_name`: closure first, then the module-level names *minus the names the block binds* -/
def classify (sc : Scope) : IExpr → SIdx
  | .num n => .const n
  | .name x =>
    match lookup sc.closure x with
    | some v => .const v
    | none =>
      if sc.bound.contains x then .star
      else match lookup sc.globals x with
        | some v => .const v
        | none => .star
  | .dyn _ => .star

/-- run-time valuation: values of the block's local names and of the other index expressions at the moment of the write -/
structure Rt where
  loc : String → Nat
  dynv : Nat → Nat

/-- Python's scoping: a name the function binds is local to it; otherwise the enclosing function's cell, otherwise the module -/
def evalIdx (sc : Scope) (ρ : Rt) : IExpr → Nat
  | .num n => n
  | .name x =>
    if sc.bound.contains x then ρ.loc x
    else match lookup sc.closure x with
      | some v => v
      | none => (lookup sc.globals x).getD (ρ.loc x)
  | .dyn k => ρ.dynv k

/-- a name the function binds is not one of its free variables -/
def Scope.WF (sc : Scope) : Prop := ∀ x ∈ sc.bound, lookup sc.closure x = none

instance (sc : Scope) : Decidable sc.WF := by unfold Scope.WF; exact inferInstance

/-! ## 3. targets and the objects recorded for them -/

inductive Tail where
  | none
  /-- a bit select written after the struct fields (`s.st.a[e]`); without fields it may as well be the last of `subs` -/
  | bit (e : IExpr)
  /-- `[lo:hi]`, both bounds literals / closure names / module-level names: kept as a slice -/
  | sliceC (lo hi : Nat)
  /-- `[lo:hi]` with any other bound (`s.sel`, `i*8`, `K+2`): recorded as `"*"` (fix 744e2f6) -/
  | sliceV
deriving DecidableEq, Repr, Inhabited

/-- `s.attr[e₁]…[eₖ](.field)*[tail]` -/
structure Target where
  subs : List IExpr
  fields : Nat
  tail : Tail
deriving Repr, Inhabited

/-- a recorded object: the list element it belongs to; `fld`: reached through a struct field; `sliced`: a bit / slice object
(`is_sliced_signal()`); `part`: in `part_objs` (a run-time-selected part of it is accessed) -/
structure RObj where
  path : List Nat
  fld : Bool
  sliced : Bool
  part : Bool
deriving DecidableEq, Repr, Inhabited

/-- the index steps `expand_array_index` sees -/
inductive Step where
  | idx (i : SIdx)
  | slc (lo hi : Nat)
deriving DecidableEq, Repr, Inhabited

def tailSteps (sc : Scope) : Tail → List Step
  | .none => []
  | .bit e => [.idx (classify sc e)]
  | .sliceC lo hi => [.slc lo hi]
  | .sliceV => [.idx .star]

def subSteps (sc : Scope) (t : Target) : List Step := t.subs.map (fun e => .idx (classify sc e))

/-- all element paths of a rectangular list -/
def allPaths : List Nat → List (List Nat)
  | [] => [[]]
  | d :: ds => (List.range d).flatMap (fun i => (allPaths ds).map (i :: ·))

def RObj.whole0 (p : List Nat) : RObj := ⟨p, false, false, false⟩

/-- `expand_array_index` (and `lookup_variable` when the indices are exhausted) -/
def expand : List Nat → List Step → List RObj
  | [], [] => [.whole0 []]
  | [], .idx .star :: _ => [⟨[], false, false, true⟩]            -- "Signal[*] is the signal itself … but only a part of it"
  | [], .idx (.const _) :: _ => [⟨[], false, true, false⟩]       -- Signal.__getitem__: a slice object
  | [], .slc _ _ :: _ => [⟨[], false, true, false⟩]
  | ds@(_ :: _), [] => (allPaths ds).map RObj.whole0             -- a whole (sub-)list: every element
  | d :: ds, .idx .star :: r => (List.range d).flatMap (fun i => (expand ds r).map (fun o => { o with path := i :: o.path }))
  | d :: ds, .idx (.const n) :: r =>
    if n < d then (expand ds r).map (fun o => { o with path := n :: o.path }) else []   -- IndexError: nothing recorded
  | d :: ds, .slc lo hi :: _ =>                                 -- a slice of a Python list: its elements (not generated)
    ((List.range d).filter (fun i => lo ≤ i && i < hi)).flatMap (fun i => (allPaths ds).map (fun p => RObj.whole0 (i :: p)))

/-- the struct fields, then the steps after them, applied to one object the list walk ended at (a `"*"` that hit the
signal ended the whole walk) -/
def applyField (tl : List Step) (o : RObj) : RObj :=
  if o.part || o.sliced then o
  else match tl with
    | [] => { o with fld := true }
    | .idx .star :: _ => { o with fld := true, part := true }
    | _ :: _ => { o with fld := true, sliced := true }

def resolve (sc : Scope) (dims : List Nat) (t : Target) : List RObj :=
  if t.fields = 0 then expand dims (subSteps sc t ++ tailSteps sc t.tail)
  else (expand dims (subSteps sc t)).map (applyField (tailSteps sc t.tail))

/-! ## 4. operators, block kinds, verdict -/

inductive Aug where
  | add | sub | mult | div | floorDiv | mod | pow | rshift | bitAnd | bitOr | bitXor
deriving DecidableEq, Repr, Inhabited

inductive AOp where
  | assign            -- `x = e`, `x: T = e`, `x, y = e`, `x = y = e`: a target in Store context outside AugAssign / For
  | forT              -- target of a `for`
  | at                -- `@=`
  | ff                -- `<<=`
  | aug (k : Aug)     -- every other augmented assignment
deriving DecidableEq, Repr, Inhabited

inductive Cls where
  | updateBlockWrite | updateFFBlockWrite | updateFFNonTop
deriving DecidableEq, Repr, Inhabited

inductive Verdict where
  | accept
  | reject (c : Cls)
deriving DecidableEq, Repr, Inhabited

/-- `is_top_level_signal()` and not in `part_objs` -/
def RObj.whole (o : RObj) : Bool := !o.fld && !o.sliced && !o.part

/-- `is_sliced_signal()` or in `part_objs`: assigning to it assigns to a temporary -/
def RObj.cut (o : RObj) : Bool := o.sliced || o.part

/-- `extract_obj_from_names( …, is_write / is_func_write )`; `helper`: the statement sits in an `@s.func` function, where
only the part-select rule of `<<=` applies (fix c472181), whatever block calls the function -/
def verdict (ff helper : Bool) (op : AOp) (objs : List RObj) : Verdict :=
  if helper then
    if op = .ff && objs.any RObj.cut then .reject .updateFFNonTop else .accept
  else if objs.isEmpty then .accept
  else if ff then
    if op ≠ .ff then .reject .updateFFBlockWrite
    else if objs.all RObj.whole then .accept else .reject .updateFFNonTop
  else if op = .at then .accept else .reject .updateBlockWrite

/-- **Proposed repair, not in the tree** (`helper-op-rule`: the operator of every signal write of a helper is recorded in
`_elaborate_read_write_func` and checked in the `dfs` of `_collect_vars` against the kind of the block that reaches the
helper): after the part-select rule, `@=` in a helper reached from an `update_ff` block and `<<=` in a helper reached from
an `update` block are rejected; `=` and the other augmented operators inside helpers stay unchecked (pymtl3's own tests
use `s.a = …` in helpers).  The correspondence uses `verdict` as long as the tree does not have the repair. -/
def verdictStrict (ff helper : Bool) (op : AOp) (objs : List RObj) : Verdict :=
  if helper then
    if op = .ff && objs.any RObj.cut then .reject .updateFFNonTop
    else if objs.isEmpty then .accept
    else if ff && op = .at then .reject .updateFFBlockWrite
    else if !ff && op = .ff then .reject .updateBlockWrite
    else .accept
  else verdict ff false op objs

/-- the operator text of the message (`_aug_op_str`, fix d9e41f0) -/
def Aug.str : Aug → String
  | .add => "+=" | .sub => "-=" | .mult => "*=" | .div => "/=" | .floorDiv => "//=" | .mod => "%=" | .pow => "**="
  | .rshift => ">>=" | .bitAnd => "&=" | .bitOr => "|=" | .bitXor => "^="

def AOp.str : AOp → String
  | .assign => "=" | .forT => "for" | .at => "@=" | .ff => "<<=" | .aug k => k.str

/-- elements whose signal gets `needs_double_buffer` because of this statement when its block is (or its helper is called
from) an `update_ff` block -/
def marked (helper : Bool) (op : AOp) (objs : List RObj) : List (List Nat) :=
  if verdict true helper op objs = .accept then objs.map (·.path) else []

/-! ## 5. what the statement does at run time -/

/-- the element a run of the statement writes to: the leading subscripts index the list -/
def dynPath : List Nat → List Nat → Option (List Nat)
  | [], _ => some []
  | _ :: _, [] => none
  | d :: ds, v :: vs => if v < d then (dynPath ds vs).map (v :: ·) else none

/-- no bit select and no slice of a signal (a slice only of a Python list): whole signals or whole struct fields -/
def Target.noCut (dims : List Nat) (t : Target) : Prop :=
  t.subs.length ≤ dims.length ∧ (t.tail = .none ∨ (t.fields = 0 ∧ t.subs.length < dims.length))

/-- the statement assigns whole signals: moreover no field -/
def Target.isWhole (dims : List Nat) (t : Target) : Prop := t.fields = 0 ∧ t.noCut dims

instance (dims : List Nat) (t : Target) : Decidable (t.noCut dims) := by unfold Target.noCut; exact inferInstance
instance (dims : List Nat) (t : Target) : Decidable (t.isWhole dims) := by unfold Target.isWhole; exact inferInstance

end PV.Place
