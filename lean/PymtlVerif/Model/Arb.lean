/-
Model of `pymtl3/stdlib/basic_rtl/arbiters.py` (`RoundRobinArbiter`, `RoundRobinArbiterEn`) and of the
priority register `RegEnRst( mk_bits(nreqs), reset_value = 1 )` from `pymtl3/stdlib/basic_rtl/registers.py`.

A `Bits` signal is modelled by its unsigned value (a `Nat`); `bit v i` is `v[i]`.
Each update block is written the way the Python block writes it:

* `comb_reqs_int`      → `reqsInt`    (request vector copied into both halves of a 2n-bit wire)
* `comb_priority_int`  → `prioInt`    (priority register in the low half, 0 in the high half)
* `comb_kills`         → `kills`      (`kills[0] = 1`, iteration `i` of the loop writes `kills[i+1]` from `kills[i]`)
* `comb_grants_int`    → `grantsInt`  (iteration `i` writes `grants_int[i]`)
* `comb_grants`        → `grantBit` / `grants` (`grants[i] = grants_int[i] | grants_int[n+i]`, packed into an n-bit value)
* `comb_priority_en`   → `priorityEn` (`grants != 0`, and `& en` in the `En` variant)
* the three `connect`s into `priority_reg.in_` → `regIn` (`in_[0] = grants[n-1]`, `in_[i] = grants[i-1]`)
* `RegEnRst.up_regenrst` → `regEnRst` (`if reset: out <<= 1  elif en: out <<= in_`)

The update blocks form an acyclic combinational network (reqs_int, priority_int → kills → grants_int →
grants → priority_en); the model composes them in that order.  `cycle`/`trace` run whole histories.

Mathlib-free on purpose: this file is linked into the native driver `pv_arb`.
-/
namespace PV.Arb

/-- bit `i` of the value `v` (`v[i]` in PyMTL) -/
def bit (v i : Nat) : Bool := v.testBit i

/-- the n-bit value whose bit `i` is `f i` (bits written one by one into an n-bit signal) -/
def pack : Nat → (Nat → Bool) → Nat
  | 0, _ => 0
  | n+1, f => pack n f + (if f n then 2 ^ n else 0)

/-- `comb_reqs_int`: `reqs_int[0:n] @= reqs ; reqs_int[n:2n] @= reqs` (a `Wire(2n)`: no bit at 2n or above) -/
def reqsInt (n reqs i : Nat) : Bool :=
  if i < n then bit reqs i else if i < 2 * n then bit reqs (i - n) else false

/-- `comb_priority_int`: `priority_int[0:n] @= priority_reg.out ; priority_int[n:2n] @= 0` -/
def prioInt (n prio i : Nat) : Bool :=
  if i < n then bit prio i else false

/-- `comb_kills`, as a function of the bit index:
    `kills[0] @= 1`; iteration `i`: `kills[i+1] @= reqs_int[i]` if `priority_int[i]`
    else `kills[i] | ( ~kills[i] & reqs_int[i] )` -/
def kills (pI rI : Nat → Bool) : Nat → Bool
  | 0 => true
  | i+1 => if pI i then rI i else (kills pI rI i || (!kills pI rI i && rI i))

/-- `comb_grants_int`, iteration `i`: `grants_int[i] @= reqs_int[i]` if `priority_int[i]`
    else `~kills[i] & reqs_int[i]` -/
def grantsInt (pI rI : Nat → Bool) (i : Nat) : Bool :=
  if pI i then rI i else (!kills pI rI i && rI i)

/-- `comb_grants`, iteration `k`: `grants[k] @= grants_int[k] | grants_int[n+k]` -/
def grantBit (n reqs prio k : Nat) : Bool :=
  grantsInt (prioInt n prio) (reqsInt n reqs) k || grantsInt (prioInt n prio) (reqsInt n reqs) (n + k)

/-- the `grants` output port (n bits) for request vector `reqs` and priority register value `prio` -/
def grants (n reqs prio : Nat) : Nat := pack n (grantBit n reqs prio)

/-- `comb_priority_en`: `grants != 0` (RoundRobinArbiter), `( grants != 0 ) & en` (RoundRobinArbiterEn) -/
def priorityEn (hasEn : Bool) (g : Nat) (en : Bool) : Bool :=
  if hasEn then (g != 0) && en else g != 0

/-- `priority_reg.in_`: `in_[1:n] //= grants[0:n-1]`, `in_[0] //= grants[n-1]` (grants rotated left by one) -/
def regIn (n g : Nat) : Nat :=
  pack n (fun i => if i = 0 then bit g (n - 1) else bit g (i - 1))

/-- `RegEnRst( Type, reset_value = 1 ).up_regenrst`: next value of `out` -/
def regEnRst (reset en : Bool) (in_ out : Nat) : Nat :=
  if reset then 1 else if en then in_ else out

/-- the inputs of one clock cycle (`en` is ignored by the plain `RoundRobinArbiter`) -/
structure In where
  reset : Bool
  en : Bool
  reqs : Nat
deriving Repr, Inhabited, DecidableEq

/-- what is observable in one clock cycle -/
structure Cycle where
  prio : Nat        -- priority_reg.out during the cycle
  grants : Nat      -- grants after the combinational blocks settled
  prioEn : Bool     -- the wire priority_en
  next : Nat        -- priority_reg.out after the clock edge
deriving Repr, Inhabited, DecidableEq

/-- one clock cycle: settle the combinational blocks, then the clock edge -/
def cycle (hasEn : Bool) (n s : Nat) (inp : In) : Cycle :=
  let g := grants n inp.reqs s
  let pe := priorityEn hasEn g inp.en
  ⟨s, g, pe, regEnRst inp.reset pe (regIn n g) s⟩

/-- value of the priority register after one cycle -/
def step (hasEn : Bool) (n s : Nat) (inp : In) : Nat := (cycle hasEn n s inp).next

/-- the cycles of a whole input history, starting with register value `s` -/
def trace (hasEn : Bool) (n : Nat) : Nat → List In → List Cycle
  | _, [] => []
  | s, inp :: h => cycle hasEn n s inp :: trace hasEn n (step hasEn n s inp) h

/-- register value after a whole input history -/
def run (hasEn : Bool) (n : Nat) : Nat → List In → Nat
  | s, [] => s
  | s, inp :: h => run hasEn n (step hasEn n s inp) h

/-- register values that occur after some reset cycle (from any earlier value, including the
    uninitialised 0 of a fresh simulation) followed by any history -/
inductive Reachable (hasEn : Bool) (n : Nat) : Nat → Prop where
  | reset (s0 : Nat) (inp : In) : inp.reset = true → Reachable hasEn n (step hasEn n s0 inp)
  | step {s : Nat} (inp : In) : Reachable hasEn n s → Reachable hasEn n (step hasEn n s inp)

/-- cyclic distance from the pointer position `p` to input `k` -/
def dist (n p k : Nat) : Nat := (k + n - p) % n

/-- number of cycles in which the wire `priority_en` is high -/
def enCount (cs : List Cycle) : Nat := (cs.filter (fun c => c.prioEn)).length

end PV.Arb
