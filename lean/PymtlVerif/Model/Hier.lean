/-!
# Model of PyMTL3 hierarchical naming (property C14)

Written from the code as it is in
* `pymtl3/dsl/NamedObject.py` — `__setattr_for_elaborate__` (names an object stored in a slot, or walks
  a (nested) list breadth-first with a queue of `(value, indices)` and names every `NamedObject` it
  finds `name[i][j]…`), `_elaborate_construct` (the top is `s`, level 0), `__repr__` (= `_dsl.full_name`),
  `get_field_name` (= `_dsl.my_name`), `get_parent_object` (= `_dsl.parent_obj`);
* `pymtl3/dsl/Connectable.py` — `Signal.__getattr__` (lazy creation of the signals of a struct field:
  the same breadth-first walk over the field value of the type instance, children stored in the
  signal's `__dict__[name]`, `parent_obj` = the signal, `top_level_signal` inherited),
  `Signal.__getitem__` (an int index `i` is the slice `(i,i+1)`; a slice of a *sliced* signal is
  re-based by the outer start and keyed in the `__dict__` of the outer signal's parent; name
  `parent.full_name + "[lo:hi]"`, `my_name = parent.my_name + "[lo:hi]"`), `get_host_component`
  (walk `parent_obj` up to the first component), `get_top_level_signal`;
* `pymtl3/dsl/Component.py` — `_construct` (every component gets `clk` and `reset` in-ports before
  the user's `construct`), `get_component_level` (= `_dsl.level`, parent's level + 1).

The model has two independent halves that the theorems of `Props/C14.lean` relate:

* the **Python heap and expression evaluation**: `PyVal`, `step`, `run`, `resolve` — what
  `eval("s.a[1].b[2:5]", {'s': top})` walks through (`getattr` on a component / interface, list
  indexing, `Signal.__getattr__`, `Signal.__getitem__` with re-basing);
* the **naming bookkeeping** the code stores in `_dsl`: `Rec`, `childRec`, `fieldRec`, `sliceRec`,
  computed top-down exactly as the code concatenates strings, with the list indices produced by the
  queue algorithm `bfs`.

Object identity is the heap location `Rec.pos` (the chain of `__dict__` keys / list indices from
the top). Lazily created field/slice signals are modelled as a *created set* over the space of
possible children (`Reach` has a rule per way an object can come into existence); the record of a
lazily created object is a function of its location, which is the model's rendering of "created
once and cached under the parent's `__dict__`".
-/
namespace PV.Hier

/-! ## names -/

inductive Tok where
  | root
  | attr (s : String)
  | idx (i : Nat)
  | slice (lo hi : Nat)
deriving DecidableEq, Repr

abbrev Name := List Tok
/-- heap location of an object: keys followed from the top component (identity of the object) -/
abbrev Pos := List Tok

/-- decimal digits as Python's `str(int)` / f-string formatting prints them -/
def digits (n : Nat) : List Char := Nat.toDigits 10 n

def Tok.chars : Tok → List Char
  | .root => ['s']
  | .attr a => '.' :: a.toList
  | .idx i => '[' :: digits i ++ [']']
  | .slice lo hi => '[' :: digits lo ++ ':' :: digits hi ++ [']']

def renderChars (n : Name) : List Char := n.flatMap Tok.chars

/-- the string `repr(obj)` shows for a token list -/
def render (n : Name) : String := String.ofList (renderChars n)

/-! ## construction descriptions -/

mutual
/-- an object with named slots (a component / interface description, or a bitstruct type) -/
inductive Node (α : Type) where
  | mk (tag : α) (slots : List (String × SVal α))
/-- what a slot holds: one object or a (nested) Python list -/
inductive SVal (α : Type) where
  | one (d : Node α)
  | many (xs : List (SVal α))
end

def Node.tag {α} : Node α → α | .mk t _ => t
def Node.slots {α} : Node α → List (String × SVal α) | .mk _ s => s

/-- signal data types: `BitsN`, or a bitstruct whose fields are types or nested lists of types -/
inductive TTag where
  | bits (n : Nat)
  | struct
abbrev Ty := Node TTag

inductive SigKind where | wire | inport | outport
deriving DecidableEq, Repr

inductive DTag where
  | comp | ifc | mport
  | sig (k : SigKind) (ty : Ty)
abbrev Desc := Node DTag

inductive Kind where
  | comp | ifc | mport
  | sig (k : SigKind)
deriving DecidableEq, Repr

def kindOfTag : DTag → Kind
  | .comp => .comp | .ifc => .ifc | .mport => .mport | .sig k _ => .sig k

def bits1 : Ty := .mk (.bits 1) []

/-- the slots `construct` leaves in `__dict__`: `Component._construct` adds `clk` and `reset` first -/
def slotsOf (d : Desc) : List (String × SVal DTag) :=
  match d.tag with
  | .comp => ("clk", .one (.mk (.sig .inport bits1) [])) :: ("reset", .one (.mk (.sig .inport bits1) [])) :: d.slots
  | .ifc => d.slots
  | _ => []

/-- `name[0] != '_'` -/
def isPublic (name : String) : Bool := name.toList.head? != some '_'

/-- first binding of every key (a later `s.x = …` to an existing field raises `FieldReassignError`
in the real code; the model keeps the first and `dupSlots` reports the error) -/
def firsts {β} : List (String × β) → List (String × β)
  | [] => []
  | (k, v) :: r => (k, v) :: (firsts r).filter (fun p => p.1 != k)

def hasDup : List String → Bool
  | [] => false
  | a :: r => r.contains a || hasDup r

/-! ## the breadth-first walk over nested lists -/

def svSize {α} : SVal α → Nat
  | .one _ => 1
  | .many xs => 1 + (xs.map svSize).sum

def qSize {α} (q : List (SVal α × List Nat)) : Nat := (q.map (fun p => svSize p.1)).sum

/-- `(v, indices+(i,)) for i, v in enumerate(u)` -/
def enumIdx {α} (ix : List Nat) : Nat → List (SVal α) → List (SVal α × List Nat)
  | _, [] => []
  | k, v :: r => (v, ix ++ [k]) :: enumIdx ix (k + 1) r

theorem qSize_append {α} (a b : List (SVal α × List Nat)) : qSize (a ++ b) = qSize a + qSize b := by
  simp [qSize, List.sum_append]

theorem qSize_enumIdx {α} (ix : List Nat) (k : Nat) (xs : List (SVal α)) :
    qSize (enumIdx ix k xs) = (xs.map svSize).sum := by
  induction xs generalizing k with
  | nil => simp [enumIdx, qSize]
  | cons v r ih =>
    have := ih (k + 1)
    simp [enumIdx, qSize] at this ⊢
    omega

/-- The queue loop of `__setattr_for_elaborate__` / `Signal.__getattr__`:
`u, indices = Q.popleft()`; a `NamedObject` is named with `indices`; a list appends its
elements with `indices+(i,)` to the right end of the queue. -/
def bfs {α} : List (SVal α × List Nat) → List (Node α × List Nat)
  | [] => []
  | (.one d, ix) :: q => (d, ix) :: bfs q
  | (.many xs, ix) :: q => bfs (q ++ enumIdx ix 0 xs)
termination_by q => qSize q
decreasing_by
  · simp [qSize, svSize]
  · rw [qSize_append, qSize_enumIdx]; simp [qSize, svSize]; omega

/-- `__setattr_for_elaborate__`: the objects named by `s.<name> = sv` with their index tuples -/
def setattrNames {α} (sv : SVal α) : List (Node α × List Nat) :=
  match sv with
  | .one d => [(d, [])]
  | .many xs => bfs (enumIdx [] 0 xs)

/-- Python indexing `v[i0][i1]…` of a nested list -/
def getPath {α} (v : SVal α) : List Nat → Option (SVal α)
  | [] => some v
  | i :: r =>
    match v with
    | .many xs => match xs[i]? with
      | some w => getPath w r
      | none => none
    | .one _ => none

/-! ## the Python heap and expression evaluation -/

inductive PyVal where
  /-- a Component / Interface / MethodPort object -/
  | node (d : Desc)
  /-- a Python list stored in a slot -/
  | lst (xs : List (SVal DTag))
  /-- a Signal object of class `k`, type `ty`; `sl` = `_dsl.slice` -/
  | sig (k : SigKind) (ty : Ty) (sl : Option (Nat × Nat))
  /-- a Python list of field signals in a struct signal's `__dict__` -/
  | flst (k : SigKind) (xs : List (SVal TTag))

def toVal : SVal DTag → PyVal
  | .one (.mk (.sig k ty) _) => .sig k ty none
  | .one d => .node d
  | .many xs => .lst xs

def toFVal (k : SigKind) : SVal TTag → PyVal
  | .one t => .sig k t none
  | .many xs => .flst k xs

def PyVal.isObj : PyVal → Bool
  | .node _ => true
  | .sig _ _ _ => true
  | _ => false

def PyVal.kind? : PyVal → Option Kind
  | .node d => some (kindOfTag d.tag)
  | .sig k _ _ => some (.sig k)
  | _ => none

def PyVal.isComp (v : PyVal) : Bool := v.kind? == some .comp
def PyVal.isSig : PyVal → Bool
  | .sig _ _ _ => true
  | _ => false

abbrev State := Pos × PyVal

/-- `Signal.__getitem__` with `start, stop = lo, hi` on a Bits-typed signal at `pos` -/
def sliceStep (pos : Pos) (k : SigKind) (n : Nat) (sl : Option (Nat × Nat)) (lo hi : Nat) : Option State :=
  match sl with
  | none =>
    if lo < hi ∧ hi ≤ n then some (pos ++ [.slice lo hi], .sig k (.mk (.bits (hi - lo)) []) (some (lo, hi)))
    else none
  | some (olo, ohi) =>
    if lo < hi ∧ hi ≤ ohi - olo then
      some (pos.dropLast ++ [.slice (lo + olo) (hi + olo)],
            .sig k (.mk (.bits (hi - lo)) []) (some (lo + olo, hi + olo)))
    else none

/-- one step of evaluating a Python expression: `.a`, `[i]`, `[lo:hi]` applied to a heap value -/
def step (st : State) (t : Tok) : Option State :=
  match st.2, t with
  | .node d, .attr a => ((slotsOf d).lookup a).map fun sv => (st.1 ++ [t], toVal sv)
  | .lst xs, .idx i => (xs[i]?).map fun sv => (st.1 ++ [t], toVal sv)
  | .flst k xs, .idx i => (xs[i]?).map fun fv => (st.1 ++ [t], toFVal k fv)
  | .sig k (.mk .struct fs) _, .attr a => (fs.lookup a).map fun fv => (st.1 ++ [t], toFVal k fv)
  | .sig k (.mk (.bits n) _) sl, .idx i => sliceStep st.1 k n sl i (i + 1)
  | .sig k (.mk (.bits n) _) sl, .slice lo hi => sliceStep st.1 k n sl lo hi
  | _, _ => none

def run (st : State) : List Tok → Option State
  | [] => some st
  | t :: ts => match step st t with
    | some st' => run st' ts
    | none => none

def rootVal (root : Desc) : PyVal := toVal (.one root)

/-- `eval(name, {'s': top})`: heap location and value the expression evaluates to -/
def resolve (root : Desc) : Name → Option State
  | .root :: tl => run ([], rootVal root) tl
  | _ => none

/-! ## the bookkeeping stored in `_dsl` -/

structure Rec where
  pos : Pos                    -- identity (heap location)
  full : Name                  -- `_dsl.full_name` (= `repr`)
  my : Name                    -- `_dsl.my_name` (= `get_field_name()`)
  kind : Kind
  parent : Option Pos          -- `_dsl.parent_obj`
  level : Option Nat           -- `_dsl.level` (not set on lazily created signals)
  host : Pos                   -- `get_host_component()` (the component itself for a component)
  tls : Option Pos             -- `_dsl.top_level_signal` (signals only)
  slice : Option (Nat × Nat)   -- `_dsl.slice`
deriving DecidableEq, Repr

abbrev Item := Rec × PyVal

def rootRec (root : Desc) : Rec :=
  { pos := [], full := [.root], my := [.root], kind := kindOfTag root.tag, parent := none,
    level := some 0, host := [], tls := none, slice := none }

def rootItem (root : Desc) : Item := (rootRec root, rootVal root)

def suffixOf (name : String) (ix : List Nat) : List Tok := .attr name :: ix.map .idx

/-- `__setattr_for_elaborate__` naming `d` as `p.<name>[ix…]` -/
def childRec (p : Rec) (name : String) (ix : List Nat) (d : Desc) : Rec :=
  let sfx := suffixOf name ix
  let k := kindOfTag d.tag
  { pos := p.pos ++ sfx, full := p.full ++ sfx, my := sfx, kind := k, parent := some p.pos,
    level := p.level.map (· + 1),
    host := if k = .comp then p.pos ++ sfx else p.host,
    tls := match k with
      | .sig _ => some (p.pos ++ sfx)
      | _ => none,
    slice := none }

/-- `Signal.__getattr__` naming a field signal `p.<name>[ix…]` -/
def fieldRec (p : Rec) (name : String) (ix : List Nat) : Rec :=
  let sfx := suffixOf name ix
  { pos := p.pos ++ sfx, full := p.full ++ sfx, my := sfx, kind := p.kind, parent := some p.pos,
    level := none, host := p.host, tls := p.tls, slice := none }

/-- `Signal.__getitem__` creating the slice `[lo:hi]` under the unsliced signal `p` -/
def sliceRec (p : Rec) (lo hi : Nat) : Rec :=
  { pos := p.pos ++ [.slice lo hi], full := p.full ++ [.slice lo hi], my := p.my ++ [.slice lo hi],
    kind := p.kind, parent := some p.pos, level := none, host := p.host, tls := p.tls,
    slice := some (lo, hi) }

/-- objects named while `x`'s `construct` runs (its slots) -/
def slotItems (x : Item) : List Item :=
  match x.2 with
  | .node d =>
    ((firsts (slotsOf d)).filter fun p => isPublic p.1).flatMap fun p =>
      (setattrNames p.2).map fun (c, ix) => (childRec x.1 p.1 ix c, toVal (.one c))
  | _ => []

/-- the field signals `Signal.__getattr__(x, a)` creates (all elements of a list field at once) -/
def fieldItems (x : Item) (a : String) : List Item :=
  match x.2 with
  | .sig k (.mk .struct fs) _ =>
    match fs.lookup a with
    | some fv => (bfs [(fv, [])]).map fun (t, ix) => (fieldRec x.1 a ix, PyVal.sig k t none)
    | none => []
  | _ => []

/-- the slice object stored under key `(lo,hi)` in the `__dict__` of the unsliced signal `x` -/
def sliceItem (x : Item) (lo hi : Nat) : Option Item :=
  match x.2 with
  | .sig k (.mk (.bits n) _) none =>
    if lo < hi ∧ hi ≤ n then
      some (sliceRec x.1 lo hi, .sig k (.mk (.bits (hi - lo)) []) (some (lo, hi)))
    else none
  | _ => none

/-- every way an object of the hierarchy comes into existence -/
inductive Reach (root : Desc) : Item → Prop where
  | root : Reach root (rootItem root)
  | slot {x y} : Reach root x → y ∈ slotItems x → Reach root y
  | field {x y a} : Reach root x → y ∈ fieldItems x a → Reach root y
  | slice {x y lo hi} : Reach root x → sliceItem x lo hi = some y → Reach root y

/-! ## executable elaboration (driver side) -/

mutual
def Node.depth {α} : Node α → Nat
  | .mk _ slots => 1 + depthSlots slots
def depthSlots {α} : List (String × SVal α) → Nat
  | [] => 0
  | (_, v) :: r => max (SVal.depth v) (depthSlots r)
def SVal.depth {α} : SVal α → Nat
  | .one d => d.depth
  | .many xs => depthList xs
def depthList {α} : List (SVal α) → Nat
  | [] => 0
  | v :: r => max (SVal.depth v) (depthList r)
end

/-- all objects named during construction, generation by generation; `none` if the bound was
too small (never the case with `depth + 1`) -/
def expand : Nat → List Item → Option (List Item)
  | 0, fr => if fr.isEmpty then some [] else none
  | n + 1, fr => if fr.isEmpty then some [] else (expand n (fr.flatMap slotItems)).map (fr ++ ·)

def staticItems (root : Desc) : Option (List Item) := expand (root.depth + 1) [rootItem root]

/-- would `construct` of this object raise `FieldReassignError`? -/
def dupSlots (x : Item) : Bool :=
  match x.2 with
  | .node d => hasDup (((slotsOf d).map (·.1)).filter isPublic)
  | _ => false

def findPos (known : List Item) (pos : Pos) : Option Item := known.find? fun x => x.1.pos == pos

/-- `x[lo:hi]` evaluated on the signal object `x`: which object does `__getitem__` create / return -/
def sliceVia (known : List Item) (x : Item) (lo hi : Nat) : Option Item :=
  match x.1.slice with
  | none => sliceItem x lo hi
  | some (olo, ohi) =>
    if lo < hi ∧ hi ≤ ohi - olo then
      match x.1.parent.bind (findPos known) with
      | some px => sliceItem px (lo + olo) (hi + olo)
      | none => none
    else none

/-- objects that exist after applying `t` to the object at `pos` (lazy creation) -/
def lazyItems (known : List Item) (pos : Pos) (t : Tok) : List Item :=
  match findPos known pos with
  | none => []
  | some x =>
    match t with
    | .attr a => fieldItems x a
    | .idx i => (sliceVia known x i (i + 1)).toList
    | .slice lo hi => (sliceVia known x lo hi).toList
    | .root => []

/-- evaluate an access expression, creating field / slice signals on the way;
`none` = the expression raises -/
def access (known : List Item) (st : State) : List Tok → Option (List Item)
  | [] => some known
  | t :: ts =>
    match step st t with
    | some st' => access (known ++ lazyItems known st.1 t) st' ts
    | none => none

def accessAll (root : Desc) (known : List Item) : List (List Tok) → Option (List Item)
  | [] => some known
  | e :: es =>
    match access known ([], rootVal root) e with
    | some known' => accessAll root known' es
    | none => none

inductive ElabResult where
  | ok (items : List Item)
  | fieldReassign
  | badAccess
  | fuel

/-- elaborate the description, then evaluate the access expressions in order -/
def elabAll (root : Desc) (accs : List (List Tok)) : ElabResult :=
  match staticItems root with
  | none => .fuel
  | some items =>
    if items.any dupSlots then .fieldReassign
    else match accessAll root items accs with
      | some all => .ok all
      | none => .badAccess

end PV.Hier
